(* StrictFacts.v -- facts about the model of percolate_space_strict, percolation_conflicts,
   find_single_node_LDOIs and find_single_drivers (Strict.v).

   Main results: the reported result R of strict percolation of S is characterised through the
   final restriction P = merge S R, which is the least subspace of S closed under the strict
   rule; hence R does not depend on the iteration order of the candidate set. *)
From Coq Require Import List Bool Arith Lia Relations Permutation.
Import ListNotations.
From BB Require Import BN Brute SpaceFacts TrapFacts PercolateFacts Strict Termination.

(* ------------------------------------------------------------------ *)
(* 0. small facts on merge / top_space                                 *)
(* ------------------------------------------------------------------ *)

Lemma nth_merge : forall (x y : space) i, length x = length y ->
  nth i (merge x y) None = match nth i y None with Some w => Some w | None => nth i x None end.
Proof.
  induction x as [|a x IH]; intros [|b y] i Hlen; simpl in Hlen; try discriminate.
  - destruct i; reflexivity.
  - injection Hlen as Hlen. destruct i as [|i]; simpl.
    + destruct b as [w|]; reflexivity.
    + apply IH. exact Hlen.
Qed.

Lemma merge_set_nth : forall (x y : space) i c, length x = length y ->
  set_nth i (Some c) (merge x y) = merge x (set_nth i (Some c) y).
Proof.
  induction x as [|a x IH]; intros [|b y] i c Hlen; simpl in Hlen; try discriminate.
  - destruct i; reflexivity.
  - injection Hlen as Hlen. destruct i as [|i]; simpl.
    + reflexivity.
    + rewrite (IH y i c Hlen). reflexivity.
Qed.

Lemma merge_top : forall x : space, merge x (top_space (length x)) = x.
Proof.
  induction x as [|a x IH]; simpl; [reflexivity|].
  unfold top_space in IH. rewrite IH. reflexivity.
Qed.

Lemma top_space_length : forall n, length (top_space n) = n.
Proof.
  intros n. unfold top_space. apply repeat_length.
Qed.

Lemma merge_subspace_l : forall x y : space, length x = length y ->
  (forall i v w, nth i x None = Some v -> nth i y None = Some w -> v = w) ->
  subspace (merge x y) x = true.
Proof.
  intros x y Hlen Hag. apply subspace_nth; [apply merge_length; exact Hlen|].
  intros i v Hx. rewrite (nth_merge x y i Hlen).
  destruct (nth i y None) as [w|] eqn:Ey; [|exact Hx].
  rewrite (Hag i v w Hx Ey). reflexivity.
Qed.

(* ------------------------------------------------------------------ *)
(* 1. the invariant of the strict loop                                 *)
(* ------------------------------------------------------------------ *)

Definition strict_closed (N : net) (S P : space) : Prop :=
  forall v c, v < nvars N -> globally_const N v = false -> const_on N v P c ->
    (nth v S None = None \/ nth v S None = Some c) -> nth v P None = Some c.

(* cs: current candidates; restr: current restriction; res: current result *)
Definition sinv (N : net) (S : space) (cs : list nat) (restr res : space) : Prop :=
  length S = nvars N /\ length res = nvars N /\
  restr = merge S res /\
  (forall v, In v cs -> v < nvars N /\ globally_const N v = false) /\
  (forall v c, nth v res None = Some c ->
     v < nvars N /\ globally_const N v = false /\
     (nth v S None = None \/ nth v S None = Some c) /\ const_on N v restr c) /\
  (forall v, v < nvars N -> globally_const N v = false ->
     In v cs \/ (exists c, nth v res None = Some c) \/
     (exists c g, const_on N v restr c /\ nth v S None = Some g /\ g <> c)) /\
  (forall Q, subspace Q S = true -> strict_closed N S Q -> subspace Q restr = true).

Lemma sinv_restr_length : forall N S cs restr res,
  sinv N S cs restr res -> length restr = nvars N.
Proof.
  intros N S cs restr res (HS & Hres & Hm & _). subst restr.
  rewrite merge_length; [exact HS|]. rewrite HS, Hres. reflexivity.
Qed.

Lemma sinv_init : forall N order S, length S = nvars N ->
  (forall v, In v order <-> v < nvars N) ->
  sinv N S (filter (fun v => negb (globally_const N v)) order) S (top_space (nvars N)).
Proof.
  intros N order S HS Hord. unfold sinv.
  split; [exact HS|]. split; [apply top_space_length|].
  split; [rewrite <- HS; symmetry; apply merge_top|].
  split.
  { intros v Hin. apply filter_In in Hin. destruct Hin as [Hin Hg].
    split; [apply Hord; exact Hin|]. apply negb_true_iff in Hg. exact Hg. }
  split.
  { intros v c Hn. rewrite nth_top_space in Hn. discriminate Hn. }
  split.
  { intros v Hv Hg. left. apply filter_In. split; [apply Hord; exact Hv|].
    rewrite Hg. reflexivity. }
  intros Q HQ _. exact HQ.
Qed.

(* the value the restriction gives to v comes from S unless v has been reported *)
Lemma sinv_given : forall N S cs restr res v c,
  sinv N S cs restr res ->
  (nth v restr None = None \/ nth v restr None = Some c) ->
  nth v S None = None \/ nth v S None = Some c.
Proof.
  intros N S cs restr res v c Hinv Hv.
  destruct Hinv as (HS & Hres & Hm & _ & Hrep & _).
  assert (Hlen : length S = length res) by (rewrite HS, Hres; reflexivity).
  rewrite Hm, (nth_merge S res v Hlen) in Hv.
  destruct (nth v res None) as [w|] eqn:Er; [|exact Hv].
  destruct Hv as [Hv|Hv]; [discriminate Hv|]. injection Hv as Hv. subst w.
  destruct (Hrep v c Er) as (_ & _ & Hgiven & _). exact Hgiven.
Qed.

Lemma sinv_fix : forall N S cs cs' restr res v c,
  sinv N S cs restr res ->
  v < nvars N -> globally_const N v = false -> const_on N v restr c ->
  (nth v restr None = None \/ nth v restr None = Some c) ->
  (forall u, In u cs' -> In u cs) -> (forall u, In u cs -> u = v \/ In u cs') ->
  sinv N S cs' (set_nth v (Some c) restr) (set_nth v (Some c) res) /\
  subspace (set_nth v (Some c) restr) restr = true.
Proof.
  intros N S cs cs' restr res v c Hinv Hv Hg Hc Hrv Hincl Hcov.
  pose proof (sinv_restr_length _ _ _ _ _ Hinv) as Hlr.
  pose proof (sinv_given _ _ _ _ _ v c Hinv Hrv) as HSv.
  destruct Hinv as (HS & Hres & Hm & Hcs & Hrep & Hcomp & Hleast).
  assert (Hsub : subspace (set_nth v (Some c) restr) restr = true).
  { apply subspace_nth; [apply set_nth_length|].
    intros j w Hj. destruct (Nat.eq_dec v j) as [Heq|Hne].
    - subst j. rewrite nth_set_nth_eq by lia.
      destruct Hrv as [Hrv|Hrv]; rewrite Hrv in Hj; [discriminate Hj|].
      exact Hj.
    - rewrite nth_set_nth_neq by exact Hne. exact Hj. }
  split; [|exact Hsub]. unfold sinv.
  split; [exact HS|]. split; [rewrite set_nth_length; exact Hres|].
  split.
  { rewrite Hm. apply merge_set_nth. rewrite HS, Hres. reflexivity. }
  split.
  { intros u Hu. apply Hcs. apply Hincl. exact Hu. }
  split.
  { intros u c0 Hu. destruct (Nat.eq_dec v u) as [Heq|Hne].
    - subst u. rewrite nth_set_nth_eq in Hu by lia. injection Hu as Hu. subst c0.
      split; [exact Hv|]. split; [exact Hg|]. split; [exact HSv|].
      apply (const_on_mono N v restr _ c Hsub Hc).
    - rewrite nth_set_nth_neq in Hu by exact Hne.
      destruct (Hrep u c0 Hu) as (H1 & H2 & H3 & H4).
      split; [exact H1|]. split; [exact H2|]. split; [exact H3|].
      apply (const_on_mono N u restr _ c0 Hsub H4). }
  split.
  { intros u Hu Hgu. destruct (Nat.eq_dec v u) as [Heq|Hne].
    - subst u. right. left. exists c. apply nth_set_nth_eq. lia.
    - destruct (Hcomp u Hu Hgu) as [Hin|[[c0 Hr]|[c0 [g (Hc0 & Hg0 & Hne0)]]]].
      + destruct (Hcov u Hin) as [Heq|Hin']; [congruence|]. left. exact Hin'.
      + right. left. exists c0. rewrite nth_set_nth_neq by exact Hne. exact Hr.
      + right. right. exists c0, g. split; [|split; assumption].
        apply (const_on_mono N u restr _ c0 Hsub Hc0). }
  intros Q HQS HQc.
  pose proof (Hleast Q HQS HQc) as HQr.
  assert (HQv : nth v Q None = Some c).
  { apply (HQc v c Hv Hg); [|exact HSv].
    apply (const_on_mono N v restr Q c HQr Hc). }
  apply subspace_nth.
  { rewrite set_nth_length. apply subspace_length. exact HQr. }
  intros j w Hj. destruct (Nat.eq_dec v j) as [Heq|Hne].
  - subst j. rewrite nth_set_nth_eq in Hj by lia. injection Hj as Hj. subst w. exact HQv.
  - rewrite nth_set_nth_neq in Hj by exact Hne.
    apply (proj1 (subspace_nth Q restr (subspace_length Q restr HQr)) HQr j w Hj).
Qed.

Lemma sinv_drop : forall N S cs cs' restr res v c g,
  sinv N S cs restr res ->
  const_on N v restr c -> nth v restr None = Some g -> g <> c ->
  (forall u, In u cs' -> In u cs) -> (forall u, In u cs -> u = v \/ In u cs') ->
  sinv N S cs' restr res.
Proof.
  intros N S cs cs' restr res v c g Hinv Hc Hrv Hgc Hincl Hcov.
  pose proof (sinv_restr_length _ _ _ _ _ Hinv) as Hlr.
  destruct Hinv as (HS & Hres & Hm & Hcs & Hrep & Hcomp & Hleast).
  assert (HSv : nth v S None = Some g).
  { assert (Hlen : length S = length res) by (rewrite HS, Hres; reflexivity).
    pose proof Hrv as Hrv'. rewrite Hm, (nth_merge S res v Hlen) in Hrv'.
    destruct (nth v res None) as [w|] eqn:Er; [|exact Hrv'].
    injection Hrv' as Hw. subst w.
    destruct (Hrep v g Er) as (_ & _ & _ & Hcg).
    exfalso. apply Hgc. apply (const_on_unique N v restr g c Hlr Hcg Hc). }
  unfold sinv. split; [exact HS|]. split; [exact Hres|]. split; [exact Hm|].
  split.
  { intros u Hu. apply Hcs. apply Hincl. exact Hu. }
  split; [exact Hrep|]. split; [|exact Hleast].
  intros u Hu Hgu.
  destruct (Hcomp u Hu Hgu) as [Hin|[Hr|Hcf]].
  - destruct (Hcov u Hin) as [Heq|Hin'].
    + subst u. right. right. exists c, g. split; [exact Hc|]. split; [exact HSv|exact Hgc].
    + left. exact Hin'.
  - right. left. exact Hr.
  - right. right. exact Hcf.
Qed.

(* ------------------------------------------------------------------ *)
(* 2. one pass, the loop                                               *)
(* ------------------------------------------------------------------ *)

Lemma strict_pass_inv : forall N S order restr res keep changed c' r' s' ch',
  sinv N S (rev keep ++ order) restr res ->
  strict_pass N order restr res keep changed = (c', r', s', ch') ->
  sinv N S c' r' s' /\ subspace r' restr = true.
Proof.
  intros N S order. induction order as [|v order IH];
    intros restr res keep changed c' r' s' ch' Hinv E; simpl in E.
  - injection E as Hc Hr Hs Hch. subst c' r' s' ch'.
    rewrite app_nil_r in Hinv. split; [exact Hinv|apply subspace_refl].
  - pose proof (sinv_restr_length _ _ _ _ _ Hinv) as Hlr.
    assert (Hvc : v < nvars N /\ globally_const N v = false).
    { destruct Hinv as (_ & _ & _ & Hcs & _). apply Hcs.
      apply in_or_app. right. left. reflexivity. }
    destruct Hvc as [Hv Hg].
    assert (Hincl : forall u, In u (rev keep ++ order) -> In u (rev keep ++ v :: order)).
    { intros u Hu. apply in_app_or in Hu. apply in_or_app.
      destruct Hu as [Hu|Hu]; [left; exact Hu|right; right; exact Hu]. }
    assert (Hcov : forall u, In u (rev keep ++ v :: order) -> u = v \/ In u (rev keep ++ order)).
    { intros u Hu. apply in_app_or in Hu. destruct Hu as [Hu|[Hu|Hu]].
      - right. apply in_or_app. left. exact Hu.
      - left. symmetry. exact Hu.
      - right. apply in_or_app. right. exact Hu. }
    destruct (const_on_b N v restr) as [c|] eqn:Ec.
    + apply (const_on_b_some N v restr c Hlr) in Ec.
      assert (Hfix : (nth v restr None = None \/ nth v restr None = Some c) ->
                strict_pass N order (set_nth v (Some c) restr) (set_nth v (Some c) res) keep true
                  = (c', r', s', ch') ->
                sinv N S c' r' s' /\ subspace r' restr = true).
      { intros Hrv E'.
        destruct (sinv_fix N S _ (rev keep ++ order) restr res v c Hinv Hv Hg Ec Hrv Hincl Hcov)
          as [Hinv' Hsub'].
        destruct (IH _ _ _ _ _ _ _ _ Hinv' E') as [Hfin Hsub].
        split; [exact Hfin|]. apply (subspace_trans _ _ _ Hsub Hsub'). }
      destruct (nth v restr None) as [g|] eqn:En.
      * destruct (Bool.eqb g c) eqn:Eg.
        -- apply Bool.eqb_prop in Eg. subst g. apply Hfix; [right; reflexivity|exact E].
        -- assert (Hgc : g <> c).
           { intro Heq. subst g. rewrite Bool.eqb_reflx in Eg. discriminate Eg. }
           pose proof (sinv_drop N S _ (rev keep ++ order) restr res v c g Hinv Ec En Hgc Hincl Hcov)
             as Hinv'.
           apply (IH _ _ _ _ _ _ _ _ Hinv' E).
      * apply Hfix; [left; reflexivity|exact E].
    + apply (IH restr res (v :: keep) changed c' r' s' ch'); [|exact E].
      simpl. rewrite <- app_assoc. simpl. exact Hinv.
Qed.

Lemma strict_pass_true : forall N order restr res keep c' r' s' ch',
  strict_pass N order restr res keep true = (c', r', s', ch') -> ch' = true.
Proof.
  intros N order. induction order as [|v order IH];
    intros restr res keep c' r' s' ch' E; simpl in E.
  - injection E as _ _ _ Hch. symmetry. exact Hch.
  - destruct (const_on_b N v restr) as [c|].
    + destruct (nth v restr None) as [g|].
      * destruct (Bool.eqb g c); apply IH in E; exact E.
      * apply IH in E. exact E.
    + apply IH in E. exact E.
Qed.

Lemma strict_pass_false : forall N order restr res keep changed c' r' s',
  strict_pass N order restr res keep changed = (c', r', s', false) -> r' = restr.
Proof.
  intros N order. induction order as [|v order IH];
    intros restr res keep changed c' r' s' E; simpl in E.
  - injection E as _ Hr _ _. symmetry. exact Hr.
  - destruct (const_on_b N v restr) as [c|].
    + destruct (nth v restr None) as [g|].
      * destruct (Bool.eqb g c).
        -- apply strict_pass_true in E. discriminate E.
        -- apply IH in E. exact E.
      * apply strict_pass_true in E. discriminate E.
    + apply IH in E. exact E.
Qed.

Lemma strict_loop_inv : forall f N S cs restr res,
  sinv N S cs restr res -> length restr - nfixed restr < f ->
  exists cs' restr', sinv N S cs' restr' (strict_loop f N cs restr res) /\
                     (forall v, In v cs' -> const_on_b N v restr' = None).
Proof.
  induction f as [|f IH]; intros N S cs restr res Hinv Hm; [lia|].
  simpl. destruct (strict_pass N cs restr res [] false) as [[[c' r'] s'] ch'] eqn:E.
  destruct (strict_pass_inv N S cs restr res [] false c' r' s' ch' Hinv E) as [Hinv' _].
  destruct (strict_pass_progress N cs restr res [] false c' r' s' ch' E) as (Hlen & Hle & Hsame).
  assert (Hidle : nfixed r' <= nfixed restr ->
            r' = restr /\ forall v, In v c' -> const_on_b N v restr = None).
  { intro Hi. destruct (Hsame Hi) as [Hr Hc]. split; [exact Hr|].
    intros v Hin. destruct (Hc v Hin) as [[]|Hn]. exact Hn. }
  destruct ch'.
  - destruct (le_lt_dec (nfixed r') (nfixed restr)) as [Hi|Hprog].
    + destruct (Hidle Hi) as [Hr Hst]. subst r'.
      rewrite strict_loop_stable by exact Hst.
      exists c', restr. split; [exact Hinv'|exact Hst].
    + pose proof (nfixed_le_length r') as Hb.
      apply IH; [exact Hinv'|]. rewrite Hlen. lia.
  - pose proof (strict_pass_false _ _ _ _ _ _ _ _ _ E) as Hr. subst r'.
    destruct (Hidle (le_n _)) as [_ Hst].
    exists c', restr. split; [exact Hinv'|exact Hst].
Qed.

(* the state at the end of the strict percolation of S *)
Lemma strict_final : forall N order S, length S = nvars N ->
  (forall v, In v order <-> v < nvars N) ->
  exists cs, sinv N S cs (merge S (percolate_strict_ord N order S)) (percolate_strict_ord N order S) /\
             (forall v, In v cs ->
                const_on_b N v (merge S (percolate_strict_ord N order S)) = None).
Proof.
  intros N order S HS Hord. unfold percolate_strict_ord.
  pose proof (sinv_init N order S HS Hord) as Hinit.
  destruct (strict_loop_inv (Datatypes.S (nvars N)) N S _ S (top_space (nvars N)) Hinit)
    as [cs [restr' [Hinv Hst]]].
  { rewrite HS. lia. }
  exists cs. pose proof Hinv as (_ & _ & Hm & _). rewrite <- Hm.
  split; [exact Hinv|exact Hst].
Qed.

Lemma percolate_strict_ord_length : forall N order S, length S = nvars N ->
  (forall v, In v order <-> v < nvars N) ->
  length (percolate_strict_ord N order S) = nvars N.
Proof.
  intros N order S HS Hord.
  destruct (strict_final N order S HS Hord) as [cs [(_ & Hres & _) _]]. exact Hres.
Qed.

Lemma strict_restriction_length : forall N order S, length S = nvars N ->
  (forall v, In v order <-> v < nvars N) ->
  length (merge S (percolate_strict_ord N order S)) = nvars N.
Proof.
  intros N order S HS Hord.
  destruct (strict_final N order S HS Hord) as [cs [Hinv _]].
  apply (sinv_restr_length _ _ _ _ _ Hinv).
Qed.

(* ------------------------------------------------------------------ *)
(* 3. characterisation of the result                                   *)
(* ------------------------------------------------------------------ *)

Theorem strict_result_shape : forall N order S v c, length S = nvars N -> NoDup order ->
  (forall v, In v order <-> v < nvars N) ->
  nth v (percolate_strict_ord N order S) None = Some c ->
  v < nvars N /\ globally_const N v = false /\ (nth v S None = None \/ nth v S None = Some c) /\
  const_on N v (merge S (percolate_strict_ord N order S)) c.
Proof.
  intros N order S v c HS _ Hord Hn.
  destruct (strict_final N order S HS Hord) as [cs [(_ & _ & _ & _ & Hrep & _) _]].
  apply Hrep. exact Hn.
Qed.

(* every variable the strict rule applies to in the final restriction is reported *)
Theorem strict_result_complete : forall N order S v c, length S = nvars N ->
  (forall v, In v order <-> v < nvars N) ->
  v < nvars N -> globally_const N v = false ->
  const_on N v (merge S (percolate_strict_ord N order S)) c ->
  (nth v S None = None \/ nth v S None = Some c) ->
  nth v (percolate_strict_ord N order S) None = Some c.
Proof.
  intros N order S v c HS Hord Hv Hg Hc HSv.
  destruct (strict_final N order S HS Hord) as [cs [Hinv Hst]].
  pose proof (sinv_restr_length _ _ _ _ _ Hinv) as Hlr.
  destruct Hinv as (_ & _ & _ & _ & Hrep & Hcomp & _).
  destruct (Hcomp v Hv Hg) as [Hin|[[c0 Hr]|[c0 [g (Hc0 & Hg0 & Hne0)]]]].
  - exfalso. apply Hst in Hin.
    apply (proj1 (const_on_b_none N v _ Hlr) Hin c Hc).
  - destruct (Hrep v c0 Hr) as (_ & _ & _ & Hc0).
    rewrite (const_on_unique N v _ c c0 Hlr Hc Hc0). exact Hr.
  - exfalso. pose proof (const_on_unique N v _ c c0 Hlr Hc Hc0) as Heq. subst c0.
    destruct HSv as [HSv|HSv]; rewrite HSv in Hg0; [discriminate Hg0|].
    injection Hg0 as Hg0. apply Hne0. symmetry. exact Hg0.
Qed.

Theorem strict_result_closed : forall N order S, length S = nvars N -> NoDup order ->
  (forall v, In v order <-> v < nvars N) ->
  strict_closed N S (merge S (percolate_strict_ord N order S)).
Proof.
  intros N order S HS _ Hord v c Hv Hg Hc HSv.
  pose proof (strict_result_complete N order S v c HS Hord Hv Hg Hc HSv) as Hr.
  rewrite nth_merge.
  - rewrite Hr. reflexivity.
  - rewrite HS. symmetry. apply percolate_strict_ord_length; assumption.
Qed.

Theorem strict_result_least : forall N order S Q, length S = nvars N -> NoDup order ->
  (forall v, In v order <-> v < nvars N) ->
  subspace Q S = true -> strict_closed N S Q ->
  subspace Q (merge S (percolate_strict_ord N order S)) = true.
Proof.
  intros N order S Q HS _ Hord HQS HQc.
  destruct (strict_final N order S HS Hord) as [cs [(_ & _ & _ & _ & _ & _ & Hleast) _]].
  apply Hleast; assumption.
Qed.

(* the final restriction refines S: reported values agree with the given ones *)
Theorem strict_restriction_subspace : forall N order S, length S = nvars N ->
  (forall v, In v order <-> v < nvars N) ->
  subspace (merge S (percolate_strict_ord N order S)) S = true.
Proof.
  intros N order S HS Hord.
  destruct (strict_final N order S HS Hord) as [cs [(_ & Hres & _ & _ & Hrep & _) _]].
  apply merge_subspace_l; [rewrite HS, Hres; reflexivity|].
  intros i v w Hi Hr. destruct (Hrep i w Hr) as (_ & _ & [Hn|Hn] & _); rewrite Hn in Hi.
  - discriminate Hi.
  - injection Hi as Hi. symmetry. exact Hi.
Qed.

(* the final restriction does not depend on the order ... *)
Lemma strict_restriction_order_independent : forall N order1 order2 S, length S = nvars N ->
  (forall v, In v order1 <-> v < nvars N) -> (forall v, In v order2 <-> v < nvars N) ->
  merge S (percolate_strict_ord N order1 S) = merge S (percolate_strict_ord N order2 S).
Proof.
  intros N order1 order2 S HS H1 H2.
  destruct (strict_final N order1 S HS H1) as [cs1 [Hinv1 _]].
  destruct (strict_final N order2 S HS H2) as [cs2 [Hinv2 _]].
  destruct Hinv1 as (_ & _ & _ & _ & _ & _ & Hleast1).
  destruct Hinv2 as (_ & _ & _ & _ & _ & _ & Hleast2).
  apply subspace_antisym.
  - apply Hleast2.
    + apply strict_restriction_subspace; assumption.
    + intros v c Hv Hg Hc HSv.
      pose proof (strict_result_complete N order1 S v c HS H1 Hv Hg Hc HSv) as Hr.
      rewrite nth_merge.
      * rewrite Hr. reflexivity.
      * rewrite HS. symmetry. apply percolate_strict_ord_length; assumption.
  - apply Hleast1.
    + apply strict_restriction_subspace; assumption.
    + intros v c Hv Hg Hc HSv.
      pose proof (strict_result_complete N order2 S v c HS H2 Hv Hg Hc HSv) as Hr.
      rewrite nth_merge.
      * rewrite Hr. reflexivity.
      * rewrite HS. symmetry. apply percolate_strict_ord_length; assumption.
Qed.

(* ... and the reported result is determined by the final restriction and S *)
Lemma strict_result_determined : forall N order S v c, length S = nvars N ->
  (forall v, In v order <-> v < nvars N) ->
  (nth v (percolate_strict_ord N order S) None = Some c <->
   v < nvars N /\ globally_const N v = false /\ (nth v S None = None \/ nth v S None = Some c) /\
   const_on N v (merge S (percolate_strict_ord N order S)) c).
Proof.
  intros N order S v c HS Hord. split.
  - intro Hr. destruct (strict_final N order S HS Hord) as [cs [(_ & _ & _ & _ & Hrep & _) _]].
    apply Hrep. exact Hr.
  - intros (Hv & Hg & HSv & Hc). apply strict_result_complete; assumption.
Qed.

Theorem strict_order_independent : forall N order1 order2 S, length S = nvars N ->
  NoDup order1 -> NoDup order2 ->
  (forall v, In v order1 <-> v < nvars N) -> (forall v, In v order2 <-> v < nvars N) ->
  percolate_strict_ord N order1 S = percolate_strict_ord N order2 S.
Proof.
  intros N order1 order2 S HS _ _ H1 H2.
  pose proof (strict_restriction_order_independent N order1 order2 S HS H1 H2) as HP.
  pose proof (percolate_strict_ord_length N order1 S HS H1) as L1.
  pose proof (percolate_strict_ord_length N order2 S HS H2) as L2.
  assert (Hdir : forall oa ob, (forall v, In v oa <-> v < nvars N) ->
            (forall v, In v ob <-> v < nvars N) ->
            merge S (percolate_strict_ord N oa S) = merge S (percolate_strict_ord N ob S) ->
            forall v c, nth v (percolate_strict_ord N oa S) None = Some c ->
                        nth v (percolate_strict_ord N ob S) None = Some c).
  { intros oa ob Ha Hb Heq v c Hr.
    apply (strict_result_determined N oa S v c HS Ha) in Hr.
    apply (strict_result_determined N ob S v c HS Hb).
    rewrite <- Heq. exact Hr. }
  apply (nth_ext _ _ None None); [rewrite L1, L2; reflexivity|].
  intros v _.
  destruct (nth v (percolate_strict_ord N order1 S) None) as [c|] eqn:E1.
  - symmetry. apply (Hdir order1 order2 H1 H2 HP v c E1).
  - destruct (nth v (percolate_strict_ord N order2 S) None) as [c|] eqn:E2; [|reflexivity].
    pose proof (Hdir order2 order1 H2 H1 (eq_sym HP) v c E2) as E1'.
    rewrite E1 in E1'. discriminate E1'.
Qed.

(* ------------------------------------------------------------------ *)
(* 4. relation with ordinary percolation                               *)
(* ------------------------------------------------------------------ *)

Lemma seq_order : forall n v, In v (seq 0 n) <-> v < n.
Proof.
  intros n v. rewrite in_seq. lia.
Qed.

Lemma percolate_b_subspace : forall N S, length S = nvars N ->
  subspace (percolate_b N S) S = true.
Proof.
  intros N S HS.
  destruct (perc_steps_subspace N S _ HS (percolate_b_steps N S HS)) as [Hsub _]. exact Hsub.
Qed.

(* ordinary percolation refines the final restriction of strict percolation: whatever the
   strict version fixes (given or reported), the ordinary version fixes to the same value.
   No hypothesis on globally constant variables is needed for this direction. *)
Theorem percolate_sub_strict : forall N S, length S = nvars N ->
  subspace (percolate_b N S) (merge S (percolate_strict_b N S)) = true.
Proof.
  intros N S HS. unfold percolate_strict_b.
  apply strict_result_least; [exact HS|apply seq_NoDup|apply seq_order| |].
  - apply percolate_b_subspace. exact HS.
  - intros v c Hv _ Hc [Hn|Hs].
    + apply (P_closed_cond N S (percolate_b N S) HS (percolate_b_steps N S HS)
               (percolate_b_closed N S HS) v c Hv Hn Hc).
    + apply percolate_b_keeps; assumption.
Qed.

Theorem strict_vs_percolate_strong : forall N S v c, length S = nvars N ->
  nth v (percolate_strict_b N S) None = Some c ->
  nth v (percolate_b N S) None = Some c.
Proof.
  intros N S v c HS Hr.
  pose proof (percolate_sub_strict N S HS) as Hsub.
  apply (proj1 (subspace_nth _ _ (subspace_length _ _ Hsub)) Hsub v c).
  rewrite nth_merge.
  - rewrite Hr. reflexivity.
  - rewrite HS. symmetry. apply percolate_strict_ord_length; [exact HS|apply seq_order].
Qed.

Theorem strict_vs_percolate : forall N S v c, length S = nvars N ->
  (forall u, u < nvars N -> globally_const N u = false) ->
  nth v (percolate_strict_b N S) None = Some c -> nth v S None = None ->
  nth v (percolate_b N S) None = Some c.
Proof.
  intros N S v c HS _ Hr _. apply strict_vs_percolate_strong; assumption.
Qed.

(* without globally constant variables the two percolations compute the same space *)
Theorem strict_eq_percolate : forall N S, length S = nvars N ->
  (forall u, u < nvars N -> globally_const N u = false) ->
  merge S (percolate_strict_b N S) = percolate_b N S.
Proof.
  intros N S HS Hng. apply subspace_antisym; [|apply percolate_sub_strict; exact HS].
  apply percolate_b_least; [exact HS| |].
  - apply strict_restriction_subspace; [exact HS|apply seq_order].
  - intros i v Hi Hn Hc. unfold percolate_strict_b in *.
    apply (strict_result_closed N (seq 0 (nvars N)) S HS (seq_NoDup _ _) (seq_order _) i v Hi
             (Hng i Hi) Hc).
    left. exact Hn.
Qed.

(* ------------------------------------------------------------------ *)
(* 5. single-variable LDOIs and drivers                                *)
(* ------------------------------------------------------------------ *)

Theorem single_ldois_spec : forall N v b X, In (v, b, X) (single_ldois N) <->
  v < nvars N /\ globally_const N v = false /\
  X = percolate_strict_b N (single_space (nvars N) v b).
Proof.
  intros N v b X. unfold single_ldois. rewrite in_flat_map. split.
  - intros [u [Hu Hin]]. apply seq_order in Hu.
    destruct (globally_const N u) eqn:Eg; [destruct Hin|].
    destruct Hin as [Heq|[Heq|[]]]; injection Heq as H1 H2 H3; subst u b X;
      (split; [exact Hu|]; split; [exact Eg|reflexivity]).
  - intros (Hv & Hg & HX). exists v. split; [apply seq_order; exact Hv|].
    rewrite Hg. subst X. destruct b; [right; left; reflexivity|left; reflexivity].
Qed.

Lemma single_space_length : forall n v b, length (single_space n v b) = n.
Proof.
  intros n v b. unfold single_space. rewrite set_nth_length. apply top_space_length.
Qed.

Lemma nth_single_space_eq : forall n v b, v < n -> nth v (single_space n v b) None = Some b.
Proof.
  intros n v b Hv. unfold single_space. apply nth_set_nth_eq. rewrite top_space_length. exact Hv.
Qed.

(* the LDOI of {v: b} never contains (v, 1-b) *)
Lemma single_ldoi_consistent : forall N v b w, v < nvars N ->
  nth v (percolate_strict_b N (single_space (nvars N) v b)) None = Some w -> w = b.
Proof.
  intros N v b w Hv Hr. unfold percolate_strict_b in Hr.
  destruct (strict_result_shape N (seq 0 (nvars N)) (single_space (nvars N) v b) v w
              (single_space_length _ _ _) (seq_NoDup _ _) (seq_order _) Hr)
    as (_ & _ & HSv & _).
  rewrite (nth_single_space_eq _ v b Hv) in HSv.
  destruct HSv as [HSv|HSv]; [discriminate HSv|]. injection HSv as HSv. symmetry. exact HSv.
Qed.

Theorem single_drivers_spec : forall N target v b, length target = nvars N ->
  (In (v, b) (single_drivers N target) <->
   v < nvars N /\ globally_const N v = false /\
   forall u w, nth u target None = Some w ->
     (u = v /\ w = b) \/ nth u (percolate_strict_b N (single_space (nvars N) v b)) None = Some w).
Proof.
  intros N target v b HT.
  assert (HL : length (percolate_strict_b N (single_space (nvars N) v b)) = nvars N).
  { unfold percolate_strict_b. apply percolate_strict_ord_length;
      [apply single_space_length|apply seq_order]. }
  assert (Hlen : length (set_nth v (Some b) (percolate_strict_b N (single_space (nvars N) v b)))
                 = length target).
  { rewrite set_nth_length, HL, HT. reflexivity. }
  unfold single_drivers. rewrite in_map_iff. split.
  - intros [[[v0 b0] X] [Heq Hin]]. simpl in Heq. injection Heq as H1 H2. subst v0 b0.
    apply filter_In in Hin. destruct Hin as [Hin Hdr]. simpl in Hdr.
    apply single_ldois_spec in Hin. destruct Hin as (Hv & Hg & HX). subst X.
    split; [exact Hv|]. split; [exact Hg|].
    intros u w Hu. unfold drives in Hdr.
    pose proof (proj1 (subspace_nth _ _ Hlen) Hdr u w Hu) as Hn.
    destruct (Nat.eq_dec v u) as [Heq|Hne].
    + subst u. rewrite nth_set_nth_eq in Hn by (rewrite HL; exact Hv).
      injection Hn as Hn. left. split; [reflexivity|symmetry; exact Hn].
    + rewrite nth_set_nth_neq in Hn by exact Hne. right. exact Hn.
  - intros (Hv & Hg & Hall).
    exists (v, b, percolate_strict_b N (single_space (nvars N) v b)).
    split; [reflexivity|]. apply filter_In. split.
    + apply single_ldois_spec. split; [exact Hv|]. split; [exact Hg|reflexivity].
    + simpl. unfold drives. apply (subspace_nth _ _ Hlen).
      intros u w Hu. destruct (Nat.eq_dec v u) as [Heq|Hne].
      * subst u. rewrite nth_set_nth_eq by (rewrite HL; exact Hv).
        destruct (Hall v w Hu) as [[_ Hw]|Hr]; [subst w; reflexivity|].
        rewrite (single_ldoi_consistent N v b w Hv Hr). reflexivity.
      * rewrite nth_set_nth_neq by exact Hne.
        destruct (Hall u w Hu) as [[Heq _]|Hr]; [congruence|exact Hr].
Qed.

(* the Python test `target.items() <= LDOI.items() | {(v, b)}` (a union of item sets, which
   could in principle hold both (v, b) and (v, 1-b)) coincides with the overriding reading
   used by `drives`, because of single_ldoi_consistent *)
Theorem single_drivers_items_reading : forall N target v b, length target = nvars N ->
  v < nvars N -> globally_const N v = false ->
  (drives target (percolate_strict_b N (single_space (nvars N) v b)) v b = true <->
   forall u w, nth u target None = Some w ->
     nth u (percolate_strict_b N (single_space (nvars N) v b)) None = Some w \/ (u, w) = (v, b)).
Proof.
  intros N target v b HT Hv Hg.
  pose proof (single_drivers_spec N target v b HT) as Hspec.
  split.
  - intros Hdr u w Hu.
    assert (Hin : In (v, b) (single_drivers N target)).
    { unfold single_drivers. apply in_map_iff.
      exists (v, b, percolate_strict_b N (single_space (nvars N) v b)).
      split; [reflexivity|]. apply filter_In. split; [|exact Hdr].
      apply single_ldois_spec. split; [exact Hv|]. split; [exact Hg|reflexivity]. }
    destruct (proj1 Hspec Hin) as (_ & _ & Hall).
    destruct (Hall u w Hu) as [[H1 H2]|Hr]; [right; subst; reflexivity|left; exact Hr].
  - intros Hall.
    assert (Hin : In (v, b) (single_drivers N target)).
    { apply Hspec. split; [exact Hv|]. split; [exact Hg|].
      intros u w Hu. destruct (Hall u w Hu) as [Hr|Heq]; [right; exact Hr|].
      injection Heq as H1 H2. left. split; assumption. }
    unfold single_drivers in Hin. apply in_map_iff in Hin.
    destruct Hin as [[[v0 b0] X] [Heq Hin]]. simpl in Heq. injection Heq as H1 H2. subst v0 b0.
    apply filter_In in Hin. destruct Hin as [Hin Hdr]. simpl in Hdr.
    apply single_ldois_spec in Hin. destruct Hin as (_ & _ & HX). subst X. exact Hdr.
Qed.

(* ------------------------------------------------------------------ *)
(* 6. conflicts                                                        *)
(* ------------------------------------------------------------------ *)

Theorem conflicts_b_spec : forall N S v, length S = nvars N ->
  (In v (conflicts_b N S) <->
   v < nvars N /\ exists g c, nth v (percolate_b N S) None = Some g /\
                              const_on N v (percolate_b N S) c /\ g <> c).
Proof.
  intros N S v HS.
  assert (HP : length (percolate_b N S) = nvars N) by (rewrite percolate_b_length; exact HS).
  unfold conflicts_b. rewrite filter_In, seq_order. split.
  - intros [Hv Hf]. split; [exact Hv|].
    destruct (nth v (percolate_b N S) None) as [g|]; [|discriminate Hf].
    destruct (const_on_b N v (percolate_b N S)) as [c|] eqn:Ec; [|discriminate Hf].
    exists g, c. split; [reflexivity|]. split.
    + apply (const_on_b_some N v _ c HP). exact Ec.
    + intro Heq. subst g. rewrite Bool.eqb_reflx in Hf. discriminate Hf.
  - intros [Hv [g [c (Hg & Hc & Hne)]]]. split; [exact Hv|].
    rewrite Hg. apply (const_on_b_some N v _ c HP) in Hc. rewrite Hc.
    destruct g, c; try reflexivity; exfalso; apply Hne; reflexivity.
Qed.

Print Assumptions strict_order_independent.
Print Assumptions strict_result_least.
Print Assumptions single_drivers_spec.
