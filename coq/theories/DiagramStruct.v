(* DiagramStruct.v -- structural facts about the succession-diagram model:
   1. a basic API for the primitives (upd_node, raise_depth, ensure_edge,
      ensure_node, find_key / find_node),
   2. the structural invariant SWF is preserved by every operation,
   3. a generic invariant-transfer principle (step_transfer),
   4. every operation extends the diagram (step_extends). *)
From Coq Require Import List Bool Arith NArith Lia Permutation.
Import ListNotations.
From BB Require Import BN Brute SpaceFacts TrapFacts PercolateFacts Diagram Invariants.

Local Arguments percolate_b : simpl never.
Local Arguments expand_one : simpl never.
Local Arguments node_successors : simpl never.
Local Arguments ensure_node : simpl never.
Local Arguments ensure_edge : simpl never.
Local Arguments raise_depth : simpl never.
Local Arguments max_traps_b : simpl never.
Local Arguments min_traps_b : simpl never.
Local Arguments make_skip_node : simpl never.
Local Arguments upd_node : simpl never.

(* ================================================================== *)
(* 0. list helpers                                                     *)
(* ================================================================== *)

Lemma map_set_nth : forall (A B : Type) (g : A -> B) (l : list A) i v,
  map g (set_nth i v l) = set_nth i (g v) (map g l).
Proof.
  intros A B g l. induction l as [|h t IH]; intros [|i] v; simpl; try reflexivity.
  rewrite IH. reflexivity.
Qed.

Lemma Forall2_nth_rel : forall (A : Type) (R : A -> A -> Prop) (l l' : list A) (a a' : A),
  Forall2 R l l' -> R a a' -> forall i, R (nth i l a) (nth i l' a').
Proof.
  intros A R l l' a a' HF. induction HF as [|x y l l' Hxy HF IH]; intros Ha [|i]; simpl; auto.
Qed.

Lemma Forall2_refl_rel : forall (A : Type) (R : A -> A -> Prop) (l : list A),
  (forall x, R x x) -> Forall2 R l l.
Proof.
  intros A R l Hr. induction l as [|h t IH]; constructor; auto.
Qed.

Lemma Forall2_trans_rel : forall (A : Type) (R : A -> A -> Prop) (l1 l2 l3 : list A),
  (forall x y z, R x y -> R y z -> R x z) ->
  Forall2 R l1 l2 -> Forall2 R l2 l3 -> Forall2 R l1 l3.
Proof.
  intros A R l1 l2 l3 Ht H12. revert l3.
  induction H12 as [|x y l1 l2 Hxy H12 IH]; intros l3 H23; inversion H23; subst; constructor.
  - eapply Ht; eauto.
  - apply IH; assumption.
Qed.

Lemma Forall2_set_nth : forall (A : Type) (R : A -> A -> Prop) (l : list A) (a : A) i v,
  (forall x, R x x) -> R (nth i l a) v -> Forall2 R l (set_nth i v l).
Proof.
  intros A R l a i v Hr. revert i.
  induction l as [|h t IH]; intros [|i] Hv; simpl in *; constructor; auto.
  apply Forall2_refl_rel; assumption.
Qed.

Lemma Forall2_length_rel : forall (A : Type) (R : A -> A -> Prop) (l l' : list A),
  Forall2 R l l' -> length l = length l'.
Proof.
  intros A R l l' HF. induction HF as [|x y l l' Hxy HF IH]; simpl; [reflexivity|].
  rewrite IH. reflexivity.
Qed.

Lemma In_firstn_in : forall (A : Type) k (l : list A) x, In x (firstn k l) -> In x l.
Proof.
  intros A k l x Hin. rewrite <- (firstn_skipn k l). apply in_or_app. left; assumption.
Qed.

Lemma insert_by_key_In : forall x y l, In x (insert_by_key y l) -> x = y \/ In x l.
Proof.
  intros x y l. induction l as [|h t IH]; simpl; intro Hin.
  - destruct Hin as [Heq|[]]. left; auto.
  - destruct (N.leb (space_key y) (space_key h)).
    + destruct Hin as [Heq|Hin]; [left; auto|right; exact Hin].
    + destruct Hin as [Heq|Hin]; [right; left; exact Heq|].
      apply IH in Hin. destruct Hin as [Heq|Hin]; [left; exact Heq|right; right; exact Hin].
Qed.

Lemma sort_by_key_In : forall x l, In x (sort_by_key l) -> In x l.
Proof.
  intros x l. induction l as [|h t IH]; simpl; intro Hin; [exact Hin|].
  apply insert_by_key_In in Hin. destruct Hin as [Heq|Hin]; [left; auto|right; auto].
Qed.

Lemma insert_nat_In : forall x y l, In x (insert_nat y l) -> x = y \/ In x l.
Proof.
  intros x y l. induction l as [|h t IH]; simpl; intro Hin.
  - destruct Hin as [Heq|[]]. left; auto.
  - destruct (Nat.leb y h).
    + destruct Hin as [Heq|Hin]; [left; auto|right; exact Hin].
    + destruct Hin as [Heq|Hin]; [right; left; exact Heq|].
      apply IH in Hin. destruct Hin as [Heq|Hin]; [left; exact Heq|right; right; exact Hin].
Qed.

Lemma sort_nat_In : forall x l, In x (sort_nat l) -> In x l.
Proof.
  intros x l. induction l as [|h t IH]; simpl; intro Hin; [exact Hin|].
  apply insert_nat_In in Hin. destruct Hin as [Heq|Hin]; [left; auto|right; auto].
Qed.

(* ================================================================== *)
(* 1. nodes: size, get, upd_node, spaces                               *)
(* ================================================================== *)

Lemma size_upd_node : forall d i f, size (upd_node d i f) = size d.
Proof.
  intros d i f. unfold size, upd_node. simpl. apply set_nth_length.
Qed.

Lemma get_upd_node_eq : forall d i f, i < size d -> get (upd_node d i f) i = f (get d i).
Proof.
  intros d i f Hlt. unfold get, upd_node. simpl. apply nth_set_nth_eq. exact Hlt.
Qed.

Lemma get_upd_node_neq : forall d i j f, i <> j -> get (upd_node d i f) j = get d j.
Proof.
  intros d i j f Hne. unfold get, upd_node. simpl. apply nth_set_nth_neq. exact Hne.
Qed.

Lemma sd_edges_upd_node : forall d i f, sd_edges (upd_node d i f) = sd_edges d.
Proof. intros d i f. reflexivity. Qed.

Lemma upd_node_beyond : forall d i f, size d <= i -> upd_node d i f = d.
Proof.
  intros [ns es] i f Hle. unfold upd_node, size in *. simpl in *.
  f_equal. apply set_nth_beyond. exact Hle.
Qed.

Lemma get_upd_node_cases : forall d i j f,
  get (upd_node d i f) j = get d j \/
  (j = i /\ i < size d /\ get (upd_node d i f) j = f (get d j)).
Proof.
  intros d i j f. destruct (Nat.eq_dec i j) as [Heq|Hne].
  - subst j. destruct (lt_dec i (size d)) as [Hlt|Hge].
    + right. split; [reflexivity|]. split; [exact Hlt|]. apply get_upd_node_eq. exact Hlt.
    + left. rewrite upd_node_beyond by lia. reflexivity.
  - left. apply get_upd_node_neq. exact Hne.
Qed.

Lemma length_spaces : forall d, length (spaces d) = size d.
Proof. intros d. unfold spaces, size. apply map_length. Qed.

Lemma nth_spaces : forall d i, nth i (spaces d) [] = n_space (get d i).
Proof.
  intros d i. unfold spaces, get.
  change (@nil (option bool)) with (n_space dummy_node). apply map_nth.
Qed.

Lemma spaces_upd_node : forall d i f,
  (forall x, n_space (f x) = n_space x) -> spaces (upd_node d i f) = spaces d.
Proof.
  intros d i f Hf. unfold spaces, upd_node. simpl.
  rewrite map_set_nth, Hf. unfold get.
  destruct (lt_dec i (length (sd_nodes d))) as [Hlt|Hge].
  - rewrite <- (map_nth n_space). apply set_nth_same. rewrite map_length. exact Hlt.
  - apply set_nth_beyond. rewrite map_length. lia.
Qed.

Lemma In_nodes_iff : forall d x,
  In x (sd_nodes d) <-> exists i, i < size d /\ get d i = x.
Proof.
  intros d x. unfold size, get. split.
  - intro Hin. apply In_nth. exact Hin.
  - intros [i [Hlt Heq]]. subst x. apply nth_In. exact Hlt.
Qed.

Lemma get_In : forall d i, i < size d -> In (get d i) (sd_nodes d).
Proof.
  intros d i Hlt. apply In_nodes_iff. exists i. split; [exact Hlt|reflexivity].
Qed.

Lemma get_beyond : forall d i, size d <= i -> get d i = dummy_node.
Proof.
  intros d i Hle. unfold get. apply nth_overflow. exact Hle.
Qed.

Lemma In_spaces_iff : forall d X,
  In X (spaces d) <-> exists i, i < size d /\ n_space (get d i) = X.
Proof.
  intros d X. unfold spaces. rewrite in_map_iff. split.
  - intros [x [Heq Hin]]. apply In_nodes_iff in Hin. destruct Hin as [i [Hlt Hget]].
    exists i. split; [exact Hlt|]. rewrite Hget. exact Heq.
  - intros [i [Hlt Heq]]. exists (get d i). split; [exact Heq|]. apply get_In. exact Hlt.
Qed.

(* the flag setters used by the model: they never touch n_space / n_depth,
   and never reset n_exp *)
Inductive flag_setter : (node -> node) -> Prop :=
| fs_exp : flag_setter (fun y => set_exp y true)
| fs_skip : flag_setter (fun y => set_skip y true)
| fs_clear : flag_setter clear_attr
| fs_cands : forall c, flag_setter (fun y => set_cands y c)
| fs_seeds : forall c, flag_setter (fun y => set_seeds y c)
| fs_sets : forall c, flag_setter (fun y => set_sets y c).

Lemma flag_setter_space : forall f x, flag_setter f -> n_space (f x) = n_space x.
Proof. intros f x Hf. destruct Hf; reflexivity. Qed.

Lemma flag_setter_depth : forall f x, flag_setter f -> n_depth (f x) = n_depth x.
Proof. intros f x Hf. destruct Hf; reflexivity. Qed.

Lemma flag_setter_parent : forall f x, flag_setter f -> n_parent (f x) = n_parent x.
Proof. intros f x Hf. destruct Hf; reflexivity. Qed.

Lemma flag_setter_exp : forall f x, flag_setter f -> n_exp x = true -> n_exp (f x) = true.
Proof. intros f x Hf Hx. destruct Hf; simpl; auto. Qed.

Lemma spaces_upd_flag : forall d i f, flag_setter f -> spaces (upd_node d i f) = spaces d.
Proof.
  intros d i f Hf. apply spaces_upd_node. intro x. apply flag_setter_space. exact Hf.
Qed.

Lemma spaces_mark_expanded : forall d i, spaces (mark_expanded d i) = spaces d.
Proof. intros d i. unfold mark_expanded. apply spaces_upd_flag. constructor. Qed.

Lemma size_mark_expanded : forall d i, size (mark_expanded d i) = size d.
Proof. intros d i. unfold mark_expanded. apply size_upd_node. Qed.

(* ================================================================== *)
(* 2. raise_depth only changes depths                                  *)
(* ================================================================== *)

Definition node_eq_mod_depth (x y : node) : Prop :=
  n_space y = n_space x /\ n_exp y = n_exp x /\ n_skip y = n_skip x /\
  n_parent y = n_parent x /\ n_cands y = n_cands x /\ n_seeds y = n_seeds x /\
  n_sets y = n_sets x /\ n_depth x <= n_depth y.

(* d' is d with some depths raised *)
Definition depth_raised (d d' : sd) : Prop :=
  sd_edges d' = sd_edges d /\ Forall2 node_eq_mod_depth (sd_nodes d) (sd_nodes d').

Lemma node_eq_mod_depth_refl : forall x, node_eq_mod_depth x x.
Proof. intro x. unfold node_eq_mod_depth. repeat split; auto. Qed.

Lemma node_eq_mod_depth_trans : forall x y z,
  node_eq_mod_depth x y -> node_eq_mod_depth y z -> node_eq_mod_depth x z.
Proof.
  unfold node_eq_mod_depth.
  intros x y z (A1 & A2 & A3 & A4 & A5 & A6 & A7 & A8) (B1 & B2 & B3 & B4 & B5 & B6 & B7 & B8).
  repeat split; try congruence. lia.
Qed.

Lemma depth_raised_refl : forall d, depth_raised d d.
Proof.
  intro d. split; [reflexivity|]. apply Forall2_refl_rel. apply node_eq_mod_depth_refl.
Qed.

Lemma depth_raised_trans : forall d1 d2 d3,
  depth_raised d1 d2 -> depth_raised d2 d3 -> depth_raised d1 d3.
Proof.
  intros d1 d2 d3 [E12 F12] [E23 F23]. split; [congruence|].
  eapply Forall2_trans_rel; eauto. apply node_eq_mod_depth_trans.
Qed.

Lemma depth_raised_set_depth : forall d c dp,
  n_depth (get d c) <= dp -> depth_raised d (upd_node d c (fun x => set_depth x dp)).
Proof.
  intros d c dp Hle. split; [reflexivity|].
  unfold upd_node. simpl. apply Forall2_set_nth with (a := dummy_node).
  - apply node_eq_mod_depth_refl.
  - fold (get d c). unfold node_eq_mod_depth. simpl. repeat split; auto.
Qed.

Lemma raise_depth_rel : forall fuel d c dp, depth_raised d (raise_depth fuel d c dp).
Proof.
  induction fuel as [|f IH]; intros d c dp; unfold raise_depth; fold raise_depth.
  - apply depth_raised_refl.
  - destruct (Nat.ltb (n_depth (get d c)) dp) eqn:Hlt; [|apply depth_raised_refl].
    apply Nat.ltb_lt in Hlt.
    assert (H1 : depth_raised d (upd_node d c (fun x => set_depth x dp))).
    { apply depth_raised_set_depth. lia. }
    revert H1. generalize (upd_node d c (fun x => set_depth x dp)) at 1 3.
    generalize (successors_of (sd_edges (upd_node d c (fun x => set_depth x dp))) c).
    intro l. induction l as [|s l IHl]; intros acc Hacc; simpl; [exact Hacc|].
    apply IHl. eapply depth_raised_trans; [exact Hacc|]. apply IH.
Qed.

Section DepthRaised.
  Variables d d' : sd.
  Hypothesis Hrel : depth_raised d d'.

  Lemma depth_raised_edges : sd_edges d' = sd_edges d.
  Proof. exact (proj1 Hrel). Qed.

  Lemma depth_raised_size : size d' = size d.
  Proof. unfold size. symmetry. eapply Forall2_length_rel. exact (proj2 Hrel). Qed.

  Lemma depth_raised_get : forall i, node_eq_mod_depth (get d i) (get d' i).
  Proof.
    intro i. unfold get. apply Forall2_nth_rel.
    - exact (proj2 Hrel).
    - apply node_eq_mod_depth_refl.
  Qed.

  Lemma depth_raised_spaces : spaces d' = spaces d.
  Proof.
    unfold spaces. destruct Hrel as [_ HF].
    induction HF as [|x y l l' Hxy HF IH]; simpl; [reflexivity|].
    rewrite IH. destruct Hxy as [Hs _]. rewrite Hs. reflexivity.
  Qed.
End DepthRaised.

Lemma size_raise_depth : forall fuel d c dp, size (raise_depth fuel d c dp) = size d.
Proof. intros fuel d c dp. apply depth_raised_size. apply raise_depth_rel. Qed.

Lemma sd_edges_raise_depth : forall fuel d c dp, sd_edges (raise_depth fuel d c dp) = sd_edges d.
Proof. intros fuel d c dp. apply depth_raised_edges. apply raise_depth_rel. Qed.

Lemma spaces_raise_depth : forall fuel d c dp, spaces (raise_depth fuel d c dp) = spaces d.
Proof. intros fuel d c dp. apply depth_raised_spaces. apply raise_depth_rel. Qed.

Lemma get_raise_depth : forall fuel d c dp i,
  node_eq_mod_depth (get d i) (get (raise_depth fuel d c dp) i).
Proof. intros fuel d c dp i. apply depth_raised_get. apply raise_depth_rel. Qed.

Lemma n_space_raise_depth : forall fuel d c dp i,
  n_space (get (raise_depth fuel d c dp) i) = n_space (get d i).
Proof. intros fuel d c dp i. apply (get_raise_depth fuel d c dp i). Qed.

Lemma n_exp_raise_depth : forall fuel d c dp i,
  n_exp (get (raise_depth fuel d c dp) i) = n_exp (get d i).
Proof. intros fuel d c dp i. apply (get_raise_depth fuel d c dp i). Qed.

Lemma n_skip_raise_depth : forall fuel d c dp i,
  n_skip (get (raise_depth fuel d c dp) i) = n_skip (get d i).
Proof. intros fuel d c dp i. apply (get_raise_depth fuel d c dp i). Qed.

Lemma n_parent_raise_depth : forall fuel d c dp i,
  n_parent (get (raise_depth fuel d c dp) i) = n_parent (get d i).
Proof. intros fuel d c dp i. apply (get_raise_depth fuel d c dp i). Qed.

Lemma n_cands_raise_depth : forall fuel d c dp i,
  n_cands (get (raise_depth fuel d c dp) i) = n_cands (get d i).
Proof. intros fuel d c dp i. apply (get_raise_depth fuel d c dp i). Qed.

Lemma n_seeds_raise_depth : forall fuel d c dp i,
  n_seeds (get (raise_depth fuel d c dp) i) = n_seeds (get d i).
Proof. intros fuel d c dp i. apply (get_raise_depth fuel d c dp i). Qed.

Lemma n_sets_raise_depth : forall fuel d c dp i,
  n_sets (get (raise_depth fuel d c dp) i) = n_sets (get d i).
Proof. intros fuel d c dp i. apply (get_raise_depth fuel d c dp i). Qed.

Lemma n_depth_raise_depth : forall fuel d c dp i,
  n_depth (get d i) <= n_depth (get (raise_depth fuel d c dp) i).
Proof. intros fuel d c dp i. apply (get_raise_depth fuel d c dp i). Qed.

(* ================================================================== *)
(* 3. edges: has_edge, add_motif, ensure_edge                          *)
(* ================================================================== *)

Definition edge_key (e : edge) : nat * nat := (e_src e, e_dst e).
Definition is_edge (p c : nat) (e : edge) : bool := Nat.eqb (e_src e) p && Nat.eqb (e_dst e) c.

Lemma is_edge_true : forall p c e, is_edge p c e = true <-> e_src e = p /\ e_dst e = c.
Proof.
  intros p c e. unfold is_edge. rewrite andb_true_iff, !Nat.eqb_eq. tauto.
Qed.

Lemma existsb_is_edge_false : forall p c l,
  existsb (is_edge p c) l = false <-> ~ In (p, c) (map edge_key l).
Proof.
  intros p c l. induction l as [|e l IH]; simpl.
  - split; [intros _ []|reflexivity].
  - rewrite orb_false_iff, IH. unfold edge_key at 1. split.
    + intros [He Hl] [Heq|Hin]; [|exact (Hl Hin)].
      injection Heq as Hs Hd.
      assert (Ht : is_edge p c e = true) by (apply is_edge_true; auto).
      congruence.
    + intro Hn. split.
      * destruct (is_edge p c e) eqn:Ee; [|reflexivity].
        apply is_edge_true in Ee. destruct Ee as [Hs Hd]. exfalso. apply Hn. left.
        unfold edge_key. rewrite Hs, Hd. reflexivity.
      * intro Hin. apply Hn. right. exact Hin.
Qed.

Lemma has_edge_false : forall d p c,
  has_edge d p c = false <-> ~ In (p, c) (map edge_key (sd_edges d)).
Proof. intros d p c. apply existsb_is_edge_false. Qed.

Lemma has_edge_true : forall d p c,
  has_edge d p c = true <-> exists e, In e (sd_edges d) /\ e_src e = p /\ e_dst e = c.
Proof.
  intros d p c. unfold has_edge. rewrite existsb_exists. split.
  - intros [e [Hin He]]. exists e. split; [exact Hin|]. apply is_edge_true. exact He.
  - intros [e [Hin He]]. exists e. split; [exact Hin|]. apply is_edge_true. exact He.
Qed.

Definition with_motif (p c : nat) (m : space) (e : edge) : edge :=
  {| e_src := p; e_dst := c; e_motifs := e_motifs e ++ [m] |}.

(* the first (p,c) edge gets the motif appended; everything else is untouched *)
Lemma add_motif_split : forall p c m l,
  existsb (is_edge p c) l = true ->
  exists l1 e l2, l = l1 ++ e :: l2 /\ e_src e = p /\ e_dst e = c /\
    (forall e0, In e0 l1 -> is_edge p c e0 = false) /\
    add_motif p c m l = l1 ++ with_motif p c m e :: l2.
Proof.
  intros p c m l. induction l as [|e l IH]; simpl; intro Hex; [discriminate|].
  fold (is_edge p c e). destruct (is_edge p c e) eqn:Ee.
  - apply is_edge_true in Ee. destruct Ee as [Hs Hd].
    exists [], e, l. simpl. repeat split; auto. intros e0 [].
  - simpl in Hex. destruct (IH Hex) as (l1 & e1 & l2 & Hl & Hs & Hd & Hfirst & Hadd).
    exists (e :: l1), e1, l2. simpl. rewrite Hadd, Hl. repeat split; auto.
    intros e0 [Heq|Hin]; [subst; exact Ee|apply Hfirst; exact Hin].
Qed.

Lemma add_motif_none : forall p c m l,
  existsb (is_edge p c) l = false -> add_motif p c m l = l.
Proof.
  intros p c m l. induction l as [|e l IH]; simpl; intro Hex; [reflexivity|].
  fold (is_edge p c e). apply orb_false_iff in Hex. destruct Hex as [He Hl].
  rewrite He. rewrite IH by exact Hl. reflexivity.
Qed.

Lemma add_motif_keys : forall p c m l, map edge_key (add_motif p c m l) = map edge_key l.
Proof.
  intros p c m l. induction l as [|e l IH]; simpl; [reflexivity|].
  fold (is_edge p c e). destruct (is_edge p c e) eqn:Ee; simpl.
  - apply is_edge_true in Ee. destruct Ee as [Hs Hd]. unfold edge_key at 1 3. simpl. congruence.
  - rewrite IH. reflexivity.
Qed.

Lemma add_motif_length : forall p c m l, length (add_motif p c m l) = length l.
Proof.
  intros p c m l. rewrite <- (map_length edge_key), add_motif_keys. apply map_length.
Qed.

Lemma add_motif_In : forall p c m l e',
  In e' (add_motif p c m l) ->
  In e' l \/ exists e, In e l /\ e_src e = p /\ e_dst e = c /\ e' = with_motif p c m e.
Proof.
  intros p c m l e'. induction l as [|e l IH]; simpl; intro Hin; [contradiction|].
  fold (is_edge p c e) in Hin. destruct (is_edge p c e) eqn:Ee.
  - apply is_edge_true in Ee. destruct Ee as [Hs Hd]. destruct Hin as [Heq|Hin].
    + right. exists e. repeat split; auto.
    + left. right. exact Hin.
  - destruct Hin as [Heq|Hin]; [left; left; exact Heq|].
    apply IH in Hin. destruct Hin as [Hin|(e1 & Hin & Hs & Hd & Heq)].
    + left. right. exact Hin.
    + right. exists e1. repeat split; auto.
Qed.

Lemma add_motif_keeps : forall p c m l e,
  In e l ->
  exists e', In e' (add_motif p c m l) /\ e_src e' = e_src e /\ e_dst e' = e_dst e /\
             exists k, e_motifs e' = e_motifs e ++ k.
Proof.
  intros p c m l e. induction l as [|e0 l IH]; simpl; intro Hin; [contradiction|].
  fold (is_edge p c e0). destruct (is_edge p c e0) eqn:Ee.
  - destruct Hin as [Heq|Hin].
    + subst e0. apply is_edge_true in Ee. destruct Ee as [Hs Hd].
      exists (with_motif p c m e). simpl. repeat split; auto. exists [m]. reflexivity.
    + exists e. simpl. repeat split; auto. exists []. rewrite app_nil_r. reflexivity.
  - destruct Hin as [Heq|Hin].
    + subst e0. exists e. simpl. repeat split; auto. exists []. rewrite app_nil_r. reflexivity.
    + destruct (IH Hin) as (e' & Hin' & Hs & Hd & Hk). exists e'. simpl. repeat split; auto.
Qed.

(* the edge list after _ensure_edge, before depths are propagated *)
Definition edge_added (d : sd) (p c : nat) (m : space) : list edge :=
  if has_edge d p c then add_motif p c m (sd_edges d)
  else sd_edges d ++ [{| e_src := p; e_dst := c; e_motifs := [m] |}].

Lemma ensure_edge_rel : forall d p c m,
  depth_raised {| sd_nodes := sd_nodes d; sd_edges := edge_added d p c m |} (ensure_edge d p c m).
Proof.
  intros d p c m. unfold ensure_edge, edge_added.
  destruct (has_edge d p c); apply raise_depth_rel.
Qed.

Lemma sd_edges_ensure_edge : forall d p c m, sd_edges (ensure_edge d p c m) = edge_added d p c m.
Proof. intros d p c m. apply (depth_raised_edges _ _ (ensure_edge_rel d p c m)). Qed.

Lemma size_ensure_edge : forall d p c m, size (ensure_edge d p c m) = size d.
Proof. intros d p c m. apply (depth_raised_size _ _ (ensure_edge_rel d p c m)). Qed.

Lemma spaces_ensure_edge : forall d p c m, spaces (ensure_edge d p c m) = spaces d.
Proof. intros d p c m. apply (depth_raised_spaces _ _ (ensure_edge_rel d p c m)). Qed.

(* nodes keep every field but the depth, which can only grow *)
Lemma get_ensure_edge : forall d p c m i,
  node_eq_mod_depth (get d i) (get (ensure_edge d p c m) i).
Proof. intros d p c m i. apply (depth_raised_get _ _ (ensure_edge_rel d p c m) i). Qed.

Lemma n_space_ensure_edge : forall d p c m i,
  n_space (get (ensure_edge d p c m) i) = n_space (get d i).
Proof. intros d p c m i. apply (get_ensure_edge d p c m i). Qed.

Lemma n_exp_ensure_edge : forall d p c m i,
  n_exp (get (ensure_edge d p c m) i) = n_exp (get d i).
Proof. intros d p c m i. apply (get_ensure_edge d p c m i). Qed.

Lemma n_depth_ensure_edge : forall d p c m i,
  n_depth (get d i) <= n_depth (get (ensure_edge d p c m) i).
Proof. intros d p c m i. apply (get_ensure_edge d p c m i). Qed.

(* either an existing (p,c) edge gets the motif appended, or a new edge is
   appended at the end; all other edges are unchanged *)
Lemma ensure_edge_edges_cases : forall d p c m,
  (has_edge d p c = true /\
   exists l1 e l2, sd_edges d = l1 ++ e :: l2 /\ e_src e = p /\ e_dst e = c /\
     (forall e0, In e0 l1 -> is_edge p c e0 = false) /\
     sd_edges (ensure_edge d p c m) = l1 ++ with_motif p c m e :: l2) \/
  (has_edge d p c = false /\
   sd_edges (ensure_edge d p c m) = sd_edges d ++ [{| e_src := p; e_dst := c; e_motifs := [m] |}]).
Proof.
  intros d p c m. rewrite sd_edges_ensure_edge. unfold edge_added.
  destruct (has_edge d p c) eqn:Eh.
  - left. split; [reflexivity|]. apply add_motif_split. exact Eh.
  - right. split; reflexivity.
Qed.

Lemma edge_added_keeps : forall d p c m e,
  In e (sd_edges d) ->
  exists e', In e' (edge_added d p c m) /\ e_src e' = e_src e /\ e_dst e' = e_dst e /\
             exists k, e_motifs e' = e_motifs e ++ k.
Proof.
  intros d p c m e Hin. unfold edge_added. destruct (has_edge d p c).
  - apply add_motif_keeps. exact Hin.
  - exists e. repeat split; auto.
    + apply in_or_app. left. exact Hin.
    + exists []. rewrite app_nil_r. reflexivity.
Qed.

(* ================================================================== *)
(* 4. find_key / find_node                                             *)
(* ================================================================== *)

Lemma find_key_from_some : forall k l i j,
  find_key_from k i l = Some j ->
  i <= j /\ j - i < length l /\
  space_key (n_space (nth (j - i) l dummy_node)) = k /\
  forall n, n < j - i -> space_key (n_space (nth n l dummy_node)) <> k.
Proof.
  intros k l. induction l as [|x l IH]; simpl; intros i j Hf; [discriminate|].
  destruct (N.eqb (space_key (n_space x)) k) eqn:Ek.
  - injection Hf as Hij. subst j. rewrite Nat.sub_diag. simpl.
    split; [lia|]. split; [lia|]. split; [apply N.eqb_eq; exact Ek|]. intros n Hn. lia.
  - apply IH in Hf. destruct Hf as (H1 & H2 & H3 & H4).
    replace (j - i) with (S (j - S i)) by lia. simpl.
    split; [lia|]. split; [lia|]. split; [exact H3|].
    intros [|n] Hn.
    + apply N.eqb_neq. exact Ek.
    + apply H4. lia.
Qed.

Lemma find_key_from_none : forall k l i,
  find_key_from k i l = None <-> forall x, In x l -> space_key (n_space x) <> k.
Proof.
  intros k l. induction l as [|x l IH]; simpl; intro i.
  - split; [intros _ y []|reflexivity].
  - destruct (N.eqb (space_key (n_space x)) k) eqn:Ek.
    + split; [discriminate|]. intro Hall. exfalso.
      apply (Hall x); [left; reflexivity|]. apply N.eqb_eq. exact Ek.
    + rewrite IH. split.
      * intros Hall y [Heq|Hin]; [subst y; apply N.eqb_neq; exact Ek|apply Hall; exact Hin].
      * intros Hall y Hin. apply Hall. right. exact Hin.
Qed.

Lemma find_key_some : forall d k j,
  find_key d k = Some j ->
  j < size d /\ space_key (n_space (get d j)) = k /\
  forall n, n < j -> space_key (n_space (get d n)) <> k.
Proof.
  intros d k j Hf. unfold find_key in Hf. apply find_key_from_some in Hf.
  rewrite Nat.sub_0_r in Hf. destruct Hf as (_ & H2 & H3 & H4). unfold size, get. auto.
Qed.

Lemma find_key_none : forall d k,
  find_key d k = None <-> forall x, In x (sd_nodes d) -> space_key (n_space x) <> k.
Proof. intros d k. unfold find_key. apply find_key_from_none. Qed.

(* find_key returns the first index carrying the key *)
Lemma find_key_first : forall d k j,
  j < size d -> space_key (n_space (get d j)) = k ->
  (forall n, n < j -> space_key (n_space (get d n)) <> k) ->
  find_key d k = Some j.
Proof.
  intros d k j Hlt Hk Hfirst. destruct (find_key d k) as [j'|] eqn:Ef.
  - apply find_key_some in Ef. destruct Ef as (Hlt' & Hk' & Hfirst').
    destruct (lt_eq_lt_dec j j') as [[Hl|He]|Hg].
    + exfalso. apply (Hfirst' j Hl). exact Hk.
    + subst. reflexivity.
    + exfalso. apply (Hfirst j' Hg). exact Hk'.
  - exfalso. rewrite find_key_none in Ef. apply (Ef (get d j)); [|exact Hk].
    apply get_In. exact Hlt.
Qed.

Lemma find_key_iff : forall d k j,
  find_key d k = Some j <->
  j < size d /\ space_key (n_space (get d j)) = k /\
  forall n, n < j -> space_key (n_space (get d n)) <> k.
Proof.
  intros d k j. split.
  - apply find_key_some.
  - intros (H1 & H2 & H3). apply find_key_first; assumption.
Qed.

Lemma find_node_some : forall d X j,
  find_node d X = Some j ->
  j < size d /\ space_key (n_space (get d j)) = space_key X /\
  forall n, n < j -> space_key (n_space (get d n)) <> space_key X.
Proof. intros d X j. unfold find_node. apply find_key_some. Qed.

Lemma find_node_none_key : forall d X,
  find_node d X = None <->
  forall x, In x (sd_nodes d) -> space_key (n_space x) <> space_key X.
Proof. intros d X. unfold find_node. apply find_key_none. Qed.

(* with equal lengths keys are injective: find_node finds the space itself *)
Lemma find_node_some_len : forall n d X j,
  (forall x, In x (sd_nodes d) -> length (n_space x) = n) -> length X = n ->
  find_node d X = Some j -> j < size d /\ n_space (get d j) = X.
Proof.
  intros n d X j Hlen HX Hf. apply find_node_some in Hf. destruct Hf as (Hlt & Hk & _).
  split; [exact Hlt|]. apply space_key_inj; [|exact Hk].
  rewrite HX. apply Hlen. apply get_In. exact Hlt.
Qed.

Lemma find_node_none_len : forall n d X,
  (forall x, In x (sd_nodes d) -> length (n_space x) = n) -> length X = n ->
  (find_node d X = None <-> ~ In X (spaces d)).
Proof.
  intros n d X Hlen HX. rewrite find_node_none_key. split.
  - intros Hall Hin. unfold spaces in Hin. apply in_map_iff in Hin.
    destruct Hin as [x [Heq Hin]]. apply (Hall x Hin). rewrite Heq. reflexivity.
  - intros Hn x Hin Hk. apply Hn. unfold spaces. apply in_map_iff. exists x.
    split; [|exact Hin]. apply space_key_inj; [|exact Hk]. rewrite HX. apply Hlen. exact Hin.
Qed.

Theorem find_node_exact : forall N d X i, SWF N d -> length X = nvars N ->
  (find_node d X = Some i <-> i < size d /\ n_space (get d i) = X).
Proof.
  intros N d X i Hswf HX. split.
  - apply find_node_some_len with (n := nvars N); [apply (swf_len N d Hswf)|exact HX].
  - intros [Hlt Hsp]. destruct (find_node d X) as [j|] eqn:Ef.
    + apply find_node_some_len with (n := nvars N) in Ef;
        [|apply (swf_len N d Hswf)|exact HX].
      destruct Ef as [Hj Hspj]. f_equal.
      pose proof (swf_nodup N d Hswf) as Hnd.
      rewrite (NoDup_nth (spaces d) []) in Hnd.
      apply Hnd; try (rewrite length_spaces; assumption).
      rewrite !nth_spaces. congruence.
    + exfalso. rewrite find_node_none_len with (n := nvars N) in Ef;
        [|apply (swf_len N d Hswf)|exact HX].
      apply Ef. apply In_spaces_iff. exists i. split; assumption.
Qed.

Theorem find_node_none : forall N d X, SWF N d -> length X = nvars N ->
  (find_node d X = None <-> ~ In X (spaces d)).
Proof.
  intros N d X Hswf HX. apply find_node_none_len with (n := nvars N); [|exact HX].
  apply (swf_len N d Hswf).
Qed.

(* ================================================================== *)
(* 5. SWF depends only on the spaces and the edges                     *)
(* ================================================================== *)

Definition swf_on (N : net) (sp : list space) (ed : list edge) : Prop :=
  0 < length sp /\
  (forall X, In X sp -> length X = nvars N /\ percolate_b N X = X) /\
  NoDup sp /\
  (forall e, In e ed ->
     e_src e < length sp /\ e_dst e < length sp /\ e_motifs e <> [] /\
     forall m, In m (e_motifs e) ->
       length m = nvars N /\ percolate_b N m = nth (e_dst e) sp []) /\
  NoDup (map edge_key ed).

Lemma SWF_iff : forall N d, SWF N d <-> swf_on N (spaces d) (sd_edges d).
Proof.
  intros N d. unfold swf_on. rewrite length_spaces. split.
  - intros [H1 H2 H3 H4 H5 H6 H7]. split; [exact H1|]. split; [|split; [exact H3|split; [|exact H5]]].
    + intros X Hin. unfold spaces in Hin. apply in_map_iff in Hin.
      destruct Hin as [x [Heq Hin]]. subst X. split; [apply H2|apply H6]; exact Hin.
    + intros e Hin. destruct (H4 e Hin) as (Ha & Hb & Hc).
      split; [exact Ha|]. split; [exact Hb|]. split; [exact Hc|].
      intros m Hm. rewrite nth_spaces. apply H7; assumption.
  - intros (H1 & H2 & H3 & H4 & H5). constructor.
    + exact H1.
    + intros x Hin. apply H2. unfold spaces. apply in_map. exact Hin.
    + exact H3.
    + intros e Hin. destruct (H4 e Hin) as (Ha & Hb & Hc & _). auto.
    + exact H5.
    + intros x Hin. apply H2. unfold spaces. apply in_map. exact Hin.
    + intros e m Hin Hm. destruct (H4 e Hin) as (_ & _ & _ & Hd).
      rewrite <- nth_spaces. apply Hd. exact Hm.
Qed.

Lemma SWF_same_shape : forall N d d',
  spaces d' = spaces d -> sd_edges d' = sd_edges d -> SWF N d -> SWF N d'.
Proof.
  intros N d d' Hs He Hswf. apply SWF_iff. rewrite Hs, He. apply SWF_iff. exact Hswf.
Qed.

Lemma swf_on_add_node : forall N sp ed X,
  swf_on N sp ed -> length X = nvars N -> percolate_b N X = X -> ~ In X sp ->
  swf_on N (sp ++ [X]) ed.
Proof.
  intros N sp ed X (H1 & H2 & H3 & H4 & H5) HX HpX Hnin. unfold swf_on.
  rewrite app_length. simpl. split; [lia|]. split; [|split; [|split; [|exact H5]]].
  - intros Y Hin. apply in_app_or in Hin. destruct Hin as [Hin|[Heq|[]]].
    + apply H2. exact Hin.
    + subst Y. split; assumption.
  - apply NoDup_app_disjoint; [exact H3|constructor; [intros []|constructor]|].
    intros Y Hin [Heq|[]]. subst Y. exact (Hnin Hin).
  - intros e Hin. destruct (H4 e Hin) as (Ha & Hb & Hc & Hd).
    split; [lia|]. split; [lia|]. split; [exact Hc|].
    intros m Hm. rewrite app_nth1 by exact Hb. apply Hd. exact Hm.
Qed.

Lemma swf_on_new_edge : forall N sp ed p c m,
  swf_on N sp ed -> p < length sp -> c < length sp -> length m = nvars N ->
  percolate_b N m = nth c sp [] -> ~ In (p, c) (map edge_key ed) ->
  swf_on N sp (ed ++ [{| e_src := p; e_dst := c; e_motifs := [m] |}]).
Proof.
  intros N sp ed p c m (H1 & H2 & H3 & H4 & H5) Hp Hc Hm Hpm Hnin. unfold swf_on.
  split; [exact H1|]. split; [exact H2|]. split; [exact H3|]. split.
  - intros e Hin. apply in_app_or in Hin. destruct Hin as [Hin|[Heq|[]]].
    + apply H4. exact Hin.
    + subst e. simpl. split; [exact Hp|]. split; [exact Hc|]. split; [discriminate|].
      intros m' [Heq|[]]. subst m'. split; assumption.
  - rewrite map_app. simpl. apply NoDup_app_disjoint; [exact H5|constructor; [intros []|constructor]|].
    intros k Hin [Heq|[]]. subst k. exact (Hnin Hin).
Qed.

Lemma swf_on_add_motif : forall N sp ed p c m,
  swf_on N sp ed -> length m = nvars N -> percolate_b N m = nth c sp [] ->
  swf_on N sp (add_motif p c m ed).
Proof.
  intros N sp ed p c m (H1 & H2 & H3 & H4 & H5) Hm Hpm. unfold swf_on.
  split; [exact H1|]. split; [exact H2|]. split; [exact H3|]. split.
  - intros e' Hin. apply add_motif_In in Hin.
    destruct Hin as [Hin|(e & Hin & Hs & Hd & Heq)]; [apply H4; exact Hin|].
    destruct (H4 e Hin) as (Ha & Hb & Hc & Hd'). subst e'. simpl.
    split; [lia|]. split; [lia|]. split.
    + intro Hnil. apply app_eq_nil in Hnil. destruct Hnil as [_ Hnil]. discriminate.
    + intros m' Hm'. apply in_app_or in Hm'. destruct Hm' as [Hm'|[Heq|[]]].
      * rewrite <- Hd. apply Hd'. exact Hm'.
      * subst m'. split; assumption.
  - rewrite add_motif_keys. exact H5.
Qed.

(* ================================================================== *)
(* 6. SWF is preserved by the primitives                               *)
(* ================================================================== *)

Lemma ensure_edge_SWF : forall N d p c m,
  SWF N d -> p < size d -> c < size d -> length m = nvars N ->
  percolate_b N m = n_space (get d c) -> SWF N (ensure_edge d p c m).
Proof.
  intros N d p c m Hswf Hp Hc Hm Hpm. apply SWF_iff.
  rewrite spaces_ensure_edge, sd_edges_ensure_edge. apply SWF_iff in Hswf.
  unfold edge_added. destruct (has_edge d p c) eqn:Eh.
  - apply swf_on_add_motif; [exact Hswf|exact Hm|]. rewrite nth_spaces. exact Hpm.
  - apply swf_on_new_edge; try assumption; try (rewrite length_spaces; assumption).
    + rewrite nth_spaces. exact Hpm.
    + apply has_edge_false. exact Eh.
Qed.

Lemma upd_node_SWF : forall N d i f,
  (forall x, n_space (f x) = n_space x) -> SWF N d -> SWF N (upd_node d i f).
Proof.
  intros N d i f Hf Hswf. apply (SWF_same_shape N d); [|reflexivity|exact Hswf].
  apply spaces_upd_node. exact Hf.
Qed.

Lemma upd_flag_SWF : forall N d i f, flag_setter f -> SWF N d -> SWF N (upd_node d i f).
Proof.
  intros N d i f Hf Hswf. apply upd_node_SWF; [|exact Hswf].
  intro x. apply flag_setter_space. exact Hf.
Qed.

Lemma spaces_reclaim : forall d, spaces (reclaim d) = spaces d.
Proof.
  intro d. unfold spaces, reclaim. simpl. rewrite map_map. apply map_ext.
  intro x. destruct (n_seeds x); reflexivity.
Qed.

Lemma size_reclaim : forall d, size (reclaim d) = size d.
Proof. intro d. unfold size, reclaim. simpl. apply map_length. Qed.

Lemma get_reclaim : forall d i,
  get (reclaim d) i =
  (fun x => match n_seeds x with Some _ => set_cands x None | None => x end) (get d i).
Proof.
  intros d i. unfold get, reclaim. simpl.
  change dummy_node with
    ((fun x => match n_seeds x with Some _ => set_cands x None | None => x end) dummy_node) at 1.
  apply map_nth.
Qed.

Lemma reclaim_SWF : forall N d, SWF N d -> SWF N (reclaim d).
Proof.
  intros N d Hswf. apply (SWF_same_shape N d); [apply spaces_reclaim|reflexivity|exact Hswf].
Qed.

(* ---------- ensure_node ---------- *)

Definition fresh_node (X : space) (parent : option nat) : node :=
  {| n_space := X; n_depth := 0; n_exp := false; n_skip := false;
     n_parent := parent; n_cands := None; n_seeds := None; n_sets := None |}.

Definition add_node (d : sd) (x : node) : sd :=
  {| sd_nodes := sd_nodes d ++ [x]; sd_edges := sd_edges d |}.

Definition link (d : sd) (parent : option nat) (c : nat) (m : space) : sd :=
  match parent with Some p => ensure_edge d p c m | None => d end.

(* ensure_node, unfolded: look the percolated space up, append a fresh stub if
   it is new, then link it to the parent *)
Lemma ensure_node_unfold : forall N d parent motif,
  ensure_node N d parent motif =
  match find_node d (percolate_b N motif) with
  | Some c => (link d parent c motif, c)
  | None => (link (add_node d (fresh_node (percolate_b N motif) parent)) parent (size d) motif,
             size d)
  end.
Proof.
  intros N d parent motif. unfold ensure_node, link, add_node, fresh_node.
  destruct (find_node d (percolate_b N motif)); destruct parent; reflexivity.
Qed.

Lemma size_add_node : forall d x, size (add_node d x) = S (size d).
Proof. intros d x. unfold size, add_node. simpl. rewrite app_length. simpl. lia. Qed.

Lemma get_add_node_old : forall d x i, i < size d -> get (add_node d x) i = get d i.
Proof. intros d x i Hlt. unfold get, add_node. simpl. apply app_nth1. exact Hlt. Qed.

Lemma get_add_node_new : forall d x, get (add_node d x) (size d) = x.
Proof.
  intros d x. unfold get, add_node, size. simpl. rewrite app_nth2 by lia.
  rewrite Nat.sub_diag. reflexivity.
Qed.

Lemma spaces_add_node : forall d x, spaces (add_node d x) = spaces d ++ [n_space x].
Proof. intros d x. unfold spaces, add_node. simpl. rewrite map_app. reflexivity. Qed.

Lemma size_link : forall d parent c m, size (link d parent c m) = size d.
Proof. intros d [p|] c m; simpl; [apply size_ensure_edge|reflexivity]. Qed.

Lemma spaces_link : forall d parent c m, spaces (link d parent c m) = spaces d.
Proof. intros d [p|] c m; simpl; [apply spaces_ensure_edge|reflexivity]. Qed.

Lemma get_link : forall d parent c m i, node_eq_mod_depth (get d i) (get (link d parent c m) i).
Proof.
  intros d [p|] c m i; simpl; [apply get_ensure_edge|apply node_eq_mod_depth_refl].
Qed.

(* the nodes after ensure_node: the old ones (depths possibly raised), plus at
   most one fresh stub at the end *)
Lemma ensure_node_spec : forall N d parent motif d' c,
  SWF N d -> length motif = nvars N -> ensure_node N d parent motif = (d', c) ->
  c < size d' /\ n_space (get d' c) = percolate_b N motif /\
  (forall i, i < size d -> node_eq_mod_depth (get d i) (get d' i)) /\
  ((c < size d /\ size d' = size d /\ spaces d' = spaces d) \/
   (c = size d /\ size d' = S (size d) /\ ~ In (percolate_b N motif) (spaces d) /\
    spaces d' = spaces d ++ [percolate_b N motif] /\
    node_eq_mod_depth (fresh_node (percolate_b N motif) parent) (get d' c))).
Proof.
  intros N d parent motif d' c Hswf Hm Heq. rewrite ensure_node_unfold in Heq.
  assert (Hlen : length (percolate_b N motif) = nvars N) by (rewrite percolate_b_length; exact Hm).
  destruct (find_node d (percolate_b N motif)) as [c0|] eqn:Ef; injection Heq as Hd' Hc; subst d' c.
  - apply (find_node_exact N d _ c0 Hswf Hlen) in Ef. destruct Ef as [Hlt Hsp].
    rewrite size_link. split; [exact Hlt|]. split.
    + rewrite <- Hsp. apply (get_link d parent c0 motif c0).
    + split; [intros i _; apply get_link|]. left. split; [exact Hlt|]. split; [reflexivity|].
      apply spaces_link.
  - apply (find_node_none N d _ Hswf Hlen) in Ef.
    rewrite size_link, size_add_node. split; [lia|]. split.
    + pose proof (get_link (add_node d (fresh_node (percolate_b N motif) parent)) parent (size d) motif (size d)) as Hg.
      rewrite get_add_node_new in Hg. destruct Hg as [Hs _]. exact Hs.
    + split.
      * intros i Hi. rewrite <- (get_add_node_old d (fresh_node (percolate_b N motif) parent) i Hi).
        apply get_link.
      * right. split; [reflexivity|]. split; [reflexivity|]. split; [exact Ef|]. split.
        -- rewrite spaces_link, spaces_add_node. reflexivity.
        -- rewrite <- (get_add_node_new d (fresh_node (percolate_b N motif) parent)) at 1.
           apply get_link.
Qed.

(* the edges after ensure_node: untouched without a parent, otherwise exactly
   those of ensure_edge towards the returned id *)
Lemma sd_edges_ensure_node : forall N d parent motif,
  sd_edges (fst (ensure_node N d parent motif)) =
  match parent with
  | Some p => edge_added d p (snd (ensure_node N d parent motif)) motif
  | None => sd_edges d
  end.
Proof.
  intros N d parent motif. rewrite ensure_node_unfold.
  destruct (find_node d (percolate_b N motif)) as [c|]; destruct parent as [p|]; simpl;
    try reflexivity; rewrite sd_edges_ensure_edge; reflexivity.
Qed.

Lemma size_ensure_node_cases : forall N d parent motif,
  (find_node d (percolate_b N motif) <> None /\
   size (fst (ensure_node N d parent motif)) = size d) \/
  (find_node d (percolate_b N motif) = None /\
   snd (ensure_node N d parent motif) = size d /\
   size (fst (ensure_node N d parent motif)) = S (size d)).
Proof.
  intros N d parent motif. rewrite ensure_node_unfold.
  destruct (find_node d (percolate_b N motif)) as [c|]; simpl.
  - left. split; [discriminate|apply size_link].
  - right. split; [reflexivity|]. split; [reflexivity|].
    rewrite size_link. apply size_add_node.
Qed.

Lemma add_node_SWF : forall N d X parent,
  SWF N d -> length X = nvars N -> percolate_b N X = X -> ~ In X (spaces d) ->
  SWF N (add_node d (fresh_node X parent)).
Proof.
  intros N d X parent Hswf HX HpX Hnin. apply SWF_iff. rewrite spaces_add_node. simpl.
  apply swf_on_add_node; try assumption. apply SWF_iff. exact Hswf.
Qed.

Lemma link_SWF : forall N d parent c m,
  SWF N d -> (forall p, parent = Some p -> p < size d) -> c < size d ->
  length m = nvars N -> percolate_b N m = n_space (get d c) -> SWF N (link d parent c m).
Proof.
  intros N d [p|] c m Hswf Hp Hc Hm Hpm; simpl; [|exact Hswf].
  apply ensure_edge_SWF; try assumption. apply Hp. reflexivity.
Qed.

Theorem ensure_node_SWF : forall N d parent motif, SWF N d -> length motif = nvars N ->
  (forall p, parent = Some p -> p < size d) -> SWF N (fst (ensure_node N d parent motif)).
Proof.
  intros N d parent motif Hswf Hm Hp. rewrite ensure_node_unfold.
  assert (Hlen : length (percolate_b N motif) = nvars N) by (rewrite percolate_b_length; exact Hm).
  destruct (find_node d (percolate_b N motif)) as [c|] eqn:Ef; simpl.
  - apply (find_node_exact N d _ c Hswf Hlen) in Ef. destruct Ef as [Hlt Hsp].
    apply link_SWF; auto.
  - apply (find_node_none N d _ Hswf Hlen) in Ef.
    apply link_SWF.
    + apply add_node_SWF; try assumption. apply percolate_b_idem. exact Hm.
    + intros p Hpp. rewrite size_add_node. specialize (Hp p Hpp). lia.
    + rewrite size_add_node. lia.
    + exact Hm.
    + rewrite get_add_node_new. reflexivity.
Qed.

Theorem init_SWF : forall N, SWF N (init N).
Proof.
  intro N. unfold init. rewrite ensure_node_unfold.
  unfold find_node, find_key. simpl. apply SWF_iff. unfold spaces. simpl.
  assert (Hlen : length (top_space (nvars N)) = nvars N) by (unfold top_space; apply repeat_length).
  unfold swf_on. simpl. split; [lia|]. split; [|split; [|split]].
  - intros X [Heq|[]]. subst X. split.
    + rewrite percolate_b_length. exact Hlen.
    + apply percolate_b_idem. exact Hlen.
  - constructor; [intros []|constructor].
  - intros e [].
  - constructor.
Qed.

(* ================================================================== *)
(* 7. extends: every primitive extends the diagram (no hypotheses)     *)
(* ================================================================== *)

Theorem extends_refl : forall d, extends d d.
Proof.
  intro d. unfold extends. split; [lia|]. split; [auto|]. split; [auto|]. split; [auto|].
  intros e Hin. exists e. split; [exact Hin|]. split; [reflexivity|]. split; [reflexivity|].
  exists []. rewrite app_nil_r. reflexivity.
Qed.

Theorem extends_trans : forall d1 d2 d3, extends d1 d2 -> extends d2 d3 -> extends d1 d3.
Proof.
  intros d1 d2 d3 (A1 & A2 & A3 & A4 & A5) (B1 & B2 & B3 & B4 & B5). unfold extends.
  split; [lia|]. split; [|split; [|split]].
  - intros i Hi. rewrite B2 by lia. apply A2. exact Hi.
  - intros i Hi Hexp. apply B3; [lia|]. apply A3; assumption.
  - intros i Hi. specialize (A4 i Hi). assert (Hi2 : i < size d2) by lia.
    specialize (B4 i Hi2). lia.
  - intros e Hin. destruct (A5 e Hin) as (e2 & Hin2 & Hs2 & Hd2 & k2 & Hk2).
    destruct (B5 e2 Hin2) as (e3 & Hin3 & Hs3 & Hd3 & k3 & Hk3).
    exists e3. split; [exact Hin3|]. split; [congruence|]. split; [congruence|].
    exists (k2 ++ k3). rewrite Hk3, Hk2, app_assoc. reflexivity.
Qed.

Lemma extends_size : forall d d', extends d d' -> size d <= size d'.
Proof. intros d d' H. exact (proj1 H). Qed.

Lemma extends_space : forall d d' i, extends d d' -> i < size d ->
  n_space (get d' i) = n_space (get d i).
Proof. intros d d' i (_ & H & _) Hi. apply H. exact Hi. Qed.

Lemma extends_lt : forall d d' i, extends d d' -> i < size d -> i < size d'.
Proof. intros d d' i H Hi. apply extends_size in H. lia. Qed.

Lemma depth_raised_extends : forall d d', depth_raised d d' -> extends d d'.
Proof.
  intros d d' Hrel. unfold extends. rewrite (depth_raised_size d d' Hrel).
  split; [lia|]. split; [|split; [|split]].
  - intros i _. apply (depth_raised_get d d' Hrel i).
  - intros i _ Hexp. destruct (depth_raised_get d d' Hrel i) as (_ & He & _). congruence.
  - intros i _. apply (depth_raised_get d d' Hrel i).
  - intros e Hin. exists e. rewrite (depth_raised_edges d d' Hrel).
    split; [exact Hin|]. split; [reflexivity|]. split; [reflexivity|].
    exists []. rewrite app_nil_r. reflexivity.
Qed.

Lemma ensure_edge_extends : forall d p c m, extends d (ensure_edge d p c m).
Proof.
  intros d p c m.
  apply extends_trans with (d2 := {| sd_nodes := sd_nodes d; sd_edges := edge_added d p c m |}).
  - unfold extends. split; [unfold size; simpl; lia|]. split; [auto|]. split; [auto|].
    split; [auto|]. intros e Hin. simpl. apply edge_added_keeps. exact Hin.
  - apply depth_raised_extends. apply ensure_edge_rel.
Qed.

Lemma upd_flag_extends : forall d i f, flag_setter f -> extends d (upd_node d i f).
Proof.
  intros d i f Hf. unfold extends. rewrite size_upd_node. split; [lia|].
  split; [|split; [|split]].
  - intros j _. destruct (get_upd_node_cases d i j f) as [Hg|(_ & _ & Hg)]; rewrite Hg;
      [reflexivity|]. apply flag_setter_space. exact Hf.
  - intros j _ Hexp. destruct (get_upd_node_cases d i j f) as [Hg|(_ & _ & Hg)]; rewrite Hg;
      [exact Hexp|]. apply flag_setter_exp; assumption.
  - intros j _. destruct (get_upd_node_cases d i j f) as [Hg|(_ & _ & Hg)]; rewrite Hg;
      [lia|]. rewrite flag_setter_depth by exact Hf. lia.
  - intros e Hin. exists e. split; [exact Hin|]. split; [reflexivity|]. split; [reflexivity|].
    exists []. rewrite app_nil_r. reflexivity.
Qed.

Lemma mark_expanded_extends : forall d i, extends d (mark_expanded d i).
Proof. intros d i. unfold mark_expanded. apply upd_flag_extends. constructor. Qed.

Lemma add_node_extends : forall d x, extends d (add_node d x).
Proof.
  intros d x. unfold extends. rewrite size_add_node. split; [lia|].
  split; [|split; [|split]].
  - intros i Hi. rewrite get_add_node_old by exact Hi. reflexivity.
  - intros i Hi Hexp. rewrite get_add_node_old by exact Hi. exact Hexp.
  - intros i Hi. rewrite get_add_node_old by exact Hi. lia.
  - intros e Hin. exists e. split; [exact Hin|]. split; [reflexivity|]. split; [reflexivity|].
    exists []. rewrite app_nil_r. reflexivity.
Qed.

Lemma link_extends : forall d parent c m, extends d (link d parent c m).
Proof.
  intros d [p|] c m; simpl; [apply ensure_edge_extends|apply extends_refl].
Qed.

Lemma ensure_node_extends : forall N d parent motif,
  extends d (fst (ensure_node N d parent motif)).
Proof.
  intros N d parent motif. rewrite ensure_node_unfold.
  destruct (find_node d (percolate_b N motif)) as [c|]; simpl.
  - apply link_extends.
  - eapply extends_trans; [apply add_node_extends|apply link_extends].
Qed.

Lemma reclaim_extends : forall d, extends d (reclaim d).
Proof.
  intro d. unfold extends. rewrite size_reclaim. split; [lia|].
  split; [|split; [|split]].
  - intros i _. rewrite get_reclaim. destruct (n_seeds (get d i)); reflexivity.
  - intros i _ Hexp. rewrite get_reclaim. destruct (n_seeds (get d i)); exact Hexp.
  - intros i _. rewrite get_reclaim. destruct (n_seeds (get d i)); simpl; lia.
  - intros e Hin. exists e. split; [exact Hin|]. split; [reflexivity|]. split; [reflexivity|].
    exists []. rewrite app_nil_r. reflexivity.
Qed.

(* ---------- the compound operations that the loops need size / space
   stability for ---------- *)

Lemma ensure_all_extends : forall N subs d p, extends d (ensure_all N d p subs).
Proof.
  intros N subs. induction subs as [|m r IH]; intros d p; simpl; [apply extends_refl|].
  eapply extends_trans; [apply ensure_node_extends|apply IH].
Qed.

Lemma expand_one_extends : forall N cfg d i, extends d (fst (expand_one N cfg d i)).
Proof.
  intros N cfg d i. unfold expand_one.
  destruct (n_exp (get d i)); [apply extends_refl|].
  destruct (is_full (n_space (get d i))); simpl.
  - eapply extends_trans; apply upd_flag_extends; constructor.
  - destruct (Nat.eqb (solver_len _ _) _); simpl.
    + apply upd_flag_extends. constructor.
    + apply extends_trans with (d2 := upd_node d i clear_attr);
        [apply upd_flag_extends; constructor|].
      eapply extends_trans; [apply ensure_all_extends|].
      apply upd_flag_extends. constructor.
Qed.

Lemma node_successors_fst : forall N cfg d i,
  fst (fst (node_successors N cfg d i)) = fst (expand_one N cfg d i).
Proof.
  intros N cfg d i. unfold node_successors.
  destruct (expand_one N cfg d i) as [d1 r]. destruct r; reflexivity.
Qed.

Lemma node_successors_succ : forall N cfg d i s,
  In s (snd (node_successors N cfg d i)) ->
  In s (successors (fst (fst (node_successors N cfg d i))) i).
Proof.
  intros N cfg d i s. unfold node_successors.
  destruct (expand_one N cfg d i) as [d1 r]. destruct r; simpl; intro Hin; try contradiction.
  exact Hin.
Qed.

Lemma node_successors_extends : forall N cfg d i,
  extends d (fst (fst (node_successors N cfg d i))).
Proof. intros N cfg d i. rewrite node_successors_fst. apply expand_one_extends. Qed.

Lemma ensure_min_children_extends : forall N mins d p, extends d (ensure_min_children N d p mins).
Proof.
  intros N mins. induction mins as [|m r IH]; intros d p; simpl; [apply extends_refl|].
  pose proof (ensure_node_extends N d (Some p) m) as He.
  destruct (ensure_node N d (Some p) m) as [d1 c]. simpl in He.
  eapply extends_trans; [exact He|].
  eapply extends_trans; [apply mark_expanded_extends|apply IH].
Qed.

Lemma make_skip_node_extends : forall N d i all_min, extends d (make_skip_node N d i all_min).
Proof.
  intros N d i all_min. unfold make_skip_node.
  destruct (n_exp (get d i)); [apply extends_refl|].
  apply extends_trans with (d2 := upd_node d i clear_attr);
    [apply upd_flag_extends; constructor|].
  eapply extends_trans; [apply ensure_min_children_extends|].
  eapply extends_trans; [apply mark_expanded_extends|].
  apply upd_flag_extends. constructor.
Qed.

Lemma min_inner_extends : forall N all_min remaining node_space skip seen succ d,
  extends d (fst (min_inner N d seen remaining all_min node_space skip succ)).
Proof.
  intros N all_min remaining node_space skip seen succ.
  induction succ as [|s r IH]; intro d; simpl; [apply extends_refl|].
  destruct (mem_nat s seen); [apply IH|].
  destruct (negb (existsb (fun m => subspace m node_space) remaining)); [|apply extends_refl].
  destruct skip; [|apply IH].
  eapply extends_trans; [apply make_skip_node_extends|apply IH].
Qed.

Lemma min_inner_incl : forall N all_min remaining node_space skip seen succ d s,
  In s (snd (min_inner N d seen remaining all_min node_space skip succ)) -> In s succ.
Proof.
  intros N all_min remaining node_space skip seen succ.
  induction succ as [|s0 r IH]; intros d s; simpl; [auto|].
  destruct (mem_nat s0 seen); [intro Hin; right; eapply IH; exact Hin|].
  destruct (negb (existsb (fun m => subspace m node_space) remaining)); [|auto].
  intro Hin. right. eapply IH. exact Hin.
Qed.

Lemma skip_edges_extends : forall traps d i, extends d (skip_edges d i traps).
Proof.
  intro traps. induction traps as [|[mid m] r IH]; intros d i; simpl; [apply extends_refl|].
  destruct (subspace m (n_space (get d i))); [|apply IH].
  eapply extends_trans; [apply ensure_edge_extends|apply IH].
Qed.

Lemma spaces_skip_edges : forall traps d i, spaces (skip_edges d i traps) = spaces d.
Proof.
  intro traps. induction traps as [|[mid m] r IH]; intros d i; simpl; [reflexivity|].
  destruct (subspace m (n_space (get d i))); [|apply IH].
  rewrite IH. apply spaces_ensure_edge.
Qed.

(* ---------- lengths of the motifs produced by the solver twins ---------- *)

Lemma max_traps_b_length : forall N S srcs M, In M (max_traps_b N S srcs) -> length M = length S.
Proof.
  intros N S srcs M Hin. unfold max_traps_b in Hin.
  apply filter_In in Hin. destruct Hin as [Hin _].
  apply filter_In in Hin. destruct Hin as [Hin _].
  apply traps_in_spec in Hin. destruct Hin as [Hsub _]. apply subspace_length. exact Hsub.
Qed.

Lemma min_traps_b_length : forall N S M, In M (min_traps_b N S) -> length M = length S.
Proof.
  intros N S M Hin. unfold min_traps_b in Hin.
  apply filter_In in Hin. destruct Hin as [Hin _].
  apply traps_in_spec in Hin. destruct Hin as [Hsub _]. apply subspace_length. exact Hsub.
Qed.

Lemma perm_of_In : forall a b x, perm_of a b = true -> In x a -> In x b.
Proof.
  intros a b x Hp Hin. unfold perm_of in Hp.
  apply andb_true_iff in Hp. destruct Hp as [Hp _].
  apply andb_true_iff in Hp. destruct Hp as [_ Hp].
  rewrite forallb_forall in Hp. apply mem_space_spec. apply Hp. exact Hin.
Qed.

Lemma tape_lengths : forall N S tape,
  length S = nvars N -> negb (perm_of tape (min_traps_b N S)) = false ->
  forall m, In m tape -> length m = nvars N.
Proof.
  intros N S tape HS Hp m Hin. apply negb_false_iff in Hp.
  rewrite <- HS. apply (min_traps_b_length N S). eapply perm_of_In; eauto.
Qed.

Lemma successors_valid : forall N d i s, SWF N d -> In s (successors d i) -> s < size d.
Proof.
  intros N d i s Hswf Hin. unfold successors, successors_of in Hin.
  apply in_map_iff in Hin. destruct Hin as [e [Heq Hin]].
  apply filter_In in Hin. destruct Hin as [Hin _]. subst s.
  apply (swf_edges N d Hswf e Hin).
Qed.

Lemma n_space_mark_expanded : forall d i j,
  n_space (get (mark_expanded d i) j) = n_space (get d j).
Proof. intros d i j. rewrite <- !nth_spaces, spaces_mark_expanded. reflexivity. Qed.

(* ================================================================== *)
(* 8. invariant transfer: from the primitives to every operation       *)
(* ================================================================== *)

(* ids stored in the explicit stacks of expand_minimal_spaces *)
Definition stack_ok (d : sd) (stack : list (nat * option (list nat))) : Prop :=
  forall x l s, In (x, Some l) stack -> In s l -> s < size d.

Lemma stack_ok_extends : forall d d' stack, extends d d' -> stack_ok d stack -> stack_ok d' stack.
Proof.
  intros d d' stack He Hst x l s Hin Hs. eapply extends_lt; [exact He|]. eapply Hst; eauto.
Qed.

(* (node id, minimal trap space) pairs used by skip_remaining *)
Definition traps_ok (N : net) (d : sd) (traps : list (nat * space)) : Prop :=
  forall c m, In (c, m) traps ->
    c < size d /\ length m = nvars N /\ percolate_b N m = n_space (get d c).

Lemma traps_ok_extends : forall N d d' traps,
  extends d d' -> traps_ok N d traps -> traps_ok N d' traps.
Proof.
  intros N d d' traps He Ht c m Hin. destruct (Ht c m Hin) as (Hc & Hm & Hp).
  split; [eapply extends_lt; eauto|]. split; [exact Hm|].
  rewrite (extends_space d d' c He Hc). exact Hp.
Qed.

Section Transfer.
  Variable N : net.
  Variable Q : sd -> Prop.
  Hypothesis Q_swf : forall d, Q d -> SWF N d.
  Hypothesis Q_node : forall d parent motif, Q d -> length motif = nvars N ->
    (forall p, parent = Some p -> p < size d) -> Q (fst (ensure_node N d parent motif)).
  Hypothesis Q_upd : forall d i f, Q d -> i < size d -> flag_setter f -> Q (upd_node d i f).
  Hypothesis Q_edge : forall d p c m, Q d -> p < size d -> c < size d -> length m = nvars N ->
    percolate_b N m = n_space (get d c) -> Q (ensure_edge d p c m).
  Hypothesis Q_reclaim : forall d, Q d -> Q (reclaim d).

  Lemma T_upd : forall d i f, Q d -> flag_setter f -> Q (upd_node d i f).
  Proof.
    intros d i f Hq Hf. destruct (lt_dec i (size d)) as [Hlt|Hge].
    - apply Q_upd; assumption.
    - rewrite upd_node_beyond by lia. exact Hq.
  Qed.

  Lemma T_mark : forall d i, Q d -> Q (mark_expanded d i).
  Proof. intros d i Hq. unfold mark_expanded. apply T_upd; [exact Hq|constructor]. Qed.

  Lemma T_space_len : forall d i, Q d -> i < size d -> length (n_space (get d i)) = nvars N.
  Proof.
    intros d i Hq Hi. apply (swf_len N d (Q_swf d Hq)). apply get_In. exact Hi.
  Qed.

  Lemma T_ensure_all : forall subs d p,
    Q d -> p < size d -> (forall m, In m subs -> length m = nvars N) ->
    Q (ensure_all N d p subs).
  Proof.
    induction subs as [|m r IH]; intros d p Hq Hp Hlen; simpl; [exact Hq|].
    apply IH.
    - apply Q_node; [exact Hq|apply Hlen; left; reflexivity|].
      intros p0 Heq. injection Heq as Heq. subst p0. exact Hp.
    - eapply extends_lt; [apply ensure_node_extends|exact Hp].
    - intros m0 Hin. apply Hlen. right. exact Hin.
  Qed.

  Lemma T_expand_one : forall cfg d i, Q d -> Q (fst (expand_one N cfg d i)).
  Proof.
    intros cfg d i Hq. unfold expand_one.
    destruct (n_exp (get d i)); [exact Hq|].
    destruct (is_full (n_space (get d i))) eqn:Ef; simpl.
    - apply T_upd; [|constructor]. apply T_upd; [exact Hq|constructor].
    - assert (Hi : i < size d).
      { destruct (lt_dec i (size d)) as [Hlt|Hge]; [exact Hlt|].
        rewrite get_beyond in Ef by lia. simpl in Ef. discriminate. }
      destruct (Nat.eqb (solver_len _ _) _); simpl.
      + apply T_upd; [exact Hq|constructor].
      + apply T_upd; [|constructor]. apply T_ensure_all.
        * apply T_upd; [exact Hq|constructor].
        * rewrite size_upd_node. exact Hi.
        * intros m Hin. apply In_firstn_in in Hin. apply sort_by_key_In in Hin.
          apply max_traps_b_length in Hin. rewrite Hin. apply T_space_len; assumption.
  Qed.

  Lemma T_node_successors : forall cfg d i, Q d -> Q (fst (fst (node_successors N cfg d i))).
  Proof. intros cfg d i Hq. rewrite node_successors_fst. apply T_expand_one. exact Hq. Qed.

  (* ---------- bfs ---------- *)
  Lemma T_bfs_level : forall cfg sl cur d seen next,
    Q d -> Q (fst (fst (fst (bfs_level N cfg sl d seen next cur)))).
  Proof.
    intros cfg sl cur. induction cur as [|x cur IH]; intros d seen next Hq; simpl; [exact Hq|].
    destruct (over_limit sl d && negb (n_exp (get d x))); [simpl; exact Hq|].
    pose proof (T_node_successors cfg d x Hq) as Hq1.
    destruct (node_successors N cfg d x) as [[d1 r] succ]. simpl in Hq1.
    destruct r; simpl; try exact Hq1. apply IH. exact Hq1.
  Qed.

  Lemma T_bfs_loop : forall cfg ll sl fuel d seen cur level,
    Q d -> Q (fst (bfs_loop fuel N cfg ll sl d seen cur level)).
  Proof.
    intros cfg ll sl fuel. induction fuel as [|f IH]; intros d seen cur level Hq; simpl;
      [exact Hq|].
    pose proof (T_bfs_level cfg sl cur d seen [] Hq) as Hq1.
    destruct (bfs_level N cfg sl d seen [] cur) as [[[d1 r] seen1] next]. simpl in Hq1.
    destruct cur as [|x cur]; [exact Hq|].
    destruct r; simpl; try exact Hq1.
    destruct (match ll with Some l => Nat.leb l level | None => false end); simpl;
      [exact Hq1|apply IH; exact Hq1].
  Qed.

  (* ---------- dfs ---------- *)
  Lemma T_dfs_loop : forall cfg kl sl fuel d seen stack complete,
    Q d -> Q (fst (dfs_loop fuel N cfg kl sl d seen stack complete)).
  Proof.
    intros cfg kl sl fuel. induction fuel as [|f IH]; intros d seen stack complete Hq; simpl;
      [exact Hq|].
    destruct stack as [|[x osucc] stack']; [exact Hq|].
    destruct osucc as [l|]; simpl.
    - destruct (drop_seen seen l) as [|s rest]; [apply IH; exact Hq|].
      destruct (match kl with Some l0 => Nat.leb l0 (length stack') | None => false end);
        apply IH; exact Hq.
    - destruct (over_limit sl d && negb (n_exp (get d x))); [simpl; exact Hq|].
      pose proof (T_node_successors cfg d x Hq) as Hq1.
      destruct (node_successors N cfg d x) as [[d1 r] succ]. simpl in Hq1.
      destruct r; simpl; try exact Hq1.
      destruct (drop_seen seen (sort_nat succ)) as [|s rest]; [apply IH; exact Hq1|].
      destruct (match kl with Some l0 => Nat.leb l0 (length stack') | None => false end);
        apply IH; exact Hq1.
  Qed.

  (* ---------- target ---------- *)
  Lemma T_target_level : forall cfg target sl cur d seen next,
    Q d -> Q (fst (fst (fst (target_level N cfg target sl d seen next cur)))).
  Proof.
    intros cfg target sl cur. induction cur as [|x cur IH]; intros d seen next Hq; simpl;
      [exact Hq|].
    destruct (intersect (n_space (get d x)) target); [|apply IH; exact Hq].
    destruct (subspace (n_space (get d x)) target && negb (eqb_space (n_space (get d x)) target));
      [apply IH; exact Hq|].
    destruct (over_limit sl d && negb (n_exp (get d x))); [simpl; exact Hq|].
    pose proof (T_node_successors cfg d x Hq) as Hq1.
    destruct (node_successors N cfg d x) as [[d1 r] succ]. simpl in Hq1.
    destruct r; simpl; try exact Hq1. apply IH. exact Hq1.
  Qed.

  Lemma T_target_loop : forall cfg target sl fuel d seen cur,
    Q d -> Q (fst (target_loop fuel N cfg target sl d seen cur)).
  Proof.
    intros cfg target sl fuel. induction fuel as [|f IH]; intros d seen cur Hq; simpl;
      [exact Hq|].
    pose proof (T_target_level cfg target sl cur d seen [] Hq) as Hq1.
    destruct (target_level N cfg target sl d seen [] cur) as [[[d1 r] seen1] next]. simpl in Hq1.
    destruct cur as [|x cur]; [exact Hq|].
    destruct r; simpl; try exact Hq1. apply IH. exact Hq1.
  Qed.

  (* ---------- minimal spaces ---------- *)
  Lemma T_ensure_min_children : forall mins d p,
    Q d -> p < size d -> (forall m, In m mins -> length m = nvars N) ->
    Q (ensure_min_children N d p mins).
  Proof.
    induction mins as [|m r IH]; intros d p Hq Hp Hlen; simpl; [exact Hq|].
    assert (Hq1 : Q (fst (ensure_node N d (Some p) m))).
    { apply Q_node; [exact Hq|apply Hlen; left; reflexivity|].
      intros p0 Heq. injection Heq as Heq. subst p0. exact Hp. }
    pose proof (ensure_node_extends N d (Some p) m) as He.
    destruct (ensure_node N d (Some p) m) as [d1 c]. simpl in Hq1, He.
    apply IH.
    - apply T_mark. exact Hq1.
    - rewrite size_mark_expanded. eapply extends_lt; [exact He|exact Hp].
    - intros m0 Hin. apply Hlen. right. exact Hin.
  Qed.

  Lemma T_make_skip_node : forall d i all_min,
    Q d -> i < size d -> (forall m, In m all_min -> length m = nvars N) ->
    Q (make_skip_node N d i all_min).
  Proof.
    intros d i all_min Hq Hi Hlen. unfold make_skip_node.
    destruct (n_exp (get d i)); [exact Hq|].
    apply T_upd; [|constructor]. apply T_mark. apply T_ensure_min_children.
    - apply T_upd; [exact Hq|constructor].
    - rewrite size_upd_node. exact Hi.
    - intros m Hin. apply filter_In in Hin. apply Hlen. apply Hin.
  Qed.

  Lemma T_min_inner : forall all_min remaining node_space skip seen,
    (forall m, In m all_min -> length m = nvars N) ->
    forall succ d, Q d -> (forall s, In s succ -> s < size d) ->
    Q (fst (min_inner N d seen remaining all_min node_space skip succ)).
  Proof.
    intros all_min remaining node_space skip seen Hlen.
    induction succ as [|s r IH]; intros d Hq Hv; simpl; [exact Hq|].
    assert (Hr : forall s0, In s0 r -> s0 < size d) by (intros s0 Hin; apply Hv; right; exact Hin).
    destruct (mem_nat s seen); [apply IH; assumption|].
    destruct (negb (existsb (fun m => subspace m node_space) remaining)); [|exact Hq].
    destruct skip; [|apply IH; assumption].
    apply IH.
    - apply T_make_skip_node; [exact Hq|apply Hv; left; reflexivity|exact Hlen].
    - intros s0 Hin. eapply extends_lt; [apply make_skip_node_extends|apply Hr; exact Hin].
  Qed.

  Lemma T_min_loop : forall cfg sl skip all_min,
    (forall m, In m all_min -> length m = nvars N) ->
    forall fuel d seen remaining stack,
    Q d -> stack_ok d stack ->
    Q (fst (min_loop fuel N cfg sl skip all_min d seen remaining stack)).
  Proof.
    intros cfg sl skip all_min Hlen fuel.
    induction fuel as [|f IH]; intros d seen remaining stack Hq Hst; simpl; [exact Hq|].
    destruct stack as [|[x osucc] stack'].
    { destruct (Nat.eqb (length remaining) 0); exact Hq. }
    assert (Hst' : stack_ok d stack').
    { intros x0 l0 s0 Hin Hs0. eapply Hst; [right; exact Hin|exact Hs0]. }
    (* the common tail: d1 is the diagram after the successors were computed *)
    assert (Htail : forall d1 succ, Q d1 -> extends d d1 ->
              (forall s, In s succ -> s < size d1) ->
              Q (fst (let '(d2, succ2) :=
                        min_inner N d1 seen remaining all_min (n_space (get d1 x)) skip succ in
                      match succ2 with
                      | [] =>
                          if is_minimal d2 x
                          then match remove_space (n_space (get d2 x)) remaining with
                               | Some rem' => min_loop f N cfg sl skip all_min d2 seen rem' stack'
                               | None => (d2, RRaised ErrAssert)
                               end
                          else min_loop f N cfg sl skip all_min d2 seen remaining stack'
                      | s :: rest =>
                          min_loop f N cfg sl skip all_min d2 (s :: seen) remaining
                                   ((s, None) :: (x, Some rest) :: stack')
                      end))).
    { intros d1 succ Hq1 He1 Hv1.
      pose proof (T_min_inner all_min remaining (n_space (get d1 x)) skip seen Hlen succ d1 Hq1 Hv1)
        as Hq2.
      pose proof (min_inner_extends N all_min remaining (n_space (get d1 x)) skip seen succ d1)
        as He2.
      pose proof (min_inner_incl N all_min remaining (n_space (get d1 x)) skip seen succ d1)
        as Hi2.
      destruct (min_inner N d1 seen remaining all_min (n_space (get d1 x)) skip succ)
        as [d2 succ2].
      simpl in Hq2, He2, Hi2.
      assert (Hst2 : stack_ok d2 stack').
      { eapply stack_ok_extends; [|exact Hst']. eapply extends_trans; eassumption. }
      destruct succ2 as [|s rest].
      - destruct (is_minimal d2 x); [|apply IH; assumption].
        destruct (remove_space (n_space (get d2 x)) remaining); [apply IH; assumption|exact Hq2].
      - apply IH; [exact Hq2|].
        intros x0 l0 s0 [Heq|[Heq|Hin]] Hs0.
        + discriminate Heq.
        + injection Heq as Hx Hl. subst x0 l0.
          eapply extends_lt; [exact He2|]. apply Hv1. apply Hi2. right. exact Hs0.
        + eapply Hst2; eauto. }
    destruct osucc as [l|]; simpl.
    - apply Htail; [exact Hq|apply extends_refl|].
      intros s Hs. eapply Hst; [left; reflexivity|exact Hs].
    - destruct (over_limit sl d && negb (n_exp (get d x))); [simpl; exact Hq|].
      pose proof (T_node_successors cfg d x Hq) as Hq1.
      pose proof (node_successors_extends N cfg d x) as He1.
      pose proof (node_successors_succ N cfg d x) as Hs1.
      destruct (node_successors N cfg d x) as [[d1 r] succ]. simpl in Hq1, He1, Hs1.
      destruct r; simpl; try exact Hq1.
      apply Htail; [exact Hq1|exact He1|].
      intros s Hs. apply sort_nat_In in Hs.
      eapply successors_valid; [apply Q_swf; exact Hq1|apply Hs1; exact Hs].
  Qed.

  Lemma T_valid_start : forall d start, Q d -> valid_start d start = true ->
    match start with Some s => s | None => 0 end < size d.
  Proof.
    intros d [s|] Hq Hv; simpl in *.
    - apply Nat.ltb_lt. exact Hv.
    - apply (swf_size N d (Q_swf d Hq)).
  Qed.

  Lemma T_expand_min : forall fuel cfg d start sl skip tape,
    Q d -> valid_start d start = true ->
    Q (fst (expand_min fuel N cfg d start sl skip tape)).
  Proof.
    intros fuel cfg d start sl skip tape Hq Hv. unfold expand_min.
    pose proof (T_valid_start d start Hq Hv) as Hs.
    destruct (negb (perm_of tape (min_traps_b N _))) eqn:Ep; [exact Hq|].
    apply T_min_loop.
    - eapply tape_lengths; [|exact Ep]. apply T_space_len; assumption.
    - exact Hq.
    - intros x l s0 [Heq|[]] Hs0. discriminate Heq.
  Qed.

  (* ---------- skip operations ---------- *)
  Lemma T_skip_edges : forall traps d i,
    Q d -> i < size d -> traps_ok N d traps -> Q (skip_edges d i traps).
  Proof.
    induction traps as [|[mid m] r IH]; intros d i Hq Hi Ht; simpl; [exact Hq|].
    assert (Hr : traps_ok N d r) by (intros c0 m0 Hin; apply Ht; right; exact Hin).
    destruct (subspace m (n_space (get d i))); [|apply IH; assumption].
    destruct (Ht mid m (or_introl eq_refl)) as (Hmid & Hm & Hp).
    apply IH.
    - apply Q_edge; assumption.
    - rewrite size_ensure_edge. exact Hi.
    - eapply traps_ok_extends; [apply ensure_edge_extends|exact Hr].
  Qed.

  Lemma T_ensure_roots : forall mins d acc,
    Q d -> (forall m, In m mins -> length m = nvars N) -> traps_ok N d acc ->
    Q (fst (ensure_roots N d mins acc)) /\
    traps_ok N (fst (ensure_roots N d mins acc)) (snd (ensure_roots N d mins acc)).
  Proof.
    induction mins as [|m r IH]; intros d acc Hq Hlen Ht; simpl.
    - split; [exact Hq|]. intros c m Hin. apply Ht. apply in_rev. exact Hin.
    - assert (Hm : length m = nvars N) by (apply Hlen; left; reflexivity).
      assert (Hq1 : Q (fst (ensure_node N d None m))).
      { apply Q_node; [exact Hq|exact Hm|]. intros p0 Heq. discriminate Heq. }
      pose proof (ensure_node_extends N d None m) as He.
      pose proof (ensure_node_spec N d None m) as Hspec.
      destruct (ensure_node N d None m) as [d1 c]. simpl in Hq1, He.
      destruct (Hspec d1 c (Q_swf d Hq) Hm eq_refl) as (Hc & Hsp & _).
      apply IH.
      + apply T_mark. exact Hq1.
      + intros m0 Hin. apply Hlen. right. exact Hin.
      + intros c0 m0 [Heq|Hin].
        * injection Heq as Hcc Hmm. subst c0 m0. rewrite size_mark_expanded.
          split; [exact Hc|]. split; [exact Hm|]. rewrite n_space_mark_expanded. symmetry. exact Hsp.
        * eapply traps_ok_extends; [|exact Ht|exact Hin].
          eapply extends_trans; [exact He|apply mark_expanded_extends].
  Qed.

  Lemma T_skip_all : forall traps ids d count,
    Q d -> traps_ok N d traps -> (forall i, In i ids -> i < size d) ->
    Q (fst (skip_all d ids traps count)).
  Proof.
    intro traps. induction ids as [|i r IH]; intros d count Hq Ht Hv; simpl; [exact Hq|].
    assert (Hr : forall j, In j r -> j < size d) by (intros j Hin; apply Hv; right; exact Hin).
    assert (Hi : i < size d) by (apply Hv; left; reflexivity).
    destruct (n_exp (get d i)); [apply IH; assumption|].
    assert (He : extends d (upd_node (mark_expanded
                   (skip_edges (upd_node d i clear_attr) i traps) i) i
                   (fun y => set_skip y true))).
    { apply extends_trans with (d2 := upd_node d i clear_attr);
        [apply upd_flag_extends; constructor|].
      eapply extends_trans; [apply skip_edges_extends|].
      eapply extends_trans; [apply mark_expanded_extends|].
      apply upd_flag_extends. constructor. }
    apply IH.
    - apply T_upd; [|constructor]. apply T_mark. apply T_skip_edges.
      + apply T_upd; [exact Hq|constructor].
      + rewrite size_upd_node. exact Hi.
      + eapply traps_ok_extends; [|exact Ht]. apply upd_flag_extends. constructor.
    - eapply traps_ok_extends; [exact He|exact Ht].
    - intros j Hin. eapply extends_lt; [exact He|apply Hr; exact Hin].
  Qed.

  Lemma T_skip_remaining : forall d tape, Q d -> Q (fst (skip_remaining N d tape)).
  Proof.
    intros d tape Hq. unfold skip_remaining.
    destruct (negb (perm_of tape (min_traps_b N (n_space (get d 0))))) eqn:Ep; [exact Hq|].
    assert (Hlen : forall m, In m tape -> length m = nvars N).
    { eapply tape_lengths; [|exact Ep]. apply T_space_len; [exact Hq|].
      apply (swf_size N d (Q_swf d Hq)). }
    assert (Hnil : traps_ok N d []) by (intros c m []).
    destruct (T_ensure_roots tape d [] Hq Hlen Hnil) as [Hq1 Ht1].
    destruct (ensure_roots N d tape []) as [d1 traps]. simpl in Hq1, Ht1.
    assert (Hv : forall i, In i (seq 0 (size d1)) -> i < size d1).
    { intros i Hin. apply in_seq in Hin. lia. }
    pose proof (T_skip_all traps (seq 0 (size d1)) d1 0 Hq1 Ht1 Hv) as Hq2.
    destruct (skip_all d1 (seq 0 (size d1)) traps 0) as [d2 k]. exact Hq2.
  Qed.

  Local Arguments ensure_min_children : simpl never.

  Lemma T_skip_to_minimal : forall d i tape,
    Q d -> i < size d -> Q (fst (skip_to_minimal_t N d i tape)).
  Proof.
    intros d i tape Hq Hi. unfold skip_to_minimal_t.
    destruct (n_exp (get d i)); [exact Hq|].
    destruct (negb (perm_of tape (min_traps_b N (n_space (get d i))))) eqn:Ep; [exact Hq|].
    assert (Hlen : forall m, In m tape -> length m = nvars N).
    { eapply tape_lengths; [|exact Ep]. apply T_space_len; assumption. }
    assert (Hc : Q (upd_node d i clear_attr)) by (apply T_upd; [exact Hq|constructor]).
    assert (Hcommon : Q (upd_node (mark_expanded
               (ensure_min_children N (upd_node d i clear_attr) i tape) i) i
               (fun y => set_skip y true))).
    { apply T_upd; [|constructor]. apply T_mark. apply T_ensure_min_children.
      - exact Hc.
      - rewrite size_upd_node. exact Hi.
      - exact Hlen. }
    destruct tape as [|m [|m2 r]]; simpl; try exact Hcommon.
    destruct (eqb_space m (n_space (get d i))); simpl; [|exact Hcommon].
    apply T_mark. exact Hc.
  Qed.

  (* ---------- attractor cache queries ---------- *)
  Lemma T_q_cands : forall d i o, Q d -> Q (fst (q_cands d i o)).
  Proof.
    intros d i o Hq. unfold q_cands.
    destruct (n_cands (get d i)); [exact Hq|].
    destruct (n_seeds (get d i)); [exact Hq|].
    destruct o as [|k b]; [exact Hq|].
    destruct (_ || _); simpl; repeat (apply T_upd; [|constructor]); exact Hq.
  Qed.

  Lemma T_q_seeds : forall d i fallback oc os, Q d -> Q (fst (q_seeds d i fallback oc os)).
  Proof.
    intros d i fallback oc os Hq. unfold q_seeds.
    destruct (n_seeds (get d i)); [exact Hq|].
    pose proof (T_q_cands d i oc Hq) as Hq1.
    destruct (q_cands d i oc) as [d1 r]. simpl in Hq1.
    destruct r;
      try (destruct (n_seeds (get d1 i)); [exact Hq1|];
           destruct os as [|k0 [|]]; simpl; repeat (apply T_upd; [|constructor]); exact Hq1).
    destruct fallback; simpl; [|exact Hq1].
    repeat (apply T_upd; [|constructor]). exact Hq1.
  Qed.

  Lemma T_q_sets : forall d i oc os, Q d -> Q (fst (q_sets d i oc os)).
  Proof.
    intros d i oc os Hq. unfold q_sets.
    destruct (n_sets (get d i)); [exact Hq|].
    pose proof (T_q_seeds d i false oc os Hq) as Hq1.
    destruct (q_seeds d i false oc os) as [d1 r]. simpl in Hq1.
    destruct r; simpl; try exact Hq1; (apply T_upd; [exact Hq1|constructor]).
  Qed.

  (* ---------- every operation ---------- *)
  Theorem T_step : forall fuel cfg d o, Q d -> Q (fst (step fuel N cfg d o)).
  Proof.
    intros fuel cfg d o Hq. destruct o; unfold step.
    - destruct (Nat.ltb i (size d)); [|exact Hq].
      pose proof (T_node_successors cfg d i Hq) as Hq1.
      destruct (node_successors N cfg d i) as [[d1 r] succ]. exact Hq1.
    - destruct (valid_start d start); [|exact Hq]. unfold expand_bfs. apply T_bfs_loop. exact Hq.
    - destruct (valid_start d start); [|exact Hq]. unfold expand_dfs. apply T_dfs_loop. exact Hq.
    - destruct (valid_start d start) eqn:Ev; [|exact Hq]. apply T_expand_min; assumption.
    - unfold expand_to_target. apply T_target_loop. exact Hq.
    - destruct (Nat.ltb i (size d)) eqn:Ei; [|exact Hq].
      apply T_skip_to_minimal; [exact Hq|apply Nat.ltb_lt; exact Ei].
    - apply T_skip_remaining. exact Hq.
    - simpl. apply Q_reclaim. exact Hq.
    - exact Hq.
    - destruct (Nat.ltb i (size d)); [|exact Hq]. apply T_q_cands. exact Hq.
    - destruct (Nat.ltb i (size d)); [|exact Hq]. apply T_q_seeds. exact Hq.
    - destruct (Nat.ltb i (size d)); [|exact Hq]. apply T_q_sets. exact Hq.
  Qed.
End Transfer.

(* ================================================================== *)
(* 9. the transfer principle, SWF and extends for every operation      *)
(* ================================================================== *)

(* P is preserved by the four primitives (on well-formed diagrams, with valid
   ids and motifs of the right length / percolating to the target space) *)
Definition prim_closed (N : net) (P : sd -> Prop) : Prop :=
  (forall d parent motif, SWF N d -> P d -> length motif = nvars N ->
     (forall p, parent = Some p -> p < size d) ->
     P (fst (ensure_node N d parent motif))) /\
  (forall d i f, SWF N d -> P d -> i < size d -> flag_setter f -> P (upd_node d i f)) /\
  (forall d p c m, SWF N d -> P d -> p < size d -> c < size d -> length m = nvars N ->
     percolate_b N m = n_space (get d c) -> P (ensure_edge d p c m)) /\
  (forall d, SWF N d -> P d -> P (reclaim d)).

Lemma prim_closed_SWF : forall N, prim_closed N (SWF N).
Proof.
  intro N. unfold prim_closed. split; [|split; [|split]].
  - intros d parent motif Hswf _ Hm Hp. apply ensure_node_SWF; assumption.
  - intros d i f Hswf _ _ Hf. apply upd_flag_SWF; assumption.
  - intros d p c m Hswf _ Hp Hc Hm Hpm. apply ensure_edge_SWF; assumption.
  - intros d Hswf _. apply reclaim_SWF. exact Hswf.
Qed.

Lemma prim_closed_extends : forall N d0, prim_closed N (extends d0).
Proof.
  intros N d0. unfold prim_closed. split; [|split; [|split]].
  - intros d parent motif _ He _ _. eapply extends_trans; [exact He|apply ensure_node_extends].
  - intros d i f _ He _ Hf. eapply extends_trans; [exact He|apply upd_flag_extends; exact Hf].
  - intros d p c m _ He _ _ _ _. eapply extends_trans; [exact He|apply ensure_edge_extends].
  - intros d _ He. eapply extends_trans; [exact He|apply reclaim_extends].
Qed.

Lemma prim_closed_and : forall N P1 P2,
  prim_closed N P1 -> prim_closed N P2 -> prim_closed N (fun d => P1 d /\ P2 d).
Proof.
  intros N P1 P2 (A1 & A2 & A3 & A4) (B1 & B2 & B3 & B4). unfold prim_closed.
  split; [|split; [|split]].
  - intros d parent motif Hswf [H1 H2] Hm Hp. split; [apply A1|apply B1]; assumption.
  - intros d i f Hswf [H1 H2] Hi Hf. split; [apply A2|apply B2]; assumption.
  - intros d p c m Hswf [H1 H2] Hp Hc Hm Hpm. split; [apply A3|apply B3]; assumption.
  - intros d Hswf [H1 H2]. split; [apply A4|apply B4]; assumption.
Qed.

Theorem expand_one_transfer : forall N P, prim_closed N P ->
  forall cfg d i, SWF N d -> P d -> P (fst (expand_one N cfg d i)).
Proof.
  intros N P (Hn & Hu & He & Hr) cfg d i Hswf HP.
  assert (H : SWF N (fst (expand_one N cfg d i)) /\ P (fst (expand_one N cfg d i))).
  { apply (T_expand_one N (fun d0 => SWF N d0 /\ P d0)).
    - intros d0 [H1 _]. exact H1.
    - intros d0 parent motif [H1 H2] Hm Hp. split; [apply ensure_node_SWF|apply Hn]; assumption.
    - intros d0 j f [H1 H2] Hj Hf. split; [apply upd_flag_SWF|apply Hu]; assumption.
    - split; assumption. }
  exact (proj2 H).
Qed.

Theorem step_transfer : forall N P, prim_closed N P ->
  forall fuel cfg d o, SWF N d -> P d -> P (fst (step fuel N cfg d o)).
Proof.
  intros N P (Hn & Hu & He & Hr) fuel cfg d o Hswf HP.
  assert (H : SWF N (fst (step fuel N cfg d o)) /\ P (fst (step fuel N cfg d o))).
  { apply (T_step N (fun d0 => SWF N d0 /\ P d0)).
    - intros d0 [H1 _]. exact H1.
    - intros d0 parent motif [H1 H2] Hm Hp. split; [apply ensure_node_SWF|apply Hn]; assumption.
    - intros d0 i f [H1 H2] Hi Hf. split; [apply upd_flag_SWF|apply Hu]; assumption.
    - intros d0 p c m [H1 H2] Hp Hc Hm Hpm. split; [apply ensure_edge_SWF|apply He]; assumption.
    - intros d0 [H1 H2]. split; [apply reclaim_SWF|apply Hr]; assumption.
    - split; assumption. }
  exact (proj2 H).
Qed.

Theorem expand_one_SWF : forall N cfg d i, SWF N d -> i < size d ->
  SWF N (fst (expand_one N cfg d i)).
Proof.
  intros N cfg d i Hswf _. apply (expand_one_transfer N (SWF N) (prim_closed_SWF N)); exact Hswf.
Qed.

Theorem step_SWF : forall fuel N cfg d o, SWF N d -> SWF N (fst (step fuel N cfg d o)).
Proof.
  intros fuel N cfg d o Hswf. apply (step_transfer N (SWF N) (prim_closed_SWF N)); exact Hswf.
Qed.

Lemma run_SWF_from : forall fuel N cfg h d0 d r,
  SWF N d0 -> In (d, r) (run fuel N cfg d0 h) -> SWF N d.
Proof.
  intros fuel N cfg h. induction h as [|o h IH]; intros d0 d r Hswf Hin; simpl in Hin;
    [contradiction|].
  pose proof (step_SWF fuel N cfg d0 o Hswf) as H1.
  destruct (step fuel N cfg d0 o) as [d1 x]. simpl in H1.
  destruct Hin as [Heq|Hin].
  - injection Heq as Hd Hr. subst d. exact H1.
  - eapply IH; [exact H1|exact Hin].
Qed.

Theorem run_SWF : forall fuel N cfg h d r, In (d, r) (run fuel N cfg (init N) h) -> SWF N d.
Proof.
  intros fuel N cfg h d r Hin. eapply run_SWF_from; [apply init_SWF|exact Hin].
Qed.

Theorem step_extends : forall fuel N cfg d o, SWF N d -> extends d (fst (step fuel N cfg d o)).
Proof.
  intros fuel N cfg d o Hswf.
  apply (step_transfer N (extends d) (prim_closed_extends N d)); [exact Hswf|apply extends_refl].
Qed.

Lemma run_extends_from : forall fuel N cfg h d0 d r,
  SWF N d0 -> In (d, r) (run fuel N cfg d0 h) -> extends d0 d.
Proof.
  intros fuel N cfg h. induction h as [|o h IH]; intros d0 d r Hswf Hin; simpl in Hin;
    [contradiction|].
  pose proof (step_SWF fuel N cfg d0 o Hswf) as H1.
  pose proof (step_extends fuel N cfg d0 o Hswf) as H2.
  destruct (step fuel N cfg d0 o) as [d1 x]. simpl in H1, H2.
  destruct Hin as [Heq|Hin].
  - injection Heq as Hd Hr. subst d. exact H2.
  - eapply extends_trans; [exact H2|]. eapply IH; [exact H1|exact Hin].
Qed.

Print Assumptions step_SWF.
Print Assumptions step_extends.
Print Assumptions find_node_exact.
