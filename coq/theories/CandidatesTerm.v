(* CandidatesTerm.v -- termination of the loops of the attractor-candidate pipeline (Candidates.v).
   The Python `while` loops are modelled with fuel.  Here: explicit bounds above which the fuel is
   not observable (two runs with fuel above the bound give the same result, including the
   tape-exhaustion outcome), hence the modelled loops stop by themselves.
     - greedy loop: every repetition of the outer `while` strictly shortens the candidate list;
       fuel > length cands is enough;
     - simulation rounds: a round either shortens the list or (at least) doubles `iters`, and a
       round without progress exits once iters * length cands exceeds the budget;
       fuel >= length cands + budget * nfree + 3 is enough;
     - the whole pipeline: fuel >= 2 ^ |S| + budget * nfree + 4 is enough when the solver tape
       entries are at most 2 ^ |S| long. *)
From Coq Require Import List Bool Arith Lia.
Import ListNotations.
From BB Require Import BN Brute SpaceFacts Candidates CandidatesFacts.

(* ------------------------------------------------------------------------------------------ *)
(* 1. Greedy loop                                                                              *)
(* ------------------------------------------------------------------------------------------ *)
Lemma T_greedy_pass_shrinks_gen : forall pm vars st R cands ch st' R' cands' ch' early,
  greedy_pass st pm vars R cands ch = (st', Some (R', cands', ch', early)) ->
  length cands' <= length cands /\ (ch' = true -> ch = true \/ length cands' < length cands).
Proof.
  intros pm vars. induction vars as [|v r IH]; intros st R cands ch st' R' cands' ch' early H.
  - simpl in H. inversion H; subst. split; [lia|]. intros E. left. exact E.
  - destruct cands as [|c0 cs].
    + simpl in H. inversion H; subst. split; [lia|]. intros E. left. exact E.
    + rewrite C_greedy_pass_cons in H by discriminate.
      destruct (pm && Nat.eqb (length (c0 :: cs)) 1).
      { inversion H; subst. split; [lia|]. intros E. left. exact E. }
      cbv zeta in H.
      destruct (solve st (ret_set v (negb (ret_get v R)) R) (Some (length (c0 :: cs)))) as [st1 o1] eqn:Es.
      destruct o1 as [c2|]; [|discriminate].
      destruct (Nat.ltb (length c2) (length (c0 :: cs))) eqn:Elt.
      * apply Nat.ltb_lt in Elt. apply IH in H. destruct H as [H1 H2]. split; [lia|]. intros _. right. lia.
      * apply IH in H. exact H.
Qed.

Theorem greedy_pass_shrinks : forall st pm vars R cands st' R' cands' changed early,
  greedy_pass st pm vars R cands false = (st', Some (R', cands', changed, early)) ->
  length cands' <= length cands /\ (changed = true -> length cands' < length cands).
Proof.
  intros st pm vars R cands st' R' cands' changed early H.
  apply T_greedy_pass_shrinks_gen in H. destruct H as [H1 H2]. split; [exact H1|].
  intros E. destruct (H2 E) as [F|F]; [discriminate|exact F].
Qed.

Theorem greedy_loop_fuel_irrelevant : forall f1 f2 st pm R cands, length cands < f1 -> length cands < f2 ->
  greedy_loop f1 st pm R cands = greedy_loop f2 st pm R cands.
Proof.
  intros f1. induction f1 as [|f IH]; intros f2 st pm R cands H1 H2; [lia|].
  destruct f2 as [|f']; [lia|]. simpl.
  destruct (greedy_pass st pm (map fst R) R cands false) as [st1 o1] eqn:Ep.
  destruct o1 as [[[[R1 c1] chg] early]|]; [|reflexivity].
  destruct early; [reflexivity|]. destruct chg; [|reflexivity].
  apply greedy_pass_shrinks in Ep. destruct Ep as [_ Ep]. specialize (Ep eq_refl).
  apply IH; lia.
Qed.

(* the loop never lengthens the list (no solver contract needed) *)
Lemma T_greedy_loop_length : forall pm fuel st R cands st' R' cands',
  greedy_loop fuel st pm R cands = (st', Some (R', cands')) -> length cands' <= length cands.
Proof.
  intros pm fuel. induction fuel as [|f IH]; intros st R cands st' R' cands' H; [discriminate|].
  simpl in H. destruct (greedy_pass st pm (map fst R) R cands false) as [st1 o1] eqn:Ep.
  destruct o1 as [[[[R1 c1] chg] early]|]; [|discriminate].
  apply greedy_pass_shrinks in Ep. destruct Ep as [Ep _].
  destruct early; [inversion H; subst; exact Ep|].
  destruct chg; [|inversion H; subst; exact Ep].
  apply IH in H. lia.
Qed.

(* ------------------------------------------------------------------------------------------ *)
(* 2. Simulation minification                                                                  *)
(* ------------------------------------------------------------------------------------------ *)
Lemma sim_avoid_length : forall avoid pending kept walks,
  length (fst (sim_avoid avoid pending kept walks)) <= length pending + length kept.
Proof.
  intros avoid pending. induction pending as [|c rest IH]; intros kept walks; simpl.
  - rewrite rev_length. lia.
  - destruct (existsb (fun t => mem_state t (rest ++ kept) || existsb (in_space t) avoid) (hd [] walks)).
    + eapply Nat.le_trans; [apply IH|]. lia.
    + eapply Nat.le_trans; [apply IH|]. simpl. lia.
Qed.

Lemma T_sim_min_round_length : forall pending newc moves,
  length (fst (sim_min_round pending newc moves)) <= length pending + length newc.
Proof.
  intros pending. induction pending as [|c rest IH]; intros newc moves; simpl.
  - rewrite rev_length. lia.
  - destruct (mem_state (hd c moves) rest || mem_state (hd c moves) newc).
    + eapply Nat.le_trans; [apply IH|]. lia.
    + eapply Nat.le_trans; [apply IH|]. simpl. lia.
Qed.

Lemma sim_min_length : forall iters cands moves, length (fst (sim_min iters cands moves)) <= length cands.
Proof.
  intros iters. induction iters as [|k IH]; intros cands moves; simpl; [lia|].
  pose proof (T_sim_min_round_length cands [] moves) as Hr.
  destruct (sim_min_round cands [] moves) as [c1 m1]. simpl in Hr.
  destruct (Nat.leb (length c1) 1); [simpl; lia|].
  eapply Nat.le_trans; [apply IH|]. lia.
Qed.

Lemma T_sim_step_length : forall avoid iters cands tp,
  length (fst (sim_step avoid iters cands tp)) <= length cands.
Proof.
  intros avoid iters cands tp. unfold sim_step. destruct avoid as [|a0 av].
  - pose proof (sim_min_length iters cands (s_moves tp)) as H.
    destruct (sim_min iters cands (s_moves tp)) as [c1 m1]. exact H.
  - pose proof (sim_avoid_length (a0 :: av) cands [] (s_walks tp)) as H.
    destruct (sim_avoid (a0 :: av) cands [] (s_walks tp)) as [c1 w1]. simpl in H. simpl. lia.
Qed.

(* measure: length cands + (budget * nfree + 1 - iters); it strictly decreases in every round
   that does not exit *)
Lemma T_sim_rounds_measure : forall r1 r2 avoid nf cfg iters cands tp, 1 <= iters ->
  length cands + (c_budget cfg * nf + 1 - iters) < r1 ->
  length cands + (c_budget cfg * nf + 1 - iters) < r2 ->
  sim_rounds r1 avoid nf cfg iters cands tp = sim_rounds r2 avoid nf cfg iters cands tp.
Proof.
  intros r1. induction r1 as [|r IH]; intros r2 avoid nf cfg iters cands tp Hi H1 H2; [lia|].
  destruct r2 as [|r']; [lia|].
  destruct cands as [|c0 cs]; [reflexivity|].
  rewrite !C_sim_rounds_S by discriminate.
  pose proof (T_sim_step_length avoid iters (c0 :: cs) tp) as Hlen.
  destruct (sim_step avoid iters (c0 :: cs) tp) as [reduced tp1]. simpl fst in Hlen.
  destruct (Nat.eqb (length reduced) (length (c0 :: cs)) &&
            Nat.ltb (c_budget cfg * nf) (iters * length (c0 :: cs))) eqn:E1; [reflexivity|].
  destruct (Nat.eqb (length reduced) 1 && (match avoid with [] => true | _ => false end)); [reflexivity|].
  assert (Hm : length reduced + (c_budget cfg * nf + 1 - 2 * iters) <
               length (c0 :: cs) + (c_budget cfg * nf + 1 - iters)).
  { remember (c_budget cfg * nf) as K eqn:EK. clear EK.
    apply andb_false_iff in E1. destruct E1 as [E1|E1].
    - apply Nat.eqb_neq in E1. lia.
    - apply Nat.ltb_ge in E1. simpl length in E1. rewrite Nat.mul_succ_r in E1. lia. }
  apply IH; lia.
Qed.

Definition sim_bound (cfg : ccfg) (nfree : nat) (iters : nat) (cands : list state) : nat :=
  length cands + (c_budget cfg * nfree + 1) + 2.

Theorem sim_rounds_fuel_irrelevant : forall r1 r2 avoid nfree cfg iters cands tp, 1 <= iters ->
  sim_bound cfg nfree iters cands <= r1 -> sim_bound cfg nfree iters cands <= r2 ->
  sim_rounds r1 avoid nfree cfg iters cands tp = sim_rounds r2 avoid nfree cfg iters cands tp.
Proof.
  intros r1 r2 avoid nfree cfg iters cands tp Hi H1 H2. unfold sim_bound in H1, H2.
  apply T_sim_rounds_measure; [exact Hi| |]; lia.
Qed.

(* ------------------------------------------------------------------------------------------ *)
(* 3. The whole pipeline                                                                       *)
(* ------------------------------------------------------------------------------------------ *)
(* every list still on the solver tape has at most n elements *)
Definition tbound (n : nat) (st : pst) : Prop := forall l, In l (p_tape st) -> length l <= n.

Lemma T_solve_bound : forall n st R lim st1 o, tbound n st -> solve st R lim = (st1, o) ->
  tbound n st1 /\ (forall x, o = Some x -> length x <= n).
Proof.
  intros n st R lim st1 o Hb H. unfold solve in H. unfold tbound in *.
  destruct (p_tape st) as [|y t] eqn:Et; inversion H; subst; simpl.
  - split; [intros l []|intros x F; discriminate].
  - split; [intros l Hl; apply Hb; right; exact Hl|].
    intros x E. inversion E; subst. apply Hb. left. reflexivity.
Qed.

Lemma T_greedy_pass_bound : forall n pm vars st R cands ch st' o, tbound n st ->
  greedy_pass st pm vars R cands ch = (st', o) -> tbound n st'.
Proof.
  intros n pm vars. induction vars as [|v r IH]; intros st R cands ch st' o Hb H.
  - simpl in H. inversion H; subst. exact Hb.
  - destruct cands as [|c0 cs].
    + simpl in H. inversion H; subst. exact Hb.
    + rewrite C_greedy_pass_cons in H by discriminate.
      destruct (pm && Nat.eqb (length (c0 :: cs)) 1); [inversion H; subst; exact Hb|].
      cbv zeta in H.
      destruct (solve st (ret_set v (negb (ret_get v R)) R) (Some (length (c0 :: cs)))) as [st1 o1] eqn:Es.
      destruct (T_solve_bound n _ _ _ _ _ Hb Es) as [Hb1 _].
      destruct o1 as [c2|]; [|inversion H; subst; exact Hb1].
      destruct (Nat.ltb (length c2) (length (c0 :: cs))); eapply IH; eassumption.
Qed.

Lemma T_greedy_loop_bound : forall n pm fuel st R cands st' o, tbound n st ->
  greedy_loop fuel st pm R cands = (st', o) -> tbound n st'.
Proof.
  intros n pm fuel. induction fuel as [|f IH]; intros st R cands st' o Hb H.
  - simpl in H. inversion H; subst. exact Hb.
  - simpl in H. destruct (greedy_pass st pm (map fst R) R cands false) as [st1 o1] eqn:Ep.
    apply (T_greedy_pass_bound n) in Ep; [|exact Hb].
    destruct o1 as [[[[R1 c1] chg] early]|]; [|inversion H; subst; exact Ep].
    destruct early; [inversion H; subst; exact Ep|].
    destruct chg; [|inversion H; subst; exact Ep].
    eapply IH; eassumption.
Qed.

Lemma T_regen_fuel_irrelevant : forall n f1 f2 cfg pm vars st R cands, n < f1 -> n < f2 -> tbound n st ->
  regen f1 st cfg pm vars R cands = regen f2 st cfg pm vars R cands.
Proof.
  intros n f1 f2 cfg pm vars st R cands Hf1 Hf2. revert st R cands.
  induction vars as [|v r IH]; intros st R cands Hb; [reflexivity|].
  simpl.
  destruct (solve st (ret_set v false R) (Some (c_limit cfg))) as [st1 o0] eqn:Es0.
  destruct (T_solve_bound n _ _ _ _ _ Hb Es0) as [Hb1 Hx0].
  destruct o0 as [zero|]; [|reflexivity].
  assert (Hz : length zero <= n) by (apply Hx0; reflexivity).
  destruct (Nat.leb (length zero) (length cands) && Nat.ltb (length zero) (c_limit cfg)); [apply IH; exact Hb1|].
  destruct (solve st1 (ret_set v true R) (Some (length zero))) as [st2 o1] eqn:Es1.
  destruct (T_solve_bound n _ _ _ _ _ Hb1 Es1) as [Hb2 Hx1].
  destruct o1 as [one|]; [|reflexivity].
  assert (Ho : length one <= n) by (apply Hx1; reflexivity).
  destruct (Nat.eqb (length zero) (c_limit cfg) && Nat.eqb (length one) (c_limit cfg)); [reflexivity|].
  destruct (Nat.leb (length one) (length cands)); [apply IH; exact Hb2|].
  destruct (Nat.leb (length zero) (length one)).
  - destruct (Nat.ltb (c_threshold cfg) (length zero)); [|apply IH; exact Hb2].
    rewrite (greedy_loop_fuel_irrelevant f1 f2) by lia.
    destruct (greedy_loop f2 st2 pm (ret_set v false R) zero) as [st3 og] eqn:Eg.
    apply (T_greedy_loop_bound n) in Eg; [|exact Hb2].
    destruct og as [[Rg cg]|]; [|reflexivity]. apply IH. exact Eg.
  - destruct (Nat.ltb (c_threshold cfg) (length one)); [|apply IH; exact Hb2].
    rewrite (greedy_loop_fuel_irrelevant f1 f2) by lia.
    destruct (greedy_loop f2 st2 pm (ret_set v true R) one) as [st3 og] eqn:Eg.
    apply (T_greedy_loop_bound n) in Eg; [|exact Hb2].
    destruct og as [[Rg cg]|]; [|reflexivity]. apply IH. exact Eg.
Qed.

(* the list returned by the regeneration loop is the initial one, a tape entry, or a greedy
   shortening of a tape entry *)
Lemma T_regen_length : forall n fuel cfg pm vars st R cands st' cr R', tbound n st -> length cands <= n ->
  regen fuel st cfg pm vars R cands = (st', COk cr, R') -> length cr <= n.
Proof.
  intros n fuel cfg pm vars. induction vars as [|v r IH]; intros st R cands st' cr R' Hb Hc H.
  - simpl in H. inversion H; subst. exact Hc.
  - simpl in H.
    destruct (solve st (ret_set v false R) (Some (c_limit cfg))) as [st1 o0] eqn:Es0.
    destruct (T_solve_bound n _ _ _ _ _ Hb Es0) as [Hb1 Hx0].
    destruct o0 as [zero|]; [|discriminate].
    assert (Hz : length zero <= n) by (apply Hx0; reflexivity).
    destruct (Nat.leb (length zero) (length cands) && Nat.ltb (length zero) (c_limit cfg)).
    { exact (IH _ _ _ _ _ _ Hb1 Hz H). }
    destruct (solve st1 (ret_set v true R) (Some (length zero))) as [st2 o1] eqn:Es1.
    destruct (T_solve_bound n _ _ _ _ _ Hb1 Es1) as [Hb2 Hx1].
    destruct o1 as [one|]; [|discriminate].
    assert (Ho : length one <= n) by (apply Hx1; reflexivity).
    destruct (Nat.eqb (length zero) (c_limit cfg) && Nat.eqb (length one) (c_limit cfg)); [discriminate|].
    destruct (Nat.leb (length one) (length cands)); [exact (IH _ _ _ _ _ _ Hb2 Ho H)|].
    destruct (Nat.leb (length zero) (length one)).
    + destruct (Nat.ltb (c_threshold cfg) (length zero)); [|exact (IH _ _ _ _ _ _ Hb2 Hz H)].
      destruct (greedy_loop fuel st2 pm (ret_set v false R) zero) as [st3 og] eqn:Eg.
      destruct og as [[Rg cg]|]; [|discriminate].
      pose proof (T_greedy_loop_length _ _ _ _ _ _ _ _ Eg) as Hg.
      apply (T_greedy_loop_bound n) in Eg; [|exact Hb2].
      exact (IH _ _ _ _ _ _ Eg (Nat.le_trans _ _ _ Hg Hz) H).
    + destruct (Nat.ltb (c_threshold cfg) (length one)); [|exact (IH _ _ _ _ _ _ Hb2 Ho H)].
      destruct (greedy_loop fuel st2 pm (ret_set v true R) one) as [st3 og] eqn:Eg.
      destruct og as [[Rg cg]|]; [|discriminate].
      pose proof (T_greedy_loop_length _ _ _ _ _ _ _ _ Eg) as Hg.
      apply (T_greedy_loop_bound n) in Eg; [|exact Hb2].
      exact (IH _ _ _ _ _ _ Eg (Nat.le_trans _ _ _ Hg Ho) H).
Qed.

(* the pipeline up to `finish`: fuel above the tape-entry bound is not observable, and the list
   handed to `finish` is at most as long as a tape entry *)
Lemma T_pre_fuel_irrelevant : forall n f1 f2 N S avoid nfvs Rinit cfg greedy tape,
  (forall l, In l tape -> length l <= n) -> n < f1 -> n < f2 ->
  pre_candidates f1 N S avoid nfvs Rinit cfg greedy tape = pre_candidates f2 N S avoid nfvs Rinit cfg greedy tape /\
  (forall st cands, pre_candidates f2 N S avoid nfvs Rinit cfg greedy tape = PFinish st cands -> length cands <= n).
Proof.
  intros n f1 f2 N S avoid nfvs Rinit cfg greedy tape Ht Hf1 Hf2.
  assert (Hb0 : tbound n {| p_tape := tape; p_log := [] |}) by exact Ht.
  unfold pre_candidates.
  destruct (is_full S); [split; [reflexivity|intros st cands F; discriminate]|].
  destruct ((match nfvs with [] => true | _ => false end) && negb (match avoid with [] => true | _ => false end));
    [split; [reflexivity|intros st cands F; discriminate]|].
  cbv zeta. destruct (negb greedy).
  - destruct (solve {| p_tape := tape; p_log := [] |} Rinit (Some (c_limit cfg))) as [st1 o] eqn:Es.
    destruct (T_solve_bound n _ _ _ _ _ Hb0 Es) as [Hb1 Hx].
    destruct o as [c|]; [|split; [reflexivity|intros st cands F; discriminate]].
    destruct (Nat.eqb (length c) (c_limit cfg)); [split; [reflexivity|intros st cands F; discriminate]|].
    split; [reflexivity|]. intros st cands F. inversion F; subst. apply Hx. reflexivity.
  - destruct (solve {| p_tape := tape; p_log := [] |} Rinit (Some (c_threshold cfg))) as [st1 o] eqn:Es.
    destruct (T_solve_bound n _ _ _ _ _ Hb0 Es) as [Hb1 Hx].
    destruct o as [c|]; [|split; [reflexivity|intros st cands F; discriminate]].
    assert (Hc : length c <= n) by (apply Hx; reflexivity).
    destruct (Nat.ltb (length c) (c_threshold cfg)).
    + destruct (Nat.ltb 1 (length c) || (negb (match avoid with [] => true | _ => false end) && Nat.ltb 0 (length c))).
      * rewrite (greedy_loop_fuel_irrelevant f1 f2) by lia.
        destruct (greedy_loop f2 st1 (match avoid with [] => true | _ => false end) Rinit c) as [st2 og] eqn:Eg.
        destruct og as [[Rg cg]|]; [|split; [reflexivity|intros st cands F; discriminate]].
        split; [reflexivity|]. intros st cands F. inversion F; subst.
        apply T_greedy_loop_length in Eg. lia.
      * split; [reflexivity|]. intros st cands F. inversion F; subst. exact Hc.
    + destruct nfvs as [|v0 vs].
      * destruct (solve st1 [] (Some (c_limit cfg))) as [st2 o2] eqn:Es2.
        destruct (T_solve_bound n _ _ _ _ _ Hb1 Es2) as [Hb2 Hx2].
        destruct o2 as [c2|]; [|split; [reflexivity|intros st cands F; discriminate]].
        destruct (Nat.eqb (length c2) (c_limit cfg)); [split; [reflexivity|intros st cands F; discriminate]|].
        split; [reflexivity|]. intros st cands F. inversion F; subst. apply Hx2. reflexivity.
      * rewrite (T_regen_fuel_irrelevant n f1 f2) by assumption.
        destruct (regen f2 st1 cfg (match avoid with [] => true | _ => false end) (v0 :: vs) [] [])
          as [[st2 res] R'] eqn:Er.
        destruct res as [|cr|]; try (split; [reflexivity|intros st cands F; discriminate]).
        split; [reflexivity|]. intros st cands F. inversion F; subst.
        eapply T_regen_length; [exact Hb1| |exact Er]. simpl. lia.
Qed.

Lemma T_finish_fuel_irrelevant : forall pm simulation f1 f2 avoid nf cfg stp st cands,
  sim_bound cfg nf 1024 cands <= f1 -> sim_bound cfg nf 1024 cands <= f2 ->
  finish_fn pm simulation f1 avoid nf cfg stp st cands = finish_fn pm simulation f2 avoid nf cfg stp st cands.
Proof.
  intros pm simulation f1 f2 avoid nf cfg stp st cands H1 H2. unfold finish_fn.
  destruct cands as [|c0 cs]; [reflexivity|].
  destruct (pm && Nat.eqb (length (c0 :: cs)) 1); [reflexivity|].
  destruct simulation; [|reflexivity].
  rewrite (sim_rounds_fuel_irrelevant f1 f2); [reflexivity| |exact H1|exact H2].
  apply Nat.lt_0_succ.
Qed.

Theorem compute_candidates_fuel_irrelevant : forall f1 f2 N S avoid nfvs Rinit cfg greedy simulation tape stp,
  (forall l, In l tape -> length l <= Nat.pow 2 (length S)) ->
  let B := Nat.pow 2 (length S) + c_budget cfg * nfree S + 4 in
  B <= f1 -> B <= f2 ->
  compute_candidates f1 N S avoid nfvs Rinit cfg greedy simulation tape stp =
  compute_candidates f2 N S avoid nfvs Rinit cfg greedy simulation tape stp.
Proof.
  intros f1 f2 N S avoid nfvs Rinit cfg greedy simulation tape stp Ht B H1 H2. unfold B in H1, H2. clear B.
  rewrite !C_cc_pre.
  destruct (T_pre_fuel_irrelevant (Nat.pow 2 (length S)) f1 f2 N S avoid nfvs Rinit cfg greedy tape Ht) as [E Hlen];
    [lia|lia|].
  rewrite E.
  destruct (pre_candidates f2 N S avoid nfvs Rinit cfg greedy tape) as [r|st cands]; [reflexivity|].
  specialize (Hlen st cands eq_refl).
  apply T_finish_fuel_irrelevant; unfold sim_bound; lia.
Qed.

Print Assumptions greedy_loop_fuel_irrelevant.
Print Assumptions sim_rounds_fuel_irrelevant.
Print Assumptions compute_candidates_fuel_irrelevant.
