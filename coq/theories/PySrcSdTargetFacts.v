(* PySrcSdTargetFacts.v -- the translator tie for expand_to_target (theories/PySrcSdTarget.v, generated from the current text of
   biobalm/_sd_algorithms/expand_to_target.py) = Diagram.expand_to_target. *)
From Coq Require Import List Bool Arith Lia.
Import ListNotations.
From BB Require Import BN Brute SpaceFacts Diagram Invariants DiagramStruct PyLib PyLibSd PySrcSdBase PySrcSdTarget.
From BB Require Import Termination DiagramComplete.

(* ================================================================== *)
(* 2. expand_to_target                                                 *)
(* ================================================================== *)

Section Target.
Variables (N : net) (cfg : config) (target : space) (size_limit : option nat).

Definition TSt : Type := (nat * (list nat) * nat * (list nat) * (list nat) * space * (list nat))%type.

Definition tgt_inner : nat -> sd -> TSt -> sflow bool TSt :=
  fun s sd_ (st_ : TSt) =>
    let '(root, seen, level_id, current_level, next_level, node_space, successors) := st_ in
    ((if (negb (mem_nat s seen)) then (let seen := (set_add s seen) in
        (let next_level := (next_level ++ [s]) in SNext sd_ (root, seen, level_id, current_level, next_level, node_space, successors))) else
        SNext sd_ (root, seen, level_id, current_level, next_level, node_space, successors)) : sflow bool TSt).

Definition tgt_node : nat -> sd -> TSt -> sflow bool TSt :=
  fun node sd_ (st_ : TSt) =>
    let '(root, seen, level_id, current_level, next_level, node_space, successors) := st_ in
    ((let node_space := (n_space (get sd_ node)) in
      (match (if (match (intersect node_space target) with None => true | Some _ => false end)
              then (SCont sd_ (root, seen, level_id, current_level, next_level, node_space, successors))
              else SNext sd_ (root, seen, level_id, current_level, next_level, node_space, successors)) with
       | SNext sd_ st_ =>
           let '(root, seen, level_id, current_level, next_level, node_space, successors) := st_ in
           (match (if ((subspace node_space target) && (negb (eqb_space node_space target)))
                   then (SCont sd_ (root, seen, level_id, current_level, next_level, node_space, successors))
                   else SNext sd_ (root, seen, level_id, current_level, next_level, node_space, successors)) with
            | SNext sd_ st_ =>
                let '(root, seen, level_id, current_level, next_level, node_space, successors) := st_ in
                (match (match py_size_check size_limit sd_ node with
                        | Some c_ => if c_ then (SRet sd_ false)
                                     else SNext sd_ (root, seen, level_id, current_level, next_level, node_space, successors)
                        | None => SBad sd_ end) with
                 | SNext sd_ st_ =>
                     let '(root, seen, level_id, current_level, next_level, node_space, successors) := st_ in
                     (let n_ := node in (let '(d1_, r_, v_) := node_successors N cfg sd_ n_ in
                        match r_ with
                        | RUnit => let sd_ := d1_ in let successors := v_ in
                            (let successors := (sort_nat successors) in
                             (s_for successors tgt_inner sd_ (root, seen, level_id, current_level, next_level, node_space, successors)))
                        | _ => SRaise d1_ r_ end))
                 | other_ => other_ end)
            | other_ => other_ end)
       | other_ => other_ end)) : sflow bool TSt).

Definition tgt_cond : sd -> TSt -> option bool :=
  fun sd_ (st_ : TSt) =>
    let '(root, seen, level_id, current_level, next_level, node_space, successors) := st_ in
    (Some (Nat.ltb 0 (length current_level))).

Definition tgt_body : sd -> TSt -> sflow bool TSt :=
  fun sd_ (st_ : TSt) =>
    let '(root, seen, level_id, current_level, next_level, node_space, successors) := st_ in
    ((match (s_for current_level tgt_node sd_ (root, seen, level_id, current_level, next_level, node_space, successors)) with
      | SNext sd_ st_ =>
          let '(root, seen, level_id, current_level, next_level, node_space, successors) := st_ in
          (let level_id := (level_id + 1) in (let current_level := next_level in
             (let next_level := (@nil nat) in SNext sd_ (root, seen, level_id, current_level, next_level, node_space, successors))))
      | other_ => other_ end) : sflow bool TSt).

Definition tgt_end (f : sflow bool TSt) : sflow bool TSt :=
  match f with
  | SNext sd_ st_ =>
      let '(root, seen, level_id, current_level, next_level, node_space, successors) := st_ in (SRet sd_ true)
  | SRet d r => SRet d r
  | SRaise d e => SRaise d e
  | SBad d => SBad d
  | SFuel d => SFuel d
  | SCont d s => SCont d s
  end.

Lemma py_expand_to_target_unfold : forall fuel d,
  py_expand_to_target fuel N cfg d target size_limit =
  s_finish (tgt_end (s_while fuel tgt_cond tgt_body d (0, set_add 0 [], 0, [0], [], [], []))).
Proof. intros. reflexivity. Qed.

Lemma tgt_inner_spec : forall succ d root seen seen_m lv cl next nsp sx,
  NoDup succ -> same_mem seen seen_m ->
  exists seen1,
    s_for succ tgt_inner d (root, seen, lv, cl, next, nsp, sx) =
      SNext d (root, seen1, lv, cl, next ++ filter (fun s => negb (mem_nat s seen_m)) succ, nsp, sx) /\
    same_mem seen1 (seen_m ++ filter (fun s => negb (mem_nat s seen_m)) succ).
Proof.
  induction succ as [|s r IH]; intros d root seen seen_m lv cl next nsp sx Hnd Hsm.
  - exists seen. simpl. rewrite !app_nil_r. split; [reflexivity|exact Hsm].
  - apply NoDup_cons_iff in Hnd. destruct Hnd as [Hnin Hnd].
    simpl. rewrite <- (Hsm s).
    destruct (mem_nat s seen) eqn:Es; simpl.
    + apply IH; assumption.
    + destruct (IH d root (set_add s seen) (seen_m ++ [s]) lv cl (next ++ [s]) nsp sx Hnd) as [seen1 [H1 H2]].
      { intro x. rewrite mem_set_add, mem_nat_app. simpl. rewrite orb_false_r, (Hsm x). apply orb_comm. }
      exists seen1. rewrite filter_not_in in H1, H2 by exact Hnin.
      rewrite <- !app_assoc in H1. rewrite <- app_assoc in H2. simpl in H1, H2.
      split; assumption.
Qed.

Lemma tgt_level_spec : forall cur d root seen seen_m lv cl next nsp sx,
  SWF N d -> same_mem seen seen_m ->
  match target_level N cfg target size_limit d seen_m next cur with
  | (d1, r, seen1_m, next1) =>
      match r with
      | RUnit => SWF N d1 /\ exists seen1 nsp1 sx1,
                   s_for cur tgt_node d (root, seen, lv, cl, next, nsp, sx) =
                     SNext d1 (root, seen1, lv, cl, next1, nsp1, sx1) /\
                   same_mem seen1 seen1_m
      | _ => stops (s_for cur tgt_node d (root, seen, lv, cl, next, nsp, sx)) d1 r
      end
  end.
Proof.
  induction cur as [|x cur IH]; intros d root seen seen_m lv cl next nsp sx Hswf Hsm.
  - simpl. split; [exact Hswf|]. exists seen, nsp, sx. split; [reflexivity|exact Hsm].
  - simpl. unfold tgt_node at 1. cbv zeta.
    destruct (intersect (n_space (get d x)) target) as [isp|] eqn:Ei.
    2:{ exact (IH d root seen seen_m lv cl next (n_space (get d x)) sx Hswf Hsm). }
    destruct (subspace (n_space (get d x)) target && negb (eqb_space (n_space (get d x)) target)) eqn:Esub.
    { exact (IH d root seen seen_m lv cl next (n_space (get d x)) sx Hswf Hsm). }
    rewrite py_size_check_eq.
    destruct (over_limit size_limit d && negb (n_exp (get d x))) eqn:Elim.
    + right. exists false. split; reflexivity.
    + destruct (node_successors N cfg d x) as [[d1 r] v] eqn:En.
      destruct (node_successors_SWF N cfg d x d1 r v Hswf En) as [Hswf1 Hnd].
      destruct r; try (left; reflexivity).
      destruct (tgt_inner_spec (sort_nat v) d1 root seen seen_m lv cl next (n_space (get d x)) (sort_nat v) Hnd Hsm)
        as [seen1 [H1 H2]].
      rewrite H1.
      exact (IH d1 root seen1 _ lv cl _ (n_space (get d x)) (sort_nat v) Hswf1 H2).
Qed.

Lemma tgt_loop_spec : forall fuel d root seen seen_m cur lv nsp sx,
  SWF N d -> same_mem seen seen_m ->
  s_finish (tgt_end (s_while fuel tgt_cond tgt_body d (root, seen, lv, cur, [], nsp, sx))) =
  target_loop fuel N cfg target size_limit d seen_m cur.
Proof.
  induction fuel as [|f IH]; intros d root seen seen_m cur lv nsp sx Hswf Hsm; [reflexivity|].
  destruct cur as [|c cur']; [reflexivity|].
  remember (c :: cur') as cur eqn:Ecur.
  assert (Hlen : Nat.ltb 0 (length cur) = true) by (subst cur; reflexivity).
  assert (Hloop : target_loop (S f) N cfg target size_limit d seen_m cur =
    let '(d1, r, seen1, next) := target_level N cfg target size_limit d seen_m [] cur in
    match r with
    | RUnit => target_loop f N cfg target size_limit d1 seen1 next
    | _ => (d1, r)
    end) by (subst cur; reflexivity).
  rewrite Hloop. clear Hloop.
  cbn [s_while tgt_cond]. rewrite Hlen. unfold tgt_body at 1.
  pose proof (tgt_level_spec cur d root seen seen_m lv cur [] nsp sx Hswf Hsm) as Hlv.
  destruct (target_level N cfg target size_limit d seen_m [] cur) as [[[d1 r] seen1_m] next1].
  destruct r;
    try (apply stops_finish;
         destruct Hlv as [Hlv|[b' [Hlv Hb]]]; rewrite Hlv; [left|right; exists b'; split; [|exact Hb]]; reflexivity).
  destruct Hlv as [Hswf1 [seen1 [nsp1 [sx1 [H1 H2]]]]]. rewrite H1.
  apply IH; assumption.
Qed.

(* ---- without SWF ---- *)

Lemma tgt_inner_all : forall succ d root seen lv cl next nsp sx,
  exists seen1,
    s_for succ tgt_inner d (root, seen, lv, cl, next, nsp, sx) =
      SNext d (root, seen1, lv, cl, next ++ fresh_py seen succ, nsp, sx) /\
    forall x, mem_nat x seen1 = mem_nat x seen || mem_nat x succ.
Proof.
  induction succ as [|s r IH]; intros d root seen lv cl next nsp sx.
  - exists seen. simpl. rewrite app_nil_r. split; [reflexivity|].
    intro x. rewrite orb_false_r. reflexivity.
  - cbn [s_for fresh_py]. unfold tgt_inner at 1. destruct (mem_nat s seen) eqn:Es; cbn [negb]; cbv iota zeta.
    + destruct (IH d root seen lv cl next nsp sx) as [seen1 [H1 H2]]. exists seen1. split; [exact H1|].
      intro x. rewrite H2, mem_nat_cons. destruct (Nat.eqb x s) eqn:Exs; [|reflexivity].
      apply Nat.eqb_eq in Exs. subst x. rewrite Es. reflexivity.
    + destruct (IH d root (set_add s seen) lv cl (next ++ [s]) nsp sx) as [seen1 [H1 H2]]. exists seen1.
      assert (Hadd : set_add s seen = s :: seen) by (unfold set_add; rewrite Es; reflexivity).
      rewrite Hadd in *. rewrite <- app_assoc in H1. split; [exact H1|].
      intro x. rewrite H2, !mem_nat_cons.
      destruct (Nat.eqb x s); destruct (mem_nat x seen); reflexivity.
Qed.

Lemma target_level_cons : forall d S Nx x rest,
  target_level N cfg target size_limit d S Nx (x :: rest) =
  match intersect (n_space (get d x)) target with
  | None => target_level N cfg target size_limit d S Nx rest
  | Some _ =>
      if subspace (n_space (get d x)) target && negb (eqb_space (n_space (get d x)) target)
      then target_level N cfg target size_limit d S Nx rest
      else if over_limit size_limit d && negb (n_exp (get d x)) then (d, RBool false, S, Nx) else
      let '(d1, r, succ) := node_successors N cfg d x in
      match r with
      | RUnit => let fresh := filter (fun s => negb (mem_nat s S)) (sort_nat succ) in
                 target_level N cfg target size_limit d1 (S ++ fresh) (Nx ++ fresh) rest
      | _ => (d1, r, S, Nx)
      end
  end.
Proof. intros. reflexivity. Qed.

(* the space of a node does not change when its successors are asked for *)
Lemma node_successors_space : forall d x d1 r succ,
  node_successors N cfg d x = (d1, r, succ) -> n_space (get d1 x) = n_space (get d x).
Proof.
  intros d x d1 r succ E.
  destruct (Nat.lt_ge_cases x (size d)) as [Hx|Hx].
  - pose proof (node_successors_extends N cfg d x) as Hext. rewrite E in Hext. simpl in Hext.
    destruct Hext as (_ & Hsp & _). apply Hsp. exact Hx.
  - assert (Hd : d1 = d).
    { unfold node_successors, expand_one in E.
      assert (Hg : get d x = dummy_node) by (unfold get; apply nth_overflow; exact Hx).
      rewrite Hg in E. simpl in E.
      rewrite !upd_node_beyond in E by (try rewrite upd_node_beyond by exact Hx; exact Hx).
      inversion E. reflexivity. }
    subst d1. reflexivity.
Qed.

Lemma target_level_dup : forall d S Nx x m,
  target_level N cfg target size_limit d S Nx (x :: x :: m) = target_level N cfg target size_limit d S Nx (x :: m).
Proof.
  intros d S Nx x m.
  rewrite (target_level_cons d S Nx x (x :: m)), (target_level_cons d S Nx x m).
  destruct (intersect (n_space (get d x)) target) as [isp|] eqn:Ei.
  2:{ reflexivity. }
  destruct (subspace (n_space (get d x)) target && negb (eqb_space (n_space (get d x)) target)) eqn:Esub.
  { reflexivity. }
  destruct (over_limit size_limit d && negb (n_exp (get d x))) eqn:Elim; [reflexivity|].
  destruct (node_successors N cfg d x) as [[d1 r] succ] eqn:En.
  destruct r; try reflexivity. cbv zeta.
  destruct (node_successors_again N cfg size_limit d x d1 succ En Elim) as [En1 Elim1].
  rewrite target_level_cons, (node_successors_space d x d1 RUnit succ En), Ei, Esub, Elim1, En1. cbv zeta.
  rewrite filter_all_seen, !app_nil_r. reflexivity.
Qed.

Lemma target_level_dup_rel : forall m p, dup_rel m p -> forall d S Nx,
  target_level N cfg target size_limit d S Nx m = target_level N cfg target size_limit d S Nx p.
Proof.
  intros m p H. induction H as [|x m p H IH|x m p H IH]; intros d S Nx.
  - reflexivity.
  - rewrite !target_level_cons.
    destruct (intersect (n_space (get d x)) target); [|apply IH].
    destruct (subspace (n_space (get d x)) target && negb (eqb_space (n_space (get d x)) target)); [apply IH|].
    destruct (over_limit size_limit d && negb (n_exp (get d x))); [reflexivity|].
    destruct (node_successors N cfg d x) as [[d1 r] succ].
    destruct r; try reflexivity. apply IH.
  - rewrite target_level_dup. apply IH.
Qed.

Lemma tgt_node_step : forall x d root seen lv cl next nsp sx,
  tgt_node x d (root, seen, lv, cl, next, nsp, sx) =
  match intersect (n_space (get d x)) target with
  | None => SCont d (root, seen, lv, cl, next, n_space (get d x), sx)
  | Some _ =>
      if subspace (n_space (get d x)) target && negb (eqb_space (n_space (get d x)) target)
      then SCont d (root, seen, lv, cl, next, n_space (get d x), sx)
      else if over_limit size_limit d && negb (n_exp (get d x)) then SRet d false else
      let '(d1, r, v) := node_successors N cfg d x in
      match r with
      | RUnit => s_for (sort_nat v) tgt_inner d1 (root, seen, lv, cl, next, n_space (get d x), sort_nat v)
      | _ => SRaise d1 r
      end
  end.
Proof.
  intros. unfold tgt_node. cbv zeta.
  destruct (intersect (n_space (get d x)) target); [|reflexivity].
  destruct (subspace (n_space (get d x)) target && negb (eqb_space (n_space (get d x)) target)); [reflexivity|].
  rewrite py_size_check_eq.
  destruct (over_limit size_limit d && negb (n_exp (get d x))); [reflexivity|].
  destruct (node_successors N cfg d x) as [[d1 r] v]. destruct r; reflexivity.
Qed.

Lemma tgt_level_all : forall cur d root seen seen_m lv cl next_p next_m nsp sx,
  same_mem seen seen_m -> dup_rel next_m next_p ->
  match target_level N cfg target size_limit d seen_m next_m cur with
  | (d1, r, seen1_m, next1_m) =>
      match r with
      | RUnit => exists seen1 next1_p nsp1 sx1,
                   s_for cur tgt_node d (root, seen, lv, cl, next_p, nsp, sx) =
                     SNext d1 (root, seen1, lv, cl, next1_p, nsp1, sx1) /\
                   same_mem seen1 seen1_m /\ dup_rel next1_m next1_p
      | _ => stops (s_for cur tgt_node d (root, seen, lv, cl, next_p, nsp, sx)) d1 r
      end
  end.
Proof.
  induction cur as [|x cur IH]; intros d root seen seen_m lv cl next_p next_m nsp sx Hsm Hdr.
  - simpl. exists seen, next_p, nsp, sx. split; [reflexivity|]. split; assumption.
  - rewrite target_level_cons. cbn [s_for]. rewrite tgt_node_step.
    destruct (intersect (n_space (get d x)) target) as [isp|]; [|apply IH; assumption].
    destruct (subspace (n_space (get d x)) target && negb (eqb_space (n_space (get d x)) target));
      [apply IH; assumption|].
    destruct (over_limit size_limit d && negb (n_exp (get d x))) eqn:Elim.
    + right. exists false. split; reflexivity.
    + destruct (node_successors N cfg d x) as [[d1 r] v] eqn:En.
      destruct r; try (left; reflexivity).
      destruct (tgt_inner_all (sort_nat v) d1 root seen lv cl next_p (n_space (get d x)) (sort_nat v))
        as [seen1 [H1 H2]].
      cbv zeta. rewrite H1.
      apply IH.
      * intro y. rewrite H2, mem_filter_fresh, (Hsm y). reflexivity.
      * apply dup_rel_app; [exact Hdr|]. apply dup_rel_fresh; [apply sort_nat_asc|exact Hsm].
Qed.

Lemma tgt_loop_all : forall fuel d root seen seen_m cur_p cur_m lv nsp sx,
  same_mem seen seen_m -> dup_rel cur_m cur_p ->
  s_finish (tgt_end (s_while fuel tgt_cond tgt_body d (root, seen, lv, cur_p, [], nsp, sx))) =
  target_loop fuel N cfg target size_limit d seen_m cur_m.
Proof.
  induction fuel as [|f IH]; intros d root seen seen_m cur_p cur_m lv nsp sx Hsm Hdr; [reflexivity|].
  destruct cur_p as [|c cur']; [inversion Hdr; reflexivity|].
  remember (c :: cur') as cur eqn:Ecur.
  assert (Hlen : Nat.ltb 0 (length cur) = true) by (subst cur; reflexivity).
  assert (Hloop : target_loop (S f) N cfg target size_limit d seen_m cur_m =
      let '(d1, r, seen1, next) := target_level N cfg target size_limit d seen_m [] cur in
      match r with
      | RUnit => target_loop f N cfg target size_limit d1 seen1 next
      | _ => (d1, r)
      end).
  { rewrite <- (target_level_dup_rel cur_m cur Hdr). subst cur. inversion Hdr; reflexivity. }
  rewrite Hloop. clear Hloop.
  cbn [s_while tgt_cond]. rewrite Hlen. unfold tgt_body at 1.
  pose proof (tgt_level_all cur d root seen seen_m lv cur [] [] nsp sx Hsm dr_nil) as Hlv.
  destruct (target_level N cfg target size_limit d seen_m [] cur) as [[[d1 r] seen1_m] next1].
  destruct r;
    try (apply stops_finish;
         destruct Hlv as [Hlv|[b' [Hlv Hb]]]; rewrite Hlv; [left|right; exists b'; split; [|exact Hb]]; reflexivity).
  destruct Hlv as [seen1 [next1_p [nsp1 [sx1 [H1 [H2 H3]]]]]]. rewrite H1.
  apply IH; assumption.
Qed.

End Target.

Theorem py_expand_to_target_spec : forall fuel N cfg d target size_limit, SWF N d ->
  py_expand_to_target fuel N cfg d target size_limit = expand_to_target fuel N cfg d target size_limit.
Proof.
  intros fuel N cfg d target size_limit Hswf.
  rewrite py_expand_to_target_unfold. unfold expand_to_target.
  apply tgt_loop_spec; [exact Hswf|apply same_mem_refl].
Qed.

(* the equality does not need the well-formedness hypothesis *)
Theorem py_expand_to_target_spec_all : forall fuel N cfg d target size_limit,
  py_expand_to_target fuel N cfg d target size_limit = expand_to_target fuel N cfg d target size_limit.
Proof.
  intros fuel N cfg d target size_limit.
  rewrite py_expand_to_target_unfold. unfold expand_to_target.
  apply tgt_loop_all; [apply same_mem_refl|apply dup_rel_refl].
Qed.


(* the public method SuccessionDiagram.expand_to_target as generated from the source *)
Theorem py_api_expand_to_target_spec : forall fuel N cfg d target size_limit,
  py_api_expand_to_target fuel N cfg d target size_limit = expand_to_target fuel N cfg d target size_limit.
Proof. intros. unfold py_api_expand_to_target. apply py_expand_to_target_spec_all. Qed.

Print Assumptions py_expand_to_target_spec.
Print Assumptions py_expand_to_target_spec_all.
