(* PermFacts.v -- SPEC (prove the theorems; the definitions are in theories/Perm.v, do not edit it).
   C17, reordering clause: everything the library computes is equivariant under a permutation of the variable
   declarations -- dynamics, trap spaces, percolation, maximal / minimal trap spaces, attractors, and the whole
   fully expanded succession diagram (same node spaces and edges up to the permutation). *)
From Coq Require Import List Bool Arith NArith Lia Permutation Relations.
Import ListNotations.
From BB Require Import BN Brute SpaceFacts TrapFacts PercolateFacts AttractorFacts Diagram Invariants
  DiagramStruct DiagramSem1 DiagramComplete ObsFacts Meta MetaFacts Perm.

Local Arguments percolate_b : simpl never.
Local Arguments max_traps_b : simpl never.
Local Arguments min_traps_b : simpl never.

(* ================================================================== *)
(** * 0. Permutations: basic facts                                     *)
(* ================================================================== *)

Lemma PF_perm_length : forall n p, is_perm n p -> length p = n.
Proof. intros n p H. rewrite (Permutation_length H). apply seq_length. Qed.

Lemma PF_perm_NoDup : forall n p, is_perm n p -> NoDup p.
Proof.
  intros n p H. apply (Permutation_NoDup (Permutation_sym H)). apply seq_NoDup.
Qed.

Lemma PF_perm_In : forall n p x, is_perm n p -> (In x p <-> x < n).
Proof.
  intros n p x H. split; intro Hx.
  - apply (Permutation_in _ H) in Hx. apply in_seq in Hx. lia.
  - apply (Permutation_in _ (Permutation_sym H)). apply in_seq. lia.
Qed.

Lemma PF_perm_nth_lt : forall n p i, is_perm n p -> i < n -> nth i p 0 < n.
Proof.
  intros n p i H Hi. apply (PF_perm_In n p _ H). apply nth_In.
  rewrite (PF_perm_length n p H). exact Hi.
Qed.

Lemma PF_index_of_In : forall j p, In j p ->
  index_of j p < length p /\ nth (index_of j p) p 0 = j.
Proof.
  intros j p. induction p as [|x r IH]; simpl; intros Hin; [contradiction|].
  destruct (Nat.eqb x j) eqn:E.
  - apply Nat.eqb_eq in E. split; [lia|exact E].
  - destruct Hin as [Hx|Hin]; [subst; rewrite Nat.eqb_refl in E; discriminate|].
    destruct (IH Hin) as [H1 H2]. split; [lia|exact H2].
Qed.

Lemma PF_index_of_nth : forall p i, NoDup p -> i < length p -> index_of (nth i p 0) p = i.
Proof.
  induction p as [|x r IH]; simpl; intros i Hnd Hi; [lia|].
  inversion Hnd as [|y m Hnin Hnd']; subst.
  destruct i as [|i].
  - rewrite Nat.eqb_refl. reflexivity.
  - destruct (Nat.eqb x (nth i r 0)) eqn:E.
    + apply Nat.eqb_eq in E. exfalso. apply Hnin. rewrite E. apply nth_In. lia.
    + rewrite IH; [reflexivity|exact Hnd'|lia].
Qed.

Lemma PF_index_lt : forall n p j, is_perm n p -> j < n -> index_of j p < n.
Proof.
  intros n p j H Hj. pose proof (PF_perm_length n p H) as Hp.
  destruct (PF_index_of_In j p) as [H1 _]; [apply (PF_perm_In n p j H); exact Hj|]. lia.
Qed.

Lemma PF_nth_index : forall n p j, is_perm n p -> j < n -> nth (index_of j p) p 0 = j.
Proof.
  intros n p j H Hj. apply PF_index_of_In. apply (PF_perm_In n p j H). exact Hj.
Qed.

Lemma PF_index_nth : forall n p i, is_perm n p -> i < n -> index_of (nth i p 0) p = i.
Proof.
  intros n p i H Hi. apply PF_index_of_nth; [apply (PF_perm_NoDup n p H)|].
  rewrite (PF_perm_length n p H). exact Hi.
Qed.

Lemma PF_nth_map : forall (A B : Type) (f : A -> B) l i dA dB, i < length l ->
  nth i (map f l) dB = f (nth i l dA).
Proof.
  intros A B f l i dA dB Hi.
  rewrite (nth_indep (map f l) dB (f dA)) by (rewrite map_length; exact Hi).
  apply map_nth.
Qed.

Lemma PF_NoDup_map_on : forall (A B : Type) (f : A -> B) l,
  (forall a b, In a l -> In b l -> f a = f b -> a = b) -> NoDup l -> NoDup (map f l).
Proof.
  intros A B f l. induction l as [|a l IH]; simpl; intros Hinj Hnd; [constructor|].
  inversion Hnd as [|y m Hnin Hnd']; subst. constructor.
  - intro Hin. apply in_map_iff in Hin. destruct Hin as (b & Hfb & Hb).
    assert (Hba : b = a) by (apply Hinj; auto).
    subst b. contradiction.
  - apply IH; [|exact Hnd']. intros x y Hx Hy. apply Hinj; right; assumption.
Qed.

Lemma PF_inv_length : forall p, length (inv_perm p) = length p.
Proof. intro p. unfold inv_perm. rewrite map_length, seq_length. reflexivity. Qed.

Lemma PF_inv_nth : forall n p i, is_perm n p -> i < n -> nth i (inv_perm p) 0 = index_of i p.
Proof.
  intros n p i H Hi. unfold inv_perm. rewrite (PF_perm_length n p H).
  rewrite (PF_nth_map _ _ (fun j => index_of j p) (seq 0 n) i 0 0) by (rewrite seq_length; exact Hi).
  rewrite seq_nth by exact Hi. reflexivity.
Qed.

Theorem inv_perm_is_perm : forall n p, is_perm n p -> is_perm n (inv_perm p).
Proof.
  intros n p H. unfold is_perm, inv_perm. rewrite (PF_perm_length n p H).
  apply NoDup_Permutation.
  - apply PF_NoDup_map_on; [|apply seq_NoDup].
    intros a b Ha Hb Heq. apply in_seq in Ha. apply in_seq in Hb.
    rewrite <- (PF_nth_index n p a H) by lia. rewrite <- (PF_nth_index n p b H) by lia.
    rewrite Heq. reflexivity.
  - apply seq_NoDup.
  - intro x. rewrite in_map_iff, in_seq. split.
    + intros (j & Hj & Hin). apply in_seq in Hin. subst x.
      split; [lia|]. simpl. apply (PF_index_lt n p j H). lia.
    + intros [_ Hx]. simpl in Hx. exists (nth x p 0). split.
      * apply (PF_index_nth n p x H Hx).
      * apply in_seq. split; [lia|]. simpl. apply (PF_perm_nth_lt n p x H Hx).
Qed.

Theorem perm_list_length : forall (A : Type) (d : A) p l, length (perm_list d p l) = length p.
Proof. intros A d p l. unfold perm_list. apply map_length. Qed.

Lemma PF_perm_list_nth : forall (A : Type) (d : A) p l i, i < length p ->
  nth i (perm_list d p l) d = nth (nth i p 0) l d.
Proof.
  intros A d p l i Hi. unfold perm_list.
  apply (PF_nth_map _ _ (fun j => nth j l d) p i 0 d Hi).
Qed.

Theorem perm_inv_left : forall (A : Type) (d : A) n p l, is_perm n p -> length l = n ->
  perm_list d (inv_perm p) (perm_list d p l) = l.
Proof.
  intros A d n p l H Hl. pose proof (PF_perm_length n p H) as Hp.
  apply (nth_ext _ _ d d).
  - rewrite perm_list_length, PF_inv_length. congruence.
  - intros i Hi. rewrite perm_list_length, PF_inv_length, Hp in Hi.
    rewrite PF_perm_list_nth by (rewrite PF_inv_length, Hp; exact Hi).
    rewrite (PF_inv_nth n p i H Hi).
    rewrite PF_perm_list_nth by (rewrite Hp; apply (PF_index_lt n p i H Hi)).
    rewrite (PF_nth_index n p i H Hi). reflexivity.
Qed.

Theorem perm_inv_right : forall (A : Type) (d : A) n p l, is_perm n p -> length l = n ->
  perm_list d p (perm_list d (inv_perm p) l) = l.
Proof.
  intros A d n p l H Hl. pose proof (PF_perm_length n p H) as Hp.
  apply (nth_ext _ _ d d).
  - rewrite perm_list_length. congruence.
  - intros i Hi. rewrite perm_list_length, Hp in Hi.
    rewrite PF_perm_list_nth by (rewrite Hp; exact Hi).
    pose proof (PF_perm_nth_lt n p i H Hi) as Hlt.
    rewrite PF_perm_list_nth by (rewrite PF_inv_length, Hp; exact Hlt).
    rewrite (PF_inv_nth n p _ H Hlt).
    rewrite (PF_index_nth n p i H Hi). reflexivity.
Qed.

Lemma PF_perm_list_inj : forall (A : Type) (d : A) n p l l', is_perm n p ->
  length l = n -> length l' = n -> perm_list d p l = perm_list d p l' -> l = l'.
Proof.
  intros A d n p l l' H Hl Hl' Heq.
  rewrite <- (perm_inv_left A d n p l H Hl), <- (perm_inv_left A d n p l' H Hl'), Heq.
  reflexivity.
Qed.

Lemma PF_perm_list_set_nth : forall (A : Type) (d : A) n p l j v, is_perm n p ->
  length l = n -> j < n ->
  perm_list d p (set_nth j v l) = set_nth (index_of j p) v (perm_list d p l).
Proof.
  intros A d n p l j v H Hl Hj. pose proof (PF_perm_length n p H) as Hp.
  pose proof (PF_index_lt n p j H Hj) as Hidx.
  apply (nth_ext _ _ d d).
  - rewrite set_nth_length, !perm_list_length. reflexivity.
  - intros k Hk. rewrite perm_list_length, Hp in Hk.
    rewrite PF_perm_list_nth by (rewrite Hp; exact Hk).
    destruct (Nat.eq_dec k (index_of j p)) as [Heq|Hne].
    + subst k. rewrite (PF_nth_index n p j H Hj).
      rewrite nth_set_nth_eq by (rewrite Hl; exact Hj).
      rewrite nth_set_nth_eq by (rewrite perm_list_length, Hp; exact Hidx). reflexivity.
    + assert (Hne' : j <> nth k p 0).
      { intro Heq. apply Hne. rewrite Heq. symmetry. apply (PF_index_nth n p k H Hk). }
      rewrite nth_set_nth_neq by exact Hne'.
      rewrite nth_set_nth_neq by (intro Heq; apply Hne; symmetry; exact Heq).
      rewrite PF_perm_list_nth by (rewrite Hp; exact Hk). reflexivity.
Qed.

(* states / spaces seen through the permutation *)
Lemma PF_state_length : forall p s, length (perm_state p s) = length p.
Proof. intros. apply perm_list_length. Qed.
Lemma PF_space_length : forall p (S : space), length (perm_space p S) = length p.
Proof. intros. apply perm_list_length. Qed.

Lemma PF_state_back : forall n p s', is_perm n p -> length s' = n ->
  perm_state p (perm_state (inv_perm p) s') = s'.
Proof. intros n p s' H Hs. apply (perm_inv_right bool false n p s' H Hs). Qed.
Lemma PF_state_forth : forall n p s, is_perm n p -> length s = n ->
  perm_state (inv_perm p) (perm_state p s) = s.
Proof. intros n p s H Hs. apply (perm_inv_left bool false n p s H Hs). Qed.
Lemma PF_space_back : forall n p (X : space), is_perm n p -> length X = n ->
  perm_space p (perm_space (inv_perm p) X) = X.
Proof. intros n p X H HX. apply (perm_inv_right (option bool) None n p X H HX). Qed.
Lemma PF_space_forth : forall n p (X : space), is_perm n p -> length X = n ->
  perm_space (inv_perm p) (perm_space p X) = X.
Proof. intros n p X H HX. apply (perm_inv_left (option bool) None n p X H HX). Qed.

Lemma PF_inv_state_length : forall n p s', is_perm n p -> length (perm_state (inv_perm p) s') = n.
Proof. intros n p s' H. rewrite PF_state_length, PF_inv_length. apply (PF_perm_length n p H). Qed.
Lemma PF_inv_space_length : forall n p (X : space), is_perm n p -> length (perm_space (inv_perm p) X) = n.
Proof. intros n p X H. rewrite PF_space_length, PF_inv_length. apply (PF_perm_length n p H). Qed.

Lemma PF_state_inj : forall n p s t, is_perm n p -> length s = n -> length t = n ->
  perm_state p s = perm_state p t -> s = t.
Proof. intros n p s t. apply (PF_perm_list_inj bool false n p s t). Qed.
Lemma PF_space_inj : forall n p (X Y : space), is_perm n p -> length X = n -> length Y = n ->
  perm_space p X = perm_space p Y -> X = Y.
Proof. intros n p X Y. apply (PF_perm_list_inj (option bool) None n p X Y). Qed.

Lemma PF_state_nth : forall n p s i, is_perm n p -> i < n ->
  nth i (perm_state p s) false = nth (nth i p 0) s false.
Proof.
  intros n p s i H Hi. apply PF_perm_list_nth. rewrite (PF_perm_length n p H). exact Hi.
Qed.
Lemma PF_space_nth : forall n p (S : space) i, is_perm n p -> i < n ->
  nth i (perm_space p S) None = nth (nth i p 0) S None.
Proof.
  intros n p S i H Hi. apply PF_perm_list_nth. rewrite (PF_perm_length n p H). exact Hi.
Qed.

Theorem perm_net_nvars : forall n p N, is_perm n p -> nvars N = n -> nvars (perm_net p N) = n.
Proof.
  intros n p N H _. unfold nvars, perm_net. rewrite map_length. apply (PF_perm_length n p H).
Qed.

Lemma PF_upd_raw : forall p N i s', i < length p ->
  upd (perm_net p N) i s' = upd N (nth i p 0) (perm_state (inv_perm p) s').
Proof.
  intros p N i s' Hi. unfold upd at 1. unfold perm_net.
  exact (f_equal (fun g : fn => g s')
           (PF_nth_map nat fn (fun j => fun s0 : state => upd N j (perm_state (inv_perm p) s0))
              p i 0 (fun _ => false) Hi)).
Qed.

Theorem perm_upd : forall n p N i s, is_perm n p -> nvars N = n -> length s = n -> i < n ->
  upd (perm_net p N) i (perm_state p s) = upd N (nth i p 0) s.
Proof.
  intros n p N i s H _ Hs Hi.
  rewrite PF_upd_raw by (rewrite (PF_perm_length n p H); exact Hi).
  rewrite (PF_state_forth n p s H Hs). reflexivity.
Qed.

(* ================================================================== *)
(** * 1. Dynamics                                                      *)
(* ================================================================== *)

Lemma PF_step_i : forall n p N i s, is_perm n p -> nvars N = n -> length s = n -> i < n ->
  step_i (perm_net p N) i (perm_state p s) = perm_state p (step_i N (nth i p 0) s).
Proof.
  intros n p N i s H HN Hs Hi. unfold step_i.
  rewrite (perm_upd n p N i s H HN Hs Hi).
  unfold perm_state.
  rewrite (PF_perm_list_set_nth bool false n p s (nth i p 0) (upd N (nth i p 0) s) H Hs
             (PF_perm_nth_lt n p i H Hi)).
  rewrite (PF_index_nth n p i H Hi). reflexivity.
Qed.

Theorem perm_trans : forall n p N s t, is_perm n p -> nvars N = n -> length s = n -> length t = n ->
  (trans N s t <-> trans (perm_net p N) (perm_state p s) (perm_state p t)).
Proof.
  intros n p N s t H HN Hs Ht. split; intros [i [Hi [He Hne]]].
  - rewrite HN in Hi. exists (index_of i p).
    split; [rewrite (perm_net_nvars n p N H HN); apply (PF_index_lt n p i H Hi)|]. split.
    + rewrite (PF_step_i n p N _ s H HN Hs (PF_index_lt n p i H Hi)).
      rewrite (PF_nth_index n p i H Hi). rewrite He. reflexivity.
    + intro Heq. apply Hne. apply (PF_state_inj n p t s H Ht Hs Heq).
  - rewrite (perm_net_nvars n p N H HN) in Hi. exists (nth i p 0).
    split; [rewrite HN; apply (PF_perm_nth_lt n p i H Hi)|]. split.
    + rewrite (PF_step_i n p N i s H HN Hs Hi) in He.
      apply (PF_state_inj n p _ _ H Ht); [|exact He]. rewrite step_i_length. exact Hs.
    + intro Heq. apply Hne. rewrite Heq. reflexivity.
Qed.

Lemma PF_reach_fwd : forall n p N s t, is_perm n p -> nvars N = n -> length s = n ->
  reach N s t -> reach (perm_net p N) (perm_state p s) (perm_state p t).
Proof.
  intros n p N s t H HN Hs Hr. apply clos_rt_rtn1 in Hr.
  induction Hr as [|y z Hyz Hr IH]; [apply rt_refl|].
  assert (Hy : length y = n).
  { rewrite <- HN. apply (reach_wf N s y); [unfold wf_state; congruence|apply clos_rtn1_rt; exact Hr]. }
  assert (Hz : length z = n).
  { rewrite <- HN. apply (trans_wf N y z); [unfold wf_state; congruence|exact Hyz]. }
  apply rt_trans with (perm_state p y); [exact IH|]. apply rt_step.
  apply (perm_trans n p N y z H HN Hy Hz). exact Hyz.
Qed.

Lemma PF_reach_bwd : forall n p N s' t', is_perm n p -> nvars N = n -> length s' = n ->
  reach (perm_net p N) s' t' ->
  reach N (perm_state (inv_perm p) s') (perm_state (inv_perm p) t').
Proof.
  intros n p N s' t' H HN Hs Hr. pose proof (perm_net_nvars n p N H HN) as HN'.
  apply clos_rt_rtn1 in Hr.
  induction Hr as [|y z Hyz Hr IH]; [apply rt_refl|].
  assert (Hy : length y = n).
  { rewrite <- HN'. apply (reach_wf _ s' y); [unfold wf_state; congruence|apply clos_rtn1_rt; exact Hr]. }
  assert (Hz : length z = n).
  { rewrite <- HN'. apply (trans_wf _ y z); [unfold wf_state; congruence|exact Hyz]. }
  apply rt_trans with (perm_state (inv_perm p) y); [exact IH|]. apply rt_step.
  apply (perm_trans n p N _ _ H HN (PF_inv_state_length n p y H) (PF_inv_state_length n p z H)).
  rewrite (PF_state_back n p y H Hy), (PF_state_back n p z H Hz). exact Hyz.
Qed.

Theorem perm_reach : forall n p N s t, is_perm n p -> nvars N = n -> length s = n -> length t = n ->
  (reach N s t <-> reach (perm_net p N) (perm_state p s) (perm_state p t)).
Proof.
  intros n p N s t H HN Hs Ht. split; intro Hr.
  - apply (PF_reach_fwd n p N s t H HN Hs Hr).
  - apply (PF_reach_bwd n p N _ _ H HN) in Hr.
    + rewrite (PF_state_forth n p s H Hs), (PF_state_forth n p t H Ht) in Hr. exact Hr.
    + rewrite PF_state_length. apply (PF_perm_length n p H).
Qed.

Lemma PF_perm_set_img : forall n p (A : state -> Prop) s, is_perm n p -> length s = n ->
  (perm_set p A (perm_state p s) <-> A s).
Proof.
  intros n p A s H Hs. unfold perm_set. rewrite (PF_state_forth n p s H Hs).
  split; [intros [_ Ha]; exact Ha|intro Ha; split; [apply PF_state_length|exact Ha]].
Qed.

(* the "->" direction of perm_attractor holds exactly as stated *)
Lemma perm_attractor_fwd : forall n p N A, is_perm n p -> nvars N = n ->
  attractor N A -> attractor (perm_net p N) (perm_set p A).
Proof.
  intros n p N A H HN [[s0 Hs0] [Hwf [Hcl Hre]]].
  pose proof (perm_net_nvars n p N H HN) as HN'. pose proof (PF_perm_length n p H) as Hp.
  split; [|split; [|split]].
  - exists (perm_state p s0). apply (PF_perm_set_img n p A s0 H); [|exact Hs0].
    rewrite <- HN. apply (Hwf s0 Hs0).
  - intros s' [Hl _]. unfold wf_state. congruence.
  - intros s' t' [Hl Hs'] Htr.
    assert (Hlt : length t' = n).
    { rewrite <- HN'. apply (trans_wf _ s' t'); [unfold wf_state; congruence|exact Htr]. }
    split; [congruence|].
    apply (Hcl (perm_state (inv_perm p) s') (perm_state (inv_perm p) t') Hs').
    apply (perm_trans n p N _ _ H HN (PF_inv_state_length n p s' H) (PF_inv_state_length n p t' H)).
    rewrite (PF_state_back n p s' H), (PF_state_back n p t' H Hlt) by congruence. exact Htr.
  - intros s' t' [Hls Hs'] [Hlt Ht'].
    pose proof (Hre _ _ Hs' Ht') as Hr.
    apply (PF_reach_fwd n p N _ _ H HN (PF_inv_state_length n p s' H)) in Hr.
    rewrite (PF_state_back n p s' H), (PF_state_back n p t' H) in Hr by congruence. exact Hr.
Qed.

(* perm_attractor as stated is false in the "<-" direction: perm_set p A only sees the states of A of
   length n, so A may contain additional ill-formed states (of another length) that are invisible on
   the right-hand side, while [attractor N A] demands that every state of A is well-formed.  The
   closest true statement asks A to consist of states of length n. *)
Theorem perm_attractor_weak : forall n p N (A : state -> Prop), is_perm n p -> nvars N = n ->
  (forall s, A s -> length s = n) ->
  (attractor N A <-> attractor (perm_net p N) (perm_set p A)).
Proof.
  intros n p N A H HN HA. split; [apply (perm_attractor_fwd n p N A H HN)|].
  intros [[s0 [Hl0 Hs0]] [Hwf [Hcl Hre]]].
  split; [|split; [|split]].
  - exists (perm_state (inv_perm p) s0). exact Hs0.
  - intros s Hs. unfold wf_state. rewrite HN. apply HA. exact Hs.
  - intros s t Hs Htr. pose proof (HA s Hs) as Hls.
    assert (Hlt : length t = n).
    { rewrite <- HN. apply (trans_wf N s t); [unfold wf_state; congruence|exact Htr]. }
    apply (PF_perm_set_img n p A t H Hlt).
    apply (Hcl (perm_state p s) (perm_state p t)).
    + apply (PF_perm_set_img n p A s H Hls). exact Hs.
    + apply (perm_trans n p N s t H HN Hls Hlt). exact Htr.
  - intros s t Hs Ht.
    apply (perm_reach n p N s t H HN (HA s Hs) (HA t Ht)).
    apply Hre; [apply (PF_perm_set_img n p A s H (HA s Hs))|apply (PF_perm_set_img n p A t H (HA t Ht))];
      assumption.
Qed.

(* counterexample to perm_attractor as stated: no variables, the identity permutation, A = all lists *)
Theorem perm_attractor_counterexample :
  ~ (forall n p N A, is_perm n p -> nvars N = n ->
       (attractor N A <-> attractor (perm_net p N) (perm_set p A))).
Proof.
  intro Hall.
  destruct (Hall 0 [] [] (fun _ : state => True) (Permutation_refl _) eq_refl) as [_ Hback].
  assert (Hat : attractor (perm_net [] []) (perm_set [] (fun _ : state => True))).
  { split; [exists []; split; [reflexivity|exact I]|]. split; [|split].
    - intros s [Hl _]. exact Hl.
    - intros s t _ [i [Hi _]]. simpl in Hi. lia.
    - intros s t [Hs _] [Ht _]. destruct s; [|discriminate Hs]. destruct t; [|discriminate Ht].
      apply rt_refl. }
  destruct (Hback Hat) as [_ [Hwf _]].
  specialize (Hwf [true] I). discriminate Hwf.
Qed.

(* ================================================================== *)
(** * 2. Spaces, trap spaces, percolation                              *)
(* ================================================================== *)

Theorem perm_in_space : forall n p s S, is_perm n p -> length s = n -> length S = n ->
  in_space (perm_state p s) (perm_space p S) = in_space s S.
Proof.
  intros n p s S H Hs HS. pose proof (PF_perm_length n p H) as Hp.
  apply M_bool_eq_iff.
  rewrite (in_space_nth (perm_state p s) (perm_space p S))
    by (rewrite PF_state_length, PF_space_length; reflexivity).
  rewrite (in_space_nth s S) by congruence.
  split; intros Hall i v Hnth.
  - assert (Hi : i < n) by (rewrite <- HS; apply (nth_some_lt S i v Hnth)).
    pose proof (PF_index_lt n p i H Hi) as Hk.
    specialize (Hall (index_of i p) v).
    rewrite (PF_space_nth n p S _ H Hk), (PF_state_nth n p s _ H Hk) in Hall.
    rewrite (PF_nth_index n p i H Hi) in Hall. apply Hall. exact Hnth.
  - assert (Hi : i < n).
    { rewrite <- Hp, <- (PF_space_length p S). apply (nth_some_lt _ i v Hnth). }
    rewrite (PF_space_nth n p S i H Hi) in Hnth. rewrite (PF_state_nth n p s i H Hi).
    apply Hall. exact Hnth.
Qed.

Theorem perm_subspace : forall n p (X Y : space), is_perm n p -> length X = n -> length Y = n ->
  subspace (perm_space p X) (perm_space p Y) = subspace X Y.
Proof.
  intros n p X Y H HX HY. pose proof (PF_perm_length n p H) as Hp.
  apply M_bool_eq_iff.
  rewrite (subspace_nth (perm_space p X) (perm_space p Y))
    by (rewrite !PF_space_length; reflexivity).
  rewrite (subspace_nth X Y) by congruence.
  split; intros Hall i v Hnth.
  - assert (Hi : i < n) by (rewrite <- HY; apply (nth_some_lt Y i v Hnth)).
    pose proof (PF_index_lt n p i H Hi) as Hk.
    specialize (Hall (index_of i p) v).
    rewrite !(PF_space_nth n p _ _ H Hk) in Hall.
    rewrite (PF_nth_index n p i H Hi) in Hall. apply Hall. exact Hnth.
  - assert (Hi : i < n).
    { rewrite <- Hp, <- (PF_space_length p Y). apply (nth_some_lt _ i v Hnth). }
    rewrite (PF_space_nth n p Y i H Hi) in Hnth. rewrite (PF_space_nth n p X i H Hi).
    apply Hall. exact Hnth.
Qed.

Lemma PF_strict_subspace : forall n p (X Y : space), is_perm n p -> length X = n -> length Y = n ->
  (strict_subspace (perm_space p X) (perm_space p Y) <-> strict_subspace X Y).
Proof.
  intros n p X Y H HX HY. unfold strict_subspace. rewrite (perm_subspace n p X Y H HX HY).
  split; intros [Hs Hne]; (split; [exact Hs|]); intro Heq; apply Hne.
  - rewrite Heq. reflexivity.
  - apply (PF_space_inj n p X Y H HX HY Heq).
Qed.

Lemma PF_const_on : forall n p N i S v, is_perm n p -> nvars N = n -> length S = n -> i < n ->
  (const_on (perm_net p N) i (perm_space p S) v <-> const_on N (nth i p 0) S v).
Proof.
  intros n p N i S v H HN HS Hi. pose proof (PF_perm_length n p H) as Hp.
  pose proof (perm_net_nvars n p N H HN) as HN'.
  unfold const_on, wf_state. split; intros Hc.
  - intros s Hs Hin. rewrite HN in Hs.
    rewrite <- (perm_upd n p N i s H HN Hs Hi). apply Hc.
    + rewrite PF_state_length. congruence.
    + rewrite (perm_in_space n p s S H Hs HS). exact Hin.
  - intros s' Hs' Hin. rewrite HN' in Hs'.
    rewrite PF_upd_raw by (rewrite Hp; exact Hi). apply Hc.
    + rewrite (PF_inv_state_length n p s' H). congruence.
    + rewrite <- (perm_in_space n p _ S H (PF_inv_state_length n p s' H) HS).
      rewrite (PF_state_back n p s' H Hs'). exact Hin.
Qed.

Theorem perm_trap_space : forall n p N S, is_perm n p -> nvars N = n -> length S = n ->
  (trap_space N S <-> trap_space (perm_net p N) (perm_space p S)).
Proof.
  intros n p N S H HN HS. pose proof (PF_perm_length n p H) as Hp.
  pose proof (perm_net_nvars n p N H HN) as HN'.
  rewrite (trap_space_char N S) by congruence.
  rewrite (trap_space_char (perm_net p N) (perm_space p S)) by (rewrite PF_space_length; congruence).
  split; intros Hall i v Hnth.
  - assert (Hi : i < n).
    { rewrite <- Hp, <- (PF_space_length p S). apply (nth_some_lt _ i v Hnth). }
    rewrite (PF_space_nth n p S i H Hi) in Hnth.
    apply (PF_const_on n p N i S v H HN HS Hi). apply Hall. exact Hnth.
  - assert (Hi : i < n) by (rewrite <- HS; apply (nth_some_lt S i v Hnth)).
    pose proof (PF_index_lt n p i H Hi) as Hk.
    rewrite <- (PF_nth_index n p i H Hi).
    apply (PF_const_on n p N _ S v H HN HS Hk). apply Hall.
    rewrite (PF_space_nth n p S _ H Hk), (PF_nth_index n p i H Hi). exact Hnth.
Qed.

Lemma PF_perc_step_fwd : forall n p N S T, is_perm n p -> nvars N = n -> length S = n ->
  perc_step N S T -> perc_step (perm_net p N) (perm_space p S) (perm_space p T).
Proof.
  intros n p N S T H HN HS Hst. destruct Hst as [S i v Hi Hfree Hc].
  rewrite HN in Hi. pose proof (PF_index_lt n p i H Hi) as Hk.
  unfold perm_space at 2.
  rewrite (PF_perm_list_set_nth (option bool) None n p S i (Some v) H HS Hi).
  fold (perm_space p S).
  constructor.
  - rewrite (perm_net_nvars n p N H HN). exact Hk.
  - rewrite (PF_space_nth n p S _ H Hk), (PF_nth_index n p i H Hi). exact Hfree.
  - apply (PF_const_on n p N _ S v H HN HS Hk). rewrite (PF_nth_index n p i H Hi). exact Hc.
Qed.

Lemma PF_perc_steps_fwd : forall n p N S T, is_perm n p -> nvars N = n -> length S = n ->
  clos_refl_trans space (perc_step N) S T ->
  clos_refl_trans space (perc_step (perm_net p N)) (perm_space p S) (perm_space p T).
Proof.
  intros n p N S T H HN HS Hst. apply clos_rt_rtn1 in Hst.
  induction Hst as [|y z Hyz Hst IH]; [apply rt_refl|].
  apply rt_trans with (perm_space p y); [exact IH|]. apply rt_step.
  apply (PF_perc_step_fwd n p N y z H HN); [|exact Hyz].
  rewrite (M_perc_steps_length N S y Hst). exact HS.
Qed.

Lemma PF_perc_closed_fwd : forall n p N P, is_perm n p -> nvars N = n -> length P = n ->
  perc_closed N P -> perc_closed (perm_net p N) (perm_space p P).
Proof.
  intros n p N P H HN HP Hcl i v Hi Hfree Hc.
  rewrite (perm_net_nvars n p N H HN) in Hi.
  rewrite (PF_space_nth n p P i H Hi) in Hfree.
  apply (Hcl (nth i p 0) v); [rewrite HN; apply (PF_perm_nth_lt n p i H Hi)|exact Hfree|].
  apply (PF_const_on n p N i P v H HN HP Hi). exact Hc.
Qed.

Theorem perm_percolate : forall n p N S, is_perm n p -> nvars N = n -> length S = n ->
  percolate_b (perm_net p N) (perm_space p S) = perm_space p (percolate_b N S).
Proof.
  intros n p N S H HN HS. symmetry.
  assert (HS' : length S = nvars N) by congruence.
  apply percolate_b_unique.
  - rewrite PF_space_length, (perm_net_nvars n p N H HN). apply (PF_perm_length n p H).
  - destruct (percolate_b_is_percolation N S HS') as [Hst Hcl]. split.
    + apply (PF_perc_steps_fwd n p N S _ H HN HS Hst).
    + apply (PF_perc_closed_fwd n p N _ H HN); [|exact Hcl].
      rewrite percolate_b_length. exact HS.
Qed.

(* every space of the permuted network is the image of a space of the original one *)
Lemma PF_trap_back : forall n p N X, is_perm n p -> nvars N = n ->
  trap_space (perm_net p N) X ->
  length X = n /\ trap_space N (perm_space (inv_perm p) X).
Proof.
  intros n p N X H HN Htr.
  assert (HX : length X = n).
  { rewrite (trap_space_length _ _ Htr). apply (perm_net_nvars n p N H HN). }
  split; [exact HX|].
  apply (perm_trap_space n p N _ H HN (PF_inv_space_length n p X H)).
  rewrite (PF_space_back n p X H HX). exact Htr.
Qed.

Theorem perm_min_trap : forall n p N M, is_perm n p -> nvars N = n -> length M = n ->
  (min_trap N M <-> min_trap (perm_net p N) (perm_space p M)).
Proof.
  intros n p N M H HN HM. split; intros [Htr Hmin]; split.
  - apply (perm_trap_space n p N M H HN HM). exact Htr.
  - intros X Htr' Hsub. destruct (PF_trap_back n p N X H HN Htr') as [HX Htr0].
    rewrite <- (PF_space_back n p X H HX). f_equal. apply Hmin; [exact Htr0|].
    rewrite <- (perm_subspace n p _ M H (PF_inv_space_length n p X H) HM).
    rewrite (PF_space_back n p X H HX). exact Hsub.
  - apply (perm_trap_space n p N M H HN HM). exact Htr.
  - intros M' Htr' Hsub.
    assert (HM' : length M' = n) by (rewrite (trap_space_length _ _ Htr'); exact HN).
    apply (PF_space_inj n p M' M H HM' HM). apply Hmin.
    + apply (perm_trap_space n p N M' H HN HM'). exact Htr'.
    + rewrite (perm_subspace n p M' M H HM' HM). exact Hsub.
Qed.

Theorem perm_max_trap_in : forall n p N S M, is_perm n p -> nvars N = n -> length S = n -> length M = n ->
  (max_trap_in N S M <-> max_trap_in (perm_net p N) (perm_space p S) (perm_space p M)).
Proof.
  intros n p N S M H HN HS HM. split; intros [Htr [Hss Hmax]]; (split; [|split]).
  - apply (perm_trap_space n p N M H HN HM). exact Htr.
  - apply (PF_strict_subspace n p M S H HM HS). exact Hss.
  - intros X Htr' Hss' Hsub. destruct (PF_trap_back n p N X H HN Htr') as [HX Htr0].
    pose proof (PF_inv_space_length n p X H) as HX0.
    rewrite <- (PF_space_back n p X H HX). f_equal. apply Hmax; [exact Htr0| |].
    + apply (PF_strict_subspace n p _ S H HX0 HS).
      rewrite (PF_space_back n p X H HX). exact Hss'.
    + rewrite <- (perm_subspace n p M _ H HM HX0).
      rewrite (PF_space_back n p X H HX). exact Hsub.
  - apply (perm_trap_space n p N M H HN HM). exact Htr.
  - apply (PF_strict_subspace n p M S H HM HS). exact Hss.
  - intros M' Htr' Hss' Hsub.
    assert (HM' : length M' = n) by (rewrite (trap_space_length _ _ Htr'); exact HN).
    apply (PF_space_inj n p M' M H HM' HM). apply Hmax.
    + apply (perm_trap_space n p N M' H HN HM'). exact Htr'.
    + apply (PF_strict_subspace n p M' S H HM' HS). exact Hss'.
    + rewrite (perm_subspace n p M M' H HM HM'). exact Hsub.
Qed.

Theorem perm_sources : forall n p N i, is_perm n p -> nvars N = n -> i < n ->
  (In i (sources_b (perm_net p N)) <-> In (nth i p 0) (sources_b N)).
Proof.
  intros n p N i H HN Hi. pose proof (PF_perm_length n p H) as Hp.
  pose proof (perm_net_nvars n p N H HN) as HN'.
  pose proof (PF_perm_nth_lt n p i H Hi) as Hj.
  unfold sources_b. rewrite !filter_In, !in_seq, !is_source_b_spec. rewrite HN', HN.
  split; intros [_ Hsrc]; (split; [lia|]).
  - intros s Hs.
    rewrite <- (perm_upd n p N i s H HN Hs Hi).
    rewrite (Hsrc (perm_state p s)) by (rewrite PF_state_length; exact Hp).
    apply (PF_state_nth n p s i H Hi).
  - intros s' Hs'.
    rewrite PF_upd_raw by (rewrite Hp; exact Hi).
    rewrite (Hsrc _ (PF_inv_state_length n p s' H)).
    rewrite <- (PF_state_nth n p _ i H Hi). rewrite (PF_state_back n p s' H Hs'). reflexivity.
Qed.

(* ================================================================== *)
(** * 3. Maximal / minimal trap spaces (the executable enumerations)   *)
(* ================================================================== *)

Lemma PF_fixes_all : forall n p (T : space) srcs, is_perm n p -> (forall v, In v srcs -> v < n) ->
  fixes_all (perm_space p T) (map (fun j => index_of j p) srcs) = fixes_all T srcs.
Proof.
  intros n p T srcs H. unfold fixes_all.
  induction srcs as [|v r IH]; simpl; intros Hlt; [reflexivity|].
  assert (Hv : v < n) by (apply Hlt; left; reflexivity).
  rewrite (PF_space_nth n p T _ H (PF_index_lt n p v H Hv)), (PF_nth_index n p v H Hv).
  rewrite IH; [reflexivity|]. intros w Hw. apply Hlt. right. exact Hw.
Qed.

Lemma PF_fixes_all_ext : forall (T : space) a b, (forall v, In v a <-> In v b) ->
  fixes_all T a = fixes_all T b.
Proof.
  intros T a b Hab. apply M_bool_eq_iff. unfold fixes_all. rewrite !forallb_forall.
  split; intros Hall v Hv; apply Hall; apply Hab; exact Hv.
Qed.

(* max_traps_b uses the source list only as a set *)
Lemma PF_max_traps_b_srcs_ext : forall N S a b, (forall v, In v a <-> In v b) ->
  max_traps_b N S a = max_traps_b N S b.
Proof.
  intros N S a b Hab. rewrite !max_traps_b_unfold.
  assert (Hc : max_cands N S a = max_cands N S b).
  { unfold max_cands. apply M_filter_ext_all. intro T.
    rewrite (PF_fixes_all_ext T a b Hab). reflexivity. }
  rewrite Hc. reflexivity.
Qed.

Lemma PF_max_traps_mem : forall n p N S srcs X, is_perm n p -> nvars N = n -> length S = n ->
  (forall v, In v srcs -> v < n) -> length X = n ->
  (In (perm_space p X) (max_traps_b (perm_net p N) (perm_space p S) (map (fun j => index_of j p) srcs))
   <-> In X (max_traps_b N S srcs)).
Proof.
  intros n p N S srcs X H HN HS Hsrc HX.
  pose proof (perm_net_nvars n p N H HN) as HN'. pose proof (PF_perm_length n p H) as Hp.
  rewrite (max_traps_b_spec_srcs (perm_net p N) (perm_space p S))
    by (rewrite PF_space_length; congruence).
  rewrite (max_traps_b_spec_srcs N S) by congruence.
  split; intros (Htr & Hss & Hf & Hmax); (split; [|split; [|split]]).
  - apply (perm_trap_space n p N X H HN HX). exact Htr.
  - apply (PF_strict_subspace n p X S H HX HS). exact Hss.
  - rewrite <- (PF_fixes_all n p X srcs H Hsrc). exact Hf.
  - intros M' Htr' Hss' Hf' Hsub.
    assert (HM' : length M' = n) by (rewrite (trap_space_length _ _ Htr'); exact HN).
    apply (PF_space_inj n p M' X H HM' HX). apply Hmax.
    + apply (perm_trap_space n p N M' H HN HM'). exact Htr'.
    + apply (PF_strict_subspace n p M' S H HM' HS). exact Hss'.
    + rewrite (PF_fixes_all n p M' srcs H Hsrc). exact Hf'.
    + rewrite (perm_subspace n p X M' H HX HM'). exact Hsub.
  - apply (perm_trap_space n p N X H HN HX). exact Htr.
  - apply (PF_strict_subspace n p X S H HX HS). exact Hss.
  - rewrite (PF_fixes_all n p X srcs H Hsrc). exact Hf.
  - intros Y Htr' Hss' Hf' Hsub. destruct (PF_trap_back n p N Y H HN Htr') as [HY Htr0].
    pose proof (PF_inv_space_length n p Y H) as HY0.
    rewrite <- (PF_space_back n p Y H HY). f_equal. apply Hmax; [exact Htr0| | |].
    + apply (PF_strict_subspace n p _ S H HY0 HS).
      rewrite (PF_space_back n p Y H HY). exact Hss'.
    + rewrite <- (PF_fixes_all n p _ srcs H Hsrc).
      rewrite (PF_space_back n p Y H HY). exact Hf'.
    + rewrite <- (perm_subspace n p X _ H HX HY0).
      rewrite (PF_space_back n p Y H HY). exact Hsub.
Qed.

Lemma PF_NoDup_map_space : forall n p (l : list space), is_perm n p ->
  (forall X, In X l -> length X = n) -> NoDup l -> NoDup (map (perm_space p) l).
Proof.
  intros n p l H Hlen Hnd. apply PF_NoDup_map_on; [|exact Hnd].
  intros a b Ha Hb Heq. apply (PF_space_inj n p a b H (Hlen a Ha) (Hlen b Hb) Heq).
Qed.

Theorem perm_max_traps_b : forall n p N S srcs, is_perm n p -> nvars N = n -> length S = n ->
  (forall v, In v srcs -> v < n) ->
  Permutation (max_traps_b (perm_net p N) (perm_space p S) (map (fun j => index_of j p) srcs))
              (map (perm_space p) (max_traps_b N S srcs)).
Proof.
  intros n p N S srcs H HN HS Hsrc. pose proof (PF_perm_length n p H) as Hp.
  apply NoDup_Permutation.
  - apply max_traps_b_NoDup.
  - apply (PF_NoDup_map_space n p _ H); [|apply max_traps_b_NoDup].
    intros X HX. rewrite (max_traps_b_length N S srcs X HX). exact HS.
  - intro Y. rewrite in_map_iff. split.
    + intro HY.
      assert (HlY : length Y = n).
      { rewrite (max_traps_b_length _ _ _ Y HY), PF_space_length. exact Hp. }
      exists (perm_space (inv_perm p) Y). split; [apply (PF_space_back n p Y H HlY)|].
      apply (PF_max_traps_mem n p N S srcs _ H HN HS Hsrc (PF_inv_space_length n p Y H)).
      rewrite (PF_space_back n p Y H HlY). exact HY.
    + intros (X & Heq & HX). subst Y.
      apply (PF_max_traps_mem n p N S srcs X H HN HS Hsrc); [|exact HX].
      rewrite (max_traps_b_length N S srcs X HX). exact HS.
Qed.

Lemma min_traps_b_NoDup : forall N S, NoDup (min_traps_b N S).
Proof.
  intros N S. rewrite min_traps_b_unfold. apply NoDup_filter. unfold traps_in.
  apply NoDup_filter. apply subspaces_of_NoDup.
Qed.

Lemma PF_min_traps_b_length : forall N S M, In M (min_traps_b N S) -> length M = length S.
Proof.
  intros N S M HM. rewrite min_traps_b_unfold in HM. apply filter_In in HM. destruct HM as [HM _].
  apply traps_in_spec in HM. apply subspace_length. apply HM.
Qed.

Lemma PF_min_traps_mem : forall n p N S X, is_perm n p -> nvars N = n -> length S = n ->
  length X = n ->
  (In (perm_space p X) (min_traps_b (perm_net p N) (perm_space p S)) <-> In X (min_traps_b N S)).
Proof.
  intros n p N S X H HN HS HX.
  pose proof (perm_net_nvars n p N H HN) as HN'. pose proof (PF_perm_length n p H) as Hp.
  rewrite (min_traps_b_spec (perm_net p N) (perm_space p S))
    by (rewrite PF_space_length; congruence).
  rewrite (min_traps_b_spec N S) by congruence.
  rewrite <- (perm_min_trap n p N X H HN HX), (perm_subspace n p X S H HX HS). reflexivity.
Qed.

Theorem perm_min_traps_b : forall n p N S, is_perm n p -> nvars N = n -> length S = n ->
  Permutation (min_traps_b (perm_net p N) (perm_space p S)) (map (perm_space p) (min_traps_b N S)).
Proof.
  intros n p N S H HN HS. pose proof (PF_perm_length n p H) as Hp.
  apply NoDup_Permutation.
  - apply min_traps_b_NoDup.
  - apply (PF_NoDup_map_space n p _ H); [|apply min_traps_b_NoDup].
    intros X HX. rewrite (PF_min_traps_b_length N S X HX). exact HS.
  - intro Y. rewrite in_map_iff. split.
    + intro HY.
      assert (HlY : length Y = n).
      { rewrite (PF_min_traps_b_length _ _ Y HY), PF_space_length. exact Hp. }
      exists (perm_space (inv_perm p) Y). split; [apply (PF_space_back n p Y H HlY)|].
      apply (PF_min_traps_mem n p N S _ H HN HS (PF_inv_space_length n p Y H)).
      rewrite (PF_space_back n p Y H HlY). exact HY.
    + intros (X & Heq & HX). subst Y.
      apply (PF_min_traps_mem n p N S X H HN HS); [|exact HX].
      rewrite (PF_min_traps_b_length N S X HX). exact HS.
Qed.

(* ================================================================== *)
(** * 4. The fully expanded diagram                                    *)
(* ================================================================== *)

(* the diagram d with every space (node spaces and edge motifs) read in the new variable order;
   it is a rooted hierarchy of the permuted network, hence (hierarchy_unique_weak) it has the same
   spaces and edges as any other rooted hierarchy d' of the permuted network *)
Definition PF_node (p : list nat) (x : node) : node :=
  {| n_space := perm_space p (n_space x); n_depth := n_depth x; n_exp := n_exp x; n_skip := n_skip x;
     n_parent := n_parent x; n_cands := n_cands x; n_seeds := n_seeds x; n_sets := n_sets x |}.
Definition PF_edge (p : list nat) (e : edge) : edge :=
  {| e_src := e_src e; e_dst := e_dst e; e_motifs := map (perm_space p) (e_motifs e) |}.
Definition PF_sd (p : list nat) (d : sd) : sd :=
  {| sd_nodes := map (PF_node p) (sd_nodes d); sd_edges := map (PF_edge p) (sd_edges d) |}.

Lemma PF_sd_size : forall p d, size (PF_sd p d) = size d.
Proof. intros p d. unfold size. simpl. apply map_length. Qed.

Lemma PF_sd_get : forall p d i, i < size d -> get (PF_sd p d) i = PF_node p (get d i).
Proof.
  intros p d i Hi. unfold get. simpl.
  apply (PF_nth_map node node (PF_node p) (sd_nodes d) i dummy_node dummy_node Hi).
Qed.

Lemma PF_sd_spaces : forall p d, spaces (PF_sd p d) = map (perm_space p) (spaces d).
Proof. intros p d. unfold spaces. simpl. rewrite !map_map. reflexivity. Qed.

Lemma PF_sd_out_motifs : forall p d i,
  out_motifs (PF_sd p d) i = map (perm_space p) (out_motifs d i).
Proof.
  intros p d i. unfold out_motifs, out_edges. simpl.
  induction (sd_edges d) as [|e r IH]; simpl; [reflexivity|].
  destruct (Nat.eqb (e_src e) i); simpl; [rewrite map_app, IH; reflexivity|exact IH].
Qed.

Lemma PF_top_space : forall n p, is_perm n p -> perm_space p (top_space n) = top_space n.
Proof.
  intros n p H. pose proof (PF_perm_length n p H) as Hp.
  apply (nth_ext _ _ None None).
  - rewrite PF_space_length. unfold top_space. rewrite repeat_length. exact Hp.
  - intros i Hi. rewrite PF_space_length, Hp in Hi.
    rewrite (PF_space_nth n p _ i H Hi), !nth_top_space. reflexivity.
Qed.

Lemma PF_sources_lt : forall N v, In v (sources_b N) -> v < nvars N.
Proof.
  intros N v Hv. unfold sources_b in Hv. apply filter_In in Hv. destruct Hv as [Hv _].
  apply in_seq in Hv. lia.
Qed.

Lemma PF_node_srcs_lt : forall N i v, In v (node_srcs N i) -> v < nvars N.
Proof.
  intros N i v. unfold node_srcs. destruct (Nat.eqb i 0); [apply PF_sources_lt|intros []].
Qed.

Lemma PF_node_srcs_mem : forall n p N i v, is_perm n p -> nvars N = n ->
  (In v (map (fun j => index_of j p) (node_srcs N i)) <-> In v (node_srcs (perm_net p N) i)).
Proof.
  intros n p N i v H HN. unfold node_srcs. destruct (Nat.eqb i 0); [|simpl; tauto].
  rewrite in_map_iff. split.
  - intros (j & Hj & Hin). pose proof (PF_sources_lt N j Hin) as Hlt. rewrite HN in Hlt.
    subst v. apply (perm_sources n p N _ H HN (PF_index_lt n p j H Hlt)).
    rewrite (PF_nth_index n p j H Hlt). exact Hin.
  - intro Hin. pose proof (PF_sources_lt _ v Hin) as Hlt.
    rewrite (perm_net_nvars n p N H HN) in Hlt.
    exists (nth v p 0). split; [apply (PF_index_nth n p v H Hlt)|].
    apply (perm_sources n p N v H HN Hlt). exact Hin.
Qed.

Lemma PF_sd_SWF : forall n p N d, is_perm n p -> nvars N = n -> SWF N d ->
  SWF (perm_net p N) (PF_sd p d).
Proof.
  intros n p N d H HN Hswf. pose proof (PF_perm_length n p H) as Hp.
  pose proof (perm_net_nvars n p N H HN) as HN'.
  constructor.
  - rewrite PF_sd_size. apply (swf_size N d Hswf).
  - intros x Hx. simpl in Hx. apply in_map_iff in Hx. destruct Hx as (x0 & Hx & Hin). subst x.
    simpl. rewrite PF_space_length. congruence.
  - rewrite PF_sd_spaces. apply (PF_NoDup_map_space n p _ H); [|apply (swf_nodup N d Hswf)].
    intros X HX. unfold spaces in HX. apply in_map_iff in HX. destruct HX as (x & Hx & Hin).
    subst X. rewrite (swf_len N d Hswf x Hin). exact HN.
  - intros e He. simpl in He. apply in_map_iff in He. destruct He as (e0 & He & Hin). subst e.
    destruct (swf_edges N d Hswf e0 Hin) as (Hs & Hd & Hne). rewrite PF_sd_size. simpl.
    split; [exact Hs|]. split; [exact Hd|].
    intro Hnil. apply Hne. destruct (e_motifs e0); [reflexivity|discriminate Hnil].
  - simpl. rewrite map_map. exact (swf_edge_nodup N d Hswf).
  - intros x Hx. simpl in Hx. apply in_map_iff in Hx. destruct Hx as (x0 & Hx & Hin). subst x.
    simpl. rewrite (perm_percolate n p N (n_space x0) H HN).
    + rewrite (swf_closed N d Hswf x0 Hin). reflexivity.
    + rewrite (swf_len N d Hswf x0 Hin). exact HN.
  - intros e m He Hm. simpl in He. apply in_map_iff in He. destruct He as (e0 & He & Hin). subst e.
    simpl in Hm. apply in_map_iff in Hm. destruct Hm as (m0 & Hm & Hin0). subst m.
    destruct (swf_edges N d Hswf e0 Hin) as (_ & Hd & _).
    destruct (swf_motif N d Hswf e0 m0 Hin Hin0) as [Hl Hperc].
    split; [rewrite PF_space_length; congruence|].
    simpl. rewrite (PF_sd_get p d _ Hd). simpl.
    rewrite (perm_percolate n p N m0 H HN) by congruence. rewrite Hperc. reflexivity.
Qed.

Lemma PF_sd_Hierarchy : forall n p N d, is_perm n p -> nvars N = n -> Hierarchy N d ->
  Hierarchy (perm_net p N) (PF_sd p d).
Proof.
  intros n p N d H HN Hh. pose proof Hh as (Hswf & Htn & Hall & Hns & Hf & Hroot).
  pose proof (perm_net_nvars n p N H HN) as HN'.
  split; [apply (PF_sd_SWF n p N d H HN Hswf)|]. split; [|split; [|split; [|split]]].
  - intros x Hx. simpl in Hx. apply in_map_iff in Hx. destruct Hx as (x0 & Hx & Hin). subst x.
    simpl. apply (perm_trap_space n p N (n_space x0) H HN).
    + rewrite (swf_len N d Hswf x0 Hin). exact HN.
    + apply (Htn x0 Hin).
  - intros i Hi. rewrite PF_sd_size in Hi. rewrite (PF_sd_get p d i Hi). simpl. apply (Hall i Hi).
  - intros i Hi. rewrite PF_sd_size in Hi. rewrite (PF_sd_get p d i Hi). simpl. apply (Hns i Hi).
  - intros i Hi _ _. rewrite PF_sd_size in Hi. unfold canonical.
    rewrite PF_sd_out_motifs, (PF_sd_get p d i Hi). simpl.
    pose proof (hierarchy_canonical N d i Hh Hi) as Hcan. unfold canonical in Hcan.
    pose proof (hierarchy_space_len N d i Hh Hi) as Hlen.
    eapply Permutation_trans; [apply Permutation_map; exact Hcan|].
    eapply Permutation_trans.
    + apply Permutation_sym.
      apply (perm_max_traps_b n p N (n_space (get d i)) (node_srcs N i) H HN); [congruence|].
      intros v Hv. rewrite <- HN. apply (PF_node_srcs_lt N i v Hv).
    + rewrite (PF_max_traps_b_srcs_ext (perm_net p N) (perm_space p (n_space (get d i)))
                 (map (fun j => index_of j p) (node_srcs N i)) (node_srcs (perm_net p N) i)).
      * apply Permutation_refl.
      * intro v. apply (PF_node_srcs_mem n p N i v H HN).
  - rewrite (PF_sd_get p d 0 (swf_size N d Hswf)). simpl. rewrite Hroot, HN', HN.
    rewrite <- (perm_percolate n p N (top_space n) H HN).
    + rewrite (PF_top_space n p H). reflexivity.
    + unfold top_space. apply repeat_length.
Qed.

Lemma PF_sd_Rooted : forall p d, Rooted d -> Rooted (PF_sd p d).
Proof.
  intros p d Hr i H0 Hi. rewrite PF_sd_size in Hi.
  destruct (Hr i H0 Hi) as (e & Hin & Hd).
  exists (PF_edge p e). split; [simpl; apply in_map; exact Hin|exact Hd].
Qed.

Theorem perm_hierarchy : forall n p N d d', is_perm n p -> nvars N = n ->
  Hierarchy N d -> Rooted d -> Hierarchy (perm_net p N) d' -> Rooted d' ->
  (forall X, length X = n -> (In X (spaces d) <-> In (perm_space p X) (spaces d'))) /\
  (forall X Y ms, edge_view d X Y ms -> edge_view d' (perm_space p X) (perm_space p Y) (map (perm_space p) ms)).
Proof.
  intros n p N d d' H HN Hh Hr Hh' Hr'.
  pose proof (PF_sd_Hierarchy n p N d H HN Hh) as Hhp.
  pose proof (PF_sd_Rooted p d Hr) as Hrp.
  pose proof Hh as (Hswf & _).
  destruct (hierarchy_unique_weak (perm_net p N) (PF_sd p d) d' Hhp Hh' Hrp Hr') as (Hsp & Hed & _).
  split.
  - intros X HX. rewrite <- Hsp, PF_sd_spaces, in_map_iff. split.
    + intro Hin. exists X. split; [reflexivity|exact Hin].
    + intros (X0 & Heq & Hin).
      assert (HX0 : length X0 = n).
      { unfold spaces in Hin. apply in_map_iff in Hin. destruct Hin as (x & Hx & Hinx).
        subst X0. rewrite (swf_len N d Hswf x Hinx). exact HN. }
      rewrite <- (PF_space_inj n p X0 X H HX0 HX Heq). exact Hin.
  - intros X Y ms (e & Hin & HX & HY & Hperm). apply Hed.
    destruct (swf_edges N d Hswf e Hin) as (Hs & Hd & _).
    exists (PF_edge p e). split; [simpl; apply in_map; exact Hin|]. simpl.
    rewrite (PF_sd_get p d _ Hs), (PF_sd_get p d _ Hd). simpl.
    split; [rewrite HX; reflexivity|]. split; [rewrite HY; reflexivity|].
    apply Permutation_map. exact Hperm.
Qed.

Print Assumptions inv_perm_is_perm.
Print Assumptions perm_list_length.
Print Assumptions perm_inv_left.
Print Assumptions perm_inv_right.
Print Assumptions perm_net_nvars.
Print Assumptions perm_upd.
Print Assumptions perm_trans.
Print Assumptions perm_reach.
Print Assumptions perm_attractor_weak.
Print Assumptions perm_attractor_counterexample.
Print Assumptions perm_in_space.
Print Assumptions perm_subspace.
Print Assumptions perm_trap_space.
Print Assumptions perm_percolate.
Print Assumptions perm_min_trap.
Print Assumptions perm_max_trap_in.
Print Assumptions perm_sources.
Print Assumptions perm_max_traps_b.
Print Assumptions perm_min_traps_b.
Print Assumptions perm_hierarchy.
