(* Brute.v -- executable brute-force twins of the definitions in BN.v.
   These are the ground truth the extracted oracle runs on small networks.
   Definitions only; their correctness lemmas live in *Facts.v files. *)
From Coq Require Import List Bool Arith NArith.
Import ListNotations.
From BB Require Import BN.

(* ---------- truth tables (how concrete networks reach the model) ---------- *)
(* A table over n variables is a complete binary tree; variable 0 is the
   first decision.  build consumes a list of 2^n bits, index = sum s_i 2^(n-1-i). *)
Inductive tt := Leaf (b : bool) | Node (l r : tt).

Fixpoint eval_tt (t : tt) (s : state) : bool :=
  match t with
  | Leaf b => b
  | Node l r => match s with
                | [] => false
                | b :: s' => eval_tt (if b then r else l) s'
                end
  end.

Fixpoint build_tt (n : nat) (bits : list bool) : tt :=
  match n with
  | O => Leaf (hd false bits)
  | S k => let h := Nat.pow 2 k in
           Node (build_tt k (firstn h bits)) (build_tt k (skipn h bits))
  end.

Definition net_of_tables (n : nat) (tabs : list (list bool)) : net :=
  map (fun bits => eval_tt (build_tt n bits)) tabs.

(* ---------- enumeration ---------- *)
Fixpoint all_states (n : nat) : list state :=
  match n with
  | O => [[]]
  | S k => let r := all_states k in map (cons false) r ++ map (cons true) r
  end.

Fixpoint states_of (S : space) : list state :=
  match S with
  | [] => [[]]
  | o :: S' =>
      let r := states_of S' in
      match o with
      | Some v => map (cons v) r
      | None => map (cons false) r ++ map (cons true) r
      end
  end.

(* all spaces refining S (fixing more variables), S itself included *)
Fixpoint subspaces_of (S : space) : list space :=
  match S with
  | [] => [[]]
  | o :: S' =>
      let r := subspaces_of S' in
      match o with
      | Some v => map (cons (Some v)) r
      | None => map (cons None) r ++ map (cons (Some false)) r ++ map (cons (Some true)) r
      end
  end.

Definition all_spaces (n : nat) : list space := subspaces_of (top_space n).

Definition mem_state (s : state) (l : list state) : bool := existsb (eqb_state s) l.
Definition mem_space (s : space) (l : list space) : bool := existsb (eqb_space s) l.

(* ---------- constancy, percolation ---------- *)
Definition const_on_b (N : net) (i : nat) (S : space) : option bool :=
  match states_of S with
  | [] => None
  | s0 :: r => let v := upd N i s0 in
               if forallb (fun s => Bool.eqb (upd N i s) v) r then Some v else None
  end.

(* one sweep over the variables i, i+1, ... (k of them) *)
Fixpoint perc_sweep (N : net) (k i : nat) (S : space) : space :=
  match k with
  | O => S
  | S k' =>
      let S1 := match nth i S None with
                | Some _ => S
                | None => match const_on_b N i S with
                          | Some v => set_nth i (Some v) S
                          | None => S
                          end
                end in
      perc_sweep N k' (Datatypes.S i) S1
  end.

Fixpoint perc_iter (N : net) (fuel : nat) (S : space) : space :=
  match fuel with
  | O => S
  | S f => perc_iter N f (perc_sweep N (nvars N) 0 S)
  end.

Definition percolate_b (N : net) (S : space) : space := perc_iter N (nvars N) S.

(* ---------- trap spaces ---------- *)
Fixpoint fixed_ok (N : net) (s : state) (i : nat) (S : space) : bool :=
  match S with
  | [] => true
  | o :: S' => (match o with None => true | Some v => Bool.eqb (upd N i s) v end)
               && fixed_ok N s (Datatypes.S i) S'
  end.

Definition is_trap_b (N : net) (S : space) : bool :=
  Nat.eqb (length S) (nvars N) && forallb (fun s => fixed_ok N s 0 S) (states_of S).

Definition traps_in (N : net) (S : space) : list space :=
  filter (is_trap_b N) (subspaces_of S).

Definition fixes_all (T : space) (vars : list nat) : bool :=
  forallb (fun v => match nth v T None with Some _ => true | None => false end) vars.

(* inclusion-maximal trap spaces strictly inside S that fix every variable in srcs *)
Definition max_traps_b (N : net) (S : space) (srcs : list nat) : list space :=
  let cands := filter (fun T => negb (eqb_space T S) && fixes_all T srcs) (traps_in N S) in
  filter (fun T => negb (existsb (fun T' => subspace T T' && negb (eqb_space T T')) cands)) cands.

(* inclusion-minimal trap spaces inside S *)
Definition min_traps_b (N : net) (S : space) : list space :=
  let cands := traps_in N S in
  filter (fun T => negb (existsb (fun T' => subspace T' T && negb (eqb_space T T')) cands)) cands.

(* variables whose update function is the identity on themselves (Petri-net "sources") *)
Definition is_source_b (N : net) (i : nat) : bool :=
  forallb (fun s => Bool.eqb (upd N i s) (nth i s false)) (all_states (nvars N)).
Definition sources_b (N : net) : list nat := filter (is_source_b N) (seq 0 (nvars N)).

(* ---------- reachability and attractors ---------- *)
Definition succs (N : net) (s : state) : list state :=
  filter (fun t => negb (eqb_state t s)) (map (fun i => step_i N i s) (seq 0 (nvars N))).

Fixpoint add_new (cands visited : list state) : list state * list state :=
  (* returns (new elements, visited extended) *)
  match cands with
  | [] => ([], visited)
  | c :: r => if mem_state c visited then add_new r visited
              else let '(nw, vis) := add_new r (c :: visited) in (c :: nw, vis)
  end.

Fixpoint reach_loop (fuel : nat) (N : net) (visited work : list state) : list state :=
  match fuel with
  | O => visited
  | S f => match work with
           | [] => visited
           | s :: w => let '(nw, vis) := add_new (succs N s) visited in
                       reach_loop f N vis (nw ++ w)
           end
  end.

Definition reach_list (N : net) (s : state) : list state :=
  reach_loop (Nat.pow 2 (nvars N)) N [s] [s].

Fixpoint assoc_state {A} (s : state) (l : list (state * A)) (d : A) : A :=
  match l with
  | [] => d
  | (k, v) :: r => if eqb_state s k then v else assoc_state s r d
  end.

Definition reach_table (N : net) : list (state * list state) :=
  map (fun s => (s, reach_list N s)) (all_states (nvars N)).

Definition in_attr_tb (tbl : list (state * list state)) (s : state) : bool :=
  forallb (fun t => mem_state s (assoc_state t tbl [])) (assoc_state s tbl []).

Fixpoint collect_attrs (tbl : list (state * list state)) (todo : list state)
         (acc : list (list state)) : list (list state) :=
  match todo with
  | [] => rev acc
  | s :: r => if existsb (mem_state s) acc then collect_attrs tbl r acc
              else if in_attr_tb tbl s then collect_attrs tbl r (assoc_state s tbl [] :: acc)
              else collect_attrs tbl r acc
  end.

Definition attractors_b (N : net) : list (list state) :=
  let tbl := reach_table N in collect_attrs tbl (all_states (nvars N)) [].

(* attractors of a node: inside the space, not inside any avoided space *)
Definition inside_b (A : list state) (S : space) : bool := forallb (fun s => in_space s S) A.
Definition node_attractors_of (attrs : list (list state)) (S : space) (avoid : list space)
  : list (list state) :=
  filter (fun A => inside_b A S && negb (existsb (inside_b A) avoid)) attrs.
Definition node_attractors_b (N : net) (S : space) (avoid : list space) : list (list state) :=
  node_attractors_of (attractors_b N) S avoid.

(* ---------- reduced STG fixed points ---------- *)
(* retained set R: Some b for retained variables.  A state is a fixed point of
   the reduced STG iff every variable is stable or sits at its retained value. *)
Fixpoint red_fixed_at (N : net) (s : state) (i : nat) (st : state) (R : space) : bool :=
  match st, R with
  | b :: st', r :: R' =>
      (Bool.eqb (upd N i s) b || match r with Some v => Bool.eqb b v | None => false end)
      && red_fixed_at N s (Datatypes.S i) st' R'
  | _, _ => true
  end.

Definition reduced_fixed_b (N : net) (R ens : space) (avoid : list space) : list state :=
  filter (fun s => red_fixed_at N s 0 s R && negb (existsb (in_space s) avoid)) (states_of ens).
