(* TrapFacts.v -- the brute-force trap-space functions of Brute.v compute
   exactly the Prop-level notions of BN.v: constancy on a space, trap spaces,
   enumeration of trap spaces, maximal / minimal trap spaces, sources. *)
From Coq Require Import List Bool Arith Lia Relations.
Import ListNotations.
From BB Require Import BN Brute SpaceFacts.

(* ------------------------------------------------------------------ *)
(* small helpers                                                       *)
(* ------------------------------------------------------------------ *)

Lemma in_space_wf : forall N s (Sp : space),
  length Sp = nvars N -> in_space s Sp = true -> wf_state N s.
Proof.
  intros N s Sp HS Hin. unfold wf_state.
  rewrite (in_space_length s Sp Hin). exact HS.
Qed.

Lemma space_nonempty_wf : forall N (Sp : space), length Sp = nvars N ->
  exists s, wf_state N s /\ in_space s Sp = true.
Proof.
  intros N Sp HS. destruct (space_nonempty Sp) as [s Hs].
  exists s. split; [apply (in_space_wf N s Sp HS Hs) | exact Hs].
Qed.

Lemma set_nth_beyond : forall A i (v : A) l, length l <= i -> set_nth i v l = l.
Proof.
  intros A i v l. revert i.
  induction l as [|h t IH]; intros [|i] Hle; simpl in *; try reflexivity; try lia.
  rewrite IH; [reflexivity | lia].
Qed.

Lemma nth_some_lt : forall (Sp : space) i v, nth i Sp None = Some v -> i < length Sp.
Proof.
  intros Sp i v Hn. destruct (le_lt_dec (length Sp) i) as [Hle|Hlt]; [|exact Hlt].
  rewrite (nth_overflow Sp None Hle) in Hn. discriminate.
Qed.

(* ------------------------------------------------------------------ *)
(* constancy of an update function on a space                          *)
(* ------------------------------------------------------------------ *)

Lemma const_on_b_some : forall N i S v, length S = nvars N ->
  (const_on_b N i S = Some v <-> const_on N i S v).
Proof.
  intros N i S v HS. unfold const_on_b, const_on.
  destruct (states_of S) as [|s0 r] eqn:E.
  - exfalso. apply (states_of_nonempty S E).
  - assert (Hall : forall s, in_space s S = true <-> s0 = s \/ In s r).
    { intro s. rewrite <- states_of_spec, E. simpl. tauto. }
    assert (H0 : in_space s0 S = true).
    { apply Hall. left. reflexivity. }
    cbv zeta.
    destruct (forallb (fun s => Bool.eqb (upd N i s) (upd N i s0)) r) eqn:F.
    + rewrite forallb_forall in F. split.
      * intros Hv s _ Hin. injection Hv as Hv. apply Hall in Hin.
        destruct Hin as [Heq|Hin]; [subst s; exact Hv|].
        specialize (F s Hin). apply eqb_prop in F. rewrite F. exact Hv.
      * intros Hc. f_equal. apply Hc; [apply (in_space_wf N s0 S HS H0) | exact H0].
    + split; [discriminate|].
      intros Hc. exfalso.
      assert (F' : forallb (fun s => Bool.eqb (upd N i s) (upd N i s0)) r = true).
      { apply forallb_forall. intros s Hs.
        assert (Hs' : in_space s S = true) by (apply Hall; right; exact Hs).
        rewrite (Hc s (in_space_wf N s S HS Hs') Hs').
        rewrite (Hc s0 (in_space_wf N s0 S HS H0) H0).
        apply eqb_reflx. }
      rewrite F' in F. discriminate.
Qed.

Lemma const_on_b_none : forall N i S, length S = nvars N ->
  (const_on_b N i S = None <-> forall v, ~ const_on N i S v).
Proof.
  intros N i S HS. split.
  - intros Hn v Hc. apply (const_on_b_some N i S v HS) in Hc.
    rewrite Hn in Hc. discriminate.
  - intros Hall. destruct (const_on_b N i S) as [v|] eqn:E; [|reflexivity].
    exfalso. apply (Hall v). apply (const_on_b_some N i S v HS). exact E.
Qed.

Lemma const_on_unique : forall N i S v w, length S = nvars N ->
  const_on N i S v -> const_on N i S w -> v = w.
Proof.
  intros N i S v w HS Hv Hw.
  destruct (space_nonempty_wf N S HS) as [s [Hwf Hin]].
  rewrite <- (Hv s Hwf Hin). apply (Hw s Hwf Hin).
Qed.

Lemma const_on_mono : forall N i S T v, subspace T S = true ->
  const_on N i S v -> const_on N i T v.
Proof.
  intros N i S T v Hsub Hc s Hwf Hin. apply Hc; [exact Hwf|].
  apply (proj1 (subspace_spec T S (subspace_length T S Hsub)) Hsub s Hin).
Qed.

(* ------------------------------------------------------------------ *)
(* one asynchronous step inside a space                                *)
(* ------------------------------------------------------------------ *)

Lemma step_i_in_space_free : forall N i s S, in_space s S = true ->
  nth i S None = None -> in_space (step_i N i s) S = true.
Proof.
  intros N i s S Hin Hn. unfold step_i.
  apply in_space_set_nth_free; assumption.
Qed.

Lemma step_i_in_space_fixed : forall N i s S v, in_space s S = true ->
  nth i S None = Some v ->
  (in_space (step_i N i s) S = true <-> upd N i s = v).
Proof.
  intros N i s S v Hin Hn.
  assert (Hlen : length s = length S) by (apply in_space_length; exact Hin).
  assert (Hi : i < length s).
  { rewrite Hlen. apply (nth_some_lt S i v Hn). }
  assert (Hlen' : length (step_i N i s) = length S).
  { unfold step_i. rewrite set_nth_length. exact Hlen. }
  assert (Hnth : nth i (step_i N i s) false = upd N i s).
  { unfold step_i. apply nth_set_nth_eq. exact Hi. }
  split.
  - intros Ht. rewrite <- Hnth.
    apply (proj1 (in_space_nth _ S Hlen') Ht i v Hn).
  - intros Hu. apply (in_space_nth _ S Hlen'). intros j w Hj.
    destruct (Nat.eq_dec i j) as [Heq|Hne].
    + subst j. rewrite Hnth, Hu. congruence.
    + unfold step_i. rewrite (nth_set_nth_neq bool i j _ false s Hne).
      apply (proj1 (in_space_nth s S Hlen) Hin j w Hj).
Qed.

Lemma step_i_in_space : forall N i s S, in_space s S = true ->
  (in_space (step_i N i s) S = true <->
   (forall v, nth i S None = Some v -> upd N i s = v) \/ length s <= i).
Proof.
  intros N i s S Hin. split.
  - intros Ht. left. intros v Hn.
    apply (proj1 (step_i_in_space_fixed N i s S v Hin Hn) Ht).
  - intros [Hfix|Hle].
    + destruct (nth i S None) as [v|] eqn:Hn.
      * apply (proj2 (step_i_in_space_fixed N i s S v Hin Hn)).
        apply Hfix. reflexivity.
      * apply step_i_in_space_free; assumption.
    + unfold step_i. rewrite (set_nth_beyond bool i _ s Hle). exact Hin.
Qed.

(* ------------------------------------------------------------------ *)
(* trap spaces                                                         *)
(* ------------------------------------------------------------------ *)

Lemma trap_space_char : forall N S, length S = nvars N ->
  (trap_space N S <-> forall i v, nth i S None = Some v -> const_on N i S v).
Proof.
  intros N S HS. unfold trap_space, wf_space, closed, sp_states, const_on. split.
  - intros [_ Hcl] i v Hn s Hwf Hin.
    assert (Hi : i < nvars N).
    { rewrite <- HS. apply (nth_some_lt S i v Hn). }
    destruct (eqb_state (step_i N i s) s) eqn:E.
    + apply eqb_state_spec in E.
      apply (proj1 (step_i_in_space_fixed N i s S v Hin Hn)).
      rewrite E. exact Hin.
    + assert (Hne : step_i N i s <> s).
      { intro Heq. apply eqb_state_spec in Heq. rewrite Heq in E. discriminate. }
      assert (Htr : trans N s (step_i N i s)).
      { exists i. split; [exact Hi|]. split; [reflexivity | exact Hne]. }
      destruct (Hcl s (step_i N i s) (conj Hwf Hin) Htr) as [_ Ht].
      apply (proj1 (step_i_in_space_fixed N i s S v Hin Hn) Ht).
  - intros H. split; [exact HS|].
    intros s t [Hwf Hin] [i [Hi [Ht Hne]]]. subst t. split.
    + unfold wf_state, step_i. rewrite set_nth_length. exact Hwf.
    + apply (step_i_in_space N i s S Hin). left.
      intros v Hv. apply (H i v Hv s Hwf Hin).
Qed.

Lemma fixed_ok_spec : forall N s (Sp : space) k,
  fixed_ok N s k Sp = true <->
  forall i v, nth i Sp None = Some v -> upd N (k + i) s = v.
Proof.
  intros N s Sp. induction Sp as [|o Sp IH]; intros k.
  - simpl. split; [|reflexivity]. intros _ i v Hn. destruct i; discriminate.
  - simpl fixed_ok. rewrite andb_true_iff, IH. split.
    + intros [Ho Hr] [|i] v Hn; simpl in Hn.
      * subst o. apply eqb_prop in Ho. rewrite Nat.add_0_r. exact Ho.
      * rewrite Nat.add_succ_r. apply (Hr i v Hn).
    + intros H. split.
      * destruct o as [v|]; [|reflexivity].
        specialize (H 0 v eq_refl). rewrite Nat.add_0_r in H.
        rewrite H. apply eqb_reflx.
      * intros i v Hn. specialize (H (Datatypes.S i) v Hn).
        rewrite Nat.add_succ_r in H. exact H.
Qed.

Lemma is_trap_b_spec : forall N S, is_trap_b N S = true <-> trap_space N S.
Proof.
  intros N S. unfold is_trap_b.
  rewrite andb_true_iff, Nat.eqb_eq, forallb_forall. split.
  - intros [HS Hall]. apply (trap_space_char N S HS).
    intros i v Hn s Hwf Hin.
    apply states_of_spec in Hin. specialize (Hall s Hin).
    apply (proj1 (fixed_ok_spec N s S 0) Hall i v Hn).
  - intros Ht.
    assert (HS : length S = nvars N) by (destruct Ht as [HS _]; exact HS).
    split; [exact HS|]. intros s Hs. apply states_of_spec in Hs.
    apply fixed_ok_spec. intros i v Hn. simpl.
    apply (proj1 (trap_space_char N S HS) Ht i v Hn s (in_space_wf N s S HS Hs) Hs).
Qed.

Lemma trap_space_length : forall N S, trap_space N S -> length S = nvars N.
Proof.
  intros N S [HS _]. exact HS.
Qed.

Lemma nth_top_space : forall n i, nth i (top_space n) None = None.
Proof.
  unfold top_space. induction n as [|n IH]; intros [|i]; simpl; try reflexivity.
  apply IH.
Qed.

Lemma trap_space_top : forall N, trap_space N (top_space (nvars N)).
Proof.
  intros N.
  assert (Hlen : length (top_space (nvars N)) = nvars N).
  { unfold top_space. apply repeat_length. }
  apply (trap_space_char N _ Hlen). intros i v Hn. exfalso.
  rewrite nth_top_space in Hn. discriminate.
Qed.

Lemma trap_space_intersect : forall N S T R,
  trap_space N S -> trap_space N T -> intersect S T = Some R -> trap_space N R.
Proof.
  intros N S T R [HS HcS] [HT HcT] HI.
  destruct (intersect_length S T R HI) as [HRS HRT]. split.
  - unfold wf_space in *. congruence.
  - intros s t [Hwf Hin] Htr.
    rewrite (intersect_spec_some S T R HI) in Hin.
    apply andb_true_iff in Hin. destruct Hin as [HinS HinT].
    destruct (HcS s t (conj Hwf HinS) Htr) as [Hwt HtS].
    destruct (HcT s t (conj Hwf HinT) Htr) as [_ HtT].
    split; [exact Hwt|].
    rewrite (intersect_spec_some S T R HI), HtS, HtT. reflexivity.
Qed.

Lemma in_space_of_state : forall s t, in_space t (space_of_state s) = true <-> t = s.
Proof.
  induction s as [|b s IH]; intros [|c t]; simpl; split; intro H;
    try reflexivity; try discriminate.
  - apply andb_true_iff in H. destruct H as [Hb Hr].
    apply eqb_prop in Hb. apply IH in Hr. subst. reflexivity.
  - injection H as Hb Hr. subst. rewrite eqb_reflx. simpl.
    apply IH. reflexivity.
Qed.

Lemma nth_space_of_state : forall s i, i < length s ->
  nth i (space_of_state s) None = Some (nth i s false).
Proof.
  induction s as [|b s IH]; intros [|i] Hlt; simpl in *; try lia.
  - reflexivity.
  - apply IH. lia.
Qed.

Lemma fixed_point_trap : forall N s, length s = nvars N ->
  (trap_space N (space_of_state s) <->
   forall i, i < nvars N -> upd N i s = nth i s false).
Proof.
  intros N s Hs.
  assert (Hlen : length (space_of_state s) = nvars N).
  { unfold space_of_state. rewrite map_length. exact Hs. }
  rewrite (trap_space_char N _ Hlen). split.
  - intros H i Hi.
    apply (H i (nth i s false)).
    + apply nth_space_of_state. rewrite Hs. exact Hi.
    + exact Hs.
    + apply in_space_of_state. reflexivity.
  - intros H i v Hn t Hwf Hin.
    apply in_space_of_state in Hin. subst t.
    assert (Hi : i < nvars N).
    { rewrite <- Hlen. apply (nth_some_lt _ i v Hn). }
    rewrite nth_space_of_state in Hn by (rewrite Hs; exact Hi).
    injection Hn as Hn. rewrite <- Hn. apply H. exact Hi.
Qed.

(* ------------------------------------------------------------------ *)
(* enumeration of trap spaces inside a space                           *)
(* ------------------------------------------------------------------ *)

Lemma traps_in_spec : forall N S T,
  In T (traps_in N S) <-> subspace T S = true /\ trap_space N T.
Proof.
  intros N S T. unfold traps_in.
  rewrite filter_In, subspaces_of_spec, is_trap_b_spec. reflexivity.
Qed.

(* ------------------------------------------------------------------ *)
(* extremal elements of a list w.r.t. a boolean relation               *)
(* ------------------------------------------------------------------ *)

Lemma filter_extremal : forall (R : space -> space -> bool) (cands : list space) M,
  In M (filter (fun T => negb (existsb (fun T' => R T T' && negb (eqb_space T T')) cands)) cands)
  <-> In M cands /\ forall T', In T' cands -> R M T' = true -> T' = M.
Proof.
  intros R cands M. rewrite filter_In. split.
  - intros [Hin Hneg]. split; [exact Hin|].
    intros T' HT' HR.
    destruct (eqb_space M T') eqn:E.
    + apply eqb_space_spec in E. symmetry. exact E.
    + exfalso. apply negb_true_iff in Hneg.
      assert (Hex : existsb (fun T'0 => R M T'0 && negb (eqb_space M T'0)) cands = true).
      { apply existsb_exists. exists T'. split; [exact HT'|].
        rewrite HR, E. reflexivity. }
      rewrite Hex in Hneg. discriminate.
  - intros [Hin Hmax]. split; [exact Hin|].
    apply negb_true_iff.
    destruct (existsb (fun T' => R M T' && negb (eqb_space M T')) cands) eqn:E;
      [|reflexivity].
    exfalso. apply existsb_exists in E. destruct E as [T' [HT' H]].
    apply andb_true_iff in H. destruct H as [HR Hne].
    apply negb_true_iff in Hne.
    rewrite (Hmax T' HT' HR) in Hne.
    assert (Heq : eqb_space M M = true) by (apply eqb_space_spec; reflexivity).
    rewrite Heq in Hne. discriminate.
Qed.

Lemma filter_extremal_not : forall (R : space -> space -> bool) (cands : list space) M,
  In M cands ->
  ~ In M (filter (fun T => negb (existsb (fun T' => R T T' && negb (eqb_space T T')) cands)) cands) ->
  exists T', In T' cands /\ R M T' = true /\ T' <> M.
Proof.
  intros R cands M Hin Hnot.
  destruct (existsb (fun T' => R M T' && negb (eqb_space M T')) cands) eqn:E.
  - apply existsb_exists in E. destruct E as [T' [HT' H]].
    apply andb_true_iff in H. destruct H as [HR Hne].
    apply negb_true_iff in Hne.
    exists T'. split; [exact HT'|]. split; [exact HR|].
    intro Heq. subst T'.
    assert (Hrefl : eqb_space M M = true) by (apply eqb_space_spec; reflexivity).
    rewrite Hrefl in Hne. discriminate.
  - exfalso. apply Hnot. apply filter_In. split; [exact Hin|].
    rewrite E. reflexivity.
Qed.

(* ------------------------------------------------------------------ *)
(* maximal trap spaces strictly inside S                               *)
(* ------------------------------------------------------------------ *)

Definition max_cands (N : net) (Sp : space) (srcs : list nat) : list space :=
  filter (fun T => negb (eqb_space T Sp) && fixes_all T srcs) (traps_in N Sp).

Lemma max_cands_spec : forall N (Sp : space) srcs T,
  In T (max_cands N Sp srcs) <->
  trap_space N T /\ strict_subspace T Sp /\ fixes_all T srcs = true.
Proof.
  intros N Sp srcs T. unfold max_cands, strict_subspace.
  rewrite filter_In, traps_in_spec, andb_true_iff, negb_true_iff. split.
  - intros [[Hsub Ht] [Hne Hfix]]. split; [exact Ht|]. split; [|exact Hfix].
    split; [exact Hsub|]. intro Heq. apply eqb_space_spec in Heq.
    rewrite Heq in Hne. discriminate.
  - intros [Ht [[Hsub Hne] Hfix]]. split; [split; assumption|].
    split; [|exact Hfix].
    destruct (eqb_space T Sp) eqn:E; [|reflexivity].
    exfalso. apply Hne. apply eqb_space_spec. exact E.
Qed.

Lemma max_traps_b_unfold : forall N (Sp : space) srcs,
  max_traps_b N Sp srcs =
  filter (fun T => negb (existsb (fun T' => subspace T T' && negb (eqb_space T T'))
                                 (max_cands N Sp srcs)))
         (max_cands N Sp srcs).
Proof.
  intros N Sp srcs. reflexivity.
Qed.

Lemma max_traps_b_spec_srcs : forall N S srcs M, length S = nvars N ->
  (In M (max_traps_b N S srcs) <->
     trap_space N M /\ strict_subspace M S /\ fixes_all M srcs = true /\
     forall M', trap_space N M' -> strict_subspace M' S -> fixes_all M' srcs = true ->
                subspace M M' = true -> M' = M).
Proof.
  intros N S srcs M _. rewrite max_traps_b_unfold.
  rewrite (filter_extremal subspace (max_cands N S srcs) M).
  rewrite max_cands_spec. split.
  - intros [[Ht [Hs Hf]] Hmax]. split; [exact Ht|]. split; [exact Hs|].
    split; [exact Hf|].
    intros M' Ht' Hs' Hf' Hsub. apply Hmax; [|exact Hsub].
    apply max_cands_spec. split; [exact Ht'|]. split; [exact Hs' | exact Hf'].
  - intros [Ht [Hs [Hf Hmax]]]. split; [split; [exact Ht|]; split; assumption|].
    intros T' HT' Hsub. apply max_cands_spec in HT'.
    destruct HT' as [Ht' [Hs' Hf']]. apply Hmax; assumption.
Qed.

Lemma fixes_all_nil : forall T, fixes_all T [] = true.
Proof.
  intros T. reflexivity.
Qed.

Lemma max_traps_b_spec : forall N S M, length S = nvars N ->
  (In M (max_traps_b N S []) <-> max_trap_in N S M).
Proof.
  intros N S M HS. rewrite (max_traps_b_spec_srcs N S [] M HS).
  unfold max_trap_in. split.
  - intros [Ht [Hs [_ Hmax]]]. split; [exact Ht|]. split; [exact Hs|].
    intros M' Ht' Hs' Hsub. apply Hmax; try assumption. apply fixes_all_nil.
  - intros [Ht [Hs Hmax]]. split; [exact Ht|]. split; [exact Hs|].
    split; [apply fixes_all_nil|].
    intros M' Ht' Hs' _ Hsub. apply Hmax; assumption.
Qed.

(* ------------------------------------------------------------------ *)
(* minimal trap spaces inside S                                        *)
(* ------------------------------------------------------------------ *)

Lemma min_traps_b_unfold : forall N (Sp : space),
  min_traps_b N Sp =
  filter (fun T => negb (existsb (fun T' => (fun a b : space => subspace b a) T T'
                                            && negb (eqb_space T T'))
                                 (traps_in N Sp)))
         (traps_in N Sp).
Proof.
  intros N Sp. reflexivity.
Qed.

Lemma min_traps_b_spec : forall N S M, length S = nvars N ->
  (In M (min_traps_b N S) <-> min_trap N M /\ subspace M S = true).
Proof.
  intros N S M _. rewrite min_traps_b_unfold.
  rewrite (filter_extremal (fun a b : space => subspace b a) (traps_in N S) M).
  rewrite traps_in_spec. unfold min_trap. split.
  - intros [[Hsub Ht] Hmin]. split; [|exact Hsub]. split; [exact Ht|].
    intros M' Ht' Hsub'. apply Hmin; [|exact Hsub'].
    apply traps_in_spec. split; [|exact Ht'].
    apply (subspace_trans M' M S Hsub' Hsub).
  - intros [[Ht Hmin] Hsub]. split; [split; assumption|].
    intros T' HT' Hsub'. apply traps_in_spec in HT'.
    destruct HT' as [_ Ht']. apply Hmin; assumption.
Qed.

(* ------------------------------------------------------------------ *)
(* nfixed is strictly monotone along strict subspaces                  *)
(* ------------------------------------------------------------------ *)

Lemma nfixed_cons : forall o (Sp : space),
  nfixed (o :: Sp) = (match o with Some _ => 1 | None => 0 end) + nfixed Sp.
Proof.
  intros [v|] Sp; reflexivity.
Qed.

Lemma nfixed_le_length : forall Sp : space, nfixed Sp <= length Sp.
Proof.
  induction Sp as [|o Sp IH]; [apply le_n|].
  rewrite nfixed_cons. simpl length. destruct o; lia.
Qed.

Lemma subspace_nfixed_le : forall x y, subspace x y = true -> nfixed y <= nfixed x.
Proof.
  induction x as [|a x IH]; intros [|b y] H; simpl in H; try discriminate.
  - apply le_n.
  - apply andb_true_iff in H. destruct H as [Hab Hr].
    specialize (IH y Hr). rewrite !nfixed_cons.
    destruct a as [w|], b as [v|]; try discriminate; lia.
Qed.

Lemma subspace_nfixed_eq : forall x y,
  subspace x y = true -> nfixed x = nfixed y -> x = y.
Proof.
  induction x as [|a x IH]; intros [|b y] H Heq; simpl in H; try discriminate.
  - reflexivity.
  - apply andb_true_iff in H. destruct H as [Hab Hr].
    pose proof (subspace_nfixed_le x y Hr) as Hle.
    rewrite !nfixed_cons in Heq.
    destruct a as [w|], b as [v|]; try discriminate.
    + apply eqb_prop in Hab. subst w. f_equal. apply IH; [exact Hr | lia].
    + exfalso. lia.
    + f_equal. apply IH; [exact Hr | lia].
Qed.

Lemma strict_subspace_nfixed : forall x y, strict_subspace x y -> nfixed y < nfixed x.
Proof.
  intros x y [Hsub Hne].
  pose proof (subspace_nfixed_le x y Hsub) as Hle.
  destruct (Nat.eq_dec (nfixed x) (nfixed y)) as [Heq|Hneq]; [|lia].
  exfalso. apply Hne. apply (subspace_nfixed_eq x y Hsub Heq).
Qed.

(* ------------------------------------------------------------------ *)
(* existence of minimal / maximal trap spaces                          *)
(* ------------------------------------------------------------------ *)

Lemma min_trap_step : forall N (Sp : space), trap_space N Sp ->
  min_trap N Sp \/
  exists T, trap_space N T /\ subspace T Sp = true /\ nfixed Sp < nfixed T.
Proof.
  intros N Sp Ht.
  pose proof (trap_space_length N Sp Ht) as HS.
  destruct (mem_space Sp (min_traps_b N Sp)) eqn:E.
  - left. apply mem_space_spec in E.
    apply (min_traps_b_spec N Sp Sp HS) in E. destruct E as [Hm _]. exact Hm.
  - right.
    assert (Hnot : ~ In Sp (min_traps_b N Sp)).
    { intro Hin. apply mem_space_spec in Hin. rewrite Hin in E. discriminate. }
    rewrite min_traps_b_unfold in Hnot.
    assert (Hin : In Sp (traps_in N Sp)).
    { apply traps_in_spec. split; [apply subspace_refl | exact Ht]. }
    destruct (filter_extremal_not (fun a b : space => subspace b a)
                                  (traps_in N Sp) Sp Hin Hnot)
      as [T [HT [Hsub Hne]]].
    apply traps_in_spec in HT. destruct HT as [_ HtT].
    exists T. split; [exact HtT|]. split; [exact Hsub|].
    apply strict_subspace_nfixed. split; assumption.
Qed.

Lemma min_trap_exists_aux : forall N k (Sp : space),
  trap_space N Sp -> length Sp <= nfixed Sp + k ->
  exists M, min_trap N M /\ subspace M Sp = true.
Proof.
  intros N k. induction k as [|k IH]; intros Sp Ht Hle;
    destruct (min_trap_step N Sp Ht) as [Hm | [T [HtT [Hsub Hlt]]]].
  - exists Sp. split; [exact Hm | apply subspace_refl].
  - exfalso. pose proof (nfixed_le_length T) as HT.
    rewrite (subspace_length T Sp Hsub) in HT. lia.
  - exists Sp. split; [exact Hm | apply subspace_refl].
  - destruct (IH T HtT) as [M [Hmin HM]].
    + rewrite (subspace_length T Sp Hsub). lia.
    + exists M. split; [exact Hmin|]. apply (subspace_trans M T Sp HM Hsub).
Qed.

Lemma min_trap_exists : forall N S, trap_space N S ->
  exists M, min_trap N M /\ subspace M S = true.
Proof.
  intros N S Ht. apply (min_trap_exists_aux N (length S) S Ht). lia.
Qed.

Lemma max_trap_step : forall N (Sp T : space), length Sp = nvars N ->
  trap_space N T -> strict_subspace T Sp ->
  max_trap_in N Sp T \/
  exists T', trap_space N T' /\ strict_subspace T' Sp /\ subspace T T' = true /\
             nfixed T' < nfixed T.
Proof.
  intros N Sp T HS Ht Hs.
  destruct (mem_space T (max_traps_b N Sp [])) eqn:E.
  - left. apply mem_space_spec in E.
    apply (max_traps_b_spec N Sp T HS). exact E.
  - right.
    assert (Hnot : ~ In T (max_traps_b N Sp [])).
    { intro Hin. apply mem_space_spec in Hin. rewrite Hin in E. discriminate. }
    rewrite max_traps_b_unfold in Hnot.
    assert (Hin : In T (max_cands N Sp [])).
    { apply max_cands_spec. split; [exact Ht|]. split; [exact Hs | apply fixes_all_nil]. }
    destruct (filter_extremal_not subspace (max_cands N Sp []) T Hin Hnot)
      as [T' [HT' [Hsub Hne]]].
    apply max_cands_spec in HT'. destruct HT' as [Ht' [Hs' _]].
    exists T'. split; [exact Ht'|]. split; [exact Hs'|]. split; [exact Hsub|].
    apply strict_subspace_nfixed. split; [exact Hsub|].
    intro Heq. apply Hne. symmetry. exact Heq.
Qed.

Lemma max_trap_above_aux : forall N (Sp : space) k T, length Sp = nvars N ->
  trap_space N T -> strict_subspace T Sp -> nfixed T <= k ->
  exists M, max_trap_in N Sp M /\ subspace T M = true.
Proof.
  intros N Sp k. induction k as [|k IH]; intros T HS Ht Hs Hle;
    destruct (max_trap_step N Sp T HS Ht Hs) as [Hm | [T' [Ht' [Hs' [Hsub Hlt]]]]].
  - exists T. split; [exact Hm | apply subspace_refl].
  - exfalso. lia.
  - exists T. split; [exact Hm | apply subspace_refl].
  - destruct (IH T' HS Ht' Hs') as [M [Hmax HM]]; [lia|].
    exists M. split; [exact Hmax|]. apply (subspace_trans T T' M Hsub HM).
Qed.

Lemma max_trap_above : forall N S T, length S = nvars N ->
  trap_space N T -> strict_subspace T S ->
  exists M, max_trap_in N S M /\ subspace T M = true.
Proof.
  intros N S T HS Ht Hs.
  apply (max_trap_above_aux N S (nfixed T) T HS Ht Hs). apply le_n.
Qed.

(* ------------------------------------------------------------------ *)
(* sources                                                             *)
(* ------------------------------------------------------------------ *)

Lemma is_source_b_spec : forall N i,
  is_source_b N i = true <->
  forall s, length s = nvars N -> upd N i s = nth i s false.
Proof.
  intros N i. unfold is_source_b. rewrite forallb_forall. split.
  - intros H s Hs. apply eqb_prop. apply H. apply all_states_spec. exact Hs.
  - intros H s Hs. apply all_states_spec in Hs. rewrite (H s Hs). apply eqb_reflx.
Qed.

Print Assumptions is_trap_b_spec.
Print Assumptions max_traps_b_spec.
Print Assumptions min_trap_exists.
