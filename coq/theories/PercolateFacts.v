(* PercolateFacts.v -- percolation: the executable percolate_b computes the
   unique percolation of a space (confluence), its least-fixed-point
   characterisation, and its interplay with trap spaces and attractors. *)
From Coq Require Import List Bool Arith Lia Relations.
Import ListNotations.
From BB Require Import BN Brute SpaceFacts.

(* ------------------------------------------------------------------ *)
(* local facts about constancy                                         *)
(* ------------------------------------------------------------------ *)

Lemma P_in_space_wf : forall N s X, length X = nvars N -> in_space s X = true -> wf_state N s.
Proof.
  intros N s X HX Hin. unfold wf_state.
  rewrite (in_space_length s X Hin). exact HX.
Qed.

Lemma P_const_on_b_some : forall N i X v, length X = nvars N ->
  (const_on_b N i X = Some v <-> const_on N i X v).
Proof.
  intros N i X v HX. unfold const_on_b.
  destruct (states_of X) as [|s0 r] eqn:E.
  - exfalso. apply (states_of_nonempty X E).
  - cbv zeta.
    assert (Hin0 : in_space s0 X = true).
    { apply states_of_spec. rewrite E. left. reflexivity. }
    split.
    + intro H.
      destruct (forallb (fun s => Bool.eqb (upd N i s) (upd N i s0)) r) eqn:F; [|discriminate].
      injection H as H. intros s Hwf Hin.
      apply states_of_spec in Hin. rewrite E in Hin. destruct Hin as [Heq|Hin].
      * subst s. exact H.
      * rewrite forallb_forall in F. specialize (F s Hin).
        apply eqb_prop in F. rewrite F. exact H.
    + intro Hc.
      assert (H0 : upd N i s0 = v).
      { apply Hc; [apply (P_in_space_wf N s0 X HX Hin0) | exact Hin0]. }
      assert (F : forallb (fun s => Bool.eqb (upd N i s) (upd N i s0)) r = true).
      { apply forallb_forall. intros s Hs.
        assert (Hin : in_space s X = true).
        { apply states_of_spec. rewrite E. right. exact Hs. }
        rewrite H0. rewrite (Hc s (P_in_space_wf N s X HX Hin) Hin). apply eqb_reflx. }
      rewrite F. rewrite H0. reflexivity.
Qed.

Lemma P_const_on_mono : forall N i X T v,
  subspace T X = true -> const_on N i X v -> const_on N i T v.
Proof.
  intros N i X T v Hsub Hc s Hwf Hin. apply Hc; [exact Hwf|].
  apply (proj1 (subspace_spec T X (subspace_length T X Hsub)) Hsub s Hin).
Qed.

Lemma P_const_on_unique : forall N i X v w, length X = nvars N ->
  const_on N i X v -> const_on N i X w -> v = w.
Proof.
  intros N i X v w HX Hv Hw. destruct (space_nonempty X) as [s Hs].
  pose proof (P_in_space_wf N s X HX Hs) as Hwf.
  rewrite <- (Hv s Hwf Hs). apply (Hw s Hwf Hs).
Qed.

Lemma P_set_nth_subspace : forall (X : space) i v,
  nth i X None = None -> subspace (set_nth i (Some v) X) X = true.
Proof.
  intros X i v Hn. apply subspace_nth; [apply set_nth_length|].
  intros j w Hj. destruct (Nat.eq_dec i j) as [Heq|Hne].
  - subst j. rewrite Hn in Hj. discriminate.
  - rewrite nth_set_nth_neq by exact Hne. exact Hj.
Qed.

Lemma P_subspace_free : forall (T X : space) i,
  subspace T X = true -> nth i T None = None -> nth i X None = None.
Proof.
  intros T X i Hsub Hn. destruct (nth i X None) as [x|] eqn:E; [|reflexivity].
  pose proof (proj1 (subspace_nth T X (subspace_length T X Hsub)) Hsub i x E) as H.
  rewrite Hn in H. discriminate.
Qed.

(* ------------------------------------------------------------------ *)
(* basic shape                                                         *)
(* ------------------------------------------------------------------ *)

Lemma perc_step_length : forall N S T, perc_step N S T -> length T = length S.
Proof.
  intros N S T H. destruct H as [X i v Hi Hn Hc]. apply set_nth_length.
Qed.

Lemma perc_step_subspace : forall N S T, length S = nvars N -> perc_step N S T -> subspace T S = true.
Proof.
  intros N S T _ H. destruct H as [X i v Hi Hn Hc].
  apply P_set_nth_subspace. exact Hn.
Qed.

Lemma perc_steps_subspace : forall N S T, length S = nvars N ->
  clos_refl_trans space (perc_step N) S T -> subspace T S = true /\ length T = nvars N.
Proof.
  intros N S T HS H. revert HS.
  induction H as [x y Hxy | x | x y z Hxy IH1 Hyz IH2]; intro HS.
  - split.
    + apply (perc_step_subspace N x y HS Hxy).
    + rewrite (perc_step_length N x y Hxy). exact HS.
  - split; [apply subspace_refl | exact HS].
  - destruct (IH1 HS) as [Hyx Hy]. destruct (IH2 Hy) as [Hzy Hz].
    split; [apply (subspace_trans z y x Hzy Hyx) | exact Hz].
Qed.

(* ------------------------------------------------------------------ *)
(* one sweep, unfolded into single-variable updates                    *)
(* ------------------------------------------------------------------ *)

Definition P_sweep_one (N : net) (i : nat) (X : space) : space :=
  match nth i X None with
  | Some _ => X
  | None => match const_on_b N i X with
            | Some v => set_nth i (Some v) X
            | None => X
            end
  end.

Lemma P_perc_sweep_succ : forall N k i X,
  perc_sweep N (Datatypes.S k) i X = perc_sweep N k (Datatypes.S i) (P_sweep_one N i X).
Proof. reflexivity. Qed.

Lemma P_sweep_one_length : forall N i X, length (P_sweep_one N i X) = length X.
Proof.
  intros N i X. unfold P_sweep_one.
  destruct (nth i X None) as [w|]; [reflexivity|].
  destruct (const_on_b N i X) as [v|]; [apply set_nth_length | reflexivity].
Qed.

Lemma P_sweep_one_steps : forall N i X, length X = nvars N -> i < nvars N ->
  clos_refl_trans space (perc_step N) X (P_sweep_one N i X).
Proof.
  intros N i X HX Hi. unfold P_sweep_one.
  destruct (nth i X None) as [w|] eqn:En; [apply rt_refl|].
  destruct (const_on_b N i X) as [v|] eqn:Ec; [|apply rt_refl].
  apply rt_step. apply perc_fix; [exact Hi | exact En |].
  apply (proj1 (P_const_on_b_some N i X v HX) Ec).
Qed.

Lemma P_sweep_one_idle : forall N i X, i < length X ->
  P_sweep_one N i X = X -> nth i X None = None -> const_on_b N i X = None.
Proof.
  intros N i X Hi Hid Hn. unfold P_sweep_one in Hid. rewrite Hn in Hid.
  destruct (const_on_b N i X) as [v|]; [|reflexivity].
  exfalso.
  assert (H : nth i (set_nth i (Some v) X) None = Some v)
    by (apply nth_set_nth_eq; exact Hi).
  rewrite Hid, Hn in H. discriminate.
Qed.

Lemma P_perc_sweep_length : forall N k i X, length (perc_sweep N k i X) = length X.
Proof.
  intros N k. induction k as [|k IH]; intros i X.
  - reflexivity.
  - rewrite P_perc_sweep_succ, IH. apply P_sweep_one_length.
Qed.

Lemma P_perc_iter_length : forall N f X, length (perc_iter N f X) = length X.
Proof.
  intros N f. induction f as [|f IH]; intros X; simpl.
  - reflexivity.
  - rewrite IH. apply P_perc_sweep_length.
Qed.

Lemma percolate_b_length : forall N S, length (percolate_b N S) = length S.
Proof.
  intros N S. unfold percolate_b. apply P_perc_iter_length.
Qed.

Lemma P_perc_sweep_steps : forall N k i X, length X = nvars N -> i + k <= nvars N ->
  clos_refl_trans space (perc_step N) X (perc_sweep N k i X).
Proof.
  intros N k. induction k as [|k IH]; intros i X HX Hik.
  - apply rt_refl.
  - rewrite P_perc_sweep_succ.
    apply rt_trans with (y := P_sweep_one N i X).
    + apply P_sweep_one_steps; [exact HX | lia].
    + apply IH; [rewrite P_sweep_one_length; exact HX | lia].
Qed.

Lemma P_perc_iter_steps : forall N f X, length X = nvars N ->
  clos_refl_trans space (perc_step N) X (perc_iter N f X).
Proof.
  intros N f. induction f as [|f IH]; intros X HX; simpl.
  - apply rt_refl.
  - apply rt_trans with (y := perc_sweep N (nvars N) 0 X).
    + apply P_perc_sweep_steps; [exact HX | lia].
    + apply IH. rewrite P_perc_sweep_length. exact HX.
Qed.

Theorem percolate_b_steps : forall N S, length S = nvars N ->
  clos_refl_trans space (perc_step N) S (percolate_b N S).
Proof.
  intros N S HS. unfold percolate_b. apply P_perc_iter_steps. exact HS.
Qed.

(* ------------------------------------------------------------------ *)
(* an idle sweep certifies closedness                                  *)
(* ------------------------------------------------------------------ *)

Lemma P_perc_sweep_idle : forall N k i X, length X = nvars N -> i + k <= nvars N ->
  perc_sweep N k i X = X ->
  forall j, i <= j -> j < i + k -> nth j X None = None -> const_on_b N j X = None.
Proof.
  intros N k. induction k as [|k IH]; intros i X HX Hik Hid j Hij Hjk Hn.
  - lia.
  - rewrite P_perc_sweep_succ in Hid.
    assert (HX1 : length (P_sweep_one N i X) = nvars N)
      by (rewrite P_sweep_one_length; exact HX).
    assert (H1 : subspace (P_sweep_one N i X) X = true).
    { apply (perc_steps_subspace N X (P_sweep_one N i X) HX).
      apply P_sweep_one_steps; [exact HX | lia]. }
    assert (H2 : subspace X (P_sweep_one N i X) = true).
    { rewrite <- Hid at 1.
      apply (perc_steps_subspace N (P_sweep_one N i X) _ HX1).
      apply P_perc_sweep_steps; [exact HX1 | lia]. }
    assert (Hone : P_sweep_one N i X = X) by (apply subspace_antisym; assumption).
    rewrite Hone in Hid.
    destruct (Nat.eq_dec i j) as [Heq|Hne].
    + subst j. apply P_sweep_one_idle; [lia | exact Hone | exact Hn].
    + apply (IH (Datatypes.S i) X HX); [lia | exact Hid | lia | lia | exact Hn].
Qed.

Lemma P_sweep_idle_closed : forall N X, length X = nvars N ->
  perc_sweep N (nvars N) 0 X = X -> perc_closed N X.
Proof.
  intros N X HX Hid i v Hi Hn Hc.
  apply (P_const_on_b_some N i X v HX) in Hc.
  rewrite (P_perc_sweep_idle N (nvars N) 0 X HX) in Hc;
    [discriminate | lia | exact Hid | lia | lia | exact Hn].
Qed.

Lemma P_perc_iter_idle : forall N f X,
  perc_sweep N (nvars N) 0 X = X -> perc_iter N f X = X.
Proof.
  intros N f. induction f as [|f IH]; intros X Hid; simpl.
  - reflexivity.
  - rewrite Hid. apply IH. exact Hid.
Qed.

(* ------------------------------------------------------------------ *)
(* counting fixed variables                                            *)
(* ------------------------------------------------------------------ *)

Lemma P_nfixed_cons : forall o (X : space),
  nfixed (o :: X) = (match o with Some _ => 1 | None => 0 end) + nfixed X.
Proof. intros [v|] X; reflexivity. Qed.

Lemma P_nfixed_le_length : forall X : space, nfixed X <= length X.
Proof.
  induction X as [|o X IH].
  - apply Nat.le_refl.
  - rewrite P_nfixed_cons. simpl length. destruct o as [v|]; lia.
Qed.

Lemma P_subspace_nfixed : forall T X : space, subspace T X = true ->
  nfixed X <= nfixed T /\ (nfixed T <= nfixed X -> T = X).
Proof.
  induction T as [|a T IH]; intros [|b X] H; simpl in H; try discriminate.
  - split; [apply Nat.le_refl | reflexivity].
  - apply andb_true_iff in H. destruct H as [Hab HTX].
    destruct (IH X HTX) as [Hle Heq].
    rewrite !P_nfixed_cons.
    destruct b as [v|], a as [w|]; try discriminate.
    + apply eqb_prop in Hab. subst w.
      split; [lia | intro Hl; rewrite Heq by lia; reflexivity].
    + split; [lia | intro Hl; lia].
    + split; [lia | intro Hl; rewrite Heq by lia; reflexivity].
Qed.

Lemma P_full_no_free : forall (X : space) i,
  length X <= nfixed X -> i < length X -> nth i X None <> None.
Proof.
  induction X as [|o X IH]; intros i Hfull Hi; simpl in Hi; [lia|].
  rewrite P_nfixed_cons in Hfull. simpl length in Hfull.
  pose proof (P_nfixed_le_length X) as Hle.
  destruct o as [v|]; [|lia].
  destruct i as [|i]; simpl; [discriminate|].
  apply IH; lia.
Qed.

Lemma P_perc_iter_closed : forall N f X, length X = nvars N ->
  nvars N <= nfixed X + f -> perc_closed N (perc_iter N f X).
Proof.
  intros N f. induction f as [|f IH]; intros X HX Hm; simpl.
  - intros i v Hi Hn _. apply (P_full_no_free X i); [lia | lia | exact Hn].
  - assert (Hst : clos_refl_trans space (perc_step N) X (perc_sweep N (nvars N) 0 X))
      by (apply P_perc_sweep_steps; [exact HX | lia]).
    destruct (perc_steps_subspace N X _ HX Hst) as [Hsub Hlen].
    destruct (P_subspace_nfixed _ _ Hsub) as [Hle Heq].
    destruct (le_lt_dec (nfixed (perc_sweep N (nvars N) 0 X)) (nfixed X)) as [Hidle|Hprog].
    + specialize (Heq Hidle). rewrite Heq.
      rewrite (P_perc_iter_idle N f X Heq).
      apply (P_sweep_idle_closed N X HX Heq).
    + apply IH; [exact Hlen | lia].
Qed.

Theorem percolate_b_closed : forall N S, length S = nvars N -> perc_closed N (percolate_b N S).
Proof.
  intros N S HS. unfold percolate_b. apply P_perc_iter_closed; [exact HS | lia].
Qed.

Theorem percolate_b_is_percolation : forall N S, length S = nvars N ->
  is_percolation N S (percolate_b N S).
Proof.
  intros N S HS. split.
  - apply percolate_b_steps. exact HS.
  - apply percolate_b_closed. exact HS.
Qed.

(* ------------------------------------------------------------------ *)
(* confluence and the least-fixed-point characterisation               *)
(* ------------------------------------------------------------------ *)

(* every space reachable by percolation steps is refined by each refinement Q
   of the start that is closed under "f_i constant on Q => Q fixes i" *)
Lemma P_steps_least : forall N X Y Q, length X = nvars N ->
  clos_refl_trans space (perc_step N) X Y ->
  subspace Q X = true ->
  (forall i v, i < nvars N -> nth i X None = None -> const_on N i Q v -> nth i Q None = Some v) ->
  subspace Q Y = true.
Proof.
  intros N X Y Q HX Hst HQX Hcl. apply clos_rt_rtn1 in Hst.
  induction Hst as [|Y Z HYZ HXY IH].
  - exact HQX.
  - apply clos_rtn1_rt in HXY.
    destruct (perc_steps_subspace N X Y HX HXY) as [HYX HYl].
    destruct HYZ as [Y i v Hi Hn Hc].
    apply subspace_nth.
    { rewrite set_nth_length. apply (subspace_length Q Y IH). }
    intros j w Hj. destruct (Nat.eq_dec i j) as [Heq|Hne].
    + subst j. rewrite nth_set_nth_eq in Hj by lia.
      injection Hj as Hj. subst w.
      apply Hcl; [exact Hi | apply (P_subspace_free Y X i HYX Hn) |].
      apply (P_const_on_mono N i Y Q v IH Hc).
    + rewrite nth_set_nth_neq in Hj by exact Hne.
      apply (proj1 (subspace_nth Q Y (subspace_length Q Y IH)) IH j w Hj).
Qed.

(* values introduced by percolation steps are justified on the result *)
Lemma P_steps_justified : forall N X P, length X = nvars N ->
  clos_refl_trans space (perc_step N) X P ->
  forall i w, nth i X None = None -> nth i P None = Some w -> const_on N i P w.
Proof.
  intros N X P HX Hst. apply clos_rt_rtn1 in Hst.
  induction Hst as [|P Z HPZ HXP IH]; intros i w HiX HiP.
  - rewrite HiX in HiP. discriminate.
  - apply clos_rtn1_rt in HXP.
    destruct (perc_steps_subspace N X P HX HXP) as [HPX HPl].
    destruct HPZ as [P j x Hj Hn Hc].
    pose proof (P_set_nth_subspace P j x Hn) as Hsub.
    destruct (Nat.eq_dec j i) as [Heq|Hne].
    + subst j. rewrite nth_set_nth_eq in HiP by lia.
      injection HiP as HiP. subst w.
      apply (P_const_on_mono N i P _ x Hsub Hc).
    + rewrite nth_set_nth_neq in HiP by exact Hne.
      apply (P_const_on_mono N i P _ w Hsub). apply (IH i w HiX HiP).
Qed.

Lemma P_closed_cond : forall N X P, length X = nvars N ->
  clos_refl_trans space (perc_step N) X P -> perc_closed N P ->
  forall i v, i < nvars N -> nth i X None = None -> const_on N i P v -> nth i P None = Some v.
Proof.
  intros N X P HX Hst Hclosed i v Hi HiX Hc.
  destruct (perc_steps_subspace N X P HX Hst) as [_ HPl].
  destruct (nth i P None) as [w|] eqn:E.
  - f_equal. apply (P_const_on_unique N i P w v HPl); [|exact Hc].
    apply (P_steps_justified N X P HX Hst i w HiX E).
  - exfalso. apply (Hclosed i v Hi E Hc).
Qed.

Theorem percolation_unique : forall N S P P', length S = nvars N ->
  is_percolation N S P -> is_percolation N S P' -> P = P'.
Proof.
  intros N S P P' HS [H1 C1] [H2 C2].
  destruct (perc_steps_subspace N S P HS H1) as [HPS _].
  destruct (perc_steps_subspace N S P' HS H2) as [HPS' _].
  apply subspace_antisym.
  - apply (P_steps_least N S P' P HS H2 HPS). apply (P_closed_cond N S P HS H1 C1).
  - apply (P_steps_least N S P P' HS H1 HPS'). apply (P_closed_cond N S P' HS H2 C2).
Qed.

Theorem percolate_b_unique : forall N S P, length S = nvars N ->
  is_percolation N S P -> P = percolate_b N S.
Proof.
  intros N S P HS HP.
  apply (percolation_unique N S P (percolate_b N S) HS HP).
  apply percolate_b_is_percolation. exact HS.
Qed.

Theorem percolate_b_least : forall N S Q, length S = nvars N -> subspace Q S = true ->
  (forall i v, i < nvars N -> nth i S None = None -> const_on N i Q v -> nth i Q None = Some v) ->
  subspace Q (percolate_b N S) = true.
Proof.
  intros N S Q HS HQS Hcl.
  apply (P_steps_least N S (percolate_b N S) Q HS (percolate_b_steps N S HS) HQS Hcl).
Qed.

(* ------------------------------------------------------------------ *)
(* given values are kept, idempotence                                  *)
(* ------------------------------------------------------------------ *)

Lemma percolate_b_keeps : forall N S i v, length S = nvars N ->
  nth i S None = Some v -> nth i (percolate_b N S) None = Some v.
Proof.
  intros N S i v HS Hn.
  destruct (perc_steps_subspace N S _ HS (percolate_b_steps N S HS)) as [Hsub _].
  apply (proj1 (subspace_nth _ _ (subspace_length _ _ Hsub)) Hsub i v Hn).
Qed.

Theorem percolate_b_fixed_iff_closed : forall N S, length S = nvars N ->
  (percolate_b N S = S <-> perc_closed N S).
Proof.
  intros N S HS. split.
  - intro Heq. rewrite <- Heq. apply percolate_b_closed. exact HS.
  - intro Hc. symmetry. apply (percolate_b_unique N S S HS).
    split; [apply rt_refl | exact Hc].
Qed.

Theorem percolate_b_idem : forall N S, length S = nvars N ->
  percolate_b N (percolate_b N S) = percolate_b N S.
Proof.
  intros N S HS. apply percolate_b_fixed_iff_closed.
  - rewrite percolate_b_length. exact HS.
  - apply percolate_b_closed. exact HS.
Qed.

(* ------------------------------------------------------------------ *)
(* trap spaces                                                         *)
(* ------------------------------------------------------------------ *)

Lemma P_perc_step_trap : forall N X Y, trap_space N X -> perc_step N X Y -> trap_space N Y.
Proof.
  intros N X Y [Hwf Hcl] Hst. unfold wf_space in Hwf.
  destruct Hst as [X i v Hi Hn Hc]. split.
  - unfold wf_space. rewrite set_nth_length. exact Hwf.
  - intros s t [Hs Hin] Htr.
    assert (HinX : in_space s X = true).
    { pose proof (P_set_nth_subspace X i v Hn) as Hsub.
      apply (proj1 (subspace_spec _ _ (subspace_length _ _ Hsub)) Hsub s Hin). }
    destruct (Hcl s t (conj Hs HinX) Htr) as [Ht HtX].
    split; [exact Ht|].
    rewrite (in_space_set_nth_fixed t X i v HtX) by lia.
    rewrite (in_space_set_nth_fixed s X i v HinX) in Hin by lia.
    destruct Htr as [j [Hj [Heq _]]]. subst t. unfold step_i.
    unfold wf_state in Hs.
    destruct (Nat.eq_dec j i) as [Hji|Hji].
    + subst j. rewrite nth_set_nth_eq by lia.
      rewrite (Hc s Hs HinX). apply eqb_reflx.
    + rewrite nth_set_nth_neq by exact Hji. exact Hin.
Qed.

Lemma P_perc_steps_trap : forall N X Y, trap_space N X ->
  clos_refl_trans space (perc_step N) X Y -> trap_space N Y.
Proof.
  intros N X Y HX Hst. revert HX.
  induction Hst as [x y Hxy | x | x y z Hxy IH1 Hyz IH2]; intro HX.
  - apply (P_perc_step_trap N x y HX Hxy).
  - exact HX.
  - apply IH2. apply IH1. exact HX.
Qed.

Theorem percolate_b_trap : forall N S, trap_space N S ->
  trap_space N (percolate_b N S) /\ subspace (percolate_b N S) S = true.
Proof.
  intros N S HT. pose proof HT as [HS _]. unfold wf_space in HS. split.
  - apply (P_perc_steps_trap N S _ HT). apply percolate_b_steps. exact HS.
  - apply (perc_steps_subspace N S _ HS). apply percolate_b_steps. exact HS.
Qed.

(* ------------------------------------------------------------------ *)
(* attractors                                                          *)
(* ------------------------------------------------------------------ *)

Lemma P_attr_coord_inv : forall N (A : state -> Prop) X i v,
  closed N A -> (forall s, A s -> wf_state N s) ->
  (forall s, A s -> in_space s X = true) -> const_on N i X v ->
  forall x y, reach N x y -> A x -> nth i x false = v -> A y /\ nth i y false = v.
Proof.
  intros N A X i v Hcl Hwf Hsub Hc x y Hr.
  induction Hr as [x y Hxy | x | x y z Hxy IH1 Hyz IH2]; intros Hx Hxi.
  - split; [apply (Hcl x y Hx Hxy)|].
    destruct Hxy as [j [Hj [Heq _]]]. subst y. unfold step_i.
    pose proof (Hwf x Hx) as Hl. unfold wf_state in Hl.
    destruct (Nat.eq_dec j i) as [Hji|Hji].
    + subst j. rewrite nth_set_nth_eq by lia.
      apply (Hc x (Hwf x Hx) (Hsub x Hx)).
    + rewrite nth_set_nth_neq by exact Hji. exact Hxi.
  - split; assumption.
  - destruct (IH1 Hx Hxi) as [Hy Hyi]. apply (IH2 Hy Hyi).
Qed.

Lemma P_const_coord : forall N (A : state -> Prop) X i v,
  attractor N A -> (forall s, A s -> in_space s X = true) -> const_on N i X v ->
  forall s, A s -> nth i s false = v.
Proof.
  intros N A X i v [[s0 Hs0] [Hwf [Hcl Hmut]]] Hsub Hc s Hs.
  pose proof (Hwf s Hs) as Hl. unfold wf_state in Hl.
  destruct (le_lt_dec (nvars N) i) as [Hge|Hlt].
  - assert (Hv : v = false).
    { rewrite <- (Hc s0 (Hwf s0 Hs0) (Hsub s0 Hs0)). unfold upd.
      rewrite nth_overflow by (unfold nvars in Hge; exact Hge). reflexivity. }
    rewrite nth_overflow by lia. symmetry. exact Hv.
  - destruct (bool_dec (nth i s false) v) as [Heq|Hne]; [exact Heq|]. exfalso.
    assert (Hupd : upd N i s = v) by (apply Hc; [apply (Hwf s Hs) | apply (Hsub s Hs)]).
    assert (Hti : nth i (step_i N i s) false = v).
    { unfold step_i. rewrite nth_set_nth_eq by lia. exact Hupd. }
    assert (Hts : step_i N i s <> s).
    { intro Heq. rewrite Heq in Hti. apply Hne. exact Hti. }
    assert (Htr : trans N s (step_i N i s)).
    { exists i. split; [exact Hlt|]. split; [reflexivity | exact Hts]. }
    pose proof (Hcl s _ Hs Htr) as Ht.
    destruct (P_attr_coord_inv N A X i v Hcl Hwf Hsub Hc _ s (Hmut _ s Ht Hs) Ht Hti)
      as [_ Hfin].
    apply Hne. exact Hfin.
Qed.

Lemma const_coord_on_attractor : forall N (A : state -> Prop) S i v,
  attractor N A -> trap_space N S -> (forall s, A s -> in_space s S = true) -> const_on N i S v ->
  forall s, A s -> nth i s false = v.
Proof.
  intros N A S i v Hattr _ Hsub Hc. apply (P_const_coord N A S i v Hattr Hsub Hc).
Qed.

Lemma P_attr_in_steps : forall N (A : state -> Prop) X Y,
  attractor N A -> clos_refl_trans space (perc_step N) X Y ->
  length X = nvars N -> (forall s, A s -> in_space s X = true) ->
  forall s, A s -> in_space s Y = true.
Proof.
  intros N A X Y Hattr Hst.
  induction Hst as [x y Hxy | x | x y z Hxy IH1 Hyz IH2]; intros HX Hsub s Hs.
  - destruct Hxy as [x i v Hi Hn Hc].
    rewrite (in_space_set_nth_fixed s x i v (Hsub s Hs)) by lia.
    rewrite (P_const_coord N A x i v Hattr Hsub Hc s Hs). apply eqb_reflx.
  - apply (Hsub s Hs).
  - destruct (perc_steps_subspace N x y HX Hxy) as [_ Hy].
    apply (IH2 Hy (IH1 HX Hsub) s Hs).
Qed.

Theorem attractor_in_percolation : forall N (A : state -> Prop) S,
  attractor N A -> trap_space N S -> (forall s, A s -> in_space s S = true) ->
  forall s, A s -> in_space s (percolate_b N S) = true.
Proof.
  intros N A S Hattr [HS _] Hsub. unfold wf_space in HS.
  apply (P_attr_in_steps N A S (percolate_b N S) Hattr (percolate_b_steps N S HS) HS Hsub).
Qed.

Print Assumptions percolation_unique.
Print Assumptions percolate_b_is_percolation.
Print Assumptions attractor_in_percolation.
