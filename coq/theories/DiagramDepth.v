(* DiagramDepth.v -- the depth of a node is the length of the longest path from the
   root to it (property C20).

   1. paths, acyclicity from EdgeStrict, a path has fewer than size d edges
   2. raise_depth: what it reaches, and that with fuel >= size d it restores
      "depth(child) > depth(parent)" below the raised node (raise_depth_spec)
   3. ensure_edge
   4. LP: "the depth is the length of the longest path ending in the node" -- the
      invariant that every primitive preserves, hence every operation
   5. Anch: the replacement of Rooted that survives skip_remaining
   6. DepthOK for init / step / run, and the depth query *)
From Coq Require Import List Bool Arith NArith Lia Permutation.
Import ListNotations.
From BB Require Import BN Brute SpaceFacts TrapFacts PercolateFacts Diagram Invariants DiagramStruct DiagramSem1.

Local Arguments percolate_b : simpl never.
Local Arguments expand_one : simpl never.
Local Arguments node_successors : simpl never.
Local Arguments ensure_node : simpl never.
Local Arguments ensure_edge : simpl never.
Local Arguments raise_depth : simpl never.
Local Arguments max_traps_b : simpl never.
Local Arguments min_traps_b : simpl never.
Local Arguments make_skip_node : simpl never.
Local Arguments upd_node : simpl never.
Local Arguments ensure_min_children : simpl never.

(* ================================================================== *)
(* 1. paths                                                            *)
(* ================================================================== *)

Definition dpt (d : sd) (i : nat) : nat := n_depth (get d i).

Definition EdgesIn (d : sd) : Prop :=
  forall e, In e (sd_edges d) -> e_src e < size d /\ e_dst e < size d.

Definition Acyc (d : sd) : Prop := forall i len, path d i i len -> len = 0.

Lemma SWF_EdgesIn : forall N d, SWF N d -> EdgesIn d.
Proof.
  intros N d Hswf e Hin. destruct (swf_edges N d Hswf e Hin) as (H1 & H2 & _). auto.
Qed.

Lemma path_app : forall d i j k a b, path d i j a -> path d j k b -> path d i k (a + b).
Proof.
  intros d i j k a b Hp. induction Hp as [i|i j0 k0 len e Hin Hs Hd Hp IH]; intro Hq; simpl.
  - exact Hq.
  - eapply path_cons; eauto.
Qed.

Lemma path_edge : forall d e, In e (sd_edges d) -> path d (e_src e) (e_dst e) 1.
Proof.
  intros d e Hin. eapply path_cons; [exact Hin|reflexivity|reflexivity|apply path_nil].
Qed.

Lemma path_snoc : forall d i j len e, path d i j len -> In e (sd_edges d) -> e_src e = j ->
  path d i (e_dst e) (S len).
Proof.
  intros d i j len e Hp Hin Hs. replace (S len) with (len + 1) by lia.
  eapply path_app; [exact Hp|]. rewrite <- Hs. apply path_edge. exact Hin.
Qed.

(* paths only depend on the (source, target) pairs of the edges *)
Lemma path_mono : forall d d' i j len,
  (forall e, In e (sd_edges d) ->
     exists e', In e' (sd_edges d') /\ e_src e' = e_src e /\ e_dst e' = e_dst e) ->
  path d i j len -> path d' i j len.
Proof.
  intros d d' i j len Hsub Hp. induction Hp as [i|i j0 k0 len e Hin Hs Hd Hp IH].
  - apply path_nil.
  - destruct (Hsub e Hin) as (e' & Hin' & Hs' & Hd').
    eapply path_cons; [exact Hin'|congruence|reflexivity|]. rewrite Hd', Hd. exact IH.
Qed.

Lemma path_same_edges : forall d d' i j len,
  sd_edges d' = sd_edges d -> path d i j len -> path d' i j len.
Proof.
  intros d d' i j len He Hp. apply (path_mono d d'); [|exact Hp].
  intros e Hin. exists e. rewrite He. auto.
Qed.

Lemma Acyc_same_edges : forall d d', sd_edges d' = sd_edges d -> Acyc d -> Acyc d'.
Proof.
  intros d d' He Ha i len Hp. apply (Ha i). apply (path_same_edges d' d); [symmetry|]; assumption.
Qed.

Lemma EdgesIn_same : forall d d',
  sd_edges d' = sd_edges d -> size d' = size d -> EdgesIn d -> EdgesIn d'.
Proof. intros d d' He Hs H e Hin. rewrite Hs. apply H. rewrite <- He. exact Hin. Qed.

(* acyclicity from EdgeStrict: along an edge the number of fixed variables strictly increases *)
Lemma edge_nfixed : forall d e, EdgeStrict d -> In e (sd_edges d) ->
  nfixed (n_space (get d (e_src e))) < nfixed (n_space (get d (e_dst e))).
Proof.
  intros d e Hes Hin. apply strict_subspace_nfixed. apply Hes. exact Hin.
Qed.

Lemma path_nfixed : forall d i j len, EdgeStrict d -> path d i j len ->
  nfixed (n_space (get d i)) + len <= nfixed (n_space (get d j)).
Proof.
  intros d i j len Hes Hp. induction Hp as [i|i j0 k0 len e Hin Hs Hd Hp IH].
  - lia.
  - pose proof (edge_nfixed d e Hes Hin) as Hlt. rewrite Hs, Hd in Hlt. lia.
Qed.

Lemma path_length_bound : forall N d i j len, SWF N d -> EdgeStrict d -> path d i j len -> len <= nvars N.
Proof.
  intros N d i j len Hswf Hes Hp. pose proof (path_nfixed d i j len Hes Hp) as Hle.
  pose proof (nfixed_le_length (n_space (get d j))) as Hl.
  destruct (lt_dec j (size d)) as [Hlt|Hge].
  - rewrite (swf_len N d Hswf (get d j) (get_In d j Hlt)) in Hl. lia.
  - rewrite (get_beyond d j) in Hl, Hle by lia. simpl in Hl, Hle. lia.
Qed.

Lemma no_cycle : forall d i len, EdgeStrict d -> path d i i len -> len = 0.
Proof.
  intros d i len Hes Hp. pose proof (path_nfixed d i i len Hes Hp) as Hle. lia.
Qed.

Lemma EdgeStrict_Acyc : forall d, EdgeStrict d -> Acyc d.
Proof. intros d Hes i len Hp. eapply no_cycle; eauto. Qed.

(* the nodes on a path are pairwise distinct *)
Lemma path_nodes : forall d, EdgesIn d -> Acyc d ->
  forall i j len, path d i j len -> i < size d ->
  exists l, length l = S len /\ NoDup l /\
            forall x, In x l -> x < size d /\ exists m, path d i x m.
Proof.
  intros d Hin Hac i j len Hp. induction Hp as [i|i j0 k0 len e He Hs Hd Hp IH]; intro Hi.
  - exists [i]. split; [reflexivity|]. split.
    + constructor; [intros []|constructor].
    + intros x [Heq|[]]. subst x. split; [exact Hi|]. exists 0. apply path_nil.
  - assert (Hj : j0 < size d) by (rewrite <- Hd; apply (Hin e He)).
    destruct (IH Hj) as (l & Hlen & Hnd & Hall).
    assert (Hstep : path d i j0 1).
    { rewrite <- Hs, <- Hd. apply path_edge. exact He. }
    exists (i :: l). split; [simpl; rewrite Hlen; reflexivity|]. split.
    + constructor; [|exact Hnd]. intro Hil. destruct (Hall i Hil) as (_ & m & Hm).
      pose proof (Hac i (1 + m) (path_app d i j0 i 1 m Hstep Hm)) as H0. discriminate H0.
    + intros x [Heq|Hx].
      * subst x. split; [exact Hi|]. exists 0. apply path_nil.
      * destruct (Hall x Hx) as (Hlt & m & Hm). split; [exact Hlt|].
        exists (1 + m). eapply path_app; eauto.
Qed.

(* hence a path has fewer edges than the diagram has nodes: the fuel of ensure_edge *)
Lemma path_lt_size : forall d i j len, EdgesIn d -> Acyc d -> i < size d ->
  path d i j len -> len < size d.
Proof.
  intros d i j len Hin Hac Hi Hp.
  destruct (path_nodes d Hin Hac i j len Hp Hi) as (l & Hlen & Hnd & Hall).
  assert (Hle : length l <= length (seq 0 (size d))).
  { apply NoDup_incl_length; [exact Hnd|]. intros x Hx. apply in_seq.
    destruct (Hall x Hx) as [Hlt _]. lia. }
  rewrite seq_length in Hle. lia.
Qed.

(* depth(child) >= depth(parent) + 1 along every edge *)
Definition EdgeDepth (d : sd) : Prop :=
  forall e, In e (sd_edges d) -> S (n_depth (get d (e_src e))) <= n_depth (get d (e_dst e)).

Lemma EdgeDepth_path : forall d i j len, EdgeDepth d -> path d i j len ->
  dpt d i + len <= dpt d j.
Proof.
  intros d i j len Hed Hp. induction Hp as [i|i j0 k0 len e Hin Hs Hd Hp IH].
  - lia.
  - pose proof (Hed e Hin) as H1. rewrite Hs, Hd in H1. unfold dpt in *. lia.
Qed.

(* ================================================================== *)
(* 2. raise_depth                                                      *)
(* ================================================================== *)

Lemma raise_depth_S : forall f d c v,
  raise_depth (S f) d c v =
  if Nat.ltb (dpt d c) v
  then fold_left (fun acc s => raise_depth f acc s (S v))
                 (successors_of (sd_edges d) c) (upd_node d c (fun x => set_depth x v))
  else d.
Proof. intros f d c v. reflexivity. Qed.

Lemma successors_of_In : forall l c s,
  In s (successors_of l c) <-> exists e, In e l /\ e_src e = c /\ e_dst e = s.
Proof.
  intros l c s. unfold successors_of. rewrite in_map_iff. split.
  - intros (e & Hd & Hin). apply filter_In in Hin. destruct Hin as [Hin Hs].
    apply Nat.eqb_eq in Hs. exists e. auto.
  - intros (e & Hin & Hs & Hd). exists e. split; [exact Hd|]. apply filter_In.
    split; [exact Hin|]. apply Nat.eqb_eq. exact Hs.
Qed.

Lemma dpt_set_depth : forall d c v i,
  (i = c /\ c < size d /\ dpt (upd_node d c (fun x => set_depth x v)) i = v) \/
  ((i <> c \/ size d <= c) /\ dpt (upd_node d c (fun x => set_depth x v)) i = dpt d i).
Proof.
  intros d c v i. unfold dpt. destruct (Nat.eq_dec i c) as [Heq|Hne].
  - subst i. destruct (lt_dec c (size d)) as [Hlt|Hge].
    + left. rewrite get_upd_node_eq by exact Hlt. simpl. auto.
    + right. rewrite upd_node_beyond by lia. split; [right; lia|reflexivity].
  - right. rewrite get_upd_node_neq by lia. auto.
Qed.

Lemma dpt_raise_mono : forall fuel d c v i, dpt d i <= dpt (raise_depth fuel d c v) i.
Proof. intros fuel d c v i. apply n_depth_raise_depth. Qed.

(* whatever the fuel: a depth that changed was set along a path from c *)
Lemma raise_depth_reach : forall fuel d c v i,
  dpt (raise_depth fuel d c v) i = dpt d i \/
  exists k, path d c i k /\ dpt (raise_depth fuel d c v) i = v + k.
Proof.
  induction fuel as [|f IH]; intros d c v i.
  - left. reflexivity.
  - rewrite raise_depth_S. destruct (Nat.ltb (dpt d c) v); [|left; reflexivity].
    assert (Hfold : forall L acc,
      (forall s, In s L -> In s (successors_of (sd_edges d) c)) ->
      sd_edges acc = sd_edges d ->
      (dpt acc i = dpt d i \/ exists k, path d c i k /\ dpt acc i = v + k) ->
      (dpt (fold_left (fun acc0 s => raise_depth f acc0 s (S v)) L acc) i = dpt d i \/
       exists k, path d c i k /\
                 dpt (fold_left (fun acc0 s => raise_depth f acc0 s (S v)) L acc) i = v + k)).
    { induction L as [|s L IHL]; intros acc HL He Hacc; simpl; [exact Hacc|].
      apply IHL.
      - intros s0 Hs0. apply HL. right. exact Hs0.
      - rewrite sd_edges_raise_depth. exact He.
      - destruct (IH acc s (S v) i) as [Heq|(k & Hp & Hk)].
        + rewrite Heq. exact Hacc.
        + right. exists (S k). split; [|lia].
          assert (Hs : In s (successors_of (sd_edges d) c)) by (apply HL; left; reflexivity).
          apply successors_of_In in Hs. destruct Hs as (e & Hin & Hsrc & Hdst).
          eapply path_cons; [exact Hin|exact Hsrc|exact Hdst|].
          apply (path_same_edges acc d); [symmetry; exact He|exact Hp]. }
    apply Hfold.
    + intros s Hs. exact Hs.
    + reflexivity.
    + destruct (dpt_set_depth d c v i) as [(Hi & _ & Hv)|(_ & Hv)].
      * right. exists 0. subst i. split; [apply path_nil|lia].
      * left. exact Hv.
Qed.

Definition eok (d : sd) (e : edge) : Prop := S (dpt d (e_src e)) <= dpt d (e_dst e).

(* with enough fuel: c is raised, consistent edges stay consistent, and the
   out-edges of every node whose depth changed are consistent *)
Lemma raise_depth_fix : forall fuel d c v, EdgesIn d -> Acyc d -> c < size d ->
  (forall i k, path d c i k -> k < fuel) ->
  v <= dpt (raise_depth fuel d c v) c /\
  (forall e, In e (sd_edges d) -> eok d e -> eok (raise_depth fuel d c v) e) /\
  (forall e, In e (sd_edges d) ->
     dpt (raise_depth fuel d c v) (e_src e) <> dpt d (e_src e) -> eok (raise_depth fuel d c v) e).
Proof.
  induction fuel as [|f IH]; intros d c v Hin Hac Hc Hfuel.
  - exfalso. pose proof (Hfuel c 0 (path_nil d c)) as H. lia.
  - rewrite raise_depth_S. destruct (Nat.ltb (dpt d c) v) eqn:Hlt.
    2:{ apply Nat.ltb_ge in Hlt. split; [exact Hlt|]. split; [auto|].
        intros e _ Hne. exfalso. apply Hne. reflexivity. }
    apply Nat.ltb_lt in Hlt.
    set (d1 := upd_node d c (fun x => set_depth x v)).
    set (F := fun acc0 s => raise_depth f acc0 s (S v)).
    assert (Hd1c : dpt d1 c = v).
    { destruct (dpt_set_depth d c v c) as [(_ & _ & H)|([H|H] & _)]; [exact H|congruence|lia]. }
    assert (Hd1o : forall i, i <> c -> dpt d1 i = dpt d i).
    { intros i Hi. destruct (dpt_set_depth d c v i) as [(H & _)|(_ & H)]; [congruence|exact H]. }
    assert (Hd1m : forall i, dpt d i <= dpt d1 i).
    { intro i. destruct (Nat.eq_dec i c) as [Heq|Hne]; [subst i; lia|rewrite Hd1o by exact Hne; lia]. }
    (* the loop over the successors of c *)
    assert (Hfold : forall L acc,
      (forall s, In s L -> In s (successors_of (sd_edges d) c)) ->
      sd_edges acc = sd_edges d -> size acc = size d -> dpt acc c = v ->
      sd_edges (fold_left F L acc) = sd_edges d /\
      size (fold_left F L acc) = size d /\
      dpt (fold_left F L acc) c = v /\
      (forall i, dpt acc i <= dpt (fold_left F L acc) i) /\
      (forall s, In s L -> S v <= dpt (fold_left F L acc) s) /\
      (forall e, In e (sd_edges d) -> eok acc e -> eok (fold_left F L acc) e) /\
      (forall e, In e (sd_edges d) ->
         dpt (fold_left F L acc) (e_src e) <> dpt acc (e_src e) -> eok (fold_left F L acc) e)).
    { induction L as [|s L IHL]; intros acc HL He Hsz Hcv; simpl.
      - split; [exact He|]. split; [exact Hsz|]. split; [exact Hcv|]. split; [auto|].
        split; [intros s []|]. split; [auto|]. intros e _ Hne. exfalso. apply Hne. reflexivity.
      - assert (Hs : In s (successors_of (sd_edges d) c)) by (apply HL; left; reflexivity).
        apply successors_of_In in Hs. destruct Hs as (e0 & Hin0 & Hsrc0 & Hdst0).
        assert (Hcs : path d c s 1).
        { rewrite <- Hsrc0, <- Hdst0. apply path_edge. exact Hin0. }
        assert (Hss : s < size d) by (rewrite <- Hdst0; apply (Hin e0 Hin0)).
        assert (Hin' : EdgesIn acc) by (apply (EdgesIn_same d); assumption).
        assert (Hac' : Acyc acc) by (apply (Acyc_same_edges d); assumption).
        assert (Hfuel' : forall i k, path acc s i k -> k < f).
        { intros i k Hp. apply (path_same_edges acc d) in Hp; [|symmetry; exact He].
          pose proof (Hfuel i (1 + k) (path_app d c s i 1 k Hcs Hp)) as H. lia. }
        assert (Hss' : s < size acc) by (rewrite Hsz; exact Hss).
        destruct (IH acc s (S v) Hin' Hac' Hss' Hfuel') as (A1 & A2 & A3).
        fold (F acc s) in A1, A2, A3.
        assert (Hcv' : dpt (F acc s) c = v).
        { destruct (raise_depth_reach f acc s (S v) c) as [Heq|(k & Hp & _)].
          - fold (F acc s) in Heq. rewrite Heq. exact Hcv.
          - exfalso. apply (path_same_edges acc d) in Hp; [|symmetry; exact He].
            pose proof (Hac c (1 + k) (path_app d c s c 1 k Hcs Hp)) as H. discriminate H. }
        assert (He' : sd_edges (F acc s) = sd_edges d).
        { unfold F. rewrite sd_edges_raise_depth. exact He. }
        assert (Hsz' : size (F acc s) = size d).
        { unfold F. rewrite size_raise_depth. exact Hsz. }
        assert (HL' : forall s0, In s0 L -> In s0 (successors_of (sd_edges d) c))
          by (intros s0 Hs0; apply HL; right; exact Hs0).
        destruct (IHL (F acc s) HL' He' Hsz' Hcv') as (B1 & B2 & B3 & B4 & B5 & B6 & B7).
        assert (Hm1 : forall i, dpt acc i <= dpt (F acc s) i) by (intro i; apply dpt_raise_mono).
        split; [exact B1|]. split; [exact B2|]. split; [exact B3|]. split.
        { intro i. specialize (Hm1 i). specialize (B4 i). lia. }
        split.
        { intros s0 [Heq|Hs0]; [|apply B5; exact Hs0]. subst s0. specialize (B4 s). lia. }
        split.
        { intros e Hine Hok. apply B6; [exact Hine|]. apply A2; [rewrite He; exact Hine|exact Hok]. }
        intros e Hine Hne.
        destruct (Nat.eq_dec (dpt (fold_left F L (F acc s)) (e_src e)) (dpt (F acc s) (e_src e)))
          as [Heq|Hneq].
        + apply B6; [exact Hine|]. apply A3; [rewrite He; exact Hine|]. congruence.
        + apply B7; assumption. }
    destruct (Hfold (successors_of (sd_edges d) c) d1 (fun s Hs => Hs) eq_refl
                    (size_upd_node d c _) Hd1c) as (B1 & B2 & B3 & B4 & B5 & B6 & B7).
    fold d1. fold F.
    assert (Hsrc_c : forall e, In e (sd_edges d) -> e_src e = c ->
              eok (fold_left F (successors_of (sd_edges d) c) d1) e).
    { intros e Hine Hs. unfold eok. rewrite Hs, B3. apply B5.
      apply successors_of_In. exists e. auto. }
    split; [rewrite B3; lia|]. split.
    + intros e Hine Hok. destruct (Nat.eq_dec (e_src e) c) as [Hs|Hs]; [apply Hsrc_c; assumption|].
      apply B6; [exact Hine|]. unfold eok in *. rewrite (Hd1o _ Hs).
      specialize (Hd1m (e_dst e)). lia.
    + intros e Hine Hne. destruct (Nat.eq_dec (e_src e) c) as [Hs|Hs]; [apply Hsrc_c; assumption|].
      apply B7; [exact Hine|]. rewrite (Hd1o _ Hs). exact Hne.
Qed.

(* the specification of _update_node_depth: fuel >= number of nodes is enough *)
Theorem raise_depth_spec : forall N fuel d c dp, SWF N d -> EdgeStrict d -> c < size d ->
  size d <= fuel ->
  let d' := raise_depth fuel d c dp in
  n_depth (get d' c) = Nat.max (n_depth (get d c)) dp /\
  (forall i, n_depth (get d i) <= n_depth (get d' i)) /\
  (forall i, n_depth (get d' i) = n_depth (get d i) \/
             exists k, path d c i k /\ n_depth (get d' i) = dp + k) /\
  (forall e, In e (sd_edges d) ->
     S (n_depth (get d (e_src e))) <= n_depth (get d (e_dst e)) ->
     S (n_depth (get d' (e_src e))) <= n_depth (get d' (e_dst e))) /\
  (forall e, In e (sd_edges d) ->
     n_depth (get d' (e_src e)) <> n_depth (get d (e_src e)) ->
     S (n_depth (get d' (e_src e))) <= n_depth (get d' (e_dst e))).
Proof.
  intros N fuel d c dp Hswf Hes Hc Hfuel. cbv zeta.
  pose proof (SWF_EdgesIn N d Hswf) as Hin. pose proof (EdgeStrict_Acyc d Hes) as Hac.
  assert (Hf : forall i k, path d c i k -> k < fuel).
  { intros i k Hp. pose proof (path_lt_size d c i k Hin Hac Hc Hp). lia. }
  destruct (raise_depth_fix fuel d c dp Hin Hac Hc Hf) as (A1 & A2 & A3).
  split.
  { pose proof (dpt_raise_mono fuel d c dp c) as Hm.
    destruct (raise_depth_reach fuel d c dp c) as [Heq|(k & Hp & Hk)]; unfold dpt in *.
    - lia.
    - apply Hac in Hp. subst k. lia. }
  split; [intro i; apply (dpt_raise_mono fuel d c dp i)|].
  split; [intro i; apply (raise_depth_reach fuel d c dp i)|].
  split; [exact A2|exact A3].
Qed.

(* ================================================================== *)
(* 3. ensure_edge                                                      *)
(* ================================================================== *)

(* the diagram after the edge was recorded, before the depth is propagated *)
Definition pre_edge (d : sd) (p c : nat) (m : space) : sd :=
  {| sd_nodes := sd_nodes d; sd_edges := edge_added d p c m |}.

Lemma ensure_edge_unfold : forall d p c m,
  ensure_edge d p c m = raise_depth (S (size d)) (pre_edge d p c m) c (S (dpt d p)).
Proof.
  intros d p c m. unfold ensure_edge, pre_edge, edge_added, dpt.
  destruct (has_edge d p c); reflexivity.
Qed.

Lemma path_ensure_edge : forall d p c m i j len,
  path d i j len -> path (ensure_edge d p c m) i j len.
Proof.
  intros d p c m i j len Hp. apply (path_mono d); [|exact Hp].
  intros e Hin. rewrite sd_edges_ensure_edge.
  destruct (edge_added_keeps d p c m e Hin) as (e' & Hin' & Hs & Hd & _). exists e'. auto.
Qed.

(* the fuel S (size d) of ensure_edge is sufficient: a path visits distinct nodes *)
Lemma ensure_edge_core : forall d p c m, EdgesIn d -> EdgeStrict (ensure_edge d p c m) ->
  p < size d -> c < size d ->
  S (dpt d p) <= dpt (ensure_edge d p c m) c /\
  dpt (ensure_edge d p c m) p = dpt d p /\
  (forall e, In e (sd_edges (ensure_edge d p c m)) -> In e (sd_edges d) -> eok d e ->
             eok (ensure_edge d p c m) e) /\
  (forall i, dpt (ensure_edge d p c m) i = dpt d i \/
             exists k, path (ensure_edge d p c m) c i k /\
                       dpt (ensure_edge d p c m) i = S (dpt d p) + k).
Proof.
  intros d p c m Hin Hes Hp Hc.
  pose proof (sd_edges_ensure_edge d p c m) as Hed.
  assert (Hes1 : EdgeStrict (pre_edge d p c m)).
  { apply (EdgeStrict_same_shape (ensure_edge d p c m)); [|symmetry; exact Hed|exact Hes].
    symmetry. exact (spaces_ensure_edge d p c m). }
  assert (Hin1 : EdgesIn (pre_edge d p c m)).
  { intros e He. change (In e (edge_added d p c m)) in He. change (size (pre_edge d p c m)) with (size d).
    apply edge_added_In in He. destruct He as [He|[Hs Hd]]; [apply Hin; exact He|lia]. }
  pose proof (EdgeStrict_Acyc _ Hes1) as Hac1.
  assert (Hc1 : c < size (pre_edge d p c m)) by exact Hc.
  assert (Hf : forall i k, path (pre_edge d p c m) c i k -> k < S (size d)).
  { intros i k Hpk. pose proof (path_lt_size _ c i k Hin1 Hac1 Hc1 Hpk) as H.
    change (size (pre_edge d p c m)) with (size d) in H. lia. }
  destruct (raise_depth_fix (S (size d)) (pre_edge d p c m) c (S (dpt d p)) Hin1 Hac1 Hc1 Hf)
    as (A1 & A2 & A3).
  pose proof (raise_depth_reach (S (size d)) (pre_edge d p c m) c (S (dpt d p))) as A4.
  rewrite <- ensure_edge_unfold in A1, A2, A4.
  split; [exact A1|]. split.
  { destruct (A4 p) as [Heq|(k & Hpk & _)]; [exact Heq|exfalso].
    destruct (edge_added_has d p c m) as (e & He & Hs & Hd).
    assert (Hpc : path (pre_edge d p c m) p c 1).
    { eapply path_cons; [exact He|exact Hs|exact Hd|apply path_nil]. }
    pose proof (Hac1 p (1 + k) (path_app _ p c p 1 k Hpc Hpk)) as H. discriminate H. }
  split.
  { intros e He _ Hok. apply A2; [rewrite Hed in He; exact He|exact Hok]. }
  intro i. destruct (A4 i) as [Heq|(k & Hpk & Hk)]; [left; exact Heq|right].
  exists k. split; [|exact Hk]. apply (path_same_edges (pre_edge d p c m)); [exact Hed|exact Hpk].
Qed.

Lemma ensure_edge_EdgeDepth : forall d p c m, EdgesIn d -> EdgeStrict (ensure_edge d p c m) ->
  EdgeDepth d -> p < size d -> c < size d -> EdgeDepth (ensure_edge d p c m).
Proof.
  intros d p c m Hin Hes Hed Hp Hc.
  destruct (ensure_edge_core d p c m Hin Hes Hp Hc) as (A1 & A2 & A3 & _).
  intros e He. pose proof He as He'. rewrite sd_edges_ensure_edge in He'.
  apply edge_added_In in He'. destruct He' as [Hold|[Hs Hd]].
  - apply (A3 e He Hold). apply Hed. exact Hold.
  - rewrite Hs, Hd. fold (dpt (ensure_edge d p c m) p). fold (dpt (ensure_edge d p c m) c). lia.
Qed.

(* every depth that changed is attained by a path through the new edge *)
Lemma ensure_edge_attained : forall d p c m j, EdgesIn d -> EdgeStrict (ensure_edge d p c m) ->
  p < size d -> c < size d -> path d j p (dpt d p) ->
  forall i, dpt (ensure_edge d p c m) i = dpt d i \/
            path (ensure_edge d p c m) j i (dpt (ensure_edge d p c m) i).
Proof.
  intros d p c m j Hin Hes Hp Hc Hjp i.
  destruct (ensure_edge_core d p c m Hin Hes Hp Hc) as (_ & _ & _ & A4).
  destruct (A4 i) as [Heq|(k & Hpk & Hk)]; [left; exact Heq|right].
  rewrite Hk. replace (S (dpt d p) + k) with (dpt d p + (1 + k)) by lia.
  eapply path_app; [apply path_ensure_edge; exact Hjp|].
  destruct (edge_added_has d p c m) as (e & He & Hs & Hd).
  eapply path_cons; [rewrite sd_edges_ensure_edge; exact He|exact Hs|exact Hd|exact Hpk].
Qed.

(* ================================================================== *)
(* 4. LP: depth = length of the longest path ending in the node        *)
(* ================================================================== *)

Definition Attained (d : sd) : Prop :=
  forall i, i < size d -> exists j, path d j i (dpt d i).

(* by EdgeDepth no path into i is longer than the depth of i; Attained: one has that length *)
Definition LP (d : sd) : Prop := EdgeDepth d /\ Attained d.

Lemma LP_longest : forall d i j len, LP d -> path d j i len -> len <= dpt d i.
Proof.
  intros d i j len [Hed _] Hp. pose proof (EdgeDepth_path d j i len Hed Hp). lia.
Qed.

Lemma EdgeDepth_same_shape : forall d d',
  (forall i, dpt d' i = dpt d i) -> sd_edges d' = sd_edges d -> EdgeDepth d -> EdgeDepth d'.
Proof.
  intros d d' Hdp He H e Hin. rewrite He in Hin. specialize (H e Hin).
  pose proof (Hdp (e_src e)) as H1. pose proof (Hdp (e_dst e)) as H2. unfold dpt in *. lia.
Qed.

Lemma LP_same_shape : forall d d',
  (forall i, dpt d' i = dpt d i) -> sd_edges d' = sd_edges d -> size d' = size d -> LP d -> LP d'.
Proof.
  intros d d' Hdp He Hs [H1 H2]. split; [eapply EdgeDepth_same_shape; eauto|].
  intros i Hi. rewrite Hs in Hi. destruct (H2 i Hi) as (j & Hp). exists j. rewrite Hdp.
  apply (path_same_edges d d'); assumption.
Qed.

Lemma dpt_upd_flag : forall d i f j, flag_setter f -> dpt (upd_node d i f) j = dpt d j.
Proof.
  intros d i f j Hf. unfold dpt.
  destruct (get_upd_node_cases d i j f) as [Hg|(_ & _ & Hg)]; rewrite Hg; [reflexivity|].
  apply flag_setter_depth. exact Hf.
Qed.

Lemma dpt_reclaim : forall d j, dpt (reclaim d) j = dpt d j.
Proof.
  intros d j. unfold dpt. rewrite get_reclaim. destruct (n_seeds (get d j)); reflexivity.
Qed.

Lemma LP_upd : forall d i f, flag_setter f -> LP d -> LP (upd_node d i f).
Proof.
  intros d i f Hf H. apply (LP_same_shape d); [|reflexivity|apply size_upd_node|exact H].
  intro j. apply dpt_upd_flag. exact Hf.
Qed.

Lemma LP_reclaim : forall d, LP d -> LP (reclaim d).
Proof.
  intros d H. apply (LP_same_shape d); [|reflexivity|apply size_reclaim|exact H].
  intro j. apply dpt_reclaim.
Qed.

Lemma EdgesIn_add_node : forall d x, EdgesIn d -> EdgesIn (add_node d x).
Proof.
  intros d x H e Hin. rewrite size_add_node. destruct (H e Hin) as [Hs Hd]. lia.
Qed.

Lemma LP_add_node : forall d x, EdgesIn d -> n_depth x = 0 -> LP d -> LP (add_node d x).
Proof.
  intros d x Hin Hx [H1 H2]. split.
  - intros e He. change (In e (sd_edges d)) in He. destruct (Hin e He) as [Hs Hd].
    rewrite !get_add_node_old by assumption. apply H1. exact He.
  - intros i Hi. rewrite size_add_node in Hi. destruct (lt_dec i (size d)) as [Hlt|Hge].
    + destruct (H2 i Hlt) as (j & Hp). exists j. unfold dpt. rewrite get_add_node_old by exact Hlt.
      apply (path_same_edges d); [reflexivity|exact Hp].
    + assert (Hi' : i = size d) by lia. subst i. exists (size d). unfold dpt.
      rewrite get_add_node_new, Hx. apply path_nil.
Qed.

Lemma ensure_edge_LP : forall d p c m, EdgesIn d -> EdgeStrict (ensure_edge d p c m) ->
  LP d -> p < size d -> c < size d -> LP (ensure_edge d p c m).
Proof.
  intros d p c m Hin Hes [H1 H2] Hp Hc. split; [apply ensure_edge_EdgeDepth; assumption|].
  intros i Hi. rewrite size_ensure_edge in Hi.
  destruct (H2 p Hp) as (j & Hjp).
  destruct (ensure_edge_attained d p c m j Hin Hes Hp Hc Hjp i) as [Heq|Hpath].
  - destruct (H2 i Hi) as (j' & Hp'). exists j'. rewrite Heq. apply path_ensure_edge. exact Hp'.
  - exists j. exact Hpath.
Qed.

(* a diagram below an EdgeStrict one is EdgeStrict *)
Lemma EdgeStrict_below : forall N d dF, SWF N d -> extends d dF -> EdgeStrict dF -> EdgeStrict d.
Proof.
  intros N d dF Hswf (_ & Hsp & _ & _ & He) HF e Hin.
  destruct (swf_edges N d Hswf e Hin) as (H1 & H2 & _).
  destruct (He e Hin) as (e' & Hin' & Hs & Hd & _).
  rewrite <- (Hsp _ H1), <- (Hsp _ H2), <- Hs, <- Hd. apply HF. exact Hin'.
Qed.

(* LP is preserved by the primitives, as long as the result stays below an
   EdgeStrict (hence acyclic) diagram -- which is the case inside every operation *)
Lemma LP_prim : forall N dF, EdgeStrict dF ->
  prim_closed_trap N (fun d => extends d dF -> LP d).
Proof.
  intros N dF HF. unfold prim_closed_trap. split; [|split; [|split]].
  - intros d parent motif Hswf HP Hm _ Hp Hext.
    assert (Hswf' : SWF N (fst (ensure_node N d parent motif))) by (apply ensure_node_SWF; assumption).
    pose proof (EdgeStrict_below N _ dF Hswf' Hext HF) as Hes.
    assert (HLP : LP d).
    { apply HP. eapply extends_trans; [apply ensure_node_extends|exact Hext]. }
    pose proof (SWF_EdgesIn N d Hswf) as Hin.
    assert (Hlen : length (percolate_b N motif) = nvars N) by (rewrite percolate_b_length; exact Hm).
    revert Hes. rewrite ensure_node_unfold.
    destruct (find_node d (percolate_b N motif)) as [c|] eqn:Ef; simpl; intro Hes.
    + apply (find_node_exact N d _ c Hswf Hlen) in Ef. destruct Ef as [Hc _].
      destruct parent as [p|]; simpl in *; [|exact HLP].
      apply ensure_edge_LP; try assumption. apply Hp. reflexivity.
    + assert (HLP1 : LP (add_node d (fresh_node (percolate_b N motif) parent))).
      { apply LP_add_node; [exact Hin|reflexivity|exact HLP]. }
      destruct parent as [p|]; simpl in *; [|exact HLP1].
      apply ensure_edge_LP; try assumption.
      * apply EdgesIn_add_node. exact Hin.
      * rewrite size_add_node. specialize (Hp p eq_refl). lia.
      * rewrite size_add_node. lia.
  - intros d i f Hswf HP Hi Hf Hext. apply LP_upd; [exact Hf|]. apply HP.
    eapply extends_trans; [apply upd_flag_extends; exact Hf|exact Hext].
  - intros d p c m Hswf HP Hp Hc Hm _ Hpm Hext.
    assert (Hswf' : SWF N (ensure_edge d p c m)) by (apply ensure_edge_SWF; assumption).
    apply ensure_edge_LP; try assumption.
    + apply (SWF_EdgesIn N d Hswf).
    + apply (EdgeStrict_below N _ dF Hswf' Hext HF).
    + apply HP. eapply extends_trans; [apply ensure_edge_extends|exact Hext].
  - intros d Hswf HP Hext. apply LP_reclaim. apply HP.
    eapply extends_trans; [apply reclaim_extends|exact Hext].
Qed.

(* the longest-path invariant holds for EVERY operation (skip operations included) *)
Theorem step_LP : forall fuel N cfg d o, SWF N d -> TrapNodes N d -> EdgeStrict d ->
  LP d -> LP (fst (step fuel N cfg d o)).
Proof.
  intros fuel N cfg d o Hswf Ht Hes HLP.
  pose proof (step_EdgeStrict fuel N cfg d o Hswf Ht Hes) as HF.
  apply (step_transfer_trap N (fun d0 => extends d0 (fst (step fuel N cfg d o)) -> LP d0)
           (LP_prim N _ HF) fuel cfg d o Hswf).
  - intros _. exact HLP.
  - apply extends_refl.
Qed.

(* ================================================================== *)
(* 5. Anch: what remains of Rooted after skip_remaining                *)
(* ================================================================== *)

(* skip_remaining creates its minimal-trap nodes without a parent and links only those
   that lie inside an unexpanded node; the others stay isolated.  Every node other
   than the root has an incoming edge, or it is an expanded node without out-edges
   (and being expanded it never becomes the source of an edge later on). *)
Definition Anch (d : sd) : Prop :=
  forall j, 0 < j -> j < size d ->
    (exists e, In e (sd_edges d) /\ e_dst e = j) \/
    (n_exp (get d j) = true /\ forall e, In e (sd_edges d) -> e_src e <> j).

Definition has_parent (d : sd) (p : nat) : Prop :=
  p = 0 \/ exists e, In e (sd_edges d) /\ e_dst e = p.

Lemma Rooted_Anch : forall d, Rooted d -> Anch d.
Proof. intros d H j H0 Hj. left. apply H; assumption. Qed.

Lemma Anch_same_shape : forall d d',
  size d' = size d -> sd_edges d' = sd_edges d ->
  (forall j, n_exp (get d j) = true -> n_exp (get d' j) = true) -> Anch d -> Anch d'.
Proof.
  intros d d' Hs He Hx H j H0 Hj. rewrite Hs in Hj. rewrite He.
  destruct (H j H0 Hj) as [L|[Hxj Hout]]; [left; exact L|right]. split; [apply Hx; exact Hxj|exact Hout].
Qed.

Lemma Anch_upd : forall d i f, flag_setter f -> Anch d -> Anch (upd_node d i f).
Proof.
  intros d i f Hf H. apply (Anch_same_shape d); [apply size_upd_node|reflexivity| |exact H].
  intros j Hj. apply n_exp_upd_flag_mono; assumption.
Qed.

Lemma has_parent_added : forall d d' p c m q,
  sd_edges d' = edge_added d p c m -> has_parent d q -> has_parent d' q.
Proof.
  intros d d' p c m q He [H0|(e & Hin & Hd)]; [left; exact H0|right]. rewrite He.
  destruct (edge_added_keeps d p c m e Hin) as (e' & Hin' & _ & Hd' & _).
  exists e'. split; [exact Hin'|congruence].
Qed.

Lemma Anch_added : forall d d' p c m,
  sd_edges d' = edge_added d p c m ->
  (size d' = size d \/ (c = size d /\ size d' = S (size d))) ->
  (forall j, j < size d -> n_exp (get d j) = true -> n_exp (get d' j) = true) ->
  has_parent d p -> Anch d -> Anch d'.
Proof.
  intros d d' p c m He Hsz Hx Hp Ha j H0 Hj.
  destruct (lt_dec j (size d)) as [Hlt|Hge].
  - destruct (Ha j H0 Hlt) as [(e & Hin & Hd)|[Hxj Hout]].
    + left. assert (Hpj : has_parent d j) by (right; exists e; auto).
      destruct (has_parent_added d d' p c m j He Hpj) as [Hj0|H]; [lia|exact H].
    + destruct (Nat.eq_dec j p) as [Hjp|Hjp].
      * subst j. left. destruct (has_parent_added d d' p c m p He Hp) as [Hp0|H]; [lia|exact H].
      * right. split; [apply Hx; assumption|]. intros e Hin. rewrite He in Hin.
        apply edge_added_In in Hin. destruct Hin as [Hin|[Hs _]]; [apply Hout; exact Hin|lia].
  - destruct Hsz as [Hsz|[Hc Hsz]]; [lia|]. assert (Hjc : j = c) by lia. subst j.
    left. rewrite He. destruct (edge_added_has d p c m) as (e & Hin & _ & Hd). exists e. auto.
Qed.

(* while children / edges are being added below the node p *)
Definition AJ (N : net) (p : nat) (d : sd) : Prop :=
  SWF N d /\ p < size d /\ Anch d /\ has_parent d p.

Lemma AJ_child : forall N p d m, AJ N p d -> length m = nvars N ->
  AJ N p (fst (ensure_node N d (Some p) m)).
Proof.
  intros N p d m (H1 & H2 & H3 & H4) Hm.
  destruct (ensure_child_spec N d p m H1 Hm H2) as (S1 & S2 & _ & _).
  split; [exact S1|]. split; [eapply extends_lt; eauto|]. split.
  - apply (Anch_added d _ p (snd (ensure_node N d (Some p) m)) m).
    + apply sd_edges_ensure_child.
    + destruct (size_ensure_node_cases N d (Some p) m) as [[_ Hs]|(_ & Hc & Hs)]; auto.
    + intros j Hj Hx. destruct (ensure_node_old N d (Some p) m j Hj) as (_ & Hex & _).
      rewrite Hex. exact Hx.
    + exact H4.
    + exact H3.
  - apply (has_parent_added d _ p (snd (ensure_node N d (Some p) m)) m p);
      [apply sd_edges_ensure_child|exact H4].
Qed.

Lemma AJ_upd : forall N p d i f, flag_setter f -> AJ N p d -> AJ N p (upd_node d i f).
Proof.
  intros N p d i f Hf (H1 & H2 & H3 & H4).
  split; [apply upd_flag_SWF; assumption|]. split; [rewrite size_upd_node; exact H2|].
  split; [apply Anch_upd; assumption|exact H4].
Qed.

Lemma AJ_mark : forall N p d m, AJ N p d -> length m = nvars N ->
  AJ N p (mark_expanded (fst (ensure_node N d (Some p) m)) (snd (ensure_node N d (Some p) m))).
Proof.
  intros N p d m H Hm. unfold mark_expanded. apply AJ_upd; [constructor|].
  apply AJ_child; assumption.
Qed.

Lemma AJ_edge : forall N p d c m, AJ N p d -> c < size d -> length m = nvars N ->
  percolate_b N m = n_space (get d c) -> AJ N p (ensure_edge d p c m).
Proof.
  intros N p d c m (H1 & H2 & H3 & H4) Hc Hm Hpm.
  split; [apply ensure_edge_SWF; assumption|]. split; [rewrite size_ensure_edge; exact H2|]. split.
  - apply (Anch_added d _ p c m).
    + apply sd_edges_ensure_edge.
    + left. apply size_ensure_edge.
    + intros j _ Hx. rewrite n_exp_ensure_edge. exact Hx.
    + exact H4.
    + exact H3.
  - apply (has_parent_added d _ p c m p); [apply sd_edges_ensure_edge|exact H4].
Qed.

(* an unexpanded node is the root or has a parent *)
Lemma AJ_start : forall N p d, SWF N d -> Anch d -> p < size d -> n_exp (get d p) = false ->
  AJ N p (upd_node d p clear_attr).
Proof.
  intros N p d Hswf Ha Hp Hx. apply AJ_upd; [constructor|].
  split; [exact Hswf|]. split; [exact Hp|]. split; [exact Ha|].
  destruct (Nat.eq_dec p 0) as [H0|H0]; [left; exact H0|right].
  destruct (Ha p) as [L|[Hxp _]]; [lia|exact Hp|exact L|congruence].
Qed.

Lemma AJ_close : forall N p d, AJ N p d -> SWF N (mark_expanded d p) /\ Anch (mark_expanded d p).
Proof.
  intros N p d (H1 & _ & H3 & _). unfold mark_expanded.
  split; [apply upd_flag_SWF; [constructor|exact H1]|apply Anch_upd; [constructor|exact H3]].
Qed.

Lemma AJ_close_skip : forall N p d, AJ N p d ->
  SWF N (upd_node (mark_expanded d p) p (fun y => set_skip y true)) /\
  Anch (upd_node (mark_expanded d p) p (fun y => set_skip y true)).
Proof.
  intros N p d H. destruct (AJ_close N p d H) as [H1 H2].
  split; [apply upd_flag_SWF; [constructor|exact H1]|apply Anch_upd; [constructor|exact H2]].
Qed.

Lemma expand_one_Anch : forall N cfg d i, SWF N d -> Anch d -> Anch (fst (expand_one N cfg d i)).
Proof.
  intros N cfg d i Hswf Ha. destruct (expand_one N cfg d i) as [d' r] eqn:E. simpl.
  apply expand_one_cases in E.
  destruct E as [(_ & Hd & _)|[(_ & _ & Hd & _)|[(_ & _ & _ & Hd & _)|(Hx & Ef & _ & Hd & _)]]];
    subst d'.
  - exact Ha.
  - apply Anch_upd; [constructor|]. apply Anch_upd; [constructor|exact Ha].
  - apply Anch_upd; [constructor|exact Ha].
  - pose proof (not_full_valid d i Ef) as Hi.
    assert (H1 : AJ N i (ensure_all N (upd_node d i clear_attr) i
                           (firstn (eo_k N cfg d i) (eo_all N d i)))).
    { apply (C_ensure_all N i (AJ N i) (fun m => length m = nvars N)).
      - intros d0 m H0 Hm. apply AJ_child; assumption.
      - apply AJ_start; assumption.
      - intros m Hin. apply In_firstn_in in Hin. apply (eo_all_In N d i m Hswf Hi Hin). }
    apply (AJ_close N i _ H1).
Qed.

Lemma AJ_min_children : forall N p d mins, AJ N p d ->
  (forall m, In m mins -> min_trap N m) -> AJ N p (ensure_min_children N d p mins).
Proof.
  intros N p d mins H Hmin.
  apply (C_ensure_min_children N p (AJ N p) (fun m => length m = nvars N)).
  - intros d0 m H0 Hm _. apply AJ_mark; assumption.
  - exact H.
  - intros m Hin. split; [apply min_trap_length|]; apply Hmin; exact Hin.
Qed.

Lemma make_skip_node_Anch : forall N d i all_min, SWF N d -> Anch d -> i < size d ->
  (forall m, In m all_min -> min_trap N m) ->
  SWF N (make_skip_node N d i all_min) /\ Anch (make_skip_node N d i all_min).
Proof.
  intros N d i all_min Hswf Ha Hi Hmin. unfold make_skip_node.
  destruct (n_exp (get d i)) eqn:Hx; [split; assumption|].
  apply AJ_close_skip. apply AJ_min_children.
  - apply AJ_start; assumption.
  - intros m Hin. apply filter_In in Hin. apply Hmin. apply Hin.
Qed.

Lemma skip_to_minimal_Anch : forall N d i tape, SWF N d -> Anch d -> i < size d ->
  SWF N (fst (skip_to_minimal_t N d i tape)) /\ Anch (fst (skip_to_minimal_t N d i tape)).
Proof.
  intros N d i tape Hswf Ha Hi. unfold skip_to_minimal_t.
  destruct (n_exp (get d i)) eqn:Hx; [split; assumption|].
  destruct (negb (perm_of tape (min_traps_b N (n_space (get d i))))) eqn:Ep; [split; assumption|].
  assert (Hmin : forall m, In m tape -> min_trap N m).
  { intros m Hin. eapply (tape_min_traps N (n_space (get d i)) tape); [|exact Ep|exact Hin].
    apply (swf_len N d Hswf). apply get_In. exact Hi. }
  pose proof (AJ_start N i d Hswf Ha Hi Hx) as H0.
  assert (Hcommon :
    SWF N (upd_node (mark_expanded (ensure_min_children N (upd_node d i clear_attr) i tape) i) i
                    (fun y => set_skip y true)) /\
    Anch (upd_node (mark_expanded (ensure_min_children N (upd_node d i clear_attr) i tape) i) i
                    (fun y => set_skip y true))).
  { apply AJ_close_skip. apply AJ_min_children; assumption. }
  destruct tape as [|m [|m2 r]]; simpl; try exact Hcommon.
  destruct (eqb_space m (n_space (get d i))); simpl; [|exact Hcommon].
  apply AJ_close. exact H0.
Qed.

Lemma skip_remaining_Anch : forall N d tape, SWF N d -> Anch d ->
  SWF N (fst (skip_remaining N d tape)) /\ Anch (fst (skip_remaining N d tape)).
Proof.
  intros N d tape Hswf Ha.
  apply (S_skip_remaining N (fun d0 => SWF N d0 /\ Anch d0)).
  - intros d0 [H _]. exact H.
  - intros d0 m [H1 H2] Hmt. pose proof (min_trap_length N m Hmt) as Hm.
    destruct (ensure_root_spec N d0 m H1 Hm) as (S1 & S2 & S3 & _).
    unfold mark_expanded. split; [apply upd_flag_SWF; [constructor|exact S1]|].
    intros j H0 Hj. rewrite size_upd_node in Hj. rewrite sd_edges_upd_node, sd_edges_ensure_root.
    destruct (lt_dec j (size d0)) as [Hlt|Hge].
    + destruct (H2 j H0 Hlt) as [L|[Hxj Hout]]; [left; exact L|right]. split; [|exact Hout].
      apply n_exp_upd_flag_mono; [constructor|].
      destruct S2 as (_ & _ & S2 & _). apply S2; assumption.
    + right. split.
      * destruct (size_ensure_node_cases N d0 None m) as [[_ Hs]|(_ & Hc & Hs)]; [lia|].
        assert (Hjc : j = snd (ensure_node N d0 None m)) by lia. rewrite <- Hjc.
        rewrite get_upd_node_eq by exact Hj. reflexivity.
      * intros e Hin. destruct (swf_edges N d0 H1 e Hin) as (Hs & _). lia.
  - intros d0 i traps [H1 H2] Hi Hx Hok Hex.
    apply AJ_close_skip.
    apply (C_skip_edges N i (AJ N i)).
    + intros d1 c m H0 Hc Hm Hpm _ _. apply AJ_edge; assumption.
    + apply AJ_start; assumption.
    + eapply traps_ok_extends; [|exact Hok]. apply upd_flag_extends. constructor.
    + eapply traps_exp_extends; [|exact Hok|exact Hex]. apply upd_flag_extends. constructor.
  - split; assumption.
Qed.

Theorem init_Anch : forall N, Anch (init N).
Proof. intro N. apply Rooted_Anch. apply init_Rooted. Qed.

(* Anch is preserved by EVERY operation *)
Theorem step_Anch : forall fuel N cfg d o, SWF N d -> Anch d -> Anch (fst (step fuel N cfg d o)).
Proof.
  intros fuel N cfg d o Hswf Ha.
  assert (H : SWF N (fst (step fuel N cfg d o)) /\ Anch (fst (step fuel N cfg d o))).
  { apply (B_step N cfg (fun d0 => SWF N d0 /\ Anch d0)).
    - intros d0 [H _]. exact H.
    - intros d0 i [H1 H2]. split; [|apply expand_one_Anch; assumption].
      apply (expand_one_transfer N (SWF N) (prim_closed_SWF N)); exact H1.
    - intros d0 i f [H1 H2] _ Hf. apply cache_setter_flag in Hf.
      split; [apply upd_flag_SWF; assumption|apply Anch_upd; assumption].
    - intros d0 [H1 H2]. split; [apply reclaim_SWF; exact H1|].
      apply (Anch_same_shape d0); [apply size_reclaim|reflexivity| |exact H2].
      intros j Hj. rewrite get_reclaim. destruct (n_seeds (get d0 j)); exact Hj.
    - right. split; [|split].
      + intros tape S HS Hp _ d0 x s remaining [H1 H2] Hx He _ _.
        apply make_skip_node_Anch; try assumption.
        * apply (has_edge_valid N d0 x s H1 He).
        * intros m Hin. eapply (tape_min_traps N S tape); eauto.
      + intros d0 i tape [H1 H2] Hi. apply skip_to_minimal_Anch; assumption.
      + intros d0 tape [H1 H2]. apply skip_remaining_Anch; assumption.
    - split; assumption. }
  exact (proj2 H).
Qed.

(* ================================================================== *)
(* 6. DepthOK                                                          *)
(* ================================================================== *)

Lemma path_S_inv : forall d j i n, path d j i (S n) ->
  exists e, In e (sd_edges d) /\ e_src e = j /\ path d (e_dst e) i n.
Proof.
  intros d j i n Hp. inversion Hp as [|i0 j0 k0 len e He Hs Hd Hp' E1 E2 E3]. subst.
  exists e. auto.
Qed.

Lemma DepthOK_LP : forall d, DepthOK d -> EdgeDepth d -> LP d.
Proof.
  intros d H Hed. split; [exact Hed|]. intros i Hi. destruct (H i Hi) as [_ [H0|Hp]].
  - exists i. unfold dpt. rewrite H0. apply path_nil.
  - exists 0. exact Hp.
Qed.

(* with Anch a longest path into a node of positive depth starts at the root *)
Lemma LP_Anch_DepthOK : forall d, EdgesIn d -> Anch d -> LP d -> DepthOK d.
Proof.
  intros d Hin Ha [Hed Hat] i Hi. split.
  - intros len Hp. pose proof (EdgeDepth_path d 0 i len Hed Hp) as H. unfold dpt in H. lia.
  - destruct (Hat i Hi) as (j & Hp). unfold dpt in Hp.
    destruct (n_depth (get d i)) as [|n] eqn:En; [left; reflexivity|right].
    destruct (path_S_inv d j i n Hp) as (e & He & Hs & Hp').
    destruct (Nat.eq_dec j 0) as [H0|H0]; [rewrite <- H0; exact Hp|exfalso].
    assert (Hj : j < size d) by (rewrite <- Hs; apply (Hin e He)).
    destruct (Ha j) as [(e' & He' & Hd')|[_ Hout]]; [lia|exact Hj| |].
    + pose proof (path_cons d (e_src e') j i (S n) e' He' eq_refl Hd' Hp) as Hp2.
      pose proof (EdgeDepth_path d _ _ _ Hed Hp2) as H. unfold dpt in H. lia.
    + apply (Hout e He). exact Hs.
Qed.

(* _ensure_edge: the parent must be anchored (the root, or of positive depth, hence by
   DepthOK on a longest path from the root); see ensure_edge_DepthOK_needs_anchor *)
Theorem ensure_edge_DepthOK : forall N d p c m, SWF N d -> EdgeStrict (ensure_edge d p c m) ->
  DepthOK d -> EdgeDepth d -> p < size d -> c < size d -> p <> c ->
  (p = 0 \/ 0 < n_depth (get d p)) ->
  DepthOK (ensure_edge d p c m) /\ EdgeDepth (ensure_edge d p c m).
Proof.
  intros N d p c m Hswf Hes HD Hed Hp Hc _ Hanch.
  pose proof (SWF_EdgesIn N d Hswf) as Hin.
  pose proof (ensure_edge_EdgeDepth d p c m Hin Hes Hed Hp Hc) as Hed'.
  assert (Hjp : path d 0 p (dpt d p)).
  { unfold dpt. destruct (HD p Hp) as [_ [H0|Hpath]]; [|exact Hpath].
    destruct Hanch as [Hp0|Hpos]; [|lia]. subst p. rewrite H0. apply path_nil. }
  split; [|exact Hed']. intros i Hi. rewrite size_ensure_edge in Hi. split.
  - intros len Hpl. pose proof (EdgeDepth_path _ 0 i len Hed' Hpl) as H. unfold dpt in H. lia.
  - destruct (ensure_edge_attained d p c m 0 Hin Hes Hp Hc Hjp i) as [Heq|Hpath].
    + unfold dpt in Heq. rewrite Heq. destruct (HD i Hi) as [_ [H0|Hpi]]; [left; exact H0|right].
      apply path_ensure_edge. exact Hpi.
    + right. exact Hpath.
Qed.

(* the extra hypothesis of ensure_edge_DepthOK cannot be dropped: an edge from a
   parentless node of depth 0 gives its target depth 1 without a path from the root *)
Definition cx_N : net := [fun s => nth 0 s false; fun s => nth 1 s false].
Definition cx_node (X : space) (dp : nat) : node :=
  {| n_space := X; n_depth := dp; n_exp := false; n_skip := false; n_parent := None;
     n_cands := None; n_seeds := None; n_sets := None |}.
Definition cx_m : space := [Some true; Some true].
Definition cx_d : sd :=
  {| sd_nodes := [cx_node [None; None] 0; cx_node [Some true; None] 0; cx_node cx_m 0];
     sd_edges := [] |}.
Definition cx_d' : sd :=
  {| sd_nodes := [cx_node [None; None] 0; cx_node [Some true; None] 0; cx_node cx_m 1];
     sd_edges := [{| e_src := 1; e_dst := 2; e_motifs := [cx_m] |}] |}.

Lemma ensure_edge_DepthOK_needs_anchor :
  SWF cx_N cx_d /\ EdgeStrict (ensure_edge cx_d 1 2 cx_m) /\ DepthOK cx_d /\ EdgeDepth cx_d /\
  1 < size cx_d /\ 2 < size cx_d /\ 1 <> 2 /\ ~ DepthOK (ensure_edge cx_d 1 2 cx_m).
Proof.
  assert (E : ensure_edge cx_d 1 2 cx_m = cx_d') by (vm_compute; reflexivity).
  rewrite E. split; [|split; [|split; [|split; [|split; [|split; [|split]]]]]].
  - constructor.
    + unfold size. simpl. lia.
    + intros x [H|[H|[H|[]]]]; subst x; reflexivity.
    + unfold spaces. simpl. constructor; [intros [H|[H|[]]]; discriminate H|].
      constructor; [intros [H|[]]; discriminate H|]. constructor; [intros []|constructor].
    + intros e [].
    + constructor.
    + intros x [H|[H|[H|[]]]]; subst x; vm_compute; reflexivity.
    + intros e m [].
  - intros e [He|[]]. subst e. split; [reflexivity|discriminate].
  - intros i Hi. split.
    + intros len Hp. destruct len as [|n]; [lia|].
      destruct (path_S_inv _ _ _ _ Hp) as (e & [] & _).
    + left. unfold size in Hi. simpl in Hi.
      destruct i as [|[|[|i]]]; [reflexivity|reflexivity|reflexivity|lia].
  - intros e [].
  - unfold size. simpl. lia.
  - unfold size. simpl. lia.
  - discriminate.
  - intro H. assert (H2 : 2 < size cx_d') by (unfold size; simpl; lia).
    destruct (H 2 H2) as [_ [H0|Hp]]; [discriminate H0|].
    change (n_depth (get cx_d' 2)) with 1 in Hp.
    destruct (path_S_inv _ _ _ _ Hp) as (e & [He|[]] & Hs & _). subst e. discriminate Hs.
Qed.

(* ---------- init / step / run ---------- *)
Lemma init_shape : forall N,
  sd_edges (init N) = [] /\ size (init N) = 1 /\ n_depth (get (init N) 0) = 0.
Proof.
  intro N. unfold init. rewrite ensure_node_unfold. unfold find_node, find_key. simpl. auto.
Qed.

Theorem init_EdgeDepth : forall N, EdgeDepth (init N).
Proof. intros N e Hin. rewrite (proj1 (init_shape N)) in Hin. destruct Hin. Qed.

Theorem init_DepthOK : forall N, DepthOK (init N).
Proof.
  intros N i Hi. destruct (init_shape N) as (He & Hs & H0). rewrite Hs in Hi.
  assert (Hi0 : i = 0) by lia. subst i. split; [|left; exact H0].
  intros len Hp. destruct len as [|n]; [lia|].
  destruct (path_S_inv _ _ _ _ Hp) as (e & Hin & _). rewrite He in Hin. destruct Hin.
Qed.

(* every operation, skip operations included: Anch replaces Rooted *)
Theorem step_DepthOK_all : forall fuel N cfg d o, SWF N d -> TrapNodes N d -> EdgeStrict d ->
  Anch d -> DepthOK d /\ EdgeDepth d ->
  let d' := fst (step fuel N cfg d o) in Anch d' /\ DepthOK d' /\ EdgeDepth d'.
Proof.
  intros fuel N cfg d o Hswf Ht Hes Ha [HD Hed]. cbv zeta.
  pose proof (step_Anch fuel N cfg d o Hswf Ha) as Ha'.
  pose proof (step_LP fuel N cfg d o Hswf Ht Hes (DepthOK_LP d HD Hed)) as HLP'.
  pose proof (step_SWF fuel N cfg d o Hswf) as Hswf'.
  split; [exact Ha'|]. split; [|exact (proj1 HLP')].
  apply LP_Anch_DepthOK; [apply (SWF_EdgesIn N _ Hswf')|exact Ha'|exact HLP'].
Qed.

Theorem step_DepthOK : forall fuel N cfg d o, SWF N d -> TrapNodes N d -> EdgeStrict d -> Rooted d -> plain o ->
  DepthOK d /\ EdgeDepth d -> let d' := fst (step fuel N cfg d o) in DepthOK d' /\ EdgeDepth d'.
Proof.
  intros fuel N cfg d o Hswf Ht Hes Hr _ H.
  apply (step_DepthOK_all fuel N cfg d o Hswf Ht Hes (Rooted_Anch d Hr) H).
Qed.

Definition DInv (N : net) (d : sd) : Prop :=
  SWF N d /\ TrapNodes N d /\ EdgeStrict d /\ Anch d /\ DepthOK d /\ EdgeDepth d.

Lemma init_DInv : forall N, DInv N (init N).
Proof.
  intro N. split; [apply init_SWF|]. split; [apply init_TrapNodes|]. split; [apply init_EdgeStrict|].
  split; [apply init_Anch|]. split; [apply init_DepthOK|apply init_EdgeDepth].
Qed.

Lemma step_DInv : forall fuel N cfg d o, DInv N d -> DInv N (fst (step fuel N cfg d o)).
Proof.
  intros fuel N cfg d o (H1 & H2 & H3 & H4 & H5 & H6).
  destruct (step_DepthOK_all fuel N cfg d o H1 H2 H3 H4 (conj H5 H6)) as (A1 & A2 & A3).
  split; [apply step_SWF; exact H1|]. split; [apply step_TrapNodes; assumption|].
  split; [apply step_EdgeStrict; assumption|]. auto.
Qed.

Lemma run_DInv_from : forall fuel N cfg h d0 d r,
  DInv N d0 -> In (d, r) (run fuel N cfg d0 h) -> DInv N d.
Proof.
  intros fuel N cfg h. induction h as [|o h IH]; intros d0 d r H0 Hin; simpl in Hin;
    [contradiction|].
  pose proof (step_DInv fuel N cfg d0 o H0) as H1.
  destruct (step fuel N cfg d0 o) as [d1 x]. simpl in H1.
  destruct Hin as [Heq|Hin].
  - injection Heq as Hd Hr. subst d. exact H1.
  - eapply IH; [exact H1|exact Hin].
Qed.

(* DepthOK holds after every history, whatever operations it contains *)
Theorem run_DepthOK_all : forall fuel N cfg h d r,
  In (d, r) (run fuel N cfg (init N) h) -> DepthOK d /\ EdgeDepth d /\ Anch d.
Proof.
  intros fuel N cfg h d r Hin.
  destruct (run_DInv_from fuel N cfg h (init N) d r (init_DInv N) Hin) as (_ & _ & _ & A & B & C).
  auto.
Qed.

Theorem run_DepthOK : forall fuel N cfg h d r, 1 <= max_motifs cfg -> Forall plain h ->
  In (d, r) (run fuel N cfg (init N) h) -> DepthOK d.
Proof.
  intros fuel N cfg h d r _ _ Hin. apply (run_DepthOK_all fuel N cfg h d r Hin).
Qed.

(* ---------- the depth query ---------- *)
Lemma fold_max_ge : forall l x, In x l -> x <= fold_right Nat.max 0 l.
Proof.
  induction l as [|a l IH]; intros x Hin; simpl; [contradiction|].
  destruct Hin as [Heq|Hin]; [subst; lia|]. specialize (IH x Hin). lia.
Qed.

Lemma fold_max_In : forall l, l <> [] -> In (fold_right Nat.max 0 l) l.
Proof.
  induction l as [|a l IH]; intro Hne; [congruence|]. simpl.
  destruct l as [|b l]; [left; simpl; lia|].
  assert (Hne' : b :: l <> []) by discriminate. specialize (IH Hne').
  destruct (Nat.max_spec a (fold_right Nat.max 0 (b :: l))) as [[_ Hm]|[_ Hm]]; rewrite Hm.
  - right. exact IH.
  - left. reflexivity.
Qed.

Theorem depth_is_max : forall d i, i < size d -> n_depth (get d i) <= depth d.
Proof.
  intros d i Hi. unfold depth. apply fold_max_ge. apply in_map. apply get_In. exact Hi.
Qed.

Theorem depth_attained : forall d, 0 < size d -> exists i, i < size d /\ n_depth (get d i) = depth d.
Proof.
  intros d Hs. unfold depth.
  assert (Hne : map n_depth (sd_nodes d) <> []).
  { unfold size in Hs. destruct (sd_nodes d); [simpl in Hs; lia|discriminate]. }
  pose proof (fold_max_In _ Hne) as Hin. apply in_map_iff in Hin.
  destruct Hin as (x & Hx & Hin). apply In_nodes_iff in Hin. destruct Hin as (i & Hi & Hg).
  exists i. split; [exact Hi|]. rewrite Hg. exact Hx.
Qed.

(* in a reachable diagram the depth query is the length of the longest path from the root *)
Corollary depth_longest_path : forall fuel N cfg h d r,
  In (d, r) (run fuel N cfg (init N) h) ->
  (forall i len, i < size d -> path d 0 i len -> len <= depth d) /\
  (depth d = 0 \/ exists i, i < size d /\ path d 0 i (depth d)).
Proof.
  intros fuel N cfg h d r Hin.
  destruct (run_DInv_from fuel N cfg h (init N) d r (init_DInv N) Hin) as (Hswf & _ & _ & _ & HD & _).
  split.
  - intros i len Hi Hp. pose proof (proj1 (HD i Hi) len Hp). pose proof (depth_is_max d i Hi). lia.
  - destruct (depth_attained d (swf_size N d Hswf)) as (i & Hi & Heq).
    destruct (proj2 (HD i Hi)) as [H0|Hp]; [left; lia|right].
    exists i. split; [exact Hi|]. rewrite <- Heq. exact Hp.
Qed.

Print Assumptions run_DepthOK.
Print Assumptions step_DepthOK.
Print Assumptions run_DepthOK_all.
Print Assumptions raise_depth_spec.
