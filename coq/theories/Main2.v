(* Main2.v -- end-to-end corollaries, second part (short proofs only).
   node_seeds_exact: the whole attractor search of one node -- NFVS, retained set, candidate pipeline with every
   option and limit, then the candidate filter run with the interleaved reachability procedure of
   symbolic_attractor_test under any heuristic tape -- returns exactly one seed per attractor of the node, and the
   sets are those attractors. *)
From Coq Require Import List Bool Arith Lia.
Import ListNotations.
From BB Require Import BN Brute SpaceFacts TrapFacts AttractorFacts Checks Filter FilterFacts Candidates CandidatesFacts
  Signed ReductionFacts Main SymbolicTest SymbolicTestFacts FilterSym.

Theorem node_seeds_exact :
  forall fuel N S avoid nfvs Rinit cfg greedy simulation tape stp res log sfuel stapes seeds sets,
  trap_space N S -> (forall a, In a avoid -> trap_space N a /\ subspace a S = true) ->
  NoDup nfvs -> (forall v, In v nfvs -> v < nvars N) ->
  retained_total nfvs Rinit -> no_neg_walk N S nfvs ->
  (is_full S = false -> nfvs = [] -> avoid <> [] -> fixed_points_avoided N S avoid) ->
  compute_candidates fuel N S avoid nfvs Rinit cfg greedy simulation tape stp = (COk res, log) ->
  tape_ok N S avoid log tape -> walks_ok fuel N S avoid nfvs Rinit cfg greedy tape stp -> NoDup res ->
  compute_attractors_sym sfuel N S false avoid res stapes = Some (seeds, Some sets) ->
  one_to_one N S avoid seeds /\ length sets = length seeds /\
  (forall i s X, nth_error seeds i = Some s -> nth_error sets i = Some X -> forall t, In t X <-> reach N s t).
Proof.
  intros fuel N S avoid nfvs Rinit cfg greedy simulation tape stp res log sfuel stapes seeds sets
         HS Hav Hnd Hlt HRi Hnw Hfp H HL Hw Hndr Hf.
  assert (Hav' : forall a, In a avoid -> trap_space N a) by (intros a Ha; apply (Hav a Ha)).
  destruct (candidates_cover_nfvs _ _ _ _ _ _ _ _ _ _ _ _ _ HS Hav' Hnd Hlt HRi Hnw Hfp H HL Hw) as [Hin Hcov].
  exact (compute_attractors_sym_exact sfuel N S avoid res stapes seeds sets HS Hav Hndr Hin Hcov Hf).
Qed.

Print Assumptions node_seeds_exact.
