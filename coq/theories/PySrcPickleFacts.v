(* PySrcPickleFacts.v -- the pickle round trip of a SuccessionDiagram as written in the current source (PySrcPickle.v, generated):
   __setstate__ applied to what __getstate__ returned rebuilds the object attribute by attribute, whatever object it is applied to,
   given the two engine-level facts it relies on: the AEON text round trip of the (already cleaned) network, and that
   `symbolic` is the AsynchronousGraph of `network` (established by __init__).  In particular the configuration, the graph,
   the node index and the Petri net come back unchanged: the model's OPickle = identity. *)
From Coq Require Import List String.
Import ListNotations.
Open Scope string_scope.
From BB Require Import PyLib PyLibPickle PySrcPickle.

Section Facts.
Variable V : Type.
Variables to_aeon from_aeon cleanup_network async_graph : V -> V.

Theorem py_pickle_round_trip : forall (o blank : pobj V),
  cleanup_network (from_aeon (to_aeon (o_network o))) = o_network o ->
  o_symbolic o = async_graph (o_network o) ->
  py_setstate V from_aeon cleanup_network async_graph blank (py_getstate V to_aeon o) = Some o.
Proof.
  intros o blank Hnet Hsym. unfold py_setstate, py_getstate. cbn. rewrite Hnet. cbn.
  destruct o; cbn in *. rewrite Hsym. reflexivity.
Qed.

(* every attribute that is not derived from the network is copied verbatim, independently of any assumption *)
Theorem py_pickle_keeps_config : forall (o blank o' : pobj V),
  py_setstate V from_aeon cleanup_network async_graph blank (py_getstate V to_aeon o) = Some o' ->
  o_config o' = o_config o /\ o_dag o' = o_dag o /\ o_node_indices o' = o_node_indices o /\
  o_petri_net o' = o_petri_net o /\ o_nfvs o' = o_nfvs o.
Proof.
  intros o blank o' H. unfold py_setstate, py_getstate in H. cbn in H. inversion H; subst; clear H. cbn. repeat split.
Qed.
End Facts.

Print Assumptions py_pickle_round_trip.
Print Assumptions py_pickle_keeps_config.
