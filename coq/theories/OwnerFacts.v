(* OwnerFacts.v -- in a fully expanded succession diagram every attractor of the
   network has exactly one owner node (a node whose space contains the attractor
   while none of the motifs of its out-edges does).  Consequently node-wise
   one-to-one seed lists are globally one-to-one with the attractors. *)
From Coq Require Import List Bool Arith NArith Lia Permutation.
Import ListNotations.
From BB Require Import BN Brute SpaceFacts TrapFacts PercolateFacts AttractorFacts Filter FilterFacts Diagram Invariants DiagramStruct DiagramSem1 DiagramComplete DiagramDepth.

Definition inside (A : state -> Prop) (X : space) : Prop := forall s, A s -> in_space s X = true.

Definition owns (N : net) (d : sd) (i : nat) (A : state -> Prop) : Prop :=
  i < size d /\ node_attr N (n_space (get d i)) (out_motifs d i) A.

(* ====================================================================== *)
(* PART A -- generalities on "inside"                                      *)
(* ====================================================================== *)

Lemma inside_sub : forall (A : state -> Prop) X Y,
  inside A X -> subspace X Y = true -> inside A Y.
Proof.
  intros A X Y Hin Hsub s Hs.
  apply (proj1 (subspace_spec X Y (subspace_length X Y Hsub)) Hsub). apply Hin. exact Hs.
Qed.

Lemma in_space_top : forall s, in_space s (top_space (length s)) = true.
Proof.
  intro s. apply in_space_nth.
  - unfold top_space. rewrite repeat_length. reflexivity.
  - intros i v Hnth. rewrite nth_top_space in Hnth. discriminate Hnth.
Qed.

(* an attractor is represented by the (finite) reachable set of any of its states *)
Lemma attractor_as_list : forall N A s0, attractor N A -> A s0 ->
  forall t, A t <-> In t (reach_list N s0).
Proof.
  intros N A s0 Hatt Hs0 t.
  assert (Hwf : wf_state N s0) by (destruct Hatt as (_ & Hw & _); apply Hw; exact Hs0).
  rewrite (attractor_is_class N A s0 Hatt Hs0 t).
  symmetry. apply A_reach_list_spec. exact Hwf.
Qed.

(* "A is inside m" is decided on the list representation *)
Lemma inside_b_iff : forall N A s0 m, attractor N A -> A s0 ->
  (inside A m <-> inside_b (reach_list N s0) m = true).
Proof.
  intros N A s0 m Hatt Hs0. rewrite F_inside_b_spec. unfold inside. split.
  - intros Hin s Hs. apply Hin. apply (attractor_as_list N A s0 Hatt Hs0). exact Hs.
  - intros Hin s Hs. apply Hin. apply (attractor_as_list N A s0 Hatt Hs0). exact Hs.
Qed.

(* ====================================================================== *)
(* PART B -- attractors travel down the diagram                            *)
(* ====================================================================== *)

Lemma attractor_in_root : forall N d A, Hierarchy N d -> attractor N A ->
  inside A (n_space (get d 0)).
Proof.
  intros N d A Hh Hatt. destruct Hh as (_ & _ & _ & _ & _ & Hroot). rewrite Hroot.
  unfold inside. apply (attractor_in_percolation N A (top_space (nvars N)) Hatt).
  - apply trap_space_top.
  - intros s Hs. destruct Hatt as (_ & Hwf & _). pose proof (Hwf s Hs) as Hl.
    unfold wf_state in Hl. rewrite <- Hl. apply in_space_top.
Qed.

(* every motif of an out-edge of i is one of the maximal trap spaces of node i *)
Lemma edge_motif_max : forall N d e m, Hierarchy N d -> In e (sd_edges d) -> In m (e_motifs e) ->
  e_src e < size d /\ e_dst e < size d /\
  In m (out_motifs d (e_src e)) /\
  In m (max_traps_b N (n_space (get d (e_src e))) (node_srcs N (e_src e))) /\
  percolate_b N m = n_space (get d (e_dst e)).
Proof.
  intros N d e m Hh He Hm. pose proof Hh as (Hswf & _).
  destruct (swf_edges N d Hswf e He) as (Hsrc & Hdst & _).
  assert (Hout : In m (out_motifs d (e_src e))).
  { unfold out_motifs. apply in_flat_map. exists e. split; [|exact Hm].
    unfold out_edges. apply filter_In. split; [exact He|apply Nat.eqb_refl]. }
  split; [exact Hsrc|]. split; [exact Hdst|]. split; [exact Hout|]. split.
  - pose proof (hierarchy_canonical N d (e_src e) Hh Hsrc) as Hcan. unfold canonical in Hcan.
    eapply Permutation_in; [exact Hcan|exact Hout].
  - apply (swf_motif N d Hswf e m He Hm).
Qed.

Lemma inside_motif_inside_child : forall N d e m A, Hierarchy N d -> In e (sd_edges d) ->
  In m (e_motifs e) -> attractor N A -> inside A m -> inside A (n_space (get d (e_dst e))).
Proof.
  intros N d e m A Hh He Hm Hatt Hin.
  destruct (edge_motif_max N d e m Hh He Hm) as (Hsrc & _ & _ & Hmax & Hperc).
  pose proof (hierarchy_space_len N d (e_src e) Hh Hsrc) as HlS.
  destruct (max_traps_b_trap N _ _ m HlS Hmax) as [Htrap _].
  rewrite <- Hperc. unfold inside.
  apply (attractor_in_percolation N A m Hatt Htrap). exact Hin.
Qed.

(* an edge leads to a strictly smaller space *)
Lemma hierarchy_edge_strict : forall N d e, Hierarchy N d -> In e (sd_edges d) ->
  strict_subspace (n_space (get d (e_dst e))) (n_space (get d (e_src e))).
Proof.
  intros N d e Hh He. pose proof Hh as (Hswf & _).
  destruct (swf_edges N d Hswf e He) as (_ & _ & Hne).
  destruct (e_motifs e) as [|m r] eqn:Em; [exfalso; apply Hne; reflexivity|].
  assert (Hm : In m (e_motifs e)) by (rewrite Em; left; reflexivity).
  destruct (edge_motif_max N d e m Hh He Hm) as (Hsrc & _ & _ & Hmax & Hperc).
  pose proof (hierarchy_space_len N d (e_src e) Hh Hsrc) as HlS.
  destruct (max_traps_b_trap N _ _ m HlS Hmax) as [_ Hstrict].
  assert (HlM : length m = nvars N)
    by (rewrite (max_traps_b_length N _ _ m Hmax); exact HlS).
  rewrite <- Hperc. apply strict_percolate; assumption.
Qed.

Theorem hierarchy_EdgeStrict : forall N d, Hierarchy N d -> EdgeStrict d.
Proof. intros N d Hh e He. apply (hierarchy_edge_strict N d e Hh He). Qed.

(* ====================================================================== *)
(* PART C -- existence of an owner                                         *)
(* ====================================================================== *)

Lemma owner_step : forall N d A i, Hierarchy N d -> attractor N A -> i < size d ->
  inside A (n_space (get d i)) ->
  owns N d i A \/
  exists j, j < size d /\ inside A (n_space (get d j)) /\
            nfixed (n_space (get d i)) < nfixed (n_space (get d j)).
Proof.
  intros N d A i Hh Hatt Hi Hin.
  pose proof Hatt as ((s0 & Hs0) & _).
  destruct (existsb (inside_b (reach_list N s0)) (out_motifs d i)) eqn:Ex.
  - right. apply existsb_exists in Ex. destruct Ex as (m & Hm & Hb).
    apply (inside_b_iff N A s0 m Hatt Hs0) in Hb.
    unfold out_motifs in Hm. apply in_flat_map in Hm. destruct Hm as (e & He & Hme).
    unfold out_edges in He. apply filter_In in He. destruct He as [He Hsrc].
    apply Nat.eqb_eq in Hsrc.
    destruct (edge_motif_max N d e m Hh He Hme) as (_ & Hdst & _).
    exists (e_dst e). split; [exact Hdst|]. split.
    + apply (inside_motif_inside_child N d e m A Hh He Hme Hatt Hb).
    + rewrite <- Hsrc. apply strict_subspace_nfixed. apply (hierarchy_edge_strict N d e Hh He).
  - left. split; [exact Hi|]. split; [exact Hatt|]. split; [exact Hin|].
    intros (M & HM & HinM). apply F_existsb_false in Ex. apply Ex.
    exists M. split; [exact HM|]. apply (inside_b_iff N A s0 M Hatt Hs0). exact HinM.
Qed.

Lemma owner_descend : forall N d A, Hierarchy N d -> attractor N A ->
  forall k i, i < size d -> inside A (n_space (get d i)) ->
    nvars N <= nfixed (n_space (get d i)) + k -> exists j, owns N d j A.
Proof.
  intros N d A Hh Hatt. induction k as [|k IH]; intros i Hi Hin Hk.
  - destruct (owner_step N d A i Hh Hatt Hi Hin) as [Hown|(j & Hj & _ & Hlt)].
    + exists i. exact Hown.
    + exfalso. pose proof (nfixed_le_length (n_space (get d j))) as Hle.
      rewrite (hierarchy_space_len N d j Hh Hj) in Hle. lia.
  - destruct (owner_step N d A i Hh Hatt Hi Hin) as [Hown|(j & Hj & Hinj & Hlt)].
    + exists i. exact Hown.
    + apply (IH j Hj Hinj). lia.
Qed.

Theorem owner_exists : forall N d A, Hierarchy N d -> attractor N A -> exists i, owns N d i A.
Proof.
  intros N d A Hh Hatt.
  assert (H0 : 0 < size d) by (destruct Hh as (Hswf & _); apply (swf_size N d Hswf)).
  apply (owner_descend N d A Hh Hatt (nvars N) 0 H0); [|lia].
  apply (attractor_in_root N d A Hh Hatt).
Qed.

(* ====================================================================== *)
(* PART D -- source variables on an attractor, and fixing them in a space  *)
(* ====================================================================== *)

Lemma in_sources_b : forall N k, In k (sources_b N) <-> k < nvars N /\ is_source_b N k = true.
Proof.
  intros N k. unfold sources_b. rewrite filter_In, in_seq. split.
  - intros [Hr Hs]. split; [lia|exact Hs].
  - intros [Hr Hs]. split; [lia|exact Hs].
Qed.

(* a source variable never changes along a trajectory *)
Lemma source_step : forall N k s t, is_source_b N k = true -> wf_state N s -> trans N s t ->
  nth k t false = nth k s false.
Proof.
  intros N k s t Hsrc Hwf (j & Hj & Ht & _). subst t. unfold step_i.
  destruct (Nat.eq_dec j k) as [Heq|Hne].
  - subst j. rewrite (proj1 (is_source_b_spec N k) Hsrc s Hwf).
    rewrite set_nth_same; [reflexivity|]. unfold wf_state in Hwf. lia.
  - apply nth_set_nth_neq. exact Hne.
Qed.

Lemma source_reach : forall N k s t, is_source_b N k = true -> reach N s t -> wf_state N s ->
  nth k t false = nth k s false.
Proof.
  intros N k s t Hsrc Hr. unfold reach in Hr.
  induction Hr as [x y Hxy|x|x y z Hxy IHxy Hyz IHyz]; intro Hwf.
  - apply (source_step N k x y Hsrc Hwf Hxy).
  - reflexivity.
  - rewrite IHyz; [apply IHxy; exact Hwf|]. apply (reach_wf N x y Hwf Hxy).
Qed.

Lemma source_const_on_attractor : forall N A k s t, attractor N A -> is_source_b N k = true ->
  A s -> A t -> nth k t false = nth k s false.
Proof.
  intros N A k s t Hatt Hsrc Hs Ht. destruct Hatt as (_ & Hwf & _ & Hreach).
  apply (source_reach N k s t Hsrc (Hreach s t Hs Ht)). apply Hwf. exact Hs.
Qed.

(* fix the variables in vs to the value they have in the state s *)
Definition fix_vars (s : state) (vs : list nat) (T : space) : space :=
  fold_right (fun v acc => set_nth v (Some (nth v s false)) acc) T vs.

Lemma fix_vars_length : forall s vs T, length (fix_vars s vs T) = length T.
Proof.
  intros s vs T. induction vs as [|v r IH]; simpl; [reflexivity|].
  rewrite set_nth_length. exact IH.
Qed.

Lemma fix_vars_nth_in : forall s vs T k, In k vs -> k < length T ->
  nth k (fix_vars s vs T) None = Some (nth k s false).
Proof.
  intros s vs T k. induction vs as [|v r IH]; intros Hin Hk; [destruct Hin|].
  simpl. destruct (Nat.eq_dec v k) as [Heq|Hne].
  - subst v. apply nth_set_nth_eq. rewrite fix_vars_length. exact Hk.
  - rewrite nth_set_nth_neq by exact Hne. apply IH; [|exact Hk].
    destruct Hin as [Hin|Hin]; [exfalso; apply Hne; exact Hin|exact Hin].
Qed.

Lemma fix_vars_nth_out : forall s vs T k, ~ In k vs ->
  nth k (fix_vars s vs T) None = nth k T None.
Proof.
  intros s vs T k. induction vs as [|v r IH]; intros Hnin; [reflexivity|].
  simpl. rewrite nth_set_nth_neq.
  - apply IH. intro Hin. apply Hnin. right. exact Hin.
  - intro Heq. apply Hnin. left. exact Heq.
Qed.

Lemma fix_vars_subspace : forall s vs T, in_space s T = true ->
  subspace (fix_vars s vs T) T = true.
Proof.
  intros s vs T Hin. apply subspace_nth; [apply fix_vars_length|].
  intros k v Hk. destruct (in_dec Nat.eq_dec k vs) as [Hkin|Hkout].
  - rewrite (fix_vars_nth_in s vs T k Hkin (nth_some_lt T k v Hk)). f_equal.
    apply (proj1 (in_space_nth s T (in_space_length s T Hin)) Hin k v Hk).
  - rewrite (fix_vars_nth_out s vs T k Hkout). exact Hk.
Qed.

Lemma fix_vars_fixes : forall s vs T, (forall k, In k vs -> k < length T) ->
  fixes_all (fix_vars s vs T) vs = true.
Proof.
  intros s vs T Hlt. unfold fixes_all. apply forallb_forall. intros k Hk.
  rewrite (fix_vars_nth_in s vs T k Hk (Hlt k Hk)). reflexivity.
Qed.

(* fixing source variables keeps a trap space a trap space *)
Lemma fix_sources_trap : forall N s T, trap_space N T -> in_space s T = true ->
  trap_space N (fix_vars s (sources_b N) T).
Proof.
  intros N s T Htrap Hin. pose proof (trap_space_length N T Htrap) as HlT.
  assert (HlF : length (fix_vars s (sources_b N) T) = nvars N)
    by (rewrite fix_vars_length; exact HlT).
  apply trap_space_char; [exact HlF|]. intros k v Hk.
  destruct (is_source_b N k) eqn:Esrc.
  - intros t Hwf Ht. rewrite (proj1 (is_source_b_spec N k) Esrc t Hwf).
    assert (Hlt : length t = length (fix_vars s (sources_b N) T))
      by (rewrite HlF; exact Hwf).
    exact (proj1 (in_space_nth t _ Hlt) Ht k v Hk).
  - assert (Hout : ~ In k (sources_b N)).
    { intro Hk'. apply in_sources_b in Hk'. destruct Hk' as [_ Hk']. rewrite Hk' in Esrc.
      discriminate Esrc. }
    rewrite (fix_vars_nth_out s (sources_b N) T k Hout) in Hk.
    eapply const_on_mono; [apply fix_vars_subspace; exact Hin|].
    exact (proj1 (trap_space_char N T HlT) Htrap k v Hk).
Qed.

(* ... and keeps an attractor inside when the values are those of one of its states *)
Lemma fix_sources_inside : forall N A s T, attractor N A -> A s -> inside A T ->
  inside A (fix_vars s (sources_b N) T).
Proof.
  intros N A s T Hatt Hs Hin t Ht.
  pose proof (Hin t Ht) as HtT. pose proof (in_space_length t T HtT) as Hlt.
  apply in_space_nth; [rewrite fix_vars_length; exact Hlt|].
  intros k v Hk. destruct (in_dec Nat.eq_dec k (sources_b N)) as [Hkin|Hkout].
  - assert (HkT : k < length T).
    { pose proof (nth_some_lt _ k v Hk) as Hl. rewrite fix_vars_length in Hl. exact Hl. }
    rewrite (fix_vars_nth_in s (sources_b N) T k Hkin HkT) in Hk.
    injection Hk as Hv. subst v. apply in_sources_b in Hkin. destruct Hkin as [_ Hsrc].
    apply (source_const_on_attractor N A k s t Hatt Hsrc Hs Ht).
  - rewrite (fix_vars_nth_out s (sources_b N) T k Hkout) in Hk.
    exact (proj1 (in_space_nth t T Hlt) HtT k v Hk).
Qed.

Lemma fixes_all_node_srcs : forall N i T, fixes_all T (sources_b N) = true ->
  fixes_all T (node_srcs N i) = true.
Proof.
  intros N i T H. unfold node_srcs. destruct (Nat.eqb i 0); [exact H|apply fixes_all_nil].
Qed.

(* ====================================================================== *)
(* PART E -- uniqueness of the owner                                       *)
(* ====================================================================== *)

(* an owner's space is the smallest trap space of the diagram around the attractor:
   no trap space strictly inside it contains the attractor *)
Lemma owner_no_smaller : forall N d A i T, Hierarchy N d -> attractor N A -> owns N d i A ->
  trap_space N T -> strict_subspace T (n_space (get d i)) -> inside A T -> False.
Proof.
  intros N d A i T Hh Hatt [Hi (_ & HinX & Hno)] Htrap [Hsub Hne] HinT.
  pose proof Hatt as ((s0 & Hs0) & _).
  pose proof (trap_space_length N T Htrap) as HlT.
  pose proof (hierarchy_space_len N d i Hh Hi) as HlX.
  set (T' := fix_vars s0 (sources_b N) T).
  assert (Hs0T : in_space s0 T = true) by (apply HinT; exact Hs0).
  assert (HsubT' : subspace T' T = true) by (apply fix_vars_subspace; exact Hs0T).
  assert (Htrap' : trap_space N T') by (apply fix_sources_trap; assumption).
  assert (HinT' : inside A T') by (apply fix_sources_inside; assumption).
  assert (Hstrict' : strict_subspace T' (n_space (get d i))).
  { split; [eapply subspace_trans; [exact HsubT'|exact Hsub]|].
    intro Heq. apply Hne. apply subspace_antisym; [exact Hsub|]. rewrite <- Heq. exact HsubT'. }
  assert (Hfix : fixes_all T' (node_srcs N i) = true).
  { apply fixes_all_node_srcs. apply fix_vars_fixes. intros k Hk.
    apply in_sources_b in Hk. rewrite HlT. apply Hk. }
  destruct (max_trap_above_srcs N _ (node_srcs N i) T' Htrap' Hstrict' Hfix) as (M & HM & HsubM).
  apply Hno. exists M. split.
  - pose proof (hierarchy_canonical N d i Hh Hi) as Hcan. unfold canonical in Hcan.
    eapply Permutation_in; [apply Permutation_sym; exact Hcan|exact HM].
  - apply (inside_sub A T' M HinT' HsubM).
Qed.

Lemma owner_space_below : forall N d A i j Z, Hierarchy N d -> attractor N A ->
  owns N d i A -> j < size d -> inside A (n_space (get d j)) ->
  intersect (n_space (get d i)) (n_space (get d j)) = Some Z -> Z = n_space (get d i).
Proof.
  intros N d A i j Z Hh Hatt Hown Hj HinY HZ.
  pose proof Hown as [Hi (_ & HinX & _)].
  pose proof Hh as (_ & Htn & _).
  pose proof (TrapNodes_get N d i Htn Hi) as HtX.
  pose proof (TrapNodes_get N d j Htn Hj) as HtY.
  pose proof (trap_space_intersect N _ _ Z HtX HtY HZ) as HtZ.
  assert (HinZ : inside A Z).
  { intros s Hs. rewrite (intersect_spec_some _ _ Z HZ s).
    rewrite (HinX s Hs), (HinY s Hs). reflexivity. }
  assert (HsubZ : subspace Z (n_space (get d i)) = true).
  { apply subspace_spec; [apply (intersect_length _ _ Z HZ)|].
    intros s Hs. rewrite (intersect_spec_some _ _ Z HZ s) in Hs.
    apply andb_prop in Hs. apply Hs. }
  destruct (eqb_space Z (n_space (get d i))) eqn:Eq.
  - apply eqb_space_spec. exact Eq.
  - exfalso. apply (owner_no_smaller N d A i Z Hh Hatt Hown HtZ); [|exact HinZ].
    split; [exact HsubZ|]. intro Heq. apply eqb_space_spec in Heq. rewrite Heq in Eq.
    discriminate Eq.
Qed.

Lemma intersect_comm_some : forall x y z, intersect x y = Some z ->
  exists z', intersect y x = Some z' /\ forall s, in_space s z' = in_space s z.
Proof.
  intros x y z Hz. pose proof (intersect_length x y z Hz) as [Hlx Hly].
  destruct (intersect y x) as [z'|] eqn:E.
  - exists z'. split; [reflexivity|]. intro s.
    rewrite (intersect_spec_some y x z' E s), (intersect_spec_some x y z Hz s). apply andb_comm.
  - exfalso. destruct (space_nonempty z) as [s Hs].
    rewrite (intersect_spec_some x y z Hz s) in Hs.
    assert (Hl : length y = length x) by congruence.
    pose proof (intersect_spec_none y x Hl E s) as Hn.
    rewrite andb_comm in Hn. rewrite Hn in Hs. discriminate Hs.
Qed.

Theorem owner_unique : forall N d A i j, Hierarchy N d -> attractor N A ->
  owns N d i A -> owns N d j A -> i = j.
Proof.
  intros N d A i j Hh Hatt Hi Hj.
  pose proof Hi as [Hilt (_ & HinX & _)]. pose proof Hj as [Hjlt (_ & HinY & _)].
  pose proof Hatt as ((s0 & Hs0) & _).
  pose proof (hierarchy_space_len N d i Hh Hilt) as HlX.
  pose proof (hierarchy_space_len N d j Hh Hjlt) as HlY.
  destruct (intersect (n_space (get d i)) (n_space (get d j))) as [Z|] eqn:EZ.
  - destruct (intersect_comm_some _ _ Z EZ) as (Z' & EZ' & Hsame).
    pose proof (owner_space_below N d A i j Z Hh Hatt Hi Hjlt HinY EZ) as HZX.
    pose proof (owner_space_below N d A j i Z' Hh Hatt Hj Hilt HinX EZ') as HZY.
    apply (hierarchy_leaves_unique N d i j Hh Hilt Hjlt).
    rewrite <- HZX, <- HZY.
    pose proof (intersect_length _ _ Z EZ) as [HlZ _].
    pose proof (intersect_length _ _ Z' EZ') as [HlZ' _].
    assert (Hll : length Z = length Z') by congruence.
    apply subspace_antisym.
    + apply subspace_spec; [exact Hll|]. intros s Hs. rewrite Hsame. exact Hs.
    + apply subspace_spec; [symmetry; exact Hll|]. intros s Hs. rewrite <- Hsame. exact Hs.
  - exfalso. assert (Hl : length (n_space (get d i)) = length (n_space (get d j))) by congruence.
    pose proof (intersect_spec_none _ _ Hl EZ s0) as Hn.
    rewrite (HinX s0 Hs0), (HinY s0 Hs0) in Hn. discriminate Hn.
Qed.

(* ====================================================================== *)
(* PART F -- the global one-to-one statement                               *)
(* ====================================================================== *)

Definition all_seeds_ok (N : net) (d : sd) (seeds : nat -> list state) : Prop :=
  forall i, i < size d -> one_to_one N (n_space (get d i)) (out_motifs d i) (seeds i).

(* a seed of node i lying in the attractor A makes i the owner of A *)
Lemma seed_owner : forall N d seeds A i s, all_seeds_ok N d seeds -> attractor N A ->
  i < size d -> In s (seeds i) -> A s -> owns N d i A.
Proof.
  intros N d seeds A i s Hok Hatt Hi Hs HAs.
  destruct (Hok i Hi) as (_ & Hsound & _).
  destruct (Hsound s Hs) as (A' & Hna & HA's).
  split; [exact Hi|]. apply (node_attr_ext N _ _ A' A); [|exact Hna].
  destruct Hna as (Hatt' & _).
  apply (attractors_disjoint_or_equal N A' A s Hatt' Hatt HA's HAs).
Qed.

Theorem global_one_to_one : forall N d seeds, Hierarchy N d -> all_seeds_ok N d seeds ->
  (forall A, attractor N A -> exists i s, i < size d /\ In s (seeds i) /\ A s) /\
  (forall A i j s t, attractor N A -> i < size d -> j < size d ->
     In s (seeds i) -> In t (seeds j) -> A s -> A t -> i = j /\ s = t) /\
  (forall i s, i < size d -> In s (seeds i) ->
     exists A, attractor N A /\ A s /\ inside A (n_space (get d i))).
Proof.
  intros N d seeds Hh Hok. split; [|split].
  - intros A Hatt. destruct (owner_exists N d A Hh Hatt) as (i & Hi & Hna).
    destruct (Hok i Hi) as (_ & _ & _ & Hcov).
    destruct (Hcov A Hna) as (s & Hs & HAs).
    exists i, s. split; [exact Hi|]. split; [exact Hs|exact HAs].
  - intros A i j s t Hatt Hi Hj Hs Ht HAs HAt.
    pose proof (seed_owner N d seeds A i s Hok Hatt Hi Hs HAs) as Hoi.
    pose proof (seed_owner N d seeds A j t Hok Hatt Hj Ht HAt) as Hoj.
    pose proof (owner_unique N d A i j Hh Hatt Hoi Hoj) as Heq. subst j.
    split; [reflexivity|].
    destruct (Hok i Hi) as (_ & _ & Hinj & _). destruct Hoi as [_ Hna].
    apply (Hinj A s t Hna Hs Ht HAs HAt).
  - intros i s Hi Hs. destruct (Hok i Hi) as (_ & Hsound & _).
    destruct (Hsound s Hs) as (A & (Hatt & Hin & _) & HAs).
    exists A. split; [exact Hatt|]. split; [exact HAs|exact Hin].
Qed.

Print Assumptions owner_exists.
Print Assumptions owner_unique.
Print Assumptions global_one_to_one.
