(* SCCTerm.v -- SPEC (prove the theorems; the model is theories/SCC.v, do not edit it; theories/SCCStruct.v provides the
   weak invariant WI, good_at, graft_trap, the unfolding lemmas and expand_scc_grows / expand_scc_TrapNodes).
   The source-SCC strategy keeps edges strict (every edge leads to a strictly smaller space -- in particular the assertion
   `main_node_id != main_succ_id` of attach_scc_subdiagram can never fire) and terminates: the BFS levels descend
   strictly, the recursion on sub-diagrams loses at least one free variable per nesting level, so fuel
   nvars N + 2 is always enough. *)
From Coq Require Import List Bool Arith NArith Lia Permutation Relations.
Import ListNotations.
From BB Require Import BN Brute SpaceFacts TrapFacts PercolateFacts Diagram Invariants DiagramStruct DiagramSem1
  Termination Blocks BlocksFacts BlockMath SCC SCCStruct.
From BB Require Import DiagramComplete.

Local Arguments percolate_b : simpl never.
Local Arguments expand_one : simpl never.
Local Arguments node_successors : simpl never.
Local Arguments ensure_node : simpl never.
Local Arguments ensure_edge : simpl never.
Local Arguments source_sccs : simpl never.
Local Arguments sub_net : simpl never.
Local Arguments graft : simpl never.
Local Arguments regulates_b : simpl never.
Local Arguments sources_in_b : simpl never.
Local Arguments set_empty_seeds : simpl never.
Local Arguments clear_cands : simpl never.
Local Arguments ensure_children : simpl never.
Local Arguments attach_nodes : simpl never.
Local Arguments attach_edges : simpl never.
Local Arguments attach_scc : simpl never.
Local Arguments attach_all : simpl never.
Local Arguments scc_components : simpl never.
Local Arguments scc_level : simpl never.
Local Arguments scc_levels : simpl never.
Local Arguments scc_main : simpl never.
Local Arguments Nat.pow : simpl never.
Local Arguments Nat.ltb : simpl never.

(* ====================================================================== *)
(* A. the strong invariant: WI + strict edges + distinct node spaces       *)
(* ====================================================================== *)

Definition SI (N : net) (d : sd) : Prop := WI N d /\ EdgeStrict d /\ NoDup (spaces d).

Lemma SI_WI : forall N d, SI N d -> WI N d.
Proof. intros N d H. apply H. Qed.

Lemma SI_of_SWF : forall N d, SWF N d -> TrapNodes N d -> EdgeStrict d -> SI N d.
Proof.
  intros N d Hs Ht He. split; [apply WI_of_SWF; assumption|]. split; [exact He|apply (swf_nodup N d Hs)].
Qed.

Lemma init_SI : forall N, SI N (init N).
Proof. intro N. apply SI_of_SWF; [apply init_SWF|apply init_TrapNodes|apply init_EdgeStrict]. Qed.

Lemma SI_same_shape : forall N d d', WI N d' -> spaces d' = spaces d -> sd_edges d' = sd_edges d -> SI N d -> SI N d'.
Proof.
  intros N d d' Hw Hs He (_ & H2 & H3). split; [exact Hw|]. split.
  - apply (EdgeStrict_same_shape d); assumption.
  - rewrite Hs. exact H3.
Qed.

Lemma SI_upd_flag : forall N d i f, flag_setter f -> SI N d -> SI N (upd_node d i f).
Proof.
  intros N d i f Hf H. apply (SI_same_shape N d); [|apply spaces_upd_flag; exact Hf|apply sd_edges_upd_node|exact H].
  apply WI_upd_flag; [exact Hf|apply H].
Qed.

Lemma SI_set_empty_seeds : forall N d i, SI N d -> SI N (set_empty_seeds d i).
Proof.
  intros N d i H. apply (set_empty_seeds_flag (SI N)); [|exact H].
  intros d0 f Hf H0. apply SI_upd_flag; assumption.
Qed.

Lemma SI_clear_cands : forall N d i, SI N d -> SI N (clear_cands d i).
Proof.
  intros N d i H. apply (clear_cands_flag (SI N)); [|exact H].
  intros d0 f Hf H0. apply SI_upd_flag; assumption.
Qed.

Lemma SI_discard_if_stub : forall N d i, SI N d -> SI N (discard_if_stub d i).
Proof.
  intros N d i H. unfold discard_if_stub. destruct (n_exp (get d i)); [exact H|].
  apply SI_upd_flag; [constructor|exact H].
Qed.

Lemma SI_ensure_edge : forall N d p c m, SI N d -> p < size d -> c < size d ->
  strict_subspace (n_space (get d c)) (n_space (get d p)) -> SI N (ensure_edge d p c m).
Proof.
  intros N d p c m (Hw & He & Hnd) Hp Hc Hst. split; [apply WI_ensure_edge; assumption|]. split.
  - intros e Hin. rewrite !n_space_ensure_edge. rewrite sd_edges_ensure_edge in Hin.
    apply edge_added_In in Hin. destruct Hin as [Hin|[E1 E2]]; [apply He; exact Hin|].
    rewrite E1, E2. exact Hst.
  - rewrite spaces_ensure_edge. exact Hnd.
Qed.

Lemma SI_add_node : forall N d x, SI N d -> trap_space N (n_space x) -> percolate_b N (n_space x) = n_space x ->
  ~ In (n_space x) (spaces d) -> SI N (add_node d x).
Proof.
  intros N d x (Hw & He & Hnd) Ht Hp Hnin. split; [apply WI_add_node; assumption|]. split.
  - intros e Hin. change (sd_edges (add_node d x)) with (sd_edges d) in Hin.
    destruct Hw as (_ & _ & Hed). destruct (Hed e Hin) as [E1 E2].
    rewrite !get_add_node_old by assumption. apply He. exact Hin.
  - rewrite spaces_add_node. apply NoDup_app_disjoint; [exact Hnd|constructor; [intros []|constructor]|].
    intros y Hy [Hy2|[]]. subst y. apply Hnin. exact Hy.
Qed.

Lemma SI_ensure_node : forall N d parent m, SI N d -> trap_space N m ->
  (forall p, parent = Some p -> p < size d /\ strict_subspace (percolate_b N m) (n_space (get d p))) ->
  SI N (fst (ensure_node N d parent m)).
Proof.
  intros N d parent m Hsi Ht Hp. pose proof (SI_WI N d Hsi) as Hw.
  rewrite ensure_node_unfold.
  pose proof (trap_space_length N m Ht) as Hm.
  assert (Hlen : length (percolate_b N m) = nvars N) by (rewrite percolate_b_length; exact Hm).
  destruct (percolate_b_trap N m Ht) as [Htp _].
  destruct (find_node d (percolate_b N m)) as [c|] eqn:Ef; simpl.
  - destruct (find_node_some_len (nvars N) d _ c (WI_len N d Hw) Hlen Ef) as [Hc Hsp].
    destruct parent as [p|]; simpl; [|exact Hsi].
    destruct (Hp p eq_refl) as [Hpl Hst]. apply SI_ensure_edge; try assumption. rewrite Hsp. exact Hst.
  - apply (find_node_none_len (nvars N) d _ (WI_len N d Hw) Hlen) in Ef.
    set (d1 := add_node d (fresh_node (percolate_b N m) parent)).
    assert (Hs1 : size d1 = S (size d)) by (unfold d1; apply size_add_node).
    assert (H1 : SI N d1).
    { unfold d1. apply SI_add_node; [exact Hsi|exact Htp| |exact Ef]. simpl. apply percolate_b_idem. exact Hm. }
    destruct parent as [p|]; simpl; [|exact H1].
    destruct (Hp p eq_refl) as [Hpl Hst]. apply SI_ensure_edge; [exact H1|lia|lia|].
    unfold d1. rewrite get_add_node_new, get_add_node_old by exact Hpl. simpl. exact Hst.
Qed.

(* everything WI_ensure_node says, for SI *)
Lemma SI_ensure_node_full : forall N d parent m, SI N d -> trap_space N m ->
  (forall p, parent = Some p -> p < size d /\ strict_subspace (percolate_b N m) (n_space (get d p))) ->
  SI N (fst (ensure_node N d parent m)) /\
  snd (ensure_node N d parent m) < size (fst (ensure_node N d parent m)) /\
  n_space (get (fst (ensure_node N d parent m)) (snd (ensure_node N d parent m))) = percolate_b N m.
Proof.
  intros N d parent m Hsi Ht Hp. split; [apply SI_ensure_node; assumption|].
  destruct (WI_ensure_node N d parent m (SI_WI N d Hsi) Ht) as (_ & H2 & H3).
  - intros p E. apply (Hp p E).
  - split; assumption.
Qed.

Lemma SI_ensure_all : forall N subs d p, SI N d -> p < size d ->
  (forall m, In m subs -> trap_space N m /\ strict_subspace m (n_space (get d p))) ->
  SI N (ensure_all N d p subs).
Proof.
  intros N subs. induction subs as [|m r IH]; intros d p Hsi Hp Hm; [exact Hsi|].
  rewrite ensure_all_cons.
  destruct (Hm m (or_introl eq_refl)) as [Ht Hst].
  pose proof (ensure_node_extends N d (Some p) m) as He.
  apply IH.
  - apply SI_ensure_node; [exact Hsi|exact Ht|]. intros p0 E. injection E as E. subst p0.
    split; [exact Hp|]. apply strict_percolate; [apply trap_space_length; exact Ht|exact Hst].
  - apply (extends_lt d _ p He Hp).
  - intros m0 Hm0. rewrite (extends_space d _ p He Hp). apply Hm. right. exact Hm0.
Qed.

Lemma SI_expand_one : forall N cfg d i, SI N d -> i < size d -> SI N (fst (expand_one N cfg d i)).
Proof.
  intros N cfg d i Hsi Hi. unfold expand_one. cbv zeta.
  destruct (n_exp (get d i)); [exact Hsi|].
  assert (H0 : SI N (upd_node d i clear_attr)) by (apply SI_upd_flag; [constructor|exact Hsi]).
  destruct (is_full (n_space (get d i))); [simpl; apply SI_upd_flag; [constructor|exact H0]|].
  match goal with |- context [if ?c then _ else _] => destruct c end; [exact H0|].
  simpl. apply SI_upd_flag; [constructor|].
  apply SI_ensure_all; [exact H0|rewrite size_upd_node; exact Hi|].
  intros m Hm. apply In_firstn_in in Hm. apply sort_by_key_In in Hm.
  destruct (WI_get N d i (SI_WI N d Hsi) Hi) as [Htr _].
  apply (max_traps_b_spec_srcs N _ _ m (trap_space_length N _ Htr)) in Hm.
  destruct Hm as (A1 & A2 & _). split; [exact A1|].
  rewrite n_space_upd_flag by constructor. exact A2.
Qed.

Lemma successors_edge : forall d i s, In s (successors d i) ->
  exists e, In e (sd_edges d) /\ e_src e = i /\ e_dst e = s.
Proof.
  intros d i s Hin. unfold successors, successors_of in Hin.
  apply in_map_iff in Hin. destruct Hin as [e [Heq Hin]].
  apply filter_In in Hin. destruct Hin as [Hin Hsrc]. apply Nat.eqb_eq in Hsrc.
  exists e. split; [exact Hin|]. split; assumption.
Qed.

Lemma SI_successors_strict : forall N d i s, SI N d -> In s (successors d i) ->
  s < size d /\ strict_subspace (n_space (get d s)) (n_space (get d i)).
Proof.
  intros N d i s (Hw & He & _) Hin. split; [apply (WI_successors N d i s Hw Hin)|].
  destruct (successors_edge d i s Hin) as (e & He1 & E1 & E2). rewrite <- E1, <- E2. apply He. exact He1.
Qed.

Lemma SI_node_successors : forall N cfg d i, SI N d -> i < size d ->
  SI N (fst (fst (node_successors N cfg d i))) /\
  (forall s, In s (snd (node_successors N cfg d i)) ->
     s < size (fst (fst (node_successors N cfg d i))) /\
     strict_subspace (n_space (get (fst (fst (node_successors N cfg d i))) s)) (n_space (get d i))) /\
  (snd (fst (node_successors N cfg d i)) = RUnit \/ snd (fst (node_successors N cfg d i)) = RRaised ErrMotifLimit).
Proof.
  intros N cfg d i Hsi Hi.
  assert (H : SI N (fst (fst (node_successors N cfg d i)))).
  { rewrite node_successors_fst. apply SI_expand_one; assumption. }
  split; [exact H|]. split.
  - intros s Hs. apply node_successors_succ in Hs.
    destruct (SI_successors_strict N _ i s H Hs) as [H1 H2]. split; [exact H1|].
    rewrite (extends_space d _ i (node_successors_extends N cfg d i) Hi) in H2. exact H2.
  - unfold node_successors. pose proof (expand_one_result N cfg d i) as Hr.
    destruct (expand_one N cfg d i) as [d1 r]. simpl in Hr.
    destruct Hr as [Hr|Hr]; subst r; simpl; auto.
Qed.

(* the children made by the root fast-forward *)
Lemma SI_ensure_children_ids : forall N subs d p acc, SI N d -> p < size d ->
  (forall m, In m subs -> trap_space N m /\ strict_subspace m (n_space (get d p))) ->
  forall c, In c (snd (ensure_children N d p subs acc)) ->
    In c acc \/ (c < size (ensure_all N d p subs) /\
                 strict_subspace (n_space (get (ensure_all N d p subs) c)) (n_space (get d p))).
Proof.
  intros N subs. induction subs as [|m r IH]; intros d p acc Hsi Hp Hm c Hc.
  - rewrite ensure_children_nil in Hc. simpl in Hc. left. exact Hc.
  - rewrite ensure_children_cons in Hc. rewrite ensure_all_cons.
    destruct (Hm m (or_introl eq_refl)) as [Ht Hst].
    pose proof (ensure_node_extends N d (Some p) m) as He.
    assert (Hpar : forall p0, Some p = Some p0 -> p0 < size d /\ strict_subspace (percolate_b N m) (n_space (get d p0))).
    { intros p0 E. injection E as E. subst p0. split; [exact Hp|].
      apply strict_percolate; [apply trap_space_length; exact Ht|exact Hst]. }
    destruct (SI_ensure_node_full N d (Some p) m Hsi Ht Hpar) as (H1 & H2 & H3).
    set (d1 := fst (ensure_node N d (Some p) m)) in *.
    set (c1 := snd (ensure_node N d (Some p) m)) in *.
    assert (Hp1 : p < size d1) by (apply (extends_lt d _ p He Hp)).
    assert (Hsp1 : n_space (get d1 p) = n_space (get d p)) by (apply (extends_space d _ p He Hp)).
    destruct (IH d1 p (acc ++ [c1]) H1 Hp1) with (c := c) as [Hin|Hin].
    + intros m0 Hm0. rewrite Hsp1. apply Hm. right. exact Hm0.
    + exact Hc.
    + apply in_app_or in Hin. destruct Hin as [Hin|[Hin|[]]]; [left; exact Hin|]. subst c. right.
      pose proof (ensure_all_extends N r d1 p) as He2.
      split; [apply (extends_lt d1 _ c1 He2 H2)|].
      rewrite (extends_space d1 _ c1 He2 H2), H3. apply (Hpar p eq_refl).
    + right. rewrite Hsp1 in Hin. exact Hin.
Qed.
