(* SCCTerm.v -- SPEC (prove the theorems; the model is theories/SCC.v, do not edit it; theories/SCCStruct.v provides the
   weak invariant WI, good_at, graft_trap, the unfolding lemmas and expand_scc_grows / expand_scc_TrapNodes).
   The source-SCC strategy keeps edges strict (every edge leads to a strictly smaller space -- in particular the assertion
   `main_node_id != main_succ_id` of attach_scc_subdiagram can never fire) and terminates: the BFS levels descend
   strictly, the recursion on sub-diagrams loses at least one free variable per nesting level, so fuel
   nvars N + 2 is always enough. *)
From Coq Require Import List Bool Arith NArith Lia Permutation Relations.
Import ListNotations.
From BB Require Import BN Brute SpaceFacts TrapFacts PercolateFacts Diagram Invariants DiagramStruct DiagramSem1
  Termination Blocks BlocksFacts BlockMath SCC SCCStruct.
From BB Require Import DiagramComplete.

Local Arguments percolate_b : simpl never.
Local Arguments expand_one : simpl never.
Local Arguments node_successors : simpl never.
Local Arguments ensure_node : simpl never.
Local Arguments ensure_edge : simpl never.
Local Arguments source_sccs : simpl never.
Local Arguments sub_net : simpl never.
Local Arguments graft : simpl never.
Local Arguments regulates_b : simpl never.
Local Arguments sources_in_b : simpl never.
Local Arguments set_empty_seeds : simpl never.
Local Arguments clear_cands : simpl never.
Local Arguments ensure_children : simpl never.
Local Arguments attach_nodes : simpl never.
Local Arguments attach_edges : simpl never.
Local Arguments attach_scc : simpl never.
Local Arguments attach_all : simpl never.
Local Arguments scc_components : simpl never.
Local Arguments scc_level : simpl never.
Local Arguments scc_levels : simpl never.
Local Arguments scc_main : simpl never.
Local Arguments Nat.pow : simpl never.
Local Arguments Nat.ltb : simpl never.

(* ====================================================================== *)
(* A. the strong invariant: WI + strict edges + distinct node spaces       *)
(* ====================================================================== *)

Definition SI (N : net) (d : sd) : Prop := WI N d /\ EdgeStrict d /\ NoDup (spaces d).

Lemma SI_WI : forall N d, SI N d -> WI N d.
Proof. intros N d H. apply H. Qed.

Lemma SI_of_SWF : forall N d, SWF N d -> TrapNodes N d -> EdgeStrict d -> SI N d.
Proof.
  intros N d Hs Ht He. split; [apply WI_of_SWF; assumption|]. split; [exact He|apply (swf_nodup N d Hs)].
Qed.

Lemma init_SI : forall N, SI N (init N).
Proof. intro N. apply SI_of_SWF; [apply init_SWF|apply init_TrapNodes|apply init_EdgeStrict]. Qed.

Lemma SI_same_shape : forall N d d', WI N d' -> spaces d' = spaces d -> sd_edges d' = sd_edges d -> SI N d -> SI N d'.
Proof.
  intros N d d' Hw Hs He (_ & H2 & H3). split; [exact Hw|]. split.
  - apply (EdgeStrict_same_shape d); assumption.
  - rewrite Hs. exact H3.
Qed.

Lemma SI_upd_flag : forall N d i f, flag_setter f -> SI N d -> SI N (upd_node d i f).
Proof.
  intros N d i f Hf H. apply (SI_same_shape N d); [|apply spaces_upd_flag; exact Hf|apply sd_edges_upd_node|exact H].
  apply WI_upd_flag; [exact Hf|apply H].
Qed.

Lemma SI_set_empty_seeds : forall N d i, SI N d -> SI N (set_empty_seeds d i).
Proof.
  intros N d i H. apply (set_empty_seeds_flag (SI N)); [|exact H].
  intros d0 f Hf H0. apply SI_upd_flag; assumption.
Qed.

Lemma SI_clear_cands : forall N d i, SI N d -> SI N (clear_cands d i).
Proof.
  intros N d i H. apply (clear_cands_flag (SI N)); [|exact H].
  intros d0 f Hf H0. apply SI_upd_flag; assumption.
Qed.

Lemma SI_discard_if_stub : forall N d i, SI N d -> SI N (discard_if_stub d i).
Proof.
  intros N d i H. unfold discard_if_stub. destruct (n_exp (get d i) && negb (n_skip (get d i))); [exact H|].
  apply SI_upd_flag; [constructor|exact H].
Qed.

Lemma SI_ensure_edge : forall N d p c m, SI N d -> p < size d -> c < size d ->
  strict_subspace (n_space (get d c)) (n_space (get d p)) -> SI N (ensure_edge d p c m).
Proof.
  intros N d p c m (Hw & He & Hnd) Hp Hc Hst. split; [apply WI_ensure_edge; assumption|]. split.
  - intros e Hin. rewrite !n_space_ensure_edge. rewrite sd_edges_ensure_edge in Hin.
    apply edge_added_In in Hin. destruct Hin as [Hin|[E1 E2]]; [apply He; exact Hin|].
    rewrite E1, E2. exact Hst.
  - rewrite spaces_ensure_edge. exact Hnd.
Qed.

Lemma SI_add_node : forall N d x, SI N d -> trap_space N (n_space x) -> percolate_b N (n_space x) = n_space x ->
  ~ In (n_space x) (spaces d) -> SI N (add_node d x).
Proof.
  intros N d x (Hw & He & Hnd) Ht Hp Hnin. split; [apply WI_add_node; assumption|]. split.
  - intros e Hin. change (sd_edges (add_node d x)) with (sd_edges d) in Hin.
    destruct Hw as (_ & _ & Hed). destruct (Hed e Hin) as [E1 E2].
    rewrite !get_add_node_old by assumption. apply He. exact Hin.
  - rewrite spaces_add_node. apply NoDup_app_disjoint; [exact Hnd|constructor; [intros []|constructor]|].
    intros y Hy [Hy2|[]]. subst y. apply Hnin. exact Hy.
Qed.

Lemma SI_ensure_node : forall N d parent m, SI N d -> trap_space N m ->
  (forall p, parent = Some p -> p < size d /\ strict_subspace (percolate_b N m) (n_space (get d p))) ->
  SI N (fst (ensure_node N d parent m)).
Proof.
  intros N d parent m Hsi Ht Hp. pose proof (SI_WI N d Hsi) as Hw.
  rewrite ensure_node_unfold.
  pose proof (trap_space_length N m Ht) as Hm.
  assert (Hlen : length (percolate_b N m) = nvars N) by (rewrite percolate_b_length; exact Hm).
  destruct (percolate_b_trap N m Ht) as [Htp _].
  destruct (find_node d (percolate_b N m)) as [c|] eqn:Ef; simpl.
  - destruct (find_node_some_len (nvars N) d _ c (WI_len N d Hw) Hlen Ef) as [Hc Hsp].
    destruct parent as [p|]; simpl; [|exact Hsi].
    destruct (Hp p eq_refl) as [Hpl Hst]. apply SI_ensure_edge; try assumption. rewrite Hsp. exact Hst.
  - apply (find_node_none_len (nvars N) d _ (WI_len N d Hw) Hlen) in Ef.
    set (d1 := add_node d (fresh_node (percolate_b N m) parent)).
    assert (Hs1 : size d1 = S (size d)) by (unfold d1; apply size_add_node).
    assert (H1 : SI N d1).
    { unfold d1. apply SI_add_node; [exact Hsi|exact Htp| |exact Ef]. simpl. apply percolate_b_idem. exact Hm. }
    destruct parent as [p|]; simpl; [|exact H1].
    destruct (Hp p eq_refl) as [Hpl Hst]. apply SI_ensure_edge; [exact H1|lia|lia|].
    unfold d1. rewrite get_add_node_new, get_add_node_old by exact Hpl. simpl. exact Hst.
Qed.

(* everything WI_ensure_node says, for SI *)
Lemma SI_ensure_node_full : forall N d parent m, SI N d -> trap_space N m ->
  (forall p, parent = Some p -> p < size d /\ strict_subspace (percolate_b N m) (n_space (get d p))) ->
  SI N (fst (ensure_node N d parent m)) /\
  snd (ensure_node N d parent m) < size (fst (ensure_node N d parent m)) /\
  n_space (get (fst (ensure_node N d parent m)) (snd (ensure_node N d parent m))) = percolate_b N m.
Proof.
  intros N d parent m Hsi Ht Hp. split; [apply SI_ensure_node; assumption|].
  destruct (WI_ensure_node N d parent m (SI_WI N d Hsi) Ht) as (_ & H2 & H3).
  - intros p E. apply (Hp p E).
  - split; assumption.
Qed.

Lemma SI_ensure_all : forall N subs d p, SI N d -> p < size d ->
  (forall m, In m subs -> trap_space N m /\ strict_subspace m (n_space (get d p))) ->
  SI N (ensure_all N d p subs).
Proof.
  intros N subs. induction subs as [|m r IH]; intros d p Hsi Hp Hm; [exact Hsi|].
  rewrite ensure_all_cons.
  destruct (Hm m (or_introl eq_refl)) as [Ht Hst].
  pose proof (ensure_node_extends N d (Some p) m) as He.
  apply IH.
  - apply SI_ensure_node; [exact Hsi|exact Ht|]. intros p0 E. injection E as E. subst p0.
    split; [exact Hp|]. apply strict_percolate; [apply trap_space_length; exact Ht|exact Hst].
  - apply (extends_lt d _ p He Hp).
  - intros m0 Hm0. rewrite (extends_space d _ p He Hp). apply Hm. right. exact Hm0.
Qed.

Lemma SI_expand_one : forall N cfg d i, SI N d -> i < size d -> SI N (fst (expand_one N cfg d i)).
Proof.
  intros N cfg d i Hsi Hi. unfold expand_one. cbv zeta.
  destruct (n_exp (get d i)); [exact Hsi|].
  assert (H0 : SI N (upd_node d i clear_attr)) by (apply SI_upd_flag; [constructor|exact Hsi]).
  destruct (is_full (n_space (get d i))); [simpl; apply SI_upd_flag; [constructor|exact H0]|].
  match goal with |- context [if ?c then _ else _] => destruct c end; [exact H0|].
  simpl. apply SI_upd_flag; [constructor|].
  apply SI_ensure_all; [exact H0|rewrite size_upd_node; exact Hi|].
  intros m Hm. apply In_firstn_in in Hm. apply sort_by_key_In in Hm.
  destruct (WI_get N d i (SI_WI N d Hsi) Hi) as [Htr _].
  apply (max_traps_b_spec_srcs N _ _ m (trap_space_length N _ Htr)) in Hm.
  destruct Hm as (A1 & A2 & _). split; [exact A1|].
  rewrite n_space_upd_flag by constructor. exact A2.
Qed.

Lemma successors_edge : forall d i s, In s (successors d i) ->
  exists e, In e (sd_edges d) /\ e_src e = i /\ e_dst e = s.
Proof.
  intros d i s Hin. unfold successors, successors_of in Hin.
  apply in_map_iff in Hin. destruct Hin as [e [Heq Hin]].
  apply filter_In in Hin. destruct Hin as [Hin Hsrc]. apply Nat.eqb_eq in Hsrc.
  exists e. split; [exact Hin|]. split; assumption.
Qed.

Lemma SI_successors_strict : forall N d i s, SI N d -> In s (successors d i) ->
  s < size d /\ strict_subspace (n_space (get d s)) (n_space (get d i)).
Proof.
  intros N d i s (Hw & He & _) Hin. split; [apply (WI_successors N d i s Hw Hin)|].
  destruct (successors_edge d i s Hin) as (e & He1 & E1 & E2). rewrite <- E1, <- E2. apply He. exact He1.
Qed.

Lemma SI_node_successors : forall N cfg d i, SI N d -> i < size d ->
  SI N (fst (fst (node_successors N cfg d i))) /\
  (forall s, In s (snd (node_successors N cfg d i)) ->
     s < size (fst (fst (node_successors N cfg d i))) /\
     strict_subspace (n_space (get (fst (fst (node_successors N cfg d i))) s)) (n_space (get d i))) /\
  (snd (fst (node_successors N cfg d i)) = RUnit \/ snd (fst (node_successors N cfg d i)) = RRaised ErrMotifLimit).
Proof.
  intros N cfg d i Hsi Hi.
  assert (H : SI N (fst (fst (node_successors N cfg d i)))).
  { rewrite node_successors_fst. apply SI_expand_one; assumption. }
  split; [exact H|]. split.
  - intros s Hs. apply node_successors_succ in Hs.
    destruct (SI_successors_strict N _ i s H Hs) as [H1 H2]. split; [exact H1|].
    rewrite (extends_space d _ i (node_successors_extends N cfg d i) Hi) in H2. exact H2.
  - unfold node_successors. pose proof (expand_one_result N cfg d i) as Hr.
    destruct (expand_one N cfg d i) as [d1 r]. simpl in Hr.
    destruct Hr as [Hr|Hr]; subst r; simpl; auto.
Qed.

(* the children made by the root fast-forward *)
Lemma SI_ensure_children_ids : forall N subs d p acc, SI N d -> p < size d ->
  (forall m, In m subs -> trap_space N m /\ strict_subspace m (n_space (get d p))) ->
  forall c, In c (snd (ensure_children N d p subs acc)) ->
    In c acc \/ (c < size (ensure_all N d p subs) /\
                 strict_subspace (n_space (get (ensure_all N d p subs) c)) (n_space (get d p))).
Proof.
  intros N subs. induction subs as [|m r IH]; intros d p acc Hsi Hp Hm c Hc.
  - rewrite ensure_children_nil in Hc. simpl in Hc. left. exact Hc.
  - rewrite ensure_children_cons in Hc. rewrite ensure_all_cons.
    destruct (Hm m (or_introl eq_refl)) as [Ht Hst].
    pose proof (ensure_node_extends N d (Some p) m) as He.
    assert (Hpar : forall p0, Some p = Some p0 -> p0 < size d /\ strict_subspace (percolate_b N m) (n_space (get d p0))).
    { intros p0 E. injection E as E. subst p0. split; [exact Hp|].
      apply strict_percolate; [apply trap_space_length; exact Ht|exact Hst]. }
    destruct (SI_ensure_node_full N d (Some p) m Hsi Ht Hpar) as (H1 & H2 & H3).
    set (d1 := fst (ensure_node N d (Some p) m)) in *.
    set (c1 := snd (ensure_node N d (Some p) m)) in *.
    assert (Hp1 : p < size d1) by (apply (extends_lt d _ p He Hp)).
    assert (Hsp1 : n_space (get d1 p) = n_space (get d p)) by (apply (extends_space d _ p He Hp)).
    destruct (IH d1 p (acc ++ [c1]) H1 Hp1) with (c := c) as [Hin|Hin].
    + intros m0 Hm0. rewrite Hsp1. apply Hm. right. exact Hm0.
    + exact Hc.
    + apply in_app_or in Hin. destruct Hin as [Hin|[Hin|[]]]; [left; exact Hin|]. subst c. right.
      pose proof (ensure_all_extends N r d1 p) as He2.
      split; [apply (extends_lt d1 _ c1 He2 H2)|].
      rewrite (extends_space d1 _ c1 He2 H2), H3. apply (Hpar p eq_refl).
    + right. rewrite Hsp1 in Hin. exact Hin.
Qed.

(* ====================================================================== *)
(* B. a percolated trap space with a free variable has a source SCC        *)
(* ====================================================================== *)

Definition bw1 (N : net) (Sp : space) (v : nat) : list nat := bwd_closure (nvars N) N Sp [v].

Lemma bw1_In : forall N Sp v u, sgood N Sp v -> (In u (bw1 N Sp v) <-> sreach N Sp u v).
Proof.
  intros N Sp v u Hv. unfold bw1. split.
  - intro H. destruct (bwd_sound N Sp (nvars N) [v] (sgood_single N Sp v Hv) u H) as (x & [Hx|[]] & Hr).
    subst x. exact Hr.
  - intro H. apply (bwd_complete N Sp [v] v u (sgood_single N Sp v Hv)); [|exact H].
    apply bwd_start; [apply sgood_single; exact Hv|left; reflexivity].
Qed.

Lemma bw1_NoDup : forall N Sp v, NoDup (bw1 N Sp v).
Proof. intros. unfold bw1. apply bwd_NoDup. constructor; [intros []|constructor]. Qed.

(* a vertex all of whose ancestors are descendants *)
Lemma source_vertex_aux : forall N Sp k v, sgood N Sp v -> length (bw1 N Sp v) <= k ->
  exists w, sgood N Sp w /\ forall u, sreach N Sp u w -> sreach N Sp w u.
Proof.
  intros N Sp k. induction k as [|k IH]; intros v Hv Hlen.
  - exfalso. assert (Hin : In v (bw1 N Sp v)) by (apply bw1_In; [exact Hv|apply rt_refl]).
    destruct (bw1 N Sp v); [destruct Hin|simpl in Hlen; lia].
  - destruct (filter (fun u => negb (mem_nat v (bw1 N Sp u))) (bw1 N Sp v)) as [|u l] eqn:Ef.
    + exists v. split; [exact Hv|]. intros u Hu.
      pose proof (sreach_good_l N Sp u v Hu Hv) as Hgu.
      apply (bw1_In N Sp u v Hgu).
      destruct (mem_nat v (bw1 N Sp u)) eqn:E; [apply BM_mem_nat_In; exact E|]. exfalso.
      assert (Hin : In u (filter (fun u => negb (mem_nat v (bw1 N Sp u))) (bw1 N Sp v))).
      { apply filter_In. split; [apply bw1_In; assumption|]. rewrite E. reflexivity. }
      rewrite Ef in Hin. destruct Hin.
    + assert (Hin : In u (filter (fun u => negb (mem_nat v (bw1 N Sp u))) (bw1 N Sp v)))
        by (rewrite Ef; left; reflexivity).
      apply filter_In in Hin. destruct Hin as [Hu Hn].
      apply negb_true_iff in Hn. apply BM_mem_nat_false in Hn.
      apply (bw1_In N Sp v u Hv) in Hu.
      pose proof (sreach_good_l N Sp u v Hu Hv) as Hgu.
      apply (IH u Hgu).
      assert (Hnd : NoDup (v :: bw1 N Sp u)) by (constructor; [exact Hn|apply bw1_NoDup]).
      assert (Hincl : incl (v :: bw1 N Sp u) (bw1 N Sp v)).
      { intros x [Hx|Hx].
        - subst x. apply bw1_In; [exact Hv|apply rt_refl].
        - apply bw1_In; [exact Hv|]. apply (bw1_In N Sp u x Hgu) in Hx.
          apply (rt_trans _ _ _ u); assumption. }
      pose proof (NoDup_incl_length Hnd Hincl) as Hl. simpl in Hl. lia.
Qed.

Lemma source_vertex : forall N Sp v, sgood N Sp v ->
  exists w, sgood N Sp w /\ forall u, sreach N Sp u w -> sreach N Sp w u.
Proof. intros N Sp v Hv. apply (source_vertex_aux N Sp (length (bw1 N Sp v)) v Hv). apply Nat.le_refl. Qed.

(* without a free regulator the update function is constant *)
Lemma no_regulator_const : forall N Sp v s0, length Sp = nvars N -> sgood N Sp v ->
  (forall u, u < nvars N -> free_in Sp u = true -> regulates_b N Sp u v = false) ->
  wf_state N s0 -> in_space s0 Sp = true -> const_on N v Sp (upd N v s0).
Proof.
  intros N Sp v s0 HS [Hv Hf] Hno Hwf0 Hs0.
  assert (Hc : closed_in N Sp [v]).
  { split.
    - intros x [Hx|[]]. subst x. split; assumption.
    - intros i j [Hj|[]] Hi Hfi Hr. subst j. rewrite (Hno i Hi Hfi) in Hr. discriminate. }
  assert (Hsame : forall s t, wf_state N s -> wf_state N t -> in_space s Sp = true -> in_space t Sp = true ->
            nth v s false = nth v t false -> upd N v s = upd N v t).
  { intros s t Hws Hwt Hs Ht Hag.
    apply (closed_in_reads_B N Sp [v] v s t Hc (or_introl eq_refl) Hws Hwt Hs Ht).
    intros x [Hx|[]]. subst x. exact Hag. }
  intros s Hws Hs.
  destruct (Bool.bool_dec (nth v s false) (nth v s0 false)) as [He|Hne]; [apply Hsame; assumption|].
  rewrite (regulates_b_false N Sp v v (Hno v Hv Hf) s Hs).
  apply Hsame; try assumption.
  - unfold wf_state. rewrite flip_at_length. exact Hws.
  - unfold flip_at. apply in_space_set_nth_free; [exact Hs|apply BM_free_in_spec; exact Hf].
  - unfold flip_at. rewrite nth_set_nth_eq by (unfold wf_state in Hws; lia).
    destruct (nth v s false), (nth v s0 false); try reflexivity; exfalso; apply Hne; reflexivity.
Qed.

Lemma free_has_regulator : forall N Sp v, length Sp = nvars N -> perc_closed N Sp -> sgood N Sp v ->
  exists u, sgood N Sp u /\ regulates_b N Sp u v = true.
Proof.
  intros N Sp v HS Hpc Hv.
  destruct (existsb (fun u => free_in Sp u && regulates_b N Sp u v) (seq 0 (nvars N))) eqn:E.
  - apply existsb_exists in E. destruct E as (u & Hu & Hb). apply in_seq in Hu.
    apply andb_true_iff in Hb. destruct Hb as [H1 H2]. exists u. split; [split; [lia|exact H1]|exact H2].
  - exfalso. set (s0 := fill (nvars N) Sp []).
    assert (Hs0 : in_space s0 Sp = true) by (apply fill_in_space; exact HS).
    assert (Hwf0 : wf_state N s0) by (unfold wf_state, s0; apply fill_length).
    destruct Hv as [Hv Hf].
    apply (Hpc v (upd N v s0) Hv (proj1 (BM_free_in_spec Sp v) Hf)).
    apply (no_regulator_const N Sp v s0 HS (conj Hv Hf)); [|exact Hwf0|exact Hs0].
    intros u Hu Hfu. destruct (regulates_b N Sp u v) eqn:Er; [|reflexivity]. exfalso.
    assert (Ht : existsb (fun u => free_in Sp u && regulates_b N Sp u v) (seq 0 (nvars N)) = true).
    { apply existsb_exists. exists u. split; [apply in_seq; lia|]. rewrite Hfu, Er. reflexivity. }
    rewrite Ht in E. discriminate.
Qed.

Lemma scc_step_nonempty : forall N Sp acc v, acc <> [] -> scc_step N Sp acc v <> [].
Proof.
  intros N Sp acc v Hne. unfold scc_step.
  destruct (free_in Sp v && negb (existsb (mem_nat v) acc)); [|exact Hne].
  destruct (scc_of N Sp v) as [|c0 cr]; [exact Hne|].
  destruct (same_set _ _); [|exact Hne]. destruct acc; [contradiction|discriminate].
Qed.

Lemma scc_fold_nonempty : forall N Sp l acc, acc <> [] -> fold_left (scc_step N Sp) l acc <> [].
Proof.
  intros N Sp l. induction l as [|v l IH]; intros acc Hne; simpl; [exact Hne|].
  apply IH. apply scc_step_nonempty. exact Hne.
Qed.

Lemma source_sccs_nonempty : forall N Sp v0, length Sp = nvars N -> perc_closed N Sp -> sgood N Sp v0 ->
  source_sccs N Sp <> [].
Proof.
  intros N Sp v0 HS Hpc Hv0.
  destruct (source_vertex N Sp v0 Hv0) as (w & Hw & Hsrc).
  (* the component of w *)
  assert (HC : forall u, In u (scc_raw N Sp w) <-> sreach N Sp u w).
  { intro u. rewrite (scc_raw_In N Sp w u Hw). split; [intros [H _]; exact H|].
    intro H. split; [exact H|apply Hsrc; exact H]. }
  assert (Hww : In w (scc_raw N Sp w)) by (apply HC; apply rt_refl).
  assert (Hof : scc_of N Sp w = scc_raw N Sp w).
  { unfold scc_of. fold (scc_raw N Sp w).
    destruct (scc_raw N Sp w) as [|a [|b r]] eqn:Er; try reflexivity.
    destruct Hww as [Ha|[]]. subst a.
    destruct (free_has_regulator N Sp w HS Hpc Hw) as (u & Hu & Hr).
    assert (Hin : In u [w]).
    { apply HC. apply rt_step. split; [exact Hu|]. split; [exact Hw|exact Hr]. }
    destruct Hin as [Hin|[]]. subst u. rewrite Hr. reflexivity. }
  assert (Hgood : forall x, In x (scc_raw N Sp w) -> sgood N Sp x).
  { intros x Hx. apply HC in Hx. apply (sreach_good_l N Sp x w Hx Hw). }
  assert (Hss : same_set (bwd_closure (nvars N) N Sp (scc_raw N Sp w)) (scc_raw N Sp w) = true).
  { unfold same_set. apply andb_true_iff. split; apply forallb_forall; intros x Hx; apply BM_mem_nat_In.
    - destruct (bwd_sound N Sp (nvars N) _ Hgood x Hx) as (u & Hu & Hr).
      apply HC. apply HC in Hu. apply (rt_trans _ _ _ u); assumption.
    - apply bwd_start; assumption. }
  rewrite source_sccs_fold.
  destruct Hw as [Hwl Hwf].
  assert (Hin : In w (seq 0 (nvars N))) by (apply in_seq; lia).
  apply in_split in Hin. destruct Hin as (l1 & l2 & El). rewrite El.
  rewrite fold_left_app. simpl. apply scc_fold_nonempty.
  set (acc := fold_left (scc_step N Sp) l1 []).
  unfold scc_step. rewrite Hwf. simpl.
  destruct (existsb (mem_nat w) acc) eqn:Ee; simpl.
  - destruct acc; [discriminate|discriminate].
  - rewrite Hof. destruct (scc_raw N Sp w) as [|c0 cr] eqn:Er; [destruct Hww|].
    rewrite Hss. destruct acc; discriminate.
Qed.

Lemma no_source_scc_full : forall N Sp v, length Sp = nvars N -> perc_closed N Sp ->
  source_sccs N Sp = [] -> v < nvars N -> nth v Sp None <> None.
Proof.
  intros N Sp v HS Hpc He Hv Hn.
  apply (source_sccs_nonempty N Sp v HS Hpc); [|exact He].
  split; [exact Hv|apply BM_free_in_spec; exact Hn].
Qed.

Lemma full_no_strict : forall (Y Sp : space), (forall v, v < length Sp -> nth v Sp None <> None) ->
  strict_subspace Y Sp -> False.
Proof.
  intros Y Sp Hfull [Hsub Hne]. apply Hne.
  pose proof (subspace_length Y Sp Hsub) as Hl.
  apply (nth_ext Y Sp None None Hl). intros i Hi. rewrite Hl in Hi.
  destruct (nth i Sp None) as [x|] eqn:Ex; [|exfalso; apply (Hfull i Hi); exact Ex].
  apply (proj1 (subspace_nth Y Sp Hl) Hsub i x Ex).
Qed.

(* ====================================================================== *)
(* C. grafting the spaces of a component sub-diagram                       *)
(* ====================================================================== *)

Lemma top_trap : forall N, trap_space N (top_space (nvars N)).
Proof.
  intro N. apply trap_space_char; [unfold top_space; apply repeat_length|].
  intros i v Hn. rewrite nth_top_space in Hn. discriminate.
Qed.

Section Graft.
  Variables (N : net) (sp : space) (B : list nat).
  Hypothesis HtS : trap_space N sp.
  Hypothesis Hpc : perc_closed N sp.
  Hypothesis Hc : closed_in N sp B.

  Let M := sub_net N sp B.
  Let cv (v : nat) : bool := match nth v sp None with Some b => b | None => false end.

  Definition subT (T : space) : Prop := trap_space (sub_net N sp B) T /\ perc_closed (sub_net N sp B) T.

  Lemma G_HS : length sp = nvars N.
  Proof. apply trap_space_length. exact HtS. Qed.

  Lemma G_Mn : nvars M = nvars N.
  Proof. apply sub_net_nvars. Qed.

  Lemma G_len : forall T, subT T -> length T = nvars N.
  Proof. intros T [Ht _]. rewrite <- G_Mn. apply trap_space_length. exact Ht. Qed.

  (* outside the component every node space of the sub-diagram carries the constants *)
  Lemma G_out : forall T v, subT T -> v < nvars N -> ~ In v B -> nth v T None = Some (cv v).
  Proof.
    intros T v HT Hv HvB. pose proof (G_len T HT) as HlT. destruct HT as [Ht Hp].
    assert (HlT' : length T = nvars M) by (rewrite G_Mn; exact HlT).
    destruct (nth v T None) as [x|] eqn:Ex.
    - f_equal. set (s := fill (nvars N) T []).
      assert (Hs : in_space s T = true) by (apply fill_in_space; exact HlT).
      assert (Hwf : wf_state M s) by (unfold wf_state, s; rewrite fill_length, G_Mn; reflexivity).
      pose proof (proj1 (trap_space_char M T HlT') Ht v x Ex s Hwf Hs) as Hu.
      unfold M in Hu. rewrite (sub_net_upd_out N sp B v s Hv HvB) in Hu. symmetry. exact Hu.
    - exfalso. apply (Hp v (cv v)); [rewrite sub_net_nvars; exact Hv|exact Ex|].
      intros s _ _. apply sub_net_upd_out; assumption.
  Qed.

  (* the root of the sub-diagram *)
  Definition Rsub : space := percolate_b (sub_net N sp B) (top_space (nvars (sub_net N sp B))).

  Lemma Rsub_subT : subT Rsub.
  Proof.
    unfold Rsub, subT. split.
    - apply percolate_b_trap. apply top_trap.
    - apply percolate_b_closed. unfold top_space. apply repeat_length.
  Qed.

  Lemma R_steps : forall X Y, clos_refl_trans space (perc_step M) X Y ->
    length X = nvars N /\ (forall j, In j B -> nth j X None = None) ->
    length Y = nvars N /\ (forall j, In j B -> nth j Y None = None).
  Proof.
    intros X Y Hst. induction Hst as [x y Hst | x | x y z H1 IH1 H2 IH2].
    - destruct Hst as [X i v Hi Hn Hcon]. intros [HlX Hfree].
      assert (Hin : i < nvars N) by (rewrite <- G_Mn; exact Hi).
      assert (HiB : ~ In i B).
      { intro HiB. apply (Hpc i v Hin (BM_closed_free N sp B i Hc HiB)).
        intros t Hwt Ht.
        set (s' := fill (nvars N) X t).
        assert (Hs'X : in_space s' X = true) by (apply fill_in_space; exact HlX).
        assert (Hs'len : length s' = nvars N) by (unfold s'; apply fill_length).
        assert (Hs'wf : wf_state M s') by (unfold wf_state; rewrite G_Mn; exact Hs'len).
        pose proof (Hcon s' Hs'wf Hs'X) as Hu. unfold M in Hu.
        rewrite (sub_net_upd_in_gen N sp B i s' Hin HiB) in Hu. rewrite <- Hu.
        assert (Hlsp : length s' = length sp) by (rewrite G_HS; exact Hs'len).
        apply (closed_in_reads_B N sp B i t (impose sp s') Hc HiB Hwt).
        - unfold wf_state. rewrite impose_length by exact Hlsp. apply G_HS.
        - exact Ht.
        - apply impose_in_space. exact Hlsp.
        - intros j Hj. rewrite (nth_impose sp s' j Hlsp), (BM_closed_free N sp B j Hc Hj).
          unfold s'. rewrite (nth_fill _ X t j (BM_closed_lt N sp B j Hc Hj)), (Hfree j Hj). reflexivity. }
      split; [rewrite set_nth_length; exact HlX|].
      intros j Hj. rewrite nth_set_nth_neq; [apply Hfree; exact Hj|].
      intro Heq. subst j. contradiction.
    - auto.
    - intros H. apply IH2. apply IH1. exact H.
  Qed.

  Lemma Rsub_free : forall j, In j B -> nth j Rsub None = None.
  Proof.
    assert (Hl : length (top_space (nvars M)) = nvars M) by (unfold top_space; apply repeat_length).
    destruct (R_steps (top_space (nvars M)) Rsub (percolate_b_steps M _ Hl)) as [_ H].
    - split; [rewrite Hl; apply G_Mn|]. intros j _. apply nth_top_space.
    - exact H.
  Qed.

  (* the root of the sub-diagram is strictly inside sp as soon as sp has a free variable outside B *)
  Lemma Rsub_strict : forall v, v < nvars N -> nth v sp None = None -> ~ In v B -> strict_subspace Rsub sp.
  Proof.
    intros v Hv Hn HvB. pose proof (G_len Rsub Rsub_subT) as HlR. split.
    - apply subspace_nth; [rewrite G_HS; exact HlR|]. intros i x Hi.
      assert (Hil : i < nvars N) by (rewrite <- G_HS; apply (nth_some_lt sp i x Hi)).
      rewrite (G_out Rsub i Rsub_subT Hil).
      + unfold cv. rewrite Hi. reflexivity.
      + apply BM_mem_nat_false. apply (BM_fixed_not_B N sp B i x Hc Hi).
    - intro Heq. pose proof (G_out Rsub v Rsub_subT Hv HvB) as H. rewrite Heq, Hn in H. discriminate.
  Qed.

  Variable A : space.
  Hypothesis HtA : trap_space N A.
  Hypothesis HAsp : subspace A sp = true.
  Hypothesis HAfree : forall v, In v B -> nth v A None = None.

  Definition Pf (T : space) : space := percolate_b N (graft B T A).

  Lemma G_HA : length A = nvars N.
  Proof. apply trap_space_length. exact HtA. Qed.

  Lemma G_glen : forall T, length (graft B T A) = nvars N.
  Proof. intro T. rewrite graft_length. apply G_HA. Qed.

  Lemma G_trap : forall T, subT T -> trap_space N (graft B T A).
  Proof. intros T [Ht _]. apply (graft_trap N sp B T A HtS Hc Ht HtA HAsp HAfree). Qed.

  Lemma G_steps : forall T, subT T -> forall X Y, clos_refl_trans space (perc_step N) X Y ->
    subspace X sp = true /\ (forall j, In j B -> nth j X None = nth j T None) ->
    subspace Y sp = true /\ (forall j, In j B -> nth j Y None = nth j T None).
  Proof.
    intros T HT X Y Hst. pose proof (G_len T HT) as HlT.
    induction Hst as [x y Hst | x | x y z H1 IH1 H2 IH2].
    - destruct Hst as [X i v Hi Hn Hcon]. intros [Hsub HB].
      assert (HlX : length X = nvars N) by (rewrite (subspace_length X sp Hsub); apply G_HS).
      assert (HiB : ~ In i B).
      { intro HiB. destruct HT as [HtT HpT].
        apply (HpT i v); [rewrite sub_net_nvars; exact Hi|rewrite <- (HB i HiB); exact Hn|].
        intros s' Hwf' Hs'.
        assert (Hs'len : length s' = nvars N) by (unfold wf_state in Hwf'; rewrite sub_net_nvars in Hwf'; exact Hwf').
        assert (Hlsp : length s' = length sp) by (rewrite G_HS; exact Hs'len).
        rewrite (sub_net_upd_in_gen N sp B i s' Hi HiB).
        set (t := impose sp s').
        assert (Htlen : length t = nvars N) by (unfold t; rewrite impose_length by exact Hlsp; apply G_HS).
        assert (Htsp : in_space t sp = true) by (unfold t; apply impose_in_space; exact Hlsp).
        set (s2 := fill (nvars N) X t).
        assert (Hs2X : in_space s2 X = true) by (apply fill_in_space; exact HlX).
        assert (Hs2wf : wf_state N s2) by (unfold wf_state, s2; apply fill_length).
        assert (Hs2sp : in_space s2 sp = true).
        { apply (proj1 (subspace_spec X sp (subspace_length X sp Hsub)) Hsub s2 Hs2X). }
        rewrite <- (Hcon s2 Hs2wf Hs2X).
        apply (closed_in_reads_B N sp B i t s2 Hc HiB Htlen Hs2wf Htsp Hs2sp).
        intros j Hj. pose proof (BM_closed_lt N sp B j Hc Hj) as Hjl.
        unfold s2. rewrite (nth_fill _ X t j Hjl). rewrite (HB j Hj).
        destruct (nth j T None) as [y|] eqn:Ey; [|reflexivity].
        unfold t. rewrite (nth_impose sp s' j Hlsp), (BM_closed_free N sp B j Hc Hj).
        apply (proj1 (in_space_nth s' T (in_space_length s' T Hs')) Hs' j y Ey). }
      split.
      + apply (subspace_trans _ X sp); [apply P_set_nth_subspace; exact Hn|exact Hsub].
      + intros j Hj. rewrite nth_set_nth_neq; [apply HB; exact Hj|].
        intro Heq. subst j. contradiction.
    - auto.
    - intros H. apply IH2. apply IH1. exact H.
  Qed.

  Lemma G_graft_B : forall T j, In j B -> nth j (graft B T A) None = nth j T None.
  Proof.
    intros T j Hj. rewrite nth_graft by (rewrite G_HA; apply (BM_closed_lt N sp B j Hc Hj)).
    rewrite (proj2 (BM_mem_nat_In j B) Hj). reflexivity.
  Qed.

  Lemma G_graft_sub_A : forall T, subspace (graft B T A) A = true.
  Proof. intro T. apply graft_sub. exact HAfree. Qed.

  Lemma G_B : forall T j, subT T -> In j B -> nth j (Pf T) None = nth j T None.
  Proof.
    intros T j HT Hj. unfold Pf.
    destruct (G_steps T HT (graft B T A) (percolate_b N (graft B T A)) (percolate_b_steps N _ (G_glen T))) as [_ H].
    - split; [apply (subspace_trans _ A sp); [apply G_graft_sub_A|exact HAsp]|].
      intros j0 Hj0. apply G_graft_B. exact Hj0.
    - apply H. exact Hj.
  Qed.

  Lemma G_sub_A : forall T, subspace (Pf T) A = true.
  Proof.
    intro T. unfold Pf. apply (subspace_trans _ (graft B T A) A); [apply percolate_b_sub; apply G_glen|apply G_graft_sub_A].
  Qed.

  Lemma G_graft_mono : forall T T', length T = length T' -> subspace T T' = true ->
    subspace (graft B T A) (graft B T' A) = true.
  Proof.
    intros T T' Hl Hs. apply subspace_nth; [rewrite !graft_length; reflexivity|].
    intros i v Hi.
    assert (Hil : i < length A) by (rewrite <- (graft_length B T' A); apply (nth_some_lt _ i v Hi)).
    rewrite nth_graft in Hi by exact Hil. rewrite nth_graft by exact Hil.
    destruct (mem_nat i B); [|exact Hi].
    apply (proj1 (subspace_nth T T' Hl) Hs i v Hi).
  Qed.

  Lemma G_mono : forall T T', subT T -> subT T' -> subspace T T' = true -> subspace (Pf T) (Pf T') = true.
  Proof.
    intros T T' HT HT' Hs. unfold Pf.
    apply percolate_mono_weak; [apply G_trap; exact HT|apply G_glen|apply G_glen|].
    apply G_graft_mono; [rewrite (G_len T HT), (G_len T' HT'); reflexivity|exact Hs].
  Qed.

  Lemma G_inj : forall T T', subT T -> subT T' -> Pf T = Pf T' -> T = T'.
  Proof.
    intros T T' HT HT' Heq.
    apply (nth_ext T T' None None); [rewrite (G_len T HT), (G_len T' HT'); reflexivity|].
    intros i Hi. rewrite (G_len T HT) in Hi.
    destruct (mem_nat i B) eqn:E.
    - apply BM_mem_nat_In in E. rewrite <- (G_B T i HT E), <- (G_B T' i HT' E), Heq. reflexivity.
    - apply BM_mem_nat_false in E. rewrite (G_out T i HT Hi E), (G_out T' i HT' Hi E). reflexivity.
  Qed.

  Lemma G_strict : forall T T', subT T -> subT T' -> strict_subspace T T' -> strict_subspace (Pf T) (Pf T').
  Proof.
    intros T T' HT HT' [Hs Hne]. split; [apply G_mono; assumption|].
    intro Heq. apply Hne. apply G_inj; assumption.
  Qed.

  Hypothesis HApc : percolate_b N A = A.

  Lemma G_root : Pf Rsub = A.
  Proof.
    unfold Pf. rewrite <- HApc at 2. f_equal.
    apply (nth_ext _ A None None); [apply graft_length|].
    intros i Hi. rewrite graft_length in Hi. rewrite nth_graft by exact Hi.
    destruct (mem_nat i B) eqn:E; [|reflexivity].
    apply BM_mem_nat_In in E. rewrite (Rsub_free i E), (HAfree i E). reflexivity.
  Qed.

  (* a node of the sub-diagram other than its root is attached strictly inside the attach space *)
  Lemma G_below : forall T, subT T -> T <> Rsub -> strict_subspace (Pf T) A.
  Proof.
    intros T HT Hne. split; [apply G_sub_A|].
    intro Heq. apply Hne. apply G_inj; [exact HT|apply Rsub_subT|]. rewrite G_root. exact Heq.
  Qed.
End Graft.

(* ====================================================================== *)
(* D. attaching a component sub-diagram                                    *)
(* ====================================================================== *)

Lemma SI_spaces_inj : forall N d i j, SI N d -> i < size d -> j < size d ->
  n_space (get d i) = n_space (get d j) -> i = j.
Proof.
  intros N d i j (_ & _ & Hnd) Hi Hj Heq.
  rewrite (NoDup_nth (spaces d) []) in Hnd.
  apply Hnd; try (rewrite length_spaces; assumption). rewrite !nth_spaces. exact Heq.
Qed.

Lemma SI_get : forall N d i, SI N d -> i < size d ->
  trap_space N (n_space (get d i)) /\ percolate_b N (n_space (get d i)) = n_space (get d i).
Proof. intros N d i H Hi. apply WI_get; [apply H|exact Hi]. Qed.

Lemma strict_sub_trans : forall x y z, strict_subspace x y -> subspace y z = true -> strict_subspace x z.
Proof.
  intros x y z [H1 H2] H3. split; [apply (subspace_trans x y z H1 H3)|].
  intro Heq. subst z. apply H2. apply subspace_antisym; assumption.
Qed.

Lemma strict_nfixed : forall x y, strict_subspace x y -> nfixed y < nfixed x.
Proof.
  intros x y [H1 H2]. destruct (P_subspace_nfixed x y H1) as [Hle Heq].
  destruct (le_lt_dec (nfixed x) (nfixed y)) as [Hl|Hl]; [exfalso; apply H2; apply Heq; exact Hl|exact Hl].
Qed.

Record senv (N : net) (sp : space) (B : list nat) (rest : list (list nat)) (sub : sd) : Prop := {
  se_trap : trap_space N sp;
  se_pc : perc_closed N sp;
  se_closed : closed_in N sp B;
  se_rest : forall B', In B' rest -> closed_in N sp B' /\ disj B B';
  se_sub : SI (sub_net N sp B) sub;
  se_root : n_space (get sub 0) = Rsub N sp B
}.

Lemma senv_attach_env : forall N sp B rest sub, senv N sp B rest sub -> attach_env N sp B rest sub.
Proof.
  intros N sp B rest sub H. constructor.
  - apply (se_trap _ _ _ _ _ H).
  - apply (se_pc _ _ _ _ _ H).
  - apply (se_closed _ _ _ _ _ H).
  - apply (se_rest _ _ _ _ _ H).
  - intros i Hi. apply (SI_get _ sub i (se_sub _ _ _ _ _ H) Hi).
Qed.

Lemma senv_subT : forall N sp B rest sub i, senv N sp B rest sub -> i < size sub ->
  subT N sp B (n_space (get sub i)).
Proof.
  intros N sp B rest sub i H Hi. destruct (SI_get _ sub i (se_sub _ _ _ _ _ H) Hi) as [Ht Hp].
  split; [exact Ht|]. apply (proj1 (percolate_b_fixed_iff_closed _ _ (trap_space_length _ _ Ht)) Hp).
Qed.

Lemma seq_S_cons : forall k n, seq k (S n) = k :: seq (S k) n.
Proof. reflexivity. Qed.

(* attach_nodes_inv with positions: the i-th step extends a map of length i *)
Lemma attach_nodes_inv_pos : forall (P : sd -> list nat -> list nat -> Prop) N cm B sub A lo hi,
  (forall i d map_ mins, lo <= i < hi -> length map_ = i -> P d map_ mins ->
     P (fst (fst (an_step N B sub A i d mins))) (map_ ++ [snd (fst (an_step N B sub A i d mins))])
       (snd (an_step N B sub A i d mins)) /\
     P (set_empty_seeds (fst (fst (an_step N B sub A i d mins))) (snd (fst (an_step N B sub A i d mins))))
       (map_ ++ [snd (fst (an_step N B sub A i d mins))]) (snd (an_step N B sub A i d mins))) ->
  forall n k d map_ mins tape, lo <= k -> k + n <= hi -> length map_ = k -> P d map_ mins ->
  exists m mi, P (fst (fst (attach_nodes N cm B sub A (seq k n) d map_ mins tape))) m mi /\
    (forall m' mi', snd (fst (attach_nodes N cm B sub A (seq k n) d map_ mins tape)) = Some (m', mi') ->
                    m' = m /\ mi' = mi /\ length m' = k + n).
Proof.
  intros P N cm B sub A lo hi Hstep n. induction n as [|n IH]; intros k d map_ mins tape Hlo Hhi Hlen HP.
  - simpl seq. rewrite attach_nodes_nil. simpl. exists map_, mins. split; [exact HP|].
    intros m' mi' H. injection H as H1 H2. subst m' mi'. split; [reflexivity|]. split; [reflexivity|lia].
  - rewrite seq_S_cons, attach_nodes_cons.
    assert (Hk : lo <= k < hi) by lia.
    destruct (Hstep k d map_ mins Hk Hlen HP) as [H1 H2].
    cbv zeta.
    assert (Hlen' : length (map_ ++ [snd (fst (an_step N B sub A k d mins))]) = S k).
    { rewrite app_length. simpl. lia. }
    assert (Hfin : forall d2 t,
       P d2 (map_ ++ [snd (fst (an_step N B sub A k d mins))]) (snd (an_step N B sub A k d mins)) ->
       exists m mi, P (fst (fst (attach_nodes N cm B sub A (seq (S k) n) d2
                         (map_ ++ [snd (fst (an_step N B sub A k d mins))]) (snd (an_step N B sub A k d mins)) t))) m mi /\
         (forall m' mi', snd (fst (attach_nodes N cm B sub A (seq (S k) n) d2
                         (map_ ++ [snd (fst (an_step N B sub A k d mins))]) (snd (an_step N B sub A k d mins)) t)) = Some (m', mi') ->
                    m' = m /\ mi' = mi /\ length m' = k + S n)).
    { intros d2 t HP2.
      assert (Hlo' : lo <= S k) by lia. assert (Hhi' : S k + n <= hi) by lia.
      destruct (IH (S k) d2 _ _ t Hlo' Hhi' Hlen' HP2) as (m & mi & Hm & Heq).
      exists m, mi. split; [exact Hm|]. intros m' mi' E. destruct (Heq m' mi' E) as (E1 & E2 & E3).
      split; [exact E1|]. split; [exact E2|lia]. }
    destruct cm.
    + destruct tape as [|[[|]|] t].
      * simpl. eexists; eexists. split; [exact H1|]. intros m' mi' H. discriminate.
      * apply Hfin. exact H2.
      * apply Hfin. exact H1.
      * simpl. eexists; eexists. split; [exact H1|]. intros m' mi' H. discriminate.
    + apply Hfin. exact H1.
Qed.

Lemma an_step_SI : forall N sp B rest sub A i d mins, senv N sp B rest sub -> i < size sub ->
  trap_space N A -> subspace A sp = true -> (forall v, In v B -> nth v A None = None) -> SI N d ->
  SI N (fst (fst (an_step N B sub A i d mins))) /\
  snd (fst (an_step N B sub A i d mins)) < size (fst (fst (an_step N B sub A i d mins))) /\
  n_space (get (fst (fst (an_step N B sub A i d mins))) (snd (fst (an_step N B sub A i d mins)))) =
    Pf N B A (n_space (get sub i)) /\
  (forall m, In m (snd (an_step N B sub A i d mins)) -> In m mins \/ m = snd (fst (an_step N B sub A i d mins))).
Proof.
  intros N sp B rest sub A i d mins Henv Hi HtA HAsp HAfree Hsi.
  pose proof (senv_subT N sp B rest sub i Henv Hi) as HT.
  pose proof (G_trap N sp B (se_trap _ _ _ _ _ Henv) (se_closed _ _ _ _ _ Henv) A HtA HAsp HAfree _ HT) as HtG.
  unfold an_step. unfold Pf.
  destruct (SI_ensure_node_full N d None (graft B (n_space (get sub i)) A) Hsi HtG) as (H1 & H2 & H3);
    [intros p E; discriminate|].
  destruct (ensure_node N d None (graft B (n_space (get sub i)) A)) as [d1 mid]. simpl in H1, H2, H3.
  destruct (is_minimal sub i); simpl.
  - split; [exact H1|]. split; [exact H2|]. split; [exact H3|].
    intros m Hm. apply in_app_or in Hm. destruct Hm as [Hm|[Hm|[]]]; [left; exact Hm|right; symmetry; exact Hm].
  - split; [apply SI_upd_flag; [constructor|apply SI_discard_if_stub; exact H1]|].
    assert (He : extends d1 (upd_node (discard_if_stub d1 mid) mid (fun y => set_exp y true))).
    { eapply extends_trans; [apply discard_if_stub_extends|apply upd_flag_extends; constructor]. }
    split; [apply (extends_lt d1 _ mid He H2)|]. split; [rewrite (extends_space d1 _ mid He H2); exact H3|].
    intros m Hm. left. exact Hm.
Qed.

Lemma attach_edges_SI : forall N sp B rest sub A map_, senv N sp B rest sub ->
  trap_space N A -> subspace A sp = true -> (forall v, In v B -> nth v A None = None) ->
  forall pairs d, SI N d ->
  (forall a b, In (a, b) pairs -> a < size sub /\ b < size sub /\
               strict_subspace (n_space (get sub b)) (n_space (get sub a))) ->
  (forall j, j < size sub -> nth j map_ 0 < size d /\
             n_space (get d (nth j map_ 0)) = Pf N B A (n_space (get sub j))) ->
  exists d2, attach_edges B sub map_ pairs d = Some d2 /\ SI N d2 /\ extends d d2.
Proof.
  intros N sp B rest sub A map_ Henv HtA HAsp HAfree pairs.
  induction pairs as [|[a b] r IH]; intros d Hsi Hp Hmap.
  - rewrite attach_edges_nil. exists d. split; [reflexivity|]. split; [exact Hsi|apply extends_refl].
  - rewrite attach_edges_cons.
    destruct (Hp a b (or_introl eq_refl)) as (Ha & Hb & Hst).
    destruct (Hmap a Ha) as [Ma1 Ma2]. destruct (Hmap b Hb) as [Mb1 Mb2].
    assert (Hstrict : strict_subspace (n_space (get d (nth b map_ 0))) (n_space (get d (nth a map_ 0)))).
    { rewrite Ma2, Mb2.
      apply (G_strict N sp B (se_trap _ _ _ _ _ Henv) (se_closed _ _ _ _ _ Henv) A HtA HAsp HAfree);
        [apply (senv_subT N sp B rest sub b Henv Hb)|apply (senv_subT N sp B rest sub a Henv Ha)|exact Hst]. }
    destruct (Nat.eqb (nth a map_ 0) (nth b map_ 0)) eqn:E.
    + exfalso. apply Nat.eqb_eq in E. rewrite E in Hstrict. destruct Hstrict as [_ Hne]. apply Hne. reflexivity.
    + set (d' := ensure_edge d (nth a map_ 0) (nth b map_ 0) (only_on B (first_motif sub a b))).
      destruct (IH d') as (d2 & E2 & S2 & X2).
      * apply SI_ensure_edge; assumption.
      * intros a0 b0 Hin. apply Hp. right. exact Hin.
      * intros j Hj. destruct (Hmap j Hj) as [M1 M2]. unfold d'.
        rewrite size_ensure_edge, n_space_ensure_edge. split; assumption.
      * exists d2. split; [exact E2|]. split; [exact S2|].
        eapply extends_trans; [apply ensure_edge_extends|exact X2].
Qed.

Lemma as_close_res : forall cm d2 a mins tape1,
  snd (fst (fst (as_close cm d2 a mins tape1))) = RUnit \/
  snd (fst (fst (as_close cm d2 a mins tape1))) = RRaised ErrLimit.
Proof.
  intros. unfold as_close. destruct cm; [destruct tape1 as [|[[|]|] t]|]; simpl; auto.
Qed.

Lemma attach_scc_SI : forall N cm sp B rest sub d a tape, senv N sp B rest sub -> SI N d ->
  good_at sp (B :: rest) d a ->
  SI N (fst (fst (fst (attach_scc N cm B sub d a tape)))) /\
  (snd (fst (fst (attach_scc N cm B sub d a tape))) = RUnit \/
   snd (fst (fst (attach_scc N cm B sub d a tape))) = RRaised ErrLimit) /\
  (forall m, In m (snd (fst (attach_scc N cm B sub d a tape))) ->
     m < size (fst (fst (fst (attach_scc N cm B sub d a tape)))) /\
     ((size sub = 1 /\ m = a) \/
      strict_subspace (n_space (get (fst (fst (fst (attach_scc N cm B sub d a tape)))) m)) (n_space (get d a)))).
Proof.
  intros N cm sp B rest sub d a tape Henv Hsi Hga.
  rewrite attach_scc_unfold.
  destruct (Nat.eqb (size sub) 1) eqn:Esz; simpl.
  { split; [exact Hsi|]. split; [left; reflexivity|]. intros m [Hm|[]]. subst m.
    split; [apply Hga|]. left. split; [apply Nat.eqb_eq; exact Esz|reflexivity]. }
  pose proof Hga as (Ha & HAsp & HAfree0).
  destruct (SI_get N d a Hsi Ha) as [HtA HApc].
  set (A := n_space (get d a)) in *.
  assert (HAfree : forall v, In v B -> nth v A None = None).
  { intros v Hv. apply (HAfree0 B v); [left; reflexivity|exact Hv]. }
  pose proof (se_sub _ _ _ _ _ Henv) as Hsub.
  assert (Hpos : 0 < size sub) by (destruct Hsub as ((Hp & _) & _); exact Hp).
  pose proof (G_root N sp B (se_trap _ _ _ _ _ Henv) (se_pc _ _ _ _ _ Henv) (se_closed _ _ _ _ _ Henv) A HAfree HApc) as Hroot.
  set (T := fun j => n_space (get sub j)).
  set (P := fun (d' : sd) (map_ mins : list nat) =>
              SI N d' /\ extends d d' /\
              (forall j, j < length map_ -> nth j map_ 0 < size d' /\ n_space (get d' (nth j map_ 0)) = Pf N B A (T j)) /\
              (forall m, In m mins -> m < size d' /\ exists j, 1 <= j < size sub /\ n_space (get d' m) = Pf N B A (T j))).
  destruct (attach_nodes_inv_pos P N cm B sub A 1 (size sub)) with (n := size sub - 1) (k := 1) (d := d)
    (map_ := [a]) (mins := @nil nat) (tape := tape) as (m & mi & (Hs1 & He1 & Hmap & Hmins) & Heq).
  - intros i d0 map_ mins Hi Hlen (Hs0 & He0 & Hmap0 & Hmins0).
    assert (Hil : i < size sub) by lia.
    destruct (an_step_SI N sp B rest sub A i d0 mins Henv Hil HtA HAsp HAfree Hs0) as (Hs2 & Hmid & Hspm & Hm2).
    pose proof (an_step_extends N B sub A i d0 mins) as He2.
    assert (K : forall d', SI N d' -> extends (fst (fst (an_step N B sub A i d0 mins))) d' ->
              P d' (map_ ++ [snd (fst (an_step N B sub A i d0 mins))]) (snd (an_step N B sub A i d0 mins))).
    { intros d' Hs' He'.
      assert (He0' : extends d0 d') by (eapply extends_trans; eassumption).
      split; [exact Hs'|]. split; [eapply extends_trans; eassumption|]. split.
      - intros j Hj. rewrite app_length in Hj. simpl in Hj.
        destruct (Nat.eq_dec j (length map_)) as [Ej|Ej].
        + subst j. rewrite app_nth2 by lia. rewrite Nat.sub_diag. simpl.
          split; [apply (extends_lt _ d' _ He' Hmid)|].
          rewrite (extends_space _ d' _ He' Hmid), Hspm, Hlen. reflexivity.
        + assert (Hj' : j < length map_) by lia. rewrite app_nth1 by exact Hj'.
          destruct (Hmap0 j Hj') as [M1 M2].
          split; [apply (extends_lt d0 d' _ He0' M1)|]. rewrite (extends_space d0 d' _ He0' M1). exact M2.
      - intros x Hx. destruct (Hm2 x Hx) as [Hx1|Hx1].
        + destruct (Hmins0 x Hx1) as (M1 & j & Hj & M2).
          split; [apply (extends_lt d0 d' _ He0' M1)|]. exists j. split; [exact Hj|].
          rewrite (extends_space d0 d' _ He0' M1). exact M2.
        + subst x. split; [apply (extends_lt _ d' _ He' Hmid)|]. exists i. split; [lia|].
          rewrite (extends_space _ d' _ He' Hmid). exact Hspm. }
    split.
    + apply K; [exact Hs2|apply extends_refl].
    + apply K; [apply SI_set_empty_seeds; exact Hs2|apply set_empty_seeds_extends].
  - lia.
  - lia.
  - reflexivity.
  - split; [exact Hsi|]. split; [apply extends_refl|]. split.
    + intros j Hj. simpl in Hj. assert (j = 0) by lia. subst j. simpl. split; [exact Ha|].
      unfold T. rewrite (se_root _ _ _ _ _ Henv), Hroot. reflexivity.
    + intros x [].
  - cbv zeta. fold A.
    set (r := attach_nodes N cm B sub A (seq 1 (size sub - 1)) d [a] [] tape) in *.
    destruct (snd (fst r)) as [[map_ mins]|] eqn:Er.
    2:{ simpl. split; [exact Hs1|]. split; [right; reflexivity|intros x []]. }
    destruct (Heq map_ mins eq_refl) as (E1 & E2 & E3). subst m mi.
    assert (Hlm : length map_ = size sub) by lia.
    destruct (attach_edges_SI N sp B rest sub A map_ Henv HtA HAsp HAfree
                (flat_map (fun a0 => map (fun b => (a0, b)) (successors sub a0)) (seq 0 (size sub)))
                (fst (fst r)) Hs1) as (d2 & Ee & Hs2 & He2).
    + intros x y Hin. apply in_flat_map in Hin. destruct Hin as (x0 & Hx0 & Hin).
      apply in_map_iff in Hin. destruct Hin as (y0 & Eq & Hy0). injection Eq as Eq1 Eq2. subst x0 y0.
      apply in_seq in Hx0. split; [lia|].
      apply (SI_successors_strict _ sub x y Hsub Hy0).
    + intros j Hj. apply Hmap. lia.
    + rewrite Ee.
      destruct (as_close_cases (fun d' => SI N d' /\ extends d2 d') cm d2 a mins (snd r)) as [[Hs3 He3] Hsubm].
      * intros d0 f Hf [Hs0 He0]. split; [apply SI_upd_flag; assumption|].
        eapply extends_trans; [exact He0|apply upd_flag_extends; exact Hf].
      * split; [exact Hs2|apply extends_refl].
      * split; [exact Hs3|]. split; [apply as_close_res|].
        intros x Hx. apply Hsubm in Hx. destruct (Hmins x Hx) as (M1 & j & Hj & M2).
        assert (Hext : extends (fst (fst r)) (fst (fst (fst (as_close cm d2 a mins (snd r)))))).
        { eapply extends_trans; eassumption. }
        split; [apply (extends_lt _ _ x Hext M1)|]. right.
        rewrite (extends_space _ _ x Hext M1), M2.
        apply (G_below N sp B (se_trap _ _ _ _ _ Henv) (se_pc _ _ _ _ _ Henv) (se_closed _ _ _ _ _ Henv)
                 A HtA HAsp HAfree HApc).
        -- apply (senv_subT N sp B rest sub j Henv). lia.
        -- unfold T. rewrite <- (se_root _ _ _ _ _ Henv). intro Hc.
           assert (j = 0) by (apply (SI_spaces_inj _ sub j 0 Hsub); [lia|exact Hpos|exact Hc]). lia.
Qed.

Lemma attach_all_size1 : forall N cm B sub ats d acc tape, size sub = 1 ->
  attach_all N cm B sub d ats acc tape = (d, RUnit, acc ++ ats, tape).
Proof.
  intros N cm B sub ats. induction ats as [|a r IH]; intros d acc tape Hsz.
  - rewrite attach_all_nil, app_nil_r. reflexivity.
  - rewrite attach_all_cons, attach_scc_unfold. rewrite (proj2 (Nat.eqb_eq _ _) Hsz). cbv zeta. simpl.
    rewrite (IH d (acc ++ [a]) tape Hsz), <- app_assoc. reflexivity.
Qed.

Lemma attach_all_SI : forall N cm sp B rest sub, senv N sp B rest sub -> size sub <> 1 ->
  forall ats d acc tape, SI N d ->
  (forall a, In a ats -> good_at sp (B :: rest) d a) ->
  SI N (fst (fst (fst (attach_all N cm B sub d ats acc tape)))) /\
  (snd (fst (fst (attach_all N cm B sub d ats acc tape))) = RUnit \/
   snd (fst (fst (attach_all N cm B sub d ats acc tape))) = RRaised ErrLimit) /\
  (forall m, In m (snd (fst (attach_all N cm B sub d ats acc tape))) -> In m acc \/
     (m < size (fst (fst (fst (attach_all N cm B sub d ats acc tape)))) /\
      strict_subspace (n_space (get (fst (fst (fst (attach_all N cm B sub d ats acc tape)))) m)) sp)).
Proof.
  intros N cm sp B rest sub Henv Hsz ats. induction ats as [|a r IH]; intros d acc tape Hsi Hats.
  - rewrite attach_all_nil. simpl. split; [exact Hsi|]. split; [left; reflexivity|]. intros m Hm. left. exact Hm.
  - rewrite attach_all_cons. cbv zeta.
    pose proof (Hats a (or_introl eq_refl)) as Hga.
    destruct (attach_scc_SI N cm sp B rest sub d a tape Henv Hsi Hga) as (Hs1 & Hr1 & Hm1).
    pose proof (attach_scc_extends N cm B sub d a tape) as He1.
    set (x := attach_scc N cm B sub d a tape) in *.
    assert (Hstop : forall res, res = RUnit \/ res = RRaised ErrLimit ->
              SI N (fst (fst (fst (fst (fst (fst x)), res, acc, snd x)))) /\
              (snd (fst (fst (fst (fst (fst x)), res, acc, snd x))) = RUnit \/
               snd (fst (fst (fst (fst (fst x)), res, acc, snd x))) = RRaised ErrLimit) /\
              (forall m, In m (snd (fst (fst (fst (fst x)), res, acc, snd x))) -> In m acc \/
                (m < size (fst (fst (fst (fst (fst (fst x)), res, acc, snd x)))) /\
                 strict_subspace (n_space (get (fst (fst (fst (fst (fst (fst x)), res, acc, snd x)))) m)) sp))).
    { intros res Hres. simpl. split; [exact Hs1|]. split; [exact Hres|]. intros m Hm. left. exact Hm. }
    destruct Hr1 as [Hr1|Hr1]; rewrite Hr1; [|apply Hstop; right; reflexivity].
    destruct (IH (fst (fst (fst x))) (acc ++ snd (fst x)) (snd x) Hs1) as (Hs2 & Hr2 & Hm2).
    + intros a0 Ha0. apply (good_at_extends sp (B :: rest) d _ a0 He1). apply Hats. right. exact Ha0.
    + split; [exact Hs2|]. split; [exact Hr2|].
      intros m Hm. destruct (Hm2 m Hm) as [Hin|Hin]; [|right; exact Hin].
      apply in_app_or in Hin. destruct Hin as [Hin|Hin]; [left; exact Hin|right].
      destruct (Hm1 m Hin) as [Hlt [[Hc _]|Hst]]; [contradiction|].
      pose proof (attach_all_extends N cm B sub r (fst (fst (fst x))) (acc ++ snd (fst x)) (snd x)) as He2.
      split; [apply (extends_lt _ _ m He2 Hlt)|].
      rewrite (extends_space _ _ m He2 Hlt).
      apply (strict_sub_trans _ _ sp Hst). apply Hga.
Qed.

(* ====================================================================== *)
(* E. the components of one node                                           *)
(* ====================================================================== *)

Definition exp_good (F : nat) (expander : expander_t) : Prop :=
  forall N' d' t', SI N' d' ->
    SI N' (fst (fst (expander N' d' t'))) /\ extends d' (fst (fst (expander N' d' t'))) /\
    snd (fst (expander N' d' t')) <> RRaised ErrAssert /\
    (forall m, nvars N' <= nfixed (n_space (get d' 0)) + m -> m + 2 <= F ->
               snd (fst (expander N' d' t')) <> RFuel).

Lemma Rsub_nfixed_le : forall N sp B, nfixed (Rsub N sp B) <= nvars N.
Proof.
  intros N sp B. pose proof (P_nfixed_le_length (Rsub N sp B)) as H.
  rewrite (G_len N sp B _ (Rsub_subT N sp B)) in H. exact H.
Qed.

Lemma scc_components_SI : forall expander F N cm sp x k, exp_good F expander ->
  trap_space N sp -> perc_closed N sp -> nvars N <= nfixed sp + k ->
  forall comps d ats tape,
  (forall B, In B comps -> closed_in N sp B) -> pw_disj comps -> SI N d ->
  (forall a, In a ats -> good_at sp comps d a) ->
  (ats = [x] \/ forall m, In m ats -> strict_subspace (n_space (get d m)) sp) ->
  (forall B, In B comps -> nfixed sp < nfixed (Rsub N sp B)) ->
  SI N (fst (fst (fst (scc_components expander N cm sp comps d ats tape)))) /\
  snd (fst (fst (scc_components expander N cm sp comps d ats tape))) <> RRaised ErrAssert /\
  (k + 1 <= F -> snd (fst (fst (scc_components expander N cm sp comps d ats tape))) <> RFuel) /\
  (forall m, In m (snd (fst (scc_components expander N cm sp comps d ats tape))) ->
     m < size (fst (fst (fst (scc_components expander N cm sp comps d ats tape))))) /\
  (snd (fst (scc_components expander N cm sp comps d ats tape)) = [x] \/
   forall m, In m (snd (fst (scc_components expander N cm sp comps d ats tape))) ->
     strict_subspace (n_space (get (fst (fst (fst (scc_components expander N cm sp comps d ats tape)))) m)) sp).
Proof.
  intros expander F N cm sp x k Hexp HtS Hpc Hk comps.
  induction comps as [|B r IH]; intros d ats tape Hcl Hpw Hsi Hats Hinv Hnf.
  - rewrite scc_components_nil. simpl. split; [exact Hsi|]. split; [discriminate|]. split; [discriminate|].
    split; [intros m Hm; apply (Hats m Hm)|exact Hinv].
  - rewrite scc_components_cons. cbv zeta.
    set (Nsub := sub_net N sp B).
    destruct (Hexp Nsub (init Nsub) tape (init_SI Nsub)) as (Hsub & Hesub & Hna & Hnf0).
    set (e := expander Nsub (init Nsub) tape) in *.
    assert (Hfuel : k + 1 <= F -> snd (fst e) <> RFuel).
    { intro HF. apply (Hnf0 (k - 1)).
      - rewrite init_root_space. unfold Nsub.
        change (percolate_b (sub_net N sp B) (top_space (nvars (sub_net N sp B)))) with (Rsub N sp B).
        rewrite sub_net_nvars.
        pose proof (Hnf B (or_introl eq_refl)). pose proof (Rsub_nfixed_le N sp B). lia.
      - pose proof (Hnf B (or_introl eq_refl)). pose proof (Rsub_nfixed_le N sp B). lia. }
    assert (Hstop : forall (rs : result) (t : tape_t), rs <> RRaised ErrAssert -> (k + 1 <= F -> rs <> RFuel) ->
       SI N (fst (fst (fst (d, rs, ats, t)))) /\ snd (fst (fst (d, rs, ats, t))) <> RRaised ErrAssert /\
       (k + 1 <= F -> snd (fst (fst (d, rs, ats, t))) <> RFuel) /\
       (forall m, In m (snd (fst (d, rs, ats, t))) -> m < size (fst (fst (fst (d, rs, ats, t))))) /\
       (snd (fst (d, rs, ats, t)) = [x] \/
        forall m, In m (snd (fst (d, rs, ats, t))) -> strict_subspace (n_space (get (fst (fst (fst (d, rs, ats, t)))) m)) sp)).
    { intros rs t H1 H2. simpl. split; [exact Hsi|]. split; [exact H1|]. split; [exact H2|].
      split; [intros m Hm; apply (Hats m Hm)|exact Hinv]. }
    destruct (snd (fst e)) as [|[|]| | | |] eqn:Ers; try (apply Hstop; [exact Hna|exact Hfuel]).
    destruct Hpw as [Hdis Hpw'].
    assert (Henv : senv N sp B r (fst (fst e))).
    { constructor; [exact HtS|exact Hpc|apply Hcl; left; reflexivity| |exact Hsub|].
      - intros B' HB'. split; [apply Hcl; right; exact HB'|apply Hdis; exact HB'].
      - assert (Hp0 : 0 < size (init Nsub)) by (apply (swf_size _ _ (init_SWF Nsub))).
        rewrite (extends_space _ _ 0 Hesub Hp0), init_root_space. reflexivity. }
    assert (Hcl' : forall B', In B' r -> closed_in N sp B') by (intros B' HB'; apply Hcl; right; exact HB').
    assert (Hnf' : forall B', In B' r -> nfixed sp < nfixed (Rsub N sp B')) by (intros B' HB'; apply Hnf; right; exact HB').
    destruct (Nat.eq_dec (size (fst (fst e))) 1) as [Hsz|Hsz].
    + rewrite (attach_all_size1 N cm B (fst (fst e)) ats d [] (snd e) Hsz). simpl.
      apply IH; try assumption.
      intros a Ha. apply (good_at_weaken sp B r d a). apply Hats. exact Ha.
    + destruct (attach_all_SI N cm sp B r (fst (fst e)) Henv Hsz ats d [] (snd e) Hsi Hats) as (Hs1 & Hr1 & Hm1).
      destruct (attach_all_WI N cm sp B r (fst (fst e)) (senv_attach_env _ _ _ _ _ Henv) ats d [] (snd e)
                  (SI_WI N d Hsi) Hats) as [_ Hg1]; [intros a []|].
      set (y := attach_all N cm B (fst (fst e)) d ats [] (snd e)) in *.
      assert (Hstrict : forall m, In m (snd (fst y)) -> strict_subspace (n_space (get (fst (fst (fst y))) m)) sp).
      { intros m Hm. destruct (Hm1 m Hm) as [[]|[_ H]]. exact H. }
      destruct Hr1 as [Hr1|Hr1]; rewrite Hr1.
      * apply IH; try assumption. right. exact Hstrict.
      * simpl. split; [exact Hs1|]. split; [discriminate|]. split; [discriminate|].
        split; [intros m Hm; apply (Hg1 m Hm)|right; exact Hstrict].
Qed.

(* ====================================================================== *)
(* F. the level loop                                                       *)
(* ====================================================================== *)

Definition cur_ok (N : net) (k : nat) (d : sd) (cur : list nat) : Prop :=
  forall x, In x cur -> x < size d /\ nvars N <= nfixed (n_space (get d x)) + k.
Definition nxt_ok (N : net) (k : nat) (d : sd) (next : list nat) : Prop :=
  forall y, In y next -> y < size d /\ nvars N + 1 <= nfixed (n_space (get d y)) + k.

Lemma cur_ok_extends : forall N k d d' l, extends d d' -> cur_ok N k d l -> cur_ok N k d' l.
Proof.
  intros N k d d' l He H x Hx. destruct (H x Hx) as [H1 H2].
  split; [apply (extends_lt d d' x He H1)|]. rewrite (extends_space d d' x He H1). exact H2.
Qed.

Lemma nxt_ok_extends : forall N k d d' l, extends d d' -> nxt_ok N k d l -> nxt_ok N k d' l.
Proof.
  intros N k d d' l He H x Hx. destruct (H x Hx) as [H1 H2].
  split; [apply (extends_lt d d' x He H1)|]. rewrite (extends_space d d' x He H1). exact H2.
Qed.

Lemma nxt_ok_union : forall N k d a b, nxt_ok N k d a -> nxt_ok N k d b -> nxt_ok N k d (union_nat a b).
Proof.
  intros N k d a b Ha Hb y Hy. apply union_nat_In in Hy. destruct Hy as [Hy|Hy]; [apply Ha|apply Hb]; exact Hy.
Qed.

Definition lvl_ok (N : net) (F k : nat) (o : lvl_out) : Prop :=
  match o with
  | LStop d r next _ => SI N d /\ nxt_ok N k d next /\ r <> RRaised ErrAssert /\ (k + 1 <= F -> r <> RFuel)
  | LCont d next _ => SI N d /\ nxt_ok N k d next
  end.

Lemma lvl_succ_SI : forall N cfg F k d x next tape, SI N d -> x < size d ->
  nvars N <= nfixed (n_space (get d x)) + k -> nxt_ok N k d next ->
  lvl_ok N F k (lvl_succ N cfg d x next tape).
Proof.
  intros N cfg F k d x next tape Hsi Hx Hk Hnext. unfold lvl_succ. cbv zeta.
  destruct (SI_node_successors N cfg d x Hsi Hx) as (Hs1 & Hsucc & Hres).
  pose proof (node_successors_extends N cfg d x) as He.
  pose proof (nxt_ok_extends N k d _ next He Hnext) as Hn1.
  destruct Hres as [Hr|Hr]; rewrite Hr; simpl.
  - split; [exact Hs1|]. apply nxt_ok_union; [exact Hn1|].
    intros y Hy. destruct (Hsucc y Hy) as [H1 H2]. split; [exact H1|].
    pose proof (strict_nfixed _ _ H2). lia.
  - split; [exact Hs1|]. split; [exact Hn1|]. split; discriminate.
Qed.

Lemma two_comps_other : forall (c1 c2 : list nat) cr B, pw_disj (c1 :: c2 :: cr) -> In B (c1 :: c2 :: cr) ->
  exists B', In B' (c1 :: c2 :: cr) /\ disj B B'.
Proof.
  intros c1 c2 cr B [H1 _] [HB|HB].
  - subst B. exists c2. split; [right; left; reflexivity|]. apply H1. left. reflexivity.
  - exists c1. split; [left; reflexivity|]. intros v Hv1 Hv2. apply (H1 B HB v Hv2 Hv1).
Qed.

Lemma lvl_one_SI : forall expander F N cfg cm k d x next tape, exp_good F expander -> SI N d -> x < size d ->
  nvars N <= nfixed (n_space (get d x)) + k -> nxt_ok N k d next ->
  lvl_ok N F k (lvl_one expander N cfg cm d x next tape).
Proof.
  intros expander F N cfg cm k d x next tape Hexp Hsi Hx Hk Hnext. unfold lvl_one. cbv zeta.
  destruct (SI_get N d x Hsi Hx) as [HtS Hperc].
  pose proof (trap_space_length N _ HtS) as HS.
  pose proof (proj1 (percolate_b_fixed_iff_closed N _ HS) Hperc) as Hpc.
  destruct (source_sccs_items N (n_space (get d x))) as [Hitems Hpw].
  destruct (source_sccs N (n_space (get d x))) as [|c1 [|c2 cr]] eqn:Ecomps.
  - destruct (SI_node_successors N cfg d x Hsi Hx) as (Hs1 & Hsucc & Hres).
    pose proof (node_successors_extends N cfg d x) as He.
    pose proof (nxt_ok_extends N k d _ next He Hnext) as Hn1.
    destruct Hres as [Hr|Hr]; rewrite Hr; simpl.
    + destruct (snd (node_successors N cfg d x)) as [|s0 sr] eqn:Es; simpl; [split; assumption|].
      exfalso. destruct (Hsucc s0 (or_introl eq_refl)) as [_ Hst].
      apply (full_no_strict _ _ (fun v Hv => no_source_scc_full N _ v HS Hpc Ecomps ltac:(rewrite <- HS; exact Hv)) Hst).
    + split; [exact Hs1|]. split; [exact Hn1|]. split; discriminate.
  - apply lvl_succ_SI; assumption.
  - set (comps := c1 :: c2 :: cr) in *. set (sp := n_space (get d x)) in *.
    assert (Hcl : forall B, In B comps -> closed_in N sp B).
    { intros B HB. apply scc_item_closed. apply Hitems. exact HB. }
    assert (Hnf : forall B, In B comps -> nfixed sp < nfixed (Rsub N sp B)).
    { intros B HB. destruct (two_comps_other c1 c2 cr B Hpw HB) as (B' & HB' & Hdis).
      destruct (Hitems B' HB') as (v0 & _ & _ & Hne & _).
      destruct B' as [|v B'r]; [contradiction|].
      assert (Hv : In v (v :: B'r)) by (left; reflexivity).
      apply strict_nfixed.
      apply (Rsub_strict N sp B HtS (Hcl B HB) v).
      - apply (BM_closed_lt N sp _ v (Hcl _ HB') Hv).
      - apply (BM_closed_free N sp _ v (Hcl _ HB') Hv).
      - intro HvB. apply (Hdis v HvB Hv). }
    destruct (scc_components_SI expander F N cm sp x k Hexp HtS Hpc Hk comps d [x] tape Hcl Hpw Hsi)
      as (Hs1 & Hna & Hfu & Hats & Hinv).
    { intros a [Ha|[]]. subst a. split; [exact Hx|]. split; [apply subspace_refl|].
      intros B v HB Hv. apply (BM_closed_free N _ B v (Hcl B HB) Hv). }
    { left. reflexivity. }
    { exact Hnf. }
    pose proof (scc_components_extends expander N cm sp comps d [x] tape) as He.
    set (c := scc_components expander N cm sp comps d [x] tape) in *.
    pose proof (nxt_ok_extends N k d _ next He Hnext) as Hn1.
    assert (Hx1 : x < size (fst (fst (fst c)))) by (apply (extends_lt d _ x He Hx)).
    assert (Hsp1 : n_space (get (fst (fst (fst c))) x) = sp) by (apply (extends_space d _ x He Hx)).
    assert (Hsuccx : lvl_ok N F k (lvl_succ N cfg (fst (fst (fst c))) x next (snd c))).
    { apply lvl_succ_SI; [exact Hs1|exact Hx1|rewrite Hsp1; exact Hk|exact Hn1]. }
    assert (Hstrict_ok : (forall m, In m (snd (fst c)) -> strict_subspace (n_space (get (fst (fst (fst c))) m)) sp) ->
                         nxt_ok N k (fst (fst (fst c))) (union_nat next (snd (fst c)))).
    { intro Hst. apply nxt_ok_union; [exact Hn1|]. intros y Hy. split; [apply Hats; exact Hy|].
      pose proof (strict_nfixed _ _ (Hst y Hy)). lia. }
    destruct (snd (fst (fst c))) as [|[|]| | | |] eqn:Eres; simpl;
      try (split; [exact Hs1|]; split; [exact Hn1|]; split; [exact Hna|exact Hfu]).
    destruct Hinv as [Hinv|Hinv].
    + rewrite Hinv. rewrite Nat.eqb_refl. exact Hsuccx.
    + destruct (snd (fst c)) as [|y [|y2 yr]] eqn:Eats; simpl; try (split; [exact Hs1|apply Hstrict_ok; exact Hinv]).
      destruct (Nat.eqb y x); [exact Hsuccx|]. simpl. split; [exact Hs1|apply Hstrict_ok; exact Hinv].
Qed.

Lemma scc_level_SI : forall expander F N cfg cm k, exp_good F expander -> forall cur d next tape, SI N d ->
  cur_ok N k d cur -> nxt_ok N k d next ->
  SI N (fst (fst (fst (scc_level expander N cfg cm d cur next tape)))) /\
  nxt_ok N k (fst (fst (fst (scc_level expander N cfg cm d cur next tape))))
             (snd (fst (scc_level expander N cfg cm d cur next tape))) /\
  snd (fst (fst (scc_level expander N cfg cm d cur next tape))) <> RRaised ErrAssert /\
  (k + 1 <= F -> snd (fst (fst (scc_level expander N cfg cm d cur next tape))) <> RFuel).
Proof.
  intros expander F N cfg cm k Hexp cur. induction cur as [|x cur IH]; intros d next tape Hsi Hcur Hnext.
  - rewrite scc_level_nil. simpl. split; [exact Hsi|]. split; [exact Hnext|]. split; discriminate.
  - rewrite scc_level_cons.
    destruct (Hcur x (or_introl eq_refl)) as [Hx Hk].
    pose proof (lvl_one_SI expander F N cfg cm k d x next tape Hexp Hsi Hx Hk Hnext) as H1.
    pose proof (lvl_one_extends expander N cfg cm d x next tape) as He.
    destruct (lvl_one expander N cfg cm d x next tape) as [d1 r n1 t1|d1 n1 t1]; simpl in H1, He.
    + simpl. exact H1.
    + destruct H1 as [Hs1 Hn1]. apply IH; [exact Hs1| |exact Hn1].
      apply (cur_ok_extends N k d d1 cur He). intros y Hy. apply Hcur. right. exact Hy.
Qed.

Lemma nxt_ok_pos : forall N k d next y, SI N d -> nxt_ok N k d next -> In y next -> 1 <= k.
Proof.
  intros N k d next y Hsi Hn Hy. destruct (Hn y Hy) as [H1 H2].
  destruct (SI_get N d y Hsi H1) as [Ht _].
  pose proof (P_nfixed_le_length (n_space (get d y))) as H. rewrite (trap_space_length N _ Ht) in H. lia.
Qed.

Lemma scc_levels_SI : forall expander F N cfg cm, exp_good F expander ->
  forall fuel k d cur tape, SI N d -> cur_ok N k d cur ->
  SI N (fst (fst (scc_levels fuel expander N cfg cm d cur tape))) /\
  snd (fst (scc_levels fuel expander N cfg cm d cur tape)) <> RRaised ErrAssert /\
  (k + 1 <= F -> match cur with [] => 1 <= fuel | _ => k + 2 <= fuel end ->
   snd (fst (scc_levels fuel expander N cfg cm d cur tape)) <> RFuel).
Proof.
  intros expander F N cfg cm Hexp fuel. induction fuel as [|f IH]; intros k d cur tape Hsi Hcur.
  - rewrite scc_levels_O. simpl. split; [exact Hsi|]. split; [discriminate|].
    intros _ H. destruct cur; lia.
  - rewrite scc_levels_S. destruct cur as [|c0 cr]; [simpl; split; [exact Hsi|]; split; discriminate|].
    cbv zeta.
    destruct (scc_level_SI expander F N cfg cm k Hexp (sort_nat (c0 :: cr)) d [] tape Hsi) as (Hs1 & Hn1 & Hna & Hfu).
    { intros x Hx. apply Hcur. apply sort_nat_In. exact Hx. }
    { intros y []. }
    set (l := scc_level expander N cfg cm d (sort_nat (c0 :: cr)) [] tape) in *.
    destruct (snd (fst (fst l))) eqn:Er; simpl;
      try (split; [exact Hs1|]; split; [exact Hna|]; intros HF _; apply Hfu; exact HF).
    destruct (IH (k - 1) (fst (fst (fst l))) (snd (fst l)) (snd l) Hs1) as (Hs2 & Hna2 & Hfu2).
    { intros y Hy. destruct (Hn1 y Hy) as [H1 H2]. split; [exact H1|]. lia. }
    split; [exact Hs2|]. split; [exact Hna2|]. intros HF Hfuel. apply Hfu2; [lia|].
    destruct (snd (fst l)) as [|y0 yr] eqn:En; [lia|].
    pose proof (nxt_ok_pos N k _ _ y0 Hs1 Hn1 (or_introl eq_refl)). lia.
Qed.

(* ====================================================================== *)
(* G. the main function                                                    *)
(* ====================================================================== *)

Lemma scc_main_step : forall cfg cm f N d tape k,
  exp_good f (fun N' d' t' => scc_main f N' cfg cm d' t') -> SI N d ->
  nvars N <= nfixed (n_space (get d 0)) + k ->
  SI N (fst (fst (scc_main (S f) N cfg cm d tape))) /\
  snd (fst (scc_main (S f) N cfg cm d tape)) <> RRaised ErrAssert /\
  (k + 2 <= S f -> snd (fst (scc_main (S f) N cfg cm d tape)) <> RFuel).
Proof.
  intros cfg cm f N d tape k Hexp Hsi Hk. rewrite scc_main_S. cbv zeta.
  assert (Hpos : 0 < size d) by (destruct Hsi as ((Hp & _) & _); exact Hp).
  destruct (sources_in_b N (n_space (get d 0))) as [|s0 sr] eqn:Es.
  - destruct (scc_levels_SI _ f N cfg cm Hexp (S f) k d [0] tape Hsi) as (H1 & H2 & H3).
    + intros x [Hx|[]]. subst x. split; assumption.
    + split; [exact H1|]. split; [exact H2|]. intro HF. apply H3; lia.
  - destruct (Nat.ltb (max_motifs cfg) (Nat.pow 2 (length (s0 :: sr)))).
    + simpl. split; [exact Hsi|]. split; discriminate.
    + destruct (SI_get N d 0 Hsi Hpos) as [HtS _].
      pose proof (trap_space_length N _ HtS) as HS.
      set (sp := n_space (get d 0)) in *.
      assert (Hm : forall m, In m (ff_motifs N sp) -> trap_space N m /\ strict_subspace m (n_space (get d 0))).
      { intros m Hm. split; [apply (ff_motif_trap N sp m HtS Hm)|].
        apply (ff_motif_strict N sp m HS); [rewrite Es; discriminate|exact Hm]. }
      set (da := ensure_all N d 0 (ff_motifs N sp)).
      assert (Hsa : SI N da) by (unfold da; apply SI_ensure_all; assumption).
      rewrite ensure_children_fst. fold da.
      set (d2 := set_empty_seeds (clear_cands (upd_node da 0 (fun y => set_exp y true)) 0) 0).
      assert (Hs2 : SI N d2).
      { unfold d2. apply SI_set_empty_seeds. apply SI_clear_cands. apply SI_upd_flag; [constructor|exact Hsa]. }
      assert (He2 : extends da d2).
      { unfold d2. eapply extends_trans; [apply upd_flag_extends; constructor|].
        eapply extends_trans; [apply clear_cands_extends|apply set_empty_seeds_extends]. }
      set (cur := union_nat [] (snd (ensure_children N d 0 (ff_motifs N sp) []))).
      destruct (scc_levels_SI _ f N cfg cm Hexp (S f) (k - 1) d2 cur tape Hs2) as (H1 & H2 & H3).
      * intros x Hx. unfold cur in Hx. apply union_nat_In in Hx. destruct Hx as [[]|Hx].
        destruct (SI_ensure_children_ids N _ d 0 [] Hsi Hpos Hm x Hx) as [[]|[Hlt Hst]].
        fold da in Hlt, Hst.
        split; [apply (extends_lt da d2 x He2 Hlt)|].
        rewrite (extends_space da d2 x He2 Hlt).
        pose proof (strict_nfixed _ _ Hst). fold sp in H. lia.
      * split; [exact H1|]. split; [exact H2|]. intro HF. apply H3; [lia|]. destruct cur; lia.
Qed.

Lemma scc_main_good : forall cfg cm f, exp_good f (fun N' d' t' => scc_main f N' cfg cm d' t').
Proof.
  intros cfg cm f. induction f as [|f IH]; intros N d tape Hsi.
  - rewrite scc_main_O. simpl. split; [exact Hsi|]. split; [apply extends_refl|]. split; [discriminate|].
    intros m _ H. lia.
  - destruct (scc_main_step cfg cm f N d tape (nvars N) IH Hsi) as (H1 & H2 & _); [lia|].
    split; [exact H1|]. split; [apply scc_main_extends|]. split; [exact H2|].
    intros m Hm HF. destruct (scc_main_step cfg cm f N d tape m IH Hsi Hm) as (_ & _ & H3). apply H3. exact HF.
Qed.

Lemma expand_scc_snd : forall fuel N cfg d maa tape,
  snd (expand_scc fuel N cfg d maa tape) = snd (fst (scc_main fuel N cfg maa d tape)).
Proof.
  intros. unfold expand_scc. destruct (scc_main fuel N cfg maa d tape) as [[d1 r] t]. reflexivity.
Qed.

Theorem expand_scc_EdgeStrict : forall fuel N cfg d maa tape, 1 <= max_motifs cfg ->
  SWF N d -> TrapNodes N d -> EdgeStrict d -> EdgeStrict (fst (expand_scc fuel N cfg d maa tape)).
Proof.
  intros fuel N cfg d maa tape _ Hs Ht He. rewrite expand_scc_fst.
  destruct (scc_main_good cfg maa fuel N d tape (SI_of_SWF N d Hs Ht He)) as ((_ & H & _) & _). exact H.
Qed.

(* the assertion main_node_id != main_succ_id never fails, nor does the assertion on nodes without source SCC *)
Theorem expand_scc_no_assert : forall fuel N cfg d maa tape, 1 <= max_motifs cfg ->
  SWF N d -> TrapNodes N d -> EdgeStrict d -> snd (expand_scc fuel N cfg d maa tape) <> RRaised ErrAssert.
Proof.
  intros fuel N cfg d maa tape _ Hs Ht He. rewrite expand_scc_snd.
  destruct (scc_main_good cfg maa fuel N d tape (SI_of_SWF N d Hs Ht He)) as (_ & _ & H & _). exact H.
Qed.

Theorem expand_scc_terminates : forall fuel N cfg d maa tape, 1 <= max_motifs cfg ->
  SWF N d -> TrapNodes N d -> EdgeStrict d -> nvars N + 2 <= fuel ->
  snd (expand_scc fuel N cfg d maa tape) <> RFuel.
Proof.
  intros fuel N cfg d maa tape _ Hs Ht He Hf. rewrite expand_scc_snd.
  destruct (scc_main_good cfg maa fuel N d tape (SI_of_SWF N d Hs Ht He)) as (_ & _ & _ & H).
  apply (H (nvars N)); [lia|exact Hf].
Qed.

Print Assumptions expand_scc_EdgeStrict.
Print Assumptions expand_scc_no_assert.
Print Assumptions expand_scc_terminates.
