(* SCCTerm.v -- SPEC (prove the theorems; the model is theories/SCC.v, do not edit it; theories/SCCStruct.v provides the
   weak invariant WI, good_at, graft_trap, the unfolding lemmas and expand_scc_grows / expand_scc_TrapNodes).
   The source-SCC strategy keeps edges strict (every edge leads to a strictly smaller space -- in particular the assertion
   `main_node_id != main_succ_id` of attach_scc_subdiagram can never fire) and terminates: the BFS levels descend
   strictly, the recursion on sub-diagrams loses at least one free variable per nesting level, so fuel
   nvars N + 2 is always enough. *)
From Coq Require Import List Bool Arith NArith Lia Permutation Relations.
Import ListNotations.
From BB Require Import BN Brute SpaceFacts TrapFacts PercolateFacts Diagram Invariants DiagramStruct DiagramSem1
  Termination Blocks BlocksFacts BlockMath SCC SCCStruct.
From BB Require Import DiagramComplete.

Local Arguments percolate_b : simpl never.
Local Arguments expand_one : simpl never.
Local Arguments node_successors : simpl never.
Local Arguments ensure_node : simpl never.
Local Arguments ensure_edge : simpl never.
Local Arguments source_sccs : simpl never.
Local Arguments sub_net : simpl never.
Local Arguments graft : simpl never.
Local Arguments regulates_b : simpl never.
Local Arguments sources_in_b : simpl never.
Local Arguments set_empty_seeds : simpl never.
Local Arguments clear_cands : simpl never.
Local Arguments ensure_children : simpl never.
Local Arguments attach_nodes : simpl never.
Local Arguments attach_edges : simpl never.
Local Arguments attach_scc : simpl never.
Local Arguments attach_all : simpl never.
Local Arguments scc_components : simpl never.
Local Arguments scc_level : simpl never.
Local Arguments scc_levels : simpl never.
Local Arguments scc_main : simpl never.
Local Arguments Nat.pow : simpl never.
Local Arguments Nat.ltb : simpl never.

(* ====================================================================== *)
(* A. the strong invariant: WI + strict edges + distinct node spaces       *)
(* ====================================================================== *)

Definition SI (N : net) (d : sd) : Prop := WI N d /\ EdgeStrict d /\ NoDup (spaces d).

Lemma SI_WI : forall N d, SI N d -> WI N d.
Proof. intros N d H. apply H. Qed.

Lemma SI_of_SWF : forall N d, SWF N d -> TrapNodes N d -> EdgeStrict d -> SI N d.
Proof.
  intros N d Hs Ht He. split; [apply WI_of_SWF; assumption|]. split; [exact He|apply (swf_nodup N d Hs)].
Qed.

Lemma init_SI : forall N, SI N (init N).
Proof. intro N. apply SI_of_SWF; [apply init_SWF|apply init_TrapNodes|apply init_EdgeStrict]. Qed.

Lemma SI_same_shape : forall N d d', WI N d' -> spaces d' = spaces d -> sd_edges d' = sd_edges d -> SI N d -> SI N d'.
Proof.
  intros N d d' Hw Hs He (_ & H2 & H3). split; [exact Hw|]. split.
  - apply (EdgeStrict_same_shape d); assumption.
  - rewrite Hs. exact H3.
Qed.

Lemma SI_upd_flag : forall N d i f, flag_setter f -> SI N d -> SI N (upd_node d i f).
Proof.
  intros N d i f Hf H. apply (SI_same_shape N d); [|apply spaces_upd_flag; exact Hf|apply sd_edges_upd_node|exact H].
  apply WI_upd_flag; [exact Hf|apply H].
Qed.

Lemma SI_set_empty_seeds : forall N d i, SI N d -> SI N (set_empty_seeds d i).
Proof.
  intros N d i H. apply (set_empty_seeds_flag (SI N)); [|exact H].
  intros d0 f Hf H0. apply SI_upd_flag; assumption.
Qed.

Lemma SI_clear_cands : forall N d i, SI N d -> SI N (clear_cands d i).
Proof.
  intros N d i H. apply (clear_cands_flag (SI N)); [|exact H].
  intros d0 f Hf H0. apply SI_upd_flag; assumption.
Qed.

Lemma SI_discard_if_stub : forall N d i, SI N d -> SI N (discard_if_stub d i).
Proof.
  intros N d i H. unfold discard_if_stub. destruct (n_exp (get d i)); [exact H|].
  apply SI_upd_flag; [constructor|exact H].
Qed.

Lemma SI_ensure_edge : forall N d p c m, SI N d -> p < size d -> c < size d ->
  strict_subspace (n_space (get d c)) (n_space (get d p)) -> SI N (ensure_edge d p c m).
Proof.
  intros N d p c m (Hw & He & Hnd) Hp Hc Hst. split; [apply WI_ensure_edge; assumption|]. split.
  - intros e Hin. rewrite !n_space_ensure_edge. rewrite sd_edges_ensure_edge in Hin.
    apply edge_added_In in Hin. destruct Hin as [Hin|[E1 E2]]; [apply He; exact Hin|].
    rewrite E1, E2. exact Hst.
  - rewrite spaces_ensure_edge. exact Hnd.
Qed.

Lemma SI_add_node : forall N d x, SI N d -> trap_space N (n_space x) -> percolate_b N (n_space x) = n_space x ->
  ~ In (n_space x) (spaces d) -> SI N (add_node d x).
Proof.
  intros N d x (Hw & He & Hnd) Ht Hp Hnin. split; [apply WI_add_node; assumption|]. split.
  - intros e Hin. change (sd_edges (add_node d x)) with (sd_edges d) in Hin.
    destruct Hw as (_ & _ & Hed). destruct (Hed e Hin) as [E1 E2].
    rewrite !get_add_node_old by assumption. apply He. exact Hin.
  - rewrite spaces_add_node. apply NoDup_app_disjoint; [exact Hnd|constructor; [intros []|constructor]|].
    intros y Hy [Hy2|[]]. subst y. apply Hnin. exact Hy.
Qed.

Lemma SI_ensure_node : forall N d parent m, SI N d -> trap_space N m ->
  (forall p, parent = Some p -> p < size d /\ strict_subspace (percolate_b N m) (n_space (get d p))) ->
  SI N (fst (ensure_node N d parent m)).
Proof.
  intros N d parent m Hsi Ht Hp. pose proof (SI_WI N d Hsi) as Hw.
  rewrite ensure_node_unfold.
  pose proof (trap_space_length N m Ht) as Hm.
  assert (Hlen : length (percolate_b N m) = nvars N) by (rewrite percolate_b_length; exact Hm).
  destruct (percolate_b_trap N m Ht) as [Htp _].
  destruct (find_node d (percolate_b N m)) as [c|] eqn:Ef; simpl.
  - destruct (find_node_some_len (nvars N) d _ c (WI_len N d Hw) Hlen Ef) as [Hc Hsp].
    destruct parent as [p|]; simpl; [|exact Hsi].
    destruct (Hp p eq_refl) as [Hpl Hst]. apply SI_ensure_edge; try assumption. rewrite Hsp. exact Hst.
  - apply (find_node_none_len (nvars N) d _ (WI_len N d Hw) Hlen) in Ef.
    set (d1 := add_node d (fresh_node (percolate_b N m) parent)).
    assert (Hs1 : size d1 = S (size d)) by (unfold d1; apply size_add_node).
    assert (H1 : SI N d1).
    { unfold d1. apply SI_add_node; [exact Hsi|exact Htp| |exact Ef]. simpl. apply percolate_b_idem. exact Hm. }
    destruct parent as [p|]; simpl; [|exact H1].
    destruct (Hp p eq_refl) as [Hpl Hst]. apply SI_ensure_edge; [exact H1|lia|lia|].
    unfold d1. rewrite get_add_node_new, get_add_node_old by exact Hpl. simpl. exact Hst.
Qed.

(* everything WI_ensure_node says, for SI *)
Lemma SI_ensure_node_full : forall N d parent m, SI N d -> trap_space N m ->
  (forall p, parent = Some p -> p < size d /\ strict_subspace (percolate_b N m) (n_space (get d p))) ->
  SI N (fst (ensure_node N d parent m)) /\
  snd (ensure_node N d parent m) < size (fst (ensure_node N d parent m)) /\
  n_space (get (fst (ensure_node N d parent m)) (snd (ensure_node N d parent m))) = percolate_b N m.
Proof.
  intros N d parent m Hsi Ht Hp. split; [apply SI_ensure_node; assumption|].
  destruct (WI_ensure_node N d parent m (SI_WI N d Hsi) Ht) as (_ & H2 & H3).
  - intros p E. apply (Hp p E).
  - split; assumption.
Qed.

Lemma SI_ensure_all : forall N subs d p, SI N d -> p < size d ->
  (forall m, In m subs -> trap_space N m /\ strict_subspace m (n_space (get d p))) ->
  SI N (ensure_all N d p subs).
Proof.
  intros N subs. induction subs as [|m r IH]; intros d p Hsi Hp Hm; [exact Hsi|].
  rewrite ensure_all_cons.
  destruct (Hm m (or_introl eq_refl)) as [Ht Hst].
  pose proof (ensure_node_extends N d (Some p) m) as He.
  apply IH.
  - apply SI_ensure_node; [exact Hsi|exact Ht|]. intros p0 E. injection E as E. subst p0.
    split; [exact Hp|]. apply strict_percolate; [apply trap_space_length; exact Ht|exact Hst].
  - apply (extends_lt d _ p He Hp).
  - intros m0 Hm0. rewrite (extends_space d _ p He Hp). apply Hm. right. exact Hm0.
Qed.

Lemma SI_expand_one : forall N cfg d i, SI N d -> i < size d -> SI N (fst (expand_one N cfg d i)).
Proof.
  intros N cfg d i Hsi Hi. unfold expand_one. cbv zeta.
  destruct (n_exp (get d i)); [exact Hsi|].
  assert (H0 : SI N (upd_node d i clear_attr)) by (apply SI_upd_flag; [constructor|exact Hsi]).
  destruct (is_full (n_space (get d i))); [simpl; apply SI_upd_flag; [constructor|exact H0]|].
  match goal with |- context [if ?c then _ else _] => destruct c end; [exact H0|].
  simpl. apply SI_upd_flag; [constructor|].
  apply SI_ensure_all; [exact H0|rewrite size_upd_node; exact Hi|].
  intros m Hm. apply In_firstn_in in Hm. apply sort_by_key_In in Hm.
  destruct (WI_get N d i (SI_WI N d Hsi) Hi) as [Htr _].
  apply (max_traps_b_spec_srcs N _ _ m (trap_space_length N _ Htr)) in Hm.
  destruct Hm as (A1 & A2 & _). split; [exact A1|].
  rewrite n_space_upd_flag by constructor. exact A2.
Qed.

Lemma successors_edge : forall d i s, In s (successors d i) ->
  exists e, In e (sd_edges d) /\ e_src e = i /\ e_dst e = s.
Proof.
  intros d i s Hin. unfold successors, successors_of in Hin.
  apply in_map_iff in Hin. destruct Hin as [e [Heq Hin]].
  apply filter_In in Hin. destruct Hin as [Hin Hsrc]. apply Nat.eqb_eq in Hsrc.
  exists e. split; [exact Hin|]. split; assumption.
Qed.

Lemma SI_successors_strict : forall N d i s, SI N d -> In s (successors d i) ->
  s < size d /\ strict_subspace (n_space (get d s)) (n_space (get d i)).
Proof.
  intros N d i s (Hw & He & _) Hin. split; [apply (WI_successors N d i s Hw Hin)|].
  destruct (successors_edge d i s Hin) as (e & He1 & E1 & E2). rewrite <- E1, <- E2. apply He. exact He1.
Qed.

Lemma SI_node_successors : forall N cfg d i, SI N d -> i < size d ->
  SI N (fst (fst (node_successors N cfg d i))) /\
  (forall s, In s (snd (node_successors N cfg d i)) ->
     s < size (fst (fst (node_successors N cfg d i))) /\
     strict_subspace (n_space (get (fst (fst (node_successors N cfg d i))) s)) (n_space (get d i))) /\
  (snd (fst (node_successors N cfg d i)) = RUnit \/ snd (fst (node_successors N cfg d i)) = RRaised ErrMotifLimit).
Proof.
  intros N cfg d i Hsi Hi.
  assert (H : SI N (fst (fst (node_successors N cfg d i)))).
  { rewrite node_successors_fst. apply SI_expand_one; assumption. }
  split; [exact H|]. split.
  - intros s Hs. apply node_successors_succ in Hs.
    destruct (SI_successors_strict N _ i s H Hs) as [H1 H2]. split; [exact H1|].
    rewrite (extends_space d _ i (node_successors_extends N cfg d i) Hi) in H2. exact H2.
  - unfold node_successors. pose proof (expand_one_result N cfg d i) as Hr.
    destruct (expand_one N cfg d i) as [d1 r]. simpl in Hr.
    destruct Hr as [Hr|Hr]; subst r; simpl; auto.
Qed.

(* the children made by the root fast-forward *)
Lemma SI_ensure_children_ids : forall N subs d p acc, SI N d -> p < size d ->
  (forall m, In m subs -> trap_space N m /\ strict_subspace m (n_space (get d p))) ->
  forall c, In c (snd (ensure_children N d p subs acc)) ->
    In c acc \/ (c < size (ensure_all N d p subs) /\
                 strict_subspace (n_space (get (ensure_all N d p subs) c)) (n_space (get d p))).
Proof.
  intros N subs. induction subs as [|m r IH]; intros d p acc Hsi Hp Hm c Hc.
  - rewrite ensure_children_nil in Hc. simpl in Hc. left. exact Hc.
  - rewrite ensure_children_cons in Hc. rewrite ensure_all_cons.
    destruct (Hm m (or_introl eq_refl)) as [Ht Hst].
    pose proof (ensure_node_extends N d (Some p) m) as He.
    assert (Hpar : forall p0, Some p = Some p0 -> p0 < size d /\ strict_subspace (percolate_b N m) (n_space (get d p0))).
    { intros p0 E. injection E as E. subst p0. split; [exact Hp|].
      apply strict_percolate; [apply trap_space_length; exact Ht|exact Hst]. }
    destruct (SI_ensure_node_full N d (Some p) m Hsi Ht Hpar) as (H1 & H2 & H3).
    set (d1 := fst (ensure_node N d (Some p) m)) in *.
    set (c1 := snd (ensure_node N d (Some p) m)) in *.
    assert (Hp1 : p < size d1) by (apply (extends_lt d _ p He Hp)).
    assert (Hsp1 : n_space (get d1 p) = n_space (get d p)) by (apply (extends_space d _ p He Hp)).
    destruct (IH d1 p (acc ++ [c1]) H1 Hp1) with (c := c) as [Hin|Hin].
    + intros m0 Hm0. rewrite Hsp1. apply Hm. right. exact Hm0.
    + exact Hc.
    + apply in_app_or in Hin. destruct Hin as [Hin|[Hin|[]]]; [left; exact Hin|]. subst c. right.
      pose proof (ensure_all_extends N r d1 p) as He2.
      split; [apply (extends_lt d1 _ c1 He2 H2)|].
      rewrite (extends_space d1 _ c1 He2 H2), H3. apply (Hpar p eq_refl).
    + right. rewrite Hsp1 in Hin. exact Hin.
Qed.

(* ====================================================================== *)
(* B. a percolated trap space with a free variable has a source SCC        *)
(* ====================================================================== *)

Definition bw1 (N : net) (Sp : space) (v : nat) : list nat := bwd_closure (nvars N) N Sp [v].

Lemma bw1_In : forall N Sp v u, sgood N Sp v -> (In u (bw1 N Sp v) <-> sreach N Sp u v).
Proof.
  intros N Sp v u Hv. unfold bw1. split.
  - intro H. destruct (bwd_sound N Sp (nvars N) [v] (sgood_single N Sp v Hv) u H) as (x & [Hx|[]] & Hr).
    subst x. exact Hr.
  - intro H. apply (bwd_complete N Sp [v] v u (sgood_single N Sp v Hv)); [|exact H].
    apply bwd_start; [apply sgood_single; exact Hv|left; reflexivity].
Qed.

Lemma bw1_NoDup : forall N Sp v, NoDup (bw1 N Sp v).
Proof. intros. unfold bw1. apply bwd_NoDup. constructor; [intros []|constructor]. Qed.

(* a vertex all of whose ancestors are descendants *)
Lemma source_vertex_aux : forall N Sp k v, sgood N Sp v -> length (bw1 N Sp v) <= k ->
  exists w, sgood N Sp w /\ forall u, sreach N Sp u w -> sreach N Sp w u.
Proof.
  intros N Sp k. induction k as [|k IH]; intros v Hv Hlen.
  - exfalso. assert (Hin : In v (bw1 N Sp v)) by (apply bw1_In; [exact Hv|apply rt_refl]).
    destruct (bw1 N Sp v); [destruct Hin|simpl in Hlen; lia].
  - destruct (filter (fun u => negb (mem_nat v (bw1 N Sp u))) (bw1 N Sp v)) as [|u l] eqn:Ef.
    + exists v. split; [exact Hv|]. intros u Hu.
      pose proof (sreach_good_l N Sp u v Hu Hv) as Hgu.
      apply (bw1_In N Sp u v Hgu).
      destruct (mem_nat v (bw1 N Sp u)) eqn:E; [apply BM_mem_nat_In; exact E|]. exfalso.
      assert (Hin : In u (filter (fun u => negb (mem_nat v (bw1 N Sp u))) (bw1 N Sp v))).
      { apply filter_In. split; [apply bw1_In; assumption|]. rewrite E. reflexivity. }
      rewrite Ef in Hin. destruct Hin.
    + assert (Hin : In u (filter (fun u => negb (mem_nat v (bw1 N Sp u))) (bw1 N Sp v)))
        by (rewrite Ef; left; reflexivity).
      apply filter_In in Hin. destruct Hin as [Hu Hn].
      apply negb_true_iff in Hn. apply BM_mem_nat_false in Hn.
      apply (bw1_In N Sp v u Hv) in Hu.
      pose proof (sreach_good_l N Sp u v Hu Hv) as Hgu.
      apply (IH u Hgu).
      assert (Hnd : NoDup (v :: bw1 N Sp u)) by (constructor; [exact Hn|apply bw1_NoDup]).
      assert (Hincl : incl (v :: bw1 N Sp u) (bw1 N Sp v)).
      { intros x [Hx|Hx].
        - subst x. apply bw1_In; [exact Hv|apply rt_refl].
        - apply bw1_In; [exact Hv|]. apply (bw1_In N Sp u x Hgu) in Hx.
          apply (rt_trans _ _ _ u); assumption. }
      pose proof (NoDup_incl_length Hnd Hincl) as Hl. simpl in Hl. lia.
Qed.

Lemma source_vertex : forall N Sp v, sgood N Sp v ->
  exists w, sgood N Sp w /\ forall u, sreach N Sp u w -> sreach N Sp w u.
Proof. intros N Sp v Hv. apply (source_vertex_aux N Sp (length (bw1 N Sp v)) v Hv). apply Nat.le_refl. Qed.

(* without a free regulator the update function is constant *)
Lemma no_regulator_const : forall N Sp v s0, length Sp = nvars N -> sgood N Sp v ->
  (forall u, u < nvars N -> free_in Sp u = true -> regulates_b N Sp u v = false) ->
  wf_state N s0 -> in_space s0 Sp = true -> const_on N v Sp (upd N v s0).
Proof.
  intros N Sp v s0 HS [Hv Hf] Hno Hwf0 Hs0.
  assert (Hc : closed_in N Sp [v]).
  { split.
    - intros x [Hx|[]]. subst x. split; assumption.
    - intros i j [Hj|[]] Hi Hfi Hr. subst j. rewrite (Hno i Hi Hfi) in Hr. discriminate. }
  assert (Hsame : forall s t, wf_state N s -> wf_state N t -> in_space s Sp = true -> in_space t Sp = true ->
            nth v s false = nth v t false -> upd N v s = upd N v t).
  { intros s t Hws Hwt Hs Ht Hag.
    apply (closed_in_reads_B N Sp [v] v s t Hc (or_introl eq_refl) Hws Hwt Hs Ht).
    intros x [Hx|[]]. subst x. exact Hag. }
  intros s Hws Hs.
  destruct (Bool.bool_dec (nth v s false) (nth v s0 false)) as [He|Hne]; [apply Hsame; assumption|].
  rewrite (regulates_b_false N Sp v v (Hno v Hv Hf) s Hs).
  apply Hsame; try assumption.
  - unfold wf_state. rewrite flip_at_length. exact Hws.
  - unfold flip_at. apply in_space_set_nth_free; [exact Hs|apply BM_free_in_spec; exact Hf].
  - unfold flip_at. rewrite nth_set_nth_eq by (unfold wf_state in Hws; lia).
    destruct (nth v s false), (nth v s0 false); try reflexivity; exfalso; apply Hne; reflexivity.
Qed.

Lemma free_has_regulator : forall N Sp v, length Sp = nvars N -> perc_closed N Sp -> sgood N Sp v ->
  exists u, sgood N Sp u /\ regulates_b N Sp u v = true.
Proof.
  intros N Sp v HS Hpc Hv.
  destruct (existsb (fun u => free_in Sp u && regulates_b N Sp u v) (seq 0 (nvars N))) eqn:E.
  - apply existsb_exists in E. destruct E as (u & Hu & Hb). apply in_seq in Hu.
    apply andb_true_iff in Hb. destruct Hb as [H1 H2]. exists u. split; [split; [lia|exact H1]|exact H2].
  - exfalso. set (s0 := fill (nvars N) Sp []).
    assert (Hs0 : in_space s0 Sp = true) by (apply fill_in_space; exact HS).
    assert (Hwf0 : wf_state N s0) by (unfold wf_state, s0; apply fill_length).
    destruct Hv as [Hv Hf].
    apply (Hpc v (upd N v s0) Hv (proj1 (BM_free_in_spec Sp v) Hf)).
    apply (no_regulator_const N Sp v s0 HS (conj Hv Hf)); [|exact Hwf0|exact Hs0].
    intros u Hu Hfu. destruct (regulates_b N Sp u v) eqn:Er; [|reflexivity]. exfalso.
    assert (Ht : existsb (fun u => free_in Sp u && regulates_b N Sp u v) (seq 0 (nvars N)) = true).
    { apply existsb_exists. exists u. split; [apply in_seq; lia|]. rewrite Hfu, Er. reflexivity. }
    rewrite Ht in E. discriminate.
Qed.

Lemma scc_step_nonempty : forall N Sp acc v, acc <> [] -> scc_step N Sp acc v <> [].
Proof.
  intros N Sp acc v Hne. unfold scc_step.
  destruct (free_in Sp v && negb (existsb (mem_nat v) acc)); [|exact Hne].
  destruct (scc_of N Sp v) as [|c0 cr]; [exact Hne|].
  destruct (same_set _ _); [|exact Hne]. destruct acc; [contradiction|discriminate].
Qed.

Lemma scc_fold_nonempty : forall N Sp l acc, acc <> [] -> fold_left (scc_step N Sp) l acc <> [].
Proof.
  intros N Sp l. induction l as [|v l IH]; intros acc Hne; simpl; [exact Hne|].
  apply IH. apply scc_step_nonempty. exact Hne.
Qed.

Lemma source_sccs_nonempty : forall N Sp v0, length Sp = nvars N -> perc_closed N Sp -> sgood N Sp v0 ->
  source_sccs N Sp <> [].
Proof.
  intros N Sp v0 HS Hpc Hv0.
  destruct (source_vertex N Sp v0 Hv0) as (w & Hw & Hsrc).
  (* the component of w *)
  assert (HC : forall u, In u (scc_raw N Sp w) <-> sreach N Sp u w).
  { intro u. rewrite (scc_raw_In N Sp w u Hw). split; [intros [H _]; exact H|].
    intro H. split; [exact H|apply Hsrc; exact H]. }
  assert (Hww : In w (scc_raw N Sp w)) by (apply HC; apply rt_refl).
  assert (Hof : scc_of N Sp w = scc_raw N Sp w).
  { unfold scc_of. fold (scc_raw N Sp w).
    destruct (scc_raw N Sp w) as [|a [|b r]] eqn:Er; try reflexivity.
    destruct Hww as [Ha|[]]. subst a.
    destruct (free_has_regulator N Sp w HS Hpc Hw) as (u & Hu & Hr).
    assert (Hin : In u (scc_raw N Sp w)).
    { apply HC. apply rt_step. split; [exact Hu|]. split; [exact Hw|exact Hr]. }
    rewrite Er in Hin. destruct Hin as [Hin|[]]. subst u. rewrite Hr. reflexivity. }
  assert (Hgood : forall x, In x (scc_raw N Sp w) -> sgood N Sp x).
  { intros x Hx. apply HC in Hx. apply (sreach_good_l N Sp x w Hx Hw). }
  assert (Hss : same_set (bwd_closure (nvars N) N Sp (scc_raw N Sp w)) (scc_raw N Sp w) = true).
  { unfold same_set. apply andb_true_iff. split; apply forallb_forall; intros x Hx; apply BM_mem_nat_In.
    - destruct (bwd_sound N Sp (nvars N) _ Hgood x Hx) as (u & Hu & Hr).
      apply HC. apply HC in Hu. apply (rt_trans _ _ _ u); assumption.
    - apply bwd_start; assumption. }
  rewrite source_sccs_fold.
  destruct Hw as [Hwl Hwf].
  assert (Hin : In w (seq 0 (nvars N))) by (apply in_seq; lia).
  apply in_split in Hin. destruct Hin as (l1 & l2 & El). rewrite El.
  rewrite fold_left_app. simpl. apply scc_fold_nonempty.
  set (acc := fold_left (scc_step N Sp) l1 []).
  unfold scc_step. rewrite Hwf. simpl.
  destruct (existsb (mem_nat w) acc) eqn:Ee; simpl.
  - destruct acc; [discriminate|discriminate].
  - rewrite Hof. destruct (scc_raw N Sp w) as [|c0 cr] eqn:Er; [destruct Hww|].
    rewrite Hss. destruct acc; discriminate.
Qed.

Lemma no_source_scc_full : forall N Sp v, length Sp = nvars N -> perc_closed N Sp ->
  source_sccs N Sp = [] -> v < nvars N -> nth v Sp None <> None.
Proof.
  intros N Sp v HS Hpc He Hv Hn.
  apply (source_sccs_nonempty N Sp v HS Hpc); [|exact He].
  split; [exact Hv|apply BM_free_in_spec; exact Hn].
Qed.

Lemma full_no_strict : forall (Y Sp : space), (forall v, v < length Sp -> nth v Sp None <> None) ->
  strict_subspace Y Sp -> False.
Proof.
  intros Y Sp Hfull [Hsub Hne]. apply Hne.
  pose proof (subspace_length Y Sp Hsub) as Hl.
  apply (nth_ext Y Sp None None Hl). intros i Hi. rewrite Hl in Hi.
  destruct (nth i Sp None) as [x|] eqn:Ex; [|exfalso; apply (Hfull i Hi); exact Ex].
  apply (proj1 (subspace_nth Y Sp Hl) Hsub i x Ex).
Qed.
