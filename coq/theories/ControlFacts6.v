(* ControlFacts6.v -- SPEC (prove the theorems).
   C06 on "skipped" diagrams: the end-to-end soundness of reported interventions for EVERY diagram reached by ANY history
   of operations of Diagram.step, skip operations included (SkipSem.AnyInv + DiagramDepth.Anch), not only plain ones. *)
From Coq Require Import List Bool Arith NArith Lia Permutation.
Import ListNotations.
From BB Require Import BN Brute SpaceFacts TrapFacts PercolateFacts AttractorFacts Diagram Invariants DiagramStruct
  DiagramSem1 DiagramComplete DiagramDepth MinExpandFacts Control ControlFacts ControlFacts2 ASeedsFacts ControlFacts3
  ControlFacts4 ControlFacts5 SkipSem.

Local Arguments percolate_b : simpl never.
Local Arguments expand_one : simpl never.
Local Arguments node_successors : simpl never.
Local Arguments max_traps_b : simpl never.
Local Arguments find_drivers : simpl never.
Local Arguments successions : simpl never.

(* ================================================================== *)
(* 0. helpers                                                          *)
(* ================================================================== *)

Lemma AnyInv_space_len : forall N d i, AnyInv N d -> i < size d -> length (n_space (get d i)) = nvars N.
Proof. intros N d i (H & _) Hi. apply (swf_len N d H). apply get_In. exact Hi. Qed.

(* ================================================================== *)
(* 1. what holds after every history                                   *)
(* ================================================================== *)

Lemma run_AnyInv_Anch_from : forall fuel N cfg h d0 d r, 1 <= max_motifs cfg ->
  AnyInv N d0 -> Anch d0 -> In (d, r) (run fuel N cfg d0 h) -> AnyInv N d /\ Anch d.
Proof.
  intros fuel N cfg h. induction h as [|o h IH]; intros d0 d r Hmm H0 Ha Hin; simpl in Hin;
    [contradiction|].
  pose proof (step_AnyInv fuel N cfg d0 o Hmm H0) as H1.
  pose proof (step_Anch fuel N cfg d0 o (proj1 H0) Ha) as Ha1.
  destruct (step fuel N cfg d0 o) as [d1 x]. simpl in H1, Ha1.
  destruct Hin as [Heq|Hin].
  - injection Heq as Hd Hr. subst d. split; assumption.
  - eapply IH; eauto.
Qed.

Theorem run_AnyInv_Anch : forall fuel N cfg h d r, 1 <= max_motifs cfg ->
  In (d, r) (run fuel N cfg (init N) h) -> AnyInv N d /\ Anch d.
Proof.
  intros fuel N cfg h d r Hmm Hin.
  apply (run_AnyInv_Anch_from fuel N cfg h (init N) d r Hmm (init_AnyInv N) (init_Anch N) Hin).
Qed.

(* ================================================================== *)
(* 2. reachability from the root with Anch instead of Rooted           *)
(* ================================================================== *)

(* a node is reachable from the root, or it is an expanded node without out-edges *)
Lemma anch_reaches : forall N d, AnyInv N d -> Anch d -> forall s, s < size d ->
  (exists es, epath d 0 s es) \/
  (n_exp (get d s) = true /\ forall e, In e (sd_edges d) -> e_src e <> s).
Proof.
  intros N d Hp Ha. pose proof Hp as (Hswf & _ & Hes & _).
  assert (Hall : forall k y, y < size d -> nfixed (n_space (get d y)) < k ->
            (exists es, epath d 0 y es) \/
            (n_exp (get d y) = true /\ forall e, In e (sd_edges d) -> e_src e <> y)).
  { induction k as [|k IH]; intros y Hy Hk; [lia|].
    destruct (Nat.eq_dec y 0) as [Heq|Hne]; [subst y; left; exists []; apply ep_nil|].
    destruct (Ha y) as [(e & Hin & Hd)|Hiso]; [lia|exact Hy| |right; exact Hiso].
    pose proof (Hes e Hin) as Hss. rewrite Hd in Hss. apply strict_subspace_nfixed in Hss.
    destruct (swf_edges N d Hswf e Hin) as (Hsrc & _ & _).
    destruct (IH (e_src e) Hsrc) as [(es & Hpath)|(_ & Hno)]; [lia| |].
    - left. exists (es ++ [e]). rewrite <- Hd. apply (epath_snoc d 0 (e_src e) es e Hpath Hin eq_refl).
    - exfalso. apply (Hno e Hin). reflexivity. }
  intros s Hs. apply (Hall (S (nfixed (n_space (get d s)))) s Hs). lia.
Qed.

(* ================================================================== *)
(* 3. the target-directed expansion from any reachable diagram         *)
(* ================================================================== *)

Lemma expand_one_AnyInv : forall N cfg d x d2, 1 <= max_motifs cfg -> AnyInv N d -> x < size d ->
  expand_one N cfg d x = (d2, RUnit) -> AnyInv N d2.
Proof.
  intros N cfg d x d2 Hmm Hp Hx E.
  pose proof (step_AnyInv 0 N cfg d (OExpandNode x) Hmm Hp) as H.
  unfold step in H. rewrite (proj2 (Nat.ltb_lt _ _) Hx) in H.
  unfold node_successors in H. rewrite E in H. simpl in H. exact H.
Qed.

Lemma expand_one_Anch_eq : forall N cfg d x d2 r, SWF N d -> Anch d ->
  expand_one N cfg d x = (d2, r) -> Anch d2.
Proof.
  intros N cfg d x d2 r Hswf Ha E.
  pose proof (expand_one_Anch N cfg d x Hswf Ha) as H. rewrite E in H. exact H.
Qed.

Lemma expand_one_succ_other_any : forall N cfg d x d2 j, 1 <= max_motifs cfg -> AnyInv N d -> x < size d ->
  expand_one N cfg d x = (d2, RUnit) -> j < size d -> j <> x -> successors d2 j = successors d j.
Proof.
  intros N cfg d x d2 j Hmm Hp Hx E Hj Hne.
  destruct (n_exp (get d x)) eqn:Ex.
  - apply expand_one_cases in E.
    destruct E as [(_ & Hd & _)|[(Hf & _)|[(Hf & _)|(Hf & _)]]]; try congruence.
  - pose proof Hp as (Hswf & _ & _ & Hnse & _).
    destruct (expand_one_canonical N cfg d x d2 Hswf Hnse Hx Ex Hmm E) as (_ & _ & _ & H4).
    destruct (H4 j Hj Hne) as (Ho & _). rewrite !successors_out, Ho. reflexivity.
Qed.

(* the invariant of the target loop (ControlFacts5.TJ with AnyInv + Anch instead of PlainInv) *)
Definition TJ6 (N : net) (target : space) (d : sd) (seen pend : list nat) : Prop :=
  AnyInv N d /\ Anch d /\ In 0 seen /\
  (forall i, In i seen -> i < size d) /\
  (forall i, In i pend -> In i seen) /\
  (forall i, In i seen ->
     In i pend \/
     (tcond (n_space (get d i)) target = true ->
      n_exp (get d i) = true /\ forall s, In s (successors d i) -> In s seen)).

Lemma TJ6_skip : forall N target d seen x pend,
  TJ6 N target d seen (x :: pend) -> tcond (n_space (get d x)) target = false ->
  TJ6 N target d seen pend.
Proof.
  intros N target d seen x pend (Hp & Ha & H0 & Hval & Hpend & Hproc) Ht.
  split; [exact Hp|]. split; [exact Ha|]. split; [exact H0|]. split; [exact Hval|]. split.
  - intros i Hi. apply Hpend. right. exact Hi.
  - intros i Hi. destruct (Hproc i Hi) as [[Heq|Hin]|Hq]; [|left; exact Hin|right; exact Hq].
    subst i. right. intro H. congruence.
Qed.

Lemma TJ6_expand : forall N cfg target d seen x pend d2, 1 <= max_motifs cfg ->
  TJ6 N target d seen (x :: pend) -> tcond (n_space (get d x)) target = true ->
  expand_one N cfg d x = (d2, RUnit) ->
  TJ6 N target d2
     (seen ++ filter (fun s => negb (mem_nat s seen)) (sort_nat (successors d2 x)))
     (pend ++ filter (fun s => negb (mem_nat s seen)) (sort_nat (successors d2 x))).
Proof.
  intros N cfg target d seen x pend d2 Hmm (Hp & Ha & H0 & Hval & Hpend & Hproc) Ht Ee.
  assert (Hx : x < size d) by (apply Hval; apply Hpend; left; reflexivity).
  pose proof Hp as (Hswf & _).
  pose proof (expand_one_AnyInv N cfg d x d2 Hmm Hp Hx Ee) as Hp2.
  pose proof (expand_one_Anch_eq N cfg d x d2 RUnit Hswf Ha Ee) as Ha2.
  pose proof Hp2 as (Hswf2 & _).
  assert (Hext : extends d d2).
  { pose proof (expand_one_extends N cfg d x) as H. rewrite Ee in H. exact H. }
  destruct Hext as (Hsz & Hsp & Hex & _).
  destruct (expand_one_step N cfg d x d2 Hswf Hx Ee) as (Hc & _ & _).
  set (fresh := filter (fun s => negb (mem_nat s seen)) (sort_nat (successors d2 x))).
  split; [exact Hp2|]. split; [exact Ha2|]. split; [|split; [|split]].
  - apply in_or_app. left. exact H0.
  - intros i Hi. apply in_app_or in Hi. destruct Hi as [Hi|Hi].
    + apply Hval in Hi. lia.
    + unfold fresh in Hi. apply filter_In in Hi. destruct Hi as [Hi _].
      apply sort_nat_In in Hi. apply (successors_valid N d2 x i Hswf2 Hi).
  - intros i Hi. apply in_or_app. apply in_app_or in Hi. destruct Hi as [Hi|Hi].
    + left. apply Hpend. right. exact Hi.
    + right. exact Hi.
  - intros i Hi. apply in_app_or in Hi. destruct Hi as [Hi|Hi].
    + destruct (Nat.eq_dec i x) as [Heq|Hne].
      * subst i. right. intros _. split; [exact Hc|].
        intros s Hs. apply in_or_app. destruct (mem_nat s seen) eqn:Em.
        -- left. apply mem_nat_spec. exact Em.
        -- right. unfold fresh. apply filter_In. split; [|rewrite Em; reflexivity].
           apply sort_nat_In_rev. exact Hs.
      * destruct (Hproc i Hi) as [[Heq|Hin]|Hq].
        -- exfalso. apply Hne. symmetry. exact Heq.
        -- left. apply in_or_app. left. exact Hin.
        -- right. pose proof (Hval i Hi) as Hlt. rewrite Hsp by exact Hlt. intro Hti.
           destruct (Hq Hti) as [He Hs]. split; [apply Hex; assumption|].
           intros s Hin. rewrite (expand_one_succ_other_any N cfg d x d2 i Hmm Hp Hx Ee Hlt Hne) in Hin.
           apply in_or_app. left. apply Hs. exact Hin.
    + left. apply in_or_app. right. exact Hi.
Qed.

Lemma target_level_TJ6 : forall N cfg target, 1 <= max_motifs cfg ->
  forall cur d seen next d1 seen1 next1,
  TJ6 N target d seen (cur ++ next) ->
  target_level N cfg target None d seen next cur = (d1, RUnit, seen1, next1) ->
  TJ6 N target d1 seen1 next1.
Proof.
  intros N cfg target Hmm cur. induction cur as [|x cur IH]; intros d seen next d1 seen1 next1 Hti H.
  - simpl in H. injection H as H1 H2 H3. subst d1 seen1 next1. exact Hti.
  - rewrite target_level_cons in H. simpl in Hti.
    destruct (tcond (n_space (get d x)) target) eqn:Et.
    + destruct (node_successors N cfg d x) as [[d2 r2] succ] eqn:En.
      destruct (ControlFacts2.node_successors_result N cfg d x d2 r2 succ En) as [(Hr & Ee & Hs)|Hr]; subst r2.
      * subst succ. cbv zeta in H. eapply IH; [|exact H].
        rewrite app_assoc. apply (TJ6_expand N cfg target d seen x (cur ++ next) d2 Hmm Hti Et Ee).
      * discriminate H.
    + apply (IH d seen next d1 seen1 next1); [|exact H].
      apply (TJ6_skip N target d seen x (cur ++ next) Hti Et).
Qed.

Lemma target_loop_TJ6 : forall N cfg target, 1 <= max_motifs cfg ->
  forall fuel d seen cur d',
  TJ6 N target d seen cur ->
  target_loop fuel N cfg target None d seen cur = (d', RBool true) ->
  exists seen', TJ6 N target d' seen' [].
Proof.
  intros N cfg target Hmm fuel. induction fuel as [|f IH]; intros d seen cur d' Hti H.
  - simpl in H. discriminate H.
  - rewrite target_loop_S in H. destruct cur as [|x cur].
    + injection H as H. subst d'. exists seen. exact Hti.
    + destruct (target_level N cfg target None d seen [] (x :: cur)) as [[[d1 r] seen1] next] eqn:El.
      pose proof (target_level_not_true _ _ _ _ _ _ _ _ _ _ _ El) as Hnt.
      destruct r; try discriminate H.
      * apply (IH d1 seen1 next d'); [|exact H].
        apply (target_level_TJ6 N cfg target Hmm (x :: cur) d seen [] d1 seen1 next); [|exact El].
        rewrite app_nil_r. exact Hti.
      * injection H as _ Hb. subst b. exfalso. apply Hnt. reflexivity.
Qed.

Theorem target_expansion_TargetExpanded_any : forall fuel N cfg target d d', 1 <= max_motifs cfg ->
  length target = nvars N -> AnyInv N d -> Anch d ->
  expand_to_target fuel N cfg d target None = (d', RBool true) ->
  AnyInv N d' /\ Anch d' /\ TargetExpanded target d'.
Proof.
  intros fuel N cfg target d d' Hmm Hlen Hp Ha Hrun.
  pose proof Hp as (Hswf & _).
  assert (Hd' : d' = fst (step fuel N cfg d (OTarget target None))).
  { unfold step. rewrite Hrun. reflexivity. }
  assert (Hp' : AnyInv N d') by (rewrite Hd'; apply step_AnyInv; assumption).
  assert (Ha' : Anch d') by (rewrite Hd'; apply (step_Anch fuel N cfg d _ Hswf Ha)).
  split; [exact Hp'|]. split; [exact Ha'|].
  unfold expand_to_target in Hrun.
  assert (Hti : TJ6 N target d [0] [0]).
  { split; [exact Hp|]. split; [exact Ha|]. split; [left; reflexivity|]. split; [|split].
    - intros i [Hi|[]]. subst i. apply (swf_size N d Hswf).
    - intros i Hi. exact Hi.
    - intros i Hi. left. exact Hi. }
  destruct (target_loop_TJ6 N cfg target Hmm fuel d [0] [0] d' Hti Hrun)
    as (seen' & _ & _ & H0 & _ & _ & Hproc).
  pose proof Hp' as (_ & _ & Hes' & _).
  intros i Hi Ht.
  destruct (anch_reaches N d' Hp' Ha' i Hi) as [(es & Hpath)|(Hexp & _)]; [|exact Hexp].
  assert (Hin : In i seen').
  { apply (closed_reaches d' target seen' Hes') with (x := 0) (es := es); try assumption.
    intros j Hj Htj s Hs. destruct (Hproc j Hj) as [[]|Hq].
    destruct (Hq Htj) as [_ Hsucc]. apply Hsucc. exact Hs. }
  destruct (Hproc i Hin) as [[]|Hq]. destruct (Hq Ht) as [He _]. exact He.
Qed.

(* ================================================================== *)
(* 4. the chain along a path of a diagram with skip nodes              *)
(* ================================================================== *)

Lemma edge_motif_facts_any : forall N d e m, AnyInv N d -> In e (sd_edges d) -> In m (e_motifs e) ->
  e_src e < size d /\ e_dst e < size d /\ length m = nvars N /\ trap_space N m /\
  subspace m (n_space (get d (e_src e))) = true /\
  percolate_b N m = n_space (get d (e_dst e)) /\
  strict_subspace (n_space (get d (e_dst e))) (n_space (get d (e_src e))).
Proof.
  intros N d e m Hp He Hm. pose proof Hp as (Hswf & Htn & Hes & Hnse & Hf & Hsk & _).
  destruct (swf_edges N d Hswf e He) as (Hs & Hd & _).
  destruct (swf_motif N d Hswf e m He Hm) as [Hl Hperc].
  pose proof (Hes e He) as Hstr.
  assert (Hoe : In e (out_edges d (e_src e))) by (apply out_edges_In; split; [exact He|reflexivity]).
  assert (Hts : trap_space N m /\ subspace m (n_space (get d (e_src e))) = true).
  { destruct (n_skip (get d (e_src e))) eqn:Esk.
    - destruct (Hsk _ Hs Esk) as (_ & A2 & _). destruct (A2 e Hoe) as [Hmo _].
      rewrite Hmo in Hm. destruct Hm as [Hm|[]]. subst m.
      split; [apply (TrapNodes_get N d _ Htn Hd)|exact (proj1 Hstr)].
    - pose proof (Hf _ Hs (Hnse e He) Esk) as Hcan. unfold canonical in Hcan.
      assert (Hout : In m (out_motifs d (e_src e))).
      { unfold out_motifs. apply in_flat_map. exists e. split; assumption. }
      pose proof (Permutation_in _ Hcan Hout) as Hmax.
      destruct (max_traps_b_trap N _ _ m (AnyInv_space_len N d _ Hp Hs) Hmax) as [Ht [Hsub _]].
      split; assumption. }
  destruct Hts as [Htrap Hsub].
  split; [exact Hs|]. split; [exact Hd|]. split; [exact Hl|]. split; [exact Htrap|].
  split; [exact Hsub|]. split; [exact Hperc|exact Hstr].
Qed.

Lemma chain_path_gen_any : forall N d, AnyInv N d -> forall es x s succ a,
  epath d x s es -> choice d es succ -> x < size d ->
  trap_space N a -> subspace (n_space (get d x)) a = true -> percolate_b N a = n_space (get d x) ->
  last (chain N succ a) [] = match es with [] => a | _ => n_space (get d s) end /\
  forall i, i < length succ ->
    trap_space N (nth i (chain N succ a) []) /\ trap_space N (nth (S i) (chain N succ a) []) /\
    subspace (nth (S i) (chain N succ a) []) (nth i (chain N succ a) []) = true /\
    length (nth i succ []) = nvars N.
Proof.
  intros N d Hp. pose proof Hp as (Hswf & Htn & _).
  induction es as [|e es IH]; intros x s succ a Hpath Hch Hx Hta HXa HpX.
  - inversion Hch; subst. simpl. split; [reflexivity|]. intros i Hi. inversion Hi.
  - inversion Hch as [|e0 ts es0 r Hts Hr]; subst.
    apply epath_cons_inv in Hpath. destruct Hpath as (He & Hsrc & Hpath).
    apply in_map_iff in Hts. destruct Hts as (m & Hts & Hm).
    destruct (edge_motif_facts_any N d e m Hp He Hm) as (Hs & Hd & Hlm & Htm & HmX & Hperc & Hstr).
    rewrite Hsrc in *.
    set (X := n_space (get d x)) in *. set (C := n_space (get d (e_dst e))) in *.
    assert (HlX : length X = nvars N) by (apply (AnyInv_space_len N d x Hp Hx)).
    assert (Hla : length a = nvars N) by (apply trap_space_length; exact Hta).
    assert (HtC : trap_space N C) by (apply (TrapNodes_get N d _ Htn Hd)).
    assert (HCa : subspace C a = true) by (apply (subspace_trans _ _ _ (proj1 Hstr) HXa)).
    assert (Hnext : merge a (percolate_b N (merge ts a)) = C).
    { subst ts. rewrite (chain_step_space N m X a Hlm HlX Hla Htm HmX HXa HpX).
      rewrite Hperc. apply merge_sub_eq. exact HCa. }
    cbn [chain]. rewrite Hnext.
    assert (HpC : percolate_b N C = C) by (apply (swf_closed N d Hswf); apply get_In; exact Hd).
    destruct (IH (e_dst e) s r C Hpath Hr Hd HtC (subspace_refl C) HpC) as [Hlast Hnth].
    split.
    + rewrite last_cons_chain. rewrite Hlast. destruct es as [|e' es']; [|reflexivity].
      apply epath_nil_inv in Hpath. subst s. reflexivity.
    + intros i Hi. destruct i as [|i].
      * cbn [nth]. rewrite chain_hd. split; [exact Hta|]. split; [exact HtC|]. split; [exact HCa|].
        subst ts. rewrite reduce_motif_length; lia.
      * simpl in Hi. apply Hnth. lia.
Qed.

(* ================================================================== *)
(* 5. no lava below: minimal trap spaces lie inside the target         *)
(* ================================================================== *)

Lemma no_lava_min_in_target_any : forall N d target, AnyInv N d -> TargetExpanded target d ->
  forall k x M, x < size d -> nvars N - nfixed (n_space (get d x)) < k ->
    ~ lava_below d target x -> min_trap N M -> subspace M (n_space (get d x)) = true ->
    subspace M target = true.
Proof.
  intros N d target Hp Hte. pose proof Hp as (Hswf & Htn & Hes & _).
  induction k as [|k IH]; intros x M Hx Hk Hnl HM Hsub; [lia|].
  set (X := n_space (get d x)) in *.
  assert (Hhot : hot_lava d target x = false).
  { destruct (hot_lava d target x) eqn:E; [|reflexivity]. exfalso. apply Hnl.
    exists x. split; [apply is_desc_refl|exact E]. }
  unfold hot_lava in Hhot. fold X in Hhot.
  destruct (intersect X target) as [z|] eqn:Ei; [|discriminate Hhot].
  destruct (subspace X target) eqn:Est.
  { apply (subspace_trans _ _ _ Hsub Est). }
  simpl in Hhot.
  assert (Htc : tcond X target = true).
  { apply tcond_spec. split; [rewrite Ei; discriminate|]. intros [H _]. congruence. }
  pose proof (Hte x Hx Htc) as Hexp.
  unfold is_minimal in Hhot. rewrite Hexp, andb_true_r in Hhot.
  assert (Hchild : forall c, In c (successors d x) ->
            c < size d /\ strict_subspace (n_space (get d c)) X /\ ~ lava_below d target c).
  { intros c Hc. apply In_successors in Hc. destruct Hc as (e & He & Hsrc & Hdst).
    destruct (swf_edges N d Hswf e He) as (_ & Hd & _). pose proof (Hes e He) as Hstr.
    rewrite Hsrc, Hdst in *. split; [exact Hd|]. split; [exact Hstr|].
    intro Hl. apply Hnl. rewrite <- Hsrc. apply lava_below_edge; [exact He|]. rewrite Hdst. exact Hl. }
  destruct (expanded_min_descends N d x M Hp Hx Hexp HM Hsub) as [Eq|(c & Hc & HsubM)].
  - (* M = X would be a minimal trap space with a successor *)
    exfalso. fold X in Eq.
    unfold out_degree in Hhot. destruct (successors d x) as [|c l] eqn:Es; [discriminate Hhot|].
    destruct (Hchild c (or_introl eq_refl)) as (Hc & [Hcs Hcne] & _).
    apply Hcne. rewrite Eq. apply (proj2 HM); [apply (TrapNodes_get N d c Htn Hc)|].
    rewrite <- Eq. exact Hcs.
  - destruct (Hchild c Hc) as (Hclt & Hcstr & Hcnl).
    apply (IH c M Hclt); try assumption.
    pose proof (strict_subspace_nfixed _ _ Hcstr) as Hnf.
    pose proof (nfixed_le_length (n_space (get d c))) as Hle.
    rewrite (AnyInv_space_len N d c Hp Hclt) in Hle. lia.
Qed.

(* ================================================================== *)
(* 6. when the only succession is the empty one                        *)
(* ================================================================== *)

Lemma min_trap_in_root_any : forall N d M, AnyInv N d -> min_trap N M ->
  subspace M (n_space (get d 0)) = true.
Proof.
  intros N d M Hp HM. destruct Hp as (_ & _ & _ & _ & _ & _ & Hroot). rewrite Hroot.
  pose proof (min_trap_length N M HM) as Hl.
  rewrite <- (min_trap_closed N M HM).
  apply percolate_mono_weak; [exact (proj1 HM)|exact Hl|unfold top_space; apply repeat_length|].
  rewrite <- Hl. apply subspace_top.
Qed.

(* following a minimal trap space down from a node reachable from the root: one ends at an unexpanded node
   that contains it or at the node of the minimal trap space itself *)
Lemma descend_min : forall N d M, AnyInv N d -> min_trap N M ->
  forall k x es, x < size d -> nvars N - nfixed (n_space (get d x)) < k ->
    epath d 0 x es -> subspace M (n_space (get d x)) = true ->
    exists y es', y < size d /\ epath d 0 y es' /\ subspace M (n_space (get d y)) = true /\
      (n_exp (get d y) = false \/ n_space (get d y) = M).
Proof.
  intros N d M Hp HM. pose proof Hp as (Hswf & _ & Hes & _).
  induction k as [|k IH]; intros x es Hx Hk Hpath Hsub; [lia|].
  destruct (n_exp (get d x)) eqn:Ex.
  - destruct (expanded_min_descends N d x M Hp Hx Ex HM Hsub) as [Heq|(c & Hc & HsubM)].
    + exists x, es. split; [exact Hx|]. split; [exact Hpath|]. split; [exact Hsub|right; exact Heq].
    + apply In_successors in Hc. destruct Hc as (e & He & Hsrc & Hdst).
      destruct (swf_edges N d Hswf e He) as (_ & Hd & _). pose proof (Hes e He) as Hstr.
      rewrite Hsrc, Hdst in *.
      apply (IH c (es ++ [e])); [exact Hd| | |exact HsubM].
      * pose proof (strict_subspace_nfixed _ _ Hstr) as Hnf.
        pose proof (nfixed_le_length (n_space (get d c))) as Hle.
        rewrite (AnyInv_space_len N d c Hp Hd) in Hle. lia.
      * rewrite <- Hdst. apply (epath_snoc d 0 x es e Hpath He Hsrc).
  - exists x, es. split; [exact Hx|]. split; [exact Hpath|]. split; [exact Hsub|left; exact Ex].
Qed.

(* such a node has no lava below when the minimal trap space lies inside the target *)
Lemma leaf_no_lava : forall N d target y M, AnyInv N d -> length target = nvars N -> y < size d ->
  min_trap N M -> subspace M (n_space (get d y)) = true -> subspace M target = true ->
  (n_exp (get d y) = false \/ n_space (get d y) = M) -> ~ lava_below d target y.
Proof.
  intros N d target y M Hp Hlt Hy HM Hsub HMt Hcase (z & (es & Hpath) & Hhot).
  pose proof Hp as (Hswf & Htn & Hes & Hnse & _).
  assert (Hnoout : forall e, In e (sd_edges d) -> e_src e <> y).
  { intros e He Hsrc. destruct Hcase as [Hun|Heq].
    - pose proof (Hnse e He) as Hx. rewrite Hsrc in Hx. congruence.
    - destruct (Hes e He) as [Hs Hne]. destruct (swf_edges N d Hswf e He) as (_ & Hd & _).
      rewrite Hsrc, Heq in *. apply Hne. apply (proj2 HM); [apply (TrapNodes_get N d _ Htn Hd)|exact Hs]. }
  assert (Hz : y = z).
  { destruct es as [|e es]; [apply (epath_nil_inv d y z Hpath)|].
    apply epath_cons_inv in Hpath. destruct Hpath as (He & Hsrc & _).
    exfalso. exact (Hnoout e He Hsrc). }
  subst z. unfold hot_lava in Hhot.
  pose proof (AnyInv_space_len N d y Hp Hy) as HlY.
  pose proof (min_trap_length N M HM) as HlM.
  destruct (intersect (n_space (get d y)) target) as [w|] eqn:Ei.
  - destruct Hcase as [Hun|Heq].
    + unfold is_minimal in Hhot. rewrite Hun in Hhot. rewrite !andb_false_r in Hhot. discriminate Hhot.
    + rewrite Heq, HMt in Hhot. simpl in Hhot. discriminate Hhot.
  - destruct (space_nonempty_wf N M HlM) as (s & Hwf & Hs).
    assert (Hl1 : length (n_space (get d y)) = length target) by lia.
    pose proof (intersect_spec_none _ _ Hl1 Ei s) as Hn.
    assert (Hl2 : length M = length (n_space (get d y))) by lia.
    assert (Hl3 : length M = length target) by lia.
    rewrite (proj1 (subspace_spec M _ Hl2) Hsub s Hs) in Hn.
    rewrite (proj1 (subspace_spec M _ Hl3) HMt s Hs) in Hn. discriminate Hn.
Qed.

Lemma empty_succession_root_any : forall N d target, AnyInv N d -> length target = nvars N ->
  TargetExpanded target d ->
  (exists s, s < size d /\ ~ lava_below d target s) ->
  ~ (exists s es succ', end_node d target s /\ s <> 0 /\ epath d 0 s es /\ choice d es succ') ->
  ~ lava_below d target 0.
Proof.
  intros N d target Hp Hlt Hte (s & Hs & Hnl) Hno Hl0. pose proof Hp as (Hswf & Htn & Hes & _).
  pose proof (swf_size N d Hswf) as H0.
  destruct (min_trap_exists N _ (TrapNodes_get N d s Htn Hs)) as (M & HM & HsubM).
  assert (HMt : subspace M target = true).
  { apply (no_lava_min_in_target_any N d target Hp Hte (S (nvars N - nfixed (n_space (get d s)))) s M Hs);
      try assumption. lia. }
  destruct (descend_min N d M Hp HM (S (nvars N - nfixed (n_space (get d 0)))) 0 [] H0)
    as (y & es & Hy & Hpath & HsubY & Hcase); [lia|apply ep_nil|apply (min_trap_in_root_any N d M Hp HM)|].
  pose proof (leaf_no_lava N d target y M Hp Hlt Hy HM HsubY HMt Hcase) as Hnly.
  destruct (first_end_node N d target Hswf Hes 0 y es Hpath H0 Hl0 Hnly)
    as (t & es1 & Hend & Hne & Hp1).
  destruct (choice_exists N d es1 Hswf (epath_edges d 0 t es1 Hp1)) as (succ' & Hc).
  apply Hno. exists t, es1, succ'. split; [exact Hend|]. split; [|split; assumption].
  intro Heq. subst t. apply Hne. apply (epath_loop_nil d 0 es1 Hes Hp1).
Qed.

(* ================================================================== *)
(* 7. C06 on diagrams with skip nodes                                  *)
(* ================================================================== *)

Theorem succession_control_sound_any : forall N d target all_strategy maxd forbidden b succ ctl,
  AnyInv N d -> Anch d -> length target = nvars N -> TargetExpanded target d ->
  In (succ, ctl, true) (succession_control_ff N d target all_strategy maxd forbidden b) ->
  let spaces := chain N succ (top_space (nvars N)) in
  length ctl = length succ /\
  (forall i, i < length succ ->
     trap_space N (nth i spaces []) /\ trap_space N (nth (S i) spaces []) /\
     subspace (nth (S i) spaces []) (nth i spaces []) = true /\
     nth i ctl [] <> [] /\
     forall drv, In drv (nth i ctl []) ->
       subspace (percolate_b N (merge drv (nth i spaces []))) (nth i succ []) = true /\
       forced (override N drv) (nth i spaces []) (nth i succ [])) /\
  intersect (last spaces []) target <> None /\
  (forall M, min_trap N M -> subspace M (last spaces []) = true -> subspace M target = true).
Proof.
  intros N d target all_strategy maxd forbidden b succ ctl Hp _ Hlt Hte Hin spaces.
  apply succession_control_ff_incl in Hin.
  pose proof Hp as (Hswf & Htn & Hes & _ & _ & _ & Hroot).
  unfold succession_control in Hin. apply in_map_iff in Hin. destruct Hin as (succ0 & Heq & Hsucc).
  injection Heq as E1 E2 E3. subst succ0 ctl.
  assert (Hcommon : exists s es, s < size d /\ epath d 0 s es /\ choice d es succ /\
                      ~ lava_below d target s).
  { apply (successions_spec N d target succ Hswf Hes) in Hsucc.
    destruct Hsucc as [(s & es & (Hs & Hnl & _) & _ & Hpath & Hch)|(Hnil & Hex & Hno)].
    - exists s, es. auto.
    - subst succ. exists 0, []. split; [apply (swf_size N d Hswf)|]. split; [apply ep_nil|].
      split; [constructor|]. apply (empty_succession_root_any N d target Hp Hlt Hte Hex Hno). }
  destruct Hcommon as (s & es & Hs & Hpath & Hch & Hnl).
  assert (Hltop : length (top_space (nvars N)) = nvars N) by (unfold top_space; apply repeat_length).
  assert (H0 : 0 < size d) by (apply (swf_size N d Hswf)).
  destruct (chain_path_gen_any N d Hp es 0 s succ (top_space (nvars N)) Hpath Hch H0 (trap_space_top N))
    as [Hlast Hnth].
  { rewrite <- (AnyInv_space_len N d 0 Hp H0). apply subspace_top. }
  { symmetry. exact Hroot. }
  fold spaces in Hlast, Hnth.
  split; [apply drivers_length|]. split; [|split].
  - intros i Hi. destruct (Hnth i Hi) as (Ht1 & Ht2 & Hsub & Hlts).
    split; [exact Ht1|]. split; [exact Ht2|]. split; [exact Hsub|].
    set (ctl := drivers_of_succession N succ all_strategy (top_space (nvars N)) maxd forbidden) in *.
    assert (Hic : i < length ctl) by (unfold ctl; rewrite drivers_length; exact Hi).
    split.
    + intro Hnil. rewrite forallb_forall in E3.
      pose proof (E3 (nth i ctl []) (nth_In ctl [] Hic)) as Hne. rewrite Hnil in Hne. discriminate Hne.
    + intros drv Hdrv. unfold ctl in Hdrv. rewrite drivers_nth in Hdrv by exact Hi.
      fold spaces in Hdrv. split.
      * destruct (find_drivers_sound N _ all_strategy _ maxd forbidden drv Hlts
                    (trap_space_length N _ Ht1) Hdrv) as (_ & Hf & _).
        exact Hf.
      * apply (find_drivers_force N _ all_strategy _ maxd forbidden drv Ht1 Hlts Hdrv).
  - destruct es as [|e es'].
    + rewrite Hlast, <- Hlt. rewrite intersect_top_l. discriminate.
    + rewrite Hlast. intro Hi. apply Hnl. exists s. split; [apply is_desc_refl|].
      unfold hot_lava. rewrite Hi. reflexivity.
  - intros M HM Hsub.
    assert (HsubS : subspace M (n_space (get d s)) = true).
    { destruct es as [|e es'].
      - apply epath_nil_inv in Hpath. subst s. apply (min_trap_in_root_any N d M Hp HM).
      - rewrite <- Hlast. exact Hsub. }
    apply (no_lava_min_in_target_any N d target Hp Hte (S (nvars N - nfixed (n_space (get d s)))) s M Hs);
      try assumption. lia.
Qed.

(* ================================================================== *)
(* 8. the whole call after an arbitrary history                        *)
(* ================================================================== *)

Theorem control_after_any_history_sound : forall fuel N cfg h d r target d' all_strategy maxd forbidden b succ ctl,
  1 <= max_motifs cfg -> length target = nvars N ->
  In (d, r) (run fuel N cfg (init N) h) ->
  expand_to_target fuel N cfg d target None = (d', RBool true) ->
  In (succ, ctl, true) (succession_control_ff N d' target all_strategy maxd forbidden b) ->
  let spaces := chain N succ (top_space (nvars N)) in
  length ctl = length succ /\
  (forall i, i < length succ ->
     forall drv, In drv (nth i ctl []) ->
       subspace (percolate_b N (merge drv (nth i spaces []))) (nth i succ []) = true /\
       forced (override N drv) (nth i spaces []) (nth i succ [])) /\
  intersect (last spaces []) target <> None /\
  (forall M, min_trap N M -> subspace M (last spaces []) = true -> subspace M target = true).
Proof.
  intros fuel N cfg h d r target d' all_strategy maxd forbidden b succ ctl Hmm Hlen Hrun Hexp Hin spaces.
  destruct (run_AnyInv_Anch fuel N cfg h d r Hmm Hrun) as [Hp Ha].
  destruct (target_expansion_TargetExpanded_any fuel N cfg target d d' Hmm Hlen Hp Ha Hexp) as (Hp' & Ha' & Hte).
  destruct (succession_control_sound_any N d' target all_strategy maxd forbidden b succ ctl Hp' Ha' Hlen Hte Hin)
    as (H1 & H2 & H3 & H4).
  fold spaces in H2, H3, H4.
  split; [exact H1|]. split; [|split; [exact H3|exact H4]].
  intros i Hi drv Hdrv. destruct (H2 i Hi) as (_ & _ & _ & _ & H5). apply H5. exact Hdrv.
Qed.

Print Assumptions run_AnyInv_Anch.
Print Assumptions target_expansion_TargetExpanded_any.
Print Assumptions succession_control_sound_any.
Print Assumptions control_after_any_history_sound.
