(* SkipRuleFacts.v -- C05: the full statement is refuted on the model (known finding D4), what remains true is proved.
   * C05_refuted: on d4_net, after [expand root; expand 2; expand 3; skip_remaining] and seeds for every node in id
     order, 8 of the 16 attractors are represented by no node although the engine is ideal.
   * ideal_seeds_sound: whatever the cache, a seed reported by the ideal engine lies in an attractor of the network
     that is inside the node's space (the half of C05 that survives: no spurious seeds).
   * no_skip_no_exclusion: the rule changes nothing for ordinary nodes. *)
From Coq Require Import List Bool Arith NArith Lia.
Import ListNotations.
From BB Require Import BN Brute SpaceFacts AttractorFacts FilterFacts Diagram Invariants SkipRule.

Lemma d4_history_runs : map snd (run 100 d4_net d4_cfg (init d4_net) d4_history)
                        = [RIds [1; 2; 3; 4; 5; 6; 7]; RIds [8; 9; 10; 11; 12]; RIds [13; 14; 15; 16; 17]; RNat 15].
Proof. vm_compute. reflexivity. Qed.

Lemma d4_counts : size d4_diagram = 26 /\ length (attractors_b d4_net) = 16 /\
                  length (lost (attractors_b d4_net) d4_cache) = 8 /\
                  forallb (fun A => Nat.leb (times_represented d4_cache A) 1) (attractors_b d4_net) = true.
Proof. vm_compute. repeat split; reflexivity. Qed.

(* generic facts about the bookkeeping (no closed terms here: keeps the kernel away from evaluating the witness) *)
Lemma lost_witness : forall attrs c, length (lost attrs c) <> 0 ->
  exists L, In L attrs /\ represented c L = false.
Proof.
  intros attrs c H. destruct (lost attrs c) as [|L r] eqn:E; [exfalso; apply H; reflexivity|].
  assert (HL : In L (lost attrs c)) by (rewrite E; left; reflexivity).
  unfold lost in HL. apply filter_In in HL. destruct HL as [Hin Hrep].
  exists L. split; [exact Hin|]. apply negb_true_iff. exact Hrep.
Qed.

Lemma represented_false : forall c L, represented c L = false ->
  forall i l s, nth i c None = Some l -> In s l -> mem_state s L = false.
Proof.
  intros c L Hrep i l s Hn Hs. destruct (mem_state s L) eqn:Em; [|reflexivity]. exfalso.
  assert (Hex : represented c L = true).
  { unfold represented. apply existsb_exists. exists (Some l). split.
    - rewrite <- Hn. apply nth_In. destruct (lt_dec i (length c)) as [Hlt|Hge]; [exact Hlt|].
      rewrite nth_overflow in Hn by lia. discriminate Hn.
    - apply existsb_exists. exists s. split; assumption. }
  rewrite Hex in Hrep. discriminate Hrep.
Qed.

Definition all_queried_b (c : cache) : bool := forallb (fun o => match o with Some _ => true | None => false end) c.
Lemma all_queried : forall c n, all_queried_b c = true -> length c = n ->
  forall i, i < n -> exists l, nth i c None = Some l.
Proof.
  intros c n Hall Hlen i Hi. unfold all_queried_b in Hall. rewrite forallb_forall in Hall.
  assert (Hin : In (nth i c None) c) by (apply nth_In; rewrite Hlen; exact Hi).
  specialize (Hall _ Hin). destruct (nth i c None) as [l|]; [exists l; reflexivity|discriminate].
Qed.

Lemma d4_all_queried : all_queried_b d4_cache = true /\ length d4_cache = size d4_diagram.
Proof. vm_compute. split; reflexivity. Qed.

(* every node was queried, every skip node followed the rule, and still an attractor is lost *)
Theorem C05_refuted :
  exists L, In L (attractors_b d4_net) /\
    (forall i, i < size d4_diagram -> exists l, nth i d4_cache None = Some l) /\
    (forall i l s, nth i d4_cache None = Some l -> In s l -> mem_state s L = false).
Proof.
  destruct d4_counts as (_ & _ & Hl & _).
  destruct (lost_witness (attractors_b d4_net) d4_cache) as (L & HinL & Hrep).
  { rewrite Hl. discriminate. }
  exists L. split; [exact HinL|]. split.
  - destruct d4_all_queried as [Hq Hlen]. exact (all_queried d4_cache (size d4_diagram) Hq Hlen).
  - exact (represented_false d4_cache L Hrep).
Qed.

(* the lost attractors are attractors of the network in the Prop sense *)
Theorem C05_refuted_attractor : exists A, attractor d4_net A /\
  forall i l s, nth i d4_cache None = Some l -> In s l -> ~ A s.
Proof.
  destruct C05_refuted as (L & HL & _ & Hno).
  exists (fun s => In s L). split; [apply attractors_b_sound; exact HL|].
  intros i l s Hn Hs HA. specialize (Hno i l s Hn Hs).
  assert (Hm : mem_state s L = true).
  { unfold mem_state. apply existsb_exists. exists s. split; [exact HA|].
    clear. induction s as [|b s IH]; [reflexivity|]. simpl. destruct b; simpl; exact IH. }
  rewrite Hm in Hno. discriminate Hno.
Qed.

(* what survives: seeds of the ideal engine are never spurious *)
Theorem ideal_seeds_sound : forall N d c i s, In s (ideal_seeds (attractors_b N) d c i) ->
  exists L, In L (attractors_b N) /\ inside_b L (n_space (get d i)) = true /\ s = hd [] L.
Proof.
  intros N d c i s H. unfold ideal_seeds in H. apply in_map_iff in H. destruct H as (L & Hs & HL).
  unfold node_attractors_of in HL. apply filter_In in HL. destruct HL as [Hin Hb].
  apply andb_true_iff in Hb. destruct Hb as [Hb _]. exists L. split; [exact Hin|]. split; [exact Hb|]. symmetry. exact Hs.
Qed.

(* the rule only concerns skip nodes *)
Theorem no_skip_no_exclusion : forall d c i, n_skip (get d i) = false ->
  avoid_of d c i = if n_exp (get d i) then out_motifs d i else [].
Proof. intros d c i H. unfold avoid_of. rewrite H. apply app_nil_r. Qed.

Print Assumptions C05_refuted.
Print Assumptions C05_refuted_attractor.
Print Assumptions ideal_seeds_sound.
