(* PyLibBlocks.v -- hand-written semantic prelude for the translation (tools/py2coq_blocks.py) of
   biobalm/_sd_algorithms/expand_source_blocks.expand_source_blocks.  Definitions only; part of the trusted base of the translator tie.

   Embedding (beyond PyLibSd.v / PyLibCore.v / PyLibControl.v)
     blocks : list[tuple[set[str], list[int]]]        list (list nat * list nat): the block as the sorted list of its variables
                                                     (Blocks.block_of), the successors in insertion order
     for block, nodes in blocks: ...                 a loop over the POSITIONS of the list; block / nodes are read from the current value
                                                     of the list at that position (Python iterates the live list; its length does not
                                                     change inside these loops -- the translator refuses a loop that resizes its list)
     nodes.append(s)                                 upd_block: the list object inside the pair at the current position grows (aliasing)
     break in a for loop                             the hidden local brk_: the remaining iterations do nothing
     block == names / b2 < block (sets)              Blocks.same_set / Blocks.strict_subset
     sorted(minimal_blocks, key=lambda x: len(x[1])) Blocks.sort_blocks (stable insertion sort by the number of successors)
     the construction of a block's sub-diagram and the candidate / seed query on its root (compared with a reference text by the
     translator, not translated)                     tape_next: the next boolean of the is_clean tape (an exhausted tape reads false,
                                                     as Blocks.first_clean does); RuntimeError in the query = false (the text's except) *)
From Coq Require Import List Bool Arith.
Import ListNotations.
From BB Require Import BN Diagram.

Definition tape_next (t : list bool) : bool * list bool :=
  match t with
  | b :: r => (b, r)
  | [] => (false, [])
  end.

Definition nth_block (l : list (list nat * list nat)) (i : nat) : list nat * list nat := nth i l ([], []).

Fixpoint upd_block (l : list (list nat * list nat)) (i : nat) (x : list nat * list nat) : list (list nat * list nat) :=
  match l, i with
  | [], _ => []
  | _ :: r, O => x :: r
  | y :: r, S j => y :: upd_block r j x
  end.
