(* Termination.v -- every operation of the succession-diagram model terminates within an
   explicit bound: with enough fuel the result is never RFuel.  The bound is in terms of the
   number 3^n of spaces over n variables, which bounds the size of any well-formed diagram. *)
From Coq Require Import List Bool Arith NArith Lia Permutation.
Import ListNotations.
From BB Require Import BN Brute SpaceFacts TrapFacts PercolateFacts Diagram Invariants DiagramStruct DiagramSem1.
From BB Require Import Strict.

(* ================================================================== *)
(* 1. the number of nodes of a well-formed diagram                     *)
(* ================================================================== *)

Definition max_nodes (N : net) : nat := Nat.pow 3 (nvars N).

Lemma subspaces_of_top_length : forall n, length (subspaces_of (top_space n)) = Nat.pow 3 n.
Proof.
  induction n as [|n IH]; [reflexivity|].
  change (subspaces_of (top_space (S n)))
    with (map (cons None) (subspaces_of (top_space n)) ++
          map (cons (Some false)) (subspaces_of (top_space n)) ++
          map (cons (Some true)) (subspaces_of (top_space n))).
  rewrite !app_length, !map_length, Nat.pow_succ_r'. unfold space in *. rewrite IH. lia.
Qed.

Theorem size_bound : forall N d, SWF N d -> size d <= max_nodes N.
Proof.
  intros N d Hswf. unfold max_nodes.
  rewrite <- subspaces_of_top_length, <- length_spaces.
  apply NoDup_incl_length; [apply (swf_nodup N d Hswf)|].
  intros X HX. apply subspaces_of_spec.
  unfold spaces in HX. apply in_map_iff in HX. destruct HX as [x [Heq Hin]].
  rewrite <- (swf_len N d Hswf x Hin). subst X. apply subspace_top.
Qed.

(* ================================================================== *)
(* 2. helper facts about successor lists and `seen` lists              *)
(* ================================================================== *)

Lemma mem_nat_In : forall x l, mem_nat x l = true <-> In x l.
Proof.
  intros x l. unfold mem_nat. rewrite existsb_exists. split.
  - intros [y [Hin Heq]]. apply Nat.eqb_eq in Heq. subst y. exact Hin.
  - intro Hin. exists x. split; [exact Hin|apply Nat.eqb_refl].
Qed.

Lemma mem_nat_false : forall x l, mem_nat x l = false -> ~ In x l.
Proof.
  intros x l Hm Hin. apply mem_nat_In in Hin. rewrite Hin in Hm. discriminate Hm.
Qed.

Lemma insert_nat_In_inv : forall x y l, x = y \/ In x l -> In x (insert_nat y l).
Proof.
  intros x y l. induction l as [|z r IH]; simpl; intros [Heq|Hin].
  - left. symmetry. exact Heq.
  - contradiction.
  - destruct (Nat.leb y z); [left; symmetry; exact Heq|right; apply IH; left; exact Heq].
  - destruct (Nat.leb y z); [right; exact Hin|].
    destruct Hin as [Hz|Hin]; [left; exact Hz|right; apply IH; right; exact Hin].
Qed.

Lemma insert_nat_NoDup : forall x l, ~ In x l -> NoDup l -> NoDup (insert_nat x l).
Proof.
  intros x l. induction l as [|y r IH]; intros Hnin Hnd; simpl.
  - constructor; [intros []|constructor].
  - destruct (Nat.leb x y); [constructor; assumption|].
    apply NoDup_cons_iff in Hnd. destruct Hnd as [Hy Hr].
    constructor.
    + intro Hin. apply insert_nat_In in Hin. destruct Hin as [Heq|Hin].
      * apply Hnin. left. exact Heq.
      * apply Hy. exact Hin.
    + apply IH; [|exact Hr]. intro Hin. apply Hnin. right. exact Hin.
Qed.

Lemma sort_nat_NoDup : forall l, NoDup l -> NoDup (sort_nat l).
Proof.
  intros l Hnd. induction Hnd as [|x l Hnin Hnd IH]; simpl; [constructor|].
  apply insert_nat_NoDup; [|exact IH].
  intro Hin. apply Hnin. apply sort_nat_In. exact Hin.
Qed.

Lemma successors_of_NoDup : forall l i,
  NoDup (map edge_key l) -> NoDup (successors_of l i).
Proof.
  intros l i. unfold successors_of. induction l as [|e r IH]; intro Hnd; simpl; [constructor|].
  simpl in Hnd. apply NoDup_cons_iff in Hnd. destruct Hnd as [He Hr].
  destruct (Nat.eqb (e_src e) i) eqn:Esrc; [|apply IH; exact Hr].
  simpl. constructor; [|apply IH; exact Hr].
  intro Hin. apply in_map_iff in Hin. destruct Hin as [e' [Hdst Hin']].
  apply filter_In in Hin'. destruct Hin' as [Hin' Esrc'].
  apply He. apply in_map_iff. exists e'. split; [|exact Hin'].
  apply Nat.eqb_eq in Esrc. apply Nat.eqb_eq in Esrc'.
  unfold edge_key. rewrite Hdst, Esrc, Esrc'. reflexivity.
Qed.

Lemma successors_NoDup : forall N d i, SWF N d -> NoDup (successors d i).
Proof.
  intros N d i Hswf. unfold successors. apply successors_of_NoDup.
  exact (swf_edge_nodup N d Hswf).
Qed.

Lemma expand_one_result : forall N cfg d i,
  snd (expand_one N cfg d i) = RUnit \/ snd (expand_one N cfg d i) = RRaised ErrMotifLimit.
Proof.
  intros N cfg d i. unfold expand_one.
  destruct (n_exp (get d i)); [left; reflexivity|].
  destruct (is_full (n_space (get d i))); [left; reflexivity|].
  destruct (Nat.eqb (solver_len _ _) _); [right; reflexivity|left; reflexivity].
Qed.

(* everything the loops need to know about one call of node_successors *)
Lemma node_successors_facts : forall N cfg d x d1 r succ,
  SWF N d -> node_successors N cfg d x = (d1, r, succ) ->
  SWF N d1 /\ extends d d1 /\ r <> RFuel /\ NoDup succ /\ (forall s, In s succ -> s < size d1).
Proof.
  intros N cfg d x d1 r succ Hswf E.
  pose proof (node_successors_fst N cfg d x) as Hfst.
  pose proof (node_successors_extends N cfg d x) as Hext.
  pose proof (node_successors_succ N cfg d x) as Hsucc.
  assert (Hswf1 : SWF N d1).
  { rewrite E in Hfst. simpl in Hfst. rewrite Hfst.
    apply (expand_one_transfer N (SWF N) (prim_closed_SWF N)); exact Hswf. }
  rewrite E in Hext, Hsucc. simpl in Hext, Hsucc.
  split; [exact Hswf1|]. split; [exact Hext|].
  assert (Hr : r <> RFuel /\ NoDup succ).
  { unfold node_successors in E.
    pose proof (expand_one_result N cfg d x) as Hres.
    destruct (expand_one N cfg d x) as [d' r']. simpl in Hres.
    destruct Hres as [Hres|Hres]; subst r'; injection E as Hd Hrr Hs; subst d1 r succ.
    - split; [discriminate|]. eapply successors_NoDup. exact Hswf1.
    - split; [discriminate|constructor]. }
  destruct Hr as [Hr Hnd]. split; [exact Hr|]. split; [exact Hnd|].
  intros s Hin. eapply successors_valid; [exact Hswf1|]. apply Hsucc. exact Hin.
Qed.

Definition seen_ok (d : sd) (seen : list nat) : Prop :=
  NoDup seen /\ forall x, In x seen -> x < size d.

Lemma seen_ok_length : forall d seen, seen_ok d seen -> length seen <= size d.
Proof.
  intros d seen [Hnd Hlt]. rewrite <- (seq_length (size d) 0).
  apply NoDup_incl_length; [exact Hnd|].
  intros x Hin. apply in_seq. specialize (Hlt x Hin). lia.
Qed.

Lemma seen_ok_extends : forall d d' seen, extends d d' -> seen_ok d seen -> seen_ok d' seen.
Proof.
  intros d d' seen He [Hnd Hlt]. split; [exact Hnd|].
  intros x Hin. eapply extends_lt; [exact He|apply Hlt; exact Hin].
Qed.

Lemma seen_ok_cons : forall d seen s,
  seen_ok d seen -> mem_nat s seen = false -> s < size d -> seen_ok d (s :: seen).
Proof.
  intros d seen s [Hnd Hlt] Hm Hs. split.
  - constructor; [apply mem_nat_false; exact Hm|exact Hnd].
  - intros x [Heq|Hin]; [subst x; exact Hs|apply Hlt; exact Hin].
Qed.

Lemma seen_ok_fresh : forall d seen succ,
  seen_ok d seen -> NoDup succ -> (forall s, In s succ -> s < size d) ->
  seen_ok d (seen ++ filter (fun s => negb (mem_nat s seen)) (sort_nat succ)).
Proof.
  intros d seen succ [Hnd Hlt] Hnds Hs. split.
  - apply NoDup_app_disjoint; [exact Hnd| |].
    + apply NoDup_filter. apply sort_nat_NoDup. exact Hnds.
    + intros x Hin1 Hin2. apply filter_In in Hin2. destruct Hin2 as [_ Hneg].
      apply negb_true_iff in Hneg. apply mem_nat_false in Hneg. apply Hneg. exact Hin1.
  - intros x Hin. apply in_app_iff in Hin. destruct Hin as [Hin|Hin]; [apply Hlt; exact Hin|].
    apply filter_In in Hin. destruct Hin as [Hin _]. apply Hs. apply sort_nat_In. exact Hin.
Qed.

Lemma valid_start_lt : forall N d start, SWF N d -> valid_start d start = true ->
  match start with Some s => s | None => 0 end < size d.
Proof.
  intros N d [s|] Hswf Hv; simpl in *.
  - apply Nat.ltb_lt. exact Hv.
  - apply (swf_size N d Hswf).
Qed.

Lemma seen_ok_single : forall d s, s < size d -> seen_ok d [s].
Proof.
  intros d s Hs. split.
  - constructor; [intros []|constructor].
  - intros x [Heq|[]]. subst x. exact Hs.
Qed.

(* a seen list that can still grow is strictly below the bound *)
Lemma seen_room : forall N d seen added,
  SWF N d -> seen_ok d (seen ++ added) -> added <> [] ->
  max_nodes N - length (seen ++ added) + 1 <= max_nodes N - length seen.
Proof.
  intros N d seen added Hswf Hok Hne.
  pose proof (seen_ok_length d _ Hok) as Hlen.
  pose proof (size_bound N d Hswf) as Hsz.
  rewrite app_length in *. destruct added as [|a r]; [contradiction|]. simpl in *. lia.
Qed.

(* ================================================================== *)
(* 3. expand_bfs                                                       *)
(* ================================================================== *)

Lemma bfs_level_inv : forall N cfg sl cur d seen next d1 r seen1 next1,
  SWF N d -> seen_ok d seen ->
  bfs_level N cfg sl d seen next cur = (d1, r, seen1, next1) ->
  SWF N d1 /\ seen_ok d1 seen1 /\ r <> RFuel /\
  exists added, seen1 = seen ++ added /\ next1 = next ++ added.
Proof.
  intros N cfg sl cur. induction cur as [|x cur IH];
    intros d seen next d1 r seen1 next1 Hswf Hok E; simpl in E.
  - injection E as Hd Hr Hs Hn. subst d1 r seen1 next1.
    split; [exact Hswf|]. split; [exact Hok|]. split; [discriminate|].
    exists []. rewrite !app_nil_r. split; reflexivity.
  - destruct (over_limit sl d && negb (n_exp (get d x))).
    + injection E as Hd Hr Hs Hn. subst d1 r seen1 next1.
      split; [exact Hswf|]. split; [exact Hok|]. split; [discriminate|].
      exists []. rewrite !app_nil_r. split; reflexivity.
    + destruct (node_successors N cfg d x) as [[d' r'] succ] eqn:En.
      destruct (node_successors_facts N cfg d x d' r' succ Hswf En)
        as (Hswf' & Hext & Hr' & Hnd & Hlt).
      assert (Hstop : (d', r', seen, next) = (d1, r, seen1, next1) ->
                SWF N d1 /\ seen_ok d1 seen1 /\ r <> RFuel /\
                exists added, seen1 = seen ++ added /\ next1 = next ++ added).
      { intro E'. injection E' as Hd Hr Hs Hn. subst d1 r seen1 next1.
        split; [exact Hswf'|]. split; [eapply seen_ok_extends; eassumption|].
        split; [exact Hr'|]. exists []. rewrite !app_nil_r. split; reflexivity. }
      destruct r'; try (apply Hstop; exact E).
      apply IH in E; [|exact Hswf'|].
      * destruct E as (H1 & H2 & H3 & added & H4 & H5).
        split; [exact H1|]. split; [exact H2|]. split; [exact H3|].
        exists (filter (fun s => negb (mem_nat s seen)) (sort_nat succ) ++ added).
        rewrite !app_assoc. split; assumption.
      * apply seen_ok_fresh; [eapply seen_ok_extends; eassumption|exact Hnd|exact Hlt].
Qed.

Lemma bfs_loop_terminates : forall fuel N cfg ll sl d seen cur level,
  SWF N d -> seen_ok d seen ->
  match cur with [] => 1 | _ :: _ => max_nodes N - length seen + 2 end <= fuel ->
  snd (bfs_loop fuel N cfg ll sl d seen cur level) <> RFuel.
Proof.
  induction fuel as [|f IH]; intros N cfg ll sl d seen cur level Hswf Hok Hfuel.
  - destruct cur; lia.
  - simpl.
    pose proof (bfs_level_inv N cfg sl cur d seen []) as Hinv.
    destruct (bfs_level N cfg sl d seen [] cur) as [[[d1 r] seen1] next].
    destruct cur as [|x cur]; [simpl; discriminate|].
    destruct (Hinv d1 r seen1 next Hswf Hok eq_refl) as (Hswf1 & Hok1 & Hr & added & Hs & Hn).
    simpl in Hn. subst next.
    destruct r; simpl; try discriminate; try (exfalso; apply Hr; reflexivity).
    destruct (match ll with Some l => Nat.leb l level | None => false end); [simpl; discriminate|].
    apply IH; [exact Hswf1|exact Hok1|].
    destruct added as [|a added]; [lia|].
    subst seen1.
    pose proof (seen_room N d1 seen (a :: added) Hswf1 Hok1) as Hroom.
    assert (Hne : a :: added <> []) by discriminate.
    specialize (Hroom Hne). lia.
Qed.

Theorem bfs_terminates : forall fuel N cfg d start lvl sz, SWF N d -> valid_start d start = true ->
  max_nodes N + 2 <= fuel -> snd (expand_bfs fuel N cfg d start lvl sz) <> RFuel.
Proof.
  intros fuel N cfg d start lvl sz Hswf Hv Hfuel. unfold expand_bfs.
  pose proof (valid_start_lt N d start Hswf Hv) as Hs.
  apply bfs_loop_terminates; [exact Hswf|apply seen_ok_single; exact Hs|].
  simpl. lia.
Qed.

(* ================================================================== *)
(* 4. expand_to_target                                                 *)
(* ================================================================== *)

Lemma target_level_inv : forall N cfg target sl cur d seen next d1 r seen1 next1,
  SWF N d -> seen_ok d seen ->
  target_level N cfg target sl d seen next cur = (d1, r, seen1, next1) ->
  SWF N d1 /\ seen_ok d1 seen1 /\ r <> RFuel /\
  exists added, seen1 = seen ++ added /\ next1 = next ++ added.
Proof.
  intros N cfg target sl cur. induction cur as [|x cur IH];
    intros d seen next d1 r seen1 next1 Hswf Hok E; simpl in E.
  - injection E as Hd Hr Hs Hn. subst d1 r seen1 next1.
    split; [exact Hswf|]. split; [exact Hok|]. split; [discriminate|].
    exists []. rewrite !app_nil_r. split; reflexivity.
  - destruct (intersect (n_space (get d x)) target); [|eapply IH; eassumption].
    destruct (subspace (n_space (get d x)) target && negb (eqb_space (n_space (get d x)) target));
      [eapply IH; eassumption|].
    destruct (over_limit sl d && negb (n_exp (get d x))).
    + injection E as Hd Hr Hs Hn. subst d1 r seen1 next1.
      split; [exact Hswf|]. split; [exact Hok|]. split; [discriminate|].
      exists []. rewrite !app_nil_r. split; reflexivity.
    + destruct (node_successors N cfg d x) as [[d' r'] succ] eqn:En.
      destruct (node_successors_facts N cfg d x d' r' succ Hswf En)
        as (Hswf' & Hext & Hr' & Hnd & Hlt).
      assert (Hstop : (d', r', seen, next) = (d1, r, seen1, next1) ->
                SWF N d1 /\ seen_ok d1 seen1 /\ r <> RFuel /\
                exists added, seen1 = seen ++ added /\ next1 = next ++ added).
      { intro E'. injection E' as Hd Hr Hs Hn. subst d1 r seen1 next1.
        split; [exact Hswf'|]. split; [eapply seen_ok_extends; eassumption|].
        split; [exact Hr'|]. exists []. rewrite !app_nil_r. split; reflexivity. }
      destruct r'; try (apply Hstop; exact E).
      apply IH in E; [|exact Hswf'|].
      * destruct E as (H1 & H2 & H3 & added & H4 & H5).
        split; [exact H1|]. split; [exact H2|]. split; [exact H3|].
        exists (filter (fun s => negb (mem_nat s seen)) (sort_nat succ) ++ added).
        rewrite !app_assoc. split; assumption.
      * apply seen_ok_fresh; [eapply seen_ok_extends; eassumption|exact Hnd|exact Hlt].
Qed.

Lemma target_loop_terminates : forall fuel N cfg target sl d seen cur,
  SWF N d -> seen_ok d seen ->
  match cur with [] => 1 | _ :: _ => max_nodes N - length seen + 2 end <= fuel ->
  snd (target_loop fuel N cfg target sl d seen cur) <> RFuel.
Proof.
  induction fuel as [|f IH]; intros N cfg target sl d seen cur Hswf Hok Hfuel.
  - destruct cur; lia.
  - simpl.
    pose proof (target_level_inv N cfg target sl cur d seen []) as Hinv.
    destruct (target_level N cfg target sl d seen [] cur) as [[[d1 r] seen1] next].
    destruct cur as [|x cur]; [simpl; discriminate|].
    destruct (Hinv d1 r seen1 next Hswf Hok eq_refl) as (Hswf1 & Hok1 & Hr & added & Hs & Hn).
    simpl in Hn. subst next.
    destruct r; simpl; try discriminate; try (exfalso; apply Hr; reflexivity).
    apply IH; [exact Hswf1|exact Hok1|].
    destruct added as [|a added]; [lia|].
    subst seen1.
    pose proof (seen_room N d1 seen (a :: added) Hswf1 Hok1) as Hroom.
    assert (Hne : a :: added <> []) by discriminate.
    specialize (Hroom Hne). lia.
Qed.

Theorem target_terminates : forall fuel N cfg d t sz, SWF N d ->
  max_nodes N + 2 <= fuel -> snd (expand_to_target fuel N cfg d t sz) <> RFuel.
Proof.
  intros fuel N cfg d t sz Hswf Hfuel. unfold expand_to_target.
  apply target_loop_terminates; [exact Hswf|apply seen_ok_single; apply (swf_size N d Hswf)|].
  simpl. lia.
Qed.

(* ================================================================== *)
(* 5. expand_dfs                                                       *)
(* ================================================================== *)

(* measure: 2 * (ids not yet seen) + length of the stack; every iteration pops one entry and
   either pushes nothing, or marks a new id as seen and pushes two entries *)

Lemma drop_seen_head : forall seen l s rest, drop_seen seen l = s :: rest ->
  mem_nat s seen = false /\ (forall y, In y (s :: rest) -> In y l).
Proof.
  intros seen l. induction l as [|a l IH]; intros s rest E; simpl in E; [discriminate E|].
  destruct (mem_nat a seen) eqn:Em.
  - destruct (IH s rest E) as [H1 H2]. split; [exact H1|].
    intros y Hy. right. apply H2. exact Hy.
  - injection E as Ha Hl. subst a l. split; [exact Em|]. intros y Hy. exact Hy.
Qed.

Lemma stack_ok_tail : forall d e stack, stack_ok d (e :: stack) -> stack_ok d stack.
Proof.
  intros d e stack Hst x l s Hin Hs. eapply Hst; [right; exact Hin|exact Hs].
Qed.

Lemma stack_ok_push : forall d s x rest stack,
  (forall y, In y rest -> y < size d) -> stack_ok d stack ->
  stack_ok d ((s, None) :: (x, Some rest) :: stack).
Proof.
  intros d s x rest stack Hrest Hst x0 l0 s0 [Heq|[Heq|Hin]] Hs0.
  - discriminate Heq.
  - injection Heq as Hx Hl. subst x0 l0. apply Hrest. exact Hs0.
  - eapply Hst; eassumption.
Qed.

Lemma push_measure : forall N d seen s (k f : nat),
  SWF N d -> seen_ok d (s :: seen) ->
  2 * (max_nodes N - length seen) + S k + 1 <= S f ->
  2 * (max_nodes N - length (s :: seen)) + S (S k) + 1 <= f.
Proof.
  intros N d seen s k f Hswf Hok Hfuel.
  pose proof (seen_ok_length d _ Hok) as Hlen.
  pose proof (size_bound N d Hswf) as Hsz.
  simpl length in *. lia.
Qed.

Lemma dfs_loop_terminates : forall fuel N cfg kl sl d seen stack complete,
  SWF N d -> seen_ok d seen -> stack_ok d stack ->
  2 * (max_nodes N - length seen) + length stack + 1 <= fuel ->
  snd (dfs_loop fuel N cfg kl sl d seen stack complete) <> RFuel.
Proof.
  induction fuel as [|f IH]; intros N cfg kl sl d seen stack complete Hswf Hok Hst Hfuel; [lia|].
  simpl. destruct stack as [|[x osucc] stack']; [simpl; discriminate|].
  simpl length in Hfuel.
  assert (Hst' : stack_ok d stack') by (eapply stack_ok_tail; exact Hst).
  assert (Htail : forall d1 succ, SWF N d1 -> extends d d1 ->
            (forall s, In s succ -> s < size d1) ->
            snd (match drop_seen seen succ with
                 | [] => dfs_loop f N cfg kl sl d1 seen stack' complete
                 | s :: rest =>
                     if match kl with Some l => Nat.leb l (length stack') | None => false end
                     then dfs_loop f N cfg kl sl d1 seen stack' false
                     else dfs_loop f N cfg kl sl d1 (s :: seen)
                                   ((s, None) :: (x, Some rest) :: stack') complete
                 end) <> RFuel).
  { intros d1 succ Hswf1 Hext Hlt.
    assert (Hok1 : seen_ok d1 seen) by (eapply seen_ok_extends; eassumption).
    assert (Hst1 : stack_ok d1 stack') by (eapply stack_ok_extends; eassumption).
    destruct (drop_seen seen succ) as [|s rest] eqn:Ed.
    - apply IH; [exact Hswf1|exact Hok1|exact Hst1|lia].
    - destruct (drop_seen_head seen succ s rest Ed) as [Hm Hin].
      destruct (match kl with Some l => Nat.leb l (length stack') | None => false end).
      + apply IH; [exact Hswf1|exact Hok1|exact Hst1|lia].
      + assert (Hok2 : seen_ok d1 (s :: seen)).
        { apply seen_ok_cons; [exact Hok1|exact Hm|]. apply Hlt. apply Hin. left. reflexivity. }
        apply IH; [exact Hswf1|exact Hok2| |].
        * apply stack_ok_push; [|exact Hst1].
          intros y Hy. apply Hlt. apply Hin. right. exact Hy.
        * simpl length at 2. eapply push_measure; eassumption. }
  destruct osucc as [l|].
  - apply Htail; [exact Hswf|apply extends_refl|].
    intros s Hs. eapply Hst; [left; reflexivity|exact Hs].
  - destruct (over_limit sl d && negb (n_exp (get d x))); [simpl; discriminate|].
    destruct (node_successors N cfg d x) as [[d1 r] succ] eqn:En.
    destruct (node_successors_facts N cfg d x d1 r succ Hswf En)
      as (Hswf1 & Hext & Hr & Hnd & Hlt).
    destruct r; simpl; try discriminate; try (exfalso; apply Hr; reflexivity).
    apply Htail; [exact Hswf1|exact Hext|].
    intros s Hs. apply Hlt. apply sort_nat_In. exact Hs.
Qed.

Lemma stack_ok_start : forall d s, stack_ok d [(s, None)].
Proof. intros d s x l s0 [Heq|[]] Hs0. discriminate Heq. Qed.

Theorem dfs_terminates : forall fuel N cfg d start stk sz, SWF N d -> valid_start d start = true ->
  2 * max_nodes N + 3 <= fuel -> snd (expand_dfs fuel N cfg d start stk sz) <> RFuel.
Proof.
  intros fuel N cfg d start stk sz Hswf Hv Hfuel. unfold expand_dfs.
  pose proof (valid_start_lt N d start Hswf Hv) as Hs.
  apply dfs_loop_terminates;
    [exact Hswf|apply seen_ok_single; exact Hs|apply stack_ok_start|].
  simpl. lia.
Qed.

(* ================================================================== *)
(* 6. expand_minimal_spaces                                            *)
(* ================================================================== *)

Lemma min_inner_head : forall N all_min remaining node_space skip seen succ d s rest,
  snd (min_inner N d seen remaining all_min node_space skip succ) = s :: rest ->
  mem_nat s seen = false.
Proof.
  intros N all_min remaining node_space skip seen succ.
  induction succ as [|a succ IH]; intros d s rest E; simpl in E; [discriminate E|].
  destruct (mem_nat a seen) eqn:Em; [eapply IH; exact E|].
  destruct (negb (existsb (fun m => subspace m node_space) remaining)); [eapply IH; exact E|].
  simpl in E. injection E as Ha Hl. subst a. exact Em.
Qed.

Lemma min_inner_SWF : forall N all_min remaining node_space skip seen succ d,
  (forall m, In m all_min -> length m = nvars N) ->
  SWF N d -> (forall s, In s succ -> s < size d) ->
  SWF N (fst (min_inner N d seen remaining all_min node_space skip succ)).
Proof.
  intros N all_min remaining node_space skip seen succ d Hlen Hswf Hlt.
  apply (T_min_inner N (SWF N)); try assumption.
  - intros d0 parent motif H0 Hm Hp. apply ensure_node_SWF; assumption.
  - intros d0 i f H0 Hi Hf. apply upd_flag_SWF; assumption.
Qed.

Lemma min_loop_terminates : forall fuel N cfg sl skip all_min d seen remaining stack,
  (forall m, In m all_min -> length m = nvars N) ->
  SWF N d -> seen_ok d seen -> stack_ok d stack ->
  2 * (max_nodes N - length seen) + length stack + 1 <= fuel ->
  snd (min_loop fuel N cfg sl skip all_min d seen remaining stack) <> RFuel.
Proof.
  induction fuel as [|f IH];
    intros N cfg sl skip all_min d seen remaining stack Hlen Hswf Hok Hst Hfuel; [lia|].
  simpl. destruct stack as [|[x osucc] stack'].
  { destruct (Nat.eqb (length remaining) 0); simpl; discriminate. }
  simpl length in Hfuel.
  assert (Hst' : stack_ok d stack') by (eapply stack_ok_tail; exact Hst).
  assert (Htail : forall d1 succ, SWF N d1 -> extends d d1 ->
            (forall s, In s succ -> s < size d1) ->
            snd (let '(d2, succ2) :=
                   min_inner N d1 seen remaining all_min (n_space (get d1 x)) skip succ in
                 match succ2 with
                 | [] =>
                     if is_minimal d2 x
                     then match remove_space (n_space (get d2 x)) remaining with
                          | Some rem' => min_loop f N cfg sl skip all_min d2 seen rem' stack'
                          | None => (d2, RRaised ErrAssert)
                          end
                     else min_loop f N cfg sl skip all_min d2 seen remaining stack'
                 | s :: rest =>
                     min_loop f N cfg sl skip all_min d2 (s :: seen) remaining
                              ((s, None) :: (x, Some rest) :: stack')
                 end) <> RFuel).
  { intros d1 succ Hswf1 Hext Hlt.
    pose proof (min_inner_SWF N all_min remaining (n_space (get d1 x)) skip seen succ d1
                  Hlen Hswf1 Hlt) as Hswf2.
    pose proof (min_inner_extends N all_min remaining (n_space (get d1 x)) skip seen succ d1)
      as Hext2.
    pose proof (min_inner_incl N all_min remaining (n_space (get d1 x)) skip seen succ d1)
      as Hincl.
    pose proof (min_inner_head N all_min remaining (n_space (get d1 x)) skip seen succ d1)
      as Hhead.
    destruct (min_inner N d1 seen remaining all_min (n_space (get d1 x)) skip succ)
      as [d2 succ2].
    simpl in Hswf2, Hext2, Hincl, Hhead.
    assert (Hext02 : extends d d2) by (eapply extends_trans; eassumption).
    assert (Hok2 : seen_ok d2 seen) by (eapply seen_ok_extends; eassumption).
    assert (Hst2 : stack_ok d2 stack') by (eapply stack_ok_extends; eassumption).
    destruct succ2 as [|s rest].
    - destruct (is_minimal d2 x).
      + destruct (remove_space (n_space (get d2 x)) remaining); [|simpl; discriminate].
        apply IH; [exact Hlen|exact Hswf2|exact Hok2|exact Hst2|lia].
      + apply IH; [exact Hlen|exact Hswf2|exact Hok2|exact Hst2|lia].
    - assert (Hlt2 : forall y, In y (s :: rest) -> y < size d2).
      { intros y Hy. eapply extends_lt; [exact Hext2|]. apply Hlt. apply Hincl. exact Hy. }
      assert (Hok3 : seen_ok d2 (s :: seen)).
      { apply seen_ok_cons; [exact Hok2|eapply Hhead; reflexivity|].
        apply Hlt2. left. reflexivity. }
      apply IH; [exact Hlen|exact Hswf2|exact Hok3| |].
      + apply stack_ok_push; [|exact Hst2]. intros y Hy. apply Hlt2. right. exact Hy.
      + simpl length at 2. eapply push_measure; eassumption. }
  destruct osucc as [l|].
  - apply Htail; [exact Hswf|apply extends_refl|].
    intros s Hs. eapply Hst; [left; reflexivity|exact Hs].
  - destruct (over_limit sl d && negb (n_exp (get d x))); [simpl; discriminate|].
    destruct (node_successors N cfg d x) as [[d1 r] succ] eqn:En.
    destruct (node_successors_facts N cfg d x d1 r succ Hswf En)
      as (Hswf1 & Hext & Hr & Hnd & Hlt).
    destruct r; simpl; try discriminate; try (exfalso; apply Hr; reflexivity).
    apply Htail; [exact Hswf1|exact Hext|].
    intros s Hs. apply Hlt. apply sort_nat_In. exact Hs.
Qed.

Theorem min_terminates : forall fuel N cfg d start sz skip tape, SWF N d -> valid_start d start = true ->
  2 * max_nodes N + 3 <= fuel -> snd (expand_min fuel N cfg d start sz skip tape) <> RFuel.
Proof.
  intros fuel N cfg d start sz skip tape Hswf Hv Hfuel. unfold expand_min.
  pose proof (valid_start_lt N d start Hswf Hv) as Hs.
  destruct (negb (perm_of tape (min_traps_b N _))) eqn:Ep; [simpl; discriminate|].
  apply min_loop_terminates.
  - eapply tape_lengths; [|exact Ep]. apply (swf_len N d Hswf). apply get_In. exact Hs.
  - exact Hswf.
  - apply seen_ok_single. exact Hs.
  - apply stack_ok_start.
  - simpl. lia.
Qed.

(* ================================================================== *)
(* 7. every operation, every run                                       *)
(* ================================================================== *)

Lemma q_cands_result : forall d i o, snd (q_cands d i o) <> RFuel.
Proof.
  intros d i o. unfold q_cands.
  destruct (n_cands (get d i)); [simpl; discriminate|].
  destruct (n_seeds (get d i)); [simpl; discriminate|].
  destruct o as [|k b]; [simpl; discriminate|].
  destruct (_ || _); simpl; discriminate.
Qed.

Lemma q_seeds_result : forall d i fallback oc os, snd (q_seeds d i fallback oc os) <> RFuel.
Proof.
  intros d i fallback oc os. unfold q_seeds.
  destruct (n_seeds (get d i)); [simpl; discriminate|].
  destruct (q_cands d i oc) as [d1 r].
  destruct r;
    try (destruct (n_seeds (get d1 i)); [simpl; discriminate|];
         destruct os as [|k0 [|]]; simpl; discriminate).
  destruct fallback; simpl; discriminate.
Qed.

Lemma q_sets_result : forall d i oc os, snd (q_sets d i oc os) <> RFuel.
Proof.
  intros d i oc os. unfold q_sets.
  destruct (n_sets (get d i)); [simpl; discriminate|].
  destruct (q_seeds d i false oc os) as [d1 r].
  destruct r; simpl; discriminate.
Qed.

Lemma skip_to_minimal_result : forall N d i tape, snd (skip_to_minimal_t N d i tape) <> RFuel.
Proof.
  intros N d i tape. unfold skip_to_minimal_t.
  destruct (n_exp (get d i)); [simpl; discriminate|].
  destruct (negb (perm_of tape (min_traps_b N (n_space (get d i))))); [simpl; discriminate|].
  destruct tape as [|m [|m2 r]]; try (simpl; discriminate).
  destruct (eqb_space m (n_space (get d i))); simpl; discriminate.
Qed.

Lemma skip_remaining_result : forall N d tape, snd (skip_remaining N d tape) <> RFuel.
Proof.
  intros N d tape. unfold skip_remaining.
  destruct (negb (perm_of tape (min_traps_b N (n_space (get d 0))))); [simpl; discriminate|].
  destruct (ensure_roots N d tape []) as [d1 traps].
  destruct (skip_all d1 (seq 0 (size d1)) traps 0) as [d2 k]. simpl. discriminate.
Qed.

Theorem step_terminates : forall fuel N cfg d o, SWF N d -> 2 * max_nodes N + 3 <= fuel ->
  snd (step fuel N cfg d o) <> RFuel.
Proof.
  intros fuel N cfg d o Hswf Hfuel. destruct o; unfold step.
  - destruct (Nat.ltb i (size d)); [|simpl; discriminate].
    destruct (node_successors N cfg d i) as [[d1 r] succ] eqn:En.
    destruct (node_successors_facts N cfg d i d1 r succ Hswf En) as (_ & _ & Hr & _).
    destruct r; simpl; try discriminate. exact Hr.
  - destruct (valid_start d start) eqn:Ev; [|simpl; discriminate].
    apply bfs_terminates; [exact Hswf|exact Ev|lia].
  - destruct (valid_start d start) eqn:Ev; [|simpl; discriminate].
    apply dfs_terminates; [exact Hswf|exact Ev|exact Hfuel].
  - destruct (valid_start d start) eqn:Ev; [|simpl; discriminate].
    apply min_terminates; [exact Hswf|exact Ev|exact Hfuel].
  - apply target_terminates; [exact Hswf|lia].
  - destruct (Nat.ltb i (size d)); [|simpl; discriminate]. apply skip_to_minimal_result.
  - apply skip_remaining_result.
  - simpl. discriminate.
  - simpl. discriminate.
  - destruct (Nat.ltb i (size d)); [|simpl; discriminate]. apply q_cands_result.
  - destruct (Nat.ltb i (size d)); [|simpl; discriminate]. apply q_seeds_result.
  - destruct (Nat.ltb i (size d)); [|simpl; discriminate]. apply q_sets_result.
Qed.

Lemma run_terminates_from : forall fuel N cfg h d0 d r, SWF N d0 -> 2 * max_nodes N + 3 <= fuel ->
  In (d, r) (run fuel N cfg d0 h) -> r <> RFuel.
Proof.
  intros fuel N cfg h. induction h as [|o h IH]; intros d0 d r Hswf Hfuel Hin; simpl in Hin;
    [contradiction|].
  pose proof (step_SWF fuel N cfg d0 o Hswf) as H1.
  pose proof (step_terminates fuel N cfg d0 o Hswf Hfuel) as H2.
  destruct (step fuel N cfg d0 o) as [d1 x]. simpl in H1, H2.
  destruct Hin as [Heq|Hin].
  - injection Heq as Hd Hr. subst r. exact H2.
  - eapply IH; [exact H1|exact Hfuel|exact Hin].
Qed.

Theorem run_terminates : forall fuel N cfg h d r, 2 * max_nodes N + 3 <= fuel ->
  In (d, r) (run fuel N cfg (init N) h) -> r <> RFuel.
Proof.
  intros fuel N cfg h d r Hfuel Hin.
  eapply run_terminates_from; [apply init_SWF|exact Hfuel|exact Hin].
Qed.

(* ================================================================== *)
(* 8. raise_depth: the fuel passed by ensure_edge is never exhausted   *)
(* ================================================================== *)

(* rank of a node: the number of nodes that fix strictly more variables; it decreases
   strictly along every edge of an EdgeStrict diagram and is below the size of the diagram *)

Lemma filter_length_mono : forall (A : Type) (p q : A -> bool) (l : list A),
  (forall x, In x l -> p x = true -> q x = true) ->
  length (filter p l) <= length (filter q l).
Proof.
  intros A p q l. induction l as [|a l IH]; intro Himp; simpl; [lia|].
  assert (IH' : length (filter p l) <= length (filter q l)).
  { apply IH. intros x Hin. apply Himp. right. exact Hin. }
  destruct (p a) eqn:Ep.
  - rewrite (Himp a (or_introl eq_refl) Ep). simpl. lia.
  - destruct (q a); simpl; lia.
Qed.

Lemma filter_length_strict : forall (A : Type) (p q : A -> bool) (l : list A) (y : A),
  (forall x, In x l -> p x = true -> q x = true) ->
  In y l -> p y = false -> q y = true ->
  length (filter p l) < length (filter q l).
Proof.
  intros A p q l y. induction l as [|a l IH]; intros Himp Hin Hp Hq; simpl; [contradiction|].
  assert (Himp' : forall x, In x l -> p x = true -> q x = true).
  { intros x Hx. apply Himp. right. exact Hx. }
  destruct Hin as [Heq|Hin].
  - subst a. rewrite Hp, Hq. simpl.
    pose proof (filter_length_mono A p q l Himp') as Hmono. lia.
  - specialize (IH Himp' Hin Hp Hq).
    destruct (p a) eqn:Ep.
    + rewrite (Himp a (or_introl eq_refl) Ep). simpl. lia.
    + destruct (q a); simpl; lia.
Qed.

Lemma filter_length_bound : forall (A : Type) (p : A -> bool) (l : list A),
  length (filter p l) <= length l.
Proof.
  intros A p l. induction l as [|a l IH]; simpl; [lia|]. destruct (p a); simpl; lia.
Qed.

Lemma filter_length_miss : forall (A : Type) (p : A -> bool) (l : list A) (y : A),
  In y l -> p y = false -> length (filter p l) < length l.
Proof.
  intros A p l y. induction l as [|a l IH]; intros Hin Hp; simpl; [contradiction|].
  destruct Hin as [Heq|Hin].
  - subst a. rewrite Hp. pose proof (filter_length_bound A p l) as Hbound. lia.
  - specialize (IH Hin Hp). destruct (p a); simpl; lia.
Qed.

Definition nf_at (sp : list space) (i : nat) : nat := nfixed (nth i sp []).
Definition rank (sp : list space) (c : nat) : nat :=
  length (filter (fun X => Nat.ltb (nf_at sp c) (nfixed X)) sp).

Lemma rank_lt_length : forall sp c, c < length sp -> rank sp c < length sp.
Proof.
  intros sp c Hc. unfold rank. apply (filter_length_miss _ _ sp (nth c sp [])).
  - apply nth_In. exact Hc.
  - apply Nat.ltb_irrefl.
Qed.

Lemma rank_edge : forall sp c s, s < length sp -> nf_at sp c < nf_at sp s -> rank sp s < rank sp c.
Proof.
  intros sp c s Hs Hlt. unfold rank. apply (filter_length_strict _ _ _ sp (nth s sp [])).
  - intros X _ HX. apply Nat.ltb_lt in HX. apply Nat.ltb_lt. lia.
  - apply nth_In. exact Hs.
  - apply Nat.ltb_irrefl.
  - apply Nat.ltb_lt. exact Hlt.
Qed.

Definition ES_on (sp : list space) (ed : list edge) : Prop :=
  forall e, In e ed -> e_dst e < length sp /\ nf_at sp (e_src e) < nf_at sp (e_dst e).

Lemma raise_depth_fuel_rank : forall f1 f2 d c dp,
  ES_on (spaces d) (sd_edges d) -> rank (spaces d) c < f1 -> rank (spaces d) c < f2 ->
  raise_depth f1 d c dp = raise_depth f2 d c dp.
Proof.
  induction f1 as [|f1 IH]; intros f2 d c dp Hes H1 H2; [lia|].
  destruct f2 as [|f2]; [lia|]. simpl.
  destruct (Nat.ltb (n_depth (get d c)) dp); [|reflexivity].
  set (d1 := upd_node d c (fun x => set_depth x dp)).
  assert (Hsp1 : spaces d1 = spaces d).
  { unfold d1. apply spaces_upd_node. intro x. reflexivity. }
  assert (Hed1 : sd_edges d1 = sd_edges d) by (unfold d1; apply sd_edges_upd_node).
  assert (Hsucc : forall s, In s (successors_of (sd_edges d1) c) ->
            rank (spaces d) s < f1 /\ rank (spaces d) s < f2).
  { intros s Hin. rewrite Hed1 in Hin. unfold successors_of in Hin.
    apply in_map_iff in Hin. destruct Hin as [e [Hdst Hin]].
    apply filter_In in Hin. destruct Hin as [Hin Hsrc]. apply Nat.eqb_eq in Hsrc.
    destruct (Hes e Hin) as [Hlt Hnf]. rewrite Hdst, Hsrc in *.
    pose proof (rank_edge (spaces d) c s Hlt Hnf) as Hrank. lia. }
  assert (Hfold : forall l acc,
            spaces acc = spaces d -> sd_edges acc = sd_edges d ->
            (forall s, In s l -> rank (spaces d) s < f1 /\ rank (spaces d) s < f2) ->
            fold_left (fun acc0 s => raise_depth f1 acc0 s (S dp)) l acc =
            fold_left (fun acc0 s => raise_depth f2 acc0 s (S dp)) l acc).
  { induction l as [|s l IHl]; intros acc Hsp Hed Hl; simpl; [reflexivity|].
    destruct (Hl s (or_introl eq_refl)) as [Hr1 Hr2].
    assert (Heq : raise_depth f1 acc s (S dp) = raise_depth f2 acc s (S dp)).
    { apply IH; rewrite ?Hsp, ?Hed; assumption. }
    rewrite Heq. apply IHl.
    - rewrite spaces_raise_depth. exact Hsp.
    - rewrite sd_edges_raise_depth. exact Hed.
    - intros s0 Hs0. apply Hl. right. exact Hs0. }
  apply Hfold; assumption.
Qed.

Lemma EdgeStrict_ES_on : forall N d, SWF N d -> EdgeStrict d -> ES_on (spaces d) (sd_edges d).
Proof.
  intros N d Hswf Hes e Hin. rewrite length_spaces. split.
  - apply (swf_edges N d Hswf e Hin).
  - unfold nf_at. rewrite !nth_spaces. apply strict_subspace_nfixed. apply Hes. exact Hin.
Qed.

Theorem raise_depth_fuel_irrelevant : forall N d c dp f1 f2, SWF N d -> EdgeStrict d -> c < size d ->
  size d <= f1 -> size d <= f2 -> raise_depth f1 d c dp = raise_depth f2 d c dp.
Proof.
  intros N d c dp f1 f2 Hswf Hes Hc H1 H2.
  pose proof (rank_lt_length (spaces d) c) as Hr. rewrite length_spaces in Hr.
  specialize (Hr Hc).
  apply raise_depth_fuel_rank; [eapply EdgeStrict_ES_on; eassumption|lia|lia].
Qed.

(* ================================================================== *)
(* 9. percolate_space_strict: the fuel S (nvars N) is enough           *)
(* ================================================================== *)

(* every pass either fixes a new variable of the restriction, or leaves the restriction as it
   is; in the second case the candidates that are kept are all non-constant on it, so the
   following pass changes nothing and the loop stops by itself *)

Lemma nfixed_set_nth_free : forall (X : space) v c,
  v < length X -> nth v X None = None -> nfixed (set_nth v (Some c) X) = S (nfixed X).
Proof.
  induction X as [|o X IH]; intros v c Hv Hn; simpl in Hv; [lia|].
  destruct v as [|v]; simpl in *.
  - subst o. rewrite !nfixed_cons. reflexivity.
  - rewrite !nfixed_cons. rewrite IH; [lia|lia|exact Hn].
Qed.

Lemma strict_pass_progress : forall N order restr res keep changed c' r' s' ch',
  strict_pass N order restr res keep changed = (c', r', s', ch') ->
  length r' = length restr /\ nfixed restr <= nfixed r' /\
  (nfixed r' <= nfixed restr ->
   r' = restr /\ forall v, In v c' -> In v keep \/ const_on_b N v restr = None).
Proof.
  intros N order. induction order as [|v order IH];
    intros restr res keep changed c' r' s' ch' E; simpl in E.
  - injection E as Hc Hr Hs Hch. subst c' r' s' ch'.
    split; [reflexivity|]. split; [lia|]. intros _. split; [reflexivity|].
    intros v Hin. left. apply in_rev. exact Hin.
  - destruct (const_on_b N v restr) as [c|] eqn:Ec.
    + assert (Hfix : nth v restr None = None -> length restr <= v \/
                (v < length restr /\ nfixed (set_nth v (Some c) restr) = S (nfixed restr))).
      { intro Hn. destruct (le_lt_dec (length restr) v) as [Hle|Hlt]; [left; exact Hle|].
        right. split; [exact Hlt|]. apply nfixed_set_nth_free; assumption. }
      assert (Hnew : nth v restr None = None ->
                strict_pass N order (set_nth v (Some c) restr) (set_nth v (Some c) res) keep true
                  = (c', r', s', ch') ->
                length r' = length restr /\ nfixed restr <= nfixed r' /\
                (nfixed r' <= nfixed restr ->
                 r' = restr /\ forall v0, In v0 c' -> In v0 keep \/ const_on_b N v0 restr = None)).
      { intros Hn E'. destruct (Hfix Hn) as [Hle|[Hlt Hnf]].
        - rewrite (set_nth_beyond _ v (Some c) restr Hle) in E'. apply IH in E'. exact E'.
        - apply IH in E'. destruct E' as (H1 & H2 & _).
          rewrite set_nth_length in H1. rewrite Hnf in H2.
          split; [exact H1|]. split; [lia|]. intro Hcontra. lia. }
      destruct (nth v restr None) as [g|] eqn:En.
      * destruct (Bool.eqb g c) eqn:Eg.
        -- apply Bool.eqb_prop in Eg. subst g.
           assert (Hlt : v < length restr).
           { destruct (le_lt_dec (length restr) v) as [Hle|Hlt]; [|exact Hlt].
             rewrite nth_overflow in En by exact Hle. discriminate En. }
           rewrite <- En in E. rewrite set_nth_same in E by exact Hlt.
           apply IH in E. exact E.
        -- apply IH in E. exact E.
      * apply Hnew; [reflexivity|exact E].
    + apply IH in E. destruct E as (H1 & H2 & H3).
      split; [exact H1|]. split; [exact H2|]. intro Hle.
      destruct (H3 Hle) as [Hr Hc]. split; [exact Hr|].
      intros v0 Hin. destruct (Hc v0 Hin) as [[Heq|Hk]|Hn].
      * subst v0. right. exact Ec.
      * left. exact Hk.
      * right. exact Hn.
Qed.

Lemma strict_pass_stable : forall N order restr res keep changed,
  (forall v, In v order -> const_on_b N v restr = None) ->
  strict_pass N order restr res keep changed = (rev keep ++ order, restr, res, changed).
Proof.
  intros N order. induction order as [|v order IH]; intros restr res keep changed Hst; simpl.
  - rewrite app_nil_r. reflexivity.
  - rewrite (Hst v (or_introl eq_refl)). rewrite IH.
    + simpl. rewrite <- app_assoc. reflexivity.
    + intros v0 Hin. apply Hst. right. exact Hin.
Qed.

Lemma strict_loop_stable : forall f N cands restr res,
  (forall v, In v cands -> const_on_b N v restr = None) ->
  strict_loop f N cands restr res = res.
Proof.
  intros f N cands restr res Hst. destruct f as [|f]; simpl; [reflexivity|].
  rewrite strict_pass_stable by exact Hst. reflexivity.
Qed.

Lemma strict_loop_fuel : forall f1 f2 N cands restr res,
  length restr - nfixed restr < f1 -> length restr - nfixed restr < f2 ->
  strict_loop f1 N cands restr res = strict_loop f2 N cands restr res.
Proof.
  induction f1 as [|f1 IH]; intros f2 N cands restr res H1 H2; [lia|].
  destruct f2 as [|f2]; [lia|]. simpl.
  destruct (strict_pass N cands restr res [] false) as [[[c' r'] s'] ch'] eqn:E.
  destruct ch'; [|reflexivity].
  destruct (strict_pass_progress N cands restr res [] false c' r' s' true E) as (Hlen & Hle & Hsame).
  destruct (le_lt_dec (nfixed r') (nfixed restr)) as [Hidle|Hprog].
  - destruct (Hsame Hidle) as [Hr Hc]. subst r'.
    assert (Hst : forall v, In v c' -> const_on_b N v restr = None).
    { intros v Hin. destruct (Hc v Hin) as [[]|Hn]. exact Hn. }
    rewrite !strict_loop_stable by exact Hst. reflexivity.
  - pose proof (nfixed_le_length r') as Hb.
    apply IH; rewrite Hlen; lia.
Qed.

Theorem strict_loop_fuel_enough : forall N order (X : space) f,
  length X = nvars N -> S (nvars N) <= f ->
  strict_loop f N order X (top_space (nvars N))
  = strict_loop (S (nvars N)) N order X (top_space (nvars N)).
Proof.
  intros N order X f HX Hf. apply strict_loop_fuel; rewrite HX; lia.
Qed.

Corollary percolate_strict_ord_fuel : forall N order (X : space) f,
  length X = nvars N -> S (nvars N) <= f ->
  strict_loop f N (filter (fun v => negb (globally_const N v)) order) X (top_space (nvars N))
  = percolate_strict_ord N order X.
Proof.
  intros N order X f HX Hf. unfold percolate_strict_ord. apply strict_loop_fuel_enough; assumption.
Qed.

Print Assumptions step_terminates.
Print Assumptions run_terminates.
Print Assumptions size_bound.
Print Assumptions raise_depth_fuel_irrelevant.
Print Assumptions strict_loop_fuel_enough.
