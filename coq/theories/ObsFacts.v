(* ObsFacts.v -- observational facts about the succession-diagram model:
   A. memory reclamation is transparent: no operation can tell a diagram from
      its reclaimed twin (obs_eq is preserved by every operation, results agree),
   B. the hierarchy (fully expanded, skip-free diagram) is unique up to node ids,
   C. the boolean comparison is_subgraph_b decides node/edge inclusion through
      the node spaces. *)
From Coq Require Import List Bool Arith NArith Lia Permutation.
Import ListNotations.
From BB Require Import BN Brute SpaceFacts TrapFacts PercolateFacts Diagram Invariants DiagramStruct DiagramSem1 DiagramComplete.

Local Arguments percolate_b : simpl never.
Local Arguments expand_one : simpl never.
Local Arguments node_successors : simpl never.
Local Arguments ensure_node : simpl never.
Local Arguments ensure_edge : simpl never.
Local Arguments raise_depth : simpl never.
Local Arguments max_traps_b : simpl never.
Local Arguments min_traps_b : simpl never.
Local Arguments make_skip_node : simpl never.
Local Arguments upd_node : simpl never.
Local Arguments min_inner : simpl never.
Local Arguments q_cands : simpl never.
Local Arguments q_seeds : simpl never.
Local Arguments q_sets : simpl never.

(* ================================================================== *)
(* PART A.  reclaiming node data never changes an observable result     *)
(* ================================================================== *)

Definition node_obs_eq (x y : node) : Prop :=
  n_space x = n_space y /\ n_depth x = n_depth y /\ n_exp x = n_exp y /\ n_skip x = n_skip y /\ n_parent x = n_parent y /\
  n_seeds x = n_seeds y /\ n_sets x = n_sets y /\
  (n_cands x = n_cands y \/ (n_seeds x <> None /\ (n_cands x = None \/ n_cands y = None))).
Definition obs_eq (d d' : sd) : Prop := Forall2 node_obs_eq (sd_nodes d) (sd_nodes d') /\ sd_edges d = sd_edges d'.

(* related results of functions returning a diagram and something else *)
Definition rel2 {B : Type} (a b : sd * B) : Prop := obs_eq (fst a) (fst b) /\ snd a = snd b.
Definition rel3 {B C : Type} (a b : sd * B * C) : Prop := rel2 (fst a) (fst b) /\ snd a = snd b.
Definition rel4 {B C D : Type} (a b : sd * B * C * D) : Prop := rel3 (fst a) (fst b) /\ snd a = snd b.

Ltac rel_done H :=
  unfold rel4, rel3, rel2; simpl; repeat (split; [|reflexivity]); first [exact H|assumption].

Lemma node_obs_eq_refl : forall x, node_obs_eq x x.
Proof. intro x. unfold node_obs_eq. repeat split; auto. Qed.

Lemma obs_eq_refl : forall d, obs_eq d d.
Proof.
  intro d. split; [|reflexivity]. apply Forall2_refl_rel. apply node_obs_eq_refl.
Qed.

Lemma reclaim_obs_eq : forall d, obs_eq d (reclaim d).
Proof.
  intro d. split; [|reflexivity]. unfold reclaim. simpl.
  induction (sd_nodes d) as [|x l IH]; simpl; constructor; [|exact IH].
  destruct (n_seeds x) as [t|] eqn:Es; [|apply node_obs_eq_refl].
  unfold node_obs_eq. simpl. repeat split; auto.
  right. split; [congruence|]. right. reflexivity.
Qed.

Lemma Forall2_set_nth2 : forall (A : Type) (R : A -> A -> Prop) (l l' : list A) i v v',
  Forall2 R l l' -> R v v' -> Forall2 R (set_nth i v l) (set_nth i v' l').
Proof.
  intros A R l l' i v v' HF. revert i.
  induction HF as [|x y l l' Hxy HF IH]; intros [|i] Hv; simpl; constructor; auto.
Qed.

(* ---------- what a diagram lets an operation read ---------- *)
Section Reads.
  Variables d d' : sd.
  Hypothesis H : obs_eq d d'.

  Lemma oe_size : size d = size d'.
  Proof. unfold size. eapply Forall2_length_rel. exact (proj1 H). Qed.

  Lemma oe_edges : sd_edges d = sd_edges d'.
  Proof. exact (proj2 H). Qed.

  Lemma oe_get : forall i, node_obs_eq (get d i) (get d' i).
  Proof.
    intro i. unfold get. apply Forall2_nth_rel; [exact (proj1 H)|apply node_obs_eq_refl].
  Qed.

  Lemma oe_space : forall i, n_space (get d i) = n_space (get d' i).
  Proof. intro i. apply (oe_get i). Qed.
  Lemma oe_depth : forall i, n_depth (get d i) = n_depth (get d' i).
  Proof. intro i. apply (oe_get i). Qed.
  Lemma oe_exp : forall i, n_exp (get d i) = n_exp (get d' i).
  Proof. intro i. apply (oe_get i). Qed.
  Lemma oe_skip : forall i, n_skip (get d i) = n_skip (get d' i).
  Proof. intro i. apply (oe_get i). Qed.
  Lemma oe_seeds : forall i, n_seeds (get d i) = n_seeds (get d' i).
  Proof. intro i. apply (oe_get i). Qed.
  Lemma oe_sets : forall i, n_sets (get d i) = n_sets (get d' i).
  Proof. intro i. apply (oe_get i). Qed.

  Lemma oe_find_key : forall k, find_key d k = find_key d' k.
  Proof.
    intro k. unfold find_key. generalize 0. destruct H as [HF _].
    induction HF as [|x y l l' Hxy HF IH]; intro n; simpl; [reflexivity|].
    destruct Hxy as [Hs _]. rewrite Hs, IH. reflexivity.
  Qed.

  Lemma oe_find_node : forall X, find_node d X = find_node d' X.
  Proof. intro X. unfold find_node. apply oe_find_key. Qed.

  Lemma oe_has_edge : forall p c, has_edge d p c = has_edge d' p c.
  Proof. intros p c. unfold has_edge. rewrite oe_edges. reflexivity. Qed.

  Lemma oe_successors : forall i, successors d i = successors d' i.
  Proof. intro i. unfold successors. rewrite oe_edges. reflexivity. Qed.

  Lemma oe_is_minimal : forall i, is_minimal d i = is_minimal d' i.
  Proof. intro i. unfold is_minimal, out_degree. rewrite oe_successors, oe_exp. reflexivity. Qed.

  Lemma oe_over_limit : forall lim, over_limit lim d = over_limit lim d'.
  Proof. intros [k|]; simpl; [rewrite oe_size|]; reflexivity. Qed.

  Lemma oe_valid_start : forall s, valid_start d s = valid_start d' s.
  Proof. intros [s|]; simpl; [rewrite oe_size|]; reflexivity. Qed.

  Lemma oe_cur_tag : forall i, cur_tag d i = cur_tag d' i.
  Proof.
    intro i. unfold cur_tag, first_motifs. rewrite oe_edges, oe_exp, oe_skip. reflexivity.
  Qed.

  Lemma oe_pseudo_minimal : forall i, pseudo_minimal d i = pseudo_minimal d' i.
  Proof. intro i. unfold pseudo_minimal. rewrite oe_is_minimal, oe_exp. reflexivity. Qed.
End Reads.

(* ---------- node updates ---------- *)
Definition oe_fun (f : node -> node) : Prop :=
  forall x y, node_obs_eq x y -> node_obs_eq (f x) (f y).

Lemma oe_fun_set_exp : forall b, oe_fun (fun y => set_exp y b).
Proof. intros b x y Hxy. unfold node_obs_eq in *. simpl. intuition. Qed.
Lemma oe_fun_set_skip : forall b, oe_fun (fun y => set_skip y b).
Proof. intros b x y Hxy. unfold node_obs_eq in *. simpl. intuition. Qed.
Lemma oe_fun_set_depth : forall dp, oe_fun (fun y => set_depth y dp).
Proof. intros dp x y Hxy. unfold node_obs_eq in *. simpl. intuition. Qed.
Lemma oe_fun_set_sets : forall c, oe_fun (fun y => set_sets y c).
Proof. intros c x y Hxy. unfold node_obs_eq in *. simpl. intuition. Qed.
Lemma oe_fun_set_cands : forall c, oe_fun (fun y => set_cands y c).
Proof. intros c x y Hxy. unfold node_obs_eq in *. simpl. intuition. Qed.
Lemma oe_fun_set_seeds : forall t, oe_fun (fun y => set_seeds y (Some t)).
Proof.
  intros t x y Hxy. unfold node_obs_eq in *. simpl.
  destruct Hxy as (A1 & A2 & A3 & A4 & A5 & A6 & A7 & A8). repeat split; auto.
  destruct A8 as [A8|[_ A8]]; [left; exact A8|right; split; [discriminate|exact A8]].
Qed.
Lemma oe_fun_clear_attr : oe_fun clear_attr.
Proof. intros x y Hxy. unfold node_obs_eq in *. simpl. intuition. Qed.

Lemma oe_upd_node : forall d d' i f, obs_eq d d' -> oe_fun f ->
  obs_eq (upd_node d i f) (upd_node d' i f).
Proof.
  intros d d' i f H Hf. split; [|exact (proj2 H)].
  unfold upd_node. simpl. apply Forall2_set_nth2; [exact (proj1 H)|].
  apply Hf. apply oe_get. exact H.
Qed.

Lemma oe_mark_expanded : forall d d' i, obs_eq d d' -> obs_eq (mark_expanded d i) (mark_expanded d' i).
Proof. intros d d' i H. unfold mark_expanded. apply oe_upd_node; [exact H|apply oe_fun_set_exp]. Qed.

(* ---------- depths, edges, nodes ---------- *)
Lemma oe_raise_depth : forall fuel d d' c dp, obs_eq d d' ->
  obs_eq (raise_depth fuel d c dp) (raise_depth fuel d' c dp).
Proof.
  induction fuel as [|f IH]; intros d d' c dp H; unfold raise_depth; fold raise_depth; [exact H|].
  rewrite <- (oe_depth _ _ H c).
  destruct (Nat.ltb (n_depth (get d c)) dp); [|exact H].
  rewrite !sd_edges_upd_node. rewrite <- (oe_edges _ _ H).
  assert (H1 : obs_eq (upd_node d c (fun x => set_depth x dp)) (upd_node d' c (fun x => set_depth x dp))).
  { apply oe_upd_node; [exact H|apply oe_fun_set_depth]. }
  revert H1. generalize (upd_node d c (fun x => set_depth x dp)) (upd_node d' c (fun x => set_depth x dp)).
  generalize (successors_of (sd_edges d) c).
  intro l. induction l as [|s l IHl]; intros acc acc' Hacc; simpl; [exact Hacc|].
  apply IHl. apply IH. exact Hacc.
Qed.

Lemma oe_ensure_edge : forall d d' p c m, obs_eq d d' ->
  obs_eq (ensure_edge d p c m) (ensure_edge d' p c m).
Proof.
  intros d d' p c m H. unfold ensure_edge.
  rewrite <- (oe_has_edge _ _ H), <- (oe_edges _ _ H).
  destruct (has_edge d p c).
  - assert (H1 : obs_eq {| sd_nodes := sd_nodes d; sd_edges := add_motif p c m (sd_edges d) |}
                        {| sd_nodes := sd_nodes d'; sd_edges := add_motif p c m (sd_edges d) |}).
    { split; [exact (proj1 H)|reflexivity]. }
    rewrite <- (oe_size _ _ H1), <- (oe_depth _ _ H1 p). apply oe_raise_depth. exact H1.
  - assert (H1 : obs_eq {| sd_nodes := sd_nodes d;
                           sd_edges := sd_edges d ++ [{| e_src := p; e_dst := c; e_motifs := [m] |}] |}
                        {| sd_nodes := sd_nodes d';
                           sd_edges := sd_edges d ++ [{| e_src := p; e_dst := c; e_motifs := [m] |}] |}).
    { split; [exact (proj1 H)|reflexivity]. }
    rewrite <- (oe_size _ _ H1), <- (oe_depth _ _ H1 p). apply oe_raise_depth. exact H1.
Qed.

Lemma oe_link : forall d d' parent c m, obs_eq d d' -> obs_eq (link d parent c m) (link d' parent c m).
Proof. intros d d' [p|] c m H; simpl; [apply oe_ensure_edge|]; exact H. Qed.

Lemma oe_add_node : forall d d' x, obs_eq d d' -> obs_eq (add_node d x) (add_node d' x).
Proof.
  intros d d' x H. split; [|exact (proj2 H)]. unfold add_node. simpl.
  apply Forall2_app; [exact (proj1 H)|]. constructor; [apply node_obs_eq_refl|constructor].
Qed.

Lemma oe_ensure_node : forall N d d' parent motif, obs_eq d d' ->
  rel2 (ensure_node N d parent motif) (ensure_node N d' parent motif).
Proof.
  intros N d d' parent motif H. rewrite !ensure_node_unfold.
  rewrite <- (oe_find_node _ _ H), <- (oe_size _ _ H).
  destruct (find_node d (percolate_b N motif)) as [c|]; split; simpl; try reflexivity.
  - apply oe_link. exact H.
  - apply oe_link. apply oe_add_node. exact H.
Qed.

Lemma oe_ensure_all : forall N subs d d' p, obs_eq d d' ->
  obs_eq (ensure_all N d p subs) (ensure_all N d' p subs).
Proof.
  intros N subs. induction subs as [|m r IH]; intros d d' p H; simpl; [exact H|].
  apply IH. apply (oe_ensure_node N d d' (Some p) m H).
Qed.

Lemma oe_expand_one : forall N cfg d d' i, obs_eq d d' ->
  rel2 (expand_one N cfg d i) (expand_one N cfg d' i).
Proof.
  intros N cfg d d' i H. unfold expand_one. cbv zeta.
  rewrite <- (oe_exp _ _ H i), <- (oe_space _ _ H i).
  destruct (n_exp (get d i)); [split; [exact H|reflexivity]|].
  assert (H0 : obs_eq (upd_node d i clear_attr) (upd_node d' i clear_attr)).
  { apply oe_upd_node; [exact H|apply oe_fun_clear_attr]. }
  destruct (is_full (n_space (get d i))).
  { split; [|reflexivity]. simpl. apply oe_upd_node; [exact H0|apply oe_fun_set_exp]. }
  destruct (Nat.eqb _ _); [split; [exact H0|reflexivity]|].
  split; [|reflexivity]. simpl.
  apply oe_upd_node; [|apply oe_fun_set_exp]. apply oe_ensure_all. exact H0.
Qed.

Lemma oe_node_successors : forall N cfg d d' i, obs_eq d d' ->
  rel3 (node_successors N cfg d i) (node_successors N cfg d' i).
Proof.
  intros N cfg d d' i H. unfold node_successors.
  pose proof (oe_expand_one N cfg d d' i H) as H1.
  destruct (expand_one N cfg d i) as [d1 r], (expand_one N cfg d' i) as [d1' r'].
  destruct H1 as [H1 Hr]. simpl in H1, Hr. subst r'.
  destruct r; (split; [split; [exact H1|reflexivity]|]); simpl; try reflexivity.
  apply oe_successors. exact H1.
Qed.

(* ---------- bfs ---------- *)
Lemma oe_bfs_level : forall N cfg sl cur d d' seen next, obs_eq d d' ->
  rel4 (bfs_level N cfg sl d seen next cur) (bfs_level N cfg sl d' seen next cur).
Proof.
  intros N cfg sl cur. induction cur as [|x cur IH]; intros d d' seen next H; simpl.
  { rel_done H. }
  rewrite <- (oe_over_limit _ _ H), <- (oe_exp _ _ H x).
  destruct (over_limit sl d && negb (n_exp (get d x))); [rel_done H|].
  pose proof (oe_node_successors N cfg d d' x H) as H1.
  destruct (node_successors N cfg d x) as [[d1 r] succ],
           (node_successors N cfg d' x) as [[d1' r'] succ'].
  destruct H1 as [[H1 Hr] Hs]. simpl in H1, Hr, Hs. subst r' succ'.
  destruct r; try (rel_done H1). apply IH. exact H1.
Qed.

Lemma oe_bfs_loop : forall N cfg ll sl fuel d d' seen cur level, obs_eq d d' ->
  rel2 (bfs_loop fuel N cfg ll sl d seen cur level) (bfs_loop fuel N cfg ll sl d' seen cur level).
Proof.
  intros N cfg ll sl fuel. induction fuel as [|f IH]; intros d d' seen cur level H; simpl.
  { rel_done H. }
  pose proof (oe_bfs_level N cfg sl cur d d' seen [] H) as H1.
  destruct (bfs_level N cfg sl d seen [] cur) as [[[d1 r] seen1] next],
           (bfs_level N cfg sl d' seen [] cur) as [[[d1' r'] seen1'] next'].
  destruct H1 as [[[H1 Hr] Hs] Hn]. simpl in H1, Hr, Hs, Hn. subst r' seen1' next'.
  destruct cur as [|x cur]; [rel_done H|].
  destruct r; try (rel_done H1).
  destruct (match ll with Some l => Nat.leb l level | None => false end); [rel_done H|].
  apply IH. exact H1.
Qed.

(* ---------- dfs ---------- *)
Lemma oe_dfs_loop : forall N cfg kl sl fuel d d' seen stack complete, obs_eq d d' ->
  rel2 (dfs_loop fuel N cfg kl sl d seen stack complete)
       (dfs_loop fuel N cfg kl sl d' seen stack complete).
Proof.
  intros N cfg kl sl fuel. induction fuel as [|f IH]; intros d d' seen stack complete H; simpl.
  { rel_done H. }
  destruct stack as [|[x osucc] stack']; [rel_done H|].
  destruct osucc as [l|]; simpl.
  - destruct (drop_seen seen l) as [|s rest]; [apply IH; exact H|].
    destruct (match kl with Some l0 => Nat.leb l0 (length stack') | None => false end);
      apply IH; exact H.
  - rewrite <- (oe_over_limit _ _ H), <- (oe_exp _ _ H x).
    destruct (over_limit sl d && negb (n_exp (get d x))); [rel_done H|].
    pose proof (oe_node_successors N cfg d d' x H) as H1.
    destruct (node_successors N cfg d x) as [[d1 r] succ],
             (node_successors N cfg d' x) as [[d1' r'] succ'].
    destruct H1 as [[H1 Hr] Hs]. simpl in H1, Hr, Hs. subst r' succ'.
    destruct r; try (rel_done H1).
    destruct (drop_seen seen (sort_nat succ)) as [|s rest]; [apply IH; exact H1|].
    destruct (match kl with Some l0 => Nat.leb l0 (length stack') | None => false end);
      apply IH; exact H1.
Qed.

(* ---------- target ---------- *)
Lemma oe_target_level : forall N cfg target sl cur d d' seen next, obs_eq d d' ->
  rel4 (target_level N cfg target sl d seen next cur) (target_level N cfg target sl d' seen next cur).
Proof.
  intros N cfg target sl cur. induction cur as [|x cur IH]; intros d d' seen next H; simpl.
  { rel_done H. }
  rewrite <- (oe_space _ _ H x).
  destruct (intersect (n_space (get d x)) target); [|apply IH; exact H].
  destruct (subspace (n_space (get d x)) target && negb (eqb_space (n_space (get d x)) target));
    [apply IH; exact H|].
  rewrite <- (oe_over_limit _ _ H), <- (oe_exp _ _ H x).
  destruct (over_limit sl d && negb (n_exp (get d x))); [rel_done H|].
  pose proof (oe_node_successors N cfg d d' x H) as H1.
  destruct (node_successors N cfg d x) as [[d1 r] succ],
           (node_successors N cfg d' x) as [[d1' r'] succ'].
  destruct H1 as [[H1 Hr] Hs]. simpl in H1, Hr, Hs. subst r' succ'.
  destruct r; try (rel_done H1). apply IH. exact H1.
Qed.

Lemma oe_target_loop : forall N cfg target sl fuel d d' seen cur, obs_eq d d' ->
  rel2 (target_loop fuel N cfg target sl d seen cur) (target_loop fuel N cfg target sl d' seen cur).
Proof.
  intros N cfg target sl fuel. induction fuel as [|f IH]; intros d d' seen cur H; simpl.
  { rel_done H. }
  pose proof (oe_target_level N cfg target sl cur d d' seen [] H) as H1.
  destruct (target_level N cfg target sl d seen [] cur) as [[[d1 r] seen1] next],
           (target_level N cfg target sl d' seen [] cur) as [[[d1' r'] seen1'] next'].
  destruct H1 as [[[H1 Hr] Hs] Hn]. simpl in H1, Hr, Hs, Hn. subst r' seen1' next'.
  destruct cur as [|x cur]; [rel_done H|].
  destruct r; try (rel_done H1). apply IH. exact H1.
Qed.

(* ---------- minimal spaces ---------- *)
Lemma oe_ensure_min_children : forall N mins d d' p, obs_eq d d' ->
  obs_eq (ensure_min_children N d p mins) (ensure_min_children N d' p mins).
Proof.
  intros N mins. induction mins as [|m r IH]; intros d d' p H; simpl; [exact H|].
  pose proof (oe_ensure_node N d d' (Some p) m H) as H1.
  destruct (ensure_node N d (Some p) m) as [d1 c], (ensure_node N d' (Some p) m) as [d1' c'].
  destruct H1 as [H1 Hc]. simpl in H1, Hc. subst c'.
  apply IH. apply oe_mark_expanded. exact H1.
Qed.

Lemma oe_make_skip_node : forall N d d' i all_min, obs_eq d d' ->
  obs_eq (make_skip_node N d i all_min) (make_skip_node N d' i all_min).
Proof.
  intros N d d' i all_min H. unfold make_skip_node.
  rewrite <- (oe_exp _ _ H i), <- (oe_space _ _ H i).
  destruct (n_exp (get d i)); [exact H|].
  apply oe_upd_node; [|apply oe_fun_set_skip]. apply oe_mark_expanded.
  apply oe_ensure_min_children. apply oe_upd_node; [exact H|apply oe_fun_clear_attr].
Qed.

Lemma oe_min_inner : forall N seen remaining all_min node_space skip succ d d', obs_eq d d' ->
  rel2 (min_inner N d seen remaining all_min node_space skip succ)
       (min_inner N d' seen remaining all_min node_space skip succ).
Proof.
  intros N seen remaining all_min node_space skip succ.
  induction succ as [|s r IH]; intros d d' H; unfold min_inner; fold min_inner; [rel_done H|].
  destruct (mem_nat s seen); [apply IH; exact H|].
  destruct (negb (existsb (fun m => subspace m node_space) remaining)); [|rel_done H].
  apply IH. destruct skip; [apply oe_make_skip_node|]; exact H.
Qed.

Lemma oe_min_loop : forall N cfg sl skip all_min fuel d d' seen remaining stack, obs_eq d d' ->
  rel2 (min_loop fuel N cfg sl skip all_min d seen remaining stack)
       (min_loop fuel N cfg sl skip all_min d' seen remaining stack).
Proof.
  intros N cfg sl skip all_min fuel.
  induction fuel as [|f IH]; intros d d' seen remaining stack H; simpl; [rel_done H|].
  destruct stack as [|[x osucc] stack'].
  { destruct (Nat.eqb (length remaining) 0); rel_done H. }
  assert (Htail : forall d1 d1' succ, obs_eq d1 d1' ->
            rel2 (let '(d2, succ2) :=
                      min_inner N d1 seen remaining all_min (n_space (get d1 x)) skip succ in
                  match succ2 with
                  | [] =>
                      if is_minimal d2 x
                      then match remove_space (n_space (get d2 x)) remaining with
                           | Some rem' => min_loop f N cfg sl skip all_min d2 seen rem' stack'
                           | None => (d2, RRaised ErrAssert)
                           end
                      else min_loop f N cfg sl skip all_min d2 seen remaining stack'
                  | s :: rest =>
                      min_loop f N cfg sl skip all_min d2 (s :: seen) remaining
                               ((s, None) :: (x, Some rest) :: stack')
                  end)
                 (let '(d2, succ2) :=
                      min_inner N d1' seen remaining all_min (n_space (get d1' x)) skip succ in
                  match succ2 with
                  | [] =>
                      if is_minimal d2 x
                      then match remove_space (n_space (get d2 x)) remaining with
                           | Some rem' => min_loop f N cfg sl skip all_min d2 seen rem' stack'
                           | None => (d2, RRaised ErrAssert)
                           end
                      else min_loop f N cfg sl skip all_min d2 seen remaining stack'
                  | s :: rest =>
                      min_loop f N cfg sl skip all_min d2 (s :: seen) remaining
                               ((s, None) :: (x, Some rest) :: stack')
                  end)).
  { intros d1 d1' succ H1. rewrite <- (oe_space _ _ H1 x).
    pose proof (oe_min_inner N seen remaining all_min (n_space (get d1 x)) skip succ d1 d1' H1) as H2.
    destruct (min_inner N d1 seen remaining all_min (n_space (get d1 x)) skip succ) as [d2 succ2],
             (min_inner N d1' seen remaining all_min (n_space (get d1 x)) skip succ) as [d2' succ2'].
    destruct H2 as [H2 Hs]. simpl in H2, Hs. subst succ2'.
    destruct succ2 as [|s rest]; [|apply IH; exact H2].
    rewrite <- (oe_is_minimal _ _ H2 x), <- (oe_space _ _ H2 x).
    destruct (is_minimal d2 x); [|apply IH; exact H2].
    destruct (remove_space (n_space (get d2 x)) remaining); [apply IH; exact H2|rel_done H2]. }
  destruct osucc as [l|]; simpl.
  - apply Htail. exact H.
  - rewrite <- (oe_over_limit _ _ H), <- (oe_exp _ _ H x).
    destruct (over_limit sl d && negb (n_exp (get d x))); [rel_done H|].
    pose proof (oe_node_successors N cfg d d' x H) as H1.
    destruct (node_successors N cfg d x) as [[d1 r] succ],
             (node_successors N cfg d' x) as [[d1' r'] succ'].
    destruct H1 as [[H1 Hr] Hs]. simpl in H1, Hr, Hs. subst r' succ'.
    destruct r; try (rel_done H1). apply Htail. exact H1.
Qed.

Lemma oe_expand_min : forall fuel N cfg d d' start sl skip tape, obs_eq d d' ->
  rel2 (expand_min fuel N cfg d start sl skip tape) (expand_min fuel N cfg d' start sl skip tape).
Proof.
  intros fuel N cfg d d' start sl skip tape H. unfold expand_min. cbv zeta.
  rewrite <- (oe_space _ _ H).
  destruct (negb (perm_of tape (min_traps_b N _))); [rel_done H|].
  apply oe_min_loop. exact H.
Qed.

(* ---------- skip operations ---------- *)
Lemma oe_skip_edges : forall traps d d' i, obs_eq d d' ->
  obs_eq (skip_edges d i traps) (skip_edges d' i traps).
Proof.
  induction traps as [|[mid m] r IH]; intros d d' i H; simpl; [exact H|].
  rewrite <- (oe_space _ _ H i).
  destruct (subspace m (n_space (get d i))); apply IH; [apply oe_ensure_edge|]; exact H.
Qed.

Lemma oe_ensure_roots : forall N mins d d' acc, obs_eq d d' ->
  rel2 (ensure_roots N d mins acc) (ensure_roots N d' mins acc).
Proof.
  intros N mins. induction mins as [|m r IH]; intros d d' acc H; simpl; [rel_done H|].
  pose proof (oe_ensure_node N d d' None m H) as H1.
  destruct (ensure_node N d None m) as [d1 c], (ensure_node N d' None m) as [d1' c'].
  destruct H1 as [H1 Hc]. simpl in H1, Hc. subst c'.
  apply IH. apply oe_mark_expanded. exact H1.
Qed.

Lemma oe_skip_all : forall traps ids d d' count, obs_eq d d' ->
  rel2 (skip_all d ids traps count) (skip_all d' ids traps count).
Proof.
  intro traps. induction ids as [|i r IH]; intros d d' count H; simpl; [rel_done H|].
  rewrite <- (oe_exp _ _ H i).
  destruct (n_exp (get d i)); [apply IH; exact H|].
  apply IH. apply oe_upd_node; [|apply oe_fun_set_skip]. apply oe_mark_expanded.
  apply oe_skip_edges. apply oe_upd_node; [exact H|apply oe_fun_clear_attr].
Qed.

Lemma oe_skip_remaining : forall N d d' tape, obs_eq d d' ->
  rel2 (skip_remaining N d tape) (skip_remaining N d' tape).
Proof.
  intros N d d' tape H. unfold skip_remaining. cbv zeta.
  rewrite <- (oe_space _ _ H 0).
  destruct (negb (perm_of tape (min_traps_b N (n_space (get d 0))))); [rel_done H|].
  pose proof (oe_ensure_roots N tape d d' [] H) as H1.
  destruct (ensure_roots N d tape []) as [d1 traps], (ensure_roots N d' tape []) as [d1' traps'].
  destruct H1 as [H1 Ht]. simpl in H1, Ht. subst traps'.
  rewrite <- (oe_size _ _ H1).
  pose proof (oe_skip_all traps (seq 0 (size d1)) d1 d1' 0 H1) as H2.
  destruct (skip_all d1 (seq 0 (size d1)) traps 0) as [d2 k],
           (skip_all d1' (seq 0 (size d1)) traps 0) as [d2' k'].
  destruct H2 as [H2 Hk]. simpl in H2, Hk. subst k'. rel_done H2.
Qed.

Lemma oe_skip_to_minimal : forall N d d' i tape, obs_eq d d' ->
  rel2 (skip_to_minimal_t N d i tape) (skip_to_minimal_t N d' i tape).
Proof.
  intros N d d' i tape H. unfold skip_to_minimal_t. cbv zeta.
  rewrite <- (oe_exp _ _ H i), <- (oe_space _ _ H i).
  destruct (n_exp (get d i)); [rel_done H|].
  destruct (negb (perm_of tape (min_traps_b N (n_space (get d i))))); [rel_done H|].
  assert (Hc : obs_eq (upd_node d i clear_attr) (upd_node d' i clear_attr)).
  { apply oe_upd_node; [exact H|apply oe_fun_clear_attr]. }
  assert (Hcommon : obs_eq
            (upd_node (mark_expanded (ensure_min_children N (upd_node d i clear_attr) i tape) i) i
                      (fun y => set_skip y true))
            (upd_node (mark_expanded (ensure_min_children N (upd_node d' i clear_attr) i tape) i) i
                      (fun y => set_skip y true))).
  { apply oe_upd_node; [|apply oe_fun_set_skip]. apply oe_mark_expanded.
    apply oe_ensure_min_children. exact Hc. }
  destruct tape as [|m [|m2 r]]; try (split; [exact Hcommon|reflexivity]).
  destruct (eqb_space m (n_space (get d i))); [|split; [exact Hcommon|reflexivity]].
  split; [|reflexivity]. simpl. apply oe_mark_expanded. exact Hc.
Qed.

(* ---------- attractor cache queries ---------- *)
Lemma oe_q_cands : forall d d' i o, obs_eq d d' -> rel2 (q_cands d i o) (q_cands d' i o).
Proof.
  intros d d' i o H. unfold q_cands. cbv zeta.
  pose proof (oe_get _ _ H i) as Hg.
  destruct Hg as (_ & _ & _ & _ & _ & Hseeds & _ & Hc).
  rewrite <- Hseeds.
  destruct (n_seeds (get d i)) as [ts|] eqn:Es.
  - destruct (n_cands (get d i)), (n_cands (get d' i)); rel_done H.
  - destruct Hc as [Hc|[Hc _]]; [|congruence]. rewrite <- Hc.
    destruct (n_cands (get d i)); [rel_done H|].
    destruct o as [|k b]; [rel_done H|].
    rewrite <- (oe_pseudo_minimal _ _ H i), <- (oe_cur_tag _ _ H i).
    assert (H1 : obs_eq (upd_node d i (fun y => set_cands y (Some (cur_tag d i))))
                        (upd_node d' i (fun y => set_cands y (Some (cur_tag d i))))).
    { apply oe_upd_node; [exact H|apply oe_fun_set_cands]. }
    destruct (Nat.eqb k 0 || pseudo_minimal d i && Nat.eqb k 1); [|rel_done H1].
    split; [|reflexivity]. simpl. apply oe_upd_node; [exact H1|apply oe_fun_set_seeds].
Qed.

Lemma oe_q_seeds : forall d d' i fallback oc os, obs_eq d d' ->
  rel2 (q_seeds d i fallback oc os) (q_seeds d' i fallback oc os).
Proof.
  intros d d' i fallback oc os H. unfold q_seeds. cbv zeta.
  rewrite <- (oe_seeds _ _ H i).
  destruct (n_seeds (get d i)); [rel_done H|].
  pose proof (oe_q_cands d d' i oc H) as H1.
  destruct (q_cands d i oc) as [d1 r], (q_cands d' i oc) as [d1' r'].
  destruct H1 as [H1 Hr]. simpl in H1, Hr. subst r'.
  rewrite <- (oe_cur_tag _ _ H1 i), <- (oe_seeds _ _ H1 i).
  assert (H2 : obs_eq (upd_node d1 i (fun y => set_seeds y (Some (cur_tag d1 i))))
                      (upd_node d1' i (fun y => set_seeds y (Some (cur_tag d1 i))))).
  { apply oe_upd_node; [exact H1|apply oe_fun_set_seeds]. }
  assert (H3 : forall c, obs_eq
            (upd_node (upd_node d1 i (fun y => set_seeds y (Some (cur_tag d1 i)))) i
                      (fun y => set_sets y c))
            (upd_node (upd_node d1' i (fun y => set_seeds y (Some (cur_tag d1 i)))) i
                      (fun y => set_sets y c))).
  { intro c. apply oe_upd_node; [exact H2|apply oe_fun_set_sets]. }
  destruct r;
    try (destruct (n_seeds (get d1 i)); [rel_done H1|];
         destruct os as [|k0 [|]]; (split; [apply H3|reflexivity])).
  destruct fallback; [|rel_done H1]. split; [apply H3|reflexivity].
Qed.

Lemma oe_q_sets : forall d d' i oc os, obs_eq d d' ->
  rel2 (q_sets d i oc os) (q_sets d' i oc os).
Proof.
  intros d d' i oc os H. unfold q_sets. cbv zeta.
  rewrite <- (oe_sets _ _ H i).
  destruct (n_sets (get d i)); [rel_done H|].
  pose proof (oe_q_seeds d d' i false oc os H) as H1.
  destruct (q_seeds d i false oc os) as [d1 r], (q_seeds d' i false oc os) as [d1' r'].
  destruct H1 as [H1 Hr]. simpl in H1, Hr. subst r'.
  rewrite <- (oe_cur_tag _ _ H1 i).
  destruct r; try (rel_done H1);
    (split; [|reflexivity]; simpl; apply oe_upd_node; [exact H1|apply oe_fun_set_sets]).
Qed.

Lemma oe_reclaim : forall d d', obs_eq d d' -> obs_eq (reclaim d) (reclaim d').
Proof.
  intros d d' [HF He]. split; [|exact He]. unfold reclaim. simpl.
  induction HF as [|x y l l' Hxy HF IH]; simpl; constructor; [|exact IH].
  destruct Hxy as (A1 & A2 & A3 & A4 & A5 & A6 & A7 & A8). rewrite <- A6.
  destruct (n_seeds x) as [t|] eqn:Es.
  - unfold node_obs_eq. simpl. repeat split; auto; congruence.
  - unfold node_obs_eq. repeat split; auto; congruence.
Qed.

(* ---------- every operation ---------- *)
Theorem step_obs_eq : forall fuel N cfg d d' o, obs_eq d d' ->
  obs_eq (fst (step fuel N cfg d o)) (fst (step fuel N cfg d' o)) /\
  snd (step fuel N cfg d o) = snd (step fuel N cfg d' o).
Proof.
  intros fuel N cfg d d' o H. change (rel2 (step fuel N cfg d o) (step fuel N cfg d' o)).
  destruct o; unfold step.
  - rewrite <- (oe_size _ _ H). destruct (Nat.ltb i (size d)); [|rel_done H].
    pose proof (oe_node_successors N cfg d d' i H) as H1.
    destruct (node_successors N cfg d i) as [[d1 r] succ],
             (node_successors N cfg d' i) as [[d1' r'] succ'].
    destruct H1 as [[H1 Hr] Hs]. simpl in H1, Hr, Hs. subst r' succ'. rel_done H1.
  - rewrite <- (oe_valid_start _ _ H). destruct (valid_start d start); [|rel_done H].
    unfold expand_bfs. apply oe_bfs_loop. exact H.
  - rewrite <- (oe_valid_start _ _ H). destruct (valid_start d start); [|rel_done H].
    unfold expand_dfs. apply oe_dfs_loop. exact H.
  - rewrite <- (oe_valid_start _ _ H). destruct (valid_start d start); [|rel_done H].
    apply oe_expand_min. exact H.
  - unfold expand_to_target. apply oe_target_loop. exact H.
  - rewrite <- (oe_size _ _ H). destruct (Nat.ltb i (size d)); [|rel_done H].
    apply oe_skip_to_minimal. exact H.
  - apply oe_skip_remaining. exact H.
  - split; [|reflexivity]. simpl. apply oe_reclaim. exact H.
  - rel_done H.
  - rewrite <- (oe_size _ _ H). destruct (Nat.ltb i (size d)); [|rel_done H].
    apply oe_q_cands. exact H.
  - rewrite <- (oe_size _ _ H). destruct (Nat.ltb i (size d)); [|rel_done H].
    apply oe_q_seeds. exact H.
  - rewrite <- (oe_size _ _ H). destruct (Nat.ltb i (size d)); [|rel_done H].
    apply oe_q_sets. exact H.
Qed.

Theorem run_obs_eq : forall fuel N cfg d d' h, obs_eq d d' ->
  Forall2 (fun a b => obs_eq (fst a) (fst b) /\ snd a = snd b) (run fuel N cfg d h) (run fuel N cfg d' h).
Proof.
  intros fuel N cfg d d' h. revert d d'.
  induction h as [|o h IH]; intros d d' H; simpl; [constructor|].
  pose proof (step_obs_eq fuel N cfg d d' o H) as H1.
  destruct (step fuel N cfg d o) as [d1 x], (step fuel N cfg d' o) as [d1' x'].
  simpl in H1. constructor; [exact H1|]. apply IH. apply H1.
Qed.

Corollary reclaim_transparent : forall fuel N cfg d h,
  Forall2 (fun a b => obs_eq (fst a) (fst b) /\ snd a = snd b) (run fuel N cfg d h) (run fuel N cfg (reclaim d) h).
Proof. intros fuel N cfg d h. apply run_obs_eq. apply reclaim_obs_eq. Qed.

(* ================================================================== *)
(* PART B.  the hierarchy is unique up to node ids                      *)
(* ================================================================== *)

Definition edge_view (d : sd) (X Y : space) (ms : list space) : Prop :=
  exists e, In e (sd_edges d) /\ n_space (get d (e_src e)) = X /\ n_space (get d (e_dst e)) = Y /\ Permutation (e_motifs e) ms.
Definition same_hierarchy (d d' : sd) : Prop :=
  (forall X, In X (spaces d) <-> In X (spaces d')) /\
  (forall X Y ms, edge_view d X Y ms -> edge_view d' X Y ms) /\ (forall X Y ms, edge_view d' X Y ms -> edge_view d X Y ms).

(* ---------- list helpers ---------- *)
Lemma NoDup_map_injective_on : forall (A B : Type) (f : A -> B) (l : list A) a b,
  NoDup (map f l) -> In a l -> In b l -> f a = f b -> a = b.
Proof.
  intros A B f l a b. induction l as [|x l IH]; simpl; intros Hnd Ha Hb Hf; [contradiction|].
  inversion Hnd as [|y m Hnin Hnd']; subst.
  destruct Ha as [Ha|Ha]; destruct Hb as [Hb|Hb].
  - congruence.
  - subst x. exfalso. apply Hnin. rewrite Hf. apply in_map. exact Hb.
  - subst x. exfalso. apply Hnin. rewrite <- Hf. apply in_map. exact Ha.
  - apply IH; assumption.
Qed.

Lemma NoDup_app_parts : forall (A : Type) (l l' : list A), NoDup (l ++ l') -> NoDup l /\ NoDup l'.
Proof.
  intros A l l'. induction l as [|x l IH]; simpl; intro Hnd; [split; [constructor|exact Hnd]|].
  inversion Hnd as [|y m Hnin Hnd']; subst. destruct (IH Hnd') as [H1 H2].
  split; [|exact H2]. constructor; [|exact H1]. intro Hin. apply Hnin. apply in_or_app. left. exact Hin.
Qed.

Lemma NoDup_flat_map_part : forall (A B : Type) (f : A -> list B) (l : list A) x,
  NoDup (flat_map f l) -> In x l -> NoDup (f x).
Proof.
  intros A B f l x. induction l as [|a l IH]; simpl; intros Hnd Hin; [contradiction|].
  destruct Hin as [Heq|Hin].
  - subst a. apply (NoDup_app_parts _ _ _ Hnd).
  - apply IH; [|exact Hin]. apply (NoDup_app_parts _ _ _ Hnd).
Qed.

Lemma max_traps_b_NoDup : forall N S srcs, NoDup (max_traps_b N S srcs).
Proof.
  intros N S srcs. rewrite max_traps_b_unfold. apply NoDup_filter. unfold max_cands.
  apply NoDup_filter. unfold traps_in. apply NoDup_filter. apply subspaces_of_NoDup.
Qed.

(* ---------- reading edges of a hierarchy ---------- *)
Lemma In_out_edges : forall d e, In e (sd_edges d) -> In e (out_edges d (e_src e)).
Proof.
  intros d e Hin. unfold out_edges. apply filter_In. split; [exact Hin|apply Nat.eqb_refl].
Qed.

Lemma In_out_motifs : forall d e m, In e (sd_edges d) -> In m (e_motifs e) ->
  In m (out_motifs d (e_src e)).
Proof.
  intros d e m Hin Hm. unfold out_motifs. apply in_flat_map. exists e.
  split; [apply In_out_edges; exact Hin|exact Hm].
Qed.

(* the motifs of an edge X -> Y are exactly the maximal trap spaces of X
   (fixing the sources at the root) that percolate to Y, each once *)
Lemma hierarchy_edge_motifs : forall N d e M, Hierarchy N d -> In e (sd_edges d) ->
  (In M (e_motifs e) <->
   In M (max_traps_b N (n_space (get d (e_src e))) (node_srcs N (e_src e))) /\
   percolate_b N M = n_space (get d (e_dst e))).
Proof.
  intros N d e M Hh Hin. pose proof Hh as (Hswf & _).
  destruct (swf_edges N d Hswf e Hin) as (Hs & Hd & _).
  pose proof (hierarchy_canonical N d (e_src e) Hh Hs) as Hcan. unfold canonical in Hcan.
  split.
  - intro HM. split.
    + eapply Permutation_in; [exact Hcan|]. apply In_out_motifs; assumption.
    + apply (swf_motif N d Hswf e M Hin HM).
  - intros [HM Hp].
    apply (Permutation_in _ (Permutation_sym Hcan)) in HM.
    unfold out_motifs in HM. apply in_flat_map in HM. destruct HM as (e2 & Hin2 & Hm2).
    unfold out_edges in Hin2. apply filter_In in Hin2. destruct Hin2 as [Hin2 Hs2].
    apply Nat.eqb_eq in Hs2.
    destruct (swf_edges N d Hswf e2 Hin2) as (_ & Hd2 & _).
    destruct (swf_motif N d Hswf e2 M Hin2 Hm2) as [_ Hp2].
    assert (Hdd : e_dst e2 = e_dst e).
    { apply (spaces_inj N d _ _ Hswf Hd2 Hd). congruence. }
    assert (Heq : e2 = e).
    { apply (NoDup_map_injective_on _ _ (fun e0 => (e_src e0, e_dst e0)) (sd_edges d));
        [apply (swf_edge_nodup N d Hswf)|exact Hin2|exact Hin|]. simpl. congruence. }
    subst e2. exact Hm2.
Qed.

Lemma hierarchy_edge_motifs_NoDup : forall N d e, Hierarchy N d -> In e (sd_edges d) ->
  NoDup (e_motifs e).
Proof.
  intros N d e Hh Hin. pose proof Hh as (Hswf & _).
  destruct (swf_edges N d Hswf e Hin) as (Hs & _ & _).
  pose proof (hierarchy_canonical N d (e_src e) Hh Hs) as Hcan. unfold canonical in Hcan.
  assert (Hnd : NoDup (out_motifs d (e_src e))).
  { eapply Permutation_NoDup; [apply Permutation_sym; exact Hcan|apply max_traps_b_NoDup]. }
  unfold out_motifs in Hnd. eapply NoDup_flat_map_part; [exact Hnd|]. apply In_out_edges. exact Hin.
Qed.

Lemma hierarchy_edge_strict : forall N d e, Hierarchy N d -> In e (sd_edges d) ->
  strict_subspace (n_space (get d (e_dst e))) (n_space (get d (e_src e))).
Proof.
  intros N d e Hh Hin. pose proof Hh as (Hswf & _).
  destruct (swf_edges N d Hswf e Hin) as (Hs & _ & Hne).
  destruct (e_motifs e) as [|m r] eqn:Em; [exfalso; apply Hne; reflexivity|].
  assert (Hm : In m (e_motifs e)) by (rewrite Em; left; reflexivity).
  apply (hierarchy_edge_motifs N d e m Hh Hin) in Hm. destruct Hm as [Hm Hp].
  pose proof (hierarchy_space_len N d (e_src e) Hh Hs) as Hlen.
  destruct (max_traps_b_trap N _ _ m Hlen Hm) as [_ Hss].
  rewrite <- Hp. apply strict_percolate; [|exact Hss].
  rewrite (max_traps_b_length N _ _ m Hm). exact Hlen.
Qed.

(* node 0 is the root in both diagrams, so equal spaces get the same source filter *)
Lemma hierarchy_srcs_agree : forall N d d' i j, Hierarchy N d -> Hierarchy N d' ->
  i < size d -> j < size d' -> n_space (get d i) = n_space (get d' j) ->
  node_srcs N i = node_srcs N j.
Proof.
  intros N d d' i j Hh Hh' Hi Hj Heq.
  pose proof Hh as (Hswf & _ & _ & _ & _ & Hroot).
  pose proof Hh' as (Hswf' & _ & _ & _ & _ & Hroot').
  destruct i as [|i], j as [|j]; try reflexivity; exfalso.
  - assert (H0 : S j = 0); [|discriminate H0].
    apply (spaces_inj N d' _ _ Hswf' Hj (swf_size N d' Hswf')). congruence.
  - assert (H0 : S i = 0); [|discriminate H0].
    apply (spaces_inj N d _ _ Hswf Hi (swf_size N d Hswf)). congruence.
Qed.

(* every node of a rooted hierarchy appears in any other hierarchy *)
Lemma hierarchy_nodes_incl : forall N d d', Hierarchy N d -> Hierarchy N d' -> Rooted d ->
  forall k i, i < size d -> nfixed (n_space (get d i)) < k ->
  exists j, j < size d' /\ n_space (get d' j) = n_space (get d i).
Proof.
  intros N d d' Hh Hh' Hr.
  pose proof Hh as (Hswf & _ & _ & _ & _ & Hroot).
  pose proof Hh' as (Hswf' & _ & _ & _ & _ & Hroot').
  induction k as [|k IH]; intros i Hi Hk; [lia|].
  destruct i as [|i].
  { exists 0. split; [apply (swf_size N d' Hswf')|congruence]. }
  destruct (Hr (S i)) as (e & Hin & Hd); [lia|exact Hi|].
  destruct (swf_edges N d Hswf e Hin) as (Hs & _ & _).
  pose proof (hierarchy_edge_strict N d e Hh Hin) as Hss. rewrite Hd in Hss.
  apply strict_subspace_nfixed in Hss.
  destruct (IH (e_src e) Hs) as (js & Hjs & Hsp); [lia|].
  pose proof (hierarchy_srcs_agree N d d' (e_src e) js Hh Hh' Hs Hjs (eq_sym Hsp)) as Hsrc.
  assert (Hsucc : exists j, In j (successors d (e_src e)) /\ n_space (get d j) = n_space (get d (S i))).
  { exists (S i). split; [|reflexivity]. apply In_successors. exists e. repeat split; assumption. }
  apply (hierarchy_successors N d (e_src e) _ Hh Hs) in Hsucc.
  rewrite <- Hsp, Hsrc in Hsucc.
  apply (hierarchy_successors N d' js _ Hh' Hjs) in Hsucc.
  destruct Hsucc as (j & Hj & Hspj). exists j. split; [|exact Hspj].
  eapply successors_valid; eassumption.
Qed.

Lemma hierarchy_spaces_incl : forall N d d' X, Hierarchy N d -> Hierarchy N d' -> Rooted d ->
  In X (spaces d) -> In X (spaces d').
Proof.
  intros N d d' X Hh Hh' Hr Hin. apply In_spaces_iff in Hin. destruct Hin as (i & Hi & Hsp).
  destruct (hierarchy_nodes_incl N d d' Hh Hh' Hr (S (nfixed (n_space (get d i)))) i Hi)
    as (j & Hj & Hspj); [lia|].
  apply In_spaces_iff. exists j. split; [exact Hj|congruence].
Qed.

Lemma hierarchy_edges_incl : forall N d d' X Y ms, Hierarchy N d -> Hierarchy N d' -> Rooted d ->
  edge_view d X Y ms -> edge_view d' X Y ms.
Proof.
  intros N d d' X Y ms Hh Hh' Hr (e & Hin & HX & HY & Hperm).
  pose proof Hh as (Hswf & _). pose proof Hh' as (Hswf' & _).
  destruct (swf_edges N d Hswf e Hin) as (Hs & Hd & Hne).
  destruct (hierarchy_nodes_incl N d d' Hh Hh' Hr (S (nfixed (n_space (get d (e_src e))))) (e_src e) Hs)
    as (js & Hjs & Hsp); [lia|].
  pose proof (hierarchy_srcs_agree N d d' (e_src e) js Hh Hh' Hs Hjs (eq_sym Hsp)) as Hsrc.
  assert (Hex : exists m, In m (e_motifs e)).
  { destruct (e_motifs e) as [|m r]; [exfalso; apply Hne; reflexivity|exists m; left; reflexivity]. }
  destruct Hex as (m & Hm).
  apply (hierarchy_edge_motifs N d e m Hh Hin) in Hm. destruct Hm as [Hm Hp].
  (* the edge of d' carrying m *)
  pose proof (hierarchy_canonical N d' js Hh' Hjs) as Hcan'. unfold canonical in Hcan'.
  assert (Hm' : In m (out_motifs d' js)).
  { eapply Permutation_in; [apply Permutation_sym; exact Hcan'|]. rewrite Hsp, <- Hsrc. exact Hm. }
  unfold out_motifs in Hm'. apply in_flat_map in Hm'. destruct Hm' as (e' & Hin' & Hme').
  unfold out_edges in Hin'. apply filter_In in Hin'. destruct Hin' as [Hin' Hs'].
  apply Nat.eqb_eq in Hs'.
  destruct (swf_motif N d' Hswf' e' m Hin' Hme') as [_ Hp'].
  exists e'. split; [exact Hin'|]. split; [rewrite Hs'; congruence|]. split; [congruence|].
  eapply Permutation_trans; [|exact Hperm].
  apply NoDup_Permutation.
  - apply (hierarchy_edge_motifs_NoDup N d' e' Hh' Hin').
  - apply (hierarchy_edge_motifs_NoDup N d e Hh Hin).
  - intro M. rewrite (hierarchy_edge_motifs N d' e' M Hh' Hin'),
                     (hierarchy_edge_motifs N d e M Hh Hin).
    rewrite Hs', Hsp, <- Hsrc, <- Hp', Hp. reflexivity.
Qed.

(* hierarchy_unique as first stated (without Rooted) is false: Hierarchy does not
   say that every node is reachable from the root, see the report / the
   counterexample below; with Rooted on both sides it holds *)
Theorem hierarchy_unique_weak : forall N d d', Hierarchy N d -> Hierarchy N d' ->
  Rooted d -> Rooted d' -> same_hierarchy d d'.
Proof.
  intros N d d' Hh Hh' Hr Hr'. split; [|split].
  - intro X. split; [apply (hierarchy_spaces_incl N d d')|apply (hierarchy_spaces_incl N d' d)];
      assumption.
  - intros X Y ms. apply (hierarchy_edges_incl N d d'); assumption.
  - intros X Y ms. apply (hierarchy_edges_incl N d' d); assumption.
Qed.

(* a full unrestricted BFS from any reachable skip-free diagram gives the same
   hierarchy as a BFS from scratch *)
Corollary bfs_after_anything : forall fuel1 fuel2 N cfg d0 d1 d2, 1 <= max_motifs cfg ->
  SWF N d0 -> TrapNodes N d0 -> NoStubEdges d0 -> EdgeStrict d0 -> Rooted d0 -> Faithful N d0 -> NoSkips d0 ->
  n_space (get d0 0) = percolate_b N (top_space (nvars N)) ->
  expand_bfs fuel1 N cfg d0 None None None = (d1, RBool true) ->
  expand_bfs fuel2 N cfg (init N) None None None = (d2, RBool true) -> same_hierarchy d1 d2.
Proof.
  intros fuel1 fuel2 N cfg d0 d1 d2 Hcfg Hswf Htn Hnse Hes Hr Hf Hns Hroot Hrun1 Hrun2.
  assert (Hstep1 : fst (step fuel1 N cfg d0 (OBfs None None None)) = d1).
  { simpl. rewrite Hrun1. reflexivity. }
  assert (Hstep2 : fst (step fuel2 N cfg (init N) (OBfs None None None)) = d2).
  { simpl. rewrite Hrun2. reflexivity. }
  apply (hierarchy_unique_weak N).
  - rewrite <- Hstep1.
    split; [apply step_SWF; exact Hswf|].
    split; [apply step_TrapNodes; assumption|].
    split; [rewrite Hstep1; eapply bfs_complete; eassumption|].
    split; [apply noskips_plain; [exact I|exact Hns]|].
    split; [apply step_Faithful_all; assumption|].
    rewrite root_stable by exact Hswf. exact Hroot.
  - eapply bfs_hierarchy; eassumption.
  - rewrite <- Hstep1. apply step_Rooted; [exact Hswf|exact I|exact Hr].
  - rewrite <- Hstep2. apply step_Rooted; [apply init_SWF|exact I|apply init_Rooted].
Qed.

(* ---------- hierarchy_unique needs Rooted ---------- *)
(* two source variables x0, x1 (f_i = x_i).  The BFS hierarchy has the root ** and the
   four fixed points.  Adding the node 1* (a percolated trap space that does not fix
   the source x1, hence not below any child of the root), expanded canonically with
   edges to 10 and 11, keeps SWF, TrapNodes, AllExpanded, NoSkips, Faithful and the
   root space: Hierarchy holds, yet the node sets differ.  The extra node has no
   incoming edge: Rooted fails, and no operation sequence from init produces it. *)
Definition cxh_net : net := [fun s => nth 0 s false; fun s => nth 1 s false].
Definition cxh_cfg : config := {| max_motifs := 100 |}.
Definition cxh_node (X : space) (dp : nat) (par : option nat) : node :=
  {| n_space := X; n_depth := dp; n_exp := true; n_skip := false; n_parent := par;
     n_cands := None; n_seeds := None; n_sets := None |}.
Definition cxh_bfs : sd := fst (expand_bfs 10 cxh_net cxh_cfg (init cxh_net) None None None).
Definition cxh_extra : sd :=
  {| sd_nodes := [cxh_node [None; None] 0 None;
                  cxh_node [Some false; Some false] 1 (Some 0);
                  cxh_node [Some true; Some false] 1 (Some 0);
                  cxh_node [Some false; Some true] 1 (Some 0);
                  cxh_node [Some true; Some true] 1 (Some 0);
                  cxh_node [Some true; None] 0 None];
     sd_edges := [{| e_src := 0; e_dst := 1; e_motifs := [[Some false; Some false]] |};
                  {| e_src := 0; e_dst := 2; e_motifs := [[Some true; Some false]] |};
                  {| e_src := 0; e_dst := 3; e_motifs := [[Some false; Some true]] |};
                  {| e_src := 0; e_dst := 4; e_motifs := [[Some true; Some true]] |};
                  {| e_src := 5; e_dst := 2; e_motifs := [[Some true; Some false]] |};
                  {| e_src := 5; e_dst := 4; e_motifs := [[Some true; Some true]] |}] |}.

Lemma cxh_extra_hierarchy : Hierarchy cxh_net cxh_extra.
Proof.
  split; [|split; [|split; [|split; [|split]]]].
  - constructor.
    + unfold size. simpl. lia.
    + intros x Hin. simpl in Hin. repeat (destruct Hin as [Hx|Hin]; [subst x; reflexivity|]). contradiction.
    + unfold spaces. simpl. repeat (constructor; [simpl; intuition discriminate|]). constructor.
    + intros e Hin. unfold size. simpl in *.
      repeat (destruct Hin as [He|Hin]; [subst e; simpl; repeat split; try lia; discriminate|]).
      contradiction.
    + simpl. repeat (constructor; [simpl; intuition discriminate|]). constructor.
    + intros x Hin. simpl in Hin.
      repeat (destruct Hin as [Hx|Hin]; [subst x; vm_compute; reflexivity|]). contradiction.
    + intros e m Hin Hm. simpl in Hin.
      repeat (destruct Hin as [He|Hin];
              [subst e; simpl in Hm; destruct Hm as [Hm|[]]; subst m; split; vm_compute; reflexivity|]).
      contradiction.
  - intros x Hin. apply is_trap_b_spec. simpl in Hin.
    repeat (destruct Hin as [Hx|Hin]; [subst x; vm_compute; reflexivity|]). contradiction.
  - intros i Hi. unfold size in Hi. simpl in Hi.
    do 6 (destruct i as [|i]; [reflexivity|]). lia.
  - intros i Hi. unfold size in Hi. simpl in Hi.
    do 6 (destruct i as [|i]; [reflexivity|]). lia.
  - intros i Hi _ _. unfold size in Hi. simpl in Hi. unfold canonical.
    destruct i as [|i].
    { eapply Permutation_trans; [|apply sort_by_key_perm]. vm_compute. apply Permutation_refl. }
    do 5 (destruct i as [|i]; [vm_compute; apply Permutation_refl|]). lia.
  - vm_compute. reflexivity.
Qed.

Theorem hierarchy_unique_counterexample :
  Hierarchy cxh_net cxh_extra /\ Hierarchy cxh_net cxh_bfs /\ Rooted cxh_bfs /\
  ~ same_hierarchy cxh_extra cxh_bfs.
Proof.
  split; [exact cxh_extra_hierarchy|]. split; [|split].
  - apply (bfs_hierarchy 10 cxh_net cxh_cfg); [unfold cxh_cfg; simpl; lia|].
    vm_compute. reflexivity.
  - change cxh_bfs with (fst (step 10 cxh_net cxh_cfg (init cxh_net) (OBfs None None None))).
    apply step_Rooted; [apply init_SWF|exact I|apply init_Rooted].
  - intros [Hsp _].
    assert (Hin : In [Some true; None] (spaces cxh_extra)) by (vm_compute; tauto).
    apply (proj1 (Hsp _)) in Hin. vm_compute in Hin. intuition discriminate.
Qed.

(* ================================================================== *)
(* PART C.  comparing two diagrams through their node spaces            *)
(* ================================================================== *)

Definition is_subgraph_b (a b : sd) : bool :=
  (match find_node b (n_space (get a 0)) with Some _ => true | None => false end) &&
  forallb (fun i =>
     if n_exp (get a i) then
       match find_node b (n_space (get a i)) with
       | None => false
       | Some j =>
           forallb (fun s => match find_node b (n_space (get a s)) with
                             | Some t => n_exp (get b j) && existsb (Nat.eqb t) (successors b j)
                             | None => false end) (successors a i)
       end
     else true) (seq 0 (size a)).

Lemma find_node_of_In : forall N b X, SWF N b -> length X = nvars N -> In X (spaces b) ->
  exists j, find_node b X = Some j /\ j < size b /\ n_space (get b j) = X.
Proof.
  intros N b X Hb HX Hin. apply In_spaces_iff in Hin. destruct Hin as (j & Hj & Hsp).
  exists j. split; [|split; assumption]. apply (find_node_exact N b X j Hb HX). split; assumption.
Qed.

Theorem is_subgraph_b_spec : forall N a b, SWF N a -> SWF N b -> NoStubEdges a -> NoStubEdges b -> Rooted a ->
  (is_subgraph_b a b = true <->
   (forall X, In X (spaces a) -> In X (spaces b)) /\
   (forall e, In e (sd_edges a) -> exists e', In e' (sd_edges b) /\
        n_space (get b (e_src e')) = n_space (get a (e_src e)) /\ n_space (get b (e_dst e')) = n_space (get a (e_dst e)))).
Proof.
  intros N a b Ha Hb Hnsa Hnsb Hra.
  assert (Hlen : forall i, i < size a -> length (n_space (get a i)) = nvars N).
  { intros i Hi. apply (swf_len N a Ha). apply get_In. exact Hi. }
  unfold is_subgraph_b. rewrite andb_true_iff, forallb_forall. split.
  - intros [Hroot Hall].
    assert (Hedge : forall e, In e (sd_edges a) ->
              exists j t, find_node b (n_space (get a (e_src e))) = Some j /\
                          find_node b (n_space (get a (e_dst e))) = Some t /\
                          In t (successors b j)).
    { intros e Hin. destruct (swf_edges N a Ha e Hin) as (Hs & Hd & _).
      assert (Hseq : In (e_src e) (seq 0 (size a))) by (apply in_seq; lia).
      pose proof (Hall (e_src e) Hseq) as Hi. rewrite (Hnsa e Hin) in Hi.
      destruct (find_node b (n_space (get a (e_src e)))) as [j|]; [|discriminate Hi].
      rewrite forallb_forall in Hi.
      assert (Hsucc : In (e_dst e) (successors a (e_src e))).
      { apply In_successors. exists e. repeat split; auto. }
      pose proof (Hi (e_dst e) Hsucc) as Ht.
      destruct (find_node b (n_space (get a (e_dst e)))) as [t|]; [|discriminate Ht].
      apply andb_true_iff in Ht. destruct Ht as [_ Hex].
      apply existsb_exists in Hex. destruct Hex as (t' & Hin' & Heq).
      apply Nat.eqb_eq in Heq. subst t'. exists j, t. repeat split; auto. }
    split.
    + intros X HX. apply In_spaces_iff in HX. destruct HX as (i & Hi & Hsp). subst X.
      destruct i as [|i].
      * destruct (find_node b (n_space (get a 0))) as [j|] eqn:Ef; [|discriminate Hroot].
        apply (find_node_exact N b _ j Hb (Hlen 0 Hi)) in Ef.
        apply In_spaces_iff. exists j. exact Ef.
      * destruct (Hra (S i)) as (e & Hin & Hd); [lia|exact Hi|].
        destruct (Hedge e Hin) as (j & t & _ & Ht & _). rewrite Hd in Ht.
        apply (find_node_exact N b _ t Hb (Hlen (S i) Hi)) in Ht.
        apply In_spaces_iff. exists t. exact Ht.
    + intros e Hin. destruct (Hedge e Hin) as (j & t & Hj & Ht & Hs).
      destruct (swf_edges N a Ha e Hin) as (Hs' & Hd' & _).
      apply (find_node_exact N b _ j Hb (Hlen _ Hs')) in Hj.
      apply (find_node_exact N b _ t Hb (Hlen _ Hd')) in Ht.
      apply In_successors in Hs. destruct Hs as (e' & Hin' & Hs1 & Hd1).
      exists e'. split; [exact Hin'|]. rewrite Hs1, Hd1. split; [apply Hj|apply Ht].
  - intros [Hsp Hed].
    assert (H0 : 0 < size a) by apply (swf_size N a Ha).
    split.
    + destruct (find_node_of_In N b (n_space (get a 0)) Hb (Hlen 0 H0)) as (j & Hf & _).
      { apply Hsp. apply In_spaces_iff. exists 0. split; [exact H0|reflexivity]. }
      rewrite Hf. reflexivity.
    + intros i Hi. apply in_seq in Hi. assert (Hi' : i < size a) by lia.
      destruct (n_exp (get a i)) eqn:Ee; [|reflexivity].
      destruct (find_node_of_In N b (n_space (get a i)) Hb (Hlen i Hi')) as (j & Hf & Hj & Hspj).
      { apply Hsp. apply In_spaces_iff. exists i. split; [exact Hi'|reflexivity]. }
      rewrite Hf. apply forallb_forall. intros s Hs.
      apply In_successors in Hs. destruct Hs as (e & Hin & Hsrc & Hdst).
      destruct (Hed e Hin) as (e' & Hin' & Hs' & Hd').
      destruct (swf_edges N b Hb e' Hin') as (Hs'' & Hd'' & _).
      destruct (swf_edges N a Ha e Hin) as (_ & Hda & _).
      assert (Hj' : e_src e' = j).
      { apply (spaces_inj N b _ _ Hb Hs'' Hj). congruence. }
      assert (Hft : find_node b (n_space (get a s)) = Some (e_dst e')).
      { rewrite <- Hdst. apply (find_node_exact N b _ _ Hb (Hlen _ Hda)). split; assumption. }
      rewrite Hft. apply andb_true_iff. split.
      * rewrite <- Hj'. apply Hnsb. exact Hin'.
      * apply existsb_exists. exists (e_dst e'). split; [|apply Nat.eqb_refl].
        apply In_successors. exists e'. repeat split; auto.
Qed.

Print Assumptions reclaim_transparent.
Print Assumptions hierarchy_unique_weak.
Print Assumptions hierarchy_unique_counterexample.
Print Assumptions bfs_after_anything.
Print Assumptions is_subgraph_b_spec.
