(* PySrcEndToEnd.v -- C02 stated for the SOURCE TEXT: the object built by the generated __init__ and then expanded by the generated
   public method expand_bfs / expand_dfs (which calls the generated driver; its primitive node_successors is tied to the text of
   node_successors / _expand_one_node / _ensure_node / _ensure_edge / _update_node_depth by PySrcCoreFacts) is the hierarchy of
   percolated trap spaces, whenever the call reports completion. *)
From Coq Require Import List Bool Arith Lia.
Import ListNotations.
From BB Require Import BN Brute SpaceFacts Diagram Invariants DiagramStruct DiagramComplete
  PyLib PyLibSd PySrcSdBase PySrcSd PySrcSdFacts PyLibCore PySrcCore PySrcCoreFacts PyLibCore2 PySrcCore2 PySrcInitFacts.

Theorem py_init_then_expand_bfs_hierarchy : forall fuel N cfg pnc w d', 1 <= max_motifs cfg -> 0 < fuel ->
  py_init fuel N cfg pnc = CNext w Datatypes.tt ->
  py_api_expand_bfs fuel N cfg (p_sd w) None None None = (d', RBool true) -> Hierarchy N d'.
Proof.
  intros fuel N cfg pnc w d' Hcfg Hf Hinit Hrun.
  destruct (py_init_spec fuel N cfg pnc Hf) as (w0 & Hw0 & Hsd & _).
  rewrite Hw0 in Hinit. injection Hinit as <-. rewrite Hsd in Hrun.
  rewrite py_api_expand_bfs_spec in Hrun. eapply bfs_hierarchy; eassumption.
Qed.

Theorem py_init_then_expand_dfs_hierarchy : forall fuel N cfg pnc w d', 1 <= max_motifs cfg -> 0 < fuel ->
  py_init fuel N cfg pnc = CNext w Datatypes.tt ->
  py_api_expand_dfs fuel N cfg (p_sd w) None None None = (d', RBool true) -> Hierarchy N d'.
Proof.
  intros fuel N cfg pnc w d' Hcfg Hf Hinit Hrun.
  destruct (py_init_spec fuel N cfg pnc Hf) as (w0 & Hw0 & Hsd & _).
  rewrite Hw0 in Hinit. injection Hinit as <-. rewrite Hsd in Hrun.
  rewrite py_api_expand_dfs_spec in Hrun. eapply dfs_hierarchy; eassumption.
Qed.

Print Assumptions py_init_then_expand_bfs_hierarchy.
Print Assumptions py_init_then_expand_dfs_hierarchy.
