(* PyLibSd.v -- hand-written semantic prelude for the translation (tools/py2coq_sd.py) of the Python functions that
   DRIVE a SuccessionDiagram object (the expansion strategies in biobalm/_sd_algorithms).  Definitions only; part of
   the trusted base of the translator tie.

   Embedding
     the SuccessionDiagram `sd`     the model's diagram value, threaded through every statement (name sd_)
     sd.root()                      0
     len(sd)                        size sd_
     sd.node_data(n)["space"]       n_space (get sd_ n)            (n is a node id of the diagram)
     sd.node_data(n)["expanded"]    n_exp (get sd_ n)
     sd.node_successors(n, compute=True)
                                    Diagram.node_successors N cfg sd_ n : the new diagram, and either the successor
                                    list or the exception raised by _expand_one_node
     is_subspace / intersect / ==   SpaceFacts' subspace / intersect / eqb_space on the model's spaces (these three
                                    are tied to the Python text by PySrc.v / PySrcFacts.v)
     int / int | None               nat / option nat
     list[int], set[int]            list nat (a set is only ever extended and tested for membership)
     sorted(l)                      sort_nat l          sorted(l, reverse=True)   rev (sort_nat l)
     l.pop() / l[-1]                removelast / last   (IndexError on the empty list)
     statements                     sflow R S :  return | exception of the library | Python run-time error
                                    (TypeError, IndexError, AttributeError: no counterpart in the model) |
                                    out of fuel | continue | fall through
     while                          s_while with explicit fuel (the outer loops use the model's fuel argument, inner
                                    loops a measure given in the translator's table; a wrong measure yields SFuel,
                                    which no theorem of PySrcSdFacts.v can absorb) *)
From Coq Require Import List Bool Arith.
Import ListNotations.
From BB Require Import BN Diagram.

Inductive sflow (R S : Type) : Type :=
| SRet (d : sd) (r : R)
| SRaise (d : sd) (e : result)
| SBad (d : sd)
| SFuel (d : sd)
| SCont (d : sd) (s : S)
| SNext (d : sd) (s : S).
Arguments SRet {R S} d r.
Arguments SRaise {R S} d e.
Arguments SBad {R S} d.
Arguments SFuel {R S} d.
Arguments SCont {R S} d s.
Arguments SNext {R S} d s.

(* for x in items: body *)
Fixpoint s_for {K R S : Type} (items : list K) (body : K -> sd -> S -> sflow R S) (d : sd) (s : S) : sflow R S :=
  match items with
  | [] => SNext d s
  | x :: r => match body x d s with
              | SNext d' s' => s_for r body d' s'
              | SCont d' s' => s_for r body d' s'
              | other => other
              end
  end.

(* while cond: body      (cond = None: evaluating the condition raised a Python run-time error) *)
Fixpoint s_while {R S : Type} (fuel : nat) (cond : sd -> S -> option bool) (body : sd -> S -> sflow R S)
         (d : sd) (s : S) : sflow R S :=
  match fuel with
  | O => SFuel d
  | S f =>
      match cond d s with
      | None => SBad d
      | Some false => SNext d s
      | Some true =>
          match body d s with
          | SNext d' s' => s_while f cond body d' s'
          | SCont d' s' => s_while f cond body d' s'
          | other => other
          end
      end
  end.

(* the value of a bool-returning strategy function as a result of the model *)
Definition s_finish {S : Type} (f : sflow bool S) : sd * result :=
  match f with
  | SRet d b => (d, RBool b)
  | SRaise d e => (d, e)
  | SBad d => (d, RRaised ErrAssert)
  | SFuel d => (d, RFuel)
  | SCont d _ => (d, RUnit)
  | SNext d _ => (d, RUnit)
  end.

Definition set_add (x : nat) (s : list nat) : list nat := if mem_nat x s then s else x :: s.

Definition l_last (l : list nat) : option nat :=
  match l with [] => None | _ => Some (last l 0) end.
Definition l_pop (l : list nat) : option (nat * list nat) :=
  match l with [] => None | _ => Some (last l 0, removelast l) end.
Definition stack_pop {A : Type} (l : list A) : option (A * list A) :=
  match rev l with [] => None | x :: r => Some (x, rev r) end.
