(* ControlFacts.v -- facts about the model of control.py (Control.v):
   PART A: overriding a network and forcing the dynamics into a trap space;
   PART B: what find_drivers returns (soundness, completeness, minimality). *)
From Coq Require Import List Bool Arith Lia Relations Permutation.
Import ListNotations.
From BB Require Import BN Brute SpaceFacts TrapFacts PercolateFacts AttractorFacts Diagram Control.

(* ================================================================== *)
(* PART A -- overriding and forcing                                    *)
(* ================================================================== *)

Lemma override_length : forall N d, length (override N d) = length N.
Proof.
  induction N as [|f N IH]; intros d; [reflexivity|].
  destruct d as [|o d]; [reflexivity|]. simpl. rewrite IH. reflexivity.
Qed.

Lemma nvars_override : forall N d, nvars (override N d) = nvars N.
Proof. intros N d. unfold nvars. apply override_length. Qed.

Lemma upd_override : forall N d i s, length d = nvars N -> i < nvars N ->
  upd (override N d) i s = match nth i d None with Some b => b | None => upd N i s end.
Proof.
  unfold upd, nvars. induction N as [|f N IH]; intros d i s Hd Hi; [simpl in Hi; lia|].
  destruct d as [|o d]; [simpl in Hd; discriminate|].
  destruct i as [|i].
  - simpl. destruct o as [b|]; reflexivity.
  - simpl. apply IH; simpl in *; lia.
Qed.

(* ---------------- forced_b decides forced ---------------- *)

Lemma CF_inside_b_spec : forall (A : list state) (Sp : space),
  inside_b A Sp = true <-> forall t, In t A -> in_space t Sp = true.
Proof. intros A Sp. unfold inside_b. apply forallb_forall. Qed.

Theorem forced_b_spec : forall M from goal, length from = nvars M ->
  (forced_b M from goal = true <-> forced M from goal).
Proof.
  intros M from goal Hlen. unfold forced_b, forced. split.
  - intros Hb s A Hs Hin HA [t [HAt Hreach]] t' HAt'.
    rewrite forallb_forall in Hb.
    pose proof (Hb s (proj2 (states_of_spec from s) Hin)) as Hs1.
    rewrite forallb_forall in Hs1.
    pose proof (attractor_member_in_attractor M A t HA HAt) as Hia.
    destruct (attractors_b_complete M t Hia) as [Al [HAl HtAl]].
    destruct (attractors_b_sound M Al HAl) as [_ HattAl].
    pose proof (Hs1 Al HAl) as Hor.
    apply orb_true_iff in Hor. destruct Hor as [Hins|Hneg].
    + pose proof (attractors_disjoint_or_equal M A (fun x => In x Al) t HA HattAl HAt HtAl) as Hext.
      apply (proj1 (CF_inside_b_spec Al goal) Hins). apply Hext. exact HAt'.
    + exfalso. apply negb_true_iff in Hneg.
      assert (Hex : existsb (fun t0 => mem_state t0 Al) (reach_list M s) = true).
      { apply existsb_exists. exists t. split.
        - apply reach_list_complete; [exact Hs | exact Hreach].
        - apply mem_state_spec. exact HtAl. }
      rewrite Hex in Hneg. discriminate.
  - intros Hf. apply forallb_forall. intros s Hs.
    apply states_of_spec in Hs.
    apply forallb_forall. intros Al HAl.
    destruct (existsb (fun t => mem_state t Al) (reach_list M s)) eqn:Hex.
    + rewrite orb_false_r. apply CF_inside_b_spec. intros t' Ht'.
      apply existsb_exists in Hex. destruct Hex as [t [Htr Htm]].
      apply mem_state_spec in Htm.
      destruct (attractors_b_sound M Al HAl) as [_ HattAl].
      apply (Hf s (fun x => In x Al)).
      * rewrite <- Hlen. apply in_space_length. exact Hs.
      * exact Hs.
      * exact HattAl.
      * exists t. split; [exact Htm | apply reach_list_sound; exact Htr].
      * exact Ht'.
    + apply orb_true_r.
Qed.

(* ---------------- merge, coordinate-wise ---------------- *)

Lemma CF_nth_merge : forall (x y : space) i, length x = length y ->
  nth i (merge x y) None =
  match nth i y None with Some v => Some v | None => nth i x None end.
Proof.
  induction x as [|a x IH]; intros y i Hl.
  - destruct y; [|simpl in Hl; discriminate]. destruct i; reflexivity.
  - destruct y as [|b y]; [simpl in Hl; discriminate|].
    destruct i as [|i].
    + simpl. destruct b; reflexivity.
    + simpl. apply IH. simpl in Hl. lia.
Qed.

Definition compatible (d S : space) : Prop :=
  forall i v w, nth i d None = Some v -> nth i S None = Some w -> v = w.

(* ---------------- percolation only looks at free variables ---------------- *)

Section PercTransfer.
  Variables M N : net.
  Variable Q : space.
  Hypothesis Hnv : nvars M = nvars N.
  Hypothesis HQ : length Q = nvars N.
  Hypothesis Hagree : forall i s, i < nvars N -> nth i Q None = None -> upd M i s = upd N i s.

  Lemma CF_const_on_transfer : forall X i v, subspace X Q = true -> i < nvars N ->
    nth i X None = None -> (const_on M i X v <-> const_on N i X v).
  Proof.
    intros X i v Hsub Hi Hfree.
    pose proof (P_subspace_free X Q i Hsub Hfree) as HfQ.
    unfold const_on, wf_state. rewrite Hnv. split; intros H s Hwf Hin.
    - rewrite <- (Hagree i s Hi HfQ). apply H; assumption.
    - rewrite (Hagree i s Hi HfQ). apply H; assumption.
  Qed.

  Lemma CF_steps_transfer : forall X Y, clos_refl_trans space (perc_step M) X Y ->
    length X = nvars N -> subspace X Q = true ->
    clos_refl_trans space (perc_step N) X Y.
  Proof.
    intros X Y Hst. apply clos_rt_rt1n in Hst.
    induction Hst as [X | X X' Y Hstep Hrest IH]; intros HX Hsub.
    - apply rt_refl.
    - assert (HXM : length X = nvars M) by (rewrite Hnv; exact HX).
      pose proof (perc_step_subspace M X X' HXM Hstep) as Hsub'.
      pose proof (perc_step_length M X X' Hstep) as Hlen'.
      apply rt_trans with X'.
      + apply rt_step. destruct Hstep as [X i v Hi Hfree Hc].
        rewrite Hnv in Hi. apply perc_fix; [exact Hi | exact Hfree |].
        apply (CF_const_on_transfer X i v Hsub Hi Hfree). exact Hc.
      + apply IH; [rewrite Hlen'; exact HX | exact (subspace_trans _ _ _ Hsub' Hsub)].
  Qed.

  Lemma CF_percolate_transfer : percolate_b M Q = percolate_b N Q.
  Proof.
    assert (HQM : length Q = nvars M) by (rewrite Hnv; exact HQ).
    apply percolate_b_unique; [exact HQ|].
    destruct (percolate_b_is_percolation M Q HQM) as [Hst Hcl].
    split.
    - apply CF_steps_transfer; [exact Hst | exact HQ | apply subspace_refl].
    - intros i v Hi Hfree Hc.
      assert (Hsub : subspace (percolate_b M Q) Q = true).
      { apply (perc_steps_subspace M Q); [exact HQM | exact Hst]. }
      apply (Hcl i v); [rewrite Hnv; exact Hi | exact Hfree |].
      apply (CF_const_on_transfer _ i v Hsub Hi Hfree). exact Hc.
  Qed.
End PercTransfer.

(* ---------------- the main theorem of PART A ---------------- *)

Theorem override_forces : forall N S d m, trap_space N S -> length d = nvars N -> length m = nvars N ->
  compatible d S -> subspace (percolate_b N (merge d S)) m = true -> forced (override N d) S m.
Proof.
  intros N S d m HS Hd Hm Hcomp Hsub.
  pose proof (trap_space_length N S HS) as HlS.
  set (M := override N d).
  assert (Hnv : nvars M = nvars N) by apply nvars_override.
  assert (HlSM : length S = nvars M) by (rewrite Hnv; exact HlS).
  assert (HdS : length d = length S) by (rewrite Hd, HlS; reflexivity).
  set (Q := merge d S).
  assert (HlQ : length Q = nvars N) by (unfold Q; rewrite merge_length; assumption).
  assert (HlQM : length Q = nvars M) by (rewrite Hnv; exact HlQ).
  assert (HQS : subspace Q S = true) by (apply merge_subspace_r; exact HdS).
  (* constants of d in M *)
  assert (HconstD : forall i v (X : space), nth i d None = Some v -> const_on M i X v).
  { intros i v X Hiv s Hwf Hin. unfold M. rewrite upd_override.
    - rewrite Hiv. reflexivity.
    - exact Hd.
    - rewrite <- Hd. apply (nth_some_lt d i v Hiv). }
  (* (1) S is a trap space of M *)
  assert (HSM : trap_space M S).
  { apply trap_space_char; [exact HlSM|]. intros i v Hiv s Hwf Hin.
    assert (Hi : i < nvars N) by (rewrite <- HlS; apply (nth_some_lt S i v Hiv)).
    unfold M. rewrite upd_override by assumption.
    destruct (nth i d None) as [b|] eqn:Ed.
    - apply (Hcomp i b v Ed Hiv).
    - apply (proj1 (trap_space_char N S HlS) HS i v Hiv s); [|exact Hin].
      unfold wf_state in *. rewrite <- Hnv. exact Hwf. }
  (* (2) Q is a trap space of M *)
  assert (HQM : trap_space M Q).
  { apply trap_space_char; [exact HlQM|]. intros i v Hiv.
    unfold Q in Hiv. rewrite CF_nth_merge in Hiv by exact HdS.
    destruct (nth i S None) as [w|] eqn:ES.
    - inversion Hiv; subst w.
      apply (const_on_mono M i S Q v HQS).
      apply (proj1 (trap_space_char M S HlSM) HSM i v ES).
    - apply HconstD. exact Hiv. }
  (* agreement of M and N outside d *)
  assert (Hagree : forall i s, i < nvars N -> nth i Q None = None -> upd M i s = upd N i s).
  { intros i s Hi Hfree. unfold M. rewrite upd_override by assumption.
    unfold Q in Hfree. rewrite CF_nth_merge in Hfree by exact HdS.
    destruct (nth i S None); [discriminate|]. rewrite Hfree. reflexivity. }
  pose proof (CF_percolate_transfer M N Q Hnv HlQ Hagree) as Hperc.
  (* the forcing statement *)
  intros s A Hs Hin HA [t0 [HAt0 Hreach]] t HAt.
  (* (3) A lies inside S, then inside Q *)
  assert (HAS : forall x, A x -> in_space x S = true).
  { intros x HAx.
    destruct HSM as [_ Hclosed].
    assert (Hsx : reach M s x).
    { apply A_reach_trans with t0; [exact Hreach|].
      destruct HA as [_ [_ [_ Hmut]]]. apply Hmut; assumption. }
    pose proof (A_closed_reach M (sp_states M S) s x Hclosed) as Hc.
    apply Hc; [split; [exact Hs | exact Hin] | exact Hsx]. }
  assert (HAQ : forall x, A x -> in_space x Q = true).
  { intros x HAx.
    assert (Hwfx : length x = length Q).
    { destruct HA as [_ [Hwf _]]. rewrite HlQM. apply Hwf. exact HAx. }
    apply (in_space_nth x Q Hwfx). intros i v Hiv.
    unfold Q in Hiv. rewrite CF_nth_merge in Hiv by exact HdS.
    destruct (nth i S None) as [w|] eqn:ES.
    - inversion Hiv; subst w.
      apply (proj1 (in_space_nth x S (in_space_length x S (HAS x HAx))) (HAS x HAx) i v ES).
    - apply (const_coord_on_attractor M A S i v HA HSM HAS (HconstD i v S Hiv) x HAx). }
  (* (5) A lies in the percolation of Q, which refines m *)
  pose proof (attractor_in_percolation M A Q HA HQM HAQ t HAt) as Hin_perc.
  rewrite Hperc in Hin_perc.
  assert (Hlen_pm : length (percolate_b N Q) = length m).
  { rewrite percolate_b_length. rewrite HlQ, Hm. reflexivity. }
  apply (proj1 (subspace_spec _ m Hlen_pm) Hsub t Hin_perc).
Qed.

Corollary override_forces_code : forall N S d m, trap_space N S -> length d = nvars N -> length m = nvars N ->
  compatible d S -> forces_ldoi N d S m = true -> forced (override N d) S m.
Proof.
  intros N S d m HS Hd Hm Hcomp Hf. unfold forces_ldoi in Hf.
  apply override_forces; assumption.
Qed.

Lemma merge_conflict_irrelevant : forall d S i v, length d = length S -> nth i S None = Some v ->
  merge (set_nth i None d) S = merge d S.
Proof.
  induction d as [|a d IH]; intros S i v Hl Hi.
  - destruct i; reflexivity.
  - destruct S as [|b S]; [simpl in Hl; discriminate|].
    destruct i as [|i].
    + simpl in Hi. subst b. reflexivity.
    + simpl. f_equal. apply (IH S i v); [simpl in Hl; lia | exact Hi].
Qed.

(* ================================================================== *)
(* PART B -- what find_drivers returns                                 *)
(* ================================================================== *)

Definition dom (x : space) : list nat := vars_fixed x.

(* ---------------- order-preserving sublists ---------------- *)

Inductive sublist {A : Type} : list A -> list A -> Prop :=
| sl_nil : forall l, sublist [] l
| sl_cons : forall x s l, sublist s l -> sublist (x :: s) (x :: l)
| sl_skip : forall x s l, sublist s l -> sublist s (x :: l).

Lemma subsets_of_size_spec : forall (k : nat) (l s : list nat),
  In s (subsets_of_size k l) <-> sublist s l /\ length s = k.
Proof.
  induction k as [|k IHk]; intros l s.
  - destruct l; simpl; split.
    + intros [H|[]]. subst s. split; [apply sl_nil | reflexivity].
    + intros [_ H]. destruct s; [left; reflexivity | discriminate].
    + intros [H|[]]. subst s. split; [apply sl_nil | reflexivity].
    + intros [_ H]. destruct s; [left; reflexivity | discriminate].
  - revert s. induction l as [|x r IHr]; intros s.
    + simpl. split; [intros [] |].
      intros [Hs Hl]. inversion Hs; subst. discriminate.
    + simpl. rewrite in_app_iff, in_map_iff. split.
      * intros [[s' [Heq Hin]] | Hin].
        -- subst s. apply IHk in Hin. destruct Hin as [Hs Hl].
           split; [apply sl_cons; exact Hs | simpl; rewrite Hl; reflexivity].
        -- apply IHr in Hin. destruct Hin as [Hs Hl].
           split; [apply sl_skip; exact Hs | exact Hl].
      * intros [Hs Hl]. inversion Hs as [l0 | x0 s0 l0 Hs0 | x0 s0 l0 Hs0]; subst.
        -- discriminate.
        -- left. exists s0. split; [reflexivity|]. apply IHk.
           split; [exact Hs0 | simpl in Hl; lia].
        -- right. apply IHr. split; [exact Hs0 | exact Hl].
Qed.

Lemma CF_sublist_incl : forall (A : Type) (s l : list A), sublist s l -> incl s l.
Proof.
  intros A s l H. induction H as [l | x s l H IH | x s l H IH]; intros v Hv.
  - destruct Hv.
  - destruct Hv as [Hv|Hv]; [left; exact Hv | right; apply IH; exact Hv].
  - right. apply IH. exact Hv.
Qed.

Lemma CF_sublist_NoDup : forall (A : Type) (s l : list A), sublist s l -> NoDup l -> NoDup s.
Proof.
  intros A s l H. induction H as [l | x s l H IH | x s l H IH]; intros Hnd.
  - constructor.
  - inversion Hnd as [|y l' Hnin Hnd']; subst. constructor.
    + intros Hin. apply Hnin. apply (CF_sublist_incl A s l H). exact Hin.
    + apply IH. exact Hnd'.
  - inversion Hnd; subst. apply IH. assumption.
Qed.

Lemma CF_sublist_filter : forall (A : Type) (p : A -> bool) (l : list A), sublist (filter p l) l.
Proof.
  intros A p l. induction l as [|x l IH]; simpl.
  - apply sl_nil.
  - destruct (p x); [apply sl_cons | apply sl_skip]; exact IH.
Qed.

Lemma CF_sublist_into_filter : forall (A : Type) (q : A -> bool) (s l : list A),
  sublist s l -> (forall x, In x s -> q x = true) -> sublist s (filter q l).
Proof.
  intros A q s l H. induction H as [l | x s l H IH | x s l H IH]; intros Hq.
  - apply sl_nil.
  - simpl. rewrite (Hq x (or_introl eq_refl)). apply sl_cons. apply IH.
    intros y Hy. apply Hq. right. exact Hy.
  - simpl. destruct (q x); [apply sl_skip|]; apply IH; exact Hq.
Qed.

(* ---------------- vars_fixed, assign, valuations, subset_nat ---------------- *)

Lemma CF_vars_fixed_spec : forall (x : space) v,
  In v (vars_fixed x) <-> exists b, nth v x None = Some b.
Proof.
  intros x v. unfold vars_fixed. rewrite filter_In, in_seq. split.
  - intros [_ H]. destruct (nth v x None) as [b|]; [exists b; reflexivity | discriminate].
  - intros [b Hb]. split; [pose proof (nth_some_lt x v b Hb); lia | rewrite Hb; reflexivity].
Qed.

Lemma CF_vars_fixed_NoDup : forall x : space, NoDup (vars_fixed x).
Proof. intros x. unfold vars_fixed. apply NoDup_filter. apply seq_NoDup. Qed.

Lemma CF_assign_cons : forall n p kv,
  assign n (p :: kv) = set_nth (fst p) (Some (snd p)) (assign n kv).
Proof. reflexivity. Qed.

Lemma CF_assign_length : forall n kv, length (assign n kv) = n.
Proof.
  intros n kv. induction kv as [|p kv IH].
  - unfold assign, top_space. simpl. apply repeat_length.
  - rewrite CF_assign_cons, set_nth_length. exact IH.
Qed.

Lemma CF_nth_assign_inv : forall n kv i b,
  nth i (assign n kv) None = Some b -> In (i, b) kv /\ i < n.
Proof.
  intros n kv i b. induction kv as [|p kv IH]; intros H.
  - unfold assign in H. simpl in H. rewrite nth_top_space in H. discriminate.
  - assert (Hi : i < n).
    { rewrite <- (CF_assign_length n (p :: kv)). apply (nth_some_lt _ i b H). }
    split; [|exact Hi].
    rewrite CF_assign_cons in H. destruct (Nat.eq_dec (fst p) i) as [Heq|Hne].
    + rewrite Heq in H. rewrite nth_set_nth_eq in H by (rewrite CF_assign_length; exact Hi).
      inversion H as [Hb]. left. destruct p as [a c]. simpl in *. subst. reflexivity.
    + rewrite nth_set_nth_neq in H by exact Hne. right. apply IH. exact H.
Qed.

Lemma CF_nth_assign_notin : forall n kv i,
  ~ In i (map fst kv) -> nth i (assign n kv) None = None.
Proof.
  intros n kv i. induction kv as [|p kv IH]; intros H.
  - unfold assign. simpl. apply nth_top_space.
  - rewrite CF_assign_cons. simpl in H.
    rewrite nth_set_nth_neq by (intros Heq; apply H; left; exact Heq).
    apply IH. intros Hin. apply H. right. exact Hin.
Qed.

Lemma CF_nth_assign_in : forall n kv i b, NoDup (map fst kv) -> In (i, b) kv -> i < n ->
  nth i (assign n kv) None = Some b.
Proof.
  intros n kv i b. induction kv as [|p kv IH]; intros Hnd Hin Hi.
  - destruct Hin.
  - rewrite CF_assign_cons. simpl in Hnd. inversion Hnd as [|y l' Hnin Hnd']; subst.
    destruct Hin as [Heq|Hin].
    + subst p. simpl. apply nth_set_nth_eq. rewrite CF_assign_length. exact Hi.
    + assert (Hne : fst p <> i).
      { intros Heq. apply Hnin. rewrite Heq.
        apply (in_map fst kv (i, b)) in Hin. exact Hin. }
      rewrite nth_set_nth_neq by exact Hne. apply IH; assumption.
Qed.

Lemma CF_nth_assign_fixed : forall n kv i, In i (map fst kv) -> i < n ->
  exists b, nth i (assign n kv) None = Some b.
Proof.
  intros n kv i. induction kv as [|p kv IH]; intros Hin Hi.
  - destruct Hin.
  - rewrite CF_assign_cons. destruct (Nat.eq_dec (fst p) i) as [Heq|Hne].
    + exists (snd p). rewrite Heq. apply nth_set_nth_eq. rewrite CF_assign_length. exact Hi.
    + rewrite nth_set_nth_neq by exact Hne. apply IH; [|exact Hi].
      destruct Hin as [Heq|Hin]; [contradiction | exact Hin].
Qed.

Lemma CF_dom_assign : forall n kv v,
  In v (dom (assign n kv)) <-> In v (map fst kv) /\ v < n.
Proof.
  intros n kv v. unfold dom. rewrite CF_vars_fixed_spec. split.
  - intros [b Hb]. apply CF_nth_assign_inv in Hb. destruct Hb as [Hin Hv].
    split; [|exact Hv]. apply (in_map fst kv (v, b)) in Hin. exact Hin.
  - intros [Hin Hv]. apply CF_nth_assign_fixed; assumption.
Qed.

Definition CF_val (x : space) (v : nat) : bool :=
  match nth v x None with Some b => b | None => false end.

Lemma CF_assign_of_dom : forall (drv : space),
  assign (length drv) (map (fun v => (v, CF_val drv v)) (dom drv)) = drv.
Proof.
  intros drv. set (kv := map (fun v => (v, CF_val drv v)) (dom drv)).
  assert (Hfst : map fst kv = dom drv).
  { unfold kv. rewrite map_map. simpl. apply map_id. }
  apply (nth_ext _ _ None None); [apply CF_assign_length|].
  intros i _. destruct (nth i drv None) as [b|] eqn:E.
  - apply CF_nth_assign_in.
    + rewrite Hfst. apply CF_vars_fixed_NoDup.
    + unfold kv. apply in_map_iff. exists i. split.
      * unfold CF_val. rewrite E. reflexivity.
      * apply CF_vars_fixed_spec. exists b. exact E.
    + apply (nth_some_lt drv i b E).
  - apply CF_nth_assign_notin. rewrite Hfst. intros Hin.
    apply CF_vars_fixed_spec in Hin. destruct Hin as [b Hb]. rewrite E in Hb. discriminate.
Qed.

Lemma CF_valuations_fst : forall vs kv, In kv (valuations vs) -> map fst kv = vs.
Proof.
  induction vs as [|v r IH]; intros kv H.
  - simpl in H. destruct H as [H|[]]. subst kv. reflexivity.
  - simpl in H. rewrite app_nil_r in H. apply in_app_iff in H.
    destruct H as [H|H]; apply in_map_iff in H; destruct H as [kv' [Heq Hin]];
      subst kv; simpl; rewrite (IH kv' Hin); reflexivity.
Qed.

Lemma CF_valuations_complete : forall (f : nat -> bool) vs,
  In (map (fun v => (v, f v)) vs) (valuations vs).
Proof.
  intros f vs. induction vs as [|v r IH].
  - left. reflexivity.
  - simpl. rewrite app_nil_r. apply in_app_iff.
    destruct (f v) eqn:E; [right | left]; apply in_map_iff;
      exists (map (fun v0 => (v0, f v0)) r); (split; [reflexivity | exact IH]).
Qed.

Lemma CF_subset_nat_spec : forall a b, subset_nat a b = true <-> incl a b.
Proof.
  intros a b. unfold subset_nat. rewrite forallb_forall. split.
  - intros H x Hx. pose proof (H x Hx) as Hex. apply existsb_exists in Hex.
    destruct Hex as [y [Hy Heq]]. apply Nat.eqb_eq in Heq. subst y. exact Hy.
  - intros H x Hx. apply existsb_exists. exists x. split; [apply H; exact Hx | apply Nat.eqb_refl].
Qed.

(* ---------------- the inner loop, as a fold of a named step ---------------- *)

Definition CF_vals (all_strategy : bool) (ts_inner : space) (vs : list nat) : list (list (nat * bool)) :=
  if all_strategy then valuations vs else [map (fun v => (v, CF_val ts_inner v)) vs].

Definition CF_dstep (N : net) (all_strategy : bool) (ts_inner assume ts : space)
           (acc : list space * list (list nat)) (vs : list nat) : list space * list (list nat) :=
  let '(out, keys) := acc in
  if existsb (fun key => subset_nat key vs) keys then acc else
  let good := filter (fun kv => forces_ldoi N (assign (nvars N) kv) assume ts)
                     (CF_vals all_strategy ts_inner vs) in
  match good with
  | [] => acc
  | _ => (out ++ map (assign (nvars N)) good, keys ++ map (fun _ => vs) good)
  end.

Lemma CF_drivers_of_size_eq : forall N all_strategy ts_inner assume ts pool keys k,
  drivers_of_size N all_strategy ts_inner assume ts pool keys k =
  fold_left (CF_dstep N all_strategy ts_inner assume ts) (subsets_of_size k pool) ([], keys).
Proof. reflexivity. Qed.

Lemma CF_vals_fst : forall all_strategy ts_inner vs kv,
  In kv (CF_vals all_strategy ts_inner vs) -> map fst kv = vs.
Proof.
  intros all_strategy ts_inner vs kv H. unfold CF_vals in H. destruct all_strategy.
  - apply CF_valuations_fst. exact H.
  - destruct H as [H|[]]. subst kv. rewrite map_map. simpl. apply map_id.
Qed.

Definition sameset (a b : list nat) : Prop := forall v, In v a <-> In v b.

(* ---------------- invariants of the search ---------------- *)

Section Drivers.
  Variable N : net.
  Variable all_strategy : bool.
  Variables ts_inner assume ts : space.
  Variable pool : list nat.
  Hypothesis Hpool_lt : forall v, In v pool -> v < nvars N.
  Hypothesis Hpool_nd : NoDup pool.

  Let dstep := CF_dstep N all_strategy ts_inner assume ts.

  Definition CF_good (drv : space) : Prop :=
    exists vs kv, sublist vs pool /\ map fst kv = vs /\
      In kv (CF_vals all_strategy ts_inner vs) /\ drv = assign (nvars N) kv /\
      forces_ldoi N drv assume ts = true.

  (* k: strict bound on the size of the keys found so far *)
  Definition CF_inv (k : nat) (found : list space) (keys : list (list nat)) : Prop :=
    (forall drv, In drv found -> CF_good drv) /\
    (forall drv, In drv found -> exists key, In key keys /\ sameset key (dom drv)) /\
    (forall key, In key keys ->
       length key < k /\ NoDup key /\ exists drv, In drv found /\ sameset key (dom drv)) /\
    (forall drv key, In drv found -> In key keys -> incl key (dom drv) -> incl (dom drv) key).

  Lemma CF_inv_weaken : forall k k' found keys, k <= k' ->
    CF_inv k found keys -> CF_inv k' found keys.
  Proof.
    intros k k' found keys Hle [H1 [H2 [H3 H4]]]. repeat split; try assumption.
    - destruct (H3 key H) as [Hl _]. lia.
    - destruct (H3 key H) as [_ [Hnd _]]. exact Hnd.
    - destruct (H3 key H) as [_ [_ Hex]]. exact Hex.
  Qed.

  Lemma CF_inv_extend : forall k F K F' K' vs news,
    CF_inv (S k) F K -> length vs = k -> NoDup vs -> news <> [] ->
    (forall d, In d news -> CF_good d /\ sameset vs (dom d)) ->
    (forall key, In key K -> ~ incl key vs) ->
    (forall d, In d F' <-> In d F \/ In d news) ->
    (forall key, In key K' <-> In key K \/ key = vs) ->
    CF_inv (S k) F' K'.
  Proof.
    intros k F K F' K' vs news [H1 [H2 [H3 H4]]] Hlen Hnd Hne Hnews Hnokey HF' HK'.
    split; [|split; [|split]].
    - intros drv Hd. apply HF' in Hd. destruct Hd as [Hd|Hd].
      + apply H1. exact Hd.
      + apply (Hnews drv Hd).
    - intros drv Hd. apply HF' in Hd. destruct Hd as [Hd|Hd].
      + destruct (H2 drv Hd) as [key [Hk Hs]]. exists key. split; [|exact Hs].
        apply HK'. left. exact Hk.
      + exists vs. split; [apply HK'; right; reflexivity | apply (Hnews drv Hd)].
    - intros key Hk. apply HK' in Hk. destruct Hk as [Hk|Hk].
      + destruct (H3 key Hk) as [Hl [Hndk [drv [Hd Hs]]]].
        split; [exact Hl|]. split; [exact Hndk|]. exists drv. split; [|exact Hs].
        apply HF'. left. exact Hd.
      + subst key. split; [lia|]. split; [exact Hnd|].
        destruct news as [|d0 news0]; [contradiction Hne; reflexivity|].
        exists d0. split; [apply HF'; right; left; reflexivity|].
        apply (Hnews d0). left. reflexivity.
    - intros drv key Hd Hk Hincl. apply HF' in Hd. apply HK' in Hk.
      destruct Hd as [Hd|Hd]; destruct Hk as [Hk|Hk].
      + apply (H4 drv key Hd Hk Hincl).
      + subst key. destruct (H2 drv Hd) as [key0 [Hk0 Hs0]].
        destruct (H3 key0 Hk0) as [Hl0 [Hnd0 _]].
        assert (Hvk : incl vs key0).
        { intros v Hv. apply Hs0. apply Hincl. exact Hv. }
        assert (Hkv : incl key0 vs).
        { apply NoDup_length_incl; [exact Hnd | lia | exact Hvk]. }
        intros v Hv. apply Hkv. apply Hs0. exact Hv.
      + exfalso. apply (Hnokey key Hk). intros v Hv.
        apply (proj2 (proj2 (Hnews drv Hd) v)). apply Hincl. exact Hv.
      + subst key. intros v Hv. apply (proj2 (Hnews drv Hd) v). exact Hv.
  Qed.

  Lemma CF_subset_facts : forall k vs, In vs (subsets_of_size k pool) ->
    sublist vs pool /\ length vs = k /\ NoDup vs /\ forall v, In v vs -> v < nvars N.
  Proof.
    intros k vs H. apply subsets_of_size_spec in H. destruct H as [Hs Hl].
    split; [exact Hs|]. split; [exact Hl|]. split.
    - apply (CF_sublist_NoDup _ vs pool Hs Hpool_nd).
    - intros v Hv. apply Hpool_lt. apply (CF_sublist_incl _ vs pool Hs). exact Hv.
  Qed.

  Lemma CF_new_driver : forall vs kv, sublist vs pool -> (forall v, In v vs -> v < nvars N) ->
    In kv (CF_vals all_strategy ts_inner vs) ->
    forces_ldoi N (assign (nvars N) kv) assume ts = true ->
    CF_good (assign (nvars N) kv) /\ sameset vs (dom (assign (nvars N) kv)).
  Proof.
    intros vs kv Hs Hlt Hkv Hf.
    pose proof (CF_vals_fst all_strategy ts_inner vs kv Hkv) as Hfst.
    split.
    - exists vs, kv. repeat split; assumption.
    - intros v. rewrite CF_dom_assign, Hfst. split.
      + intros Hv. split; [exact Hv | apply Hlt; exact Hv].
      + intros [Hv _]. exact Hv.
  Qed.

  Lemma CF_dstep_inv : forall k found out keys vs,
    In vs (subsets_of_size k pool) -> CF_inv (S k) (found ++ out) keys ->
    CF_inv (S k) (found ++ fst (dstep (out, keys) vs)) (snd (dstep (out, keys) vs)).
  Proof.
    intros k found out keys vs Hvs Hinv.
    destruct (CF_subset_facts k vs Hvs) as [Hs [Hl [Hnd Hlt]]].
    unfold dstep, CF_dstep.
    destruct (existsb (fun key => subset_nat key vs) keys) eqn:Hex; [exact Hinv|].
    set (good := filter (fun kv => forces_ldoi N (assign (nvars N) kv) assume ts)
                        (CF_vals all_strategy ts_inner vs)).
    assert (Hgood : forall kv, In kv good ->
              In kv (CF_vals all_strategy ts_inner vs) /\
              forces_ldoi N (assign (nvars N) kv) assume ts = true).
    { intros kv Hkv. unfold good in Hkv. apply filter_In in Hkv. exact Hkv. }
    destruct good as [|g gs] eqn:Eg; [exact Hinv|].
    cbv beta iota. unfold fst, snd.
    apply (CF_inv_extend k (found ++ out) keys _ _ vs (map (assign (nvars N)) (g :: gs)) Hinv Hl Hnd).
    - discriminate.
    - intros d Hd. apply in_map_iff in Hd. destruct Hd as [kv [Heq Hkv]]. subst d.
      destruct (Hgood kv Hkv) as [Hv Hf]. apply CF_new_driver; assumption.
    - intros key Hk Hincl.
      assert (Htrue : existsb (fun key0 => subset_nat key0 vs) keys = true).
      { apply existsb_exists. exists key. split; [exact Hk | apply CF_subset_nat_spec; exact Hincl]. }
      rewrite Htrue in Hex. discriminate.
    - intros d. rewrite app_assoc. apply in_app_iff.
    - intros key. rewrite in_app_iff. split.
      + intros [H|H]; [left; exact H | right].
        apply in_map_iff in H. destruct H as [x [Hx _]]. symmetry. exact Hx.
      + intros [H|H]; [left; exact H | right].
        subst key. apply in_map_iff. exists g. split; [reflexivity | left; reflexivity].
  Qed.

  Lemma CF_dstep_mono : forall out keys vs d,
    In d out -> In d (fst (dstep (out, keys) vs)).
  Proof.
    intros out keys vs d Hd. unfold dstep, CF_dstep.
    destruct (existsb (fun key => subset_nat key vs) keys); [exact Hd|].
    destruct (filter (fun kv => forces_ldoi N (assign (nvars N) kv) assume ts)
                     (CF_vals all_strategy ts_inner vs)); [exact Hd|].
    unfold fst. apply in_app_iff. left. exact Hd.
  Qed.

  Lemma CF_dstep_complete : forall k found out keys vs kv,
    CF_inv (S k) (found ++ out) keys ->
    In kv (CF_vals all_strategy ts_inner vs) ->
    forces_ldoi N (assign (nvars N) kv) assume ts = true ->
    exists drv', In drv' (found ++ fst (dstep (out, keys) vs)) /\ incl (dom drv') vs.
  Proof.
    intros k found out keys vs kv [_ [_ [H3 _]]] Hkv Hf.
    unfold dstep, CF_dstep.
    destruct (existsb (fun key => subset_nat key vs) keys) eqn:Hex.
    - apply existsb_exists in Hex. destruct Hex as [key [Hk Hsub]].
      apply CF_subset_nat_spec in Hsub.
      destruct (H3 key Hk) as [_ [_ [drv [Hd Hs]]]].
      exists drv. split; [exact Hd|].
      intros v Hv. apply Hsub. apply Hs. exact Hv.
    - set (good := filter (fun kv0 => forces_ldoi N (assign (nvars N) kv0) assume ts)
                          (CF_vals all_strategy ts_inner vs)).
      assert (Hin : In kv good).
      { unfold good. apply filter_In. split; assumption. }
      destruct good as [|g gs] eqn:Eg; [destruct Hin|].
      exists (assign (nvars N) kv). split.
      + unfold fst. apply in_app_iff. right. apply in_app_iff. right.
        apply in_map. exact Hin.
      + intros v Hv. apply CF_dom_assign in Hv. destruct Hv as [Hv _].
        rewrite (CF_vals_fst all_strategy ts_inner vs kv Hkv) in Hv. exact Hv.
  Qed.

  (* ---- folding the step over one size class ---- *)

  Lemma CF_fold_inv : forall k l found out keys,
    (forall vs, In vs l -> In vs (subsets_of_size k pool)) ->
    CF_inv (S k) (found ++ out) keys ->
    CF_inv (S k) (found ++ fst (fold_left dstep l (out, keys))) (snd (fold_left dstep l (out, keys))).
  Proof.
    intros k l. induction l as [|a l IH]; intros found out keys Hl Hinv.
    - exact Hinv.
    - change (fold_left dstep (a :: l) (out, keys)) with (fold_left dstep l (dstep (out, keys) a)).
      pose proof (CF_dstep_inv k found out keys a (Hl a (or_introl eq_refl)) Hinv) as Hstep.
      destruct (dstep (out, keys) a) as [out' keys'] eqn:E. simpl in Hstep.
      apply IH; [|exact Hstep]. intros vs Hvs. apply Hl. right. exact Hvs.
  Qed.

  Lemma CF_fold_mono : forall l out keys d,
    In d out -> In d (fst (fold_left dstep l (out, keys))).
  Proof.
    induction l as [|a l IH]; intros out keys d Hd.
    - exact Hd.
    - change (fold_left dstep (a :: l) (out, keys)) with (fold_left dstep l (dstep (out, keys) a)).
      pose proof (CF_dstep_mono out keys a d Hd) as Hstep.
      destruct (dstep (out, keys) a) as [out' keys'] eqn:E. simpl in Hstep.
      apply IH. exact Hstep.
  Qed.

  Lemma CF_fold_complete : forall k l found out keys vs kv,
    (forall vs0, In vs0 l -> In vs0 (subsets_of_size k pool)) ->
    CF_inv (S k) (found ++ out) keys -> In vs l ->
    In kv (CF_vals all_strategy ts_inner vs) ->
    forces_ldoi N (assign (nvars N) kv) assume ts = true ->
    exists drv', In drv' (found ++ fst (fold_left dstep l (out, keys))) /\ incl (dom drv') vs.
  Proof.
    intros k l. induction l as [|a l IH]; intros found out keys vs kv Hl Hinv Hvs Hkv Hf.
    - destruct Hvs.
    - change (fold_left dstep (a :: l) (out, keys)) with (fold_left dstep l (dstep (out, keys) a)).
      pose proof (CF_dstep_inv k found out keys a (Hl a (or_introl eq_refl)) Hinv) as Hstep.
      destruct Hvs as [Heq|Hvs].
      + subst a. destruct (CF_dstep_complete k found out keys vs kv Hinv Hkv Hf) as [drv' [Hd Hincl]].
        destruct (dstep (out, keys) vs) as [out' keys'] eqn:E. simpl in Hd.
        exists drv'. split; [|exact Hincl].
        apply in_app_iff in Hd. apply in_app_iff. destruct Hd as [Hd|Hd]; [left; exact Hd | right].
        apply CF_fold_mono. exact Hd.
      + destruct (dstep (out, keys) a) as [out' keys'] eqn:E. simpl in Hstep.
        apply (IH found out' keys' vs kv); try assumption.
        intros vs0 Hvs0. apply Hl. right. exact Hvs0.
  Qed.

  (* ---- the outer loop over the size classes a, a+1, ..., a+len-1 ---- *)

  Let upto := drivers_upto N all_strategy ts_inner assume ts pool.

  Lemma CF_upto_mono : forall sizes found keys d, In d found -> In d (upto sizes found keys).
  Proof.
    induction sizes as [|k r IH]; intros found keys d Hd.
    - exact Hd.
    - unfold upto. simpl. rewrite CF_drivers_of_size_eq.
      destruct (fold_left (CF_dstep N all_strategy ts_inner assume ts) (subsets_of_size k pool) ([], keys))
        as [out keys'] eqn:E.
      apply IH. apply in_app_iff. left. exact Hd.
  Qed.

  Lemma CF_class_inv : forall a found keys,
    CF_inv a found keys ->
    CF_inv (S a)
      (found ++ fst (fold_left dstep (subsets_of_size a pool) ([], keys)))
      (snd (fold_left dstep (subsets_of_size a pool) ([], keys))).
  Proof.
    intros a found keys Hinv. apply CF_fold_inv; [intros vs Hvs; exact Hvs|].
    rewrite app_nil_r. apply (CF_inv_weaken a (S a)); [lia | exact Hinv].
  Qed.

  Lemma CF_upto_inv : forall len a found keys, CF_inv a found keys ->
    exists keys', CF_inv (a + len) (upto (seq a len) found keys) keys'.
  Proof.
    induction len as [|len IH]; intros a found keys Hinv.
    - exists keys. rewrite Nat.add_0_r. exact Hinv.
    - unfold upto. simpl. rewrite CF_drivers_of_size_eq.
      pose proof (CF_class_inv a found keys Hinv) as Hc. unfold dstep in Hc.
      destruct (fold_left (CF_dstep N all_strategy ts_inner assume ts) (subsets_of_size a pool) ([], keys))
        as [out keys'] eqn:E. simpl in Hc.
      destruct (IH (S a) (found ++ out) keys' Hc) as [keys'' Hfin].
      exists keys''. replace (a + S len) with (S a + len) by lia. exact Hfin.
  Qed.

  Lemma CF_upto_complete : forall len a found keys vs kv, CF_inv a found keys ->
    a <= length vs < a + len -> sublist vs pool ->
    In kv (CF_vals all_strategy ts_inner vs) ->
    forces_ldoi N (assign (nvars N) kv) assume ts = true ->
    exists drv', In drv' (upto (seq a len) found keys) /\ incl (dom drv') vs.
  Proof.
    induction len as [|len IH]; intros a found keys vs kv Hinv Hrange Hs Hkv Hf; [lia|].
    unfold upto. simpl. rewrite CF_drivers_of_size_eq.
    pose proof (CF_class_inv a found keys Hinv) as Hc. unfold dstep in Hc.
    destruct (Nat.eq_dec (length vs) a) as [Heq|Hne].
    - assert (Hvs : In vs (subsets_of_size a pool)).
      { apply subsets_of_size_spec. split; assumption. }
      assert (Hinv' : CF_inv (S a) (found ++ []) keys).
      { rewrite app_nil_r. apply (CF_inv_weaken a (S a)); [lia | exact Hinv]. }
      destruct (CF_fold_complete a (subsets_of_size a pool) found [] keys vs kv
                  (fun vs0 H => H) Hinv' Hvs Hkv Hf) as [drv' [Hd Hincl]].
      unfold dstep in Hd.
      destruct (fold_left (CF_dstep N all_strategy ts_inner assume ts) (subsets_of_size a pool) ([], keys))
        as [out keys'] eqn:E. simpl in Hd.
      exists drv'. split; [|exact Hincl]. apply CF_upto_mono. exact Hd.
    - destruct (fold_left (CF_dstep N all_strategy ts_inner assume ts) (subsets_of_size a pool) ([], keys))
        as [out keys'] eqn:E. simpl in Hc.
      apply (IH (S a) (found ++ out) keys' vs kv Hc); try assumption. lia.
  Qed.

  Lemma CF_inv_nil : CF_inv 0 [] [].
  Proof.
    repeat split; intros; try contradiction.
  Qed.
End Drivers.

(* ---------------- find_drivers ---------------- *)

Definition CF_pool (N : net) (ts : space) (all_strategy : bool) (assume : space)
           (forbidden : list nat) : list nat :=
  filter (fun v => negb (existsb (Nat.eqb v) forbidden))
         (if all_strategy then seq 0 (nvars N) else vars_fixed (free_of ts assume)).

Definition CF_bound (ts assume : space) (maxd : option nat) : nat :=
  match maxd with Some k => k | None => length (vars_fixed (free_of ts assume)) end.

Lemma CF_find_drivers_eq : forall N ts all_strategy assume maxd forbidden,
  find_drivers N ts all_strategy assume maxd forbidden =
  drivers_upto N all_strategy (free_of ts assume) assume ts
    (CF_pool N ts all_strategy assume forbidden) (seq 0 (S (CF_bound ts assume maxd))) [] [].
Proof. reflexivity. Qed.

Lemma CF_free_of_length : forall ts assume n, length ts = n -> length assume = n ->
  length (free_of ts assume) = n.
Proof.
  intros ts assume n Hts Has. unfold free_of. rewrite map_length, combine_length. lia.
Qed.

Lemma CF_not_forbidden : forall v forbidden,
  negb (existsb (Nat.eqb v) forbidden) = true <-> ~ In v forbidden.
Proof.
  intros v forbidden. rewrite negb_true_iff. split.
  - intros H Hin. assert (Ht : existsb (Nat.eqb v) forbidden = true).
    { apply existsb_exists. exists v. split; [exact Hin | apply Nat.eqb_refl]. }
    rewrite Ht in H. discriminate.
  - intros H. destruct (existsb (Nat.eqb v) forbidden) eqn:E; [|reflexivity].
    exfalso. apply H. apply existsb_exists in E. destruct E as [y [Hy Heq]].
    apply Nat.eqb_eq in Heq. subst y. exact Hy.
Qed.

Lemma CF_pool_lt : forall N ts all_strategy assume forbidden,
  length ts = nvars N -> length assume = nvars N ->
  forall v, In v (CF_pool N ts all_strategy assume forbidden) -> v < nvars N.
Proof.
  intros N ts all_strategy assume forbidden Hts Has v Hv.
  unfold CF_pool in Hv. apply filter_In in Hv. destruct Hv as [Hv _].
  destruct all_strategy.
  - apply in_seq in Hv. lia.
  - apply CF_vars_fixed_spec in Hv. destruct Hv as [b Hb].
    rewrite <- (CF_free_of_length ts assume (nvars N) Hts Has).
    apply (nth_some_lt _ v b Hb).
Qed.

Lemma CF_pool_NoDup : forall N ts all_strategy assume forbidden,
  NoDup (CF_pool N ts all_strategy assume forbidden).
Proof.
  intros N ts all_strategy assume forbidden. unfold CF_pool. apply NoDup_filter.
  destruct all_strategy; [apply seq_NoDup | apply CF_vars_fixed_NoDup].
Qed.

Lemma CF_find_drivers_inv : forall N ts all_strategy assume maxd forbidden,
  length ts = nvars N -> length assume = nvars N ->
  exists keys, CF_inv N all_strategy (free_of ts assume) assume ts
                 (CF_pool N ts all_strategy assume forbidden)
                 (S (CF_bound ts assume maxd))
                 (find_drivers N ts all_strategy assume maxd forbidden) keys.
Proof.
  intros N ts all_strategy assume maxd forbidden Hts Has. rewrite CF_find_drivers_eq.
  apply (CF_upto_inv N all_strategy (free_of ts assume) assume ts
           (CF_pool N ts all_strategy assume forbidden)
           (CF_pool_lt N ts all_strategy assume forbidden Hts Has)
           (CF_pool_NoDup N ts all_strategy assume forbidden)
           (S (CF_bound ts assume maxd)) 0 [] []).
  apply CF_inv_nil.
Qed.

Theorem find_drivers_sound : forall N ts all_strategy assume maxd forbidden drv,
  length ts = nvars N -> length assume = nvars N ->
  In drv (find_drivers N ts all_strategy assume maxd forbidden) ->
  length drv = nvars N /\ forces_ldoi N drv assume ts = true /\
  (forall v, In v (dom drv) -> ~ In v forbidden) /\
  length (dom drv) <= match maxd with Some k => k | None => length (vars_fixed (free_of ts assume)) end /\
  (all_strategy = false -> forall v b, nth v drv None = Some b -> nth v (free_of ts assume) None = Some b).
Proof.
  intros N ts all_strategy assume maxd forbidden drv Hts Has Hin.
  destruct (CF_find_drivers_inv N ts all_strategy assume maxd forbidden Hts Has)
    as [keys [H1 [H2 [H3 _]]]].
  destruct (H1 drv Hin) as [vs [kv [Hs [Hfst [Hkv [Hdrv Hf]]]]]].
  assert (Hdomvs : forall v, In v (dom drv) -> In v vs).
  { intros v Hv. rewrite Hdrv in Hv. apply CF_dom_assign in Hv. rewrite Hfst in Hv. apply Hv. }
  assert (Hvspool : forall v, In v vs -> In v (CF_pool N ts all_strategy assume forbidden)).
  { intros v Hv. apply (CF_sublist_incl _ vs _ Hs). exact Hv. }
  split; [rewrite Hdrv; apply CF_assign_length|].
  split; [exact Hf|]. split; [|split].
  - intros v Hv. pose proof (Hvspool v (Hdomvs v Hv)) as Hp.
    unfold CF_pool in Hp. apply filter_In in Hp. destruct Hp as [_ Hp].
    apply CF_not_forbidden. exact Hp.
  - destruct (H2 drv Hin) as [key [Hk Hsame]].
    destruct (H3 key Hk) as [Hlen _].
    assert (Hle : length (dom drv) <= length key).
    { apply NoDup_incl_length; [apply CF_vars_fixed_NoDup|].
      intros v Hv. apply Hsame. exact Hv. }
    fold (CF_bound ts assume maxd). lia.
  - intros Hall v b Hnth. subst all_strategy.
    rewrite Hdrv in Hnth. apply CF_nth_assign_inv in Hnth. destruct Hnth as [Hinkv _].
    unfold CF_vals in Hkv. destruct Hkv as [Hkv|[]]. subst kv.
    apply in_map_iff in Hinkv. destruct Hinkv as [v' [Heq Hv']].
    inversion Heq as [[Hv Hb]]. subst v'.
    pose proof (Hvspool v Hv') as Hp. unfold CF_pool in Hp.
    apply filter_In in Hp. destruct Hp as [Hp _].
    apply CF_vars_fixed_spec in Hp. destruct Hp as [b0 Hb0].
    unfold CF_val. rewrite Hb0. reflexivity.
Qed.

Theorem find_drivers_complete : forall N ts all_strategy assume maxd forbidden drv,
  length ts = nvars N -> length assume = nvars N -> length drv = nvars N ->
  forces_ldoi N drv assume ts = true ->
  (forall v, In v (dom drv) -> ~ In v forbidden /\ v < nvars N) ->
  length (dom drv) <= match maxd with Some k => k | None => length (vars_fixed (free_of ts assume)) end ->
  (all_strategy = false -> forall v b, nth v drv None = Some b -> nth v (free_of ts assume) None = Some b) ->
  exists drv', In drv' (find_drivers N ts all_strategy assume maxd forbidden) /\
               forall v, In v (dom drv') -> In v (dom drv).
Proof.
  intros N ts all_strategy assume maxd forbidden drv Hts Has Hdrv Hf Hadm Hsize Hagree.
  set (vs := dom drv). set (kv := map (fun v => (v, CF_val drv v)) vs).
  assert (Hassign : assign (nvars N) kv = drv).
  { unfold kv, vs. rewrite <- Hdrv. apply CF_assign_of_dom. }
  assert (Hinner : length (free_of ts assume) = nvars N) by (apply CF_free_of_length; assumption).
  (* vs is a sublist of the pool *)
  assert (Hsub : sublist vs (CF_pool N ts all_strategy assume forbidden)).
  { unfold CF_pool. apply CF_sublist_into_filter.
    - destruct all_strategy.
      + unfold vs, dom, vars_fixed. rewrite Hdrv. apply CF_sublist_filter.
      + unfold vars_fixed at 1. rewrite Hinner. apply CF_sublist_into_filter.
        * unfold vs, dom, vars_fixed. rewrite Hdrv. apply CF_sublist_filter.
        * intros v Hv. unfold vs, dom in Hv. apply CF_vars_fixed_spec in Hv.
          destruct Hv as [b Hb]. rewrite (Hagree eq_refl v b Hb). reflexivity.
    - intros v Hv. apply CF_not_forbidden. apply (Hadm v Hv). }
  (* kv is one of the valuations tried *)
  assert (Hkv : In kv (CF_vals all_strategy (free_of ts assume) vs)).
  { unfold CF_vals. destruct all_strategy.
    - unfold kv. apply CF_valuations_complete.
    - left. unfold kv. apply map_ext_in. intros v Hv.
      unfold vs, dom in Hv. apply CF_vars_fixed_spec in Hv. destruct Hv as [b Hb].
      unfold CF_val. rewrite Hb, (Hagree eq_refl v b Hb). reflexivity. }
  rewrite CF_find_drivers_eq.
  destruct (CF_upto_complete N all_strategy (free_of ts assume) assume ts
              (CF_pool N ts all_strategy assume forbidden)
              (CF_pool_lt N ts all_strategy assume forbidden Hts Has)
              (CF_pool_NoDup N ts all_strategy assume forbidden)
              (S (CF_bound ts assume maxd)) 0 [] [] vs kv
              (CF_inv_nil N all_strategy (free_of ts assume) assume ts
                 (CF_pool N ts all_strategy assume forbidden)))
    as [drv' [Hin Hincl]].
  - fold (CF_bound ts assume maxd) in Hsize. unfold vs. lia.
  - exact Hsub.
  - exact Hkv.
  - rewrite Hassign. exact Hf.
  - exists drv'. split; [exact Hin|]. intros v Hv. apply Hincl. exact Hv.
Qed.

Theorem find_drivers_minimal : forall N ts all_strategy assume maxd forbidden drv drv',
  length ts = nvars N -> length assume = nvars N ->
  In drv (find_drivers N ts all_strategy assume maxd forbidden) ->
  In drv' (find_drivers N ts all_strategy assume maxd forbidden) ->
  (forall v, In v (dom drv') -> In v (dom drv)) -> (forall v, In v (dom drv) -> In v (dom drv')).
Proof.
  intros N ts all_strategy assume maxd forbidden drv drv' Hts Has Hin Hin' Hsub.
  destruct (CF_find_drivers_inv N ts all_strategy assume maxd forbidden Hts Has)
    as [keys [_ [H2 [_ H4]]]].
  destruct (H2 drv' Hin') as [key' [Hk' Hsame']].
  assert (Hincl : incl key' (dom drv)).
  { intros v Hv. apply Hsub. apply Hsame'. exact Hv. }
  intros v Hv. apply Hsame'. apply (H4 drv key' Hin Hk' Hincl). exact Hv.
Qed.

(* ---------------- linking PART B to PART A ---------------- *)

(* a reported driver never touches a variable already fixed by `assume`: dropping it would
   give a smaller forcing assignment, contradicting minimality *)
Corollary find_drivers_avoid_assume : forall N ts all_strategy assume maxd forbidden drv,
  length ts = nvars N -> length assume = nvars N ->
  In drv (find_drivers N ts all_strategy assume maxd forbidden) ->
  forall v b, nth v assume None = Some b -> nth v drv None = None.
Proof.
  intros N ts all_strategy assume maxd forbidden drv Hts Has Hin v b Hv.
  destruct (nth v drv None) as [c|] eqn:Ec; [exfalso | reflexivity].
  destruct (find_drivers_sound N ts all_strategy assume maxd forbidden drv Hts Has Hin)
    as [Hlen [Hf [Hforb [Hsize Hagree]]]].
  assert (Hvn : v < length drv).
  { rewrite Hlen, <- Has. apply (nth_some_lt assume v b Hv). }
  set (drv2 := set_nth v None drv).
  assert (Hnth2 : forall w c0, nth w drv2 None = Some c0 -> w <> v /\ nth w drv None = Some c0).
  { intros w c0 Hw. unfold drv2 in Hw. destruct (Nat.eq_dec v w) as [Heq|Hne].
    - subst w. rewrite nth_set_nth_eq in Hw by exact Hvn. discriminate.
    - rewrite nth_set_nth_neq in Hw by exact Hne. split; [intros H; apply Hne; symmetry; exact H | exact Hw]. }
  assert (Hdom2 : forall w, In w (dom drv2) -> In w (dom drv)).
  { intros w Hw. unfold dom in *. apply CF_vars_fixed_spec in Hw. destruct Hw as [c0 Hc0].
    apply CF_vars_fixed_spec. exists c0. apply (Hnth2 w c0 Hc0). }
  destruct (find_drivers_complete N ts all_strategy assume maxd forbidden drv2 Hts Has)
    as [drv' [Hin' Hsub']].
  - unfold drv2. rewrite set_nth_length. exact Hlen.
  - unfold forces_ldoi, drv2. rewrite (merge_conflict_irrelevant drv assume v b); [exact Hf | | exact Hv].
    rewrite Hlen, Has. reflexivity.
  - intros w Hw. split; [apply Hforb; apply Hdom2; exact Hw|].
    rewrite <- Hlen. unfold dom in Hw. apply Hdom2 in Hw. unfold dom in Hw.
    apply CF_vars_fixed_spec in Hw. destruct Hw as [c0 Hc0]. apply (nth_some_lt drv w c0 Hc0).
  - apply Nat.le_trans with (length (dom drv)); [|exact Hsize].
    apply NoDup_incl_length; [apply CF_vars_fixed_NoDup | exact Hdom2].
  - intros Hall w c0 Hw. apply (Hagree Hall w c0). apply (Hnth2 w c0 Hw).
  - assert (Hvd : In v (dom drv)).
    { unfold dom. apply CF_vars_fixed_spec. exists c. exact Ec. }
    assert (Hsub : forall w, In w (dom drv') -> In w (dom drv)).
    { intros w Hw. apply Hdom2. apply Hsub'. exact Hw. }
    pose proof (find_drivers_minimal N ts all_strategy assume maxd forbidden drv drv'
                  Hts Has Hin Hin' Hsub v Hvd) as Hvd'.
    apply Hsub' in Hvd'. unfold dom in Hvd'. apply CF_vars_fixed_spec in Hvd'.
    destruct Hvd' as [c0 Hc0]. destruct (Hnth2 v c0 Hc0) as [Hne _]. apply Hne. reflexivity.
Qed.

(* end to end: every reported driver set, applied as an override, forces every attractor
   reachable from the trap space `assume` into the target trap space ts *)
Theorem find_drivers_force : forall N ts all_strategy assume maxd forbidden drv,
  trap_space N assume -> length ts = nvars N ->
  In drv (find_drivers N ts all_strategy assume maxd forbidden) ->
  forced (override N drv) assume ts.
Proof.
  intros N ts all_strategy assume maxd forbidden drv Htrap Hts Hin.
  pose proof (trap_space_length N assume Htrap) as Has.
  destruct (find_drivers_sound N ts all_strategy assume maxd forbidden drv Hts Has Hin)
    as [Hlen [Hf _]].
  apply override_forces_code; try assumption.
  intros i v w Hd Hs.
  rewrite (find_drivers_avoid_assume N ts all_strategy assume maxd forbidden drv Hts Has Hin i w Hs) in Hd.
  discriminate.
Qed.

Print Assumptions override_forces.
Print Assumptions forced_b_spec.
Print Assumptions find_drivers_sound.
Print Assumptions find_drivers_complete.
Print Assumptions find_drivers_minimal.
Print Assumptions find_drivers_force.
