(* DiagramSem1.v -- semantic invariants of the succession-diagram model:
   1. TrapNodes   every node space is a trap space,
   2. EdgeStrict  edges lead to strictly smaller spaces,
   3. NoStubEdges unexpanded nodes have no out-edges,
   4. Rooted      every non-root node has an incoming edge,
   5. what expand_one establishes (canonical),
   6. Faithful    expanded ordinary nodes carry exactly their maximal trap spaces,
   7. all of them along runs.
   Transfer principles provided here:
   - prim_closed_trap / step_transfer_trap: like DiagramStruct.prim_closed, but the
     ensure_node / ensure_edge clauses may assume that the motif is a trap space;
   - Section OpTransfer (B_step_op, B_step): for invariants that only hold at the
     granularity of whole calls of expand_one / make_skip_node / skip_to_minimal /
     skip_remaining (not of primitives);
   - Section Compound (C_ensure_all, C_ensure_min_children, C_skip_edges) and Section
     SkipRemaining: the inner loops that work on one fixed parent node. *)
From Coq Require Import List Bool Arith NArith Lia Permutation.
Import ListNotations.
From BB Require Import BN Brute SpaceFacts TrapFacts PercolateFacts Diagram Invariants DiagramStruct.

Local Arguments percolate_b : simpl never.
Local Arguments expand_one : simpl never.
Local Arguments node_successors : simpl never.
Local Arguments ensure_node : simpl never.
Local Arguments ensure_edge : simpl never.
Local Arguments raise_depth : simpl never.
Local Arguments max_traps_b : simpl never.
Local Arguments min_traps_b : simpl never.
Local Arguments make_skip_node : simpl never.
Local Arguments upd_node : simpl never.
Local Arguments ensure_min_children : simpl never.

(* ================================================================== *)
(* 0. helpers                                                          *)
(* ================================================================== *)

Lemma TrapNodes_spaces : forall N d,
  TrapNodes N d <-> (forall X, In X (spaces d) -> trap_space N X).
Proof.
  intros N d. unfold TrapNodes, spaces. split.
  - intros H X Hin. apply in_map_iff in Hin. destruct Hin as [x [Heq Hin]]. subst X.
    apply H. exact Hin.
  - intros H x Hin. apply H. apply in_map. exact Hin.
Qed.

Lemma TrapNodes_get : forall N d i, TrapNodes N d -> i < size d -> trap_space N (n_space (get d i)).
Proof. intros N d i H Hi. apply H. apply get_In. exact Hi. Qed.

Lemma min_trap_trap : forall N m, min_trap N m -> trap_space N m.
Proof. intros N m H. exact (proj1 H). Qed.

Lemma min_trap_length : forall N m, min_trap N m -> length m = nvars N.
Proof. intros N m H. apply trap_space_length. exact (proj1 H). Qed.

(* a minimal trap space is its own percolation *)
Lemma min_trap_percolate : forall N m, min_trap N m -> percolate_b N m = m.
Proof.
  intros N m [Ht Hmin]. destruct (percolate_b_trap N m Ht) as [Ht' Hsub].
  apply Hmin; assumption.
Qed.

Lemma percolate_b_sub : forall N m, length m = nvars N -> subspace (percolate_b N m) m = true.
Proof.
  intros N m Hm. apply (perc_steps_subspace N m _ Hm). apply percolate_b_steps. exact Hm.
Qed.

(* the tape of a skip operation consists of minimal trap spaces inside S *)
Lemma tape_min_traps : forall N S tape,
  length S = nvars N -> negb (perm_of tape (min_traps_b N S)) = false ->
  forall m, In m tape -> min_trap N m /\ subspace m S = true.
Proof.
  intros N S tape HS Hp m Hin. apply negb_false_iff in Hp.
  apply (min_traps_b_spec N S m HS). eapply perm_of_In; eauto.
Qed.

Lemma max_traps_b_trap : forall N S srcs M, length S = nvars N ->
  In M (max_traps_b N S srcs) -> trap_space N M /\ strict_subspace M S.
Proof.
  intros N S srcs M HS Hin. apply (max_traps_b_spec_srcs N S srcs M HS) in Hin.
  destruct Hin as (H1 & H2 & _). split; assumption.
Qed.

(* ================================================================== *)
(* 1. the refined transfer principle: motifs are trap spaces           *)
(* ================================================================== *)

(* (node id, trap space) pairs used by skip_remaining, now with the trap property *)
Definition traps_ok_t (N : net) (d : sd) (traps : list (nat * space)) : Prop :=
  traps_ok N d traps /\ forall c m, In (c, m) traps -> trap_space N m.

Section TransferTrap.
  Variable N : net.
  Variable Q : sd -> Prop.
  Hypothesis Q_swf : forall d, Q d -> SWF N d.
  Hypothesis Q_child : forall d p motif, Q d -> length motif = nvars N -> trap_space N motif ->
    p < size d -> Q (fst (ensure_node N d (Some p) motif)).
  Hypothesis Q_root : forall d motif, Q d -> length motif = nvars N -> trap_space N motif ->
    Q (fst (ensure_node N d None motif)).
  Hypothesis Q_upd : forall d i f, Q d -> i < size d -> flag_setter f -> Q (upd_node d i f).
  Hypothesis Q_edge : forall d p c m, Q d -> p < size d -> c < size d -> length m = nvars N ->
    trap_space N m -> percolate_b N m = n_space (get d c) -> Q (ensure_edge d p c m).

  Lemma TT_upd : forall d i f, Q d -> flag_setter f -> Q (upd_node d i f).
  Proof.
    intros d i f Hq Hf. destruct (lt_dec i (size d)) as [Hlt|Hge].
    - apply Q_upd; assumption.
    - rewrite upd_node_beyond by lia. exact Hq.
  Qed.

  Lemma TT_mark : forall d i, Q d -> Q (mark_expanded d i).
  Proof. intros d i Hq. unfold mark_expanded. apply TT_upd; [exact Hq|constructor]. Qed.

  Lemma TT_space_len : forall d i, Q d -> i < size d -> length (n_space (get d i)) = nvars N.
  Proof.
    intros d i Hq Hi. apply (swf_len N d (Q_swf d Hq)). apply get_In. exact Hi.
  Qed.

  Lemma TT_ensure_all : forall subs d p,
    Q d -> p < size d -> (forall m, In m subs -> trap_space N m) ->
    Q (ensure_all N d p subs).
  Proof.
    induction subs as [|m r IH]; intros d p Hq Hp Htr; simpl; [exact Hq|].
    assert (Hm : trap_space N m) by (apply Htr; left; reflexivity).
    apply IH.
    - apply Q_child; [exact Hq|apply trap_space_length; exact Hm|exact Hm|exact Hp].
    - eapply extends_lt; [apply ensure_node_extends|exact Hp].
    - intros m0 Hin. apply Htr. right. exact Hin.
  Qed.

  Lemma TT_expand_one : forall cfg d i, Q d -> Q (fst (expand_one N cfg d i)).
  Proof.
    intros cfg d i Hq. unfold expand_one.
    destruct (n_exp (get d i)); [exact Hq|].
    destruct (is_full (n_space (get d i))) eqn:Ef; simpl.
    - apply TT_upd; [|constructor]. apply TT_upd; [exact Hq|constructor].
    - assert (Hi : i < size d).
      { destruct (lt_dec i (size d)) as [Hlt|Hge]; [exact Hlt|].
        rewrite get_beyond in Ef by lia. simpl in Ef. discriminate. }
      destruct (Nat.eqb (solver_len _ _) _); simpl.
      + apply TT_upd; [exact Hq|constructor].
      + apply TT_upd; [|constructor]. apply TT_ensure_all.
        * apply TT_upd; [exact Hq|constructor].
        * rewrite size_upd_node. exact Hi.
        * intros m Hin. apply In_firstn_in in Hin. apply sort_by_key_In in Hin.
          apply max_traps_b_trap in Hin; [apply Hin|]. apply TT_space_len; assumption.
  Qed.

  Lemma TT_ensure_min_children : forall mins d p,
    Q d -> p < size d -> (forall m, In m mins -> trap_space N m) ->
    Q (ensure_min_children N d p mins).
  Proof.
    induction mins as [|m r IH]; intros d p Hq Hp Htr; simpl; [exact Hq|].
    assert (Hm : trap_space N m) by (apply Htr; left; reflexivity).
    assert (Hq1 : Q (fst (ensure_node N d (Some p) m))).
    { apply Q_child; [exact Hq|apply trap_space_length; exact Hm|exact Hm|exact Hp]. }
    pose proof (ensure_node_extends N d (Some p) m) as He.
    unfold ensure_min_children; fold ensure_min_children.
    destruct (ensure_node N d (Some p) m) as [d1 c]. simpl in Hq1, He.
    apply IH.
    - apply TT_mark. exact Hq1.
    - rewrite size_mark_expanded. eapply extends_lt; [exact He|exact Hp].
    - intros m0 Hin. apply Htr. right. exact Hin.
  Qed.

  Lemma TT_make_skip_node : forall d i all_min,
    Q d -> i < size d -> (forall m, In m all_min -> trap_space N m) ->
    Q (make_skip_node N d i all_min).
  Proof.
    intros d i all_min Hq Hi Htr. unfold make_skip_node.
    destruct (n_exp (get d i)); [exact Hq|].
    apply TT_upd; [|constructor]. apply TT_mark. apply TT_ensure_min_children.
    - apply TT_upd; [exact Hq|constructor].
    - rewrite size_upd_node. exact Hi.
    - intros m Hin. apply filter_In in Hin. apply Htr. apply Hin.
  Qed.

  Lemma TT_skip_edges : forall traps d i,
    Q d -> i < size d -> traps_ok_t N d traps -> Q (skip_edges d i traps).
  Proof.
    induction traps as [|[mid m] r IH]; intros d i Hq Hi [Ht Htr]; simpl; [exact Hq|].
    assert (Hr : traps_ok N d r) by (intros c0 m0 Hin; apply Ht; right; exact Hin).
    assert (Hrt : forall c0 m0, In (c0, m0) r -> trap_space N m0)
      by (intros c0 m0 Hin; apply (Htr c0); right; exact Hin).
    destruct (subspace m (n_space (get d i))); [|apply IH; [assumption|assumption|split; assumption]].
    destruct (Ht mid m (or_introl eq_refl)) as (Hmid & Hm & Hp).
    apply IH.
    - apply Q_edge; try assumption. apply (Htr mid). left. reflexivity.
    - rewrite size_ensure_edge. exact Hi.
    - split; [|exact Hrt]. eapply traps_ok_extends; [apply ensure_edge_extends|exact Hr].
  Qed.

  Lemma TT_ensure_roots : forall mins d acc,
    Q d -> (forall m, In m mins -> trap_space N m) -> traps_ok_t N d acc ->
    Q (fst (ensure_roots N d mins acc)) /\
    traps_ok_t N (fst (ensure_roots N d mins acc)) (snd (ensure_roots N d mins acc)).
  Proof.
    induction mins as [|m r IH]; intros d acc Hq Htr [Ht Hta]; simpl.
    - split; [exact Hq|]. split.
      + intros c m Hin. apply Ht. apply in_rev. exact Hin.
      + intros c m Hin. apply (Hta c). apply in_rev. exact Hin.
    - assert (Hmt : trap_space N m) by (apply Htr; left; reflexivity).
      assert (Hm : length m = nvars N) by (apply trap_space_length; exact Hmt).
      assert (Hq1 : Q (fst (ensure_node N d None m))) by (apply Q_root; assumption).
      pose proof (ensure_node_extends N d None m) as He.
      pose proof (ensure_node_spec N d None m) as Hspec.
      destruct (ensure_node N d None m) as [d1 c]. simpl in Hq1, He.
      destruct (Hspec d1 c (Q_swf d Hq) Hm eq_refl) as (Hc & Hsp & _).
      apply IH.
      + apply TT_mark. exact Hq1.
      + intros m0 Hin. apply Htr. right. exact Hin.
      + split.
        * intros c0 m0 [Heq|Hin].
          -- injection Heq as Hcc Hmm. subst c0 m0. rewrite size_mark_expanded.
             split; [exact Hc|]. split; [exact Hm|]. rewrite n_space_mark_expanded.
             symmetry. exact Hsp.
          -- eapply traps_ok_extends; [|exact Ht|exact Hin].
             eapply extends_trans; [exact He|apply mark_expanded_extends].
        * intros c0 m0 [Heq|Hin].
          -- injection Heq as Hcc Hmm. subst c0 m0. exact Hmt.
          -- apply (Hta c0). exact Hin.
  Qed.

  Lemma TT_skip_all : forall traps ids d count,
    Q d -> traps_ok_t N d traps -> (forall i, In i ids -> i < size d) ->
    Q (fst (skip_all d ids traps count)).
  Proof.
    intro traps. induction ids as [|i r IH]; intros d count Hq [Ht Htr] Hv; simpl; [exact Hq|].
    assert (Hr : forall j, In j r -> j < size d) by (intros j Hin; apply Hv; right; exact Hin).
    assert (Hi : i < size d) by (apply Hv; left; reflexivity).
    destruct (n_exp (get d i)); [apply IH; [assumption|split; assumption|assumption]|].
    assert (He : extends d (upd_node (mark_expanded
                   (skip_edges (upd_node d i clear_attr) i traps) i) i
                   (fun y => set_skip y true))).
    { apply extends_trans with (d2 := upd_node d i clear_attr);
        [apply upd_flag_extends; constructor|].
      eapply extends_trans; [apply skip_edges_extends|].
      eapply extends_trans; [apply mark_expanded_extends|].
      apply upd_flag_extends. constructor. }
    apply IH.
    - apply TT_upd; [|constructor]. apply TT_mark. apply TT_skip_edges.
      + apply TT_upd; [exact Hq|constructor].
      + rewrite size_upd_node. exact Hi.
      + split; [|exact Htr].
        eapply traps_ok_extends; [|exact Ht]. apply upd_flag_extends. constructor.
    - split; [|exact Htr]. eapply traps_ok_extends; [exact He|exact Ht].
    - intros j Hin. eapply extends_lt; [exact He|apply Hr; exact Hin].
  Qed.

  Lemma TT_skip_remaining : forall d tape, Q d -> Q (fst (skip_remaining N d tape)).
  Proof.
    intros d tape Hq. unfold skip_remaining.
    destruct (negb (perm_of tape (min_traps_b N (n_space (get d 0))))) eqn:Ep; [exact Hq|].
    assert (Htr : forall m, In m tape -> trap_space N m).
    { intros m Hin. apply min_trap_trap.
      eapply (tape_min_traps N (n_space (get d 0)) tape); [|exact Ep|exact Hin].
      apply TT_space_len; [exact Hq|]. apply (swf_size N d (Q_swf d Hq)). }
    assert (Hnil : traps_ok_t N d []) by (split; [intros c m []|intros c m []]).
    destruct (TT_ensure_roots tape d [] Hq Htr Hnil) as [Hq1 Ht1].
    destruct (ensure_roots N d tape []) as [d1 traps]. simpl in Hq1, Ht1.
    assert (Hv : forall i, In i (seq 0 (size d1)) -> i < size d1).
    { intros i Hin. apply in_seq in Hin. lia. }
    pose proof (TT_skip_all traps (seq 0 (size d1)) d1 0 Hq1 Ht1 Hv) as Hq2.
    destruct (skip_all d1 (seq 0 (size d1)) traps 0) as [d2 k]. exact Hq2.
  Qed.

  Lemma TT_skip_to_minimal : forall d i tape,
    Q d -> i < size d -> Q (fst (skip_to_minimal_t N d i tape)).
  Proof.
    intros d i tape Hq Hi. unfold skip_to_minimal_t.
    destruct (n_exp (get d i)); [exact Hq|].
    destruct (negb (perm_of tape (min_traps_b N (n_space (get d i))))) eqn:Ep; [exact Hq|].
    assert (Htr : forall m, In m tape -> trap_space N m).
    { intros m Hin. apply min_trap_trap.
      eapply (tape_min_traps N (n_space (get d i)) tape); [|exact Ep|exact Hin].
      apply TT_space_len; assumption. }
    assert (Hc : Q (upd_node d i clear_attr)) by (apply TT_upd; [exact Hq|constructor]).
    assert (Hcommon : Q (upd_node (mark_expanded
               (ensure_min_children N (upd_node d i clear_attr) i tape) i) i
               (fun y => set_skip y true))).
    { apply TT_upd; [|constructor]. apply TT_mark. apply TT_ensure_min_children.
      - exact Hc.
      - rewrite size_upd_node. exact Hi.
      - exact Htr. }
    destruct tape as [|m [|m2 r]]; simpl; try exact Hcommon.
    destruct (eqb_space m (n_space (get d i))); simpl; [|exact Hcommon].
    apply TT_mark. exact Hc.
  Qed.
End TransferTrap.

(* ================================================================== *)
(* 2. operation-level transfer: from expand_one / make_skip_node /     *)
(*    cache updates to the loops and to step                           *)
(* ================================================================== *)

(* the setters used by the attractor-cache queries *)
Inductive cache_setter : (node -> node) -> Prop :=
| cs_cands : forall c, cache_setter (fun y => set_cands y c)
| cs_seeds : forall c, cache_setter (fun y => set_seeds y c)
| cs_sets : forall c, cache_setter (fun y => set_sets y c).

Lemma cache_setter_flag : forall f, cache_setter f -> flag_setter f.
Proof. intros f Hf. destruct Hf; constructor. Qed.

Lemma cache_setter_exp : forall f x, cache_setter f -> n_exp (f x) = n_exp x.
Proof. intros f x Hf. destruct Hf; reflexivity. Qed.

Lemma cache_setter_skip : forall f x, cache_setter f -> n_skip (f x) = n_skip x.
Proof. intros f x Hf. destruct Hf; reflexivity. Qed.

Lemma expand_one_beyond : forall N cfg d i, size d <= i -> expand_one N cfg d i = (d, RUnit).
Proof.
  intros N cfg d i Hle. unfold expand_one. rewrite get_beyond by exact Hle. simpl.
  rewrite !upd_node_beyond; [reflexivity|exact Hle|].
  rewrite upd_node_beyond by exact Hle. exact Hle.
Qed.

Lemma has_edge_extends : forall d d' x s,
  extends d d' -> has_edge d x s = true -> has_edge d' x s = true.
Proof.
  intros d d' x s (_ & _ & _ & _ & He) H. apply has_edge_true in H.
  destruct H as (e & Hin & Hs & Hd). destruct (He e Hin) as (e' & Hin' & Hs' & Hd' & _).
  apply has_edge_true. exists e'. split; [exact Hin'|]. split; congruence.
Qed.

Lemma successors_has_edge : forall d x s, In s (successors d x) -> has_edge d x s = true.
Proof.
  intros d x s Hin. unfold successors, successors_of in Hin.
  apply in_map_iff in Hin. destruct Hin as [e [Heq Hin]].
  apply filter_In in Hin. destruct Hin as [Hin Hs]. apply Nat.eqb_eq in Hs.
  apply has_edge_true. exists e. auto.
Qed.

Lemma has_edge_valid : forall N d x s, SWF N d -> has_edge d x s = true -> x < size d /\ s < size d.
Proof.
  intros N d x s Hswf H. apply has_edge_true in H. destruct H as (e & Hin & Hs & Hd).
  destruct (swf_edges N d Hswf e Hin) as (H1 & H2 & _). subst. auto.
Qed.

(* every minimal trap of the tape is still to be found, or it is an expanded node *)
Definition rem_inv (all_min : list space) (d : sd) (remaining : list space) : Prop :=
  forall m, In m all_min ->
    In m remaining \/ exists j, j < size d /\ n_space (get d j) = m /\ n_exp (get d j) = true.

(* the explicit stack of expand_minimal_spaces: valid ids, pending successors are successors *)
Definition stack_inv (d : sd) (stack : list (nat * option (list nat))) : Prop :=
  forall x o, In (x, o) stack ->
    x < size d /\ forall l s, o = Some l -> In s l -> has_edge d x s = true.

Lemma rem_inv_extends : forall all_min d d' remaining,
  extends d d' -> rem_inv all_min d remaining -> rem_inv all_min d' remaining.
Proof.
  intros all_min d d' remaining He Hr m Hin. destruct (Hr m Hin) as [H|(j & Hj & Hsp & Hex)].
  - left. exact H.
  - right. exists j. split; [eapply extends_lt; eauto|]. split.
    + rewrite (extends_space d d' j He Hj). exact Hsp.
    + destruct He as (_ & _ & H3 & _). apply H3; assumption.
Qed.

Lemma stack_inv_extends : forall d d' stack,
  extends d d' -> stack_inv d stack -> stack_inv d' stack.
Proof.
  intros d d' stack He Hst x o Hin. destruct (Hst x o Hin) as [Hx Hl].
  split; [eapply extends_lt; eauto|].
  intros l s Ho Hs. eapply has_edge_extends; [exact He|]. eapply Hl; eauto.
Qed.

Lemma remove_space_keeps : forall a l r m,
  remove_space a l = Some r -> In m l -> m <> a -> In m r.
Proof.
  intros a l. induction l as [|y l IH]; intros r m Hr Hin Hne; simpl in Hr; [discriminate|].
  destruct (eqb_space a y) eqn:E.
  - injection Hr as Hr. subst r. apply eqb_space_spec in E. subst y.
    destruct Hin as [Heq|Hin]; [congruence|exact Hin].
  - destruct (remove_space a l) as [r'|] eqn:Er; [|discriminate].
    injection Hr as Hr. subst r. destruct Hin as [Heq|Hin].
    + left. exact Heq.
    + right. apply (IH r' m eq_refl Hin Hne).
Qed.

Section OpTransfer.
  Variable N : net.
  Variable cfg : config.
  Variable Q : sd -> Prop.
  Hypothesis Q_swf : forall d, Q d -> SWF N d.
  Hypothesis Q_expand : forall d i, Q d -> Q (fst (expand_one N cfg d i)).
  Hypothesis Q_cache : forall d i f, Q d -> i < size d -> cache_setter f -> Q (upd_node d i f).

  Lemma B_node_successors : forall d i, Q d -> Q (fst (fst (node_successors N cfg d i))).
  Proof. intros d i Hq. rewrite node_successors_fst. apply Q_expand. exact Hq. Qed.

  (* ---------- bfs ---------- *)
  Lemma B_bfs_level : forall sl cur d seen next,
    Q d -> Q (fst (fst (fst (bfs_level N cfg sl d seen next cur)))).
  Proof.
    intros sl cur. induction cur as [|x cur IH]; intros d seen next Hq; simpl; [exact Hq|].
    destruct (over_limit sl d && negb (n_exp (get d x))); [simpl; exact Hq|].
    pose proof (B_node_successors d x Hq) as Hq1.
    destruct (node_successors N cfg d x) as [[d1 r] succ]. simpl in Hq1.
    destruct r; simpl; try exact Hq1. apply IH. exact Hq1.
  Qed.

  Lemma B_bfs_loop : forall ll sl fuel d seen cur level,
    Q d -> Q (fst (bfs_loop fuel N cfg ll sl d seen cur level)).
  Proof.
    intros ll sl fuel. induction fuel as [|f IH]; intros d seen cur level Hq; simpl;
      [exact Hq|].
    pose proof (B_bfs_level sl cur d seen [] Hq) as Hq1.
    destruct (bfs_level N cfg sl d seen [] cur) as [[[d1 r] seen1] next]. simpl in Hq1.
    destruct cur as [|x cur]; [exact Hq|].
    destruct r; simpl; try exact Hq1.
    destruct (match ll with Some l => Nat.leb l level | None => false end); simpl;
      [exact Hq1|apply IH; exact Hq1].
  Qed.

  (* ---------- dfs ---------- *)
  Lemma B_dfs_loop : forall kl sl fuel d seen stack complete,
    Q d -> Q (fst (dfs_loop fuel N cfg kl sl d seen stack complete)).
  Proof.
    intros kl sl fuel. induction fuel as [|f IH]; intros d seen stack complete Hq; simpl;
      [exact Hq|].
    destruct stack as [|[x osucc] stack']; [exact Hq|].
    destruct osucc as [l|]; simpl.
    - destruct (drop_seen seen l) as [|s rest]; [apply IH; exact Hq|].
      destruct (match kl with Some l0 => Nat.leb l0 (length stack') | None => false end);
        apply IH; exact Hq.
    - destruct (over_limit sl d && negb (n_exp (get d x))); [simpl; exact Hq|].
      pose proof (B_node_successors d x Hq) as Hq1.
      destruct (node_successors N cfg d x) as [[d1 r] succ]. simpl in Hq1.
      destruct r; simpl; try exact Hq1.
      destruct (drop_seen seen (sort_nat succ)) as [|s rest]; [apply IH; exact Hq1|].
      destruct (match kl with Some l0 => Nat.leb l0 (length stack') | None => false end);
        apply IH; exact Hq1.
  Qed.

  (* ---------- target ---------- *)
  Lemma B_target_level : forall target sl cur d seen next,
    Q d -> Q (fst (fst (fst (target_level N cfg target sl d seen next cur)))).
  Proof.
    intros target sl cur. induction cur as [|x cur IH]; intros d seen next Hq; simpl;
      [exact Hq|].
    destruct (intersect (n_space (get d x)) target); [|apply IH; exact Hq].
    destruct (subspace (n_space (get d x)) target && negb (eqb_space (n_space (get d x)) target));
      [apply IH; exact Hq|].
    destruct (over_limit sl d && negb (n_exp (get d x))); [simpl; exact Hq|].
    pose proof (B_node_successors d x Hq) as Hq1.
    destruct (node_successors N cfg d x) as [[d1 r] succ]. simpl in Hq1.
    destruct r; simpl; try exact Hq1. apply IH. exact Hq1.
  Qed.

  Lemma B_target_loop : forall target sl fuel d seen cur,
    Q d -> Q (fst (target_loop fuel N cfg target sl d seen cur)).
  Proof.
    intros target sl fuel. induction fuel as [|f IH]; intros d seen cur Hq; simpl;
      [exact Hq|].
    pose proof (B_target_level target sl cur d seen [] Hq) as Hq1.
    destruct (target_level N cfg target sl d seen [] cur) as [[[d1 r] seen1] next]. simpl in Hq1.
    destruct cur as [|x cur]; [exact Hq|].
    destruct r; simpl; try exact Hq1. apply IH. exact Hq1.
  Qed.

  (* ---------- minimal spaces ---------- *)
  (* what is known when expand_minimal_spaces turns the successor s of x into a skip node:
     no minimal trap inside the space of x is left to be found *)
  Definition msn_closed (skip : bool) (all_min : list space) : Prop :=
    skip = true ->
    forall d x s remaining, Q d -> x < size d -> has_edge d x s = true ->
      rem_inv all_min d remaining ->
      (forall m, In m remaining -> subspace m (n_space (get d x)) = false) ->
      Q (make_skip_node N d s all_min).

  Lemma B_min_inner : forall all_min remaining skip seen x,
    msn_closed skip all_min ->
    forall succ d ns, Q d -> x < size d -> ns = n_space (get d x) ->
      rem_inv all_min d remaining -> (forall s, In s succ -> has_edge d x s = true) ->
      Q (fst (min_inner N d seen remaining all_min ns skip succ)).
  Proof.
    intros all_min remaining skip seen x Hmsn.
    induction succ as [|s r IH]; intros d ns Hq Hx Hns Hrem Hv; simpl; [exact Hq|].
    assert (Hr : forall s0, In s0 r -> has_edge d x s0 = true)
      by (intros s0 Hin; apply Hv; right; exact Hin).
    destruct (mem_nat s seen); [apply IH; assumption|].
    destruct (negb (existsb (fun m => subspace m ns) remaining)) eqn:Eex; [|exact Hq].
    destruct skip eqn:Esk; [|apply IH; assumption].
    pose proof (make_skip_node_extends N d s all_min) as He.
    apply IH.
    - apply (Hmsn eq_refl d x s remaining); try assumption.
      + apply Hv. left. reflexivity.
      + intros m Hin. apply negb_true_iff in Eex.
        destruct (subspace m (n_space (get d x))) eqn:Es; [|reflexivity].
        assert (Hex : existsb (fun m0 => subspace m0 ns) remaining = true).
        { apply existsb_exists. exists m. split; [exact Hin|]. rewrite Hns. exact Es. }
        congruence.
    - eapply extends_lt; [exact He|exact Hx].
    - rewrite (extends_space d _ x He Hx). exact Hns.
    - eapply rem_inv_extends; [exact He|exact Hrem].
    - intros s0 Hin. eapply has_edge_extends; [exact He|apply Hr; exact Hin].
  Qed.

  Lemma B_min_loop : forall sl skip all_min,
    msn_closed skip all_min ->
    forall fuel d seen remaining stack,
    Q d -> stack_inv d stack -> rem_inv all_min d remaining ->
    Q (fst (min_loop fuel N cfg sl skip all_min d seen remaining stack)).
  Proof.
    intros sl skip all_min Hmsn fuel.
    induction fuel as [|f IH]; intros d seen remaining stack Hq Hst Hrem; simpl; [exact Hq|].
    destruct stack as [|[x osucc] stack'].
    { destruct (Nat.eqb (length remaining) 0); exact Hq. }
    assert (Hst' : stack_inv d stack').
    { intros x0 o0 Hin. apply Hst. right. exact Hin. }
    destruct (Hst x osucc (or_introl eq_refl)) as [Hx Hxl].
    assert (Htail : forall d1 succ, Q d1 -> extends d d1 ->
              (forall s, In s succ -> has_edge d1 x s = true) ->
              Q (fst (let '(d2, succ2) :=
                        min_inner N d1 seen remaining all_min (n_space (get d1 x)) skip succ in
                      match succ2 with
                      | [] =>
                          if is_minimal d2 x
                          then match remove_space (n_space (get d2 x)) remaining with
                               | Some rem' => min_loop f N cfg sl skip all_min d2 seen rem' stack'
                               | None => (d2, RRaised ErrAssert)
                               end
                          else min_loop f N cfg sl skip all_min d2 seen remaining stack'
                      | s :: rest =>
                          min_loop f N cfg sl skip all_min d2 (s :: seen) remaining
                                   ((s, None) :: (x, Some rest) :: stack')
                      end))).
    { intros d1 succ Hq1 He1 Hv1.
      assert (Hx1 : x < size d1) by (eapply extends_lt; eauto).
      assert (Hrem1 : rem_inv all_min d1 remaining) by (eapply rem_inv_extends; eauto).
      pose proof (B_min_inner all_min remaining skip seen x Hmsn succ d1 (n_space (get d1 x))
                    Hq1 Hx1 eq_refl Hrem1 Hv1) as Hq2.
      pose proof (min_inner_extends N all_min remaining (n_space (get d1 x)) skip seen succ d1)
        as He2.
      pose proof (min_inner_incl N all_min remaining (n_space (get d1 x)) skip seen succ d1)
        as Hi2.
      destruct (min_inner N d1 seen remaining all_min (n_space (get d1 x)) skip succ)
        as [d2 succ2].
      simpl in Hq2, He2, Hi2.
      assert (He02 : extends d d2) by (eapply extends_trans; eassumption).
      assert (Hst2 : stack_inv d2 stack') by (eapply stack_inv_extends; eassumption).
      assert (Hrem2 : rem_inv all_min d2 remaining) by (eapply rem_inv_extends; eassumption).
      assert (Hx2 : x < size d2) by (eapply extends_lt; eauto).
      destruct succ2 as [|s rest].
      - destruct (is_minimal d2 x) eqn:Emin; [|apply IH; assumption].
        destruct (remove_space (n_space (get d2 x)) remaining) as [rem'|] eqn:Erem;
          [|exact Hq2].
        apply IH; [exact Hq2|exact Hst2|].
        intros m Hin. destruct (Hrem2 m Hin) as [Hm|Hw]; [|right; exact Hw].
        destruct (eqb_space m (n_space (get d2 x))) eqn:Eeq.
        + right. apply eqb_space_spec in Eeq. exists x. split; [exact Hx2|]. split; [auto|].
          unfold is_minimal in Emin. apply andb_true_iff in Emin. apply Emin.
        + left. eapply remove_space_keeps; [exact Erem|exact Hm|].
          intro Heq. subst m.
          assert (Ht : eqb_space (n_space (get d2 x)) (n_space (get d2 x)) = true)
            by (apply eqb_space_spec; reflexivity).
          congruence.
      - apply IH; [exact Hq2| |exact Hrem2].
        assert (Hs2 : forall s0, In s0 (s :: rest) -> has_edge d2 x s0 = true).
        { intros s0 Hin. eapply has_edge_extends; [exact He2|]. apply Hv1. apply Hi2. exact Hin. }
        intros x0 o0 [Heq|[Heq|Hin]].
        + injection Heq as Hxx Hoo. subst x0 o0. split.
          * apply (has_edge_valid N d2 x s (Q_swf d2 Hq2)). apply Hs2. left. reflexivity.
          * intros l s0 Hl. discriminate Hl.
        + injection Heq as Hxx Hoo. subst x0 o0. split; [exact Hx2|].
          intros l s0 Hl Hs0. injection Hl as Hl. subst l. apply Hs2. right. exact Hs0.
        + apply Hst2. exact Hin. }
    destruct osucc as [l|]; simpl.
    - apply Htail; [exact Hq|apply extends_refl|].
      intros s Hs. eapply Hxl; [reflexivity|exact Hs].
    - destruct (over_limit sl d && negb (n_exp (get d x))); [simpl; exact Hq|].
      pose proof (B_node_successors d x Hq) as Hq1.
      pose proof (node_successors_extends N cfg d x) as He1.
      pose proof (node_successors_succ N cfg d x) as Hs1.
      destruct (node_successors N cfg d x) as [[d1 r] succ]. simpl in Hq1, He1, Hs1.
      destruct r; simpl; try exact Hq1.
      apply Htail; [exact Hq1|exact He1|].
      intros s Hs. apply sort_nat_In in Hs. apply successors_has_edge. apply Hs1. exact Hs.
  Qed.

  Lemma B_valid_start : forall d start, Q d -> valid_start d start = true ->
    match start with Some s => s | None => 0 end < size d.
  Proof.
    intros d [s|] Hq Hv; simpl in *.
    - apply Nat.ltb_lt. exact Hv.
    - apply (swf_size N d (Q_swf d Hq)).
  Qed.

  Lemma B_expand_min : forall fuel d start sl skip tape,
    (forall S, length S = nvars N -> negb (perm_of tape (min_traps_b N S)) = false ->
       msn_closed skip tape) ->
    Q d -> valid_start d start = true ->
    Q (fst (expand_min fuel N cfg d start sl skip tape)).
  Proof.
    intros fuel d start sl skip tape Hmsn Hq Hv. unfold expand_min.
    pose proof (B_valid_start d start Hq Hv) as Hs.
    destruct (negb (perm_of tape (min_traps_b N _))) eqn:Ep; [exact Hq|].
    apply B_min_loop.
    - eapply Hmsn; [|exact Ep]. apply (swf_len N d (Q_swf d Hq)). apply get_In. exact Hs.
    - exact Hq.
    - intros x o [Heq|[]]. injection Heq as Hx Ho. subst x o. split; [exact Hs|].
      intros l s0 Hl. discriminate Hl.
    - intros m Hin. left. exact Hin.
  Qed.

  (* ---------- attractor cache queries ---------- *)
  Lemma B_cache : forall d i f, Q d -> cache_setter f -> Q (upd_node d i f).
  Proof.
    intros d i f Hq Hf. destruct (lt_dec i (size d)) as [Hlt|Hge].
    - apply Q_cache; assumption.
    - rewrite upd_node_beyond by lia. exact Hq.
  Qed.

  Lemma B_q_cands : forall d i o, Q d -> Q (fst (q_cands d i o)).
  Proof.
    intros d i o Hq. unfold q_cands.
    destruct (n_cands (get d i)); [exact Hq|].
    destruct (n_seeds (get d i)); [exact Hq|].
    destruct o as [|k b]; [exact Hq|].
    destruct (_ || _); simpl; repeat (apply B_cache; [|constructor]); exact Hq.
  Qed.

  Lemma B_q_seeds : forall d i fallback oc os, Q d -> Q (fst (q_seeds d i fallback oc os)).
  Proof.
    intros d i fallback oc os Hq. unfold q_seeds.
    destruct (n_seeds (get d i)); [exact Hq|].
    pose proof (B_q_cands d i oc Hq) as Hq1.
    destruct (q_cands d i oc) as [d1 r]. simpl in Hq1.
    destruct r;
      try (destruct (n_seeds (get d1 i)); [exact Hq1|];
           destruct os as [|k0 [|]]; simpl; repeat (apply B_cache; [|constructor]); exact Hq1).
    destruct fallback; simpl; [|exact Hq1].
    repeat (apply B_cache; [|constructor]). exact Hq1.
  Qed.

  Lemma B_q_sets : forall d i oc os, Q d -> Q (fst (q_sets d i oc os)).
  Proof.
    intros d i oc os Hq. unfold q_sets.
    destruct (n_sets (get d i)); [exact Hq|].
    pose proof (B_q_seeds d i false oc os Hq) as Hq1.
    destruct (q_seeds d i false oc os) as [d1 r]. simpl in Hq1.
    destruct r; simpl; try exact Hq1; (apply B_cache; [exact Hq1|constructor]).
  Qed.

  Hypothesis Q_reclaim : forall d, Q d -> Q (reclaim d).

  (* ---------- every operation, the skip operations being given as a whole ---------- *)
  Definition skip_ops_closed : Prop :=
    (forall tape S, length S = nvars N -> negb (perm_of tape (min_traps_b N S)) = false ->
       msn_closed true tape) /\
    (forall d i tape, Q d -> i < size d -> Q (fst (skip_to_minimal_t N d i tape))) /\
    (forall d tape, Q d -> Q (fst (skip_remaining N d tape))).

  (* what has to be known about the operation o itself *)
  Definition op_ok (o : op) : Prop :=
    match o with
    | OMin _ _ true tape =>
        forall S, length S = nvars N -> negb (perm_of tape (min_traps_b N S)) = false ->
          msn_closed true tape
    | OSkipToMin i tape =>
        forall d, Q d -> i < size d -> Q (fst (skip_to_minimal_t N d i tape))
    | OSkipRemaining tape => forall d, Q d -> Q (fst (skip_remaining N d tape))
    | _ => True
    end.

  Theorem B_step_op : forall fuel d o, op_ok o -> Q d -> Q (fst (step fuel N cfg d o)).
  Proof.
    intros fuel d o Hok Hq. destruct o; unfold step.
    - destruct (Nat.ltb i (size d)); [|exact Hq].
      pose proof (B_node_successors d i Hq) as Hq1.
      destruct (node_successors N cfg d i) as [[d1 r] succ]. exact Hq1.
    - destruct (valid_start d start); [|exact Hq]. unfold expand_bfs. apply B_bfs_loop. exact Hq.
    - destruct (valid_start d start); [|exact Hq]. unfold expand_dfs. apply B_dfs_loop. exact Hq.
    - destruct (valid_start d start) eqn:Ev; [|exact Hq]. apply B_expand_min; try assumption.
      intros S HS Hp. destruct skip; [eapply Hok; eauto|intro Hf; discriminate Hf].
    - unfold expand_to_target. apply B_target_loop. exact Hq.
    - destruct (Nat.ltb i (size d)) eqn:Ei; [|exact Hq].
      apply Hok; [exact Hq|apply Nat.ltb_lt; exact Ei].
    - apply Hok. exact Hq.
    - simpl. apply Q_reclaim. exact Hq.
    - exact Hq.
    - destruct (Nat.ltb i (size d)); [|exact Hq]. apply B_q_cands. exact Hq.
    - destruct (Nat.ltb i (size d)); [|exact Hq]. apply B_q_seeds. exact Hq.
    - destruct (Nat.ltb i (size d)); [|exact Hq]. apply B_q_sets. exact Hq.
  Qed.

  Lemma op_ok_plain : forall o, plain o -> op_ok o.
  Proof.
    intros o Hpl. destruct o; simpl in *; try exact I; try contradiction.
    subst skip. exact I.
  Qed.

  Lemma op_ok_closed : forall o, skip_ops_closed -> op_ok o.
  Proof.
    intros o (H1 & H2 & H3). destruct o; simpl; try exact I.
    - destruct skip; [|exact I]. intros S HS Hp. eapply H1; eauto.
    - intros d Hq Hi. apply H2; assumption.
    - intros d Hq. apply H3. exact Hq.
  Qed.

  Theorem B_step : forall fuel d o, (plain o \/ skip_ops_closed) ->
    Q d -> Q (fst (step fuel N cfg d o)).
  Proof.
    intros fuel d o [Hpl|Hcl] Hq; apply B_step_op; try assumption.
    - apply op_ok_plain. exact Hpl.
    - apply op_ok_closed. exact Hcl.
  Qed.
End OpTransfer.

(* ================================================================== *)
(* 3. prim_closed_trap and step_transfer_trap                          *)
(* ================================================================== *)

(* P is preserved by the four primitives; compared with DiagramStruct.prim_closed
   the ensure_node and ensure_edge clauses may assume that the motif is a trap space
   (every motif the operations ever pass is a maximal or a minimal trap space) *)
Definition prim_closed_trap (N : net) (P : sd -> Prop) : Prop :=
  (forall d parent motif, SWF N d -> P d -> length motif = nvars N -> trap_space N motif ->
     (forall p, parent = Some p -> p < size d) ->
     P (fst (ensure_node N d parent motif))) /\
  (forall d i f, SWF N d -> P d -> i < size d -> flag_setter f -> P (upd_node d i f)) /\
  (forall d p c m, SWF N d -> P d -> p < size d -> c < size d -> length m = nvars N ->
     trap_space N m -> percolate_b N m = n_space (get d c) -> P (ensure_edge d p c m)) /\
  (forall d, SWF N d -> P d -> P (reclaim d)).

Lemma prim_closed_is_trap : forall N P, prim_closed N P -> prim_closed_trap N P.
Proof.
  intros N P (A1 & A2 & A3 & A4). unfold prim_closed_trap. split; [|split; [|split]].
  - intros d parent motif Hswf HP Hm _ Hp. apply A1; assumption.
  - exact A2.
  - intros d p c m Hswf HP Hp Hc Hm _ Hpm. apply A3; assumption.
  - exact A4.
Qed.

Lemma prim_closed_trap_and : forall N P1 P2,
  prim_closed_trap N P1 -> prim_closed_trap N P2 -> prim_closed_trap N (fun d => P1 d /\ P2 d).
Proof.
  intros N P1 P2 (A1 & A2 & A3 & A4) (B1 & B2 & B3 & B4). unfold prim_closed_trap.
  split; [|split; [|split]].
  - intros d parent motif Hswf [H1 H2] Hm Ht Hp. split; [apply A1|apply B1]; assumption.
  - intros d i f Hswf [H1 H2] Hi Hf. split; [apply A2|apply B2]; assumption.
  - intros d p c m Hswf [H1 H2] Hp Hc Hm Ht Hpm. split; [apply A3|apply B3]; assumption.
  - intros d Hswf [H1 H2]. split; [apply A4|apply B4]; assumption.
Qed.

Section TrapInst.
  Variable N : net.
  Variable P : sd -> Prop.
  Hypothesis HP : prim_closed_trap N P.
  Let Q (d : sd) : Prop := SWF N d /\ P d.

  Lemma QI_swf : forall d, Q d -> SWF N d.
  Proof. intros d [H _]. exact H. Qed.

  Lemma QI_child : forall d p motif, Q d -> length motif = nvars N -> trap_space N motif ->
    p < size d -> Q (fst (ensure_node N d (Some p) motif)).
  Proof.
    intros d p motif [H1 H2] Hm Ht Hp.
    assert (Hpp : forall p0, Some p = Some p0 -> p0 < size d).
    { intros p0 Heq. injection Heq as Heq. subst p0. exact Hp. }
    split; [apply ensure_node_SWF; assumption|]. apply (proj1 HP); assumption.
  Qed.

  Lemma QI_root : forall d motif, Q d -> length motif = nvars N -> trap_space N motif ->
    Q (fst (ensure_node N d None motif)).
  Proof.
    intros d motif [H1 H2] Hm Ht.
    assert (Hpp : forall p0, @None nat = Some p0 -> p0 < size d) by (intros p0 Heq; discriminate Heq).
    split; [apply ensure_node_SWF; assumption|]. apply (proj1 HP); assumption.
  Qed.

  Lemma QI_upd : forall d i f, Q d -> i < size d -> flag_setter f -> Q (upd_node d i f).
  Proof.
    intros d i f [H1 H2] Hi Hf. split; [apply upd_flag_SWF; assumption|].
    apply (proj1 (proj2 HP)); assumption.
  Qed.

  Lemma QI_edge : forall d p c m, Q d -> p < size d -> c < size d -> length m = nvars N ->
    trap_space N m -> percolate_b N m = n_space (get d c) -> Q (ensure_edge d p c m).
  Proof.
    intros d p c m [H1 H2] Hp Hc Hm Ht Hpm. split; [apply ensure_edge_SWF; assumption|].
    apply (proj1 (proj2 (proj2 HP))); assumption.
  Qed.

  Lemma QI_reclaim : forall d, Q d -> Q (reclaim d).
  Proof.
    intros d [H1 H2]. split; [apply reclaim_SWF; exact H1|].
    apply (proj2 (proj2 (proj2 HP))); assumption.
  Qed.

  Lemma QI_expand : forall cfg d i, Q d -> Q (fst (expand_one N cfg d i)).
  Proof.
    intros cfg d i Hq. apply (TT_expand_one N Q QI_swf QI_child QI_upd). exact Hq.
  Qed.

  Lemma QI_msn : forall d i all_min, Q d -> i < size d ->
    (forall m, In m all_min -> trap_space N m) -> Q (make_skip_node N d i all_min).
  Proof.
    intros d i all_min Hq Hi Ht. apply (TT_make_skip_node N Q QI_child QI_upd); assumption.
  Qed.

  Lemma QI_step : forall fuel cfg d o, Q d -> Q (fst (step fuel N cfg d o)).
  Proof.
    intros fuel cfg d o Hq. apply (B_step N cfg Q QI_swf (QI_expand cfg)).
    - intros d0 i f Hq0 Hi Hf. apply QI_upd; [exact Hq0|exact Hi|apply cache_setter_flag; exact Hf].
    - exact QI_reclaim.
    - right. split; [|split].
      + intros tape S HS Hp _ d0 x s remaining Hq0 Hx He _ _.
        apply QI_msn; [exact Hq0| |].
        * apply (has_edge_valid N d0 x s (QI_swf d0 Hq0) He).
        * intros m Hin. apply min_trap_trap. eapply (tape_min_traps N S tape); eauto.
      + intros d0 i tape Hq0 Hi.
        apply (TT_skip_to_minimal N Q QI_swf QI_child QI_upd); assumption.
      + intros d0 tape Hq0.
        apply (TT_skip_remaining N Q QI_swf QI_root QI_upd QI_edge). exact Hq0.
    - exact Hq.
  Qed.
End TrapInst.

Theorem expand_one_transfer_trap : forall N P, prim_closed_trap N P ->
  forall cfg d i, SWF N d -> P d -> P (fst (expand_one N cfg d i)).
Proof.
  intros N P HP cfg d i Hswf Hp. apply (QI_expand N P HP cfg d i). split; assumption.
Qed.

Theorem step_transfer_trap : forall N P, prim_closed_trap N P ->
  forall fuel cfg d o, SWF N d -> P d -> P (fst (step fuel N cfg d o)).
Proof.
  intros N P HP fuel cfg d o Hswf Hp. apply (QI_step N P HP fuel cfg d o). split; assumption.
Qed.

(* ================================================================== *)
(* 4. TrapNodes                                                        *)
(* ================================================================== *)

Theorem init_TrapNodes : forall N, TrapNodes N (init N).
Proof.
  intro N. unfold init. rewrite ensure_node_unfold.
  unfold find_node, find_key. simpl. intros x [Heq|[]]. subst x. simpl.
  apply percolate_b_trap. apply trap_space_top.
Qed.

Lemma prim_closed_trap_TrapNodes : forall N, prim_closed_trap N (TrapNodes N).
Proof.
  intro N. unfold prim_closed_trap. split; [|split; [|split]].
  - intros d parent motif Hswf Ht Hm Htm Hp.
    pose proof (ensure_node_spec N d parent motif) as Hspec.
    destruct (ensure_node N d parent motif) as [d' c]. simpl.
    destruct (Hspec d' c Hswf Hm eq_refl) as (_ & _ & _ & Hcases).
    apply TrapNodes_spaces. pose proof (proj1 (TrapNodes_spaces N d) Ht) as Hts.
    destruct Hcases as [(_ & _ & Hsp)|(_ & _ & _ & Hsp & _)]; rewrite Hsp.
    + exact Hts.
    + intros X Hin. apply in_app_or in Hin. destruct Hin as [Hin|[Heq|[]]].
      * apply Hts. exact Hin.
      * subst X. apply percolate_b_trap. exact Htm.
  - intros d i f _ Ht _ Hf. apply TrapNodes_spaces. rewrite spaces_upd_flag by exact Hf.
    apply TrapNodes_spaces. exact Ht.
  - intros d p c m _ Ht _ _ _ _ _. apply TrapNodes_spaces. rewrite spaces_ensure_edge.
    apply TrapNodes_spaces. exact Ht.
  - intros d _ Ht. apply TrapNodes_spaces. rewrite spaces_reclaim.
    apply TrapNodes_spaces. exact Ht.
Qed.

Theorem step_TrapNodes : forall fuel N cfg d o,
  SWF N d -> TrapNodes N d -> TrapNodes N (fst (step fuel N cfg d o)).
Proof.
  intros fuel N cfg d o Hswf Ht.
  apply (step_transfer_trap N (TrapNodes N) (prim_closed_trap_TrapNodes N)); assumption.
Qed.

(* ================================================================== *)
(* 5. more API: edges after ensure_edge / ensure_node, expand_one      *)
(* ================================================================== *)

Definition src_is (j : nat) (e : edge) : bool := Nat.eqb (e_src e) j.

Lemma out_edges_filter : forall d j, out_edges d j = filter (src_is j) (sd_edges d).
Proof. intros d j. reflexivity. Qed.

Lemma edge_added_In : forall d p c m e, In e (edge_added d p c m) ->
  In e (sd_edges d) \/ (e_src e = p /\ e_dst e = c).
Proof.
  intros d p c m e Hin. unfold edge_added in Hin. destruct (has_edge d p c).
  - apply add_motif_In in Hin. destruct Hin as [Hin|(e0 & _ & _ & _ & Heq)]; [left; exact Hin|].
    right. subst e. simpl. auto.
  - apply in_app_or in Hin. destruct Hin as [Hin|[Heq|[]]]; [left; exact Hin|].
    right. subst e. simpl. auto.
Qed.

Lemma add_motif_filter_other : forall p c m l j, j <> p ->
  filter (src_is j) (add_motif p c m l) = filter (src_is j) l.
Proof.
  intros p c m l j Hne. induction l as [|e l IH]; simpl; [reflexivity|].
  fold (is_edge p c e). destruct (is_edge p c e) eqn:Ee; simpl.
  - apply is_edge_true in Ee. destruct Ee as [Hs _].
    assert (Hf : Nat.eqb p j = false) by (apply Nat.eqb_neq; lia).
    unfold src_is. simpl. rewrite Hs, Hf. reflexivity.
  - rewrite IH. reflexivity.
Qed.

Lemma edge_added_filter_other : forall d p c m j, j <> p ->
  filter (src_is j) (edge_added d p c m) = filter (src_is j) (sd_edges d).
Proof.
  intros d p c m j Hne. unfold edge_added. destruct (has_edge d p c).
  - apply add_motif_filter_other. exact Hne.
  - rewrite filter_app. unfold src_is at 2. simpl.
    assert (Hf : Nat.eqb p j = false) by (apply Nat.eqb_neq; lia).
    rewrite Hf. apply app_nil_r.
Qed.

Lemma add_motif_out_motifs : forall p c m l, existsb (is_edge p c) l = true ->
  Permutation (flat_map e_motifs (filter (src_is p) (add_motif p c m l)))
              (flat_map e_motifs (filter (src_is p) l) ++ [m]).
Proof.
  intros p c m l. induction l as [|e l IH]; simpl; intro Hex; [discriminate|].
  fold (is_edge p c e). destruct (is_edge p c e) eqn:Ee; simpl.
  - apply is_edge_true in Ee. destruct Ee as [Hs _].
    unfold src_is. simpl. rewrite Hs, Nat.eqb_refl. simpl.
    rewrite <- !app_assoc. apply Permutation_app_head. apply Permutation_app_comm.
  - simpl in Hex. specialize (IH Hex). destruct (src_is p e); simpl.
    + rewrite <- app_assoc. apply Permutation_app_head. exact IH.
    + exact IH.
Qed.

Lemma edge_added_out_motifs : forall d p c m,
  Permutation (flat_map e_motifs (filter (src_is p) (edge_added d p c m)))
              (out_motifs d p ++ [m]).
Proof.
  intros d p c m. unfold edge_added, out_motifs. rewrite out_edges_filter.
  destruct (has_edge d p c) eqn:Eh.
  - apply add_motif_out_motifs. exact Eh.
  - rewrite filter_app. unfold src_is at 2. simpl. rewrite Nat.eqb_refl.
    rewrite flat_map_app. simpl. apply Permutation_refl.
Qed.

Lemma sd_edges_ensure_child : forall N d p m,
  sd_edges (fst (ensure_node N d (Some p) m)) =
  edge_added d p (snd (ensure_node N d (Some p) m)) m.
Proof. intros N d p m. apply (sd_edges_ensure_node N d (Some p) m). Qed.

Lemma ensure_child_out_other : forall N d p m j, j <> p ->
  out_edges (fst (ensure_node N d (Some p) m)) j = out_edges d j.
Proof.
  intros N d p m j Hne. rewrite !out_edges_filter, sd_edges_ensure_child.
  apply edge_added_filter_other. exact Hne.
Qed.

Lemma ensure_child_out_motifs : forall N d p m,
  Permutation (out_motifs (fst (ensure_node N d (Some p) m)) p) (out_motifs d p ++ [m]).
Proof.
  intros N d p m. unfold out_motifs at 1. rewrite out_edges_filter, sd_edges_ensure_child.
  apply edge_added_out_motifs.
Qed.

Lemma ensure_edge_out_other : forall d p c m j, j <> p ->
  out_edges (ensure_edge d p c m) j = out_edges d j.
Proof.
  intros d p c m j Hne. rewrite !out_edges_filter, sd_edges_ensure_edge.
  apply edge_added_filter_other. exact Hne.
Qed.

(* old nodes keep everything but their depth, without any hypothesis *)
Lemma ensure_node_old : forall N d parent m i, i < size d ->
  node_eq_mod_depth (get d i) (get (fst (ensure_node N d parent m)) i).
Proof.
  intros N d parent m i Hi. rewrite ensure_node_unfold.
  destruct (find_node d (percolate_b N m)) as [c|]; simpl.
  - apply get_link.
  - rewrite <- (get_add_node_old d (fresh_node (percolate_b N m) parent) i Hi). apply get_link.
Qed.

(* a node created by ensure_node is an unexpanded, unskipped stub *)
Lemma ensure_node_new : forall N d parent m j,
  size d <= j -> j < size (fst (ensure_node N d parent m)) ->
  n_exp (get (fst (ensure_node N d parent m)) j) = false /\
  n_skip (get (fst (ensure_node N d parent m)) j) = false.
Proof.
  intros N d parent m j Hle Hlt. rewrite ensure_node_unfold in *.
  destruct (find_node d (percolate_b N m)) as [c|]; simpl in *.
  - rewrite size_link in Hlt. lia.
  - rewrite size_link, size_add_node in Hlt. assert (Hj : j = size d) by lia. subst j.
    pose proof (get_link (add_node d (fresh_node (percolate_b N m) parent)) parent (size d) m (size d))
      as Hg.
    rewrite get_add_node_new in Hg. destruct Hg as (_ & He & Hs & _). simpl in He, Hs. auto.
Qed.

Lemma ensure_child_spec : forall N d p m, SWF N d -> length m = nvars N -> p < size d ->
  SWF N (fst (ensure_node N d (Some p) m)) /\
  extends d (fst (ensure_node N d (Some p) m)) /\
  snd (ensure_node N d (Some p) m) < size (fst (ensure_node N d (Some p) m)) /\
  n_space (get (fst (ensure_node N d (Some p) m)) (snd (ensure_node N d (Some p) m)))
    = percolate_b N m.
Proof.
  intros N d p m Hswf Hm Hp. split; [|split].
  - apply ensure_node_SWF; try assumption. intros p0 Heq. injection Heq as Heq. subst p0. exact Hp.
  - apply ensure_node_extends.
  - pose proof (ensure_node_spec N d (Some p) m) as Hspec.
    destruct (ensure_node N d (Some p) m) as [d' c]. simpl.
    destruct (Hspec d' c Hswf Hm eq_refl) as (H1 & H2 & _). auto.
Qed.

Lemma upd_flag_get_other : forall d i j f, j <> i -> get (upd_node d i f) j = get d j.
Proof. intros d i j f Hne. apply get_upd_node_neq. lia. Qed.

Lemma n_exp_upd_flag_mono : forall d i j f, flag_setter f ->
  n_exp (get d j) = true -> n_exp (get (upd_node d i f) j) = true.
Proof.
  intros d i j f Hf He. destruct (get_upd_node_cases d i j f) as [Hg|(_ & _ & Hg)]; rewrite Hg;
    [exact He|]. apply flag_setter_exp; assumption.
Qed.

Lemma n_space_upd_flag : forall d i j f, flag_setter f ->
  n_space (get (upd_node d i f) j) = n_space (get d j).
Proof.
  intros d i j f Hf. rewrite <- !nth_spaces, spaces_upd_flag by exact Hf. reflexivity.
Qed.

(* ---------- the four ways expand_one can go ---------- *)
Definition eo_all (N : net) (d : sd) (i : nat) : list space :=
  sort_by_key (max_traps_b N (n_space (get d i)) (node_srcs N i)).
Definition eo_k (N : net) (cfg : config) (d : sd) (i : nat) : nat :=
  solver_len (length (eo_all N d i)) (max_motifs cfg).

Lemma expand_one_cases : forall N cfg d i d' r, expand_one N cfg d i = (d', r) ->
  (n_exp (get d i) = true /\ d' = d /\ r = RUnit) \/
  (n_exp (get d i) = false /\ is_full (n_space (get d i)) = true /\
   d' = upd_node (upd_node d i clear_attr) i (fun y => set_exp y true) /\ r = RUnit) \/
  (n_exp (get d i) = false /\ is_full (n_space (get d i)) = false /\
   eo_k N cfg d i = max_motifs cfg /\
   d' = upd_node d i clear_attr /\ r = RRaised ErrMotifLimit) \/
  (n_exp (get d i) = false /\ is_full (n_space (get d i)) = false /\
   eo_k N cfg d i <> max_motifs cfg /\
   d' = upd_node (ensure_all N (upd_node d i clear_attr) i (firstn (eo_k N cfg d i) (eo_all N d i)))
                 i (fun y => set_exp y true) /\ r = RUnit).
Proof.
  intros N cfg d i d' r H. unfold expand_one in H. unfold eo_k, eo_all, node_srcs.
  destruct (n_exp (get d i)).
  { injection H as H1 H2. left. auto. }
  right. destruct (is_full (n_space (get d i))).
  { injection H as H1 H2. left. auto. }
  right. destruct (Nat.eqb _ _) eqn:Ek.
  - injection H as H1 H2. left. apply Nat.eqb_eq in Ek. auto.
  - injection H as H1 H2. right. apply Nat.eqb_neq in Ek. auto.
Qed.

Lemma not_full_valid : forall d i, is_full (n_space (get d i)) = false -> i < size d.
Proof.
  intros d i Ef. destruct (lt_dec i (size d)) as [Hlt|Hge]; [exact Hlt|].
  rewrite get_beyond in Ef by lia. simpl in Ef. discriminate.
Qed.

Lemma eo_all_In : forall N d i m, SWF N d -> i < size d -> In m (eo_all N d i) ->
  length m = nvars N /\ trap_space N m /\ strict_subspace m (n_space (get d i)).
Proof.
  intros N d i m Hswf Hi Hin. unfold eo_all in Hin. apply sort_by_key_In in Hin.
  assert (HS : length (n_space (get d i)) = nvars N).
  { apply (swf_len N d Hswf). apply get_In. exact Hi. }
  apply (max_traps_b_trap N _ _ m HS) in Hin. destruct Hin as [Ht Hs].
  split; [apply trap_space_length; exact Ht|]. split; assumption.
Qed.

(* ================================================================== *)
(* 6. compound operations on one parent node: generic loops            *)
(* ================================================================== *)

Definition traps_exp (d : sd) (traps : list (nat * space)) : Prop :=
  forall c m, In (c, m) traps -> n_exp (get d c) = true.

Lemma traps_exp_extends : forall N d d' traps,
  extends d d' -> traps_ok N d traps -> traps_exp d traps -> traps_exp d' traps.
Proof.
  intros N d d' traps He Hok Hex c m Hin. destruct He as (_ & _ & H3 & _).
  apply H3; [apply (Hok c m Hin)|apply (Hex c m Hin)].
Qed.

Section Compound.
  Variable N : net.
  Variable p : nat.
  Variable I : sd -> Prop.
  Variable G : space -> Prop.
  Hypothesis I_swf : forall d, I d -> SWF N d.
  Hypothesis I_p : forall d, I d -> p < size d.
  Hypothesis I_child : forall d m, I d -> G m -> I (fst (ensure_node N d (Some p) m)).

  Lemma C_ensure_all : forall subs d,
    I d -> (forall m, In m subs -> G m) -> I (ensure_all N d p subs).
  Proof.
    induction subs as [|m r IH]; intros d Hi Hg; simpl; [exact Hi|].
    apply IH.
    - apply I_child; [exact Hi|apply Hg; left; reflexivity].
    - intros m0 Hin. apply Hg. right. exact Hin.
  Qed.

  Hypothesis I_mark : forall d m, I d -> G m -> min_trap N m ->
    I (mark_expanded (fst (ensure_node N d (Some p) m)) (snd (ensure_node N d (Some p) m))).

  Lemma C_ensure_min_children : forall mins d,
    I d -> (forall m, In m mins -> G m /\ min_trap N m) -> I (ensure_min_children N d p mins).
  Proof.
    induction mins as [|m r IH]; intros d Hi Hg; [exact Hi|].
    unfold ensure_min_children; fold ensure_min_children.
    pose proof (I_mark d m Hi (proj1 (Hg m (or_introl eq_refl))) (proj2 (Hg m (or_introl eq_refl))))
      as H1.
    destruct (ensure_node N d (Some p) m) as [d1 c]. simpl in H1.
    apply IH; [exact H1|]. intros m0 Hin. apply Hg. right. exact Hin.
  Qed.

  Hypothesis I_edge : forall d c m, I d -> c < size d -> length m = nvars N ->
    percolate_b N m = n_space (get d c) -> n_exp (get d c) = true ->
    subspace m (n_space (get d p)) = true -> I (ensure_edge d p c m).

  Lemma C_skip_edges : forall traps d,
    I d -> traps_ok N d traps -> traps_exp d traps -> I (skip_edges d p traps).
  Proof.
    induction traps as [|[mid m] r IH]; intros d Hi Hok Hex; simpl; [exact Hi|].
    assert (Hokr : traps_ok N d r) by (intros c0 m0 Hin; apply Hok; right; exact Hin).
    assert (Hexr : traps_exp d r) by (intros c0 m0 Hin; apply (Hex c0 m0); right; exact Hin).
    destruct (subspace m (n_space (get d p))) eqn:Es; [|apply IH; assumption].
    destruct (Hok mid m (or_introl eq_refl)) as (Hmid & Hm & Hp).
    apply IH.
    - apply I_edge; try assumption. apply (Hex mid m). left. reflexivity.
    - eapply traps_ok_extends; [apply ensure_edge_extends|exact Hokr].
    - eapply traps_exp_extends; [apply ensure_edge_extends|exact Hokr|exact Hexr].
  Qed.
End Compound.

(* ---------- skip_remaining, given what it does to one node ---------- *)
Section SkipRemaining.
  Variable N : net.
  Variable Q : sd -> Prop.
  Hypothesis Q_swf : forall d, Q d -> SWF N d.
  Hypothesis Q_rootmark : forall d m, Q d -> min_trap N m ->
    Q (mark_expanded (fst (ensure_node N d None m)) (snd (ensure_node N d None m))).
  Hypothesis Q_skip1 : forall d i traps, Q d -> i < size d -> n_exp (get d i) = false ->
    traps_ok N d traps -> traps_exp d traps ->
    Q (upd_node (mark_expanded (skip_edges (upd_node d i clear_attr) i traps) i) i
                (fun y => set_skip y true)).

  Lemma S_ensure_roots : forall mins d acc,
    Q d -> (forall m, In m mins -> min_trap N m) -> traps_ok N d acc -> traps_exp d acc ->
    Q (fst (ensure_roots N d mins acc)) /\
    traps_ok N (fst (ensure_roots N d mins acc)) (snd (ensure_roots N d mins acc)) /\
    traps_exp (fst (ensure_roots N d mins acc)) (snd (ensure_roots N d mins acc)).
  Proof.
    induction mins as [|m r IH]; intros d acc Hq Hmin Hok Hex; simpl.
    - split; [exact Hq|]. split.
      + intros c m Hin. apply Hok. apply in_rev. exact Hin.
      + intros c m Hin. apply (Hex c m). apply in_rev. exact Hin.
    - assert (Hmt : min_trap N m) by (apply Hmin; left; reflexivity).
      assert (Hm : length m = nvars N) by (apply min_trap_length; exact Hmt).
      pose proof (Q_rootmark d m Hq Hmt) as Hq1.
      pose proof (ensure_node_extends N d None m) as He.
      pose proof (ensure_node_spec N d None m) as Hspec.
      destruct (ensure_node N d None m) as [d1 c]. simpl in Hq1, He.
      destruct (Hspec d1 c (Q_swf d Hq) Hm eq_refl) as (Hc & Hsp & _).
      assert (He2 : extends d (mark_expanded d1 c)).
      { eapply extends_trans; [exact He|apply mark_expanded_extends]. }
      apply IH.
      + exact Hq1.
      + intros m0 Hin. apply Hmin. right. exact Hin.
      + intros c0 m0 [Heq|Hin].
        * injection Heq as Hcc Hmm. subst c0 m0. rewrite size_mark_expanded.
          split; [exact Hc|]. split; [exact Hm|]. rewrite n_space_mark_expanded.
          symmetry. exact Hsp.
        * eapply traps_ok_extends; [exact He2|exact Hok|exact Hin].
      + intros c0 m0 [Heq|Hin].
        * injection Heq as Hcc Hmm. subst c0 m0. unfold mark_expanded.
          rewrite get_upd_node_eq by exact Hc. reflexivity.
        * eapply traps_exp_extends; [exact He2|exact Hok|exact Hex|exact Hin].
  Qed.

  Lemma S_skip_all : forall traps ids d count,
    Q d -> traps_ok N d traps -> traps_exp d traps -> (forall i, In i ids -> i < size d) ->
    Q (fst (skip_all d ids traps count)).
  Proof.
    intro traps. induction ids as [|i r IH]; intros d count Hq Hok Hex Hv; simpl; [exact Hq|].
    assert (Hr : forall j, In j r -> j < size d) by (intros j Hin; apply Hv; right; exact Hin).
    assert (Hi : i < size d) by (apply Hv; left; reflexivity).
    destruct (n_exp (get d i)) eqn:Ei; [apply IH; assumption|].
    assert (He : extends d (upd_node (mark_expanded
                   (skip_edges (upd_node d i clear_attr) i traps) i) i
                   (fun y => set_skip y true))).
    { apply extends_trans with (d2 := upd_node d i clear_attr);
        [apply upd_flag_extends; constructor|].
      eapply extends_trans; [apply skip_edges_extends|].
      eapply extends_trans; [apply mark_expanded_extends|].
      apply upd_flag_extends. constructor. }
    apply IH.
    - apply Q_skip1; assumption.
    - eapply traps_ok_extends; [exact He|exact Hok].
    - eapply traps_exp_extends; [exact He|exact Hok|exact Hex].
    - intros j Hin. eapply extends_lt; [exact He|apply Hr; exact Hin].
  Qed.

  Lemma S_skip_remaining : forall d tape, Q d -> Q (fst (skip_remaining N d tape)).
  Proof.
    intros d tape Hq. unfold skip_remaining.
    destruct (negb (perm_of tape (min_traps_b N (n_space (get d 0))))) eqn:Ep; [exact Hq|].
    assert (Hmin : forall m, In m tape -> min_trap N m).
    { intros m Hin. eapply (tape_min_traps N (n_space (get d 0)) tape); [|exact Ep|exact Hin].
      apply (swf_len N d (Q_swf d Hq)). apply get_In. apply (swf_size N d (Q_swf d Hq)). }
    assert (Hnil1 : traps_ok N d []) by (intros c m []).
    assert (Hnil2 : traps_exp d []) by (intros c m []).
    destruct (S_ensure_roots tape d [] Hq Hmin Hnil1 Hnil2) as (Hq1 & Hok1 & Hex1).
    destruct (ensure_roots N d tape []) as [d1 traps]. simpl in Hq1, Hok1, Hex1.
    assert (Hv : forall i, In i (seq 0 (size d1)) -> i < size d1).
    { intros i Hin. apply in_seq in Hin. lia. }
    pose proof (S_skip_all traps (seq 0 (size d1)) d1 0 Hq1 Hok1 Hex1 Hv) as Hq2.
    destruct (skip_all d1 (seq 0 (size d1)) traps 0) as [d2 k]. exact Hq2.
  Qed.
End SkipRemaining.

(* ================================================================== *)
(* 7. NoStubEdges                                                      *)
(* ================================================================== *)

(* while node p is being processed it may already carry out-edges *)
Definition NSE_except (p : nat) (d : sd) : Prop :=
  forall e, In e (sd_edges d) -> e_src e = p \/ n_exp (get d (e_src e)) = true.
Definition NSE_inv (N : net) (p : nat) (d : sd) : Prop :=
  SWF N d /\ p < size d /\ NSE_except p d.

Lemma NSE_open : forall p d, NoStubEdges d -> NSE_except p d.
Proof. intros p d H e Hin. right. apply H. exact Hin. Qed.

Lemma NSE_close : forall p d, NSE_except p d -> n_exp (get d p) = true -> NoStubEdges d.
Proof.
  intros p d H Hp e Hin. destruct (H e Hin) as [Heq|He]; [rewrite Heq; exact Hp|exact He].
Qed.

Lemma NSE_except_upd : forall p d i f, flag_setter f -> NSE_except p d -> NSE_except p (upd_node d i f).
Proof.
  intros p d i f Hf H e Hin. rewrite sd_edges_upd_node in Hin.
  destruct (H e Hin) as [Heq|He]; [left; exact Heq|right].
  apply n_exp_upd_flag_mono; assumption.
Qed.

Lemma NoStubEdges_upd : forall d i f, flag_setter f -> NoStubEdges d -> NoStubEdges (upd_node d i f).
Proof.
  intros d i f Hf H e Hin. rewrite sd_edges_upd_node in Hin.
  apply n_exp_upd_flag_mono; [exact Hf|]. apply H. exact Hin.
Qed.

Lemma NSE_inv_upd : forall N p d i f, flag_setter f -> NSE_inv N p d -> NSE_inv N p (upd_node d i f).
Proof.
  intros N p d i f Hf (H1 & H2 & H3). split; [apply upd_flag_SWF; assumption|].
  split; [rewrite size_upd_node; exact H2|]. apply NSE_except_upd; assumption.
Qed.

Lemma NSE_except_added : forall N d d' p c m, SWF N d ->
  sd_edges d' = edge_added d p c m ->
  (forall j, j < size d -> n_exp (get d' j) = n_exp (get d j)) ->
  NSE_except p d -> NSE_except p d'.
Proof.
  intros N d d' p c m Hswf He Hn H e Hin. rewrite He in Hin.
  apply edge_added_In in Hin. destruct Hin as [Hin|[Hs _]]; [|left; exact Hs].
  destruct (H e Hin) as [Heq|Hx]; [left; exact Heq|right].
  rewrite Hn; [exact Hx|]. apply (swf_edges N d Hswf e Hin).
Qed.

Lemma NSE_inv_child : forall N p d m, NSE_inv N p d -> length m = nvars N ->
  NSE_inv N p (fst (ensure_node N d (Some p) m)).
Proof.
  intros N p d m (H1 & H2 & H3) Hm.
  destruct (ensure_child_spec N d p m H1 Hm H2) as (S1 & S2 & _ & _).
  split; [exact S1|]. split; [eapply extends_lt; eauto|].
  apply (NSE_except_added N d _ p (snd (ensure_node N d (Some p) m)) m H1).
  - apply sd_edges_ensure_child.
  - intros j Hj. apply (ensure_node_old N d (Some p) m j Hj).
  - exact H3.
Qed.

Lemma NSE_inv_mark : forall N p d m, NSE_inv N p d -> length m = nvars N -> min_trap N m ->
  NSE_inv N p (mark_expanded (fst (ensure_node N d (Some p) m)) (snd (ensure_node N d (Some p) m))).
Proof.
  intros N p d m H Hm _. unfold mark_expanded. apply NSE_inv_upd; [constructor|].
  apply NSE_inv_child; assumption.
Qed.

Lemma NSE_inv_edge : forall N p d c m, NSE_inv N p d -> c < size d -> length m = nvars N ->
  percolate_b N m = n_space (get d c) -> NSE_inv N p (ensure_edge d p c m).
Proof.
  intros N p d c m (H1 & H2 & H3) Hc Hm Hpm.
  split; [apply ensure_edge_SWF; assumption|]. split; [rewrite size_ensure_edge; exact H2|].
  apply (NSE_except_added N d _ p c m H1).
  - apply sd_edges_ensure_edge.
  - intros j _. apply n_exp_ensure_edge.
  - exact H3.
Qed.

(* closing a compound operation on p: p is marked expanded *)
Lemma NSE_inv_close : forall N p d, NSE_inv N p d ->
  SWF N (mark_expanded d p) /\ NoStubEdges (mark_expanded d p).
Proof.
  intros N p d (H1 & H2 & H3). unfold mark_expanded.
  split; [apply upd_flag_SWF; [constructor|exact H1]|].
  apply (NSE_close p).
  - apply NSE_except_upd; [constructor|exact H3].
  - rewrite get_upd_node_eq by exact H2. reflexivity.
Qed.

Lemma NSE_inv_close_skip : forall N p d, NSE_inv N p d ->
  SWF N (upd_node (mark_expanded d p) p (fun y => set_skip y true)) /\
  NoStubEdges (upd_node (mark_expanded d p) p (fun y => set_skip y true)).
Proof.
  intros N p d H. destruct (NSE_inv_close N p d H) as [H1 H2].
  split; [apply upd_flag_SWF; [constructor|exact H1]|].
  apply NoStubEdges_upd; [constructor|exact H2].
Qed.

Lemma NSE_inv_start : forall N p d, SWF N d -> NoStubEdges d -> p < size d ->
  NSE_inv N p (upd_node d p clear_attr).
Proof.
  intros N p d Hswf Hn Hp. apply NSE_inv_upd; [constructor|].
  split; [exact Hswf|]. split; [exact Hp|]. apply NSE_open. exact Hn.
Qed.

Lemma expand_one_NSE : forall N cfg d i, SWF N d -> NoStubEdges d ->
  NoStubEdges (fst (expand_one N cfg d i)).
Proof.
  intros N cfg d i Hswf Hn. destruct (expand_one N cfg d i) as [d' r] eqn:E. simpl.
  apply expand_one_cases in E.
  destruct E as [(_ & Hd & _)|[(_ & _ & Hd & _)|[(_ & _ & _ & Hd & _)|(_ & Ef & _ & Hd & _)]]];
    subst d'.
  - exact Hn.
  - apply NoStubEdges_upd; [constructor|]. apply NoStubEdges_upd; [constructor|exact Hn].
  - apply NoStubEdges_upd; [constructor|exact Hn].
  - pose proof (not_full_valid d i Ef) as Hi.
    assert (H1 : NSE_inv N i (ensure_all N (upd_node d i clear_attr) i
                                (firstn (eo_k N cfg d i) (eo_all N d i)))).
    { apply (C_ensure_all N i (NSE_inv N i) (fun m => length m = nvars N)).
      - intros d0 m H0 Hm. apply NSE_inv_child; assumption.
      - apply NSE_inv_start; assumption.
      - intros m Hin. apply In_firstn_in in Hin. apply (eo_all_In N d i m Hswf Hi Hin). }
    apply (NSE_inv_close N i _ H1).
Qed.

Lemma NSE_min_children : forall N p d mins, NSE_inv N p d ->
  (forall m, In m mins -> min_trap N m) -> NSE_inv N p (ensure_min_children N d p mins).
Proof.
  intros N p d mins H Hmin.
  apply (C_ensure_min_children N p (NSE_inv N p) (fun m => length m = nvars N)).
  - intros d0 m H0 Hm Hmt. apply NSE_inv_mark; assumption.
  - exact H.
  - intros m Hin. split; [apply min_trap_length|]; apply Hmin; exact Hin.
Qed.

Lemma make_skip_node_NSE : forall N d i all_min, SWF N d -> NoStubEdges d -> i < size d ->
  (forall m, In m all_min -> min_trap N m) ->
  SWF N (make_skip_node N d i all_min) /\ NoStubEdges (make_skip_node N d i all_min).
Proof.
  intros N d i all_min Hswf Hn Hi Hmin. unfold make_skip_node.
  destruct (n_exp (get d i)); [split; assumption|].
  apply NSE_inv_close_skip. apply NSE_min_children.
  - apply NSE_inv_start; assumption.
  - intros m Hin. apply filter_In in Hin. apply Hmin. apply Hin.
Qed.

Lemma skip_to_minimal_NSE : forall N d i tape, SWF N d -> NoStubEdges d -> i < size d ->
  SWF N (fst (skip_to_minimal_t N d i tape)) /\ NoStubEdges (fst (skip_to_minimal_t N d i tape)).
Proof.
  intros N d i tape Hswf Hn Hi. unfold skip_to_minimal_t.
  destruct (n_exp (get d i)); [split; assumption|].
  destruct (negb (perm_of tape (min_traps_b N (n_space (get d i))))) eqn:Ep; [split; assumption|].
  assert (Hmin : forall m, In m tape -> min_trap N m).
  { intros m Hin. eapply (tape_min_traps N (n_space (get d i)) tape); [|exact Ep|exact Hin].
    apply (swf_len N d Hswf). apply get_In. exact Hi. }
  pose proof (NSE_inv_start N i d Hswf Hn Hi) as H0.
  assert (Hcommon :
    SWF N (upd_node (mark_expanded (ensure_min_children N (upd_node d i clear_attr) i tape) i) i
                    (fun y => set_skip y true)) /\
    NoStubEdges (upd_node (mark_expanded (ensure_min_children N (upd_node d i clear_attr) i tape) i) i
                    (fun y => set_skip y true))).
  { apply NSE_inv_close_skip. apply NSE_min_children; assumption. }
  destruct tape as [|m [|m2 r]]; simpl; try exact Hcommon.
  destruct (eqb_space m (n_space (get d i))); simpl; [|exact Hcommon].
  apply NSE_inv_close. exact H0.
Qed.

Lemma sd_edges_ensure_root : forall N d m, sd_edges (fst (ensure_node N d None m)) = sd_edges d.
Proof. intros N d m. apply (sd_edges_ensure_node N d None m). Qed.

Lemma ensure_root_spec : forall N d m, SWF N d -> length m = nvars N ->
  SWF N (fst (ensure_node N d None m)) /\
  extends d (fst (ensure_node N d None m)) /\
  snd (ensure_node N d None m) < size (fst (ensure_node N d None m)) /\
  n_space (get (fst (ensure_node N d None m)) (snd (ensure_node N d None m))) = percolate_b N m.
Proof.
  intros N d m Hswf Hm. split; [|split].
  - apply ensure_node_SWF; try assumption. intros p0 Heq. discriminate Heq.
  - apply ensure_node_extends.
  - pose proof (ensure_node_spec N d None m) as Hspec.
    destruct (ensure_node N d None m) as [d' c]. simpl.
    destruct (Hspec d' c Hswf Hm eq_refl) as (H1 & H2 & _). auto.
Qed.

Lemma skip_remaining_NSE : forall N d tape, SWF N d -> NoStubEdges d ->
  SWF N (fst (skip_remaining N d tape)) /\ NoStubEdges (fst (skip_remaining N d tape)).
Proof.
  intros N d tape Hswf Hn.
  apply (S_skip_remaining N (fun d0 => SWF N d0 /\ NoStubEdges d0)).
  - intros d0 [H _]. exact H.
  - intros d0 m [H1 H2] Hmt. pose proof (min_trap_length N m Hmt) as Hm.
    destruct (ensure_root_spec N d0 m H1 Hm) as (S1 & S2 & _ & _).
    unfold mark_expanded. split; [apply upd_flag_SWF; [constructor|exact S1]|].
    apply NoStubEdges_upd; [constructor|].
    intros e Hin. rewrite sd_edges_ensure_root in Hin.
    destruct S2 as (_ & _ & S3 & _). apply S3; [apply (swf_edges N d0 H1 e Hin)|].
    apply H2. exact Hin.
  - intros d0 i traps [H1 H2] Hi _ Hok Hex.
    apply NSE_inv_close_skip.
    apply (C_skip_edges N i (NSE_inv N i)).
    + intros d1 c m H0 Hc Hm Hpm _ _. apply NSE_inv_edge; assumption.
    + apply NSE_inv_start; assumption.
    + eapply traps_ok_extends; [|exact Hok]. apply upd_flag_extends. constructor.
    + eapply traps_exp_extends; [|exact Hok|exact Hex]. apply upd_flag_extends. constructor.
  - split; assumption.
Qed.

Theorem init_NoStubEdges : forall N, NoStubEdges (init N).
Proof.
  intro N. unfold init. rewrite ensure_node_unfold.
  unfold find_node, find_key. simpl. intros e [].
Qed.

Theorem step_NoStubEdges : forall fuel N cfg d o,
  SWF N d -> NoStubEdges d -> NoStubEdges (fst (step fuel N cfg d o)).
Proof.
  intros fuel N cfg d o Hswf Hn.
  assert (H : SWF N (fst (step fuel N cfg d o)) /\ NoStubEdges (fst (step fuel N cfg d o))).
  { apply (B_step N cfg (fun d0 => SWF N d0 /\ NoStubEdges d0)).
    - intros d0 [H _]. exact H.
    - intros d0 i [H1 H2]. split; [|apply expand_one_NSE; assumption].
      apply (expand_one_transfer N (SWF N) (prim_closed_SWF N)); exact H1.
    - intros d0 i f [H1 H2] _ Hf. apply cache_setter_flag in Hf.
      split; [apply upd_flag_SWF; assumption|apply NoStubEdges_upd; assumption].
    - intros d0 [H1 H2]. split; [apply reclaim_SWF; exact H1|].
      intros e Hin. simpl in Hin.
      destruct (reclaim_extends d0) as (_ & _ & H3 & _).
      apply H3; [apply (swf_edges N d0 H1 e Hin)|apply H2; exact Hin].
    - right. split; [|split].
      + intros tape S HS Hp _ d0 x s remaining [H1 H2] Hx He _ _.
        apply make_skip_node_NSE; try assumption.
        * apply (has_edge_valid N d0 x s H1 He).
        * intros m Hin. eapply (tape_min_traps N S tape); eauto.
      + intros d0 i tape [H1 H2] Hi. apply skip_to_minimal_NSE; assumption.
      + intros d0 tape [H1 H2]. apply skip_remaining_NSE; assumption.
    - split; assumption. }
  exact (proj2 H).
Qed.

(* ================================================================== *)
(* 8. EdgeStrict                                                       *)
(* ================================================================== *)

Lemma spaces_inj : forall N d i j, SWF N d -> i < size d -> j < size d ->
  n_space (get d i) = n_space (get d j) -> i = j.
Proof.
  intros N d i j Hswf Hi Hj Heq. pose proof (swf_nodup N d Hswf) as Hnd.
  rewrite (NoDup_nth (spaces d) []) in Hnd.
  apply Hnd; try (rewrite length_spaces; assumption). rewrite !nth_spaces. exact Heq.
Qed.

Lemma EdgeStrict_same_shape : forall d d',
  spaces d' = spaces d -> sd_edges d' = sd_edges d -> EdgeStrict d -> EdgeStrict d'.
Proof.
  intros d d' Hs He H e Hin. rewrite He in Hin. rewrite <- !nth_spaces, Hs, !nth_spaces.
  apply H. exact Hin.
Qed.

Lemma EdgeStrict_upd : forall d i f, flag_setter f -> EdgeStrict d -> EdgeStrict (upd_node d i f).
Proof.
  intros d i f Hf H. apply (EdgeStrict_same_shape d); [|reflexivity|exact H].
  apply spaces_upd_flag. exact Hf.
Qed.

Lemma strict_percolate : forall N m S, length m = nvars N ->
  strict_subspace m S -> strict_subspace (percolate_b N m) S.
Proof.
  intros N m S Hm [Hsub Hne]. pose proof (percolate_b_sub N m Hm) as Hp. split.
  - eapply subspace_trans; eauto.
  - intro Heq. apply Hne. apply subspace_antisym; [exact Hsub|]. rewrite <- Heq. exact Hp.
Qed.

Lemma EdgeStrict_added : forall N d d' p c m, SWF N d ->
  (forall j, j < size d -> n_space (get d' j) = n_space (get d j)) ->
  sd_edges d' = edge_added d p c m ->
  strict_subspace (n_space (get d' c)) (n_space (get d' p)) ->
  EdgeStrict d -> EdgeStrict d'.
Proof.
  intros N d d' p c m Hswf Hsp He Hnew H e Hin. rewrite He in Hin.
  apply edge_added_In in Hin. destruct Hin as [Hin|[Hs Hd]].
  - destruct (swf_edges N d Hswf e Hin) as (H1 & H2 & _).
    rewrite (Hsp _ H1), (Hsp _ H2). apply H. exact Hin.
  - rewrite Hs, Hd. exact Hnew.
Qed.

(* while the unexpanded node p (with space S) is being processed *)
Definition ES_inv (N : net) (p : nat) (S : space) (d : sd) : Prop :=
  SWF N d /\ p < size d /\ n_space (get d p) = S /\ n_exp (get d p) = false /\ EdgeStrict d.
Definition ES_guard (N : net) (S m : space) : Prop :=
  length m = nvars N /\ strict_subspace m S.

Lemma ES_inv_child : forall N p S d m, ES_inv N p S d -> ES_guard N S m ->
  ES_inv N p S (fst (ensure_node N d (Some p) m)).
Proof.
  intros N p S d m (H1 & H2 & H3 & H4 & H5) [Hm Hst].
  destruct (ensure_child_spec N d p m H1 Hm H2) as (S1 & S2 & S3 & S4).
  pose proof (ensure_node_old N d (Some p) m p H2) as (Osp & Oex & _).
  split; [exact S1|]. split; [eapply extends_lt; eauto|].
  split; [rewrite Osp; exact H3|]. split; [rewrite Oex; exact H4|].
  apply (EdgeStrict_added N d _ p (snd (ensure_node N d (Some p) m)) m H1).
  - intros j Hj. apply (ensure_node_old N d (Some p) m j Hj).
  - apply sd_edges_ensure_child.
  - rewrite S4, Osp, H3. apply strict_percolate; assumption.
  - exact H5.
Qed.

Lemma ES_inv_mark : forall N p S d m, ES_inv N p S d -> ES_guard N S m -> min_trap N m ->
  ES_inv N p S (mark_expanded (fst (ensure_node N d (Some p) m)) (snd (ensure_node N d (Some p) m))).
Proof.
  intros N p S d m H Hg _. pose proof (ES_inv_child N p S d m H Hg) as (H1 & H2 & H3 & H4 & H5).
  destruct H as (K1 & K2 & _). destruct Hg as [Hm Hst].
  destruct (ensure_child_spec N d p m K1 Hm K2) as (_ & _ & S3 & S4).
  assert (Hne : snd (ensure_node N d (Some p) m) <> p).
  { intro Heq. rewrite Heq in S4. rewrite H3 in S4.
    destruct (strict_percolate N m S Hm Hst) as [_ Hn]. apply Hn. symmetry. exact S4. }
  unfold mark_expanded.
  split; [apply upd_flag_SWF; [constructor|exact H1]|].
  split; [rewrite size_upd_node; exact H2|].
  split; [rewrite n_space_upd_flag by constructor; exact H3|].
  split; [rewrite get_upd_node_neq by exact Hne; exact H4|].
  apply EdgeStrict_upd; [constructor|exact H5].
Qed.

Lemma ES_inv_edge : forall N p S d c m, ES_inv N p S d -> c < size d -> length m = nvars N ->
  percolate_b N m = n_space (get d c) -> n_exp (get d c) = true ->
  subspace m (n_space (get d p)) = true -> ES_inv N p S (ensure_edge d p c m).
Proof.
  intros N p S d c m (H1 & H2 & H3 & H4 & H5) Hc Hm Hpm Hex Hsub.
  split; [apply ensure_edge_SWF; assumption|]. split; [rewrite size_ensure_edge; exact H2|].
  split; [rewrite n_space_ensure_edge; exact H3|]. split; [rewrite n_exp_ensure_edge; exact H4|].
  apply (EdgeStrict_added N d _ p c m H1).
  - intros j _. apply n_space_ensure_edge.
  - apply sd_edges_ensure_edge.
  - rewrite !n_space_ensure_edge. split.
    + rewrite <- Hpm. eapply subspace_trans; [apply percolate_b_sub; exact Hm|exact Hsub].
    + intro Heq. apply (spaces_inj N d c p H1 Hc H2) in Heq. subst c. congruence.
  - exact H5.
Qed.

Lemma ES_inv_upd_other : forall N p S d f, flag_setter f ->
  (forall x, n_exp (f x) = n_exp x) -> ES_inv N p S d -> ES_inv N p S (upd_node d p f).
Proof.
  intros N p S d f Hf Hfe (H1 & H2 & H3 & H4 & H5).
  split; [apply upd_flag_SWF; assumption|]. split; [rewrite size_upd_node; exact H2|].
  split; [rewrite n_space_upd_flag by exact Hf; exact H3|].
  split; [rewrite get_upd_node_eq by exact H2; rewrite Hfe; exact H4|].
  apply EdgeStrict_upd; assumption.
Qed.

Lemma ES_inv_start : forall N p d, SWF N d -> EdgeStrict d -> p < size d ->
  n_exp (get d p) = false -> ES_inv N p (n_space (get d p)) (upd_node d p clear_attr).
Proof.
  intros N p d Hswf He Hp Hex. apply ES_inv_upd_other; [constructor|reflexivity|].
  split; [exact Hswf|]. split; [exact Hp|]. split; [reflexivity|]. split; assumption.
Qed.

Lemma ES_inv_close : forall N p S d, ES_inv N p S d ->
  SWF N (upd_node (mark_expanded d p) p (fun y => set_skip y true)) /\
  EdgeStrict (upd_node (mark_expanded d p) p (fun y => set_skip y true)).
Proof.
  intros N p S d (H1 & _ & _ & _ & H5). unfold mark_expanded.
  split; [apply upd_flag_SWF; [constructor|]; apply upd_flag_SWF; [constructor|exact H1]|].
  apply EdgeStrict_upd; [constructor|]. apply EdgeStrict_upd; [constructor|exact H5].
Qed.

Lemma expand_one_ES : forall N cfg d i, SWF N d -> EdgeStrict d ->
  EdgeStrict (fst (expand_one N cfg d i)).
Proof.
  intros N cfg d i Hswf He. destruct (expand_one N cfg d i) as [d' r] eqn:E. simpl.
  apply expand_one_cases in E.
  destruct E as [(_ & Hd & _)|[(_ & _ & Hd & _)|[(_ & _ & _ & Hd & _)|(Hex & Ef & _ & Hd & _)]]];
    subst d'.
  - exact He.
  - apply EdgeStrict_upd; [constructor|]. apply EdgeStrict_upd; [constructor|exact He].
  - apply EdgeStrict_upd; [constructor|exact He].
  - pose proof (not_full_valid d i Ef) as Hi.
    assert (H1 : ES_inv N i (n_space (get d i))
                   (ensure_all N (upd_node d i clear_attr) i
                               (firstn (eo_k N cfg d i) (eo_all N d i)))).
    { apply (C_ensure_all N i (ES_inv N i (n_space (get d i))) (ES_guard N (n_space (get d i)))).
      - intros d0 m H0 Hg. apply ES_inv_child; assumption.
      - apply ES_inv_start; assumption.
      - intros m Hin. apply In_firstn_in in Hin.
        destruct (eo_all_In N d i m Hswf Hi Hin) as (A1 & _ & A3). split; assumption. }
    destruct H1 as (_ & _ & _ & _ & H5). apply EdgeStrict_upd; [constructor|exact H5].
Qed.

Lemma ES_min_children : forall N p S d mins, ES_inv N p S d ->
  (forall m, In m mins -> min_trap N m /\ subspace m S = true /\ m <> S) ->
  ES_inv N p S (ensure_min_children N d p mins).
Proof.
  intros N p S d mins H Hmin.
  apply (C_ensure_min_children N p (ES_inv N p S) (ES_guard N S)).
  - intros d0 m H0 Hg Hmt. apply ES_inv_mark; assumption.
  - exact H.
  - intros m Hin. destruct (Hmin m Hin) as (A1 & A2 & A3).
    split; [|exact A1]. split; [apply min_trap_length; exact A1|]. split; assumption.
Qed.

(* no self-loop: the space of the skipped node must not be one of the minimal traps *)
Lemma make_skip_node_ES : forall N d i all_min, SWF N d -> EdgeStrict d -> i < size d ->
  (forall m, In m all_min -> min_trap N m) ->
  (n_exp (get d i) = false -> ~ In (n_space (get d i)) all_min) ->
  SWF N (make_skip_node N d i all_min) /\ EdgeStrict (make_skip_node N d i all_min).
Proof.
  intros N d i all_min Hswf He Hi Hmin Hself. unfold make_skip_node.
  destruct (n_exp (get d i)) eqn:Ex; [split; assumption|].
  apply (ES_inv_close N i (n_space (get d i))).
  apply ES_min_children.
  - apply ES_inv_start; assumption.
  - intros m Hin. apply filter_In in Hin. destruct Hin as [Hin Hsub].
    split; [apply Hmin; exact Hin|]. split; [exact Hsub|].
    intro Heq. subst m. apply (Hself eq_refl). exact Hin.
Qed.

(* a space that is one of its own minimal trap spaces is the only one *)
Lemma min_traps_self : forall N S tape, length S = nvars N ->
  In S (min_traps_b N S) -> perm_of tape (min_traps_b N S) = true -> tape = [S].
Proof.
  intros N S tape HS Hin Hp.
  assert (Hall : forall T, In T (min_traps_b N S) -> T = S).
  { intros T HT. apply (min_traps_b_spec N S T HS) in HT. destruct HT as [[Ht _] Hsub].
    apply (min_traps_b_spec N S S HS) in Hin. destruct Hin as [[_ Hmin] _].
    apply Hmin; assumption. }
  assert (Hnd : NoDup (min_traps_b N S)).
  { rewrite min_traps_b_unfold. apply NoDup_filter. unfold traps_in. apply NoDup_filter.
    apply subspaces_of_NoDup. }
  assert (Hone : length (min_traps_b N S) = 1).
  { destruct (min_traps_b N S) as [|a [|b r]]; [contradiction|reflexivity|].
    exfalso. inversion Hnd as [|? ? Hna _]. apply Hna. left.
    rewrite (Hall a (or_introl eq_refl)). apply Hall. right. left. reflexivity. }
  pose proof Hp as Hp0. unfold perm_of in Hp0.
  apply andb_true_iff in Hp0. destruct Hp0 as [Hp0 _].
  apply andb_true_iff in Hp0. destruct Hp0 as [Hlen _]. apply Nat.eqb_eq in Hlen.
  rewrite Hone in Hlen. destruct tape as [|m [|m2 r]]; try discriminate Hlen.
  f_equal. apply Hall. eapply perm_of_In; [exact Hp|left; reflexivity].
Qed.

Lemma skip_to_minimal_ES : forall N d i tape, SWF N d -> EdgeStrict d -> i < size d ->
  SWF N (fst (skip_to_minimal_t N d i tape)) /\ EdgeStrict (fst (skip_to_minimal_t N d i tape)).
Proof.
  intros N d i tape Hswf He Hi. unfold skip_to_minimal_t.
  destruct (n_exp (get d i)) eqn:Ex; [split; assumption|].
  destruct (negb (perm_of tape (min_traps_b N (n_space (get d i))))) eqn:Ep; [split; assumption|].
  assert (HS : length (n_space (get d i)) = nvars N).
  { apply (swf_len N d Hswf). apply get_In. exact Hi. }
  pose proof (tape_min_traps N (n_space (get d i)) tape HS Ep) as Hmin.
  pose proof (ES_inv_start N i d Hswf He Hi Ex) as H0.
  assert (Hself : In (n_space (get d i)) tape -> tape = [n_space (get d i)]).
  { intro Hin. apply negb_false_iff in Ep. apply (min_traps_self N _ tape HS); [|exact Ep].
    eapply perm_of_In; eauto. }
  assert (Hcommon : ~ In (n_space (get d i)) tape ->
    SWF N (upd_node (mark_expanded (ensure_min_children N (upd_node d i clear_attr) i tape) i) i
                    (fun y => set_skip y true)) /\
    EdgeStrict (upd_node (mark_expanded (ensure_min_children N (upd_node d i clear_attr) i tape) i) i
                    (fun y => set_skip y true))).
  { intro Hnin. apply (ES_inv_close N i (n_space (get d i))).
    apply ES_min_children; [exact H0|].
    intros m Hin. destruct (Hmin m Hin) as [A1 A2]. split; [exact A1|]. split; [exact A2|].
    intro Heq. subst m. exact (Hnin Hin). }
  destruct tape as [|m [|m2 r]]; simpl.
  - apply Hcommon. intros [].
  - destruct (eqb_space m (n_space (get d i))) eqn:Eeq; simpl.
    + unfold mark_expanded. destruct H0 as (K1 & _ & _ & _ & K5).
      split; [apply upd_flag_SWF; [constructor|exact K1]|].
      apply EdgeStrict_upd; [constructor|exact K5].
    + apply Hcommon. intros [Heq|[]]. subst m.
      assert (Ht : eqb_space (n_space (get d i)) (n_space (get d i)) = true)
        by (apply eqb_space_spec; reflexivity).
      congruence.
  - apply Hcommon. intro Hin. apply Hself in Hin. discriminate Hin.
Qed.

Lemma skip_remaining_ES : forall N d tape, SWF N d -> EdgeStrict d ->
  SWF N (fst (skip_remaining N d tape)) /\ EdgeStrict (fst (skip_remaining N d tape)).
Proof.
  intros N d tape Hswf He.
  apply (S_skip_remaining N (fun d0 => SWF N d0 /\ EdgeStrict d0)).
  - intros d0 [H _]. exact H.
  - intros d0 m [H1 H2] Hmt. pose proof (min_trap_length N m Hmt) as Hm.
    destruct (ensure_root_spec N d0 m H1 Hm) as (S1 & S2 & _ & _).
    unfold mark_expanded. split; [apply upd_flag_SWF; [constructor|exact S1]|].
    apply EdgeStrict_upd; [constructor|].
    intros e Hin. rewrite sd_edges_ensure_root in Hin.
    destruct (swf_edges N d0 H1 e Hin) as (A1 & A2 & _).
    rewrite (extends_space _ _ _ S2 A1), (extends_space _ _ _ S2 A2). apply H2. exact Hin.
  - intros d0 i traps [H1 H2] Hi Hex Hok Htex.
    apply (ES_inv_close N i (n_space (get d0 i))).
    apply (C_skip_edges N i (ES_inv N i (n_space (get d0 i)))).
    + intros d1 c m H0 Hc Hm Hpm Hce Hsub. apply ES_inv_edge; assumption.
    + apply ES_inv_start; assumption.
    + eapply traps_ok_extends; [|exact Hok]. apply upd_flag_extends. constructor.
    + eapply traps_exp_extends; [|exact Hok|exact Htex]. apply upd_flag_extends. constructor.
  - split; assumption.
Qed.

Theorem init_EdgeStrict : forall N, EdgeStrict (init N).
Proof.
  intro N. unfold init. rewrite ensure_node_unfold.
  unfold find_node, find_key. simpl. intros e [].
Qed.

(* holds for every operation; the TrapNodes hypothesis is not needed *)
Theorem step_EdgeStrict : forall fuel N cfg d o,
  SWF N d -> TrapNodes N d -> EdgeStrict d -> EdgeStrict (fst (step fuel N cfg d o)).
Proof.
  intros fuel N cfg d o Hswf _ He.
  assert (H : SWF N (fst (step fuel N cfg d o)) /\ EdgeStrict (fst (step fuel N cfg d o))).
  { apply (B_step N cfg (fun d0 => SWF N d0 /\ EdgeStrict d0)).
    - intros d0 [H _]. exact H.
    - intros d0 i [H1 H2]. split; [|apply expand_one_ES; assumption].
      apply (expand_one_transfer N (SWF N) (prim_closed_SWF N)); exact H1.
    - intros d0 i f [H1 H2] _ Hf. apply cache_setter_flag in Hf.
      split; [apply upd_flag_SWF; assumption|apply EdgeStrict_upd; assumption].
    - intros d0 [H1 H2]. split; [apply reclaim_SWF; exact H1|].
      apply (EdgeStrict_same_shape d0); [apply spaces_reclaim|reflexivity|exact H2].
    - right. split; [|split].
      + intros tape S HS Hp _ d0 x s remaining [H1 H2] Hx Hed Hrem Hnone.
        destruct (has_edge_valid N d0 x s H1 Hed) as [_ Hs].
        apply make_skip_node_ES; try assumption.
        * intros m Hin. eapply (tape_min_traps N S tape); eauto.
        * intros Hex Hin. destruct (Hrem _ Hin) as [Hr|(j & Hj & Hsp & Hje)].
          -- apply has_edge_true in Hed. destruct Hed as (e & Hine & Hsrc & Hdst).
             destruct (H2 e Hine) as [Hsub _]. rewrite Hsrc, Hdst in Hsub.
             rewrite (Hnone _ Hr) in Hsub. discriminate Hsub.
          -- apply (spaces_inj N d0 j s H1 Hj Hs) in Hsp. subst j. congruence.
      + intros d0 i tape [H1 H2] Hi. apply skip_to_minimal_ES; assumption.
      + intros d0 tape [H1 H2]. apply skip_remaining_ES; assumption.
    - split; assumption. }
  exact (proj2 H).
Qed.

(* ================================================================== *)
(* 9. Rooted                                                           *)
(* ================================================================== *)

Lemma edge_added_has : forall d p c m,
  exists e, In e (edge_added d p c m) /\ e_src e = p /\ e_dst e = c.
Proof.
  intros d p c m. unfold edge_added. destruct (has_edge d p c) eqn:Eh.
  - apply has_edge_true in Eh. destruct Eh as (e & Hin & Hs & Hd).
    destruct (add_motif_keeps p c m _ e Hin) as (e' & Hin' & Hs' & Hd' & _).
    exists e'. split; [exact Hin'|]. split; congruence.
  - exists {| e_src := p; e_dst := c; e_motifs := [m] |}. split; [|split; reflexivity].
    apply in_or_app. right. left. reflexivity.
Qed.

Lemma Rooted_same_shape : forall d d',
  size d' = size d -> sd_edges d' = sd_edges d -> Rooted d -> Rooted d'.
Proof. intros d d' Hs He H i H0 Hi. rewrite He. apply H; [exact H0|]. rewrite <- Hs. exact Hi. Qed.

Lemma Rooted_added : forall d d' p c m,
  sd_edges d' = edge_added d p c m ->
  (size d' = size d \/ (c = size d /\ size d' = S (size d))) ->
  Rooted d -> Rooted d'.
Proof.
  intros d d' p c m He Hsz H i H0 Hi. rewrite He.
  destruct (lt_dec i (size d)) as [Hlt|Hge].
  - destruct (H i H0 Hlt) as (e & Hin & Hd).
    destruct (edge_added_keeps d p c m e Hin) as (e' & Hin' & _ & Hd' & _).
    exists e'. split; [exact Hin'|congruence].
  - destruct Hsz as [Hsz|[Hc Hsz]]; [lia|]. assert (Hic : i = c) by lia. subst i.
    destruct (edge_added_has d p c m) as (e & Hin & _ & Hd). exists e. auto.
Qed.

Lemma prim_Rooted_child : forall N d p m, Rooted d ->
  Rooted (fst (ensure_node N d (Some p) m)).
Proof.
  intros N d p m H.
  apply (Rooted_added d _ p (snd (ensure_node N d (Some p) m)) m).
  - apply sd_edges_ensure_child.
  - destruct (size_ensure_node_cases N d (Some p) m) as [[_ Hs]|(_ & Hc & Hs)]; auto.
  - exact H.
Qed.

Lemma prim_Rooted_upd : forall d i f, Rooted d -> Rooted (upd_node d i f).
Proof.
  intros d i f H. apply (Rooted_same_shape d); [apply size_upd_node|reflexivity|exact H].
Qed.

Section RootedInst.
  Variable N : net.
  Let Q (d : sd) : Prop := SWF N d /\ Rooted d.

  Lemma RI_swf : forall d, Q d -> SWF N d.
  Proof. intros d [H _]. exact H. Qed.

  Lemma RI_child : forall d p motif, Q d -> length motif = nvars N -> trap_space N motif ->
    p < size d -> Q (fst (ensure_node N d (Some p) motif)).
  Proof.
    intros d p motif [H1 H2] Hm _ Hp. split; [|apply prim_Rooted_child; exact H2].
    apply ensure_node_SWF; try assumption. intros p0 Heq. injection Heq as Heq. subst p0. exact Hp.
  Qed.

  Lemma RI_upd : forall d i f, Q d -> i < size d -> flag_setter f -> Q (upd_node d i f).
  Proof.
    intros d i f [H1 H2] _ Hf. split; [apply upd_flag_SWF; assumption|].
    apply prim_Rooted_upd. exact H2.
  Qed.

  Lemma RI_reclaim : forall d, Q d -> Q (reclaim d).
  Proof.
    intros d [H1 H2]. split; [apply reclaim_SWF; exact H1|].
    apply (Rooted_same_shape d); [apply size_reclaim|reflexivity|exact H2].
  Qed.

  (* every operation but skip_remaining (which creates parentless nodes) *)
  Lemma RI_step : forall fuel cfg d o, (forall t, o <> OSkipRemaining t) ->
    Q d -> Q (fst (step fuel N cfg d o)).
  Proof.
    intros fuel cfg d o Hno Hq. apply (B_step_op N cfg Q RI_swf).
    - intros d0 i Hq0. apply (TT_expand_one N Q RI_swf RI_child RI_upd). exact Hq0.
    - intros d0 i f Hq0 Hi Hf. apply RI_upd; [exact Hq0|exact Hi|apply cache_setter_flag; exact Hf].
    - exact RI_reclaim.
    - destruct o; simpl; try exact I.
      + destruct skip; [|exact I].
        intros S HS Hp _ d0 x s remaining Hq0 Hx He _ _.
        apply (TT_make_skip_node N Q RI_child RI_upd); [exact Hq0| |].
        * apply (has_edge_valid N d0 x s (RI_swf d0 Hq0) He).
        * intros m Hin. apply min_trap_trap. eapply (tape_min_traps N S tape); eauto.
      + intros d0 Hq0 Hi. apply (TT_skip_to_minimal N Q RI_swf RI_child RI_upd); assumption.
      + exfalso. apply (Hno tape). reflexivity.
    - exact Hq.
  Qed.
End RootedInst.

Theorem init_Rooted : forall N, Rooted (init N).
Proof.
  intro N. unfold init. rewrite ensure_node_unfold.
  unfold find_node, find_key. simpl. intros i H0 Hi. unfold size in Hi. simpl in Hi. lia.
Qed.

(* Rooted is preserved by every operation except skip_remaining, whose new
   minimal-trap nodes are created without a parent and only get edges from the
   unexpanded nodes that contain them *)
Theorem step_Rooted_ext : forall fuel N cfg d o, SWF N d -> (forall t, o <> OSkipRemaining t) ->
  Rooted d -> Rooted (fst (step fuel N cfg d o)).
Proof.
  intros fuel N cfg d o Hswf Hno Hr.
  apply (RI_step N fuel cfg d o Hno). split; assumption.
Qed.

Theorem step_Rooted : forall fuel N cfg d o, SWF N d -> plain o ->
  Rooted d -> Rooted (fst (step fuel N cfg d o)).
Proof.
  intros fuel N cfg d o Hswf Hpl Hr. apply step_Rooted_ext; try assumption.
  intros t Heq. subst o. exact Hpl.
Qed.

(* ================================================================== *)
(* 10. what expand_one establishes                                     *)
(* ================================================================== *)

Lemma insert_by_key_perm : forall x l, Permutation (insert_by_key x l) (x :: l).
Proof.
  intros x l. induction l as [|y r IH]; simpl; [apply Permutation_refl|].
  destruct (N.leb (space_key x) (space_key y)); [apply Permutation_refl|].
  eapply Permutation_trans; [apply perm_skip; exact IH|apply perm_swap].
Qed.

Lemma sort_by_key_perm : forall l, Permutation (sort_by_key l) l.
Proof.
  induction l as [|x r IH]; simpl; [apply Permutation_refl|].
  eapply Permutation_trans; [apply insert_by_key_perm|apply perm_skip; exact IH].
Qed.

Lemma subspace_full : forall S T, is_full S = true -> subspace T S = true -> T = S.
Proof.
  induction S as [|o S IH]; intros [|a T] Hf Hs; simpl in *; try discriminate; [reflexivity|].
  apply andb_true_iff in Hf. destruct Hf as [Ho Hf].
  apply andb_true_iff in Hs. destruct Hs as [Ha Hs].
  rewrite (IH T Hf Hs). destruct o as [v|]; [|discriminate].
  destruct a as [w|]; [|discriminate]. apply Bool.eqb_prop in Ha. subst w. reflexivity.
Qed.

Lemma no_strict_no_max : forall N S srcs, length S = nvars N ->
  (forall M, trap_space N M -> strict_subspace M S -> False) -> max_traps_b N S srcs = [].
Proof.
  intros N S srcs HS Hno. destruct (max_traps_b N S srcs) as [|M r] eqn:E; [reflexivity|].
  exfalso. assert (Hin : In M (max_traps_b N S srcs)) by (rewrite E; left; reflexivity).
  apply (max_traps_b_trap N S srcs M HS) in Hin. destruct Hin as [Ht Hs]. exact (Hno M Ht Hs).
Qed.

Lemma full_no_max : forall N S srcs, length S = nvars N -> is_full S = true ->
  max_traps_b N S srcs = [].
Proof.
  intros N S srcs HS Hf. apply no_strict_no_max; [exact HS|].
  intros M _ [Hsub Hne]. apply Hne. apply subspace_full; assumption.
Qed.

Lemma min_trap_no_max : forall N m srcs, min_trap N m -> max_traps_b N m srcs = [].
Proof.
  intros N m srcs Hm. apply no_strict_no_max; [apply min_trap_length; exact Hm|].
  intros M Ht [Hsub Hne]. apply Hne. destruct Hm as [_ Hmin]. apply Hmin; assumption.
Qed.

Lemma NSE_out_empty : forall p d i, NSE_except p d -> i <> p -> n_exp (get d i) = false ->
  out_edges d i = [].
Proof.
  intros p d i H Hne Hex. unfold out_edges.
  destruct (filter (fun e => Nat.eqb (e_src e) i) (sd_edges d)) as [|e r] eqn:E; [reflexivity|].
  exfalso. assert (Hin : In e (filter (fun e => Nat.eqb (e_src e) i) (sd_edges d)))
    by (rewrite E; left; reflexivity).
  apply filter_In in Hin. destruct Hin as [Hin Hs]. apply Nat.eqb_eq in Hs.
  destruct (H e Hin) as [Heq|Hx]; [congruence|]. rewrite Hs in Hx. congruence.
Qed.

Lemma NoStub_out_empty : forall d i, NoStubEdges d -> n_exp (get d i) = false -> out_edges d i = [].
Proof.
  intros d i H Hex. unfold out_edges.
  destruct (filter (fun e => Nat.eqb (e_src e) i) (sd_edges d)) as [|e r] eqn:E; [reflexivity|].
  exfalso. assert (Hin : In e (filter (fun e => Nat.eqb (e_src e) i) (sd_edges d)))
    by (rewrite E; left; reflexivity).
  apply filter_In in Hin. destruct Hin as [Hin Hs]. apply Nat.eqb_eq in Hs.
  pose proof (H e Hin) as Hx. rewrite Hs in Hx. congruence.
Qed.

(* ensure_all: old nodes, other out-edges, the out-motifs of the parent, new nodes *)
Lemma ensure_all_old : forall N subs d p j, j < size d ->
  node_eq_mod_depth (get d j) (get (ensure_all N d p subs) j).
Proof.
  intros N subs. induction subs as [|m r IH]; intros d p j Hj; simpl;
    [apply node_eq_mod_depth_refl|].
  eapply node_eq_mod_depth_trans; [apply (ensure_node_old N d (Some p) m j Hj)|].
  apply IH. eapply extends_lt; [apply ensure_node_extends|exact Hj].
Qed.

Lemma ensure_all_out_other : forall N subs d p j, j <> p ->
  out_edges (ensure_all N d p subs) j = out_edges d j.
Proof.
  intros N subs. induction subs as [|m r IH]; intros d p j Hne; simpl; [reflexivity|].
  rewrite IH by exact Hne. apply ensure_child_out_other. exact Hne.
Qed.

Lemma ensure_all_out_motifs : forall N subs d p,
  Permutation (out_motifs (ensure_all N d p subs) p) (out_motifs d p ++ subs).
Proof.
  intros N subs. induction subs as [|m r IH]; intros d p; simpl.
  - rewrite app_nil_r. apply Permutation_refl.
  - eapply Permutation_trans; [apply IH|].
    replace (out_motifs d p ++ m :: r) with ((out_motifs d p ++ [m]) ++ r)
      by (rewrite <- app_assoc; reflexivity).
    apply Permutation_app_tail. apply ensure_child_out_motifs.
Qed.

Lemma ensure_all_new : forall N subs d p j,
  size d <= j -> j < size (ensure_all N d p subs) ->
  n_exp (get (ensure_all N d p subs) j) = false /\ n_skip (get (ensure_all N d p subs) j) = false.
Proof.
  intros N subs. induction subs as [|m r IH]; intros d p j Hle Hlt; simpl in *; [lia|].
  destruct (lt_dec j (size (fst (ensure_node N d (Some p) m)))) as [Hj|Hj].
  - destruct (ensure_node_new N d (Some p) m j Hle Hj) as [H1 H2].
    destruct (ensure_all_old N r (fst (ensure_node N d (Some p) m)) p j Hj) as (_ & He & Hs & _).
    rewrite He, Hs. auto.
  - apply IH; [lia|exact Hlt].
Qed.

Lemma solver_len_all : forall total limit, 1 <= limit ->
  solver_len total limit <> limit -> solver_len total limit = total.
Proof. intros total limit H1 Hne. unfold solver_len in *. lia. Qed.

Lemma out_motifs_same_edges : forall d d' j, sd_edges d' = sd_edges d -> out_motifs d' j = out_motifs d j.
Proof. intros d d' j He. unfold out_motifs, out_edges. rewrite He. reflexivity. Qed.

Lemma out_edges_same_edges : forall d d' j, sd_edges d' = sd_edges d -> out_edges d' j = out_edges d j.
Proof. intros d d' j He. unfold out_edges. rewrite He. reflexivity. Qed.

Theorem expand_one_canonical : forall N cfg d i d', SWF N d -> NoStubEdges d -> i < size d ->
  n_exp (get d i) = false -> 1 <= max_motifs cfg ->
  expand_one N cfg d i = (d', RUnit) ->
  n_exp (get d' i) = true /\ n_skip (get d' i) = n_skip (get d i) /\ canonical N d' i /\
  (forall j, j < size d -> j <> i ->
     out_edges d' j = out_edges d j /\ n_exp (get d' j) = n_exp (get d j) /\
     n_skip (get d' j) = n_skip (get d j)).
Proof.
  intros N cfg d i d' Hswf Hn Hi Hex Hmm E.
  assert (HS : length (n_space (get d i)) = nvars N).
  { apply (swf_len N d Hswf). apply get_In. exact Hi. }
  pose proof (NoStub_out_empty d i Hn Hex) as Hout.
  apply expand_one_cases in E.
  destruct E as [(Hx & _)|[(_ & Ef & Hd & _)|[(_ & _ & _ & _ & Hr)|(_ & Ef & Hk & Hd & _)]]].
  - congruence.
  - subst d'.
    assert (Hi0 : i < size (upd_node d i clear_attr)) by (rewrite size_upd_node; exact Hi).
    split; [rewrite get_upd_node_eq by exact Hi0; reflexivity|].
    split; [rewrite get_upd_node_eq by exact Hi0; rewrite get_upd_node_eq by exact Hi; reflexivity|].
    split.
    + unfold canonical. rewrite !n_space_upd_flag by constructor.
      rewrite (out_motifs_same_edges d) by reflexivity.
      unfold out_motifs. rewrite Hout. simpl.
      rewrite full_no_max by assumption. apply perm_nil.
    + intros j Hj Hne. rewrite !get_upd_node_neq by lia. split; [|split]; reflexivity.
  - discriminate Hr.
  - assert (Hkall : eo_k N cfg d i = length (eo_all N d i)).
    { unfold eo_k in *. apply solver_len_all; assumption. }
    rewrite Hkall, firstn_all in Hd. subst d'.
    remember (upd_node d i clear_attr) as d0 eqn:Ed0.
    assert (Hsz0 : size d0 = size d) by (rewrite Ed0; apply size_upd_node).
    assert (Hsp0 : forall j, n_space (get d0 j) = n_space (get d j)).
    { intro j. rewrite Ed0. apply n_space_upd_flag. constructor. }
    assert (Hget0 : forall j, j <> i -> get d0 j = get d j).
    { intros j Hne. rewrite Ed0. apply get_upd_node_neq. lia. }
    assert (Hgeti0 : get d0 i = clear_attr (get d i)).
    { rewrite Ed0. apply get_upd_node_eq. exact Hi. }
    assert (Hed0 : sd_edges d0 = sd_edges d) by (rewrite Ed0; reflexivity).
    clear Ed0.
    pose proof (ensure_all_old N (eo_all N d i) d0 i) as Hold.
    pose proof (ensure_all_out_other N (eo_all N d i) d0 i) as Hother.
    pose proof (ensure_all_out_motifs N (eo_all N d i) d0 i) as Hmot.
    pose proof (ensure_all_extends N (eo_all N d i) d0 i) as Hext.
    remember (ensure_all N d0 i (eo_all N d i)) as d1 eqn:Ed1. clear Ed1.
    assert (Hi0 : i < size d0) by (rewrite Hsz0; exact Hi).
    assert (Hi1 : i < size d1) by (eapply extends_lt; eauto).
    split; [rewrite get_upd_node_eq by exact Hi1; reflexivity|].
    split.
    { rewrite get_upd_node_eq by exact Hi1. simpl.
      destruct (Hold i Hi0) as (_ & _ & Hs & _). rewrite Hs, Hgeti0. reflexivity. }
    split.
    { unfold canonical. rewrite n_space_upd_flag by constructor.
      destruct (Hold i Hi0) as (Hsp & _). rewrite Hsp, Hsp0.
      rewrite (out_motifs_same_edges d1) by reflexivity.
      eapply Permutation_trans; [exact Hmot|].
      rewrite (out_motifs_same_edges d d0) by exact Hed0.
      unfold out_motifs at 1. rewrite Hout. simpl. apply sort_by_key_perm. }
    intros j Hj Hne.
    assert (Hj0 : j < size d0) by (rewrite Hsz0; exact Hj).
    rewrite get_upd_node_neq by lia.
    destruct (Hold j Hj0) as (_ & He & Hs & _). rewrite He, Hs, (Hget0 j Hne).
    split; [|split; reflexivity].
    rewrite (out_edges_same_edges d1) by reflexivity.
    rewrite Hother by exact Hne. apply out_edges_same_edges. exact Hed0.
Qed.

Theorem expand_one_raise_unchanged : forall N cfg d i d' e,
  expand_one N cfg d i = (d', RRaised e) ->
  sd_edges d' = sd_edges d /\ size d' = size d /\
  (forall j, n_exp (get d' j) = n_exp (get d j) /\ n_space (get d' j) = n_space (get d j)).
Proof.
  intros N cfg d i d' e E. apply expand_one_cases in E.
  destruct E as [(_ & _ & Hr)|[(_ & _ & _ & Hr)|[(_ & _ & _ & Hd & _)|(_ & _ & _ & _ & Hr)]]];
    try discriminate Hr.
  subst d'. split; [reflexivity|]. split; [apply size_upd_node|].
  intro j. destruct (get_upd_node_cases d i j clear_attr) as [Hg|(_ & _ & Hg)]; rewrite Hg;
    split; reflexivity.
Qed.

(* ================================================================== *)
(* 11. Faithful                                                        *)
(* ================================================================== *)

(* canonical for the expanded ordinary nodes selected by P *)
Definition FaithfulOn (P : nat -> Prop) (N : net) (d : sd) : Prop :=
  forall j, j < size d -> P j -> n_exp (get d j) = true -> n_skip (get d j) = false ->
    canonical N d j.

Lemma Faithful_On : forall N d, Faithful N d <-> FaithfulOn (fun _ => True) N d.
Proof.
  intros N d. unfold Faithful, FaithfulOn. split.
  - intros H j Hj _. apply H. exact Hj.
  - intros H j Hj. apply H; [exact Hj|exact I].
Qed.

Lemma canonical_same : forall N d d' j,
  out_edges d' j = out_edges d j -> n_space (get d' j) = n_space (get d j) ->
  canonical N d j -> canonical N d' j.
Proof.
  intros N d d' j Ho Hs H. unfold canonical, out_motifs in *. rewrite Ho, Hs. exact H.
Qed.

(* the diagram grows: selected old nodes keep flags, space and out-edges; new nodes are stubs *)
Lemma FaithfulOn_grow : forall (P : nat -> Prop) N d d',
  size d <= size d' ->
  (forall j, j < size d -> node_eq_mod_depth (get d j) (get d' j)) ->
  (forall j, j < size d -> P j -> out_edges d' j = out_edges d j) ->
  (forall j, size d <= j -> j < size d' -> n_exp (get d' j) = false) ->
  FaithfulOn P N d -> FaithfulOn P N d'.
Proof.
  intros P N d d' Hsz Hold Hout Hnew H j Hj HP Hex Hsk.
  destruct (lt_dec j (size d)) as [Hlt|Hge].
  - destruct (Hold j Hlt) as (Hsp & He & Hs & _).
    apply (canonical_same N d); [apply Hout; assumption|exact Hsp|].
    apply H; try assumption; congruence.
  - rewrite Hnew in Hex by lia. discriminate Hex.
Qed.

(* a flag update at a node that is not selected *)
Lemma FaithfulOn_upd_out : forall (P : nat -> Prop) N d i f, flag_setter f -> ~ P i ->
  FaithfulOn P N d -> FaithfulOn P N (upd_node d i f).
Proof.
  intros P N d i f Hf Hni H j Hj HP Hex Hsk. rewrite size_upd_node in Hj.
  assert (Hne : i <> j) by (intro Heq; subst j; exact (Hni HP)).
  rewrite get_upd_node_neq in Hex, Hsk by exact Hne.
  apply (canonical_same N d); [reflexivity|apply n_space_upd_flag; exact Hf|].
  apply H; assumption.
Qed.

(* an update that leaves n_exp, n_skip and n_space alone *)
Lemma FaithfulOn_upd_neutral : forall (P : nat -> Prop) N d i f, flag_setter f ->
  (forall x, n_exp (f x) = n_exp x) -> (forall x, n_skip (f x) = n_skip x) ->
  FaithfulOn P N d -> FaithfulOn P N (upd_node d i f).
Proof.
  intros P N d i f Hf He Hs H j Hj HP Hex Hsk. rewrite size_upd_node in Hj.
  apply (canonical_same N d); [reflexivity|apply n_space_upd_flag; exact Hf|].
  destruct (get_upd_node_cases d i j f) as [Hg|(_ & _ & Hg)]; rewrite Hg in Hex, Hsk.
  - apply H; assumption.
  - rewrite He in Hex. rewrite Hs in Hsk. apply H; assumption.
Qed.

(* marking a stub whose space is a minimal trap space: nothing to carry *)
Lemma canonical_mark_min : forall N d c f, flag_setter f -> min_trap N (n_space (get d c)) ->
  out_edges d c = [] -> canonical N (upd_node d c f) c.
Proof.
  intros N d c f Hf Hmin Hout. unfold canonical. rewrite n_space_upd_flag by exact Hf.
  rewrite (out_motifs_same_edges d) by reflexivity. unfold out_motifs. rewrite Hout. simpl.
  rewrite min_trap_no_max by exact Hmin. apply perm_nil.
Qed.

Lemma FaithfulOn_mark_min : forall (P : nat -> Prop) N d c,
  min_trap N (n_space (get d c)) -> (n_exp (get d c) = false -> out_edges d c = []) ->
  FaithfulOn P N d -> FaithfulOn P N (mark_expanded d c).
Proof.
  intros P N d c Hmin Hout H j Hj HP Hex Hsk. unfold mark_expanded in *.
  rewrite size_upd_node in Hj.
  destruct (Nat.eq_dec c j) as [Heq|Hne].
  - subst j. rewrite get_upd_node_eq in Hsk by exact Hj. simpl in Hsk.
    destruct (n_exp (get d c)) eqn:Ec.
    + apply (canonical_same N d); [reflexivity|apply n_space_upd_flag; constructor|].
      apply H; assumption.
    + apply canonical_mark_min; [constructor|exact Hmin|apply Hout; reflexivity].
  - rewrite get_upd_node_neq in Hex, Hsk by exact Hne.
    apply (canonical_same N d); [reflexivity|apply n_space_upd_flag; constructor|].
    apply H; assumption.
Qed.

Definition FE_inv (N : net) (p : nat) (d : sd) : Prop :=
  NSE_inv N p d /\ FaithfulOn (fun j => j <> p) N d.

Lemma FE_inv_child : forall N p d m, FE_inv N p d -> length m = nvars N ->
  FE_inv N p (fst (ensure_node N d (Some p) m)).
Proof.
  intros N p d m [H1 H2] Hm. split; [apply NSE_inv_child; assumption|].
  apply (FaithfulOn_grow (fun j => j <> p) N d).
  - apply extends_size. apply ensure_node_extends.
  - intros j Hj. apply ensure_node_old. exact Hj.
  - intros j _ Hne. apply ensure_child_out_other. exact Hne.
  - intros j Hle Hlt. apply (ensure_node_new N d (Some p) m j Hle Hlt).
  - exact H2.
Qed.

Lemma FE_inv_mark : forall N p d m, FE_inv N p d -> length m = nvars N -> min_trap N m ->
  FE_inv N p (mark_expanded (fst (ensure_node N d (Some p) m)) (snd (ensure_node N d (Some p) m))).
Proof.
  intros N p d m H Hm Hmin. pose proof (FE_inv_child N p d m H Hm) as [K1 K2].
  destruct H as [(S1 & S2 & _) _].
  destruct (ensure_child_spec N d p m S1 Hm S2) as (_ & _ & _ & Hsp).
  split; [unfold mark_expanded; apply NSE_inv_upd; [constructor|exact K1]|].
  destruct (Nat.eq_dec (snd (ensure_node N d (Some p) m)) p) as [Heq|Hne].
  - unfold mark_expanded. apply FaithfulOn_upd_out; [constructor| |exact K2].
    intro Hn. apply Hn. exact Heq.
  - apply FaithfulOn_mark_min; [| |exact K2].
    + rewrite Hsp, (min_trap_percolate N m Hmin). exact Hmin.
    + intro Hex. destruct K1 as (_ & _ & K3). apply (NSE_out_empty p); assumption.
Qed.

Lemma FE_inv_edge : forall N p d c m, FE_inv N p d -> c < size d -> length m = nvars N ->
  percolate_b N m = n_space (get d c) -> FE_inv N p (ensure_edge d p c m).
Proof.
  intros N p d c m [H1 H2] Hc Hm Hpm. split; [apply NSE_inv_edge; assumption|].
  apply (FaithfulOn_grow (fun j => j <> p) N d).
  - rewrite size_ensure_edge. lia.
  - intros j _. apply get_ensure_edge.
  - intros j _ Hne. apply ensure_edge_out_other. exact Hne.
  - intros j Hle Hlt. rewrite size_ensure_edge in Hlt. lia.
  - exact H2.
Qed.

Lemma FaithfulOn_weaken : forall (P P' : nat -> Prop) N d,
  (forall j, P' j -> P j) -> FaithfulOn P N d -> FaithfulOn P' N d.
Proof. intros P P' N d Hw H j Hj HP. apply H; [exact Hj|apply Hw; exact HP]. Qed.

Lemma FE_inv_start : forall N p d, SWF N d -> NoStubEdges d -> Faithful N d -> p < size d ->
  FE_inv N p (upd_node d p clear_attr).
Proof.
  intros N p d Hswf Hn Hf Hp. split; [apply NSE_inv_start; assumption|].
  apply FaithfulOn_upd_out; [constructor|intro Hn0; apply Hn0; reflexivity|].
  apply (FaithfulOn_weaken (fun _ => True)); [auto|]. apply Faithful_On. exact Hf.
Qed.

(* closing: what is known about p itself decides *)
Lemma FaithfulOn_close : forall N p d, FaithfulOn (fun j => j <> p) N d ->
  (n_exp (get d p) = true -> n_skip (get d p) = false -> canonical N d p) -> Faithful N d.
Proof.
  intros N p d H Hp j Hj Hex Hsk. destruct (Nat.eq_dec j p) as [Heq|Hne].
  - subst j. apply Hp; assumption.
  - apply H; assumption.
Qed.

Lemma FE_inv_close_skip : forall N p d, FE_inv N p d ->
  SWF N (upd_node (mark_expanded d p) p (fun y => set_skip y true)) /\
  NoStubEdges (upd_node (mark_expanded d p) p (fun y => set_skip y true)) /\
  Faithful N (upd_node (mark_expanded d p) p (fun y => set_skip y true)).
Proof.
  intros N p d [H1 H2]. destruct (NSE_inv_close_skip N p d H1) as [K1 K2].
  split; [exact K1|]. split; [exact K2|].
  destruct H1 as (_ & Hp & _).
  apply (FaithfulOn_close N p).
  - apply FaithfulOn_upd_out; [constructor|intro Hn; apply Hn; reflexivity|].
    unfold mark_expanded.
    apply FaithfulOn_upd_out; [constructor|intro Hn; apply Hn; reflexivity|exact H2].
  - intros _ Hsk. rewrite get_upd_node_eq in Hsk by (rewrite size_mark_expanded; exact Hp).
    simpl in Hsk. discriminate Hsk.
Qed.

Lemma expand_one_Faithful : forall N cfg d i, 1 <= max_motifs cfg ->
  SWF N d -> NoStubEdges d -> Faithful N d -> Faithful N (fst (expand_one N cfg d i)).
Proof.
  intros N cfg d i Hmm Hswf Hn Hf.
  destruct (lt_dec i (size d)) as [Hi|Hge];
    [|rewrite expand_one_beyond by lia; exact Hf].
  destruct (expand_one N cfg d i) as [d' r] eqn:E. simpl.
  pose proof (expand_one_canonical N cfg d i d' Hswf Hn Hi) as Hcan.
  pose proof E as E0. apply expand_one_cases in E0.
  destruct E0 as [(_ & Hd & _)|[(Hex & _ & Hd & Hr)|[(_ & _ & _ & Hd & _)|(Hex & Ef & _ & Hd & Hr)]]].
  - subst d'. exact Hf.
  - subst r. destruct (Hcan Hex Hmm E) as (_ & _ & Hc & _). subst d'.
    apply (FaithfulOn_close N i); [|intros _ _; exact Hc].
    apply FaithfulOn_upd_out; [constructor|intro Hn0; apply Hn0; reflexivity|].
    apply (FE_inv_start N i d Hswf Hn Hf Hi).
  - subst d'. apply Faithful_On.
    apply FaithfulOn_upd_neutral; [constructor|reflexivity|reflexivity|].
    apply Faithful_On. exact Hf.
  - subst r. destruct (Hcan Hex Hmm E) as (_ & _ & Hc & _). subst d'.
    apply (FaithfulOn_close N i); [|intros _ _; exact Hc].
    apply FaithfulOn_upd_out; [constructor|intro Hn0; apply Hn0; reflexivity|].
    assert (H1 : FE_inv N i (ensure_all N (upd_node d i clear_attr) i
                               (firstn (eo_k N cfg d i) (eo_all N d i)))).
    { apply (C_ensure_all N i (FE_inv N i) (fun m => length m = nvars N)).
      - intros d0 m H0 Hm. apply FE_inv_child; assumption.
      - apply FE_inv_start; assumption.
      - intros m Hin. apply In_firstn_in in Hin. apply (eo_all_In N d i m Hswf Hi Hin). }
    exact (proj2 H1).
Qed.

Lemma FE_min_children : forall N p d mins, FE_inv N p d ->
  (forall m, In m mins -> min_trap N m) -> FE_inv N p (ensure_min_children N d p mins).
Proof.
  intros N p d mins H Hmin.
  apply (C_ensure_min_children N p (FE_inv N p) (fun m => length m = nvars N)).
  - intros d0 m H0 Hm Hmt. apply FE_inv_mark; assumption.
  - exact H.
  - intros m Hin. split; [apply min_trap_length|]; apply Hmin; exact Hin.
Qed.

Definition SNF (N : net) (d : sd) : Prop := SWF N d /\ NoStubEdges d /\ Faithful N d.

Lemma make_skip_node_SNF : forall N d i all_min, SNF N d -> i < size d ->
  (forall m, In m all_min -> min_trap N m) -> SNF N (make_skip_node N d i all_min).
Proof.
  intros N d i all_min (Hswf & Hn & Hf) Hi Hmin. unfold make_skip_node.
  destruct (n_exp (get d i)); [split; [|split]; assumption|].
  apply FE_inv_close_skip. apply FE_min_children.
  - apply FE_inv_start; assumption.
  - intros m Hin. apply filter_In in Hin. apply Hmin. apply Hin.
Qed.

Lemma skip_to_minimal_SNF : forall N d i tape, SNF N d -> i < size d ->
  SNF N (fst (skip_to_minimal_t N d i tape)).
Proof.
  intros N d i tape (Hswf & Hn & Hf) Hi. unfold skip_to_minimal_t.
  destruct (n_exp (get d i)) eqn:Ex; [split; [|split]; assumption|].
  destruct (negb (perm_of tape (min_traps_b N (n_space (get d i))))) eqn:Ep;
    [split; [|split]; assumption|].
  assert (HS : length (n_space (get d i)) = nvars N).
  { apply (swf_len N d Hswf). apply get_In. exact Hi. }
  pose proof (tape_min_traps N (n_space (get d i)) tape HS Ep) as Hmin.
  pose proof (FE_inv_start N i d Hswf Hn Hf Hi) as H0.
  assert (Hcommon :
    SNF N (upd_node (mark_expanded (ensure_min_children N (upd_node d i clear_attr) i tape) i) i
                    (fun y => set_skip y true))).
  { apply FE_inv_close_skip. apply FE_min_children; [exact H0|].
    intros m Hin. apply (Hmin m Hin). }
  destruct tape as [|m [|m2 r]]; simpl; try exact Hcommon.
  destruct (eqb_space m (n_space (get d i))) eqn:Eeq; simpl; [|exact Hcommon].
  apply eqb_space_spec in Eeq. subst m.
  destruct (Hmin _ (or_introl eq_refl)) as [Hmt _].
  destruct H0 as [K1 K2]. destruct (NSE_inv_close N i _ K1) as [C1 C2].
  split; [exact C1|]. split; [exact C2|].
  apply (FaithfulOn_close N i).
  - unfold mark_expanded. apply FaithfulOn_upd_out; [constructor|intro Hn0; apply Hn0; reflexivity|].
    exact K2.
  - intros _ _. unfold mark_expanded. apply canonical_mark_min; [constructor| |].
    + rewrite n_space_upd_flag by constructor. exact Hmt.
    + rewrite (out_edges_same_edges d) by reflexivity. apply NoStub_out_empty; assumption.
Qed.

Lemma skip_remaining_SNF : forall N d tape, SNF N d -> SNF N (fst (skip_remaining N d tape)).
Proof.
  intros N d tape Hq. apply (S_skip_remaining N (SNF N)).
  - intros d0 [H _]. exact H.
  - intros d0 m (H1 & H2 & H3) Hmt. pose proof (min_trap_length N m Hmt) as Hm.
    destruct (ensure_root_spec N d0 m H1 Hm) as (S1 & S2 & S3 & S4).
    assert (Hn1 : NoStubEdges (fst (ensure_node N d0 None m))).
    { intros e Hin. rewrite sd_edges_ensure_root in Hin.
      destruct S2 as (_ & _ & S5 & _). apply S5; [apply (swf_edges N d0 H1 e Hin)|].
      apply H2. exact Hin. }
    split; [unfold mark_expanded; apply upd_flag_SWF; [constructor|exact S1]|].
    split; [unfold mark_expanded; apply NoStubEdges_upd; [constructor|exact Hn1]|].
    apply Faithful_On. apply FaithfulOn_mark_min.
    + rewrite S4, (min_trap_percolate N m Hmt). exact Hmt.
    + intro Hex. apply NoStub_out_empty; assumption.
    + apply (FaithfulOn_grow (fun _ => True) N d0).
      * apply extends_size. exact S2.
      * intros j Hj. apply ensure_node_old. exact Hj.
      * intros j _ _. apply out_edges_same_edges. apply sd_edges_ensure_root.
      * intros j Hle Hlt. apply (ensure_node_new N d0 None m j Hle Hlt).
      * apply Faithful_On. exact H3.
  - intros d0 i traps (H1 & H2 & H3) Hi _ Hok Hex.
    apply FE_inv_close_skip.
    apply (C_skip_edges N i (FE_inv N i)).
    + intros d1 c m H0 Hc Hm Hpm _ _. apply FE_inv_edge; assumption.
    + apply FE_inv_start; assumption.
    + eapply traps_ok_extends; [|exact Hok]. apply upd_flag_extends. constructor.
    + eapply traps_exp_extends; [|exact Hok|exact Hex]. apply upd_flag_extends. constructor.
  - exact Hq.
Qed.

Theorem init_Faithful : forall N, Faithful N (init N).
Proof.
  intro N. unfold init. rewrite ensure_node_unfold.
  unfold find_node, find_key. simpl. intros j Hj Hex.
  unfold size in Hj. simpl in Hj. assert (j = 0) by lia. subst j.
  unfold get in Hex. simpl in Hex. discriminate Hex.
Qed.

Lemma SNF_step : forall fuel N cfg d o, 1 <= max_motifs cfg -> SNF N d ->
  SNF N (fst (step fuel N cfg d o)).
Proof.
  intros fuel N cfg d o Hmm Hq. apply (B_step N cfg (SNF N)).
  - intros d0 [H _]. exact H.
  - intros d0 i (H1 & H2 & H3).
    split; [apply (expand_one_transfer N (SWF N) (prim_closed_SWF N)); exact H1|].
    split; [apply expand_one_NSE; assumption|apply expand_one_Faithful; assumption].
  - intros d0 i f (H1 & H2 & H3) _ Hf.
    split; [apply upd_flag_SWF; [apply cache_setter_flag; exact Hf|exact H1]|].
    split; [apply NoStubEdges_upd; [apply cache_setter_flag; exact Hf|exact H2]|].
    apply Faithful_On. apply FaithfulOn_upd_neutral.
    + apply cache_setter_flag. exact Hf.
    + intro x. apply cache_setter_exp. exact Hf.
    + intro x. apply cache_setter_skip. exact Hf.
    + apply Faithful_On. exact H3.
  - intros d0 (H1 & H2 & H3). split; [apply reclaim_SWF; exact H1|]. split.
    + intros e Hin. simpl in Hin. destruct (reclaim_extends d0) as (_ & _ & K & _).
      apply K; [apply (swf_edges N d0 H1 e Hin)|apply H2; exact Hin].
    + intros j Hj Hex Hsk. rewrite size_reclaim in Hj. rewrite get_reclaim in Hex, Hsk.
      apply (canonical_same N d0).
      * reflexivity.
      * rewrite get_reclaim. destruct (n_seeds (get d0 j)); reflexivity.
      * apply H3; [exact Hj| |]; destruct (n_seeds (get d0 j)); assumption.
  - right. split; [|split].
    + intros tape S HS Hp _ d0 x s remaining Hq0 Hx He _ _.
      apply make_skip_node_SNF; [exact Hq0| |].
      * apply (has_edge_valid N d0 x s (proj1 Hq0) He).
      * intros m Hin. eapply (tape_min_traps N S tape); eauto.
    + intros d0 i tape Hq0 Hi. apply skip_to_minimal_SNF; assumption.
    + intros d0 tape Hq0. apply skip_remaining_SNF. exact Hq0.
  - exact Hq.
Qed.

(* Faithful is preserved by every operation, skip operations included: the nodes
   they mark expanded are either flagged n_skip or minimal trap spaces without out-edges *)
Theorem step_Faithful_all : forall fuel N cfg d o, 1 <= max_motifs cfg ->
  SWF N d -> NoStubEdges d -> Faithful N d -> Faithful N (fst (step fuel N cfg d o)).
Proof.
  intros fuel N cfg d o Hmm Hswf Hn Hf.
  apply (SNF_step fuel N cfg d o Hmm). split; [|split]; assumption.
Qed.

Theorem step_Faithful : forall fuel N cfg d o, 1 <= max_motifs cfg ->
  SWF N d -> NoStubEdges d -> Faithful N d -> plain o ->
  Faithful N (fst (step fuel N cfg d o)).
Proof.
  intros fuel N cfg d o Hmm Hswf Hn Hf _. apply step_Faithful_all; assumption.
Qed.

(* ================================================================== *)
(* 11b. two remarks on the skip operations                             *)
(* ================================================================== *)

(* make_skip_node on its own does create a self-loop when the skipped stub is itself
   one of the minimal trap spaces (Python: `assert sd.node_is_minimal(m_id)` would
   fail); make_skip_node_ES needs its last hypothesis.  Inside expand_min the case is
   excluded (see step_EdgeStrict): the space of an unexpanded node is still in
   `remaining` and lies inside the space of its parent. *)
Lemma ensure_min_children_self_loop : forall N i S mins d,
  SWF N d -> i < size d -> n_space (get d i) = S -> In S mins ->
  (forall m, In m mins -> length m = nvars N) ->
  has_edge (ensure_min_children N d i mins) i i = true.
Proof.
  intros N i S mins. induction mins as [|m r IH]; intros d Hswf Hi HS Hin Hlen; [contradiction|].
  unfold ensure_min_children; fold ensure_min_children.
  assert (Hm : length m = nvars N) by (apply Hlen; left; reflexivity).
  destruct (ensure_child_spec N d i m Hswf Hm Hi) as (S1 & S2 & S3 & S4).
  pose proof (sd_edges_ensure_child N d i m) as Hed.
  destruct (ensure_node N d (Some i) m) as [d1 c] eqn:E. simpl in *.
  pose proof (mark_expanded_extends d1 c) as He1.
  destruct (eqb_space m S) eqn:Eeq.
  - apply eqb_space_spec in Eeq. subst m.
    assert (Hc : c = i).
    { assert (Hp : percolate_b N S = S).
      { rewrite <- HS. apply (swf_closed N d Hswf). apply get_In. exact Hi. }
      rewrite Hp in S4.
      apply (spaces_inj N d1 c i S1 S3); [eapply extends_lt; eauto|].
      rewrite S4, (extends_space d d1 i S2 Hi). symmetry. exact HS. }
    subst c.
    eapply has_edge_extends; [apply ensure_min_children_extends|].
    eapply has_edge_extends; [exact He1|].
    apply has_edge_true. destruct (edge_added_has d i i S) as (e & Hine & Hs & Hd).
    exists e. rewrite Hed. auto.
  - apply IH.
    + unfold mark_expanded. apply upd_flag_SWF; [constructor|exact S1].
    + rewrite size_mark_expanded. eapply extends_lt; eauto.
    + rewrite n_space_mark_expanded, (extends_space d d1 i S2 Hi). exact HS.
    + destruct Hin as [Heq|Hin]; [|exact Hin]. subst m.
      rewrite (proj2 (eqb_space_spec S S) eq_refl) in Eeq. discriminate Eeq.
    + intros m0 Hm0. apply Hlen. right. exact Hm0.
Qed.

Lemma make_skip_node_self_loop : forall N d i all_min, SWF N d -> i < size d ->
  n_exp (get d i) = false -> In (n_space (get d i)) all_min ->
  (forall m, In m all_min -> length m = nvars N) ->
  has_edge (make_skip_node N d i all_min) i i = true.
Proof.
  intros N d i all_min Hswf Hi Hex Hin Hlen. unfold make_skip_node. rewrite Hex.
  eapply has_edge_extends.
  { eapply extends_trans; [apply mark_expanded_extends|apply upd_flag_extends; constructor]. }
  apply (ensure_min_children_self_loop N i (n_space (get d i))).
  - apply upd_flag_SWF; [constructor|exact Hswf].
  - rewrite size_upd_node. exact Hi.
  - apply n_space_upd_flag. constructor.
  - apply filter_In. split; [exact Hin|apply subspace_refl].
  - intros m Hm. apply filter_In in Hm. apply Hlen. apply Hm.
Qed.

(* Rooted is not preserved by skip_remaining from SWF and Rooted alone: one self-
   regulating variable, the root marked expanded without successors; the two
   minimal trap spaces are created without a parent and nobody links to them. *)
Definition cx_net : net := [fun s => nth 0 s false].
Definition cx_sd : sd :=
  {| sd_nodes := [{| n_space := [None]; n_depth := 0; n_exp := true; n_skip := false;
                     n_parent := None; n_cands := None; n_seeds := None; n_sets := None |}];
     sd_edges := [] |}.
Definition cx_tape : list space := [[Some false]; [Some true]].

Lemma Rooted_skip_remaining_counterexample :
  SWF cx_net cx_sd /\ Rooted cx_sd /\ snd (skip_remaining cx_net cx_sd cx_tape) = RNat 0 /\
  ~ Rooted (fst (skip_remaining cx_net cx_sd cx_tape)).
Proof.
  split; [|split; [|split]].
  - constructor.
    + unfold size. simpl. lia.
    + intros x [Heq|[]]. subst x. reflexivity.
    + unfold spaces. simpl. constructor; [intros []|constructor].
    + intros e [].
    + simpl. constructor.
    + intros x [Heq|[]]. subst x. vm_compute. reflexivity.
    + intros e m [].
  - intros i H0 Hi. unfold size in Hi. simpl in Hi. lia.
  - vm_compute. reflexivity.
  - intro H. destruct (H 1) as (e & Hin & _); [lia|vm_compute; lia|].
    vm_compute in Hin. exact Hin.
Qed.

(* ================================================================== *)
(* 12. everything together along runs                                  *)
(* ================================================================== *)

Definition AllInv (N : net) (d : sd) : Prop :=
  SWF N d /\ TrapNodes N d /\ EdgeStrict d /\ NoStubEdges d /\ Rooted d /\ Faithful N d.

Lemma init_AllInv : forall N, AllInv N (init N).
Proof.
  intro N. split; [apply init_SWF|]. split; [apply init_TrapNodes|].
  split; [apply init_EdgeStrict|]. split; [apply init_NoStubEdges|].
  split; [apply init_Rooted|apply init_Faithful].
Qed.

Lemma step_AllInv : forall fuel N cfg d o, 1 <= max_motifs cfg -> plain o ->
  AllInv N d -> AllInv N (fst (step fuel N cfg d o)).
Proof.
  intros fuel N cfg d o Hmm Hpl (H1 & H2 & H3 & H4 & H5 & H6).
  split; [apply step_SWF; exact H1|]. split; [apply step_TrapNodes; assumption|].
  split; [apply step_EdgeStrict; assumption|]. split; [apply step_NoStubEdges; assumption|].
  split; [apply step_Rooted; assumption|apply step_Faithful; assumption].
Qed.

Lemma run_invariants_from : forall fuel N cfg h d0 d r, 1 <= max_motifs cfg -> Forall plain h ->
  AllInv N d0 -> In (d, r) (run fuel N cfg d0 h) -> AllInv N d.
Proof.
  intros fuel N cfg h. induction h as [|o h IH]; intros d0 d r Hmm Hpl H0 Hin; simpl in Hin;
    [contradiction|].
  inversion Hpl as [|? ? Ho Hh]; subst.
  pose proof (step_AllInv fuel N cfg d0 o Hmm Ho H0) as H1.
  destruct (step fuel N cfg d0 o) as [d1 x]. simpl in H1.
  destruct Hin as [Heq|Hin].
  - injection Heq as Hd Hr. subst d. exact H1.
  - eapply IH; eauto.
Qed.

Theorem run_invariants : forall fuel N cfg h d r, 1 <= max_motifs cfg -> Forall plain h ->
  In (d, r) (run fuel N cfg (init N) h) ->
  SWF N d /\ TrapNodes N d /\ EdgeStrict d /\ NoStubEdges d /\ Rooted d /\ Faithful N d.
Proof.
  intros fuel N cfg h d r Hmm Hpl Hin.
  apply (run_invariants_from fuel N cfg h (init N) d r Hmm Hpl (init_AllInv N) Hin).
Qed.

Print Assumptions step_transfer_trap.
Print Assumptions step_TrapNodes.
Print Assumptions step_EdgeStrict.
Print Assumptions step_NoStubEdges.
Print Assumptions step_Rooted_ext.
Print Assumptions expand_one_canonical.
Print Assumptions step_Faithful.
Print Assumptions step_Faithful_all.
Print Assumptions run_invariants.
