(* DiagramSem1.v -- semantic invariants of the succession-diagram model:
   1. TrapNodes   every node space is a trap space,
   2. EdgeStrict  edges lead to strictly smaller spaces,
   3. NoStubEdges unexpanded nodes have no out-edges,
   4. Rooted      every non-root node has an incoming edge,
   5. what expand_one establishes (canonical),
   6. Faithful    expanded ordinary nodes carry exactly their maximal trap spaces,
   7. all of them along runs.
   Two transfer principles are provided:
   - prim_closed_trap / step_transfer_trap: like DiagramStruct.prim_closed, but the
     ensure_node / ensure_edge clauses may assume that the motif is a trap space;
   - op_transfer_plain / op_transfer: invariants that only hold at the granularity
     of whole calls of expand_one / make_skip_node / skip_* (not of primitives). *)
From Coq Require Import List Bool Arith NArith Lia Permutation.
Import ListNotations.
From BB Require Import BN Brute SpaceFacts TrapFacts PercolateFacts Diagram Invariants DiagramStruct.

Local Arguments percolate_b : simpl never.
Local Arguments expand_one : simpl never.
Local Arguments node_successors : simpl never.
Local Arguments ensure_node : simpl never.
Local Arguments ensure_edge : simpl never.
Local Arguments raise_depth : simpl never.
Local Arguments max_traps_b : simpl never.
Local Arguments min_traps_b : simpl never.
Local Arguments make_skip_node : simpl never.
Local Arguments upd_node : simpl never.
Local Arguments ensure_min_children : simpl never.

(* ================================================================== *)
(* 0. helpers                                                          *)
(* ================================================================== *)

Lemma TrapNodes_spaces : forall N d,
  TrapNodes N d <-> (forall X, In X (spaces d) -> trap_space N X).
Proof.
  intros N d. unfold TrapNodes, spaces. split.
  - intros H X Hin. apply in_map_iff in Hin. destruct Hin as [x [Heq Hin]]. subst X.
    apply H. exact Hin.
  - intros H x Hin. apply H. apply in_map. exact Hin.
Qed.

Lemma TrapNodes_get : forall N d i, TrapNodes N d -> i < size d -> trap_space N (n_space (get d i)).
Proof. intros N d i H Hi. apply H. apply get_In. exact Hi. Qed.

Lemma min_trap_trap : forall N m, min_trap N m -> trap_space N m.
Proof. intros N m H. exact (proj1 H). Qed.

Lemma min_trap_length : forall N m, min_trap N m -> length m = nvars N.
Proof. intros N m H. apply trap_space_length. exact (proj1 H). Qed.

(* a minimal trap space is its own percolation *)
Lemma min_trap_percolate : forall N m, min_trap N m -> percolate_b N m = m.
Proof.
  intros N m [Ht Hmin]. destruct (percolate_b_trap N m Ht) as [Ht' Hsub].
  apply Hmin; assumption.
Qed.

Lemma percolate_b_sub : forall N m, length m = nvars N -> subspace (percolate_b N m) m = true.
Proof.
  intros N m Hm. apply (perc_steps_subspace N m _ Hm). apply percolate_b_steps. exact Hm.
Qed.

(* the tape of a skip operation consists of minimal trap spaces inside S *)
Lemma tape_min_traps : forall N S tape,
  length S = nvars N -> negb (perm_of tape (min_traps_b N S)) = false ->
  forall m, In m tape -> min_trap N m /\ subspace m S = true.
Proof.
  intros N S tape HS Hp m Hin. apply negb_false_iff in Hp.
  apply (min_traps_b_spec N S m HS). eapply perm_of_In; eauto.
Qed.

Lemma max_traps_b_trap : forall N S srcs M, length S = nvars N ->
  In M (max_traps_b N S srcs) -> trap_space N M /\ strict_subspace M S.
Proof.
  intros N S srcs M HS Hin. apply (max_traps_b_spec_srcs N S srcs M HS) in Hin.
  destruct Hin as (H1 & H2 & _). split; assumption.
Qed.

(* ================================================================== *)
(* 1. the refined transfer principle: motifs are trap spaces           *)
(* ================================================================== *)

(* (node id, trap space) pairs used by skip_remaining, now with the trap property *)
Definition traps_ok_t (N : net) (d : sd) (traps : list (nat * space)) : Prop :=
  traps_ok N d traps /\ forall c m, In (c, m) traps -> trap_space N m.

Section TransferTrap.
  Variable N : net.
  Variable Q : sd -> Prop.
  Hypothesis Q_swf : forall d, Q d -> SWF N d.
  Hypothesis Q_child : forall d p motif, Q d -> length motif = nvars N -> trap_space N motif ->
    p < size d -> Q (fst (ensure_node N d (Some p) motif)).
  Hypothesis Q_root : forall d motif, Q d -> length motif = nvars N -> trap_space N motif ->
    Q (fst (ensure_node N d None motif)).
  Hypothesis Q_upd : forall d i f, Q d -> i < size d -> flag_setter f -> Q (upd_node d i f).
  Hypothesis Q_edge : forall d p c m, Q d -> p < size d -> c < size d -> length m = nvars N ->
    trap_space N m -> percolate_b N m = n_space (get d c) -> Q (ensure_edge d p c m).

  Lemma TT_upd : forall d i f, Q d -> flag_setter f -> Q (upd_node d i f).
  Proof.
    intros d i f Hq Hf. destruct (lt_dec i (size d)) as [Hlt|Hge].
    - apply Q_upd; assumption.
    - rewrite upd_node_beyond by lia. exact Hq.
  Qed.

  Lemma TT_mark : forall d i, Q d -> Q (mark_expanded d i).
  Proof. intros d i Hq. unfold mark_expanded. apply TT_upd; [exact Hq|constructor]. Qed.

  Lemma TT_space_len : forall d i, Q d -> i < size d -> length (n_space (get d i)) = nvars N.
  Proof.
    intros d i Hq Hi. apply (swf_len N d (Q_swf d Hq)). apply get_In. exact Hi.
  Qed.

  Lemma TT_ensure_all : forall subs d p,
    Q d -> p < size d -> (forall m, In m subs -> trap_space N m) ->
    Q (ensure_all N d p subs).
  Proof.
    induction subs as [|m r IH]; intros d p Hq Hp Htr; simpl; [exact Hq|].
    assert (Hm : trap_space N m) by (apply Htr; left; reflexivity).
    apply IH.
    - apply Q_child; [exact Hq|apply trap_space_length; exact Hm|exact Hm|exact Hp].
    - eapply extends_lt; [apply ensure_node_extends|exact Hp].
    - intros m0 Hin. apply Htr. right. exact Hin.
  Qed.

  Lemma TT_expand_one : forall cfg d i, Q d -> Q (fst (expand_one N cfg d i)).
  Proof.
    intros cfg d i Hq. unfold expand_one.
    destruct (n_exp (get d i)); [exact Hq|].
    destruct (is_full (n_space (get d i))) eqn:Ef; simpl.
    - apply TT_upd; [|constructor]. apply TT_upd; [exact Hq|constructor].
    - assert (Hi : i < size d).
      { destruct (lt_dec i (size d)) as [Hlt|Hge]; [exact Hlt|].
        rewrite get_beyond in Ef by lia. simpl in Ef. discriminate. }
      destruct (Nat.eqb (solver_len _ _) _); simpl.
      + apply TT_upd; [exact Hq|constructor].
      + apply TT_upd; [|constructor]. apply TT_ensure_all.
        * apply TT_upd; [exact Hq|constructor].
        * rewrite size_upd_node. exact Hi.
        * intros m Hin. apply In_firstn_in in Hin. apply sort_by_key_In in Hin.
          apply max_traps_b_trap in Hin; [apply Hin|]. apply TT_space_len; assumption.
  Qed.

  Lemma TT_ensure_min_children : forall mins d p,
    Q d -> p < size d -> (forall m, In m mins -> trap_space N m) ->
    Q (ensure_min_children N d p mins).
  Proof.
    induction mins as [|m r IH]; intros d p Hq Hp Htr; simpl; [exact Hq|].
    assert (Hm : trap_space N m) by (apply Htr; left; reflexivity).
    assert (Hq1 : Q (fst (ensure_node N d (Some p) m))).
    { apply Q_child; [exact Hq|apply trap_space_length; exact Hm|exact Hm|exact Hp]. }
    pose proof (ensure_node_extends N d (Some p) m) as He.
    unfold ensure_min_children; fold ensure_min_children.
    destruct (ensure_node N d (Some p) m) as [d1 c]. simpl in Hq1, He.
    apply IH.
    - apply TT_mark. exact Hq1.
    - rewrite size_mark_expanded. eapply extends_lt; [exact He|exact Hp].
    - intros m0 Hin. apply Htr. right. exact Hin.
  Qed.

  Lemma TT_make_skip_node : forall d i all_min,
    Q d -> i < size d -> (forall m, In m all_min -> trap_space N m) ->
    Q (make_skip_node N d i all_min).
  Proof.
    intros d i all_min Hq Hi Htr. unfold make_skip_node.
    destruct (n_exp (get d i)); [exact Hq|].
    apply TT_upd; [|constructor]. apply TT_mark. apply TT_ensure_min_children.
    - apply TT_upd; [exact Hq|constructor].
    - rewrite size_upd_node. exact Hi.
    - intros m Hin. apply filter_In in Hin. apply Htr. apply Hin.
  Qed.

  Lemma TT_skip_edges : forall traps d i,
    Q d -> i < size d -> traps_ok_t N d traps -> Q (skip_edges d i traps).
  Proof.
    induction traps as [|[mid m] r IH]; intros d i Hq Hi [Ht Htr]; simpl; [exact Hq|].
    assert (Hr : traps_ok N d r) by (intros c0 m0 Hin; apply Ht; right; exact Hin).
    assert (Hrt : forall c0 m0, In (c0, m0) r -> trap_space N m0)
      by (intros c0 m0 Hin; apply (Htr c0); right; exact Hin).
    destruct (subspace m (n_space (get d i))); [|apply IH; [assumption|assumption|split; assumption]].
    destruct (Ht mid m (or_introl eq_refl)) as (Hmid & Hm & Hp).
    apply IH.
    - apply Q_edge; try assumption. apply (Htr mid). left. reflexivity.
    - rewrite size_ensure_edge. exact Hi.
    - split; [|exact Hrt]. eapply traps_ok_extends; [apply ensure_edge_extends|exact Hr].
  Qed.

  Lemma TT_ensure_roots : forall mins d acc,
    Q d -> (forall m, In m mins -> trap_space N m) -> traps_ok_t N d acc ->
    Q (fst (ensure_roots N d mins acc)) /\
    traps_ok_t N (fst (ensure_roots N d mins acc)) (snd (ensure_roots N d mins acc)).
  Proof.
    induction mins as [|m r IH]; intros d acc Hq Htr [Ht Hta]; simpl.
    - split; [exact Hq|]. split.
      + intros c m Hin. apply Ht. apply in_rev. exact Hin.
      + intros c m Hin. apply (Hta c). apply in_rev. exact Hin.
    - assert (Hmt : trap_space N m) by (apply Htr; left; reflexivity).
      assert (Hm : length m = nvars N) by (apply trap_space_length; exact Hmt).
      assert (Hq1 : Q (fst (ensure_node N d None m))) by (apply Q_root; assumption).
      pose proof (ensure_node_extends N d None m) as He.
      pose proof (ensure_node_spec N d None m) as Hspec.
      destruct (ensure_node N d None m) as [d1 c]. simpl in Hq1, He.
      destruct (Hspec d1 c (Q_swf d Hq) Hm eq_refl) as (Hc & Hsp & _).
      apply IH.
      + apply TT_mark. exact Hq1.
      + intros m0 Hin. apply Htr. right. exact Hin.
      + split.
        * intros c0 m0 [Heq|Hin].
          -- injection Heq as Hcc Hmm. subst c0 m0. rewrite size_mark_expanded.
             split; [exact Hc|]. split; [exact Hm|]. rewrite n_space_mark_expanded.
             symmetry. exact Hsp.
          -- eapply traps_ok_extends; [|exact Ht|exact Hin].
             eapply extends_trans; [exact He|apply mark_expanded_extends].
        * intros c0 m0 [Heq|Hin].
          -- injection Heq as Hcc Hmm. subst c0 m0. exact Hmt.
          -- apply (Hta c0). exact Hin.
  Qed.

  Lemma TT_skip_all : forall traps ids d count,
    Q d -> traps_ok_t N d traps -> (forall i, In i ids -> i < size d) ->
    Q (fst (skip_all d ids traps count)).
  Proof.
    intro traps. induction ids as [|i r IH]; intros d count Hq [Ht Htr] Hv; simpl; [exact Hq|].
    assert (Hr : forall j, In j r -> j < size d) by (intros j Hin; apply Hv; right; exact Hin).
    assert (Hi : i < size d) by (apply Hv; left; reflexivity).
    destruct (n_exp (get d i)); [apply IH; [assumption|split; assumption|assumption]|].
    assert (He : extends d (upd_node (mark_expanded
                   (skip_edges (upd_node d i clear_attr) i traps) i) i
                   (fun y => set_skip y true))).
    { apply extends_trans with (d2 := upd_node d i clear_attr);
        [apply upd_flag_extends; constructor|].
      eapply extends_trans; [apply skip_edges_extends|].
      eapply extends_trans; [apply mark_expanded_extends|].
      apply upd_flag_extends. constructor. }
    apply IH.
    - apply TT_upd; [|constructor]. apply TT_mark. apply TT_skip_edges.
      + apply TT_upd; [exact Hq|constructor].
      + rewrite size_upd_node. exact Hi.
      + split; [|exact Htr].
        eapply traps_ok_extends; [|exact Ht]. apply upd_flag_extends. constructor.
    - split; [|exact Htr]. eapply traps_ok_extends; [exact He|exact Ht].
    - intros j Hin. eapply extends_lt; [exact He|apply Hr; exact Hin].
  Qed.

  Lemma TT_skip_remaining : forall d tape, Q d -> Q (fst (skip_remaining N d tape)).
  Proof.
    intros d tape Hq. unfold skip_remaining.
    destruct (negb (perm_of tape (min_traps_b N (n_space (get d 0))))) eqn:Ep; [exact Hq|].
    assert (Htr : forall m, In m tape -> trap_space N m).
    { intros m Hin. apply min_trap_trap.
      eapply (tape_min_traps N (n_space (get d 0)) tape); [|exact Ep|exact Hin].
      apply TT_space_len; [exact Hq|]. apply (swf_size N d (Q_swf d Hq)). }
    assert (Hnil : traps_ok_t N d []) by (split; [intros c m []|intros c m []]).
    destruct (TT_ensure_roots tape d [] Hq Htr Hnil) as [Hq1 Ht1].
    destruct (ensure_roots N d tape []) as [d1 traps]. simpl in Hq1, Ht1.
    assert (Hv : forall i, In i (seq 0 (size d1)) -> i < size d1).
    { intros i Hin. apply in_seq in Hin. lia. }
    pose proof (TT_skip_all traps (seq 0 (size d1)) d1 0 Hq1 Ht1 Hv) as Hq2.
    destruct (skip_all d1 (seq 0 (size d1)) traps 0) as [d2 k]. exact Hq2.
  Qed.

  Lemma TT_skip_to_minimal : forall d i tape,
    Q d -> i < size d -> Q (fst (skip_to_minimal_t N d i tape)).
  Proof.
    intros d i tape Hq Hi. unfold skip_to_minimal_t.
    destruct (n_exp (get d i)); [exact Hq|].
    destruct (negb (perm_of tape (min_traps_b N (n_space (get d i))))) eqn:Ep; [exact Hq|].
    assert (Htr : forall m, In m tape -> trap_space N m).
    { intros m Hin. apply min_trap_trap.
      eapply (tape_min_traps N (n_space (get d i)) tape); [|exact Ep|exact Hin].
      apply TT_space_len; assumption. }
    assert (Hc : Q (upd_node d i clear_attr)) by (apply TT_upd; [exact Hq|constructor]).
    assert (Hcommon : Q (upd_node (mark_expanded
               (ensure_min_children N (upd_node d i clear_attr) i tape) i) i
               (fun y => set_skip y true))).
    { apply TT_upd; [|constructor]. apply TT_mark. apply TT_ensure_min_children.
      - exact Hc.
      - rewrite size_upd_node. exact Hi.
      - exact Htr. }
    destruct tape as [|m [|m2 r]]; simpl; try exact Hcommon.
    destruct (eqb_space m (n_space (get d i))); simpl; [|exact Hcommon].
    apply TT_mark. exact Hc.
  Qed.
End TransferTrap.

(* ================================================================== *)
(* 2. operation-level transfer: from expand_one / make_skip_node /     *)
(*    cache updates to the loops and to step                           *)
(* ================================================================== *)

(* the setters used by the attractor-cache queries *)
Inductive cache_setter : (node -> node) -> Prop :=
| cs_cands : forall c, cache_setter (fun y => set_cands y c)
| cs_seeds : forall c, cache_setter (fun y => set_seeds y c)
| cs_sets : forall c, cache_setter (fun y => set_sets y c).

Lemma cache_setter_flag : forall f, cache_setter f -> flag_setter f.
Proof. intros f Hf. destruct Hf; constructor. Qed.

Lemma cache_setter_exp : forall f x, cache_setter f -> n_exp (f x) = n_exp x.
Proof. intros f x Hf. destruct Hf; reflexivity. Qed.

Lemma cache_setter_skip : forall f x, cache_setter f -> n_skip (f x) = n_skip x.
Proof. intros f x Hf. destruct Hf; reflexivity. Qed.

Lemma expand_one_beyond : forall N cfg d i, size d <= i -> expand_one N cfg d i = (d, RUnit).
Proof.
  intros N cfg d i Hle. unfold expand_one. rewrite get_beyond by exact Hle. simpl.
  rewrite !upd_node_beyond; [reflexivity|exact Hle|].
  rewrite upd_node_beyond by exact Hle. exact Hle.
Qed.

Lemma has_edge_extends : forall d d' x s,
  extends d d' -> has_edge d x s = true -> has_edge d' x s = true.
Proof.
  intros d d' x s (_ & _ & _ & _ & He) H. apply has_edge_true in H.
  destruct H as (e & Hin & Hs & Hd). destruct (He e Hin) as (e' & Hin' & Hs' & Hd' & _).
  apply has_edge_true. exists e'. split; [exact Hin'|]. split; congruence.
Qed.

Lemma successors_has_edge : forall d x s, In s (successors d x) -> has_edge d x s = true.
Proof.
  intros d x s Hin. unfold successors, successors_of in Hin.
  apply in_map_iff in Hin. destruct Hin as [e [Heq Hin]].
  apply filter_In in Hin. destruct Hin as [Hin Hs]. apply Nat.eqb_eq in Hs.
  apply has_edge_true. exists e. auto.
Qed.

Lemma has_edge_valid : forall N d x s, SWF N d -> has_edge d x s = true -> x < size d /\ s < size d.
Proof.
  intros N d x s Hswf H. apply has_edge_true in H. destruct H as (e & Hin & Hs & Hd).
  destruct (swf_edges N d Hswf e Hin) as (H1 & H2 & _). subst. auto.
Qed.

(* every minimal trap of the tape is still to be found, or it is an expanded node *)
Definition rem_inv (all_min : list space) (d : sd) (remaining : list space) : Prop :=
  forall m, In m all_min ->
    In m remaining \/ exists j, j < size d /\ n_space (get d j) = m /\ n_exp (get d j) = true.

(* the explicit stack of expand_minimal_spaces: valid ids, pending successors are successors *)
Definition stack_inv (d : sd) (stack : list (nat * option (list nat))) : Prop :=
  forall x o, In (x, o) stack ->
    x < size d /\ forall l s, o = Some l -> In s l -> has_edge d x s = true.

Lemma rem_inv_extends : forall all_min d d' remaining,
  extends d d' -> rem_inv all_min d remaining -> rem_inv all_min d' remaining.
Proof.
  intros all_min d d' remaining He Hr m Hin. destruct (Hr m Hin) as [H|(j & Hj & Hsp & Hex)].
  - left. exact H.
  - right. exists j. split; [eapply extends_lt; eauto|]. split.
    + rewrite (extends_space d d' j He Hj). exact Hsp.
    + destruct He as (_ & _ & H3 & _). apply H3; assumption.
Qed.

Lemma stack_inv_extends : forall d d' stack,
  extends d d' -> stack_inv d stack -> stack_inv d' stack.
Proof.
  intros d d' stack He Hst x o Hin. destruct (Hst x o Hin) as [Hx Hl].
  split; [eapply extends_lt; eauto|].
  intros l s Ho Hs. eapply has_edge_extends; [exact He|]. eapply Hl; eauto.
Qed.

Lemma remove_space_keeps : forall a l r m,
  remove_space a l = Some r -> In m l -> m <> a -> In m r.
Proof.
  intros a l. induction l as [|y l IH]; intros r m Hr Hin Hne; simpl in Hr; [discriminate|].
  destruct (eqb_space a y) eqn:E.
  - injection Hr as Hr. subst r. apply eqb_space_spec in E. subst y.
    destruct Hin as [Heq|Hin]; [congruence|exact Hin].
  - destruct (remove_space a l) as [r'|] eqn:Er; [|discriminate].
    injection Hr as Hr. subst r. destruct Hin as [Heq|Hin].
    + left. exact Heq.
    + right. apply (IH r' m eq_refl Hin Hne).
Qed.

Section OpTransfer.
  Variable N : net.
  Variable cfg : config.
  Variable Q : sd -> Prop.
  Hypothesis Q_swf : forall d, Q d -> SWF N d.
  Hypothesis Q_expand : forall d i, Q d -> Q (fst (expand_one N cfg d i)).
  Hypothesis Q_cache : forall d i f, Q d -> i < size d -> cache_setter f -> Q (upd_node d i f).

  Lemma B_node_successors : forall d i, Q d -> Q (fst (fst (node_successors N cfg d i))).
  Proof. intros d i Hq. rewrite node_successors_fst. apply Q_expand. exact Hq. Qed.

  (* ---------- bfs ---------- *)
  Lemma B_bfs_level : forall sl cur d seen next,
    Q d -> Q (fst (fst (fst (bfs_level N cfg sl d seen next cur)))).
  Proof.
    intros sl cur. induction cur as [|x cur IH]; intros d seen next Hq; simpl; [exact Hq|].
    destruct (over_limit sl d && negb (n_exp (get d x))); [simpl; exact Hq|].
    pose proof (B_node_successors d x Hq) as Hq1.
    destruct (node_successors N cfg d x) as [[d1 r] succ]. simpl in Hq1.
    destruct r; simpl; try exact Hq1. apply IH. exact Hq1.
  Qed.

  Lemma B_bfs_loop : forall ll sl fuel d seen cur level,
    Q d -> Q (fst (bfs_loop fuel N cfg ll sl d seen cur level)).
  Proof.
    intros ll sl fuel. induction fuel as [|f IH]; intros d seen cur level Hq; simpl;
      [exact Hq|].
    pose proof (B_bfs_level sl cur d seen [] Hq) as Hq1.
    destruct (bfs_level N cfg sl d seen [] cur) as [[[d1 r] seen1] next]. simpl in Hq1.
    destruct cur as [|x cur]; [exact Hq|].
    destruct r; simpl; try exact Hq1.
    destruct (match ll with Some l => Nat.leb l level | None => false end); simpl;
      [exact Hq1|apply IH; exact Hq1].
  Qed.

  (* ---------- dfs ---------- *)
  Lemma B_dfs_loop : forall kl sl fuel d seen stack complete,
    Q d -> Q (fst (dfs_loop fuel N cfg kl sl d seen stack complete)).
  Proof.
    intros kl sl fuel. induction fuel as [|f IH]; intros d seen stack complete Hq; simpl;
      [exact Hq|].
    destruct stack as [|[x osucc] stack']; [exact Hq|].
    destruct osucc as [l|]; simpl.
    - destruct (drop_seen seen l) as [|s rest]; [apply IH; exact Hq|].
      destruct (match kl with Some l0 => Nat.leb l0 (length stack') | None => false end);
        apply IH; exact Hq.
    - destruct (over_limit sl d && negb (n_exp (get d x))); [simpl; exact Hq|].
      pose proof (B_node_successors d x Hq) as Hq1.
      destruct (node_successors N cfg d x) as [[d1 r] succ]. simpl in Hq1.
      destruct r; simpl; try exact Hq1.
      destruct (drop_seen seen (sort_nat succ)) as [|s rest]; [apply IH; exact Hq1|].
      destruct (match kl with Some l0 => Nat.leb l0 (length stack') | None => false end);
        apply IH; exact Hq1.
  Qed.

  (* ---------- target ---------- *)
  Lemma B_target_level : forall target sl cur d seen next,
    Q d -> Q (fst (fst (fst (target_level N cfg target sl d seen next cur)))).
  Proof.
    intros target sl cur. induction cur as [|x cur IH]; intros d seen next Hq; simpl;
      [exact Hq|].
    destruct (intersect (n_space (get d x)) target); [|apply IH; exact Hq].
    destruct (subspace (n_space (get d x)) target && negb (eqb_space (n_space (get d x)) target));
      [apply IH; exact Hq|].
    destruct (over_limit sl d && negb (n_exp (get d x))); [simpl; exact Hq|].
    pose proof (B_node_successors d x Hq) as Hq1.
    destruct (node_successors N cfg d x) as [[d1 r] succ]. simpl in Hq1.
    destruct r; simpl; try exact Hq1. apply IH. exact Hq1.
  Qed.

  Lemma B_target_loop : forall target sl fuel d seen cur,
    Q d -> Q (fst (target_loop fuel N cfg target sl d seen cur)).
  Proof.
    intros target sl fuel. induction fuel as [|f IH]; intros d seen cur Hq; simpl;
      [exact Hq|].
    pose proof (B_target_level target sl cur d seen [] Hq) as Hq1.
    destruct (target_level N cfg target sl d seen [] cur) as [[[d1 r] seen1] next]. simpl in Hq1.
    destruct cur as [|x cur]; [exact Hq|].
    destruct r; simpl; try exact Hq1. apply IH. exact Hq1.
  Qed.

  (* ---------- minimal spaces ---------- *)
  (* what is known when expand_minimal_spaces turns the successor s of x into a skip node:
     no minimal trap inside the space of x is left to be found *)
  Definition msn_closed (skip : bool) (all_min : list space) : Prop :=
    skip = true ->
    forall d x s remaining, Q d -> x < size d -> has_edge d x s = true ->
      rem_inv all_min d remaining ->
      (forall m, In m remaining -> subspace m (n_space (get d x)) = false) ->
      Q (make_skip_node N d s all_min).

  Lemma B_min_inner : forall all_min remaining skip seen x,
    msn_closed skip all_min ->
    forall succ d ns, Q d -> x < size d -> ns = n_space (get d x) ->
      rem_inv all_min d remaining -> (forall s, In s succ -> has_edge d x s = true) ->
      Q (fst (min_inner N d seen remaining all_min ns skip succ)).
  Proof.
    intros all_min remaining skip seen x Hmsn.
    induction succ as [|s r IH]; intros d ns Hq Hx Hns Hrem Hv; simpl; [exact Hq|].
    assert (Hr : forall s0, In s0 r -> has_edge d x s0 = true)
      by (intros s0 Hin; apply Hv; right; exact Hin).
    destruct (mem_nat s seen); [apply IH; assumption|].
    destruct (negb (existsb (fun m => subspace m ns) remaining)) eqn:Eex; [|exact Hq].
    destruct skip eqn:Esk; [|apply IH; assumption].
    pose proof (make_skip_node_extends N d s all_min) as He.
    apply IH.
    - apply (Hmsn eq_refl d x s remaining); try assumption.
      + apply Hv. left. reflexivity.
      + intros m Hin. apply negb_true_iff in Eex.
        destruct (subspace m (n_space (get d x))) eqn:Es; [|reflexivity].
        assert (Hex : existsb (fun m0 => subspace m0 ns) remaining = true).
        { apply existsb_exists. exists m. split; [exact Hin|]. rewrite Hns. exact Es. }
        congruence.
    - eapply extends_lt; [exact He|exact Hx].
    - rewrite (extends_space d _ x He Hx). exact Hns.
    - eapply rem_inv_extends; [exact He|exact Hrem].
    - intros s0 Hin. eapply has_edge_extends; [exact He|apply Hr; exact Hin].
  Qed.

  Lemma B_min_loop : forall sl skip all_min,
    msn_closed skip all_min ->
    forall fuel d seen remaining stack,
    Q d -> stack_inv d stack -> rem_inv all_min d remaining ->
    Q (fst (min_loop fuel N cfg sl skip all_min d seen remaining stack)).
  Proof.
    intros sl skip all_min Hmsn fuel.
    induction fuel as [|f IH]; intros d seen remaining stack Hq Hst Hrem; simpl; [exact Hq|].
    destruct stack as [|[x osucc] stack'].
    { destruct (Nat.eqb (length remaining) 0); exact Hq. }
    assert (Hst' : stack_inv d stack').
    { intros x0 o0 Hin. apply Hst. right. exact Hin. }
    destruct (Hst x osucc (or_introl eq_refl)) as [Hx Hxl].
    assert (Htail : forall d1 succ, Q d1 -> extends d d1 ->
              (forall s, In s succ -> has_edge d1 x s = true) ->
              Q (fst (let '(d2, succ2) :=
                        min_inner N d1 seen remaining all_min (n_space (get d1 x)) skip succ in
                      match succ2 with
                      | [] =>
                          if is_minimal d2 x
                          then match remove_space (n_space (get d2 x)) remaining with
                               | Some rem' => min_loop f N cfg sl skip all_min d2 seen rem' stack'
                               | None => (d2, RRaised ErrAssert)
                               end
                          else min_loop f N cfg sl skip all_min d2 seen remaining stack'
                      | s :: rest =>
                          min_loop f N cfg sl skip all_min d2 (s :: seen) remaining
                                   ((s, None) :: (x, Some rest) :: stack')
                      end))).
    { intros d1 succ Hq1 He1 Hv1.
      assert (Hx1 : x < size d1) by (eapply extends_lt; eauto).
      assert (Hrem1 : rem_inv all_min d1 remaining) by (eapply rem_inv_extends; eauto).
      pose proof (B_min_inner all_min remaining skip seen x Hmsn succ d1 (n_space (get d1 x))
                    Hq1 Hx1 eq_refl Hrem1 Hv1) as Hq2.
      pose proof (min_inner_extends N all_min remaining (n_space (get d1 x)) skip seen succ d1)
        as He2.
      pose proof (min_inner_incl N all_min remaining (n_space (get d1 x)) skip seen succ d1)
        as Hi2.
      destruct (min_inner N d1 seen remaining all_min (n_space (get d1 x)) skip succ)
        as [d2 succ2].
      simpl in Hq2, He2, Hi2.
      assert (He02 : extends d d2) by (eapply extends_trans; eassumption).
      assert (Hst2 : stack_inv d2 stack') by (eapply stack_inv_extends; eassumption).
      assert (Hrem2 : rem_inv all_min d2 remaining) by (eapply rem_inv_extends; eassumption).
      assert (Hx2 : x < size d2) by (eapply extends_lt; eauto).
      destruct succ2 as [|s rest].
      - destruct (is_minimal d2 x) eqn:Emin; [|apply IH; assumption].
        destruct (remove_space (n_space (get d2 x)) remaining) as [rem'|] eqn:Erem;
          [|exact Hq2].
        apply IH; [exact Hq2|exact Hst2|].
        intros m Hin. destruct (Hrem2 m Hin) as [Hm|Hw]; [|right; exact Hw].
        destruct (eqb_space m (n_space (get d2 x))) eqn:Eeq.
        + right. apply eqb_space_spec in Eeq. exists x. split; [exact Hx2|]. split; [auto|].
          unfold is_minimal in Emin. apply andb_true_iff in Emin. apply Emin.
        + left. eapply remove_space_keeps; [exact Erem|exact Hm|].
          intro Heq. subst m.
          assert (Ht : eqb_space (n_space (get d2 x)) (n_space (get d2 x)) = true)
            by (apply eqb_space_spec; reflexivity).
          congruence.
      - apply IH; [exact Hq2| |exact Hrem2].
        assert (Hs2 : forall s0, In s0 (s :: rest) -> has_edge d2 x s0 = true).
        { intros s0 Hin. eapply has_edge_extends; [exact He2|]. apply Hv1. apply Hi2. exact Hin. }
        intros x0 o0 [Heq|[Heq|Hin]].
        + injection Heq as Hxx Hoo. subst x0 o0. split.
          * apply (has_edge_valid N d2 x s (Q_swf d2 Hq2)). apply Hs2. left. reflexivity.
          * intros l s0 Hl. discriminate Hl.
        + injection Heq as Hxx Hoo. subst x0 o0. split; [exact Hx2|].
          intros l s0 Hl Hs0. injection Hl as Hl. subst l. apply Hs2. right. exact Hs0.
        + apply Hst2. exact Hin. }
    destruct osucc as [l|]; simpl.
    - apply Htail; [exact Hq|apply extends_refl|].
      intros s Hs. eapply Hxl; [reflexivity|exact Hs].
    - destruct (over_limit sl d && negb (n_exp (get d x))); [simpl; exact Hq|].
      pose proof (B_node_successors d x Hq) as Hq1.
      pose proof (node_successors_extends N cfg d x) as He1.
      pose proof (node_successors_succ N cfg d x) as Hs1.
      destruct (node_successors N cfg d x) as [[d1 r] succ]. simpl in Hq1, He1, Hs1.
      destruct r; simpl; try exact Hq1.
      apply Htail; [exact Hq1|exact He1|].
      intros s Hs. apply sort_nat_In in Hs. apply successors_has_edge. apply Hs1. exact Hs.
  Qed.

  Lemma B_valid_start : forall d start, Q d -> valid_start d start = true ->
    match start with Some s => s | None => 0 end < size d.
  Proof.
    intros d [s|] Hq Hv; simpl in *.
    - apply Nat.ltb_lt. exact Hv.
    - apply (swf_size N d (Q_swf d Hq)).
  Qed.

  Lemma B_expand_min : forall fuel d start sl skip tape,
    (forall S, length S = nvars N -> negb (perm_of tape (min_traps_b N S)) = false ->
       msn_closed skip tape) ->
    Q d -> valid_start d start = true ->
    Q (fst (expand_min fuel N cfg d start sl skip tape)).
  Proof.
    intros fuel d start sl skip tape Hmsn Hq Hv. unfold expand_min.
    pose proof (B_valid_start d start Hq Hv) as Hs.
    destruct (negb (perm_of tape (min_traps_b N _))) eqn:Ep; [exact Hq|].
    apply B_min_loop.
    - eapply Hmsn; [|exact Ep]. apply (swf_len N d (Q_swf d Hq)). apply get_In. exact Hs.
    - exact Hq.
    - intros x o [Heq|[]]. injection Heq as Hx Ho. subst x o. split; [exact Hs|].
      intros l s0 Hl. discriminate Hl.
    - intros m Hin. left. exact Hin.
  Qed.

  (* ---------- attractor cache queries ---------- *)
  Lemma B_cache : forall d i f, Q d -> cache_setter f -> Q (upd_node d i f).
  Proof.
    intros d i f Hq Hf. destruct (lt_dec i (size d)) as [Hlt|Hge].
    - apply Q_cache; assumption.
    - rewrite upd_node_beyond by lia. exact Hq.
  Qed.

  Lemma B_q_cands : forall d i o, Q d -> Q (fst (q_cands d i o)).
  Proof.
    intros d i o Hq. unfold q_cands.
    destruct (n_cands (get d i)); [exact Hq|].
    destruct (n_seeds (get d i)); [exact Hq|].
    destruct o as [|k b]; [exact Hq|].
    destruct (_ || _); simpl; repeat (apply B_cache; [|constructor]); exact Hq.
  Qed.

  Lemma B_q_seeds : forall d i fallback oc os, Q d -> Q (fst (q_seeds d i fallback oc os)).
  Proof.
    intros d i fallback oc os Hq. unfold q_seeds.
    destruct (n_seeds (get d i)); [exact Hq|].
    pose proof (B_q_cands d i oc Hq) as Hq1.
    destruct (q_cands d i oc) as [d1 r]. simpl in Hq1.
    destruct r;
      try (destruct (n_seeds (get d1 i)); [exact Hq1|];
           destruct os as [|k0 [|]]; simpl; repeat (apply B_cache; [|constructor]); exact Hq1).
    destruct fallback; simpl; [|exact Hq1].
    repeat (apply B_cache; [|constructor]). exact Hq1.
  Qed.

  Lemma B_q_sets : forall d i oc os, Q d -> Q (fst (q_sets d i oc os)).
  Proof.
    intros d i oc os Hq. unfold q_sets.
    destruct (n_sets (get d i)); [exact Hq|].
    pose proof (B_q_seeds d i false oc os Hq) as Hq1.
    destruct (q_seeds d i false oc os) as [d1 r]. simpl in Hq1.
    destruct r; simpl; try exact Hq1; (apply B_cache; [exact Hq1|constructor]).
  Qed.

  Hypothesis Q_reclaim : forall d, Q d -> Q (reclaim d).

  (* ---------- every operation, the skip operations being given as a whole ---------- *)
  Definition skip_ops_closed : Prop :=
    (forall tape S, length S = nvars N -> negb (perm_of tape (min_traps_b N S)) = false ->
       msn_closed true tape) /\
    (forall d i tape, Q d -> i < size d -> Q (fst (skip_to_minimal_t N d i tape))) /\
    (forall d tape, Q d -> Q (fst (skip_remaining N d tape))).

  Theorem B_step : forall fuel d o, (plain o \/ skip_ops_closed) ->
    Q d -> Q (fst (step fuel N cfg d o)).
  Proof.
    intros fuel d o Hps Hq. destruct o; unfold step.
    - destruct (Nat.ltb i (size d)); [|exact Hq].
      pose proof (B_node_successors d i Hq) as Hq1.
      destruct (node_successors N cfg d i) as [[d1 r] succ]. exact Hq1.
    - destruct (valid_start d start); [|exact Hq]. unfold expand_bfs. apply B_bfs_loop. exact Hq.
    - destruct (valid_start d start); [|exact Hq]. unfold expand_dfs. apply B_dfs_loop. exact Hq.
    - destruct (valid_start d start) eqn:Ev; [|exact Hq]. apply B_expand_min; try assumption.
      intros S HS Hp. destruct Hps as [Hpl|(Hm & _ & _)].
      + simpl in Hpl. subst skip. intro Hf. discriminate Hf.
      + destruct skip; [eapply Hm; eauto|intro Hf; discriminate Hf].
    - unfold expand_to_target. apply B_target_loop. exact Hq.
    - destruct Hps as [[]|(_ & Hs & _)].
      destruct (Nat.ltb i (size d)) eqn:Ei; [|exact Hq].
      apply Hs; [exact Hq|apply Nat.ltb_lt; exact Ei].
    - destruct Hps as [[]|(_ & _ & Hs)]. apply Hs. exact Hq.
    - simpl. apply Q_reclaim. exact Hq.
    - exact Hq.
    - destruct (Nat.ltb i (size d)); [|exact Hq]. apply B_q_cands. exact Hq.
    - destruct (Nat.ltb i (size d)); [|exact Hq]. apply B_q_seeds. exact Hq.
    - destruct (Nat.ltb i (size d)); [|exact Hq]. apply B_q_sets. exact Hq.
  Qed.
End OpTransfer.

(* ================================================================== *)
(* 3. prim_closed_trap and step_transfer_trap                          *)
(* ================================================================== *)

(* P is preserved by the four primitives; compared with DiagramStruct.prim_closed
   the ensure_node and ensure_edge clauses may assume that the motif is a trap space
   (every motif the operations ever pass is a maximal or a minimal trap space) *)
Definition prim_closed_trap (N : net) (P : sd -> Prop) : Prop :=
  (forall d parent motif, SWF N d -> P d -> length motif = nvars N -> trap_space N motif ->
     (forall p, parent = Some p -> p < size d) ->
     P (fst (ensure_node N d parent motif))) /\
  (forall d i f, SWF N d -> P d -> i < size d -> flag_setter f -> P (upd_node d i f)) /\
  (forall d p c m, SWF N d -> P d -> p < size d -> c < size d -> length m = nvars N ->
     trap_space N m -> percolate_b N m = n_space (get d c) -> P (ensure_edge d p c m)) /\
  (forall d, SWF N d -> P d -> P (reclaim d)).

Lemma prim_closed_is_trap : forall N P, prim_closed N P -> prim_closed_trap N P.
Proof.
  intros N P (A1 & A2 & A3 & A4). unfold prim_closed_trap. split; [|split; [|split]].
  - intros d parent motif Hswf HP Hm _ Hp. apply A1; assumption.
  - exact A2.
  - intros d p c m Hswf HP Hp Hc Hm _ Hpm. apply A3; assumption.
  - exact A4.
Qed.

Lemma prim_closed_trap_and : forall N P1 P2,
  prim_closed_trap N P1 -> prim_closed_trap N P2 -> prim_closed_trap N (fun d => P1 d /\ P2 d).
Proof.
  intros N P1 P2 (A1 & A2 & A3 & A4) (B1 & B2 & B3 & B4). unfold prim_closed_trap.
  split; [|split; [|split]].
  - intros d parent motif Hswf [H1 H2] Hm Ht Hp. split; [apply A1|apply B1]; assumption.
  - intros d i f Hswf [H1 H2] Hi Hf. split; [apply A2|apply B2]; assumption.
  - intros d p c m Hswf [H1 H2] Hp Hc Hm Ht Hpm. split; [apply A3|apply B3]; assumption.
  - intros d Hswf [H1 H2]. split; [apply A4|apply B4]; assumption.
Qed.

Section TrapInst.
  Variable N : net.
  Variable P : sd -> Prop.
  Hypothesis HP : prim_closed_trap N P.
  Let Q (d : sd) : Prop := SWF N d /\ P d.

  Lemma QI_swf : forall d, Q d -> SWF N d.
  Proof. intros d [H _]. exact H. Qed.

  Lemma QI_child : forall d p motif, Q d -> length motif = nvars N -> trap_space N motif ->
    p < size d -> Q (fst (ensure_node N d (Some p) motif)).
  Proof.
    intros d p motif [H1 H2] Hm Ht Hp.
    assert (Hpp : forall p0, Some p = Some p0 -> p0 < size d).
    { intros p0 Heq. injection Heq as Heq. subst p0. exact Hp. }
    split; [apply ensure_node_SWF; assumption|]. apply (proj1 HP); assumption.
  Qed.

  Lemma QI_root : forall d motif, Q d -> length motif = nvars N -> trap_space N motif ->
    Q (fst (ensure_node N d None motif)).
  Proof.
    intros d motif [H1 H2] Hm Ht.
    assert (Hpp : forall p0, @None nat = Some p0 -> p0 < size d) by (intros p0 Heq; discriminate Heq).
    split; [apply ensure_node_SWF; assumption|]. apply (proj1 HP); assumption.
  Qed.

  Lemma QI_upd : forall d i f, Q d -> i < size d -> flag_setter f -> Q (upd_node d i f).
  Proof.
    intros d i f [H1 H2] Hi Hf. split; [apply upd_flag_SWF; assumption|].
    apply (proj1 (proj2 HP)); assumption.
  Qed.

  Lemma QI_edge : forall d p c m, Q d -> p < size d -> c < size d -> length m = nvars N ->
    trap_space N m -> percolate_b N m = n_space (get d c) -> Q (ensure_edge d p c m).
  Proof.
    intros d p c m [H1 H2] Hp Hc Hm Ht Hpm. split; [apply ensure_edge_SWF; assumption|].
    apply (proj1 (proj2 (proj2 HP))); assumption.
  Qed.

  Lemma QI_reclaim : forall d, Q d -> Q (reclaim d).
  Proof.
    intros d [H1 H2]. split; [apply reclaim_SWF; exact H1|].
    apply (proj2 (proj2 (proj2 HP))); assumption.
  Qed.

  Lemma QI_expand : forall cfg d i, Q d -> Q (fst (expand_one N cfg d i)).
  Proof.
    intros cfg d i Hq. apply (TT_expand_one N Q QI_swf QI_child QI_upd). exact Hq.
  Qed.

  Lemma QI_msn : forall d i all_min, Q d -> i < size d ->
    (forall m, In m all_min -> trap_space N m) -> Q (make_skip_node N d i all_min).
  Proof.
    intros d i all_min Hq Hi Ht. apply (TT_make_skip_node N Q QI_child QI_upd); assumption.
  Qed.

  Lemma QI_step : forall fuel cfg d o, Q d -> Q (fst (step fuel N cfg d o)).
  Proof.
    intros fuel cfg d o Hq. apply (B_step N cfg Q QI_swf (QI_expand cfg)).
    - intros d0 i f Hq0 Hi Hf. apply QI_upd; [exact Hq0|exact Hi|apply cache_setter_flag; exact Hf].
    - exact QI_reclaim.
    - right. split; [|split].
      + intros tape S HS Hp _ d0 x s remaining Hq0 Hx He _ _.
        apply QI_msn; [exact Hq0| |].
        * apply (has_edge_valid N d0 x s (QI_swf d0 Hq0) He).
        * intros m Hin. apply min_trap_trap. eapply (tape_min_traps N S tape); eauto.
      + intros d0 i tape Hq0 Hi.
        apply (TT_skip_to_minimal N Q QI_swf QI_child QI_upd); assumption.
      + intros d0 tape Hq0.
        apply (TT_skip_remaining N Q QI_swf QI_root QI_upd QI_edge). exact Hq0.
    - exact Hq.
  Qed.
End TrapInst.

Theorem expand_one_transfer_trap : forall N P, prim_closed_trap N P ->
  forall cfg d i, SWF N d -> P d -> P (fst (expand_one N cfg d i)).
Proof.
  intros N P HP cfg d i Hswf Hp. apply (QI_expand N P HP cfg d i). split; assumption.
Qed.

Theorem step_transfer_trap : forall N P, prim_closed_trap N P ->
  forall fuel cfg d o, SWF N d -> P d -> P (fst (step fuel N cfg d o)).
Proof.
  intros N P HP fuel cfg d o Hswf Hp. apply (QI_step N P HP fuel cfg d o). split; assumption.
Qed.

(* ================================================================== *)
(* 4. TrapNodes                                                        *)
(* ================================================================== *)

Theorem init_TrapNodes : forall N, TrapNodes N (init N).
Proof.
  intro N. unfold init. rewrite ensure_node_unfold.
  unfold find_node, find_key. simpl. intros x [Heq|[]]. subst x. simpl.
  apply percolate_b_trap. apply trap_space_top.
Qed.

Lemma prim_closed_trap_TrapNodes : forall N, prim_closed_trap N (TrapNodes N).
Proof.
  intro N. unfold prim_closed_trap. split; [|split; [|split]].
  - intros d parent motif Hswf Ht Hm Htm Hp.
    pose proof (ensure_node_spec N d parent motif) as Hspec.
    destruct (ensure_node N d parent motif) as [d' c]. simpl.
    destruct (Hspec d' c Hswf Hm eq_refl) as (_ & _ & _ & Hcases).
    apply TrapNodes_spaces. pose proof (proj1 (TrapNodes_spaces N d) Ht) as Hts.
    destruct Hcases as [(_ & _ & Hsp)|(_ & _ & _ & Hsp & _)]; rewrite Hsp.
    + exact Hts.
    + intros X Hin. apply in_app_or in Hin. destruct Hin as [Hin|[Heq|[]]].
      * apply Hts. exact Hin.
      * subst X. apply percolate_b_trap. exact Htm.
  - intros d i f _ Ht _ Hf. apply TrapNodes_spaces. rewrite spaces_upd_flag by exact Hf.
    apply TrapNodes_spaces. exact Ht.
  - intros d p c m _ Ht _ _ _ _ _. apply TrapNodes_spaces. rewrite spaces_ensure_edge.
    apply TrapNodes_spaces. exact Ht.
  - intros d _ Ht. apply TrapNodes_spaces. rewrite spaces_reclaim.
    apply TrapNodes_spaces. exact Ht.
Qed.

Theorem step_TrapNodes : forall fuel N cfg d o,
  SWF N d -> TrapNodes N d -> TrapNodes N (fst (step fuel N cfg d o)).
Proof.
  intros fuel N cfg d o Hswf Ht.
  apply (step_transfer_trap N (TrapNodes N) (prim_closed_trap_TrapNodes N)); assumption.
Qed.

(* ================================================================== *)
(* 5. more API: edges after ensure_edge / ensure_node, expand_one      *)
(* ================================================================== *)

Definition src_is (j : nat) (e : edge) : bool := Nat.eqb (e_src e) j.

Lemma out_edges_filter : forall d j, out_edges d j = filter (src_is j) (sd_edges d).
Proof. intros d j. reflexivity. Qed.

Lemma edge_added_In : forall d p c m e, In e (edge_added d p c m) ->
  In e (sd_edges d) \/ (e_src e = p /\ e_dst e = c).
Proof.
  intros d p c m e Hin. unfold edge_added in Hin. destruct (has_edge d p c).
  - apply add_motif_In in Hin. destruct Hin as [Hin|(e0 & _ & _ & _ & Heq)]; [left; exact Hin|].
    right. subst e. simpl. auto.
  - apply in_app_or in Hin. destruct Hin as [Hin|[Heq|[]]]; [left; exact Hin|].
    right. subst e. simpl. auto.
Qed.

Lemma add_motif_filter_other : forall p c m l j, j <> p ->
  filter (src_is j) (add_motif p c m l) = filter (src_is j) l.
Proof.
  intros p c m l j Hne. induction l as [|e l IH]; simpl; [reflexivity|].
  fold (is_edge p c e). destruct (is_edge p c e) eqn:Ee; simpl.
  - apply is_edge_true in Ee. destruct Ee as [Hs _].
    assert (Hf : Nat.eqb p j = false) by (apply Nat.eqb_neq; lia).
    unfold src_is. simpl. rewrite Hs, Hf. reflexivity.
  - rewrite IH. reflexivity.
Qed.

Lemma edge_added_filter_other : forall d p c m j, j <> p ->
  filter (src_is j) (edge_added d p c m) = filter (src_is j) (sd_edges d).
Proof.
  intros d p c m j Hne. unfold edge_added. destruct (has_edge d p c).
  - apply add_motif_filter_other. exact Hne.
  - rewrite filter_app. unfold src_is at 2. simpl.
    assert (Hf : Nat.eqb p j = false) by (apply Nat.eqb_neq; lia).
    rewrite Hf. apply app_nil_r.
Qed.

Lemma add_motif_out_motifs : forall p c m l, existsb (is_edge p c) l = true ->
  Permutation (flat_map e_motifs (filter (src_is p) (add_motif p c m l)))
              (flat_map e_motifs (filter (src_is p) l) ++ [m]).
Proof.
  intros p c m l. induction l as [|e l IH]; simpl; intro Hex; [discriminate|].
  fold (is_edge p c e). destruct (is_edge p c e) eqn:Ee; simpl.
  - apply is_edge_true in Ee. destruct Ee as [Hs _].
    unfold src_is. simpl. rewrite Hs, Nat.eqb_refl. simpl.
    rewrite <- !app_assoc. apply Permutation_app_head. apply Permutation_app_comm.
  - simpl in Hex. specialize (IH Hex). destruct (src_is p e); simpl.
    + rewrite <- app_assoc. apply Permutation_app_head. exact IH.
    + exact IH.
Qed.

Lemma edge_added_out_motifs : forall d p c m,
  Permutation (flat_map e_motifs (filter (src_is p) (edge_added d p c m)))
              (out_motifs d p ++ [m]).
Proof.
  intros d p c m. unfold edge_added, out_motifs. rewrite out_edges_filter.
  destruct (has_edge d p c) eqn:Eh.
  - apply add_motif_out_motifs. exact Eh.
  - rewrite filter_app. unfold src_is at 2. simpl. rewrite Nat.eqb_refl.
    rewrite flat_map_app. simpl. apply Permutation_refl.
Qed.

Lemma sd_edges_ensure_child : forall N d p m,
  sd_edges (fst (ensure_node N d (Some p) m)) =
  edge_added d p (snd (ensure_node N d (Some p) m)) m.
Proof. intros N d p m. apply (sd_edges_ensure_node N d (Some p) m). Qed.

Lemma ensure_child_out_other : forall N d p m j, j <> p ->
  out_edges (fst (ensure_node N d (Some p) m)) j = out_edges d j.
Proof.
  intros N d p m j Hne. rewrite !out_edges_filter, sd_edges_ensure_child.
  apply edge_added_filter_other. exact Hne.
Qed.

Lemma ensure_child_out_motifs : forall N d p m,
  Permutation (out_motifs (fst (ensure_node N d (Some p) m)) p) (out_motifs d p ++ [m]).
Proof.
  intros N d p m. unfold out_motifs at 1. rewrite out_edges_filter, sd_edges_ensure_child.
  apply edge_added_out_motifs.
Qed.

Lemma ensure_edge_out_other : forall d p c m j, j <> p ->
  out_edges (ensure_edge d p c m) j = out_edges d j.
Proof.
  intros d p c m j Hne. rewrite !out_edges_filter, sd_edges_ensure_edge.
  apply edge_added_filter_other. exact Hne.
Qed.

(* old nodes keep everything but their depth, without any hypothesis *)
Lemma ensure_node_old : forall N d parent m i, i < size d ->
  node_eq_mod_depth (get d i) (get (fst (ensure_node N d parent m)) i).
Proof.
  intros N d parent m i Hi. rewrite ensure_node_unfold.
  destruct (find_node d (percolate_b N m)) as [c|]; simpl.
  - apply get_link.
  - rewrite <- (get_add_node_old d (fresh_node (percolate_b N m) parent) i Hi). apply get_link.
Qed.

(* a node created by ensure_node is an unexpanded, unskipped stub *)
Lemma ensure_node_new : forall N d parent m j,
  size d <= j -> j < size (fst (ensure_node N d parent m)) ->
  n_exp (get (fst (ensure_node N d parent m)) j) = false /\
  n_skip (get (fst (ensure_node N d parent m)) j) = false.
Proof.
  intros N d parent m j Hle Hlt. rewrite ensure_node_unfold in *.
  destruct (find_node d (percolate_b N m)) as [c|]; simpl in *.
  - rewrite size_link in Hlt. lia.
  - rewrite size_link, size_add_node in Hlt. assert (Hj : j = size d) by lia. subst j.
    pose proof (get_link (add_node d (fresh_node (percolate_b N m) parent)) parent (size d) m (size d))
      as Hg.
    rewrite get_add_node_new in Hg. destruct Hg as (_ & He & Hs & _). simpl in He, Hs. auto.
Qed.

Lemma ensure_child_spec : forall N d p m, SWF N d -> length m = nvars N -> p < size d ->
  SWF N (fst (ensure_node N d (Some p) m)) /\
  extends d (fst (ensure_node N d (Some p) m)) /\
  snd (ensure_node N d (Some p) m) < size (fst (ensure_node N d (Some p) m)) /\
  n_space (get (fst (ensure_node N d (Some p) m)) (snd (ensure_node N d (Some p) m)))
    = percolate_b N m.
Proof.
  intros N d p m Hswf Hm Hp. split; [|split].
  - apply ensure_node_SWF; try assumption. intros p0 Heq. injection Heq as Heq. subst p0. exact Hp.
  - apply ensure_node_extends.
  - pose proof (ensure_node_spec N d (Some p) m) as Hspec.
    destruct (ensure_node N d (Some p) m) as [d' c]. simpl.
    destruct (Hspec d' c Hswf Hm eq_refl) as (H1 & H2 & _). auto.
Qed.

Lemma upd_flag_get_other : forall d i j f, j <> i -> get (upd_node d i f) j = get d j.
Proof. intros d i j f Hne. apply get_upd_node_neq. lia. Qed.

Lemma n_exp_upd_flag_mono : forall d i j f, flag_setter f ->
  n_exp (get d j) = true -> n_exp (get (upd_node d i f) j) = true.
Proof.
  intros d i j f Hf He. destruct (get_upd_node_cases d i j f) as [Hg|(_ & _ & Hg)]; rewrite Hg;
    [exact He|]. apply flag_setter_exp; assumption.
Qed.

Lemma n_space_upd_flag : forall d i j f, flag_setter f ->
  n_space (get (upd_node d i f) j) = n_space (get d j).
Proof.
  intros d i j f Hf. rewrite <- !nth_spaces, spaces_upd_flag by exact Hf. reflexivity.
Qed.

(* ---------- the four ways expand_one can go ---------- *)
Definition eo_all (N : net) (d : sd) (i : nat) : list space :=
  sort_by_key (max_traps_b N (n_space (get d i)) (node_srcs N i)).
Definition eo_k (N : net) (cfg : config) (d : sd) (i : nat) : nat :=
  solver_len (length (eo_all N d i)) (max_motifs cfg).

Lemma expand_one_cases : forall N cfg d i d' r, expand_one N cfg d i = (d', r) ->
  (n_exp (get d i) = true /\ d' = d /\ r = RUnit) \/
  (n_exp (get d i) = false /\ is_full (n_space (get d i)) = true /\
   d' = upd_node (upd_node d i clear_attr) i (fun y => set_exp y true) /\ r = RUnit) \/
  (n_exp (get d i) = false /\ is_full (n_space (get d i)) = false /\
   eo_k N cfg d i = max_motifs cfg /\
   d' = upd_node d i clear_attr /\ r = RRaised ErrMotifLimit) \/
  (n_exp (get d i) = false /\ is_full (n_space (get d i)) = false /\
   eo_k N cfg d i <> max_motifs cfg /\
   d' = upd_node (ensure_all N (upd_node d i clear_attr) i (firstn (eo_k N cfg d i) (eo_all N d i)))
                 i (fun y => set_exp y true) /\ r = RUnit).
Proof.
  intros N cfg d i d' r H. unfold expand_one in H. unfold eo_k, eo_all, node_srcs.
  destruct (n_exp (get d i)).
  { injection H as H1 H2. left. auto. }
  right. destruct (is_full (n_space (get d i))).
  { injection H as H1 H2. left. auto. }
  right. destruct (Nat.eqb _ _) eqn:Ek.
  - injection H as H1 H2. left. apply Nat.eqb_eq in Ek. auto.
  - injection H as H1 H2. right. apply Nat.eqb_neq in Ek. auto.
Qed.

Lemma not_full_valid : forall d i, is_full (n_space (get d i)) = false -> i < size d.
Proof.
  intros d i Ef. destruct (lt_dec i (size d)) as [Hlt|Hge]; [exact Hlt|].
  rewrite get_beyond in Ef by lia. simpl in Ef. discriminate.
Qed.

Lemma eo_all_In : forall N d i m, SWF N d -> i < size d -> In m (eo_all N d i) ->
  length m = nvars N /\ trap_space N m /\ strict_subspace m (n_space (get d i)).
Proof.
  intros N d i m Hswf Hi Hin. unfold eo_all in Hin. apply sort_by_key_In in Hin.
  assert (HS : length (n_space (get d i)) = nvars N).
  { apply (swf_len N d Hswf). apply get_In. exact Hi. }
  apply (max_traps_b_trap N _ _ m HS) in Hin. destruct Hin as [Ht Hs].
  split; [apply trap_space_length; exact Ht|]. split; assumption.
Qed.
