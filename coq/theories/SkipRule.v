(* SkipRule.v -- the exclusion rule of skip nodes (attractor_candidates.py, "if node_data['skipped']") under an
   IDEAL engine: every seed query returns exactly one state of every attractor that lies inside the node space and
   inside none of the avoided spaces (child motifs; for skip nodes also the intersections with every other node
   that does not contain the skip node and whose cached seeds are []).  With this idealised engine the only source
   of error is the rule itself.  C05_refuted: on a concrete 8-variable network and history the full statement of
   C05 ("every attractor is represented") fails on the model -- the known finding D4, replayed on the code by the
   corpus case corpus/C05.jsonl. *)
From Coq Require Import List Bool Arith NArith.
Import ListNotations.
From BB Require Import BN Brute Diagram Invariants.

Definition cache : Type := list (option (list state)).     (* per node id: the seeds, if computed *)

(* for n in sd.node_ids(): skip n if node_space is a subspace of n's space; use n if its seeds are [] *)
Definition skip_exclusions (d : sd) (c : cache) (i : nat) : list space :=
  flat_map (fun j =>
              let X := n_space (get d i) in
              let Y := n_space (get d j) in
              if subspace X Y then [] else
              match nth j c None with
              | Some [] => match intersect X Y with Some Z => [Z] | None => [] end
              | _ => []
              end) (seq 0 (size d)).

Definition avoid_of (d : sd) (c : cache) (i : nat) : list space :=
  (if n_exp (get d i) then out_motifs d i else []) ++
  (if n_skip (get d i) then skip_exclusions d c i else []).

(* the ideal engine: one representative of every attractor of the node outside the avoided spaces *)
Definition ideal_seeds (attrs : list (list state)) (d : sd) (c : cache) (i : nat) : list state :=
  map (fun A => hd [] A) (node_attractors_of attrs (n_space (get d i)) (avoid_of d c i)).

(* node_attractor_seeds(i, compute=True) for i in order (a cached result is returned as is) *)
Fixpoint query_order (attrs : list (list state)) (d : sd) (c : cache) (order : list nat) : cache :=
  match order with
  | [] => c
  | i :: r =>
      match nth i c None with
      | Some _ => query_order attrs d c r
      | None => query_order attrs d (set_nth i (Some (ideal_seeds attrs d c i)) c) r
      end
  end.

Definition mem_state (s : state) (l : list state) : bool := existsb (eqb_state s) l.
Definition represented (c : cache) (A : list state) : bool :=
  existsb (fun o => match o with Some l => existsb (fun s => mem_state s A) l | None => false end) c.
Definition lost (attrs : list (list state)) (c : cache) : list (list state) :=
  filter (fun A => negb (represented c A)) attrs.
Definition times_represented (c : cache) (A : list state) : nat :=
  length (flat_map (fun o => match o with Some l => filter (fun s => mem_state s A) l | None => [] end) c).

(* seeds of every node, in id order, on a diagram without cached data *)
Definition seeds_everywhere (N : net) (d : sd) : cache :=
  query_order (attractors_b N) d (repeat None (size d)) (seq 0 (size d)).

(* ---- the witness: xnor/xor module m0,m1 (one complex attractor) and three bistable switches s, t, u;
        variable order as in the library (alphabetical): m0 m1 s1 s2 t1 t2 u1 u2 ---- *)
Definition d4_net : net :=
  [ (fun s => Bool.eqb (nth 0 s false) (nth 1 s false));     (* m0 := m0 xnor m1 *)
    (fun s => xorb (nth 0 s false) (nth 1 s false));           (* m1 := m0 xor m1  *)
    (fun s => nth 3 s false); (fun s => nth 2 s false);        (* s1 := s2, s2 := s1 *)
    (fun s => nth 5 s false); (fun s => nth 4 s false);
    (fun s => nth 7 s false); (fun s => nth 6 s false) ].
Definition d4_cfg : config := {| max_motifs := 1000 |}.
Definition d4_min_tape : list space := sort_by_key (min_traps_b d4_net (n_space (get (init d4_net) 0))).
Definition d4_history : list op :=
  [OExpandNode 0; OExpandNode 2; OExpandNode 3; OSkipRemaining d4_min_tape].
Definition d4_diagram : sd :=
  fst (last (run 100 d4_net d4_cfg (init d4_net) d4_history) (init d4_net, RUnit)).
Definition d4_cache : cache := seeds_everywhere d4_net d4_diagram.
