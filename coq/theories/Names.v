(* Names.v -- model of petri_net_translation.sanitize_network_names, variable_to_place and
   place_to_variable.  A name is the list of its Unicode code points.  Definitions only. *)
From Coq Require Import List Bool Arith NArith.
Import ListNotations.
From BB Require Import BN.

Definition name := list N.

(* [a-zA-Z0-9_] *)
Definition valid_char (c : N) : bool :=
  ((48 <=? c) && (c <=? 57) || (65 <=? c) && (c <=? 90) || (97 <=? c) && (c <=? 122) || (c =? 95))%N.
(* re.fullmatch("[a-zA-Z0-9_]+", name) *)
Definition valid_name (s : name) : bool :=
  match s with [] => false | _ => forallb valid_char s end.
(* re.match("^[a-zA-Z0-9_]+$", name): `$` also matches before a trailing newline (the test used before fix D16) *)
Definition valid_name_dollar (s : name) : bool :=
  valid_name s || match rev s with 10%N :: r => valid_name (rev r) | _ => false end.

(* re.sub("[^a-zA-Z0-9_]", "_", name) *)
Definition subst_name (s : name) : name := map (fun c => if valid_char c then c else 95%N) s.

Fixpoint eqb_name (a b : name) : bool :=
  match a, b with
  | [], [] => true
  | x :: a', y :: b' => N.eqb x y && eqb_name a' b'
  | _, _ => false
  end.

(* while True: try set_variable_name(var, new_name) except: new_name = "_" + new_name
   (AEON refuses every name that some variable -- the renamed one included -- currently has) *)
Fixpoint fresh (fuel : nat) (cur : list name) (nm : name) : option name :=
  match fuel with
  | O => None
  | S f => if existsb (eqb_name nm) cur then fresh f cur (95%N :: nm) else Some nm
  end.

Definition sanitize_one (valid : name -> bool) (cur : list name) (i : nat) : option (list name) :=
  let nm := nth i cur [] in
  if valid nm then Some cur else
  match fresh (S (length cur)) cur (subst_name nm) with
  | Some nm' => Some (set_nth i nm' cur)
  | None => None
  end.

(* for var in network.variables() *)
Fixpoint sanitize_from (valid : name -> bool) (k i : nat) (cur : list name) : option (list name) :=
  match k with
  | O => Some cur
  | S k' => match sanitize_one valid cur i with
            | Some cur' => sanitize_from valid k' (S i) cur'
            | None => None
            end
  end.
Definition sanitize_with (valid : name -> bool) (names : list name) : option (list name) :=
  sanitize_from valid (length names) 0 names.
Definition sanitize (names : list name) : option (list name) := sanitize_with valid_name names.
(* check_only=True: raises iff some name is invalid *)
Definition check_only_ok (names : list name) : bool := forallb valid_name names.

(* variable_to_place / place_to_variable *)
Definition place_name (v : name) (positive : bool) : name :=
  (if positive then [98; 49; 95] else [98; 48; 95])%N ++ v.
Definition place_to_variable (p : name) : option (name * bool) :=
  match p with
  | 98 :: 49 :: 95 :: v => Some (v, true)
  | 98 :: 48 :: 95 :: v => Some (v, false)
  | _ => None
  end%N.
