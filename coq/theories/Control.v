(* Control.v -- model of control.py (succession control) and the semantic notion of forcing.
   Definitions only. *)
From Coq Require Import List Bool Arith.
Import ListNotations.
From BB Require Import BN Brute Diagram.

(* ---- the overridden network N[d]: variables assigned by d become constants ---- *)
Fixpoint override (N : net) (d : space) : net :=
  match N, d with
  | f :: N', o :: d' => (match o with Some b => (fun _ => b) | None => f end) :: override N' d'
  | _, _ => N
  end.

(* every attractor of M reachable from a state of `from` lies inside `goal` *)
Definition forced_b (M : net) (from goal : space) : bool :=
  let attrs := attractors_b M in
  forallb (fun s =>
    let r := reach_list M s in
    forallb (fun A => inside_b A goal || negb (existsb (fun t => mem_state t A) r)) attrs)
    (states_of from).
Definition forced (M : net) (from goal : space) : Prop :=
  forall s A, length s = nvars M -> in_space s from = true -> attractor M A ->
    (exists t, A t /\ reach M s t) -> forall t, A t -> in_space t goal = true.

(* ---- successions_to_target on a diagram (after expand_to_target) ---- *)
Definition reduce_motif (m parent : space) : space :=
  map (fun p => match snd p with Some _ => None | None => fst p end) (combine m parent).

Fixpoint descendants (fuel : nat) (d : sd) (x : nat) : list nat :=
  match fuel with
  | O => [x]
  | S f => x :: flat_map (descendants f d) (successors d x)
  end.

Definition hot_lava (d : sd) (target : space) (s : nat) : bool :=
  let sp := n_space (get d s) in
  match intersect sp target with
  | None => true
  | Some _ => negb (subspace sp target) && is_minimal d s
  end.
Definition reaches_lava (d : sd) (target : space) (s : nat) : bool :=
  existsb (hot_lava d target) (descendants (size d) d s).
Definition predecessors (d : sd) (s : nat) : list nat :=
  map e_src (filter (fun e => Nat.eqb (e_dst e) s) (sd_edges d)).

(* all paths x -> ... -> t as lists of edges' motif lists (reduced), in DFS order *)
Fixpoint paths (fuel : nat) (d : sd) (x t : nat) : list (list (list space)) :=
  if Nat.eqb x t then [[]] else
  match fuel with
  | O => []
  | S f =>
      flat_map (fun e =>
        if Nat.eqb (e_src e) x
        then map (cons (map (fun m => reduce_motif m (n_space (get d x))) (e_motifs e)))
                 (paths f d (e_dst e) t)
        else []) (sd_edges d)
  end.

Fixpoint product {A} (ls : list (list A)) : list (list A) :=
  match ls with
  | [] => [[]]
  | l :: r => flat_map (fun x => map (cons x) (product r)) l
  end.

Definition successions (d : sd) (target : space) : list (list space) :=
  let ends := filter (fun s => negb (reaches_lava d target s)) (seq 0 (size d)) in
  let found := match ends with [] => false | _ => true end in
  let res :=
    flat_map (fun s =>
      if existsb (reaches_lava d target) (predecessors d s)
      then if Nat.eqb s 0 then [] else flat_map product (paths (size d) d 0 s)
      else []) ends in
  match res with
  | [] => if found then [[]] else []
  | _ => res
  end.

(* ---- find_drivers / drivers_of_succession ---- *)
Fixpoint subsets_of_size {A} (k : nat) (l : list A) : list (list A) :=
  match k, l with
  | O, _ => [[]]
  | S _, [] => []
  | S k', x :: r => map (cons x) (subsets_of_size k' r) ++ subsets_of_size k r
  end.

Definition assign (n : nat) (kv : list (nat * bool)) : space :=
  fold_right (fun p acc => set_nth (fst p) (Some (snd p)) acc) (top_space n) kv.
Fixpoint valuations (vars : list nat) : list (list (nat * bool)) :=
  match vars with
  | [] => [[]]
  | v :: r => flat_map (fun b => map (cons (v, b)) (valuations r)) [false; true]
  end.

Definition forces_ldoi (N : net) (drv assume ts : space) : bool :=
  subspace (percolate_b N (merge drv assume)) ts.

Definition subset_nat (a b : list nat) : bool := forallb (fun x => existsb (Nat.eqb x) b) a.

(* one size class: keep variable sets none of whose (already found) subsets force *)
Definition drivers_of_size (N : net) (all_strategy : bool) (ts_inner assume ts : space)
           (pool : list nat) (found_keys : list (list nat)) (k : nat)
  : list space * list (list nat) :=
  fold_left (fun acc vs =>
    let '(out, keys) := acc in
    if existsb (fun key => subset_nat key vs) keys then acc else
    let vals := if all_strategy then valuations vs
                else [map (fun v => (v, match nth v ts_inner None with Some b => b | None => false end)) vs] in
    let good := filter (fun kv => forces_ldoi N (assign (nvars N) kv) assume ts) vals in
    match good with
    | [] => acc
    | _ => (out ++ map (assign (nvars N)) good, keys ++ map (fun _ => vs) good)
    end) (subsets_of_size k pool) ([], found_keys).

Fixpoint drivers_upto (N : net) (all_strategy : bool) (ts_inner assume ts : space) (pool : list nat)
         (sizes : list nat) (found : list space) (keys : list (list nat)) : list space :=
  match sizes with
  | [] => found
  | k :: r => let '(out, keys') := drivers_of_size N all_strategy ts_inner assume ts pool keys k in
              drivers_upto N all_strategy ts_inner assume ts pool r (found ++ out) keys'
  end.

Definition free_of (ts assume : space) : space :=
  map (fun p => match snd p with Some _ => None | None => fst p end) (combine ts assume).
Definition vars_fixed (x : space) : list nat :=
  filter (fun v => match nth v x None with Some _ => true | None => false end) (seq 0 (length x)).

Definition find_drivers (N : net) (ts : space) (all_strategy : bool) (assume : space)
           (maxd : option nat) (forbidden : list nat) : list space :=
  let inner := free_of ts assume in
  let pool0 := if all_strategy then seq 0 (nvars N) else vars_fixed inner in
  let pool := filter (fun v => negb (existsb (Nat.eqb v) forbidden)) pool0 in
  let bound := match maxd with Some k => k | None => length (vars_fixed inner) end in
  drivers_upto N all_strategy inner assume ts pool (seq 0 (S bound)) [] [].

Fixpoint drivers_of_succession (N : net) (succ : list space) (all_strategy : bool) (assume : space)
         (maxd : option nat) (forbidden : list nat) : list (list space) :=
  match succ with
  | [] => []
  | ts :: r =>
      find_drivers N ts all_strategy assume maxd forbidden ::
      drivers_of_succession N r all_strategy (merge assume (percolate_b N (merge ts assume))) maxd forbidden
  end.

Definition succession_control (N : net) (d : sd) (target : space) (all_strategy : bool)
           (maxd : option nat) (forbidden : list nat)
  : list (list space * list (list space) * bool) :=
  map (fun succ =>
         let ctl := drivers_of_succession N succ all_strategy (top_space (nvars N)) maxd forbidden in
         (succ, ctl, forallb (fun c => match c with [] => false | _ => true end) ctl))
      (successions d target).

(* ---- skip_feedforward_successions: drop successions whose signature (union of the step motifs) is subsumed ---- *)
Definition signature (succ : list space) : space :=
  match succ with
  | [] => []
  | m :: r => fold_left merge r m            (* reduce(lambda x, y: x | y, succession) *)
  end.

(* for i in reversed(range(len(signatures))): subsumed by an existing one -> stop and skip the new one (what was deleted
   so far stays deleted); existing ones subsumed by the new one are deleted.  `rkept` is the list in REVERSE order. *)
Fixpoint ff_scan (sig : space) (rkept : list (space * list space)) : list (space * list space) * bool :=
  match rkept with
  | [] => ([], false)
  | (e, s) :: r =>
      if subspace sig e then ((e, s) :: r, true)
      else if subspace e sig then ff_scan sig r
      else let '(r', skip) := ff_scan sig r in ((e, s) :: r', skip)
  end.

Definition ff_filter (succs : list (list space)) : list (list space) :=
  map snd (rev (fold_left (fun rkept succ =>
                             let sig := signature succ in
                             let '(rk, skip) := ff_scan sig rkept in
                             if skip then rk else (sig, succ) :: rk) succs [])).

Definition successions_ff (d : sd) (target : space) (skip_ff : bool) : list (list space) :=
  if skip_ff then
    match successions d target with
    | [[]] => [[]]                           (* the "no control needed" answer is produced after the loop *)
    | l => ff_filter l
    end
  else successions d target.

Definition succession_control_ff (N : net) (d : sd) (target : space) (all_strategy : bool)
           (maxd : option nat) (forbidden : list nat) (skip_ff : bool)
  : list (list space * list (list space) * bool) :=
  map (fun succ =>
         let ctl := drivers_of_succession N succ all_strategy (top_space (nvars N)) maxd forbidden in
         (succ, ctl, forallb (fun c => match c with [] => false | _ => true end) ctl))
      (successions_ff d target skip_ff).
