(* MinExpandFacts.v -- the minimal-space expansion (expand_minimal_spaces) and the
   completion by skipping (skip_remaining) find exactly the minimal trap spaces:
   1. LeafOK    every expanded node without successors is a minimal trap space
                (preserved by every operation),
   2. MinFound  every minimal trap space is the space of such a node once
                expand_min from the root reports completion,
   3. the same after skip_remaining,
   4. no duplicates (node spaces are pairwise distinct). *)
From Coq Require Import List Bool Arith NArith Lia Permutation.
Import ListNotations.
From BB Require Import BN Brute SpaceFacts TrapFacts PercolateFacts Diagram Invariants DiagramStruct DiagramSem1 DiagramComplete.

Local Arguments percolate_b : simpl never.
Local Arguments expand_one : simpl never.
Local Arguments node_successors : simpl never.
Local Arguments ensure_node : simpl never.
Local Arguments ensure_edge : simpl never.
Local Arguments raise_depth : simpl never.
Local Arguments max_traps_b : simpl never.
Local Arguments min_traps_b : simpl never.
Local Arguments make_skip_node : simpl never.
Local Arguments upd_node : simpl never.
Local Arguments ensure_min_children : simpl never.

Definition LeafOK (N : net) (d : sd) : Prop :=
  forall i, i < size d -> is_minimal d i = true -> min_trap N (n_space (get d i)).
Definition MinFound (N : net) (d : sd) : Prop :=
  forall M, min_trap N M -> exists i, i < size d /\ is_minimal d i = true /\ n_space (get d i) = M.

(* ================================================================== *)
(* 0. helpers                                                          *)
(* ================================================================== *)

Lemma perm_of_In_rev : forall a b x, perm_of a b = true -> In x b -> In x a.
Proof.
  intros a b x H Hin. unfold perm_of in H. apply andb_true_iff in H. destruct H as [_ H].
  rewrite forallb_forall in H. apply mem_space_spec. apply H. exact Hin.
Qed.

Lemma is_minimal_iff : forall d i,
  is_minimal d i = true <-> out_edges d i = [] /\ n_exp (get d i) = true.
Proof.
  intros d i. unfold is_minimal, out_degree. rewrite successors_out.
  rewrite andb_true_iff, Nat.eqb_eq, length_zero_iff_nil. split; intros [H1 H2]; split; auto.
  - apply map_eq_nil in H1. exact H1.
  - rewrite H1. reflexivity.
Qed.

Lemma is_minimal_valid : forall d i, is_minimal d i = true -> i < size d.
Proof.
  intros d i H. apply is_minimal_iff in H. destruct H as [_ H].
  destruct (lt_dec i (size d)) as [Hlt|Hge]; [exact Hlt|].
  rewrite get_beyond in H by lia. discriminate H.
Qed.

Lemma out_edges_In : forall d i e, In e (out_edges d i) <-> In e (sd_edges d) /\ e_src e = i.
Proof.
  intros d i e. unfold out_edges. rewrite filter_In, Nat.eqb_eq. reflexivity.
Qed.

Lemma has_edge_out_nonempty : forall d p c, has_edge d p c = true -> out_edges d p <> [].
Proof.
  intros d p c H Hnil. apply has_edge_true in H. destruct H as (e & Hin & Hs & _).
  assert (Hine : In e (out_edges d p)) by (apply out_edges_In; auto).
  rewrite Hnil in Hine. exact Hine.
Qed.

(* a node that carries a minimal trap space has no successors *)
Lemma min_node_no_out : forall N d i, SWF N d -> TrapNodes N d -> EdgeStrict d ->
  min_trap N (n_space (get d i)) -> out_edges d i = [].
Proof.
  intros N d i Hswf Htn Hes Hmin.
  destruct (out_edges d i) as [|e r] eqn:E; [reflexivity|]. exfalso.
  assert (Hin : In e (out_edges d i)) by (rewrite E; left; reflexivity).
  apply out_edges_In in Hin. destruct Hin as [Hine Hsrc].
  destruct (swf_edges N d Hswf e Hine) as (_ & Hdst & _).
  destruct (Hes e Hine) as [Hsub Hne]. rewrite Hsrc in Hsub, Hne.
  destruct Hmin as [_ Hmin]. apply Hne. apply Hmin; [|exact Hsub].
  apply TrapNodes_get; assumption.
Qed.

(* 4. no duplicates *)
Theorem minimal_nodes_unique : forall N d i j, SWF N d -> i < size d -> j < size d ->
  n_space (get d i) = n_space (get d j) -> i = j.
Proof. intros N d i j Hswf Hi Hj Heq. eapply spaces_inj; eassumption. Qed.

(* ================================================================== *)
(* 2. completeness of the minimal-space expansion                      *)
(* ================================================================== *)

(* the loop reports `true` only with an empty `remaining`; an element leaves
   `remaining` only when the visited node carrying it is expanded *)
Lemma min_loop_true_rem : forall N cfg sl skip all_min fuel d seen remaining stack d',
  rem_inv all_min d remaining ->
  min_loop fuel N cfg sl skip all_min d seen remaining stack = (d', RBool true) ->
  rem_inv all_min d' [].
Proof.
  intros N cfg sl skip all_min fuel.
  induction fuel as [|f IH]; intros d seen remaining stack d' Hrem H; simpl in H;
    [discriminate H|].
  destruct stack as [|[x osucc] stack'].
  { destruct (Nat.eqb (length remaining) 0) eqn:E; [|discriminate H].
    injection H as Hd. subst d'. apply Nat.eqb_eq in E. apply length_zero_iff_nil in E.
    subst remaining. exact Hrem. }
  assert (Htail : forall d1 succ, extends d d1 ->
            (let '(d2, succ2) :=
               min_inner N d1 seen remaining all_min (n_space (get d1 x)) skip succ in
             match succ2 with
             | [] =>
                 if is_minimal d2 x
                 then match remove_space (n_space (get d2 x)) remaining with
                      | Some rem' => min_loop f N cfg sl skip all_min d2 seen rem' stack'
                      | None => (d2, RRaised ErrAssert)
                      end
                 else min_loop f N cfg sl skip all_min d2 seen remaining stack'
             | s :: rest =>
                 min_loop f N cfg sl skip all_min d2 (s :: seen) remaining
                          ((s, None) :: (x, Some rest) :: stack')
             end) = (d', RBool true) -> rem_inv all_min d' []).
  { intros d1 succ He1 H1.
    pose proof (min_inner_extends N all_min remaining (n_space (get d1 x)) skip seen succ d1)
      as He2.
    destruct (min_inner N d1 seen remaining all_min (n_space (get d1 x)) skip succ)
      as [d2 succ2]. simpl in He2.
    assert (Hrem2 : rem_inv all_min d2 remaining).
    { eapply rem_inv_extends; [exact He2|]. eapply rem_inv_extends; eassumption. }
    destruct succ2 as [|s rest]; [|eapply IH; eassumption].
    destruct (is_minimal d2 x) eqn:Emin; [|eapply IH; eassumption].
    destruct (remove_space (n_space (get d2 x)) remaining) as [rem'|] eqn:Erem;
      [|discriminate H1].
    eapply IH; [|exact H1].
    intros m Hin. destruct (Hrem2 m Hin) as [Hm|Hw]; [|right; exact Hw].
    destruct (eqb_space m (n_space (get d2 x))) eqn:Eeq.
    - right. apply eqb_space_spec in Eeq. exists x.
      split; [apply is_minimal_valid; exact Emin|]. split; [auto|].
      apply is_minimal_iff in Emin. apply Emin.
    - left. eapply remove_space_keeps; [exact Erem|exact Hm|].
      intro Heq. subst m.
      rewrite (proj2 (eqb_space_spec _ _) eq_refl) in Eeq. discriminate Eeq. }
  destruct osucc as [l|]; simpl in H.
  - eapply Htail; [apply extends_refl|exact H].
  - destruct (over_limit sl d && negb (n_exp (get d x))); [discriminate H|].
    pose proof (node_successors_extends N cfg d x) as He1.
    pose proof (node_successors_result N cfg d x) as Hres.
    destruct (node_successors N cfg d x) as [[d1 r] succ]. simpl in He1.
    destruct (Hres d1 r succ eq_refl) as [Hr|[e Hr]]; subst r; [|discriminate H].
    eapply Htail; [exact He1|exact H].
Qed.

Lemma step_OMin_root : forall fuel N cfg d skip tape,
  fst (step fuel N cfg d (OMin None None skip tape)) =
  fst (expand_min fuel N cfg d None None skip tape).
Proof. intros. reflexivity. Qed.

(* every minimal trap space has an expanded node: enough for MinFound *)
Lemma MinFound_of_nodes : forall N d, SWF N d -> TrapNodes N d -> EdgeStrict d ->
  (forall M, min_trap N M ->
     exists j, j < size d /\ n_space (get d j) = M /\ n_exp (get d j) = true) ->
  MinFound N d.
Proof.
  intros N d Hswf Htn Hes Hall M HM. destruct (Hall M HM) as (j & Hj & Hsp & Hex).
  exists j. split; [exact Hj|]. split; [|exact Hsp].
  apply is_minimal_iff. split; [|exact Hex].
  apply (min_node_no_out N d j Hswf Htn Hes). rewrite Hsp. exact HM.
Qed.

Theorem expand_min_complete : forall fuel N cfg d d' skip tape, 1 <= max_motifs cfg ->
  SWF N d -> TrapNodes N d -> NoStubEdges d -> EdgeStrict d -> Faithful N d ->
  n_space (get d 0) = percolate_b N (top_space (nvars N)) ->
  expand_min fuel N cfg d None None skip tape = (d', RBool true) -> MinFound N d'.
Proof.
  intros fuel N cfg d d' skip tape _ Hswf Htn _ Hes _ Hroot H.
  assert (Hd' : d' = fst (step fuel N cfg d (OMin None None skip tape))).
  { rewrite step_OMin_root, H. reflexivity. }
  assert (Hswf' : SWF N d') by (rewrite Hd'; apply step_SWF; exact Hswf).
  assert (Htn' : TrapNodes N d') by (rewrite Hd'; apply step_TrapNodes; assumption).
  assert (Hes' : EdgeStrict d') by (rewrite Hd'; apply step_EdgeStrict; assumption).
  unfold expand_min in H.
  destruct (negb (perm_of tape (min_traps_b N (n_space (get d 0))))) eqn:Ep; [discriminate H|].
  apply negb_false_iff in Ep.
  assert (Hrem : rem_inv tape d' []).
  { eapply min_loop_true_rem; [|exact H]. intros m Hin. left. exact Hin. }
  apply MinFound_of_nodes; try assumption.
  intros M HM. destruct (Hrem M) as [[]|Hj]; [|exact Hj].
  eapply perm_of_In_rev; [exact Ep|].
  apply min_traps_b_spec.
  - apply (swf_len N d Hswf). apply get_In. apply (swf_size N d Hswf).
  - split; [exact HM|]. rewrite Hroot. apply min_trap_in_root. exact HM.
Qed.

(* ================================================================== *)
(* 1. LeafOK: expanded nodes without successors are minimal traps      *)
(* ================================================================== *)

(* an ordinary expanded node without successors: no maximal trap space below it *)
Lemma canonical_leaf : forall N d i, trap_space N (n_space (get d i)) ->
  canonical N d i -> out_edges d i = [] -> min_trap N (n_space (get d i)).
Proof.
  intros N d i HtS Hcan Hout.
  unfold canonical, out_motifs in Hcan. rewrite Hout in Hcan. simpl in Hcan.
  apply Permutation_nil in Hcan.
  destruct (min_trap_exists N _ HtS) as (M' & HM' & Hsub').
  destruct (eqb_space M' (n_space (get d i))) eqn:Eq.
  - apply eqb_space_spec in Eq. rewrite <- Eq. exact HM'.
  - exfalso.
    assert (Hss : strict_subspace M' (n_space (get d i))).
    { split; [exact Hsub'|]. intro Heq. apply eqb_space_spec in Heq.
      rewrite Heq in Eq. discriminate Eq. }
    destruct (max_trap_above_srcs N _ (node_srcs N i) M' (min_trap_trap N M' HM') Hss
                (min_trap_fixes_node_srcs N M' i HM')) as (M2 & HM2 & _).
    rewrite Hcan in HM2. destruct HM2.
Qed.

Lemma LeafOK_same : forall N d d',
  (forall j, out_edges d' j = out_edges d j) ->
  (forall j, n_exp (get d' j) = n_exp (get d j)) ->
  (forall j, n_space (get d' j) = n_space (get d j)) ->
  LeafOK N d -> LeafOK N d'.
Proof.
  intros N d d' Ho He Hs Hl j _ Hmin. rewrite Hs.
  assert (Hmin0 : is_minimal d j = true).
  { apply is_minimal_iff. apply is_minimal_iff in Hmin. rewrite <- Ho, <- He. exact Hmin. }
  apply Hl; [apply is_minimal_valid; exact Hmin0|exact Hmin0].
Qed.

Lemma LeafOK_upd_neutral : forall N d i f, flag_setter f -> (forall x, n_exp (f x) = n_exp x) ->
  LeafOK N d -> LeafOK N (upd_node d i f).
Proof.
  intros N d i f Hf Hex Hl. apply (LeafOK_same N d); [| | |exact Hl].
  - intro j. apply out_edges_same_edges. apply sd_edges_upd_node.
  - intro j. destruct (get_upd_node_cases d i j f) as [H|(_ & _ & H)]; rewrite H; [reflexivity|].
    apply Hex.
  - intro j. apply n_space_upd_flag. exact Hf.
Qed.

Lemma LeafOK_reclaim : forall N d, LeafOK N d -> LeafOK N (reclaim d).
Proof.
  intros N d Hl. apply (LeafOK_same N d); [| | |exact Hl].
  - intro j. apply out_edges_same_edges. reflexivity.
  - intro j. rewrite get_reclaim. destruct (n_seeds (get d j)); reflexivity.
  - intro j. rewrite get_reclaim. destruct (n_seeds (get d j)); reflexivity.
Qed.

Lemma get_upd_beyond : forall d i j f, size d <= j -> get (upd_node d i f) j = dummy_node.
Proof. intros d i j f H. apply get_beyond. rewrite size_upd_node. exact H. Qed.

(* nodes created by expand_one are stubs *)
Lemma expand_one_new_unexp : forall N cfg d i j, size d <= j ->
  n_exp (get (fst (expand_one N cfg d i)) j) = false.
Proof.
  intros N cfg d i j Hj. destruct (expand_one N cfg d i) as [d' r] eqn:E. simpl.
  destruct (expand_one_cases N cfg d i d' r E)
    as [(_ & A & _)|[(_ & _ & A & _)|[(_ & _ & _ & A & _)|(_ & B & _ & A & _)]]]; subst d'.
  - rewrite get_beyond by exact Hj. reflexivity.
  - rewrite get_upd_beyond; [reflexivity|]. rewrite size_upd_node. exact Hj.
  - rewrite get_upd_beyond by exact Hj. reflexivity.
  - apply not_full_valid in B.
    rewrite get_upd_node_neq by lia.
    set (d1 := ensure_all N (upd_node d i clear_attr) i (firstn (eo_k N cfg d i) (eo_all N d i))).
    destruct (lt_dec j (size d1)) as [Hlt|Hge].
    + apply (ensure_all_new N _ (upd_node d i clear_attr) i j); [|exact Hlt].
      rewrite size_upd_node. exact Hj.
    + rewrite get_beyond by lia. reflexivity.
Qed.

Lemma expand_one_result : forall N cfg d i d' r, expand_one N cfg d i = (d', r) ->
  r = RUnit \/ exists e, r = RRaised e.
Proof.
  intros N cfg d i d' r E.
  destruct (expand_one_cases N cfg d i d' r E)
    as [(_ & _ & A)|[(_ & _ & _ & A)|[(_ & _ & _ & _ & A)|(_ & _ & _ & _ & A)]]]; subst r;
    [left; reflexivity|left; reflexivity|right; eexists; reflexivity|left; reflexivity].
Qed.

Lemma expand_one_LeafOK : forall N cfg d i, 1 <= max_motifs cfg -> SWF N d -> TrapNodes N d ->
  NoStubEdges d -> LeafOK N d -> LeafOK N (fst (expand_one N cfg d i)).
Proof.
  intros N cfg d i Hmm Hswf Htn Hnse Hl.
  destruct (lt_dec i (size d)) as [Hi|Hge]; [|rewrite expand_one_beyond by lia; exact Hl].
  pose proof (expand_one_new_unexp N cfg d i) as Hnew.
  pose proof (expand_one_extends N cfg d i) as Hext.
  destruct (expand_one N cfg d i) as [d' r] eqn:E. simpl in Hnew, Hext |- *.
  destruct (n_exp (get d i)) eqn:Ex.
  { destruct (expand_one_cases N cfg d i d' r E)
      as [(_ & A & _)|[(A & _)|[(A & _)|(A & _)]]]; try congruence. subst d'. exact Hl. }
  destruct (expand_one_result N cfg d i d' r E) as [Hr|[e Hr]]; subst r.
  - destruct (expand_one_canonical N cfg d i d' Hswf Hnse Hi Ex Hmm E) as (A1 & A2 & A3 & A4).
    intros j Hj Hmin. apply is_minimal_iff in Hmin. destruct Hmin as [Hout Hexp].
    destruct (lt_dec j (size d)) as [Hjd|Hjd];
      [|rewrite Hnew in Hexp by lia; discriminate Hexp].
    destruct (Nat.eq_dec j i) as [Heq|Hne].
    + subst j. apply canonical_leaf; try assumption.
      rewrite (extends_space d d' i Hext Hi). apply TrapNodes_get; assumption.
    + destruct (A4 j Hjd Hne) as (B1 & B2 & _). rewrite (extends_space d d' j Hext Hjd).
      apply Hl; [exact Hjd|]. apply is_minimal_iff. rewrite <- B1, <- B2. split; assumption.
  - destruct (expand_one_raise_unchanged N cfg d i d' e E) as (A1 & A2 & A3).
    apply (LeafOK_same N d); [| | |exact Hl].
    + intro j. apply out_edges_same_edges. exact A1.
    + intro j. apply (A3 j).
    + intro j. apply (A3 j).
Qed.

(* ---------- one node p being turned into a skip node ---------- *)
(* all leaves except possibly p are minimal trap spaces; p may carry out-edges *)
Definition LE_inv (N : net) (p : nat) (d : sd) : Prop :=
  NSE_inv N p d /\
  forall j, j <> p -> is_minimal d j = true -> min_trap N (n_space (get d j)).

Lemma LE_inv_start : forall N p d, SWF N d -> NoStubEdges d -> LeafOK N d -> p < size d ->
  LE_inv N p (upd_node d p clear_attr).
Proof.
  intros N p d Hswf Hnse Hl Hp. split; [apply NSE_inv_start; assumption|].
  intros j Hne Hmin. rewrite n_space_upd_flag by constructor.
  apply is_minimal_iff in Hmin. destruct Hmin as [Ho He].
  rewrite (out_edges_same_edges d _ j (sd_edges_upd_node _ _ _)) in Ho.
  rewrite upd_flag_get_other in He by exact Hne.
  assert (Hmin : is_minimal d j = true) by (apply is_minimal_iff; split; assumption).
  apply Hl; [apply is_minimal_valid|]; assumption.
Qed.

Lemma LE_inv_mark : forall N p d m, LE_inv N p d -> length m = nvars N -> min_trap N m ->
  LE_inv N p (mark_expanded (fst (ensure_node N d (Some p) m)) (snd (ensure_node N d (Some p) m))).
Proof.
  intros N p d m [Hn Hl] Hm Hmt. split; [apply NSE_inv_mark; assumption|].
  destruct Hn as (Hswf & Hp & _).
  destruct (ensure_child_spec N d p m Hswf Hm Hp) as (S1 & S2 & S3 & S4).
  pose proof (ensure_child_out_other N d p m) as Hoo.
  pose proof (ensure_node_old N d (Some p) m) as Hold.
  pose proof (ensure_node_new N d (Some p) m) as Hnew.
  destruct (ensure_node N d (Some p) m) as [d1 c]. simpl in S1, S2, S3, S4, Hoo, Hold, Hnew |- *.
  intros j Hne Hmin. rewrite n_space_mark_expanded.
  destruct (Nat.eq_dec j c) as [Heq|Hjc].
  - subst j. rewrite S4, (min_trap_percolate N m Hmt). exact Hmt.
  - apply is_minimal_iff in Hmin. destruct Hmin as [Ho He].
    unfold mark_expanded in Ho, He.
    rewrite (out_edges_same_edges d1 _ j (sd_edges_upd_node _ _ _)) in Ho.
    rewrite upd_flag_get_other in He by exact Hjc.
    rewrite (Hoo j Hne) in Ho.
    destruct (lt_dec j (size d)) as [Hjd|Hjd].
    + destruct (Hold j Hjd) as (E1 & E2 & _). rewrite E1. apply Hl; [exact Hne|].
      apply is_minimal_iff. split; [exact Ho|]. rewrite <- E2. exact He.
    + exfalso. destruct (lt_dec j (size d1)) as [Hj1|Hj1].
      * destruct (Hnew j) as [Hf _]; [lia|exact Hj1|]. congruence.
      * rewrite get_beyond in He by lia. discriminate He.
Qed.

Lemma LE_inv_edge : forall N p d c m, LE_inv N p d -> c < size d -> length m = nvars N ->
  percolate_b N m = n_space (get d c) -> LE_inv N p (ensure_edge d p c m).
Proof.
  intros N p d c m [Hn Hl] Hc Hm Hpm. split; [apply NSE_inv_edge; assumption|].
  intros j Hne Hmin. rewrite n_space_ensure_edge.
  apply is_minimal_iff in Hmin. destruct Hmin as [Ho He].
  rewrite ensure_edge_out_other in Ho by exact Hne. rewrite n_exp_ensure_edge in He.
  apply Hl; [exact Hne|]. apply is_minimal_iff. split; assumption.
Qed.

Lemma LE_inv_close_skip : forall N p d, LE_inv N p d -> out_edges d p <> [] ->
  LeafOK N (upd_node (mark_expanded d p) p (fun y => set_skip y true)).
Proof.
  intros N p d [Hn Hl] Hne j _ Hmin.
  rewrite n_space_upd_flag by constructor. rewrite n_space_mark_expanded.
  apply is_minimal_iff in Hmin. destruct Hmin as [Ho He].
  rewrite (out_edges_same_edges (mark_expanded d p) _ j (sd_edges_upd_node _ _ _)) in Ho.
  unfold mark_expanded in Ho, He.
  rewrite (out_edges_same_edges d _ j (sd_edges_upd_node _ _ _)) in Ho.
  destruct (Nat.eq_dec j p) as [Heq|Hjp]; [subst j; contradiction|].
  rewrite !upd_flag_get_other in He by exact Hjp.
  apply Hl; [exact Hjp|]. apply is_minimal_iff. split; assumption.
Qed.

Lemma LE_inv_close_min : forall N p d, LE_inv N p d -> min_trap N (n_space (get d p)) ->
  LeafOK N (mark_expanded d p).
Proof.
  intros N p d [Hn Hl] Hmt j _ Hmin. rewrite n_space_mark_expanded.
  destruct (Nat.eq_dec j p) as [Heq|Hjp]; [subst j; exact Hmt|].
  apply is_minimal_iff in Hmin. destruct Hmin as [Ho He]. unfold mark_expanded in Ho, He.
  rewrite (out_edges_same_edges d _ j (sd_edges_upd_node _ _ _)) in Ho.
  rewrite upd_flag_get_other in He by exact Hjp.
  apply Hl; [exact Hjp|]. apply is_minimal_iff. split; assumption.
Qed.

Lemma LE_min_children : forall N p d mins, LE_inv N p d ->
  (forall m, In m mins -> min_trap N m) -> LE_inv N p (ensure_min_children N d p mins).
Proof.
  intros N p d mins H Hmin.
  apply (C_ensure_min_children N p (LE_inv N p) (fun m => length m = nvars N)).
  - intros d0 m H0 Hm Hmt. apply LE_inv_mark; assumption.
  - exact H.
  - intros m Hin. split; [apply min_trap_length|]; apply Hmin; exact Hin.
Qed.

Lemma ensure_min_children_has_edge : forall N d p m r,
  exists c, has_edge (ensure_min_children N d p (m :: r)) p c = true.
Proof.
  intros N d p m r. unfold ensure_min_children; fold ensure_min_children.
  pose proof (sd_edges_ensure_child N d p m) as Hed.
  destruct (ensure_node N d (Some p) m) as [d1 c]. simpl in Hed. exists c.
  eapply has_edge_extends; [apply ensure_min_children_extends|].
  eapply has_edge_extends; [apply mark_expanded_extends|].
  apply has_edge_true. destruct (edge_added_has d p c m) as (e & Hin & Hs & Hd).
  exists e. rewrite Hed. auto.
Qed.

Lemma ensure_min_children_out : forall N d p mins, mins <> [] ->
  out_edges (ensure_min_children N d p mins) p <> [].
Proof.
  intros N d p mins Hne. destruct mins as [|m r]; [contradiction|].
  destruct (ensure_min_children_has_edge N d p m r) as [c Hc].
  eapply has_edge_out_nonempty. exact Hc.
Qed.

(* make_skip_node: the skipped stub gets at least one successor *)
Lemma make_skip_node_LeafOK : forall N d i all_min, SWF N d -> NoStubEdges d -> LeafOK N d ->
  i < size d -> (forall m, In m all_min -> min_trap N m) ->
  (n_exp (get d i) = false ->
     exists m, In m all_min /\ subspace m (n_space (get d i)) = true) ->
  LeafOK N (make_skip_node N d i all_min).
Proof.
  intros N d i all_min Hswf Hnse Hl Hi Hmin Hex. unfold make_skip_node.
  destruct (n_exp (get d i)) eqn:Ex; [exact Hl|].
  destruct (Hex eq_refl) as (m & Hin & Hsub).
  apply LE_inv_close_skip.
  - apply LE_min_children; [apply LE_inv_start; assumption|].
    intros m0 H0. apply filter_In in H0. apply Hmin. apply H0.
  - apply ensure_min_children_out. intro Hnil.
    assert (Hf : In m (filter (fun m0 => subspace m0 (n_space (get d i))) all_min))
      by (apply filter_In; split; assumption).
    rewrite Hnil in Hf. exact Hf.
Qed.

Lemma skip_to_minimal_LeafOK : forall N d i tape, SWF N d -> TrapNodes N d -> NoStubEdges d ->
  LeafOK N d -> i < size d -> LeafOK N (fst (skip_to_minimal_t N d i tape)).
Proof.
  intros N d i tape Hswf Htn Hnse Hl Hi. unfold skip_to_minimal_t.
  destruct (n_exp (get d i)) eqn:Ex; [exact Hl|].
  destruct (negb (perm_of tape (min_traps_b N (n_space (get d i))))) eqn:Ep; [exact Hl|].
  assert (HS : length (n_space (get d i)) = nvars N).
  { apply (swf_len N d Hswf). apply get_In. exact Hi. }
  pose proof (tape_min_traps N (n_space (get d i)) tape HS Ep) as Hmin.
  pose proof (LE_inv_start N i d Hswf Hnse Hl Hi) as H0.
  assert (Hne : tape <> []).
  { destruct (min_trap_exists N _ (TrapNodes_get N d i Htn Hi)) as (M & HM & Hsub).
    intro Hnil. apply negb_false_iff in Ep.
    assert (Hin : In M tape).
    { eapply perm_of_In_rev; [exact Ep|]. apply min_traps_b_spec; [exact HS|]. split; assumption. }
    rewrite Hnil in Hin. exact Hin. }
  assert (Hcommon :
    LeafOK N (upd_node (mark_expanded (ensure_min_children N (upd_node d i clear_attr) i tape) i) i
                       (fun y => set_skip y true))).
  { apply LE_inv_close_skip.
    - apply LE_min_children; [exact H0|]. intros m Hin. apply (Hmin m Hin).
    - apply ensure_min_children_out. exact Hne. }
  destruct tape as [|m [|m2 r]]; simpl; try exact Hcommon.
  destruct (eqb_space m (n_space (get d i))) eqn:Eeq; simpl; [|exact Hcommon].
  apply eqb_space_spec in Eeq. subst m.
  apply LE_inv_close_min; [exact H0|].
  rewrite n_space_upd_flag by constructor. apply (Hmin _ (or_introl eq_refl)).
Qed.
