(* MinExpandFacts.v -- the minimal-space expansion (expand_minimal_spaces) and the
   completion by skipping (skip_remaining) find exactly the minimal trap spaces:
   1. LeafOK    every expanded node without successors is a minimal trap space
                (preserved by every operation),
   2. MinFound  every minimal trap space is the space of such a node once
                expand_min from the root reports completion,
   3. the same after skip_remaining,
   4. no duplicates (node spaces are pairwise distinct). *)
From Coq Require Import List Bool Arith NArith Lia Permutation.
Import ListNotations.
From BB Require Import BN Brute SpaceFacts TrapFacts PercolateFacts Diagram Invariants DiagramStruct DiagramSem1 DiagramComplete.

Local Arguments percolate_b : simpl never.
Local Arguments expand_one : simpl never.
Local Arguments node_successors : simpl never.
Local Arguments ensure_node : simpl never.
Local Arguments ensure_edge : simpl never.
Local Arguments raise_depth : simpl never.
Local Arguments max_traps_b : simpl never.
Local Arguments min_traps_b : simpl never.
Local Arguments make_skip_node : simpl never.
Local Arguments upd_node : simpl never.
Local Arguments ensure_min_children : simpl never.

Definition LeafOK (N : net) (d : sd) : Prop :=
  forall i, i < size d -> is_minimal d i = true -> min_trap N (n_space (get d i)).
Definition MinFound (N : net) (d : sd) : Prop :=
  forall M, min_trap N M -> exists i, i < size d /\ is_minimal d i = true /\ n_space (get d i) = M.

(* ================================================================== *)
(* 0. helpers                                                          *)
(* ================================================================== *)

Lemma perm_of_In_rev : forall a b x, perm_of a b = true -> In x b -> In x a.
Proof.
  intros a b x H Hin. unfold perm_of in H. apply andb_true_iff in H. destruct H as [_ H].
  rewrite forallb_forall in H. apply mem_space_spec. apply H. exact Hin.
Qed.

Lemma is_minimal_iff : forall d i,
  is_minimal d i = true <-> out_edges d i = [] /\ n_exp (get d i) = true.
Proof.
  intros d i. unfold is_minimal, out_degree. rewrite successors_out.
  rewrite andb_true_iff, Nat.eqb_eq, length_zero_iff_nil. split; intros [H1 H2]; split; auto.
  - apply map_eq_nil in H1. exact H1.
  - rewrite H1. reflexivity.
Qed.

Lemma is_minimal_valid : forall d i, is_minimal d i = true -> i < size d.
Proof.
  intros d i H. apply is_minimal_iff in H. destruct H as [_ H].
  destruct (lt_dec i (size d)) as [Hlt|Hge]; [exact Hlt|].
  rewrite get_beyond in H by lia. discriminate H.
Qed.

Lemma out_edges_In : forall d i e, In e (out_edges d i) <-> In e (sd_edges d) /\ e_src e = i.
Proof.
  intros d i e. unfold out_edges. rewrite filter_In, Nat.eqb_eq. reflexivity.
Qed.

Lemma has_edge_out_nonempty : forall d p c, has_edge d p c = true -> out_edges d p <> [].
Proof.
  intros d p c H Hnil. apply has_edge_true in H. destruct H as (e & Hin & Hs & _).
  assert (Hine : In e (out_edges d p)) by (apply out_edges_In; auto).
  rewrite Hnil in Hine. exact Hine.
Qed.

(* a node that carries a minimal trap space has no successors *)
Lemma min_node_no_out : forall N d i, SWF N d -> TrapNodes N d -> EdgeStrict d ->
  min_trap N (n_space (get d i)) -> out_edges d i = [].
Proof.
  intros N d i Hswf Htn Hes Hmin.
  destruct (out_edges d i) as [|e r] eqn:E; [reflexivity|]. exfalso.
  assert (Hin : In e (out_edges d i)) by (rewrite E; left; reflexivity).
  apply out_edges_In in Hin. destruct Hin as [Hine Hsrc].
  destruct (swf_edges N d Hswf e Hine) as (_ & Hdst & _).
  destruct (Hes e Hine) as [Hsub Hne]. rewrite Hsrc in Hsub, Hne.
  destruct Hmin as [_ Hmin]. apply Hne. apply Hmin; [|exact Hsub].
  apply TrapNodes_get; assumption.
Qed.

(* 4. no duplicates *)
Theorem minimal_nodes_unique : forall N d i j, SWF N d -> i < size d -> j < size d ->
  n_space (get d i) = n_space (get d j) -> i = j.
Proof. intros N d i j Hswf Hi Hj Heq. eapply spaces_inj; eassumption. Qed.

(* ================================================================== *)
(* 2. completeness of the minimal-space expansion                      *)
(* ================================================================== *)

(* the loop reports `true` only with an empty `remaining`; an element leaves
   `remaining` only when the visited node carrying it is expanded *)
Lemma min_loop_true_rem : forall N cfg sl skip all_min fuel d seen remaining stack d',
  rem_inv all_min d remaining ->
  min_loop fuel N cfg sl skip all_min d seen remaining stack = (d', RBool true) ->
  rem_inv all_min d' [].
Proof.
  intros N cfg sl skip all_min fuel.
  induction fuel as [|f IH]; intros d seen remaining stack d' Hrem H; simpl in H;
    [discriminate H|].
  destruct stack as [|[x osucc] stack'].
  { destruct (Nat.eqb (length remaining) 0) eqn:E; [|discriminate H].
    injection H as Hd. subst d'. apply Nat.eqb_eq in E. apply length_zero_iff_nil in E.
    subst remaining. exact Hrem. }
  assert (Htail : forall d1 succ, extends d d1 ->
            (let '(d2, succ2) :=
               min_inner N d1 seen remaining all_min (n_space (get d1 x)) skip succ in
             match succ2 with
             | [] =>
                 if is_minimal d2 x
                 then match remove_space (n_space (get d2 x)) remaining with
                      | Some rem' => min_loop f N cfg sl skip all_min d2 seen rem' stack'
                      | None => (d2, RRaised ErrAssert)
                      end
                 else min_loop f N cfg sl skip all_min d2 seen remaining stack'
             | s :: rest =>
                 min_loop f N cfg sl skip all_min d2 (s :: seen) remaining
                          ((s, None) :: (x, Some rest) :: stack')
             end) = (d', RBool true) -> rem_inv all_min d' []).
  { intros d1 succ He1 H1.
    pose proof (min_inner_extends N all_min remaining (n_space (get d1 x)) skip seen succ d1)
      as He2.
    destruct (min_inner N d1 seen remaining all_min (n_space (get d1 x)) skip succ)
      as [d2 succ2]. simpl in He2.
    assert (Hrem2 : rem_inv all_min d2 remaining).
    { eapply rem_inv_extends; [exact He2|]. eapply rem_inv_extends; eassumption. }
    destruct succ2 as [|s rest]; [|eapply IH; eassumption].
    destruct (is_minimal d2 x) eqn:Emin; [|eapply IH; eassumption].
    destruct (remove_space (n_space (get d2 x)) remaining) as [rem'|] eqn:Erem;
      [|discriminate H1].
    eapply IH; [|exact H1].
    intros m Hin. destruct (Hrem2 m Hin) as [Hm|Hw]; [|right; exact Hw].
    destruct (eqb_space m (n_space (get d2 x))) eqn:Eeq.
    - right. apply eqb_space_spec in Eeq. exists x.
      split; [apply is_minimal_valid; exact Emin|]. split; [auto|].
      apply is_minimal_iff in Emin. apply Emin.
    - left. eapply remove_space_keeps; [exact Erem|exact Hm|].
      intro Heq. subst m.
      rewrite (proj2 (eqb_space_spec _ _) eq_refl) in Eeq. discriminate Eeq. }
  destruct osucc as [l|]; simpl in H.
  - eapply Htail; [apply extends_refl|exact H].
  - destruct (over_limit sl d && negb (n_exp (get d x))); [discriminate H|].
    pose proof (node_successors_extends N cfg d x) as He1.
    pose proof (node_successors_result N cfg d x) as Hres.
    destruct (node_successors N cfg d x) as [[d1 r] succ]. simpl in He1.
    destruct (Hres d1 r succ eq_refl) as [Hr|[e Hr]]; subst r; [|discriminate H].
    eapply Htail; [exact He1|exact H].
Qed.

Lemma step_OMin_root : forall fuel N cfg d skip tape,
  fst (step fuel N cfg d (OMin None None skip tape)) =
  fst (expand_min fuel N cfg d None None skip tape).
Proof. intros fuel N cfg d skip tape. reflexivity. Qed.

(* every minimal trap space has an expanded node: enough for MinFound *)
Lemma MinFound_of_nodes : forall N d, SWF N d -> TrapNodes N d -> EdgeStrict d ->
  (forall M, min_trap N M ->
     exists j, j < size d /\ n_space (get d j) = M /\ n_exp (get d j) = true) ->
  MinFound N d.
Proof.
  intros N d Hswf Htn Hes Hall M HM. destruct (Hall M HM) as (j & Hj & Hsp & Hex).
  exists j. split; [exact Hj|]. split; [|exact Hsp].
  apply is_minimal_iff. split; [|exact Hex].
  apply (min_node_no_out N d j Hswf Htn Hes). rewrite Hsp. exact HM.
Qed.

Theorem expand_min_complete : forall fuel N cfg d d' skip tape, 1 <= max_motifs cfg ->
  SWF N d -> TrapNodes N d -> NoStubEdges d -> EdgeStrict d -> Faithful N d ->
  n_space (get d 0) = percolate_b N (top_space (nvars N)) ->
  expand_min fuel N cfg d None None skip tape = (d', RBool true) -> MinFound N d'.
Proof.
  intros fuel N cfg d d' skip tape _ Hswf Htn _ Hes _ Hroot H.
  assert (Hd' : d' = fst (step fuel N cfg d (OMin None None skip tape))).
  { rewrite step_OMin_root, H. reflexivity. }
  assert (Hswf' : SWF N d') by (rewrite Hd'; apply step_SWF; exact Hswf).
  assert (Htn' : TrapNodes N d') by (rewrite Hd'; apply step_TrapNodes; assumption).
  assert (Hes' : EdgeStrict d') by (rewrite Hd'; apply step_EdgeStrict; assumption).
  unfold expand_min in H.
  destruct (negb (perm_of tape (min_traps_b N (n_space (get d 0))))) eqn:Ep; [discriminate H|].
  apply negb_false_iff in Ep.
  assert (Hrem : rem_inv tape d' []).
  { eapply min_loop_true_rem; [|exact H]. intros m Hin. left. exact Hin. }
  apply MinFound_of_nodes; try assumption.
  intros M HM. destruct (Hrem M) as [[]|Hj]; [|exact Hj].
  eapply perm_of_In_rev; [exact Ep|].
  apply min_traps_b_spec.
  - apply (swf_len N d Hswf). apply get_In. apply (swf_size N d Hswf).
  - split; [exact HM|]. rewrite Hroot. apply min_trap_in_root. exact HM.
Qed.

(* ================================================================== *)
(* 1. LeafOK: expanded nodes without successors are minimal traps      *)
(* ================================================================== *)

(* an ordinary expanded node without successors: no maximal trap space below it *)
Lemma canonical_leaf : forall N d i, trap_space N (n_space (get d i)) ->
  canonical N d i -> out_edges d i = [] -> min_trap N (n_space (get d i)).
Proof.
  intros N d i HtS Hcan Hout.
  unfold canonical, out_motifs in Hcan. rewrite Hout in Hcan. simpl in Hcan.
  apply Permutation_nil in Hcan.
  destruct (min_trap_exists N _ HtS) as (M' & HM' & Hsub').
  destruct (eqb_space M' (n_space (get d i))) eqn:Eq.
  - apply eqb_space_spec in Eq. rewrite <- Eq. exact HM'.
  - exfalso.
    assert (Hss : strict_subspace M' (n_space (get d i))).
    { split; [exact Hsub'|]. intro Heq. apply eqb_space_spec in Heq.
      rewrite Heq in Eq. discriminate Eq. }
    destruct (max_trap_above_srcs N _ (node_srcs N i) M' (min_trap_trap N M' HM') Hss
                (min_trap_fixes_node_srcs N M' i HM')) as (M2 & HM2 & _).
    rewrite Hcan in HM2. destruct HM2.
Qed.

Lemma LeafOK_same : forall N d d',
  (forall j, out_edges d' j = out_edges d j) ->
  (forall j, n_exp (get d' j) = n_exp (get d j)) ->
  (forall j, n_space (get d' j) = n_space (get d j)) ->
  LeafOK N d -> LeafOK N d'.
Proof.
  intros N d d' Ho He Hs Hl j _ Hmin. rewrite Hs.
  assert (Hmin0 : is_minimal d j = true).
  { apply is_minimal_iff. apply is_minimal_iff in Hmin. rewrite <- Ho, <- He. exact Hmin. }
  apply Hl; [apply is_minimal_valid; exact Hmin0|exact Hmin0].
Qed.

Lemma LeafOK_upd_neutral : forall N d i f, flag_setter f -> (forall x, n_exp (f x) = n_exp x) ->
  LeafOK N d -> LeafOK N (upd_node d i f).
Proof.
  intros N d i f Hf Hex Hl. apply (LeafOK_same N d); [| | |exact Hl].
  - intro j. apply out_edges_same_edges. apply sd_edges_upd_node.
  - intro j. destruct (get_upd_node_cases d i j f) as [H|(_ & _ & H)]; rewrite H; [reflexivity|].
    apply Hex.
  - intro j. apply n_space_upd_flag. exact Hf.
Qed.

Lemma LeafOK_reclaim : forall N d, LeafOK N d -> LeafOK N (reclaim d).
Proof.
  intros N d Hl. apply (LeafOK_same N d); [| | |exact Hl].
  - intro j. apply out_edges_same_edges. reflexivity.
  - intro j. rewrite get_reclaim. destruct (n_seeds (get d j)); reflexivity.
  - intro j. rewrite get_reclaim. destruct (n_seeds (get d j)); reflexivity.
Qed.

Lemma get_upd_beyond : forall d i j f, size d <= j -> get (upd_node d i f) j = dummy_node.
Proof. intros d i j f H. apply get_beyond. rewrite size_upd_node. exact H. Qed.

(* nodes created by expand_one are stubs *)
Lemma expand_one_new_unexp : forall N cfg d i j, size d <= j ->
  n_exp (get (fst (expand_one N cfg d i)) j) = false.
Proof.
  intros N cfg d i j Hj. destruct (expand_one N cfg d i) as [d' r] eqn:E. simpl.
  destruct (expand_one_cases N cfg d i d' r E)
    as [(_ & A & _)|[(_ & _ & A & _)|[(_ & _ & _ & A & _)|(_ & B & _ & A & _)]]]; subst d'.
  - rewrite get_beyond by exact Hj. reflexivity.
  - rewrite get_upd_beyond; [reflexivity|]. rewrite size_upd_node. exact Hj.
  - rewrite get_upd_beyond by exact Hj. reflexivity.
  - apply not_full_valid in B.
    rewrite get_upd_node_neq by lia.
    set (d1 := ensure_all N (upd_node d i clear_attr) i (firstn (eo_k N cfg d i) (eo_all N d i))).
    destruct (lt_dec j (size d1)) as [Hlt|Hge].
    + apply (ensure_all_new N _ (upd_node d i clear_attr) i j); [|exact Hlt].
      rewrite size_upd_node. exact Hj.
    + rewrite get_beyond by lia. reflexivity.
Qed.

Lemma expand_one_result : forall N cfg d i d' r, expand_one N cfg d i = (d', r) ->
  r = RUnit \/ exists e, r = RRaised e.
Proof.
  intros N cfg d i d' r E.
  destruct (expand_one_cases N cfg d i d' r E)
    as [(_ & _ & A)|[(_ & _ & _ & A)|[(_ & _ & _ & _ & A)|(_ & _ & _ & _ & A)]]]; subst r;
    [left; reflexivity|left; reflexivity|right; eexists; reflexivity|left; reflexivity].
Qed.

Lemma expand_one_LeafOK : forall N cfg d i, 1 <= max_motifs cfg -> SWF N d -> TrapNodes N d ->
  NoStubEdges d -> LeafOK N d -> LeafOK N (fst (expand_one N cfg d i)).
Proof.
  intros N cfg d i Hmm Hswf Htn Hnse Hl.
  destruct (lt_dec i (size d)) as [Hi|Hge]; [|rewrite expand_one_beyond by lia; exact Hl].
  pose proof (expand_one_new_unexp N cfg d i) as Hnew.
  pose proof (expand_one_extends N cfg d i) as Hext.
  destruct (expand_one N cfg d i) as [d' r] eqn:E. simpl in Hnew, Hext |- *.
  destruct (n_exp (get d i)) eqn:Ex.
  { destruct (expand_one_cases N cfg d i d' r E)
      as [(_ & A & _)|[(A & _)|[(A & _)|(A & _)]]]; try congruence. subst d'. exact Hl. }
  destruct (expand_one_result N cfg d i d' r E) as [Hr|[e Hr]]; subst r.
  - destruct (expand_one_canonical N cfg d i d' Hswf Hnse Hi Ex Hmm E) as (A1 & A2 & A3 & A4).
    intros j Hj Hmin. apply is_minimal_iff in Hmin. destruct Hmin as [Hout Hexp].
    destruct (lt_dec j (size d)) as [Hjd|Hjd];
      [|rewrite Hnew in Hexp by lia; discriminate Hexp].
    destruct (Nat.eq_dec j i) as [Heq|Hne].
    + subst j. apply canonical_leaf; try assumption.
      rewrite (extends_space d d' i Hext Hi). apply TrapNodes_get; assumption.
    + destruct (A4 j Hjd Hne) as (B1 & B2 & _). rewrite (extends_space d d' j Hext Hjd).
      apply Hl; [exact Hjd|]. apply is_minimal_iff. rewrite <- B1, <- B2. split; assumption.
  - destruct (expand_one_raise_unchanged N cfg d i d' e E) as (A1 & A2 & A3).
    apply (LeafOK_same N d); [| | |exact Hl].
    + intro j. apply out_edges_same_edges. exact A1.
    + intro j. apply (A3 j).
    + intro j. apply (A3 j).
Qed.

(* ---------- one node p being turned into a skip node ---------- *)
(* all leaves except possibly p are minimal trap spaces; p may carry out-edges *)
Definition LE_inv (N : net) (p : nat) (d : sd) : Prop :=
  NSE_inv N p d /\
  forall j, j <> p -> is_minimal d j = true -> min_trap N (n_space (get d j)).

Lemma LE_inv_start : forall N p d, SWF N d -> NoStubEdges d -> LeafOK N d -> p < size d ->
  LE_inv N p (upd_node d p clear_attr).
Proof.
  intros N p d Hswf Hnse Hl Hp. split; [apply NSE_inv_start; assumption|].
  intros j Hne Hmin. rewrite n_space_upd_flag by constructor.
  apply is_minimal_iff in Hmin. destruct Hmin as [Ho He].
  rewrite (out_edges_same_edges d _ j (sd_edges_upd_node _ _ _)) in Ho.
  rewrite upd_flag_get_other in He by exact Hne.
  assert (Hmin : is_minimal d j = true) by (apply is_minimal_iff; split; assumption).
  apply Hl; [apply is_minimal_valid|]; assumption.
Qed.

Lemma LE_inv_mark : forall N p d m, LE_inv N p d -> length m = nvars N -> min_trap N m ->
  LE_inv N p (mark_expanded (fst (ensure_node N d (Some p) m)) (snd (ensure_node N d (Some p) m))).
Proof.
  intros N p d m [Hn Hl] Hm Hmt. split; [apply NSE_inv_mark; assumption|].
  destruct Hn as (Hswf & Hp & _).
  destruct (ensure_child_spec N d p m Hswf Hm Hp) as (S1 & S2 & S3 & S4).
  pose proof (ensure_child_out_other N d p m) as Hoo.
  pose proof (ensure_node_old N d (Some p) m) as Hold.
  pose proof (ensure_node_new N d (Some p) m) as Hnew.
  destruct (ensure_node N d (Some p) m) as [d1 c]. simpl in S1, S2, S3, S4, Hoo, Hold, Hnew |- *.
  intros j Hne Hmin. rewrite n_space_mark_expanded.
  destruct (Nat.eq_dec j c) as [Heq|Hjc].
  - subst j. rewrite S4, (min_trap_percolate N m Hmt). exact Hmt.
  - apply is_minimal_iff in Hmin. destruct Hmin as [Ho He].
    unfold mark_expanded in Ho, He.
    rewrite (out_edges_same_edges d1 _ j (sd_edges_upd_node _ _ _)) in Ho.
    rewrite upd_flag_get_other in He by exact Hjc.
    rewrite (Hoo j Hne) in Ho.
    destruct (lt_dec j (size d)) as [Hjd|Hjd].
    + destruct (Hold j Hjd) as (E1 & E2 & _). rewrite E1. apply Hl; [exact Hne|].
      apply is_minimal_iff. split; [exact Ho|]. rewrite <- E2. exact He.
    + exfalso. destruct (lt_dec j (size d1)) as [Hj1|Hj1].
      * destruct (Hnew j) as [Hf _]; [lia|exact Hj1|]. congruence.
      * rewrite get_beyond in He by lia. discriminate He.
Qed.

Lemma LE_inv_edge : forall N p d c m, LE_inv N p d -> c < size d -> length m = nvars N ->
  percolate_b N m = n_space (get d c) -> LE_inv N p (ensure_edge d p c m).
Proof.
  intros N p d c m [Hn Hl] Hc Hm Hpm. split; [apply NSE_inv_edge; assumption|].
  intros j Hne Hmin. rewrite n_space_ensure_edge.
  apply is_minimal_iff in Hmin. destruct Hmin as [Ho He].
  rewrite ensure_edge_out_other in Ho by exact Hne. rewrite n_exp_ensure_edge in He.
  apply Hl; [exact Hne|]. apply is_minimal_iff. split; assumption.
Qed.

Lemma LE_inv_close_skip : forall N p d, LE_inv N p d -> out_edges d p <> [] ->
  LeafOK N (upd_node (mark_expanded d p) p (fun y => set_skip y true)).
Proof.
  intros N p d [Hn Hl] Hne j _ Hmin.
  rewrite n_space_upd_flag by constructor. rewrite n_space_mark_expanded.
  apply is_minimal_iff in Hmin. destruct Hmin as [Ho He].
  rewrite (out_edges_same_edges (mark_expanded d p) _ j (sd_edges_upd_node _ _ _)) in Ho.
  unfold mark_expanded in Ho, He.
  rewrite (out_edges_same_edges d _ j (sd_edges_upd_node _ _ _)) in Ho.
  destruct (Nat.eq_dec j p) as [Heq|Hjp]; [subst j; contradiction|].
  rewrite !upd_flag_get_other in He by exact Hjp.
  apply Hl; [exact Hjp|]. apply is_minimal_iff. split; assumption.
Qed.

Lemma LE_inv_close_min : forall N p d, LE_inv N p d -> min_trap N (n_space (get d p)) ->
  LeafOK N (mark_expanded d p).
Proof.
  intros N p d [Hn Hl] Hmt j _ Hmin. rewrite n_space_mark_expanded.
  destruct (Nat.eq_dec j p) as [Heq|Hjp]; [subst j; exact Hmt|].
  apply is_minimal_iff in Hmin. destruct Hmin as [Ho He]. unfold mark_expanded in Ho, He.
  rewrite (out_edges_same_edges d _ j (sd_edges_upd_node _ _ _)) in Ho.
  rewrite upd_flag_get_other in He by exact Hjp.
  apply Hl; [exact Hjp|]. apply is_minimal_iff. split; assumption.
Qed.

Lemma LE_min_children : forall N p d mins, LE_inv N p d ->
  (forall m, In m mins -> min_trap N m) -> LE_inv N p (ensure_min_children N d p mins).
Proof.
  intros N p d mins H Hmin.
  apply (C_ensure_min_children N p (LE_inv N p) (fun m => length m = nvars N)).
  - intros d0 m H0 Hm Hmt. apply LE_inv_mark; assumption.
  - exact H.
  - intros m Hin. split; [apply min_trap_length|]; apply Hmin; exact Hin.
Qed.

Lemma ensure_min_children_has_edge : forall N d p m r,
  exists c, has_edge (ensure_min_children N d p (m :: r)) p c = true.
Proof.
  intros N d p m r. unfold ensure_min_children; fold ensure_min_children.
  pose proof (sd_edges_ensure_child N d p m) as Hed.
  destruct (ensure_node N d (Some p) m) as [d1 c]. simpl in Hed. exists c.
  eapply has_edge_extends; [apply ensure_min_children_extends|].
  eapply has_edge_extends; [apply mark_expanded_extends|].
  apply has_edge_true. destruct (edge_added_has d p c m) as (e & Hin & Hs & Hd).
  exists e. rewrite Hed. auto.
Qed.

Lemma ensure_min_children_out : forall N d p mins, mins <> [] ->
  out_edges (ensure_min_children N d p mins) p <> [].
Proof.
  intros N d p mins Hne. destruct mins as [|m r]; [contradiction|].
  destruct (ensure_min_children_has_edge N d p m r) as [c Hc].
  eapply has_edge_out_nonempty. exact Hc.
Qed.

(* make_skip_node: the skipped stub gets at least one successor *)
Lemma make_skip_node_LeafOK : forall N d i all_min, SWF N d -> NoStubEdges d -> LeafOK N d ->
  i < size d -> (forall m, In m all_min -> min_trap N m) ->
  (n_exp (get d i) = false ->
     exists m, In m all_min /\ subspace m (n_space (get d i)) = true) ->
  LeafOK N (make_skip_node N d i all_min).
Proof.
  intros N d i all_min Hswf Hnse Hl Hi Hmin Hex. unfold make_skip_node.
  destruct (n_exp (get d i)) eqn:Ex; [exact Hl|].
  destruct (Hex eq_refl) as (m & Hin & Hsub).
  apply LE_inv_close_skip.
  - apply LE_min_children; [apply LE_inv_start; assumption|].
    intros m0 H0. apply filter_In in H0. apply Hmin. apply H0.
  - apply ensure_min_children_out. intro Hnil.
    assert (Hf : In m (filter (fun m0 => subspace m0 (n_space (get d i))) all_min))
      by (apply filter_In; split; assumption).
    rewrite Hnil in Hf. exact Hf.
Qed.

Lemma skip_to_minimal_LeafOK : forall N d i tape, SWF N d -> TrapNodes N d -> NoStubEdges d ->
  LeafOK N d -> i < size d -> LeafOK N (fst (skip_to_minimal_t N d i tape)).
Proof.
  intros N d i tape Hswf Htn Hnse Hl Hi. unfold skip_to_minimal_t.
  destruct (n_exp (get d i)) eqn:Ex; [exact Hl|].
  destruct (negb (perm_of tape (min_traps_b N (n_space (get d i))))) eqn:Ep; [exact Hl|].
  assert (HS : length (n_space (get d i)) = nvars N).
  { apply (swf_len N d Hswf). apply get_In. exact Hi. }
  pose proof (tape_min_traps N (n_space (get d i)) tape HS Ep) as Hmin.
  pose proof (LE_inv_start N i d Hswf Hnse Hl Hi) as H0.
  assert (Hne : tape <> []).
  { destruct (min_trap_exists N _ (TrapNodes_get N d i Htn Hi)) as (M & HM & Hsub).
    intro Hnil. apply negb_false_iff in Ep.
    assert (Hin : In M tape).
    { eapply perm_of_In_rev; [exact Ep|]. apply min_traps_b_spec; [exact HS|]. split; assumption. }
    rewrite Hnil in Hin. exact Hin. }
  assert (Hcommon :
    LeafOK N (upd_node (mark_expanded (ensure_min_children N (upd_node d i clear_attr) i tape) i) i
                       (fun y => set_skip y true))).
  { apply LE_inv_close_skip.
    - apply LE_min_children; [exact H0|]. intros m Hin. apply (Hmin m Hin).
    - apply ensure_min_children_out. exact Hne. }
  destruct tape as [|m [|m2 r]]; simpl; try exact Hcommon.
  destruct (eqb_space m (n_space (get d i))) eqn:Eeq; simpl; [|exact Hcommon].
  apply eqb_space_spec in Eeq. subst m.
  apply LE_inv_close_min; [exact H0|].
  rewrite n_space_upd_flag by constructor. apply (Hmin _ (or_introl eq_refl)).
Qed.

(* ---------- skip_remaining ---------- *)
Definition QL (N : net) (d : sd) : Prop :=
  SWF N d /\ TrapNodes N d /\ NoStubEdges d /\ LeafOK N d.

Lemma QL_swf : forall N d, QL N d -> SWF N d.
Proof. intros N d H. apply H. Qed.

Lemma QL_rootmark : forall N d m, QL N d -> min_trap N m ->
  QL N (mark_expanded (fst (ensure_node N d None m)) (snd (ensure_node N d None m))).
Proof.
  intros N d m (Hswf & Htn & Hnse & Hl) Hmt.
  pose proof (min_trap_length N m Hmt) as Hm.
  destruct (ensure_root_spec N d m Hswf Hm) as (S1 & S2 & S3 & S4).
  assert (Htn1 : TrapNodes N (fst (ensure_node N d None m))).
  { apply (proj1 (prim_closed_trap_TrapNodes N)); try assumption.
    - apply min_trap_trap. exact Hmt.
    - intros p Hp. discriminate Hp. }
  pose proof (sd_edges_ensure_root N d m) as Hed.
  pose proof (ensure_node_old N d None m) as Hold.
  pose proof (ensure_node_new N d None m) as Hnew.
  destruct (ensure_node N d None m) as [d1 c]. simpl in S1, S2, S3, S4, Htn1, Hed, Hold, Hnew |- *.
  assert (Hn1 : NoStubEdges d1).
  { intros e Hin. rewrite Hed in Hin.
    destruct S2 as (_ & _ & S5 & _). apply S5; [apply (swf_edges N d Hswf e Hin)|].
    apply Hnse. exact Hin. }
  split; [unfold mark_expanded; apply upd_flag_SWF; [constructor|exact S1]|].
  split.
  { unfold mark_expanded. apply TrapNodes_spaces. rewrite spaces_upd_flag by constructor.
    apply TrapNodes_spaces. exact Htn1. }
  split; [unfold mark_expanded; apply NoStubEdges_upd; [constructor|exact Hn1]|].
  intros j _ Hmin. rewrite n_space_mark_expanded.
  destruct (Nat.eq_dec j c) as [Heq|Hjc].
  - subst j. rewrite S4, (min_trap_percolate N m Hmt). exact Hmt.
  - apply is_minimal_iff in Hmin. destruct Hmin as [Ho He]. unfold mark_expanded in Ho, He.
    rewrite (out_edges_same_edges d1 _ j (sd_edges_upd_node _ _ _)) in Ho.
    rewrite upd_flag_get_other in He by exact Hjc.
    rewrite (out_edges_same_edges d d1 j Hed) in Ho.
    destruct (lt_dec j (size d)) as [Hjd|Hjd].
    + destruct (Hold j Hjd) as (E1 & E2 & _). rewrite E1. apply Hl; [exact Hjd|].
      apply is_minimal_iff. split; [exact Ho|]. rewrite <- E2. exact He.
    + exfalso. destruct (lt_dec j (size d1)) as [Hj1|Hj1].
      * destruct (Hnew j) as [Hf _]; [lia|exact Hj1|]. congruence.
      * rewrite get_beyond in He by lia. discriminate He.
Qed.

Lemma skip_edges_has_edge : forall traps d p c m, In (c, m) traps ->
  subspace m (n_space (get d p)) = true ->
  exists c', has_edge (skip_edges d p traps) p c' = true.
Proof.
  induction traps as [|[mid m0] r IH]; intros d p c m Hin Hsub; [contradiction|]. simpl.
  destruct (subspace m0 (n_space (get d p))) eqn:Es.
  - exists mid. eapply has_edge_extends; [apply skip_edges_extends|].
    apply has_edge_true. destruct (edge_added_has d p mid m0) as (e & H1 & H2 & H3).
    exists e. rewrite sd_edges_ensure_edge. auto.
  - destruct Hin as [Heq|Hin]; [injection Heq as Hc Hm; subst; congruence|].
    eapply IH; eassumption.
Qed.

Lemma LE_skip_edges : forall N i traps d, LE_inv N i d -> traps_ok N d traps ->
  traps_exp d traps -> LE_inv N i (skip_edges d i traps).
Proof.
  intros N i traps d H Hok Hex. apply (C_skip_edges N i (LE_inv N i)); try assumption.
  intros d1 c m H0 Hc Hm Hpm _ _. apply LE_inv_edge; assumption.
Qed.

Lemma QL_skip1 : forall N d i traps, QL N d -> i < size d -> n_exp (get d i) = false ->
  traps_ok N d traps -> traps_exp d traps ->
  (forall M, min_trap N M -> exists c, In (c, M) traps) ->
  QL N (upd_node (mark_expanded (skip_edges (upd_node d i clear_attr) i traps) i) i
                 (fun y => set_skip y true)).
Proof.
  intros N d i traps (Hswf & Htn & Hnse & Hl) Hi Hex Hok Hte Hall.
  assert (Hle : LE_inv N i (skip_edges (upd_node d i clear_attr) i traps)).
  { apply LE_skip_edges.
    - apply LE_inv_start; assumption.
    - eapply traps_ok_extends; [|exact Hok]. apply upd_flag_extends. constructor.
    - eapply traps_exp_extends; [|exact Hok|exact Hte]. apply upd_flag_extends. constructor. }
  destruct (NSE_inv_close_skip N i _ (proj1 Hle)) as [C1 C2].
  split; [exact C1|]. split; [|split; [exact C2|]].
  - apply TrapNodes_spaces. rewrite spaces_upd_flag by constructor.
    rewrite spaces_mark_expanded, spaces_skip_edges, spaces_upd_flag by constructor.
    apply TrapNodes_spaces. exact Htn.
  - apply LE_inv_close_skip; [exact Hle|].
    destruct (min_trap_exists N _ (TrapNodes_get N d i Htn Hi)) as (M & HM & Hsub).
    destruct (Hall M HM) as [c Hc].
    destruct (skip_edges_has_edge traps (upd_node d i clear_attr) i c M Hc) as [c' Hc'].
    { rewrite n_space_upd_flag by constructor. exact Hsub. }
    eapply has_edge_out_nonempty. exact Hc'.
Qed.

Lemma QL_skip_all : forall N traps, (forall M, min_trap N M -> exists c, In (c, M) traps) ->
  forall ids d count,
  QL N d -> traps_ok N d traps -> traps_exp d traps -> (forall i, In i ids -> i < size d) ->
  QL N (fst (skip_all d ids traps count)).
Proof.
  intros N traps Hall. induction ids as [|i r IH]; intros d count Hq Hok Hex Hv; simpl;
    [exact Hq|].
  assert (Hr : forall j, In j r -> j < size d) by (intros j Hin; apply Hv; right; exact Hin).
  assert (Hi : i < size d) by (apply Hv; left; reflexivity).
  destruct (n_exp (get d i)) eqn:Ei; [apply IH; assumption|].
  assert (He : extends d (upd_node (mark_expanded
                 (skip_edges (upd_node d i clear_attr) i traps) i) i
                 (fun y => set_skip y true))).
  { apply extends_trans with (d2 := upd_node d i clear_attr);
      [apply upd_flag_extends; constructor|].
    eapply extends_trans; [apply skip_edges_extends|].
    eapply extends_trans; [apply mark_expanded_extends|].
    apply upd_flag_extends. constructor. }
  apply IH.
  - apply QL_skip1; assumption.
  - eapply traps_ok_extends; [exact He|exact Hok].
  - eapply traps_exp_extends; [exact He|exact Hok|exact Hex].
  - intros j Hin. eapply extends_lt; [exact He|apply Hr; exact Hin].
Qed.

(* the (id, trap) list built by ensure_roots mentions every element of the tape *)
Lemma ensure_roots_complete : forall N mins d acc m,
  (In m mins \/ exists c, In (c, m) acc) ->
  exists c, In (c, m) (snd (ensure_roots N d mins acc)).
Proof.
  intros N. induction mins as [|m0 r IH]; intros d acc m H; simpl.
  - destruct H as [[]|[c Hc]]. exists c. rewrite <- in_rev. exact Hc.
  - destruct (ensure_node N d None m0) as [d1 c0]. apply IH.
    destruct H as [[Heq|Hin]|[c Hc]].
    + subst m0. right. exists c0. left. reflexivity.
    + left. exact Hin.
    + right. exists c. right. exact Hc.
Qed.

Lemma root_tape_all : forall N d tape, SWF N d ->
  n_space (get d 0) = percolate_b N (top_space (nvars N)) ->
  perm_of tape (min_traps_b N (n_space (get d 0))) = true ->
  forall M, min_trap N M -> In M tape.
Proof.
  intros N d tape Hswf Hroot Hp M HM. eapply perm_of_In_rev; [exact Hp|].
  apply min_traps_b_spec.
  - apply (swf_len N d Hswf). apply get_In. apply (swf_size N d Hswf).
  - split; [exact HM|]. rewrite Hroot. apply min_trap_in_root. exact HM.
Qed.

Lemma skip_remaining_QL : forall N d tape, QL N d ->
  n_space (get d 0) = percolate_b N (top_space (nvars N)) ->
  QL N (fst (skip_remaining N d tape)).
Proof.
  intros N d tape Hq Hroot. unfold skip_remaining.
  destruct (negb (perm_of tape (min_traps_b N (n_space (get d 0))))) eqn:Ep; [exact Hq|].
  pose proof (QL_swf N d Hq) as Hswf.
  assert (Hmin : forall m, In m tape -> min_trap N m).
  { intros m Hin. eapply (tape_min_traps N (n_space (get d 0)) tape); [|exact Ep|exact Hin].
    apply (swf_len N d Hswf). apply get_In. apply (swf_size N d Hswf). }
  assert (Hnil1 : traps_ok N d []) by (intros c m []).
  assert (Hnil2 : traps_exp d []) by (intros c m []).
  destruct (S_ensure_roots N (QL N) (QL_swf N) (QL_rootmark N) tape d [] Hq Hmin Hnil1 Hnil2)
    as (Hq1 & Hok1 & Hex1).
  pose proof (ensure_roots_complete N tape d []) as Hcomp.
  destruct (ensure_roots N d tape []) as [d1 traps]. simpl in Hq1, Hok1, Hex1, Hcomp.
  assert (Hall : forall M, min_trap N M -> exists c, In (c, M) traps).
  { intros M HM. apply Hcomp. left. apply negb_false_iff in Ep.
    eapply root_tape_all; eassumption. }
  assert (Hv : forall i, In i (seq 0 (size d1)) -> i < size d1).
  { intros i Hin. apply in_seq in Hin. lia. }
  pose proof (QL_skip_all N traps Hall (seq 0 (size d1)) d1 0 Hq1 Hok1 Hex1 Hv) as Hq2.
  destruct (skip_all d1 (seq 0 (size d1)) traps 0) as [d2 k]. exact Hq2.
Qed.

(* ---------- the minimal-space expansion, skip nodes included ---------- *)
Definition QM (N : net) (d : sd) : Prop :=
  SWF N d /\ TrapNodes N d /\ NoStubEdges d /\ EdgeStrict d /\ LeafOK N d.

Lemma QM_swf : forall N d, QM N d -> SWF N d.
Proof. intros N d H. apply H. Qed.

Lemma QM_expand : forall N cfg d i, 1 <= max_motifs cfg -> QM N d ->
  QM N (fst (expand_one N cfg d i)).
Proof.
  intros N cfg d i Hmm (Hswf & Htn & Hnse & Hes & Hl).
  split; [apply (expand_one_transfer N (SWF N) (prim_closed_SWF N)); exact Hswf|].
  split; [apply (expand_one_transfer_trap N (TrapNodes N) (prim_closed_trap_TrapNodes N));
          assumption|].
  split; [apply expand_one_NSE; assumption|].
  split; [apply expand_one_ES; assumption|].
  apply expand_one_LeafOK; assumption.
Qed.

Lemma QM_msn : forall N d s all_min, QM N d -> s < size d ->
  (forall m, In m all_min -> min_trap N m) ->
  (n_exp (get d s) = false -> ~ In (n_space (get d s)) all_min) ->
  (n_exp (get d s) = false ->
     exists m, In m all_min /\ subspace m (n_space (get d s)) = true) ->
  QM N (make_skip_node N d s all_min).
Proof.
  intros N d s all_min (Hswf & Htn & Hnse & Hes & Hl) Hs Hmin Hself Hex.
  destruct (make_skip_node_NSE N d s all_min Hswf Hnse Hs Hmin) as [A1 A2].
  split; [exact A1|]. split; [|split; [exact A2|split]].
  - apply (QI_msn N (TrapNodes N) (prim_closed_trap_TrapNodes N) d s all_min); [split; assumption|exact Hs|].
    intros m Hin. apply min_trap_trap. apply Hmin. exact Hin.
  - apply (make_skip_node_ES N d s all_min); assumption.
  - apply make_skip_node_LeafOK; assumption.
Qed.

Section MinLoopInv.
  Variable N : net.
  Variable cfg : config.
  Variable S : space.
  Variable all_min : list space.
  Hypothesis Hmm : 1 <= max_motifs cfg.
  (* the tape: exactly the minimal trap spaces inside the space S of the start node *)
  Hypothesis Hall : forall m, In m all_min <-> min_trap N m /\ subspace m S = true.

  (* every node on the DFS stack lies inside the start space *)
  Definition stack_sub (d : sd) (stack : list (nat * option (list nat))) : Prop :=
    forall x o, In (x, o) stack -> subspace (n_space (get d x)) S = true.

  Lemma stack_sub_extends : forall d d' stack, extends d d' -> stack_inv d stack ->
    stack_sub d stack -> stack_sub d' stack.
  Proof.
    intros d d' stack He Hst Hsub x o Hin. destruct (Hst x o Hin) as [Hx _].
    rewrite (extends_space d d' x He Hx). apply (Hsub x o Hin).
  Qed.

  Lemma edge_sub : forall d x s, EdgeStrict d -> has_edge d x s = true ->
    subspace (n_space (get d s)) (n_space (get d x)) = true.
  Proof.
    intros d x s Hes He. apply has_edge_true in He. destruct He as (e & Hin & Hs & Hd).
    destruct (Hes e Hin) as [Hsub _]. rewrite Hs, Hd in Hsub. exact Hsub.
  Qed.

  Lemma M_min_inner : forall remaining skip seen x succ d ns,
    QM N d -> x < size d -> ns = n_space (get d x) -> subspace ns S = true ->
    rem_inv all_min d remaining -> (forall s, In s succ -> has_edge d x s = true) ->
    QM N (fst (min_inner N d seen remaining all_min ns skip succ)).
  Proof.
    intros remaining skip seen x.
    induction succ as [|s r IH]; intros d ns Hq Hx Hns HnsS Hrem Hv; simpl; [exact Hq|].
    assert (Hr : forall s0, In s0 r -> has_edge d x s0 = true)
      by (intros s0 Hin; apply Hv; right; exact Hin).
    destruct (mem_nat s seen); [apply IH; assumption|].
    destruct (negb (existsb (fun m => subspace m ns) remaining)) eqn:Eex; [|exact Hq].
    destruct skip eqn:Esk; [|apply IH; assumption].
    pose proof (make_skip_node_extends N d s all_min) as He.
    assert (Hed : has_edge d x s = true) by (apply Hv; left; reflexivity).
    assert (Hnone : forall m, In m remaining -> subspace m (n_space (get d x)) = false).
    { intros m Hin. apply negb_true_iff in Eex.
      destruct (subspace m (n_space (get d x))) eqn:Es; [|reflexivity].
      assert (Hex : existsb (fun m0 => subspace m0 ns) remaining = true).
      { apply existsb_exists. exists m. split; [exact Hin|]. rewrite Hns. exact Es. }
      congruence. }
    destruct Hq as (Hswf & Htn & Hnse & Hes & Hl).
    destruct (has_edge_valid N d x s Hswf Hed) as [_ Hs].
    pose proof (edge_sub d x s Hes Hed) as Hsx.
    apply IH.
    - apply QM_msn; [exact (conj Hswf (conj Htn (conj Hnse (conj Hes Hl))))|exact Hs| | |].
      + intros m Hin. apply Hall. exact Hin.
      + intros Hex Hin. destruct (Hrem _ Hin) as [Hrm|(j & Hj & Hsp & Hje)].
        * rewrite (Hnone _ Hrm) in Hsx. discriminate Hsx.
        * apply (spaces_inj N d j s Hswf Hj Hs) in Hsp. subst j. congruence.
      + intros _. destruct (min_trap_exists N _ (TrapNodes_get N d s Htn Hs)) as (M & HM & Hsub).
        exists M. split; [|exact Hsub]. apply Hall. split; [exact HM|].
        eapply subspace_trans; [exact Hsub|]. eapply subspace_trans; [exact Hsx|].
        rewrite <- Hns. exact HnsS.
    - eapply extends_lt; [exact He|exact Hx].
    - rewrite (extends_space d _ x He Hx). exact Hns.
    - exact HnsS.
    - eapply rem_inv_extends; [exact He|exact Hrem].
    - intros s0 Hin. eapply has_edge_extends; [exact He|apply Hr; exact Hin].
  Qed.

  Lemma M_min_loop : forall sl skip fuel d seen remaining stack,
    QM N d -> stack_inv d stack -> stack_sub d stack -> rem_inv all_min d remaining ->
    QM N (fst (min_loop fuel N cfg sl skip all_min d seen remaining stack)).
  Proof.
    intros sl skip fuel.
    induction fuel as [|f IH]; intros d seen remaining stack Hq Hst Hsb Hrem; simpl; [exact Hq|].
    destruct stack as [|[x osucc] stack'].
    { destruct (Nat.eqb (length remaining) 0); exact Hq. }
    assert (Hst' : stack_inv d stack').
    { intros x0 o0 Hin. apply Hst. right. exact Hin. }
    assert (Hsb' : stack_sub d stack').
    { intros x0 o0 Hin. apply (Hsb x0 o0). right. exact Hin. }
    destruct (Hst x osucc (or_introl eq_refl)) as [Hx Hxl].
    pose proof (Hsb x osucc (or_introl eq_refl)) as HxS.
    assert (Htail : forall d1 succ, QM N d1 -> extends d d1 ->
              (forall s, In s succ -> has_edge d1 x s = true) ->
              QM N (fst (let '(d2, succ2) :=
                        min_inner N d1 seen remaining all_min (n_space (get d1 x)) skip succ in
                      match succ2 with
                      | [] =>
                          if is_minimal d2 x
                          then match remove_space (n_space (get d2 x)) remaining with
                               | Some rem' => min_loop f N cfg sl skip all_min d2 seen rem' stack'
                               | None => (d2, RRaised ErrAssert)
                               end
                          else min_loop f N cfg sl skip all_min d2 seen remaining stack'
                      | s :: rest =>
                          min_loop f N cfg sl skip all_min d2 (s :: seen) remaining
                                   ((s, None) :: (x, Some rest) :: stack')
                      end))).
    { intros d1 succ Hq1 He1 Hv1.
      assert (Hx1 : x < size d1) by (eapply extends_lt; eauto).
      assert (Hrem1 : rem_inv all_min d1 remaining) by (eapply rem_inv_extends; eauto).
      assert (HxS1 : subspace (n_space (get d1 x)) S = true).
      { rewrite (extends_space d d1 x He1 Hx). exact HxS. }
      pose proof (M_min_inner remaining skip seen x succ d1 (n_space (get d1 x))
                    Hq1 Hx1 eq_refl HxS1 Hrem1 Hv1) as Hq2.
      pose proof (min_inner_extends N all_min remaining (n_space (get d1 x)) skip seen succ d1)
        as He2.
      pose proof (min_inner_incl N all_min remaining (n_space (get d1 x)) skip seen succ d1)
        as Hi2.
      destruct (min_inner N d1 seen remaining all_min (n_space (get d1 x)) skip succ)
        as [d2 succ2].
      simpl in Hq2, He2, Hi2.
      assert (He02 : extends d d2) by (eapply extends_trans; eassumption).
      assert (Hst2 : stack_inv d2 stack') by (eapply stack_inv_extends; eassumption).
      assert (Hsb2 : stack_sub d2 stack') by (eapply stack_sub_extends; eassumption).
      assert (Hrem2 : rem_inv all_min d2 remaining) by (eapply rem_inv_extends; eassumption).
      assert (Hx2 : x < size d2) by (eapply extends_lt; eauto).
      assert (HxS2 : subspace (n_space (get d2 x)) S = true).
      { rewrite (extends_space d d2 x He02 Hx). exact HxS. }
      destruct succ2 as [|s rest].
      - destruct (is_minimal d2 x) eqn:Emin; [|apply IH; assumption].
        destruct (remove_space (n_space (get d2 x)) remaining) as [rem'|] eqn:Erem;
          [|exact Hq2].
        apply IH; [exact Hq2|exact Hst2|exact Hsb2|].
        intros m Hin. destruct (Hrem2 m Hin) as [Hm|Hw]; [|right; exact Hw].
        destruct (eqb_space m (n_space (get d2 x))) eqn:Eeq.
        + right. apply eqb_space_spec in Eeq. exists x. split; [exact Hx2|]. split; [auto|].
          apply is_minimal_iff in Emin. apply Emin.
        + left. eapply remove_space_keeps; [exact Erem|exact Hm|].
          intro Heq. subst m.
          rewrite (proj2 (eqb_space_spec _ _) eq_refl) in Eeq. discriminate Eeq.
      - assert (Hs2 : forall s0, In s0 (s :: rest) -> has_edge d2 x s0 = true).
        { intros s0 Hin. eapply has_edge_extends; [exact He2|]. apply Hv1. apply Hi2. exact Hin. }
        apply IH; [exact Hq2| | |exact Hrem2].
        + intros x0 o0 [Heq|[Heq|Hin]].
          * injection Heq as Hxx Hoo. subst x0 o0. split.
            -- apply (has_edge_valid N d2 x s (QM_swf N d2 Hq2)). apply Hs2. left. reflexivity.
            -- intros l s0 Hl. discriminate Hl.
          * injection Heq as Hxx Hoo. subst x0 o0. split; [exact Hx2|].
            intros l s0 Hl Hs0. injection Hl as Hl. subst l. apply Hs2. right. exact Hs0.
          * apply Hst2. exact Hin.
        + intros x0 o0 [Heq|[Heq|Hin]].
          * injection Heq as Hxx Hoo. subst x0 o0.
            eapply subspace_trans; [|exact HxS2].
            apply edge_sub; [apply Hq2|]. apply Hs2. left. reflexivity.
          * injection Heq as Hxx Hoo. subst x0 o0. exact HxS2.
          * apply (Hsb2 x0 o0). exact Hin. }
    destruct osucc as [l|]; simpl.
    - apply Htail; [exact Hq|apply extends_refl|].
      intros s Hs. eapply Hxl; [reflexivity|exact Hs].
    - destruct (over_limit sl d && negb (n_exp (get d x))); [simpl; exact Hq|].
      assert (Hq1 : QM N (fst (fst (node_successors N cfg d x)))).
      { rewrite node_successors_fst. apply QM_expand; assumption. }
      pose proof (node_successors_extends N cfg d x) as He1.
      pose proof (node_successors_succ N cfg d x) as Hs1.
      destruct (node_successors N cfg d x) as [[d1 r] succ]. simpl in Hq1, He1, Hs1.
      destruct r; simpl; try exact Hq1.
      apply Htail; [exact Hq1|exact He1|].
      intros s Hs. apply sort_nat_In in Hs. apply successors_has_edge. apply Hs1. exact Hs.
  Qed.
End MinLoopInv.

Lemma expand_min_QM : forall fuel N cfg d start sl skip tape, 1 <= max_motifs cfg ->
  QM N d -> valid_start d start = true ->
  QM N (fst (expand_min fuel N cfg d start sl skip tape)).
Proof.
  intros fuel N cfg d start sl skip tape Hmm Hq Hv. unfold expand_min.
  pose proof (QM_swf N d Hq) as Hswf.
  assert (Hs : match start with Some s => s | None => 0 end < size d).
  { destruct start as [s|]; simpl in Hv |- *; [apply Nat.ltb_lt; exact Hv|apply (swf_size N d Hswf)]. }
  set (s0 := match start with Some s => s | None => 0 end) in *.
  destruct (negb (perm_of tape (min_traps_b N (n_space (get d s0))))) eqn:Ep; [exact Hq|].
  apply negb_false_iff in Ep.
  assert (HS : length (n_space (get d s0)) = nvars N).
  { apply (swf_len N d Hswf). apply get_In. exact Hs. }
  apply (M_min_loop N cfg (n_space (get d s0)) tape Hmm).
  - intro m. rewrite <- (min_traps_b_spec N _ m HS). split; intro Hin.
    + eapply perm_of_In; eassumption.
    + eapply perm_of_In_rev; eassumption.
  - exact Hq.
  - intros x o [Heq|[]]. injection Heq as Hx Ho. subst x o. split; [exact Hs|].
    intros l s1 Hl. discriminate Hl.
  - intros x o [Heq|[]]. injection Heq as Hx Ho. subst x o. apply subspace_refl.
  - intros m Hin. left. exact Hin.
Qed.

(* all operations *)
Definition QS (N : net) (d : sd) : Prop :=
  QM N d /\ n_space (get d 0) = percolate_b N (top_space (nvars N)).

Lemma QM_upd_neutral : forall N d i f, flag_setter f -> (forall x, n_exp (f x) = n_exp x) ->
  QM N d -> QM N (upd_node d i f).
Proof.
  intros N d i f Hf Hex (Hswf & Htn & Hnse & Hes & Hl).
  split; [apply upd_flag_SWF; assumption|].
  split; [apply TrapNodes_spaces; rewrite spaces_upd_flag by exact Hf;
          apply TrapNodes_spaces; exact Htn|].
  split; [apply NoStubEdges_upd; assumption|].
  split; [apply EdgeStrict_upd; assumption|].
  apply LeafOK_upd_neutral; assumption.
Qed.

Lemma QM_reclaim : forall N d, QM N d -> QM N (reclaim d).
Proof.
  intros N d (Hswf & Htn & Hnse & Hes & Hl).
  split; [apply reclaim_SWF; exact Hswf|].
  split; [apply TrapNodes_spaces; rewrite spaces_reclaim; apply TrapNodes_spaces; exact Htn|].
  split.
  { intros e Hin. simpl in Hin. destruct (reclaim_extends d) as (_ & _ & K & _).
    apply K; [apply (swf_edges N d Hswf e Hin)|apply Hnse; exact Hin]. }
  split; [apply (EdgeStrict_same_shape d); [apply spaces_reclaim|reflexivity|exact Hes]|].
  apply LeafOK_reclaim. exact Hl.
Qed.

Lemma QM_skip_to_minimal : forall N d i tape, QM N d -> i < size d ->
  QM N (fst (skip_to_minimal_t N d i tape)).
Proof.
  intros N d i tape (Hswf & Htn & Hnse & Hes & Hl) Hi.
  destruct (skip_to_minimal_NSE N d i tape Hswf Hnse Hi) as [A1 A2].
  split; [exact A1|]. split; [|split; [exact A2|split]].
  - apply (TT_skip_to_minimal N (fun d0 => SWF N d0 /\ TrapNodes N d0)
             (QI_swf N (TrapNodes N))
             (QI_child N (TrapNodes N) (prim_closed_trap_TrapNodes N))
             (QI_upd N (TrapNodes N) (prim_closed_trap_TrapNodes N))); [split; assumption|exact Hi].
  - apply (skip_to_minimal_ES N d i tape); assumption.
  - apply skip_to_minimal_LeafOK; assumption.
Qed.

Lemma QM_skip_remaining : forall N d tape, QM N d ->
  n_space (get d 0) = percolate_b N (top_space (nvars N)) ->
  QM N (fst (skip_remaining N d tape)).
Proof.
  intros N d tape (Hswf & Htn & Hnse & Hes & Hl) Hroot.
  destruct (skip_remaining_QL N d tape) as (A1 & A2 & A3 & A4);
    [exact (conj Hswf (conj Htn (conj Hnse Hl)))|exact Hroot|].
  split; [exact A1|]. split; [exact A2|]. split; [exact A3|]. split; [|exact A4].
  apply (skip_remaining_ES N d tape); assumption.
Qed.

Lemma QS_step : forall fuel N cfg d o, 1 <= max_motifs cfg -> QS N d ->
  QS N (fst (step fuel N cfg d o)).
Proof.
  intros fuel N cfg d o Hmm [Hq Hroot].
  split; [|rewrite (root_stable fuel N cfg d o (QM_swf N d Hq)); exact Hroot].
  assert (Hgen : forall o0, op_ok N (QS N) o0 -> QM N (fst (step fuel N cfg d o0))).
  { intros o0 Hok.
    apply (B_step_op N cfg (QS N)); [| | | |exact Hok|split; assumption].
    - intros d0 [H0 _]. apply QM_swf. exact H0.
    - intros d0 i [H0 R0]. split; [apply QM_expand; assumption|].
      pose proof (QM_swf N d0 H0) as Hs0.
      rewrite (extends_space d0 _ 0 (expand_one_extends N cfg d0 i) (swf_size N d0 Hs0)). exact R0.
    - intros d0 i f [H0 R0] _ Hf. split.
      + apply QM_upd_neutral; [apply cache_setter_flag; exact Hf| |exact H0].
        intro x. apply cache_setter_exp. exact Hf.
      + rewrite n_space_upd_flag by (apply cache_setter_flag; exact Hf). exact R0.
    - intros d0 [H0 R0]. split; [apply QM_reclaim; exact H0|].
      rewrite get_reclaim. destruct (n_seeds (get d0 0)); exact R0. }
  destruct o; try (apply Hgen; exact I).
  - (* OMin *)
    unfold step. destruct (valid_start d start) eqn:Ev; [|exact Hq].
    apply expand_min_QM; assumption.
  - (* OSkipToMin *)
    apply Hgen. intros d0 [H0 R0] Hi. split; [apply QM_skip_to_minimal; assumption|].
    pose proof (QM_swf N d0 H0) as Hs0.
    pose proof (root_stable 0 N cfg d0 (OSkipToMin i tape) Hs0) as Hr. unfold step in Hr.
    rewrite (proj2 (Nat.ltb_lt _ _) Hi) in Hr. rewrite Hr. exact R0.
  - (* OSkipRemaining *)
    apply Hgen. intros d0 [H0 R0]. split; [apply QM_skip_remaining; assumption|].
    pose proof (QM_swf N d0 H0) as Hs0.
    pose proof (root_stable 0 N cfg d0 (OSkipRemaining tape) Hs0) as Hr. unfold step in Hr.
    rewrite Hr. exact R0.
Qed.

(* ================================================================== *)
(* 1'. soundness of leaves along steps                                 *)
(* ================================================================== *)

(* The statement without `EdgeStrict d` is false (see step_LeafOK_needs_EdgeStrict
   below): a skip node may only be trusted to receive a successor when its space lies
   inside the space of the start node, which is what EdgeStrict provides along the DFS.
   EdgeStrict is itself an invariant of every reachable diagram (init_EdgeStrict,
   step_EdgeStrict). *)
Theorem step_LeafOK_weak : forall fuel N cfg d o, 1 <= max_motifs cfg ->
  SWF N d -> TrapNodes N d -> NoStubEdges d -> EdgeStrict d -> Faithful N d ->
  n_space (get d 0) = percolate_b N (top_space (nvars N)) ->
  LeafOK N d -> LeafOK N (fst (step fuel N cfg d o)).
Proof.
  intros fuel N cfg d o Hmm Hswf Htn Hnse Hes _ Hroot Hl.
  assert (Hq : QS N d) by (split; [exact (conj Hswf (conj Htn (conj Hnse (conj Hes Hl))))|exact Hroot]).
  destruct (QS_step fuel N cfg d o Hmm Hq) as [(_ & _ & _ & _ & H) _]. exact H.
Qed.

Lemma init_LeafOK : forall N, LeafOK N (init N).
Proof.
  intros N i Hi Hmin. exfalso. apply is_minimal_iff in Hmin. destruct Hmin as [_ He].
  unfold init in Hi, He. rewrite ensure_node_unfold in Hi, He.
  unfold find_node, find_key in Hi, He. simpl in Hi, He.
  unfold size in Hi. simpl in Hi. assert (i = 0) by lia. subst i.
  unfold get in He. simpl in He. discriminate He.
Qed.

Theorem expand_min_exact : forall fuel N cfg d' skip tape, 1 <= max_motifs cfg ->
  expand_min fuel N cfg (init N) None None skip tape = (d', RBool true) ->
  LeafOK N d' /\ MinFound N d'.
Proof.
  intros fuel N cfg d' skip tape Hmm H. split.
  - assert (Hd' : d' = fst (step fuel N cfg (init N) (OMin None None skip tape))).
    { rewrite step_OMin_root, H. reflexivity. }
    rewrite Hd'. apply step_LeafOK_weak; try assumption.
    + apply init_SWF.
    + apply init_TrapNodes.
    + apply init_NoStubEdges.
    + apply init_EdgeStrict.
    + apply init_Faithful.
    + apply init_root.
    + apply init_LeafOK.
  - apply (expand_min_complete fuel N cfg (init N) d' skip tape); try assumption.
    + apply init_SWF.
    + apply init_TrapNodes.
    + apply init_NoStubEdges.
    + apply init_EdgeStrict.
    + apply init_Faithful.
    + apply init_root.
Qed.

(* ================================================================== *)
(* 3. completion by skipping                                           *)
(* ================================================================== *)

Lemma skip1_extends : forall d i traps,
  extends d (upd_node (mark_expanded (skip_edges (upd_node d i clear_attr) i traps) i) i
                      (fun y => set_skip y true)).
Proof.
  intros d i traps.
  apply extends_trans with (d2 := upd_node d i clear_attr);
    [apply upd_flag_extends; constructor|].
  eapply extends_trans; [apply skip_edges_extends|].
  eapply extends_trans; [apply mark_expanded_extends|].
  apply upd_flag_extends. constructor.
Qed.

Lemma skip1_size : forall d i traps,
  size (upd_node (mark_expanded (skip_edges (upd_node d i clear_attr) i traps) i) i
                 (fun y => set_skip y true)) = size d.
Proof.
  intros d i traps. rewrite size_upd_node, size_mark_expanded.
  rewrite <- !length_spaces, spaces_skip_edges, spaces_upd_flag by constructor. reflexivity.
Qed.

Lemma skip_all_extends : forall traps ids d count, extends d (fst (skip_all d ids traps count)).
Proof.
  intro traps. induction ids as [|i r IH]; intros d count; simpl; [apply extends_refl|].
  destruct (n_exp (get d i)); [apply IH|].
  eapply extends_trans; [apply skip1_extends|apply IH].
Qed.

Lemma skip_all_size : forall traps ids d count, size (fst (skip_all d ids traps count)) = size d.
Proof.
  intro traps. induction ids as [|i r IH]; intros d count; simpl; [reflexivity|].
  destruct (n_exp (get d i)); [apply IH|]. rewrite IH. apply skip1_size.
Qed.

Lemma skip_all_exp : forall traps ids d count i, i < size d ->
  (In i ids \/ n_exp (get d i) = true) ->
  n_exp (get (fst (skip_all d ids traps count)) i) = true.
Proof.
  intro traps. induction ids as [|i0 r IH]; intros d count i Hi H; simpl.
  - destruct H as [[]|H]. exact H.
  - destruct (n_exp (get d i0)) eqn:E0.
    + apply IH; [exact Hi|]. destruct H as [[Heq|Hin]|H]; [subst i0; right; exact E0|left; exact Hin|right; exact H].
    + pose proof (skip1_extends d i0 traps) as He. pose proof (skip1_size d i0 traps) as Hsz.
      apply IH; [rewrite Hsz; exact Hi|].
      destruct H as [[Heq|Hin]|H].
      * subst i0. right. rewrite get_upd_node_eq by (rewrite size_mark_expanded;
          rewrite <- !length_spaces, spaces_skip_edges, spaces_upd_flag by constructor;
          rewrite length_spaces; exact Hi).
        simpl. unfold mark_expanded. rewrite get_upd_node_eq; [reflexivity|].
        rewrite <- !length_spaces, spaces_skip_edges, spaces_upd_flag by constructor.
        rewrite length_spaces. exact Hi.
      * left. exact Hin.
      * right. destruct He as (_ & _ & H3 & _). apply H3; assumption.
Qed.

Lemma SWF_rootmark : forall N d m, SWF N d -> min_trap N m ->
  SWF N (mark_expanded (fst (ensure_node N d None m)) (snd (ensure_node N d None m))).
Proof.
  intros N d m Hswf Hmt. destruct (ensure_root_spec N d m Hswf (min_trap_length N m Hmt)) as (S1 & _).
  unfold mark_expanded. apply upd_flag_SWF; [constructor|exact S1].
Qed.

(* EdgeStrict d is needed: see skip_remaining_needs_EdgeStrict.  NoStubEdges d is
   kept from the original statement but not used. *)
Theorem skip_remaining_complete : forall N d d' tape k, SWF N d -> TrapNodes N d ->
  NoStubEdges d -> EdgeStrict d ->
  n_space (get d 0) = percolate_b N (top_space (nvars N)) ->
  skip_remaining N d tape = (d', RNat k) -> MinFound N d' /\ AllExpanded d'.
Proof.
  intros N d d' tape k Hswf Htn _ Hes Hroot H.
  assert (Hd' : d' = fst (skip_remaining N d tape)) by (rewrite H; reflexivity).
  assert (Hswf' : SWF N d').
  { rewrite Hd'. apply (step_SWF 0 N {| max_motifs := 1 |} d (OSkipRemaining tape)). exact Hswf. }
  assert (Htn' : TrapNodes N d').
  { rewrite Hd'. apply (step_TrapNodes 0 N {| max_motifs := 1 |} d (OSkipRemaining tape));
      assumption. }
  assert (Hes' : EdgeStrict d') by (rewrite Hd'; apply (skip_remaining_ES N d tape); assumption).
  unfold skip_remaining in H.
  destruct (negb (perm_of tape (min_traps_b N (n_space (get d 0))))) eqn:Ep; [discriminate H|].
  assert (Hmin : forall m, In m tape -> min_trap N m).
  { intros m Hin. eapply (tape_min_traps N (n_space (get d 0)) tape); [|exact Ep|exact Hin].
    apply (swf_len N d Hswf). apply get_In. apply (swf_size N d Hswf). }
  assert (Hnil1 : traps_ok N d []) by (intros c m []).
  assert (Hnil2 : traps_exp d []) by (intros c m []).
  destruct (S_ensure_roots N (SWF N) (fun d0 H0 => H0) (SWF_rootmark N) tape d [] Hswf Hmin
              Hnil1 Hnil2) as (Hq1 & Hok1 & Hex1).
  pose proof (ensure_roots_complete N tape d []) as Hcomp.
  destruct (ensure_roots N d tape []) as [d1 traps]. simpl in Hq1, Hok1, Hex1, Hcomp.
  pose proof (skip_all_extends traps (seq 0 (size d1)) d1 0) as He2.
  pose proof (skip_all_size traps (seq 0 (size d1)) d1 0) as Hsz2.
  pose proof (skip_all_exp traps (seq 0 (size d1)) d1 0) as Hex2.
  destruct (skip_all d1 (seq 0 (size d1)) traps 0) as [d2 k2]. simpl in He2, Hsz2, Hex2.
  injection H as Hd Hk. subst d2 k2.
  assert (Hall : AllExpanded d').
  { intros i Hi. rewrite Hsz2 in Hi. apply Hex2; [exact Hi|]. left. apply in_seq. lia. }
  split; [|exact Hall].
  apply MinFound_of_nodes; try assumption.
  intros M HM. apply negb_false_iff in Ep.
  destruct (Hcomp M) as [c Hc]; [left; exact (root_tape_all N d tape Hswf Hroot Ep M HM)|].
  destruct (Hok1 c M Hc) as (Hc1 & _ & Hpm).
  exists c. split; [eapply extends_lt; eassumption|]. split.
  - rewrite (extends_space d1 d' c He2 Hc1), <- Hpm. apply min_trap_percolate. exact HM.
  - apply Hall. eapply extends_lt; eassumption.
Qed.

(* soundness as well: after skip_remaining the leaves are exactly the minimal traps *)
Theorem skip_remaining_exact : forall N d d' tape k, SWF N d -> TrapNodes N d ->
  NoStubEdges d -> EdgeStrict d -> LeafOK N d ->
  n_space (get d 0) = percolate_b N (top_space (nvars N)) ->
  skip_remaining N d tape = (d', RNat k) -> LeafOK N d' /\ MinFound N d' /\ AllExpanded d'.
Proof.
  intros N d d' tape k Hswf Htn Hnse Hes Hl Hroot H. split.
  - assert (Hd' : d' = fst (skip_remaining N d tape)) by (rewrite H; reflexivity).
    rewrite Hd'. apply (skip_remaining_QL N d tape); [|exact Hroot].
    exact (conj Hswf (conj Htn (conj Hnse Hl))).
  - eapply skip_remaining_complete; eassumption.
Qed.

(* ================================================================== *)
(* 4'. along runs: every history, skip operations included             *)
(* ================================================================== *)

Lemma init_QS : forall N, QS N (init N).
Proof.
  intro N. split; [|apply init_root].
  split; [apply init_SWF|]. split; [apply init_TrapNodes|]. split; [apply init_NoStubEdges|].
  split; [apply init_EdgeStrict|apply init_LeafOK].
Qed.

Lemma run_QS_from : forall fuel N cfg h d0 d r, 1 <= max_motifs cfg ->
  QS N d0 -> In (d, r) (run fuel N cfg d0 h) -> QS N d.
Proof.
  intros fuel N cfg h. induction h as [|o h IH]; intros d0 d r Hmm H0 Hin; simpl in Hin;
    [contradiction|].
  pose proof (QS_step fuel N cfg d0 o Hmm H0) as H1.
  destruct (step fuel N cfg d0 o) as [d1 x]. simpl in H1.
  destruct Hin as [Heq|Hin].
  - injection Heq as Hd Hr. subst d. exact H1.
  - eapply IH; eauto.
Qed.

(* in every diagram reachable from init, by any history, the expanded nodes without
   successors are minimal trap spaces *)
Theorem run_LeafOK : forall fuel N cfg h d r, 1 <= max_motifs cfg ->
  In (d, r) (run fuel N cfg (init N) h) -> LeafOK N d.
Proof.
  intros fuel N cfg h d r Hmm Hin.
  destruct (run_QS_from fuel N cfg h (init N) d r Hmm (init_QS N) Hin) as [(_ & _ & _ & _ & H) _].
  exact H.
Qed.

(* ================================================================== *)
(* 5. why EdgeStrict is needed (diagrams that no run can produce)      *)
(* ================================================================== *)

Definition cx_mk (X : space) (e k : bool) : node :=
  {| n_space := X; n_depth := 0; n_exp := e; n_skip := k; n_parent := None;
     n_cands := None; n_seeds := None; n_sets := None |}.

(* three source variables; node 1 (x0 = 0) is a skip node with an edge to the unrelated
   stub 2 (x0 = 1).  expand_min from node 1 with skip = true descends into node 2,
   expands it, and turns its four successors into skip nodes; none of the minimal
   traps of the tape (all inside x0 = 0) lies inside them, so they end up expanded
   without successors although they are not minimal trap spaces. *)
Definition cxA_net : net :=
  [fun s => nth 0 s false; fun s => nth 1 s false; fun s => nth 2 s false].
Definition cxA_sd : sd :=
  {| sd_nodes := [cx_mk [None; None; None] false false;
                  cx_mk [Some false; None; None] true true;
                  cx_mk [Some true; None; None] false false];
     sd_edges := [{| e_src := 1; e_dst := 2; e_motifs := [[Some true; None; None]] |}] |}.
Definition cxA_cfg : config := {| max_motifs := 5 |}.
Definition cxA_op : op := OMin (Some 1) None true (min_traps_b cxA_net [Some false; None; None]).

Lemma step_LeafOK_needs_EdgeStrict :
  1 <= max_motifs cxA_cfg /\ SWF cxA_net cxA_sd /\ TrapNodes cxA_net cxA_sd /\
  NoStubEdges cxA_sd /\ Faithful cxA_net cxA_sd /\
  n_space (get cxA_sd 0) = percolate_b cxA_net (top_space (nvars cxA_net)) /\
  LeafOK cxA_net cxA_sd /\
  ~ EdgeStrict cxA_sd /\
  ~ LeafOK cxA_net (fst (step 20 cxA_net cxA_cfg cxA_sd cxA_op)).
Proof.
  split; [vm_compute; lia|].
  split.
  { constructor.
    - unfold size. simpl. lia.
    - intros x [H|[H|[H|[]]]]; subst x; reflexivity.
    - unfold spaces. simpl. repeat constructor; simpl; intuition discriminate.
    - intros e [H|[]]. subst e. unfold size. simpl. repeat split; try lia. discriminate.
    - simpl. repeat constructor. intros [].
    - intros x [H|[H|[H|[]]]]; subst x; vm_compute; reflexivity.
    - intros e m [H|[]] Hm. subst e. simpl in Hm. destruct Hm as [Hm|[]]. subst m.
      split; vm_compute; reflexivity. }
  split.
  { intros x [H|[H|[H|[]]]]; subst x; apply is_trap_b_spec; vm_compute; reflexivity. }
  split.
  { intros e [H|[]]. subst e. reflexivity. }
  split.
  { intros i Hi. unfold size in Hi. simpl in Hi.
    destruct i as [|[|[|i]]]; try lia; intros H1 H2; vm_compute in H1, H2; discriminate. }
  split; [vm_compute; reflexivity|].
  split.
  { intros i Hi. unfold size in Hi. simpl in Hi.
    destruct i as [|[|[|i]]]; try lia; intro H; vm_compute in H; discriminate H. }
  split.
  { intro H. destruct (H _ (or_introl eq_refl)) as [Hsub _]. vm_compute in Hsub.
    discriminate Hsub. }
  intro H. assert (Hm : min_trap cxA_net [Some true; Some false; None]).
  { apply (H 3); vm_compute; [lia|reflexivity]. }
  assert (Hin : In [Some true; Some false; None]
                   (min_traps_b cxA_net [Some true; Some false; None])).
  { apply min_traps_b_spec; [reflexivity|]. split; [exact Hm|reflexivity]. }
  apply mem_space_spec in Hin. vm_compute in Hin. discriminate Hin.
Qed.

(* one source variable; node 1 (x0 = 0) is marked expanded and carries an edge to the
   unrelated node 2 (x0 = 1).  skip_remaining completes the diagram but node 1 keeps
   its successor, so the minimal trap space x0 = 0 is not a leaf. *)
Definition cxB_net : net := [fun s => nth 0 s false].
Definition cxB_sd : sd :=
  {| sd_nodes := [cx_mk [None] false false; cx_mk [Some false] true true;
                  cx_mk [Some true] false false];
     sd_edges := [{| e_src := 1; e_dst := 2; e_motifs := [[Some true]] |}] |}.
Definition cxB_tape : list space := [[Some false]; [Some true]].

Lemma skip_remaining_needs_EdgeStrict :
  SWF cxB_net cxB_sd /\ TrapNodes cxB_net cxB_sd /\ NoStubEdges cxB_sd /\
  Faithful cxB_net cxB_sd /\ LeafOK cxB_net cxB_sd /\
  n_space (get cxB_sd 0) = percolate_b cxB_net (top_space (nvars cxB_net)) /\
  ~ EdgeStrict cxB_sd /\
  snd (skip_remaining cxB_net cxB_sd cxB_tape) = RNat 1 /\
  ~ MinFound cxB_net (fst (skip_remaining cxB_net cxB_sd cxB_tape)).
Proof.
  split.
  { constructor.
    - unfold size. simpl. lia.
    - intros x [H|[H|[H|[]]]]; subst x; reflexivity.
    - unfold spaces. simpl. repeat constructor; simpl; intuition discriminate.
    - intros e [H|[]]. subst e. unfold size. simpl. repeat split; try lia. discriminate.
    - simpl. repeat constructor. intros [].
    - intros x [H|[H|[H|[]]]]; subst x; vm_compute; reflexivity.
    - intros e m [H|[]] Hm. subst e. simpl in Hm. destruct Hm as [Hm|[]]. subst m.
      split; vm_compute; reflexivity. }
  split.
  { intros x [H|[H|[H|[]]]]; subst x; apply is_trap_b_spec; vm_compute; reflexivity. }
  split.
  { intros e [H|[]]. subst e. reflexivity. }
  split.
  { intros i Hi. unfold size in Hi. simpl in Hi.
    destruct i as [|[|[|i]]]; try lia; intros H1 H2; vm_compute in H1, H2; discriminate. }
  split.
  { intros i Hi. unfold size in Hi. simpl in Hi.
    destruct i as [|[|[|i]]]; try lia; intro H; vm_compute in H; discriminate H. }
  split; [vm_compute; reflexivity|].
  split.
  { intro H. destruct (H _ (or_introl eq_refl)) as [Hsub _]. vm_compute in Hsub.
    discriminate Hsub. }
  split; [vm_compute; reflexivity|].
  intro H. assert (Hm : min_trap cxB_net [Some false]).
  { apply (min_traps_b_spec cxB_net [None] [Some false] eq_refl).
    apply mem_space_spec. vm_compute. reflexivity. }
  destruct (H _ Hm) as (i & Hi & Hmin & Hsp). vm_compute in Hi.
  destruct i as [|[|[|i]]]; try lia; vm_compute in Hmin, Hsp; discriminate.
Qed.

Print Assumptions expand_min_exact.
Print Assumptions expand_min_complete.
Print Assumptions skip_remaining_complete.
Print Assumptions skip_remaining_exact.
Print Assumptions step_LeafOK_weak.
Print Assumptions run_LeafOK.
Print Assumptions minimal_nodes_unique.
Print Assumptions step_LeafOK_needs_EdgeStrict.
Print Assumptions skip_remaining_needs_EdgeStrict.
