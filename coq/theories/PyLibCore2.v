(* PyLibCore2.v -- additions to the embedding PyLibCore.v for the second group of translated methods
   (skip_to_minimal, skip_remaining, depth, reclaim_node_data).  Definitions only; trusted like PyLibCore.v.

     self.node_percolated_petri_net(i, compute=True) / self.node_percolated_network(i, compute=True)
                                      an opaque object that stands for "the percolated net of node i" (the caching
                                      side effect is not modelled)
     trappist(network=<that object>, problem="min")
                                      trappist_min N (space of node i) tape = tape: the answer of the solver is recorded
                                      (the tape of Diagram.skip_to_minimal_t / skip_remaining); the theorems assume the
                                      tape contract  perm_of tape (min_traps_b N space) = true, which the correspondence
                                      run checks on every call
     self.node_ids(), self.dag.nodes()    seq 0 (number of nodes)  (the latter is only folded with max)
     l[0]                             hd_error l ;   a == b on spaces   eqb_space a b ;   max(a, b)   Nat.max a b
     data["percolated_network" | "percolated_petri_net" | "percolated_nfvs"] = None      no-ops (not modelled) *)
From Coq Require Import List Bool Arith NArith.
Import ListNotations.
From BB Require Import BN Brute Diagram PyLib PyLibCore.

Definition trappist_min (N : net) (X : space) (tape : list space) : list space := tape.

Definition c_finish_bool {S : Type} (f : cflow bool S) : sd * result :=
  match f with
  | CRet w b => (p_sd w, RBool b)
  | CNext w _ => (p_sd w, RUnit)
  | CRaise w e => (p_sd w, e)
  | CBad w => (p_sd w, RRaised ErrAssert)
  | CFuel w => (p_sd w, RFuel)
  end.
Definition c_finish_nat {S : Type} (f : cflow nat S) : sd * result :=
  match f with
  | CRet w k => (p_sd w, RNat k)
  | CNext w _ => (p_sd w, RUnit)
  | CRaise w e => (p_sd w, e)
  | CBad w => (p_sd w, RRaised ErrAssert)
  | CFuel w => (p_sd w, RFuel)
  end.
