(* SymbolicTest.v -- model of symbolic_attractor_test (attractor_symbolic.py, with the progress
   fix 2159c02) on explicit state sets.  The BDD-size heuristic "avoid is symbolically larger"
   and the order in which unsaturated variables are tried are tapes (any booleans / any order).
   Result: None = a state of avoid is reachable from the pivot; Some R = the states reachable
   from the pivot.  Definitions only. *)
From Coq Require Import List Bool Arith.
Import ListNotations.
From BB Require Import BN Brute.

(* one-variable image / pre-image leaving the set (AEON var_post_out / var_pre_out) *)
Definition dedup (l : list state) : list state :=
  fold_right (fun s acc => if mem_state s acc then acc else s :: acc) [] l.
Definition var_post_out (N : net) (v : nat) (X : list state) : list state :=
  dedup (filter (fun t => negb (mem_state t X))
                (flat_map (fun s => let t := step_i N v s in if eqb_state t s then [] else [t]) X)).
Definition var_pre_out (N : net) (universe : list state) (v : nat) (X : list state) : list state :=
  filter (fun s => negb (mem_state s X) &&
                   (let t := step_i N v s in negb (eqb_state t s) && mem_state t X)) universe.

Definition meets (a b : list state) : bool := existsb (fun s => mem_state s b) a.

Record stest := {
  t_reach : list state;
  t_avoid : option (list state);
  t_sat : list nat;            (* saturated variables *)
  t_rest : list nat;           (* conflict_vars ++ other_vars: not yet saturated *)
  t_bools : list bool          (* tape: outcome of the "avoid is larger" comparison, one per attempt *)
}.

Inductive tres := TNone | TSome (r : list state) | TFuel.

(* forward saturation: returns (state, progress, something_pending, hit_avoid) *)
Fixpoint fwd_try (N : net) (force : bool) (vars : list nat) (st : stest) : stest * bool * bool :=
  (* one pass over the saturated variables; stops at the first accepted growth.
     returns (state, grew, pending) where pending = some variable had successors *)
  match vars with
  | [] => (st, false, false)
  | v :: r =>
      let succ := var_post_out N v (t_reach st) in
      match succ with
      | [] => fwd_try N force r st
      | _ =>
          let no_avoid := match t_avoid st with None => true | Some _ => false end in
          let larger := hd false (t_bools st) in
          let st1 := {| t_reach := t_reach st; t_avoid := t_avoid st; t_sat := t_sat st; t_rest := t_rest st;
                        t_bools := if no_avoid then t_bools st else tl (t_bools st) |} in
          let all_vars_done := match t_rest st with [] => true | _ => false end in
          if no_avoid || larger || all_vars_done || force
          then ({| t_reach := t_reach st ++ succ; t_avoid := t_avoid st1; t_sat := t_sat st1; t_rest := t_rest st1;
                   t_bools := t_bools st1 |}, true, true)
          else let '(st2, g, p) := fwd_try N force r st1 in (st2, g, true)
      end
  end.

Fixpoint fwd_sat (fuel : nat) (N : net) (force : bool) (st : stest) (progress pending : bool)
  : option (stest * bool * bool) :=      (* None = avoid state discovered *)
  match fuel with
  | O => Some (st, progress, pending)
  | S f =>
      if match t_avoid st with Some a => meets a (t_reach st) | None => false end then None else
      let '(st1, grew, p) := fwd_try N force (t_sat st) st in
      if grew then fwd_sat f N force st1 true true else Some (st1, progress, pending || p)
  end.

Fixpoint bwd_try (N : net) (universe : list state) (vars : list nat) (a : list state) : option (list state) :=
  match vars with
  | [] => None
  | v :: r => match var_pre_out N universe v a with
              | [] => bwd_try N universe r a
              | pre => Some (a ++ pre)
              end
  end.

Fixpoint bwd_sat (fuel : nat) (N : net) (universe : list state) (st : stest) (progress : bool)
  : option (stest * bool) :=
  match fuel with
  | O => Some (st, progress)
  | S f =>
      match t_avoid st with
      | None => Some (st, progress)
      | Some a =>
          if meets a (t_reach st) then None else
          match bwd_try N universe (t_sat st) a with
          | None => Some (st, progress)
          | Some a' => bwd_sat f N universe {| t_reach := t_reach st; t_avoid := Some a'; t_sat := t_sat st;
                                                t_rest := t_rest st; t_bools := t_bools st |} true
          end
      end
  end.

(* try to add one more variable to the saturated set, in the order given *)
Fixpoint add_var (N : net) (universe : list state) (order : list nat) (st : stest) : option stest :=
  match order with
  | [] => None
  | v :: r =>
      let fwd := var_post_out N v (t_reach st) in
      let bwd := match t_avoid st with Some a => var_pre_out N universe v a | None => [] end in
      match fwd, bwd with
      | [], [] => add_var N universe r st
      | _, _ => Some {| t_reach := t_reach st ++ fwd;
                        t_avoid := match t_avoid st with Some a => Some (a ++ bwd) | None => None end;
                        t_sat := v :: t_sat st;
                        t_rest := filter (fun w => negb (Nat.eqb w v)) (t_rest st);
                        t_bools := t_bools st |}
      end
  end.

(* main cycle; `orders` is the tape of iteration orders for the unsaturated variables
   (each must be a permutation of t_rest at that time; the model uses t_rest itself if it is not) *)
Definition perm_nat (a b : list nat) : bool :=
  Nat.eqb (length a) (length b) && forallb (fun x => existsb (Nat.eqb x) b) a && forallb (fun x => existsb (Nat.eqb x) a) b.

Fixpoint main_loop (fuel : nat) (N : net) (universe : list state) (st : stest) (force : bool)
         (orders : list (list nat)) : tres :=
  match fuel with
  | O => TFuel
  | S f =>
      match fwd_sat (S (length universe)) N force st false false with
      | None => TNone
      | Some (st1, prog1, pend1) =>
          match bwd_sat (S (length universe)) N universe st1 false with
          | None => TNone
          | Some (st2, prog2) =>
              let order := match orders with o :: _ => if perm_nat o (t_rest st2) then o else t_rest st2 | [] => t_rest st2 end in
              match add_var N universe order st2 with
              | Some st3 => main_loop f N universe st3 false (tl orders)
              | None =>
                  if pend1 || prog2
                  then main_loop f N universe st2 (negb (prog1 || prog2)) (tl orders)
                  else TSome (t_reach st2)
              end
          end
      end
  end.

(* symbolic_attractor_test on a node with space S: the variables are the free variables of S,
   the universe the states of S; avoid is given explicitly *)
Definition free_vars (S : space) : list nat :=
  filter (fun v => match nth v S None with None => true | Some _ => false end) (seq 0 (length S)).
Definition symbolic_test (fuel : nat) (N : net) (S : space) (pivot : state) (avoid : list state)
           (bools : list bool) (orders : list (list nat)) : tres :=
  main_loop fuel N (states_of S)
    {| t_reach := [pivot]; t_avoid := match avoid with [] => None | _ => Some avoid end;
       t_sat := []; t_rest := rev (free_vars S); t_bools := bools |} false orders.

Definition symbolic_test_fuel (S : space) : nat :=
  2 * (2 * length (states_of S) + length S) + 3.
