(* PySrcEndToEndControl.v -- C06 with the target-directed expansion AS WRITTEN IN THE SOURCE: after any history, the generated public
   method expand_to_target (reporting completion) followed by the model's succession control reports only sound interventions. *)
From Coq Require Import List Bool Arith Lia.
Import ListNotations.
From BB Require Import BN Brute SpaceFacts TrapFacts PercolateFacts Diagram Invariants DiagramStruct Control ControlFacts ControlFacts2
  ControlFacts3 ControlFacts4 ControlFacts5 SkipSem ControlFacts6 PyLib PyLibSd PySrcSdBase PySrcSdTarget PySrcSdTargetFacts.

Theorem py_control_after_any_history_sound : forall fuel N cfg h d r target d' all_strategy maxd forbidden b succ ctl,
  1 <= max_motifs cfg -> length target = nvars N ->
  In (d, r) (run fuel N cfg (init N) h) ->
  py_api_expand_to_target fuel N cfg d target None = (d', RBool true) ->
  In (succ, ctl, true) (succession_control_ff N d' target all_strategy maxd forbidden b) ->
  let spaces := chain N succ (top_space (nvars N)) in
  length ctl = length succ /\
  (forall i, i < length succ ->
     forall drv, In drv (nth i ctl []) ->
       subspace (percolate_b N (merge drv (nth i spaces []))) (nth i succ []) = true /\
       forced (override N drv) (nth i spaces []) (nth i succ [])) /\
  intersect (last spaces []) target <> None /\
  (forall M, min_trap N M -> subspace M (last spaces []) = true -> subspace M target = true).
Proof.
  intros fuel N cfg h d r target d' all_strategy maxd forbidden b succ ctl Hcfg Hlen Hrun Hexp Hin.
  rewrite py_api_expand_to_target_spec in Hexp.
  exact (control_after_any_history_sound fuel N cfg h d r target d' all_strategy maxd forbidden b succ ctl Hcfg Hlen Hrun Hexp Hin).
Qed.

Print Assumptions py_control_after_any_history_sound.
