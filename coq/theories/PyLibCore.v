(* PyLibCore.v -- hand-written semantic prelude for the translation (tools/py2coq_core.py) of the CORE METHODS of
   biobalm.SuccessionDiagram (_update_node_depth, _ensure_edge, _ensure_node, _expand_one_node, node_successors,
   node_is_minimal, __len__, root).  Definitions only; part of the trusted base of the translator tie.

   Embedding
     self.dag (networkx.DiGraph with node / edge attribute dicts)   p_sd : Diagram.sd  (nodes in id order, edges in
                                                                     insertion order -- networkx keeps both)
     self.node_indices (dict key -> id)                              p_idx : association list
     self.dag.nodes[i]["depth" | "expanded" | "space" | ...]         the record fields of the i-th node; an assignment is
                                                                     upd_node with the field setter
     node = self.dag.nodes[i]  /  node = self.node_data(i)           an ALIAS of node i (Python dict aliasing): reads and
                                                                     writes through `node` go to node i of the current state
     node["percolated_petri_net"]                                    not modelled: whether a percolated net is cached is an
                                                                     arbitrary oracle  pnc : nat -> bool ; assignments to the
                                                                     field are no-ops
     self.dag.add_node(i, space=.., depth=0, expanded=False, <caches>=None, parent_node=p, skipped=None)
                                                                     dag_add_node (only for i = number of nodes, else CBad)
     self.dag.add_edge(p, c, motif=m, all_motifs=[m])                dag_add_edge ;  .edges[p, c]["all_motifs"].append(m)
                                                                     dag_append_motif (KeyError without the edge)
     self.dag.successors(i) / out_degree(i) / has_edge / number_of_nodes
                                                                     successors_of / length / has_edge / size
     percolate_space(self.symbolic, X)                               Brute.percolate_b N X          (engine contract)
     space_unique_key(X, self.network)                               BN.space_key X                 (tied by PySrcKey.v)
     extract_source_variables(self.petri_net)                        Brute.sources_b N              (engine contract)
     trappist(self.petri_net, problem="max", ensure_subspace=X, optimize_source_variables=S, solution_limit=L)
                                                                     trappist_max N X S L : the first min(max(L,1), total)
                                                                     maximal trap spaces in key order (engine contract)
     trappist(pn, problem="max", optimize_source_variables=S, solution_limit=L)  on the cached percolated net of a node
                                                                     the same list (engine contract: the percolated net
                                                                     of a node has the trap spaces of the node's space)
     s | current_space  (dict union)                                 space_union s current_space (right operand wins)
     sorted(l, key=lambda space: space_unique_key(space, self.network))   Diagram.sort_by_key l
     self.config["max_motifs_per_node"]                              max_motifs cfg ;  `if self.config["debug"]: print(..)` is dropped
     RuntimeError / KeyError / AssertionError                        RRaised ErrMotifLimit / ErrKey / ErrAssert
     a method call self.m(..)                                        the translated function py_m, same state threading;
                                                                     recursion (_update_node_depth) is by explicit fuel *)
From Coq Require Import List Bool Arith NArith.
Import ListNotations.
From BB Require Import BN Brute Diagram PyLib.

Record pyst := { p_sd : sd; p_idx : list (N * nat) }.

Inductive cflow (R S : Type) : Type :=
| CRet (w : pyst) (r : R)
| CRaise (w : pyst) (e : result)
| CBad (w : pyst)
| CFuel (w : pyst)
| CNext (w : pyst) (s : S).
Arguments CRet {R S} w r.
Arguments CRaise {R S} w e.
Arguments CBad {R S} w.
Arguments CFuel {R S} w.
Arguments CNext {R S} w s.

Fixpoint c_for {K R S : Type} (items : list K) (body : K -> pyst -> S -> cflow R S) (w : pyst) (s : S) : cflow R S :=
  match items with
  | [] => CNext w s
  | x :: r => match body x w s with
              | CNext w' s' => c_for r body w' s'
              | other => other
              end
  end.

(* a call of a translated method: Some r = it returned r, None = it returned None (fell through or bare return) *)
Definition c_call {R' R S : Type} (f : cflow R' unit) (k : pyst -> option R' -> cflow R S) : cflow R S :=
  match f with
  | CRet w r => k w (Some r)
  | CNext w _ => k w None
  | CRaise w e => CRaise w e
  | CBad w => CBad w
  | CFuel w => CFuel w
  end.

(* self.node_indices *)
Fixpoint idx_get (l : list (N * nat)) (k : N) : option nat :=
  match l with
  | [] => None
  | (k', v) :: r => if N.eqb k' k then Some v else idx_get r k
  end.
Definition idx_mem (k : N) (l : list (N * nat)) : bool :=
  match idx_get l k with Some _ => true | None => false end.
Fixpoint idx_set (l : list (N * nat)) (k : N) (v : nat) : list (N * nat) :=
  match l with
  | [] => [(k, v)]
  | (k', v') :: r => if N.eqb k' k then (k, v) :: r else (k', v') :: idx_set r k v
  end.
Definition w_idx_set (w : pyst) (k : N) (v : nat) : pyst := {| p_sd := p_sd w; p_idx := idx_set (p_idx w) k v |}.

(* self.dag *)
Definition w_upd (w : pyst) (i : nat) (f : node -> node) : pyst :=
  {| p_sd := upd_node (p_sd w) i f; p_idx := p_idx w |}.

Definition dag_add_node (w : pyst) (i : nat) (sp : space) (parent : option nat) : option pyst :=
  if Nat.eqb i (size (p_sd w)) then
    Some {| p_sd := {| sd_nodes := sd_nodes (p_sd w) ++
                         [{| n_space := sp; n_depth := 0; n_exp := false; n_skip := false; n_parent := parent;
                             n_cands := None; n_seeds := None; n_sets := None |}];
                       sd_edges := sd_edges (p_sd w) |};
            p_idx := p_idx w |}
  else None.

Definition dag_add_edge (w : pyst) (p c : nat) (m : space) : pyst :=
  {| p_sd := {| sd_nodes := sd_nodes (p_sd w);
                sd_edges := sd_edges (p_sd w) ++ [{| e_src := p; e_dst := c; e_motifs := [m] |}] |};
     p_idx := p_idx w |}.

Definition dag_append_motif (w : pyst) (p c : nat) (m : space) : option pyst :=
  if has_edge (p_sd w) p c then
    Some {| p_sd := {| sd_nodes := sd_nodes (p_sd w); sd_edges := add_motif p c m (sd_edges (p_sd w)) |};
            p_idx := p_idx w |}
  else None.

(* self.dag.edges[p, c] : KeyError without the edge *)
Definition dag_edge (w : pyst) (p c : nat) : option unit :=
  if has_edge (p_sd w) p c then Some Datatypes.tt else None.

(* len(space) = number of fixed variables;  a | b on dicts *)
Definition count_fixed (X : space) : nat :=
  length (filter (fun o => match o with Some _ => true | None => false end) X).
Fixpoint space_union (a b : space) : space :=
  match a, b with
  | x :: a', y :: b' => (match y with Some _ => y | None => x end) :: space_union a' b'
  | [], _ => b
  | _, [] => a
  end.

(* the trap-space solver as the model sees it (Diagram.expand_one) *)
Definition trappist_max (N : net) (X : space) (srcs : list nat) (limit : nat) : list space :=
  let all := sort_by_key (max_traps_b N X srcs) in
  firstn (solver_len (length all) limit) all.

(* the value of a method as a result of the model *)
Definition c_finish_unit {S : Type} (f : cflow unit S) : sd * result :=
  match f with
  | CRet w _ => (p_sd w, RUnit)
  | CNext w _ => (p_sd w, RUnit)
  | CRaise w e => (p_sd w, e)
  | CBad w => (p_sd w, RRaised ErrAssert)
  | CFuel w => (p_sd w, RFuel)
  end.
