(* ReductionFacts.v -- the reduction hypothesis of the candidate pipeline, proved.

   If a set U of variables hits every negative cycle of the signed interaction graph of N inside a
   trap space S (Signed.no_neg_walk), then for every assignment b of the variables of U every
   attractor of N inside S contains a fixed point of the reduced transition graph (the graph in
   which a variable u of U may only move towards b_u).

   Structure of the development
     PART A  list facts (filter counting, bounded choice, argmin)
     PART B  the executable edge tests decide the semantic edges; an update function depends on a
             free coordinate only along an edge
     PART C  signed walks are decidable (double cover closure); no_neg_walk_b_spec
     PART D  moves of a set of variables; an isotone block reaches a state in which it is stable
     PART E  cascades of isotone source blocks: all free variables outside U become stable
     PART F  the reduced dynamics; every state of S reaches a reduced fixed point in it
     PART G  graph theory: no negative closed walk => a cascade exists
     PART H  the reduction hypothesis *)
From Coq Require Import List Bool Arith Lia Relations.
Import ListNotations.
From BB Require Import BN Brute Signed Candidates SpaceFacts TrapFacts AttractorFacts FilterFacts
  PetriNetFacts CandidatesFacts.

(* ================================================================== *)
(* PART A -- list facts                                                *)
(* ================================================================== *)

Lemma R_filter_length_le : forall (A : Type) (p q : A -> bool) (l : list A),
  (forall x, In x l -> p x = true -> q x = true) -> length (filter p l) <= length (filter q l).
Proof.
  intros A p q l. induction l as [|a l IH]; intros Hpq; simpl; [lia|].
  assert (IH' : length (filter p l) <= length (filter q l)).
  { apply IH. intros x Hx. apply Hpq. right. exact Hx. }
  destruct (p a) eqn:Hp.
  - rewrite (Hpq a (or_introl eq_refl) Hp). simpl. lia.
  - destruct (q a); simpl; lia.
Qed.

Lemma R_filter_length_lt : forall (A : Type) (p q : A -> bool) (l : list A) (a : A),
  (forall x, In x l -> p x = true -> q x = true) -> In a l -> q a = true -> p a = false ->
  length (filter p l) < length (filter q l).
Proof.
  intros A p q l a. induction l as [|c l IH]; intros Hpq Hin Hq Hp; [destruct Hin|].
  assert (Hle : length (filter p l) <= length (filter q l)).
  { apply R_filter_length_le. intros x Hx. apply Hpq. right. exact Hx. }
  simpl. destruct Hin as [Heq | Hin].
  - subst c. rewrite Hp, Hq. simpl. lia.
  - assert (IH' : length (filter p l) < length (filter q l)).
    { apply IH; try assumption. intros x Hx. apply Hpq. right. exact Hx. }
    destruct (p c) eqn:Hpc.
    + rewrite (Hpq c (or_introl eq_refl) Hpc). simpl. lia.
    + destruct (q c); simpl; lia.
Qed.

(* bounded choice over a list for a boolean property *)
Lemma R_list_choice : forall (A : Type) (e : A -> bool) (l : list A),
  (forall x, In x l -> e x = false) \/ (exists x, In x l /\ e x = true).
Proof.
  intros A e l. destruct (existsb e l) eqn:E.
  - right. apply existsb_exists. exact E.
  - left. intros x Hx. destruct (e x) eqn:Ex; [|reflexivity].
    assert (Ht : existsb e l = true) by (apply existsb_exists; exists x; split; assumption).
    rewrite E in Ht. discriminate.
Qed.

Lemma R_argmin : forall (A : Type) (f : A -> nat) (l : list A), l <> [] ->
  exists a, In a l /\ forall x, In x l -> f a <= f x.
Proof.
  intros A f l. induction l as [|c l IH]; intros Hne; [exfalso; apply Hne; reflexivity|].
  destruct l as [|d l].
  - exists c. split; [left; reflexivity|]. intros x [Hx|[]]. subst x. lia.
  - destruct IH as [a [Ha Hmin]]; [discriminate|].
    destruct (le_lt_dec (f c) (f a)) as [Hle|Hlt].
    + exists c. split; [left; reflexivity|]. intros x [Hx|Hx]; [subst x; lia|].
      specialize (Hmin x Hx). lia.
    + exists a. split; [right; exact Ha|]. intros x [Hx|Hx]; [subst x; lia|].
      apply Hmin. exact Hx.
Qed.

Lemma R_bool_neq : forall a b : bool, a <> b -> a = negb b.
Proof. intros [|] [|] Hab; try reflexivity; exfalso; apply Hab; reflexivity. Qed.

Lemma R_is_free_iff : forall (Sp : space) v, is_free Sp v = true <-> nth v Sp None = None.
Proof.
  intros Sp v. unfold is_free. destruct (nth v Sp None) as [w|]; split; intros Hx; try reflexivity; discriminate.
Qed.

(* ================================================================== *)
(* PART B -- edges                                                     *)
(* ================================================================== *)

Lemma pos_edge_b_spec : forall N Sp j k, length Sp = nvars N ->
  (pos_edge_b N Sp j k = true <-> pos_edge N Sp j k).
Proof.
  intros N Sp j k HS. unfold pos_edge_b, pos_edge. rewrite existsb_exists. split.
  - intros [x [Hin Hx]]. apply states_of_spec in Hin.
    apply andb_true_iff in Hx. destruct Hx as [Hx H3].
    apply andb_true_iff in Hx. destruct Hx as [H1 H2].
    apply negb_true_iff in H1. apply negb_true_iff in H2.
    exists x. repeat split; try assumption.
    rewrite (in_space_length _ _ Hin). exact HS.
  - intros [x [Hl [Hin [H1 [H2 H3]]]]]. exists x. split; [apply states_of_spec; exact Hin|].
    rewrite H1, H2, H3. reflexivity.
Qed.

Lemma neg_edge_b_spec : forall N Sp j k, length Sp = nvars N ->
  (neg_edge_b N Sp j k = true <-> neg_edge N Sp j k).
Proof.
  intros N Sp j k HS. unfold neg_edge_b, neg_edge. rewrite existsb_exists. split.
  - intros [x [Hin Hx]]. apply states_of_spec in Hin.
    apply andb_true_iff in Hx. destruct Hx as [Hx H3].
    apply andb_true_iff in Hx. destruct Hx as [H1 H2].
    apply negb_true_iff in H1. apply negb_true_iff in H3.
    exists x. repeat split; try assumption.
    rewrite (in_space_length _ _ Hin). exact HS.
  - intros [x [Hl [Hin [H1 [H2 H3]]]]]. exists x. split; [apply states_of_spec; exact Hin|].
    rewrite H1, H2, H3. reflexivity.
Qed.

Definition no_edge (N : net) (Sp : space) (j k : nat) : Prop :=
  ~ pos_edge N Sp j k /\ ~ neg_edge N Sp j k.

(* a difference of f_k across coordinate j IS an edge, and its sign can be read off *)
Lemma edge_of_diff : forall N Sp j k x,
  length x = nvars N -> in_space x Sp = true -> j < nvars N -> nth j Sp None = None ->
  upd N k x <> upd N k (set_nth j (negb (nth j x false)) x) ->
  if xorb (nth j x false) (upd N k x) then neg_edge N Sp j k else pos_edge N Sp j k.
Proof.
  intros N Sp j k x Hl Hin Hj Hfree Hd.
  destruct (nth j x false) eqn:Hxj; simpl in Hd.
  - (* x has j = 1; the witness is x with j lowered *)
    set (y := set_nth j false x) in *.
    assert (Hly : length y = nvars N) by (unfold y; rewrite set_nth_length; exact Hl).
    assert (Hiny : in_space y Sp = true) by (apply in_space_set_nth_free; assumption).
    assert (Hyj : nth j y false = false) by (apply nth_set_nth_eq; lia).
    assert (Hyx : set_nth j true y = x).
    { unfold y. rewrite C_set_nth_twice. rewrite <- Hxj. apply set_nth_same. lia. }
    destruct (upd N k x) eqn:Hux; simpl.
    + exists y. rewrite Hyx. repeat split; try assumption.
      destruct (upd N k y); [exfalso; apply Hd; reflexivity|reflexivity].
    + exists y. rewrite Hyx. repeat split; try assumption.
      destruct (upd N k y); [reflexivity|exfalso; apply Hd; reflexivity].
  - destruct (upd N k x) eqn:Hux; simpl.
    + exists x. repeat split; try assumption.
      destruct (upd N k (set_nth j true x)); [exfalso; apply Hd; reflexivity|reflexivity].
    + exists x. repeat split; try assumption.
      destruct (upd N k (set_nth j true x)); [reflexivity|exfalso; apply Hd; reflexivity].
Qed.

(* no edge = no dependence inside the space *)
Lemma no_edge_indep : forall N Sp j k x v,
  no_edge N Sp j k -> length x = nvars N -> in_space x Sp = true -> j < nvars N ->
  nth j Sp None = None -> upd N k (set_nth j v x) = upd N k x.
Proof.
  intros N Sp j k x v [Hnp Hnn] Hl Hin Hj Hfree.
  destruct (Bool.bool_dec v (nth j x false)) as [Hv|Hv].
  - subst v. rewrite set_nth_same by lia. reflexivity.
  - apply R_bool_neq in Hv. subst v.
    destruct (Bool.bool_dec (upd N k x) (upd N k (set_nth j (negb (nth j x false)) x))) as [He|Hd].
    + symmetry. exact He.
    + exfalso. pose proof (edge_of_diff N Sp j k x Hl Hin Hj Hfree Hd) as He.
      destruct (xorb (nth j x false) (upd N k x)); [apply Hnn|apply Hnp]; exact He.
Qed.

(* ================================================================== *)
(* PART C -- signed walks are decidable                                *)
(* ================================================================== *)

Lemma verts_spec : forall N Sp U v, In v (verts N Sp U) <-> vertex_ok N Sp U v.
Proof.
  intros N Sp U v. unfold verts, vertex_ok.
  rewrite filter_In, in_seq, andb_true_iff, negb_true_iff. split.
  - intros [[_ Hlt] [Hf Hu]]. split; [lia|]. split; [exact Hf|]. intros Hin.
    assert (Ht : existsb (Nat.eqb v) U = true).
    { apply existsb_exists. exists v. split; [exact Hin|apply Nat.eqb_refl]. }
    rewrite Hu in Ht. discriminate.
  - intros [Hlt [Hf Hu]]. split; [lia|]. split; [exact Hf|].
    destruct (existsb (Nat.eqb v) U) eqn:E; [|reflexivity].
    apply existsb_exists in E. destruct E as [w [Hw He]]. apply Nat.eqb_eq in He. subst w.
    contradiction.
Qed.

Lemma walk_vertex : forall N Sp U i k s, walk N Sp U i k s ->
  vertex_ok N Sp U i /\ vertex_ok N Sp U k.
Proof.
  intros N Sp U i k s Hw. induction Hw as [j k Hj Hk _|j k Hj Hk _|i j k a b _ [Hi _] _ [_ Hk]];
    split; assumption.
Qed.

Lemma walk_mono : forall N Sp U U' i k s,
  (forall v, vertex_ok N Sp U' v -> vertex_ok N Sp U v) ->
  walk N Sp U' i k s -> walk N Sp U i k s.
Proof.
  intros N Sp U U' i k s Hv Hw.
  induction Hw as [j k Hj Hk He|j k Hj Hk He|i j k a b _ IH1 _ IH2].
  - apply walk_pos; auto.
  - apply walk_neg; auto.
  - apply walk_app with (j := j); assumption.
Qed.

Lemma mem_vs_spec : forall p l, mem_vs p l = true <-> In p l.
Proof.
  intros [a b] l. unfold mem_vs. rewrite existsb_exists. split.
  - intros [[c d] [Hin He]]. simpl in He. apply andb_true_iff in He. destruct He as [H1 H2].
    apply Nat.eqb_eq in H1. apply eqb_prop in H2. subst c d. exact Hin.
  - intros Hin. exists (a, b). split; [exact Hin|]. simpl.
    rewrite Nat.eqb_refl, eqb_reflx. reflexivity.
Qed.

Lemma dc_succ_spec : forall N Sp vs j s k t,
  In (k, t) (dc_succ N Sp vs (j, s)) <->
  In k vs /\ ((pos_edge_b N Sp j k = true /\ t = s) \/ (neg_edge_b N Sp j k = true /\ t = negb s)).
Proof.
  intros N Sp vs j s k t. unfold dc_succ. rewrite in_flat_map. simpl. split.
  - intros [k' [Hk Hin]]. apply in_app_or in Hin. destruct Hin as [Hin|Hin].
    + destruct (pos_edge_b N Sp j k') eqn:E; [|destruct Hin]. destruct Hin as [Heq|[]].
      injection Heq as Hk' Ht. subst k' t. split; [exact Hk|]. left. split; [exact E|reflexivity].
    + destruct (neg_edge_b N Sp j k') eqn:E; [|destruct Hin]. destruct Hin as [Heq|[]].
      injection Heq as Hk' Ht. subst k' t. split; [exact Hk|]. right. split; [exact E|reflexivity].
  - intros [Hk [[E Ht]|[E Ht]]]; exists k; (split; [exact Hk|]); apply in_or_app.
    + left. rewrite E. subst t. left. reflexivity.
    + right. rewrite E. subst t. left. reflexivity.
Qed.

(* every element produced by the closure satisfies any invariant preserved by successors *)
Lemma dc_closure_inv : forall N Sp vs (P : nat * bool -> Prop),
  (forall p q, P p -> In q (dc_succ N Sp vs p) -> P q) ->
  forall fuel seen, (forall q, In q seen -> P q) ->
  forall q, In q (dc_closure fuel N Sp vs seen) -> P q.
Proof.
  intros N Sp vs P HP. induction fuel as [|f IH]; intros seen Hs q Hq; simpl in Hq.
  - apply Hs. exact Hq.
  - destruct (filter (fun q0 => negb (mem_vs q0 seen)) (flat_map (dc_succ N Sp vs) seen))
      as [|q0 r] eqn:E.
    + apply Hs. exact Hq.
    + apply (IH (q0 :: seen)); [|exact Hq]. intros q' [Hq'|Hq']; [subst q'|apply Hs; exact Hq'].
      assert (Hin : In q0 (filter (fun q1 => negb (mem_vs q1 seen)) (flat_map (dc_succ N Sp vs) seen))).
      { rewrite E. left. reflexivity. }
      apply filter_In in Hin. destruct Hin as [Hfm _]. apply in_flat_map in Hfm.
      destruct Hfm as [p [Hp Hpq]]. apply (HP p); [apply Hs; exact Hp|exact Hpq].
Qed.

Definition dc_univ (vs : list nat) : list (nat * bool) :=
  flat_map (fun k => [(k, true); (k, false)]) vs.

Lemma dc_univ_length : forall vs, length (dc_univ vs) = 2 * length vs.
Proof.
  induction vs as [|v vs IH]; [reflexivity|].
  unfold dc_univ in *. cbn [flat_map app length]. rewrite IH. lia.
Qed.

Lemma dc_univ_In : forall vs k t, In k vs -> In (k, t) (dc_univ vs).
Proof.
  intros vs k t Hk. unfold dc_univ. apply in_flat_map. exists k. split; [exact Hk|].
  destruct t; [left|right; left]; reflexivity.
Qed.

(* with enough fuel the closure is closed under successors *)
Lemma dc_closure_closed : forall N Sp vs fuel seen,
  length (filter (fun q => negb (mem_vs q seen)) (dc_univ vs)) < fuel ->
  incl seen (dc_closure fuel N Sp vs seen) /\
  forall p q, In p (dc_closure fuel N Sp vs seen) -> In q (dc_succ N Sp vs p) ->
              In q (dc_closure fuel N Sp vs seen).
Proof.
  intros N Sp vs. induction fuel as [|f IH]; intros seen Hm; [lia|]. simpl.
  destruct (filter (fun q0 => negb (mem_vs q0 seen)) (flat_map (dc_succ N Sp vs) seen))
    as [|q0 r] eqn:E.
  - split; [apply incl_refl|]. intros p q Hp Hq.
    destruct (mem_vs q seen) eqn:M; [apply mem_vs_spec; exact M|].
    assert (Hin : In q (filter (fun q1 => negb (mem_vs q1 seen)) (flat_map (dc_succ N Sp vs) seen))).
    { apply filter_In. split; [|rewrite M; reflexivity]. apply in_flat_map. exists p. split; assumption. }
    rewrite E in Hin. destruct Hin.
  - assert (Hin : In q0 (filter (fun q1 => negb (mem_vs q1 seen)) (flat_map (dc_succ N Sp vs) seen))).
    { rewrite E. left. reflexivity. }
    apply filter_In in Hin. destruct Hin as [Hfm Hnew]. apply negb_true_iff in Hnew.
    apply in_flat_map in Hfm. destruct Hfm as [[j s] [Hp Hpq]].
    destruct q0 as [k t]. apply dc_succ_spec in Hpq. destruct Hpq as [Hk _].
    assert (Hlt : length (filter (fun q => negb (mem_vs q ((k, t) :: seen))) (dc_univ vs)) <
                  length (filter (fun q => negb (mem_vs q seen)) (dc_univ vs))).
    { apply R_filter_length_lt with (a := (k, t)).
      - intros x _ Hx. apply negb_true_iff in Hx. apply negb_true_iff.
        destruct (mem_vs x seen) eqn:M; [|reflexivity].
        apply mem_vs_spec in M.
        assert (Hc : mem_vs x ((k, t) :: seen) = true) by (apply mem_vs_spec; right; exact M).
        rewrite Hx in Hc. discriminate.
      - apply dc_univ_In. exact Hk.
      - rewrite Hnew. reflexivity.
      - apply negb_false_iff. apply mem_vs_spec. left. reflexivity. }
    destruct (IH ((k, t) :: seen)) as [Hincl Hcl]; [lia|].
    split; [|exact Hcl]. intros x Hx. apply Hincl. right. exact Hx.
Qed.

Definition walk_b (N : net) (Sp : space) (U : list nat) (i k : nat) (s : bool) : bool :=
  mem_vs (k, s) (dc_reach N Sp (verts N Sp U) i).

Lemma dc_succ_edge : forall N Sp U j s k t, length Sp = nvars N -> In j (verts N Sp U) ->
  In (k, t) (dc_succ N Sp (verts N Sp U) (j, s)) ->
  exists e, walk N Sp U j k e /\ t = Bool.eqb s e.
Proof.
  intros N Sp U j s k t HS Hj Hin. apply dc_succ_spec in Hin. destruct Hin as [Hk Hin].
  apply verts_spec in Hj. apply verts_spec in Hk. destruct Hin as [[E Ht]|[E Ht]].
  - exists true. split; [apply walk_pos; try assumption; apply pos_edge_b_spec; assumption|].
    subst t. destruct s; reflexivity.
  - exists false. split; [apply walk_neg; try assumption; apply neg_edge_b_spec; assumption|].
    subst t. destruct s; reflexivity.
Qed.

Theorem walk_b_spec : forall N Sp U i k s, length Sp = nvars N -> In i (verts N Sp U) ->
  (walk_b N Sp U i k s = true <-> walk N Sp U i k s).
Proof.
  intros N Sp U i k s HS Hi. unfold walk_b. rewrite mem_vs_spec. unfold dc_reach. split.
  - intros Hin.
    apply (dc_closure_inv N Sp (verts N Sp U) (fun q => walk N Sp U i (fst q) (snd q)))
      with (q := (k, s)) in Hin; [exact Hin| |].
    + intros [j a] [k' t] Hp Hq. simpl in *.
      assert (Hj : In j (verts N Sp U)) by (apply verts_spec; apply (walk_vertex _ _ _ _ _ _ Hp)).
      destruct (dc_succ_edge N Sp U j a k' t HS Hj Hq) as [e [He Ht]]. subst t.
      apply walk_app with (j := j); assumption.
    + intros [k' t] Hq. simpl.
      destruct (dc_succ_edge N Sp U i true k' t HS Hi Hq) as [e [He Ht]].
      subst t. replace (Bool.eqb true e) with e by (destruct e; reflexivity). exact He.
  - intros Hw.
    set (vs := verts N Sp U) in *.
    set (X := dc_closure (2 * length vs + 1) N Sp vs (dc_succ N Sp vs (i, true))).
    destruct (dc_closure_closed N Sp vs (2 * length vs + 1) (dc_succ N Sp vs (i, true)))
      as [Hincl Hcl].
    { pose proof (R_filter_length_le _ (fun q => negb (mem_vs q (dc_succ N Sp vs (i, true))))
                    (fun _ => true) (dc_univ vs) (fun _ _ _ => eq_refl)) as Hle.
      assert (Hall : filter (fun _ : nat * bool => true) (dc_univ vs) = dc_univ vs).
      { clear. induction (dc_univ vs) as [|a l IH]; simpl; [reflexivity|rewrite IH; reflexivity]. }
      rewrite Hall, dc_univ_length in Hle. lia. }
    fold X in Hincl, Hcl.
    assert (Hgen : forall j k' a, walk N Sp U j k' a ->
              forall t, (j = i /\ t = true) \/ In (j, t) X -> In (k', Bool.eqb t a) X).
    { intros j k' a Hjk.
      induction Hjk as [j k' Hj Hk He|j k' Hj Hk He|j0 j k' a b _ IH1 _ IH2]; intros t Ht.
      - assert (Hs : In (k', Bool.eqb t true) (dc_succ N Sp vs (j, t))).
        { apply dc_succ_spec. split; [apply verts_spec; exact Hk|]. left.
          split; [apply pos_edge_b_spec; assumption|destruct t; reflexivity]. }
        destruct Ht as [[Hji Htt]|Ht]; [subst j t; apply Hincl; exact Hs|].
        apply (Hcl (j, t)); assumption.
      - assert (Hs : In (k', Bool.eqb t false) (dc_succ N Sp vs (j, t))).
        { apply dc_succ_spec. split; [apply verts_spec; exact Hk|]. right.
          split; [apply neg_edge_b_spec; assumption|destruct t; reflexivity]. }
        destruct Ht as [[Hji Htt]|Ht]; [subst j t; apply Hincl; exact Hs|].
        apply (Hcl (j, t)); assumption.
      - specialize (IH1 t Ht). specialize (IH2 (Bool.eqb t a) (or_intror IH1)).
        replace (Bool.eqb t (Bool.eqb a b)) with (Bool.eqb (Bool.eqb t a) b)
          by (destruct t, a, b; reflexivity).
        exact IH2. }
    specialize (Hgen i k s Hw true (or_introl (conj eq_refl eq_refl))).
    replace (Bool.eqb true s) with s in Hgen by (destruct s; reflexivity).
    exact Hgen.
Qed.

Theorem no_neg_walk_b_spec : forall N S U, length S = nvars N ->
  (no_neg_walk_b N S U = true <-> no_neg_walk N S U).
Proof.
  intros N Sp U HS. unfold no_neg_walk_b, no_neg_walk. rewrite forallb_forall. split.
  - intros Hb i Hw.
    assert (Hi : In i (verts N Sp U)) by (apply verts_spec; apply (walk_vertex _ _ _ _ _ _ Hw)).
    specialize (Hb i Hi). apply negb_true_iff in Hb.
    apply (walk_b_spec N Sp U i i false HS Hi) in Hw. unfold walk_b in Hw.
    rewrite Hb in Hw. discriminate.
  - intros Hn i Hi. apply negb_true_iff.
    destruct (mem_vs (i, false) (dc_reach N Sp (verts N Sp U) i)) eqn:M; [|reflexivity].
    exfalso. apply (Hn i). apply (walk_b_spec N Sp U i i false HS Hi). exact M.
Qed.

(* ================================================================== *)
(* PART D -- moves of a set of variables; isotone blocks               *)
(* ================================================================== *)

(* s ~> t by updating variables of C only (an update may leave the state unchanged) *)
Inductive moves (N : net) (C : list nat) : state -> state -> Prop :=
| mv_refl : forall s, moves N C s s
| mv_step : forall s i t, In i C -> moves N C (step_i N i s) t -> moves N C s t.

Definition stable (N : net) (k : nat) (s : state) : Prop := upd N k s = nth k s false.

Lemma moves_trans : forall N C s t u, moves N C s t -> moves N C t u -> moves N C s u.
Proof.
  intros N C s t u Hst Htu. induction Hst as [s|s i t Hi _ IH]; [exact Htu|].
  apply mv_step with (i := i); [exact Hi|]. apply IH. exact Htu.
Qed.

Lemma moves_incl : forall N C C' s t, incl C C' -> moves N C s t -> moves N C' s t.
Proof.
  intros N C C' s t Hincl Hst. induction Hst as [s|s i t Hi _ IH]; [apply mv_refl|].
  apply mv_step with (i := i); [apply Hincl; exact Hi|exact IH].
Qed.

Lemma moves_length : forall N C s t, moves N C s t -> length t = length s.
Proof.
  intros N C s t Hst. induction Hst as [s|s i t Hi _ IH]; [reflexivity|].
  rewrite IH. apply step_i_length.
Qed.

Lemma moves_in_space : forall N (Sp : space) C s t,
  (forall i, In i C -> nth i Sp None = None) -> moves N C s t ->
  in_space s Sp = true -> in_space t Sp = true.
Proof.
  intros N Sp C s t HC Hst. induction Hst as [s|s i t Hi _ IH]; intros Hin; [exact Hin|].
  apply IH. apply step_i_in_space_free; [exact Hin|apply HC; exact Hi].
Qed.

Lemma moves_other : forall N C s t k, ~ In k C -> moves N C s t -> nth k t false = nth k s false.
Proof.
  intros N C s t k Hk Hst. induction Hst as [s|s i t Hi _ IH]; [reflexivity|].
  rewrite IH. unfold step_i. apply nth_set_nth_neq. intros Heq. subst i. contradiction.
Qed.

(* f_k does not notice moves of variables it has no edge from *)
Lemma moves_upd_indep : forall N (Sp : space) C s t k,
  (forall j, In j C -> j < nvars N /\ nth j Sp None = None /\ no_edge N Sp j k) ->
  moves N C s t -> length s = nvars N -> in_space s Sp = true -> upd N k t = upd N k s.
Proof.
  intros N Sp C s t k HC Hst. induction Hst as [s|s i t Hi _ IH]; intros Hl Hin; [reflexivity|].
  destruct (HC i Hi) as [Hlt [Hfree Hne]].
  rewrite IH.
  - unfold step_i. apply (no_edge_indep N Sp i k s _ Hne Hl Hin Hlt Hfree).
  - rewrite step_i_length. exact Hl.
  - apply step_i_in_space_free; assumption.
Qed.

(* the sign condition of a block C with switching fl: after switching the polarities marked by fl
   every dependence inside C is isotone *)
Definition signs_ok (N : net) (Sp : space) (C : list nat) (fl : nat -> bool) : Prop :=
  forall j k, In j C -> In k C ->
    (pos_edge N Sp j k -> fl j = fl k) /\ (neg_edge N Sp j k -> fl j <> fl k).

Section Block.
  Variable N : net.
  Variable Sp : space.
  Variable C : list nat.
  Variable fl : nat -> bool.
  Hypothesis HCv : forall k, In k C -> k < nvars N /\ nth k Sp None = None.
  Hypothesis Hsig : signs_ok N Sp C fl.

  (* the switched value of coordinate k *)
  Definition sv (k : nat) (s : state) : bool := xorb (fl k) (nth k s false).

  Lemma diff_sign : forall j k x, In j C -> In k C -> length x = nvars N -> in_space x Sp = true ->
    upd N k x <> upd N k (set_nth j (negb (nth j x false)) x) ->
    xorb (fl j) (fl k) = xorb (nth j x false) (upd N k x).
  Proof.
    intros j k x Hj Hk Hl Hin Hd. destruct (HCv j Hj) as [Hlt Hfree].
    pose proof (edge_of_diff N Sp j k x Hl Hin Hlt Hfree Hd) as He.
    destruct (Hsig j k Hj Hk) as [Hp Hn].
    destruct (xorb (nth j x false) (upd N k x)).
    - specialize (Hn He). destruct (fl j), (fl k); try reflexivity; exfalso; apply Hn; reflexivity.
    - rewrite (Hp He). apply xorb_nilpotent.
  Qed.

  Lemma sv_step_self : forall k s, k < length s -> upd N k s <> nth k s false ->
    sv k (step_i N k s) = negb (sv k s).
  Proof.
    intros k s Hk Hu. unfold sv, step_i. rewrite nth_set_nth_eq by exact Hk.
    apply R_bool_neq in Hu. rewrite Hu. destruct (fl k), (nth k s false); reflexivity.
  Qed.

  Lemma sv_step_other : forall j k s, j <> k -> sv k (step_i N j s) = sv k s.
  Proof. intros j k s Hjk. unfold sv, step_i. rewrite nth_set_nth_neq by exact Hjk. reflexivity. Qed.

  (* phase 1: fire switched up-moves until none is enabled *)
  Lemma block_up : forall m s, length (filter (fun k => negb (sv k s)) C) < m ->
    length s = nvars N -> in_space s Sp = true ->
    exists x, moves N C s x /\ forall k, In k C -> sv k x = false -> stable N k x.
  Proof.
    induction m as [|m IH]; intros s Hm Hl Hin; [lia|].
    destruct (R_list_choice nat
                (fun k => negb (sv k s) && negb (Bool.eqb (upd N k s) (nth k s false))) C)
      as [Hnone|[k [Hk He]]].
    - exists s. split; [apply mv_refl|]. intros k Hk Hsv. specialize (Hnone k Hk). simpl in Hnone.
      rewrite Hsv in Hnone. simpl in Hnone. apply negb_false_iff in Hnone.
      apply eqb_prop in Hnone. exact Hnone.
    - apply andb_true_iff in He. destruct He as [Hsv Hu].
      apply negb_true_iff in Hsv. apply negb_true_iff in Hu. apply eqb_false_iff in Hu.
      destruct (HCv k Hk) as [Hlt Hfree].
      destruct (IH (step_i N k s)) as [x [Hmv Hx]].
      + assert (Hdec : length (filter (fun k0 => negb (sv k0 (step_i N k s))) C) <
                       length (filter (fun k0 => negb (sv k0 s)) C)).
        { apply R_filter_length_lt with (a := k).
          - intros j _ Hj. destruct (Nat.eq_dec k j) as [Hkj|Hkj].
            + subst j. rewrite sv_step_self in Hj by (try lia; exact Hu).
              rewrite Hsv in Hj. discriminate.
            + rewrite sv_step_other in Hj by exact Hkj. exact Hj.
          - exact Hk.
          - rewrite Hsv. reflexivity.
          - rewrite sv_step_self by (try lia; exact Hu). rewrite Hsv. reflexivity. }
        lia.
      + rewrite step_i_length. exact Hl.
      + apply step_i_in_space_free; assumption.
      + exists x. split; [|exact Hx]. apply mv_step with (i := k); assumption.
  Qed.

  (* phase 2: fire switched down-moves; isotonicity keeps all up-moves disabled *)
  Lemma block_down : forall m s, length (filter (fun k => sv k s) C) < m ->
    length s = nvars N -> in_space s Sp = true ->
    (forall k, In k C -> sv k s = false -> stable N k s) ->
    exists z, moves N C s z /\ forall k, In k C -> stable N k z.
  Proof.
    induction m as [|m IH]; intros s Hm Hl Hin Hinv; [lia|].
    destruct (R_list_choice nat
                (fun k => sv k s && negb (Bool.eqb (upd N k s) (nth k s false))) C)
      as [Hnone|[j [Hj He]]].
    - exists s. split; [apply mv_refl|]. intros k Hk. destruct (sv k s) eqn:Hsv.
      + specialize (Hnone k Hk). simpl in Hnone. rewrite Hsv in Hnone. simpl in Hnone.
        apply negb_false_iff in Hnone. apply eqb_prop in Hnone. exact Hnone.
      + apply Hinv; assumption.
    - apply andb_true_iff in He. destruct He as [Hsv Hu].
      apply negb_true_iff in Hu. apply eqb_false_iff in Hu.
      destruct (HCv j Hj) as [Hlt Hfree].
      assert (Hstep : step_i N j s = set_nth j (negb (nth j s false)) s).
      { unfold step_i. rewrite (R_bool_neq _ _ Hu). reflexivity. }
      destruct (IH (step_i N j s)) as [z [Hmv Hz]].
      + assert (Hdec : length (filter (fun k0 => sv k0 (step_i N j s)) C) <
                       length (filter (fun k0 => sv k0 s) C)).
        { apply R_filter_length_lt with (a := j).
          - intros k _ Hk. destruct (Nat.eq_dec j k) as [Hjk|Hjk].
            + subst k. rewrite sv_step_self in Hk by (try lia; exact Hu).
              rewrite Hsv in Hk. discriminate.
            + rewrite sv_step_other in Hk by exact Hjk. exact Hk.
          - exact Hj.
          - exact Hsv.
          - rewrite sv_step_self by (try lia; exact Hu). rewrite Hsv. reflexivity. }
        lia.
      + rewrite step_i_length. exact Hl.
      + apply step_i_in_space_free; assumption.
      + intros k Hk Hsvk. unfold stable. destruct (Nat.eq_dec j k) as [Hjk|Hjk].
        * subst k. rewrite Hstep at 2. rewrite nth_set_nth_eq by lia.
          destruct (Bool.bool_dec (upd N j s) (upd N j (step_i N j s))) as [Heq|Hd].
          -- rewrite <- Heq. apply R_bool_neq. exact Hu.
          -- exfalso. rewrite Hstep in Hd.
             pose proof (diff_sign j j s Hj Hj Hl Hin Hd) as Hs.
             rewrite xorb_nilpotent in Hs. rewrite (R_bool_neq _ _ Hu) in Hs.
             destruct (nth j s false); discriminate.
        * rewrite sv_step_other in Hsvk by exact Hjk.
          pose proof (Hinv k Hk Hsvk) as Hst. unfold stable in Hst.
          assert (Hnk : nth k (step_i N j s) false = nth k s false).
          { unfold step_i. apply nth_set_nth_neq. exact Hjk. }
          rewrite Hnk.
          destruct (Bool.bool_dec (upd N k s) (upd N k (step_i N j s))) as [Heq|Hd].
          -- rewrite <- Heq. exact Hst.
          -- exfalso. rewrite Hstep in Hd.
             pose proof (diff_sign j k s Hj Hk Hl Hin Hd) as Hs.
             rewrite Hst in Hs. unfold sv in Hsv, Hsvk.
             destruct (fl j), (fl k), (nth j s false), (nth k s false); discriminate.
      + exists z. split; [|exact Hz]. apply mv_step with (i := j); assumption.
  Qed.

  (* Step 2: an isotone block reaches a state in which all its variables are stable *)
  Theorem block_settle : forall s, length s = nvars N -> in_space s Sp = true ->
    exists z, moves N C s z /\ forall k, In k C -> stable N k z.
  Proof.
    intros s Hl Hin.
    destruct (block_up (S (length (filter (fun k => negb (sv k s)) C))) s (Nat.lt_succ_diag_r _) Hl Hin)
      as [x [Hsx Hx]].
    assert (Hlx : length x = nvars N) by (rewrite (moves_length _ _ _ _ Hsx); exact Hl).
    assert (Hinx : in_space x Sp = true).
    { apply (moves_in_space N Sp C s x); try assumption. intros i Hi. apply (HCv i Hi). }
    destruct (block_down (S (length (filter (fun k => sv k x) C))) x (Nat.lt_succ_diag_r _) Hlx Hinx Hx)
      as [z [Hxz Hz]].
    exists z. split; [|exact Hz]. apply moves_trans with (t := x); assumption.
  Qed.
End Block.

(* ================================================================== *)
(* PART E -- cascades of isotone source blocks                         *)
(* ================================================================== *)

(* C is an isotone source block of the vertex set F: non-empty, inside F, isotone after switching
   by fl, and no variable of F outside C has an edge into C (autonomy relative to F) *)
Definition source_block (N : net) (Sp : space) (F C : list nat) (fl : nat -> bool) : Prop :=
  C <> [] /\ incl C F /\ signs_ok N Sp C fl /\
  forall j k, In j F -> ~ In j C -> In k C -> no_edge N Sp j k.

(* the free variables outside W can be peeled off block by block *)
Inductive cascade (N : net) (Sp : space) : list nat -> Prop :=
| casc_nil : forall W, verts N Sp W = [] -> cascade N Sp W
| casc_block : forall W C fl, source_block N Sp (verts N Sp W) C fl -> cascade N Sp (C ++ W) ->
                              cascade N Sp W.

Lemma verts_app : forall N Sp C W v,
  In v (verts N Sp (C ++ W)) <-> In v (verts N Sp W) /\ ~ In v C.
Proof.
  intros N Sp C W v. rewrite !verts_spec. unfold vertex_ok. rewrite in_app_iff. tauto.
Qed.

(* Step 3: along a cascade every free variable outside W becomes stable, moving only those *)
Theorem cascade_settle : forall N Sp W, length Sp = nvars N -> cascade N Sp W ->
  forall s, length s = nvars N -> in_space s Sp = true ->
  exists z, moves N (verts N Sp W) s z /\ forall k, In k (verts N Sp W) -> stable N k z.
Proof.
  intros N Sp W HS Hc. induction Hc as [W Hnil|W C fl [Hne [Hincl [Hsig Hsrc]]] _ IH]; intros s Hl Hin.
  - exists s. split; [apply mv_refl|]. rewrite Hnil. intros k [].
  - assert (HCv : forall k, In k C -> k < nvars N /\ nth k Sp None = None).
    { intros k Hk. apply Hincl in Hk. apply verts_spec in Hk. destruct Hk as [Hlt [Hf _]].
      split; [exact Hlt|apply R_is_free_iff; exact Hf]. }
    destruct (block_settle N Sp C fl HCv Hsig s Hl Hin) as [s1 [Hs1 HC1]].
    assert (Hl1 : length s1 = nvars N) by (rewrite (moves_length _ _ _ _ Hs1); exact Hl).
    assert (Hin1 : in_space s1 Sp = true).
    { apply (moves_in_space N Sp C s s1); try assumption. intros i Hi. apply (HCv i Hi). }
    destruct (IH s1 Hl1 Hin1) as [z [Hz Hst]].
    assert (Hsub : incl (verts N Sp (C ++ W)) (verts N Sp W)).
    { intros v Hv. apply verts_app in Hv. apply Hv. }
    exists z. split.
    + apply moves_trans with (t := s1).
      * apply moves_incl with (C := C); assumption.
      * apply moves_incl with (C := verts N Sp (C ++ W)); assumption.
    + intros k Hk. destruct (in_dec Nat.eq_dec k C) as [HkC|HkC].
      * unfold stable.
        assert (Hnk : ~ In k (verts N Sp (C ++ W))).
        { intros Hk'. apply verts_app in Hk'. destruct Hk' as [_ Hk']. contradiction. }
        assert (Hindep : upd N k z = upd N k s1).
        { apply (moves_upd_indep N Sp (verts N Sp (C ++ W)) s1 z k); try assumption.
          intros j Hj. apply verts_app in Hj. destruct Hj as [Hj HjC].
          pose proof Hj as Hjv. apply verts_spec in Hjv. destruct Hjv as [Hlt [Hf _]].
          split; [exact Hlt|]. split; [apply R_is_free_iff; exact Hf|].
          apply Hsrc; assumption. }
        rewrite Hindep, (moves_other N _ s1 z k Hnk Hz). apply HC1. exact HkC.
      * apply Hst. apply verts_app. split; assumption.
Qed.

(* ================================================================== *)
(* PART F -- the reduced dynamics                                      *)
(* ================================================================== *)

(* Step 0: a variable retained by b (b_i = Some v) may only move to its retained value *)
Definition rtrans (N : net) (b : space) (s t : state) : Prop :=
  exists i, i < nvars N /\ t = step_i N i s /\ t <> s /\
            (forall v, nth i b None = Some v -> nth i t false = v).
Definition rreach (N : net) (b : space) : state -> state -> Prop :=
  clos_refl_trans state (rtrans N b).

Lemma rtrans_trans : forall N b s t, rtrans N b s t -> trans N s t.
Proof. intros N b s t [i [Hi [Ht [Hne _]]]]. exists i. repeat split; assumption. Qed.

Lemma rreach_reach : forall N b s t, rreach N b s t -> reach N s t.
Proof.
  intros N b s t Hr. induction Hr as [s t Hst|s|s t u _ IH1 _ IH2].
  - apply rt_step. apply (rtrans_trans N b). exact Hst.
  - apply rt_refl.
  - apply rt_trans with (y := t); assumption.
Qed.

(* the reduced fixed points are exactly the states without a successor in the reduced graph *)
Theorem red_fixed_iff_no_rtrans : forall N b s, length s = nvars N -> length b = nvars N ->
  (red_fixed_at N s 0 s b = true <-> forall t, ~ rtrans N b s t).
Proof.
  intros N b s Hl Hb. rewrite red_fixed_at_spec by lia. split.
  - intros Hfix t [i [Hi [Ht [Hne Hret]]]].
    assert (Hti : nth i t false = upd N i s).
    { subst t. unfold step_i. apply nth_set_nth_eq. lia. }
    destruct (Hfix i ltac:(lia)) as [Hst|Hst]; simpl in Hst.
    + apply Hne. subst t. unfold step_i. rewrite Hst. apply set_nth_same. lia.
    + specialize (Hret _ Hst). apply Hne. subst t. unfold step_i.
      rewrite <- Hti, Hret. apply set_nth_same. lia.
  - intros Hno j Hj. simpl.
    destruct (Bool.bool_dec (upd N j s) (nth j s false)) as [Hst|Hu]; [left; exact Hst|].
    assert (Hne : step_i N j s <> s).
    { intros Heq. apply Hu. rewrite <- Heq at 2. unfold step_i. symmetry. apply nth_set_nth_eq. lia. }
    destruct (nth j b None) as [v|] eqn:Eb.
    + destruct (Bool.bool_dec v (nth j s false)) as [Hv|Hv]; [right; rewrite Hv; reflexivity|].
      exfalso. apply (Hno (step_i N j s)). exists j. split; [lia|]. split; [reflexivity|].
      split; [exact Hne|]. intros w Hw. rewrite Eb in Hw. injection Hw as Hw. subst w.
      unfold step_i. rewrite nth_set_nth_eq by lia.
      rewrite (R_bool_neq _ _ Hu), (R_bool_neq _ _ Hv). reflexivity.
    + exfalso. apply (Hno (step_i N j s)). exists j. split; [lia|]. split; [reflexivity|].
      split; [exact Hne|]. intros w Hw. rewrite Eb in Hw. discriminate.
Qed.

(* along a reduced path a retained variable that sits at its retained value stays there *)
Lemma rreach_retained_stays : forall N b s t i v, rreach N b s t -> length s = nvars N ->
  nth i b None = Some v -> nth i s false = v -> nth i t false = v /\ length t = nvars N.
Proof.
  intros N b s t i v Hr. induction Hr as [s t [j [Hj [Ht [_ Hret]]]]|s|s t u _ IH1 _ IH2];
    intros Hl Hb Hs.
  - split; [|subst t; rewrite step_i_length; exact Hl].
    destruct (Nat.eq_dec j i) as [Hji|Hji]; [subst j; apply Hret; exact Hb|].
    subst t. unfold step_i. rewrite nth_set_nth_neq by exact Hji. exact Hs.
  - split; assumption.
  - destruct (IH1 Hl Hb Hs) as [Ht Hlt]. apply IH2; assumption.
Qed.

(* the number of retained variables that are not at their retained value *)
Definition mu (b : space) (s : state) : nat :=
  length (filter (fun i => match nth i b None with
                           | Some v => negb (Bool.eqb (nth i s false) v)
                           | None => false
                           end) (seq 0 (length b))).

Lemma step_mu : forall N b s i, i < nvars N -> length s = nvars N -> length b = nvars N ->
  (forall v, nth i b None = Some v -> upd N i s = v) ->
  mu b (step_i N i s) <= mu b s /\
  (forall v, nth i b None = Some v -> nth i s false <> v -> mu b (step_i N i s) < mu b s).
Proof.
  intros N b s i Hi Hl Hb Hret.
  assert (Himp : forall x, In x (seq 0 (length b)) ->
            match nth x b None with
            | Some v => negb (Bool.eqb (nth x (step_i N i s) false) v) | None => false end = true ->
            match nth x b None with
            | Some v => negb (Bool.eqb (nth x s false) v) | None => false end = true).
  { intros x _ Hx. destruct (Nat.eq_dec i x) as [Hix|Hix].
    - subst x. destruct (nth i b None) as [v|] eqn:Eb; [|discriminate].
      unfold step_i in Hx. rewrite nth_set_nth_eq in Hx by lia.
      rewrite (Hret v eq_refl), eqb_reflx in Hx. discriminate.
    - unfold step_i in Hx. rewrite nth_set_nth_neq in Hx by exact Hix. exact Hx. }
  split.
  - unfold mu. apply R_filter_length_le. exact Himp.
  - intros v Eb Hne. unfold mu. apply R_filter_length_lt with (a := i).
    + exact Himp.
    + apply in_seq. lia.
    + rewrite Eb. apply negb_true_iff. apply eqb_false_iff. exact Hne.
    + rewrite Eb. unfold step_i. rewrite nth_set_nth_eq by lia.
      rewrite (Hret v Eb), eqb_reflx. reflexivity.
Qed.

Lemma rreach_mu_le : forall N b s t, length b = nvars N -> rreach N b s t -> length s = nvars N ->
  length t = nvars N /\ mu b t <= mu b s.
Proof.
  intros N b s t Hb Hr. induction Hr as [s t [i [Hi [Ht [_ Hret]]]]|s|s t u _ IH1 _ IH2]; intros Hl.
  - subst t. split; [rewrite step_i_length; exact Hl|].
    apply (step_mu N b s i Hi Hl Hb). intros v Hv. rewrite <- (Hret v Hv).
    unfold step_i. symmetry. apply nth_set_nth_eq. lia.
  - split; [exact Hl|lia].
  - destruct (IH1 Hl) as [Hlt H1]. destruct (IH2 Hlt) as [Hlu H2]. split; [exact Hlu|lia].
Qed.

(* moves of variables that are not retained are paths of the reduced graph *)
Lemma moves_rreach : forall N b C s t,
  (forall i, In i C -> i < nvars N /\ nth i b None = None) -> moves N C s t -> rreach N b s t.
Proof.
  intros N b C s t HC Hst. induction Hst as [s|s i t Hi _ IH]; [apply rt_refl|].
  destruct (A_state_eq_dec (step_i N i s) s) as [Heq|Hne].
  - rewrite Heq in IH. exact IH.
  - apply rt_trans with (y := step_i N i s); [|exact IH]. apply rt_step.
    destruct (HC i Hi) as [Hlt Hb]. exists i. split; [exact Hlt|]. split; [reflexivity|].
    split; [exact Hne|]. intros v Hv. rewrite Hb in Hv. discriminate.
Qed.

(* Steps 1+3 combined: settle the free variables outside U by the cascade; if some retained variable
   can still move towards its retained value, move it (the measure mu decreases) and repeat *)
Theorem reduced_fixed_reachable : forall N Sp U b, trap_space N Sp -> cascade N Sp U ->
  length b = nvars N -> (forall i, i < nvars N -> (nth i b None <> None <-> In i U)) ->
  forall x, length x = nvars N -> in_space x Sp = true ->
  exists z, rreach N b x z /\ red_fixed_at N z 0 z b = true.
Proof.
  intros N Sp U b Htrap Hc Hb HbU.
  pose proof (trap_space_length N Sp Htrap) as HS.
  assert (Hgen : forall m x, mu b x < m -> length x = nvars N -> in_space x Sp = true ->
            exists z, rreach N b x z /\ red_fixed_at N z 0 z b = true).
  { induction m as [|m IH]; intros x Hm Hl Hin; [lia|].
    destruct (cascade_settle N Sp U HS Hc x Hl Hin) as [z0 [Hmv Hst]].
    assert (Hr0 : rreach N b x z0).
    { apply (moves_rreach N b (verts N Sp U)); [|exact Hmv].
      intros i Hi. apply verts_spec in Hi. destruct Hi as [Hlt [_ HiU]]. split; [exact Hlt|].
      destruct (nth i b None) as [v|] eqn:Eb; [|reflexivity].
      exfalso. apply HiU. apply (HbU i Hlt). rewrite Eb. discriminate. }
    destruct (rreach_mu_le N b x z0 Hb Hr0 Hl) as [Hl0 Hmu0].
    assert (Hin0 : in_space z0 Sp = true).
    { apply (moves_in_space N Sp (verts N Sp U) x z0); try assumption.
      intros i Hi. apply verts_spec in Hi. destruct Hi as [_ [Hf _]]. apply R_is_free_iff. exact Hf. }
    destruct (R_list_choice nat
                (fun i => match nth i b None with
                          | Some v => Bool.eqb (upd N i z0) v && negb (Bool.eqb (nth i z0 false) v)
                          | None => false end) (seq 0 (nvars N)))
      as [Hnone|[i [Hi He]]].
    - exists z0. split; [exact Hr0|]. apply red_fixed_at_spec; [lia|].
      intros j Hj. simpl. rewrite Hl0 in Hj.
      assert (Hjs : In j (seq 0 (nvars N))) by (apply in_seq; lia).
      specialize (Hnone j Hjs). simpl in Hnone.
      destruct (nth j b None) as [v|] eqn:Eb.
      + destruct (Bool.eqb (nth j z0 false) v) eqn:Ez.
        * right. apply eqb_prop in Ez. rewrite Ez. reflexivity.
        * left. rewrite andb_true_r in Hnone. apply eqb_false_iff in Hnone. apply eqb_false_iff in Ez.
          rewrite (R_bool_neq _ _ Hnone), (R_bool_neq _ _ Ez). reflexivity.
      + left. destruct (nth j Sp None) as [w|] eqn:Es.
        * pose proof (proj1 (trap_space_char N Sp HS) Htrap j w Es z0 Hl0 Hin0) as Hconst.
          rewrite Hconst. symmetry. apply (proj1 (in_space_nth z0 Sp ltac:(lia)) Hin0 j). exact Es.
        * apply Hst. apply verts_spec. split; [exact Hj|]. split; [apply R_is_free_iff; exact Es|].
          intros HjU. apply (HbU j Hj) in HjU. apply HjU. exact Eb.
    - apply in_seq in Hi. destruct (nth i b None) as [v|] eqn:Eb; [|discriminate].
      apply andb_true_iff in He. destruct He as [Hu Hz]. apply eqb_prop in Hu.
      apply negb_true_iff in Hz. apply eqb_false_iff in Hz.
      assert (Hret : forall w, nth i b None = Some w -> upd N i z0 = w).
      { intros w Hw. rewrite Eb in Hw. injection Hw as Hw. subst w. exact Hu. }
      destruct (step_mu N b z0 i ltac:(lia) Hl0 Hb Hret) as [_ Hlt].
      specialize (Hlt v Eb Hz).
      assert (Hrt : rtrans N b z0 (step_i N i z0)).
      { exists i. split; [lia|]. split; [reflexivity|]. split.
        - intros Heq. apply Hz. rewrite <- Heq. unfold step_i. rewrite nth_set_nth_eq by lia. exact Hu.
        - intros w Hw. unfold step_i. rewrite nth_set_nth_eq by lia. apply Hret. exact Hw. }
      destruct Htrap as [Hwf Hcl].
      destruct (Hcl z0 (step_i N i z0) (conj Hl0 Hin0) (rtrans_trans N b _ _ Hrt)) as [Hl1 Hin1].
      destruct (IH (step_i N i z0)) as [z [Hrz Hfz]]; [lia|exact Hl1|exact Hin1|].
      exists z. split; [|exact Hfz].
      apply rt_trans with (y := z0); [exact Hr0|].
      apply rt_trans with (y := step_i N i z0); [apply rt_step; exact Hrt|exact Hrz]. }
  intros x Hl Hin. apply (Hgen (S (mu b x))); [lia|exact Hl|exact Hin].
Qed.

(* ================================================================== *)
(* PART G -- no negative closed walk => a cascade exists               *)
(* ================================================================== *)

(* Step 4 (i)+(ii): a source strongly connected component of the vertex set is an isotone source block *)
Theorem source_block_exists : forall N Sp W, length Sp = nvars N -> verts N Sp W <> [] ->
  no_neg_walk N Sp W -> exists C fl, source_block N Sp (verts N Sp W) C fl.
Proof.
  intros N Sp W HS Hne Hnn.
  set (vs := verts N Sp W) in *.
  set (rb := fun j i => walk_b N Sp W j i true || walk_b N Sp W j i false).
  set (ancs := fun i => filter (fun j => Nat.eqb j i || rb j i) vs).
  assert (Hrb : forall j k, In j vs -> (rb j k = true <-> exists s, walk N Sp W j k s)).
  { intros j k Hj. unfold rb. rewrite orb_true_iff.
    rewrite (walk_b_spec N Sp W j k true HS Hj), (walk_b_spec N Sp W j k false HS Hj). split.
    - intros [Hw|Hw]; eexists; exact Hw.
    - intros [[|] Hw]; [left|right]; exact Hw. }
  assert (Hanc : forall i j, In j (ancs i) <-> In j vs /\ (j = i \/ exists s, walk N Sp W j i s)).
  { intros i j. unfold ancs. rewrite filter_In, orb_true_iff, Nat.eqb_eq. split.
    - intros [Hj [He|Hr]]; (split; [exact Hj|]); [left; exact He|right; apply (Hrb j i Hj); exact Hr].
    - intros [Hj [He|Hr]]; (split; [exact Hj|]); [left; exact He|right; apply (Hrb j i Hj); exact Hr]. }
  destruct (R_argmin nat (fun i => length (ancs i)) vs Hne) as [i [Hi Hmin]].
  set (fl := fun k => if Nat.eqb k i then false else walk_b N Sp W i k false).
  assert (Hfli : fl i = false) by (unfold fl; rewrite Nat.eqb_refl; reflexivity).
  assert (Hflk : forall k, k <> i -> fl k = walk_b N Sp W i k false).
  { intros k Hk. unfold fl. apply Nat.eqb_neq in Hk. rewrite Hk. reflexivity. }
  (* every member of the component other than i is reached from i *)
  assert (Hback : forall j, In j (ancs i) -> j <> i -> exists s, walk N Sp W i j s).
  { intros j Hj Hji. destruct (rb i j) eqn:E; [apply (Hrb i j Hi); exact E|]. exfalso.
    apply Hanc in Hj. destruct Hj as [Hjv [Hj|[s Hj]]]; [contradiction|].
    assert (Hlt : length (ancs j) < length (ancs i)).
    { unfold ancs. apply R_filter_length_lt with (a := i).
      - intros x Hx Hp. apply orb_true_iff in Hp. apply orb_true_iff. right.
        apply (Hrb x i Hx). destruct Hp as [Hp|Hp].
        + apply Nat.eqb_eq in Hp. subst x. exists s. exact Hj.
        + apply (Hrb x j Hx) in Hp. destruct Hp as [a Hp].
          exists (Bool.eqb a s). apply walk_app with (j := j); assumption.
      - exact Hi.
      - rewrite Nat.eqb_refl. reflexivity.
      - rewrite E. apply Nat.eqb_neq in Hji. rewrite Nat.eqb_sym, Hji. reflexivity. }
    specialize (Hmin j Hjv). simpl in Hmin. lia. }
  (* the sign of a walk from i into the component is determined by fl *)
  assert (Hcons : forall k s, In k (ancs i) -> walk N Sp W i k s -> s = negb (fl k)).
  { intros k s Hk Hw. destruct (Nat.eq_dec k i) as [Hki|Hki].
    - subst k. rewrite Hfli. destruct s; [reflexivity|]. exfalso. apply (Hnn i). exact Hw.
    - rewrite (Hflk k Hki). apply Hanc in Hk. destruct Hk as [Hkv [Hk|[t Hk]]]; [contradiction|].
      destruct (walk_b N Sp W i k false) eqn:E.
      + apply (walk_b_spec N Sp W i k false HS Hi) in E. destruct s; [|reflexivity]. exfalso.
        apply (Hnn i). destruct t.
        * apply (walk_app N Sp W i k i false true E Hk).
        * apply (walk_app N Sp W i k i true false Hw Hk).
      + destruct s; [reflexivity|]. apply (walk_b_spec N Sp W i k false HS Hi) in Hw.
        rewrite E in Hw. discriminate. }
  (* hence every walk inside the component has the sign prescribed by fl *)
  assert (Hsign : forall j k e, In j (ancs i) -> In k (ancs i) -> walk N Sp W j k e ->
            xorb (fl j) (fl k) = negb e).
  { intros j k e Hj Hk Hw. destruct (Nat.eq_dec j i) as [Hji|Hji].
    - subst j. rewrite Hfli. rewrite (Hcons k e Hk Hw). destruct (fl k); reflexivity.
    - destruct (Hback j Hj Hji) as [s Hs].
      pose proof (Hcons j s Hj Hs) as H1.
      pose proof (Hcons k _ Hk (walk_app N Sp W i j k s e Hs Hw)) as H2.
      destruct (fl j), (fl k), e, s; simpl in *; try reflexivity; discriminate. }
  exists (ancs i), fl. split; [|split; [|split]].
  - intros Hnil. assert (Hii : In i (ancs i)) by (apply Hanc; split; [exact Hi|left; reflexivity]).
    rewrite Hnil in Hii. destruct Hii.
  - intros j Hj. apply Hanc in Hj. apply Hj.
  - intros j k Hj Hk.
    assert (Hjv : vertex_ok N Sp W j) by (apply verts_spec; apply Hanc in Hj; apply Hj).
    assert (Hkv : vertex_ok N Sp W k) by (apply verts_spec; apply Hanc in Hk; apply Hk).
    split; intros He.
    + pose proof (Hsign j k true Hj Hk (walk_pos N Sp W j k Hjv Hkv He)) as Hx.
      destruct (fl j), (fl k); try reflexivity; discriminate.
    + pose proof (Hsign j k false Hj Hk (walk_neg N Sp W j k Hjv Hkv He)) as Hx.
      destruct (fl j), (fl k); try discriminate; intros Hc; discriminate.
  - intros j k Hj HjC Hk.
    assert (Hjv : vertex_ok N Sp W j) by (apply verts_spec; exact Hj).
    assert (Hkv : vertex_ok N Sp W k) by (apply verts_spec; apply Hanc in Hk; apply Hk).
    assert (Hanyedge : forall e, walk N Sp W j k e -> False).
    { intros e He. apply HjC. apply Hanc. split; [exact Hj|]. right.
      apply Hanc in Hk. destruct Hk as [_ [Hk|[t Hk]]].
      - subst k. exists e. exact He.
      - exists (Bool.eqb e t). apply walk_app with (j := k); assumption. }
    split; intros He.
    + apply (Hanyedge true). apply walk_pos; assumption.
    + apply (Hanyedge false). apply walk_neg; assumption.
Qed.

(* Step 4 (iii): peel the blocks off one by one *)
Theorem cascade_exists : forall N Sp W, length Sp = nvars N -> no_neg_walk N Sp W -> cascade N Sp W.
Proof.
  intros N Sp W HS.
  assert (Hgen : forall m W', length (verts N Sp W') <= m -> no_neg_walk N Sp W' -> cascade N Sp W').
  { induction m as [|m IH]; intros W' Hm Hnn.
    - apply casc_nil. destruct (verts N Sp W'); [reflexivity|simpl in Hm; lia].
    - destruct (Nat.eq_dec (length (verts N Sp W')) 0) as [Hz|Hnz];
        [apply casc_nil; apply length_zero_iff_nil; exact Hz|].
      assert (Hne : verts N Sp W' <> []).
      { intros Heq. apply Hnz. rewrite Heq. reflexivity. }
      destruct (source_block_exists N Sp W' HS Hne Hnn) as [C [fl Hblk]].
      apply casc_block with (C := C) (fl := fl); [exact Hblk|].
      destruct Hblk as [HCne [Hincl _]].
      apply IH.
      + destruct C as [|c C']; [exfalso; apply HCne; reflexivity|].
        assert (Hc : In c (verts N Sp W')) by (apply Hincl; left; reflexivity).
        assert (Hlt : length (verts N Sp ((c :: C') ++ W')) < length (verts N Sp W')).
        { unfold verts at 1 2. apply R_filter_length_lt with (a := c).
          - intros x Hx Hp.
            assert (Hv : In x (verts N Sp ((c :: C') ++ W'))).
            { unfold verts. apply filter_In. split; assumption. }
            apply verts_app in Hv. destruct Hv as [Hv _]. unfold verts in Hv.
            apply filter_In in Hv. apply Hv.
          - unfold verts in Hc. apply filter_In in Hc. apply Hc.
          - unfold verts in Hc. apply filter_In in Hc. apply Hc.
          - destruct (is_free Sp c && negb (existsb (Nat.eqb c) ((c :: C') ++ W'))) eqn:E;
              [|reflexivity].
            exfalso.
            assert (Hv : In c (verts N Sp ((c :: C') ++ W'))).
            { unfold verts. apply filter_In. split; [|exact E].
              unfold verts in Hc. apply filter_In in Hc. apply Hc. }
            apply verts_app in Hv. destruct Hv as [_ Hv]. apply Hv. left. reflexivity. }
        lia.
      + intros i Hw. apply (Hnn i). apply (walk_mono N Sp W' (C ++ W')); [|exact Hw].
        intros v [Hlt [Hf Hv]]. split; [exact Hlt|]. split; [exact Hf|].
        intros HvW. apply Hv. apply in_or_app. right. exact HvW. }
  intros Hnn. apply (Hgen (length (verts N Sp W))); [lia|exact Hnn].
Qed.

(* ================================================================== *)
(* PART H -- the reduction hypothesis                                  *)
(* ================================================================== *)

Lemma ret_space_total : forall n nfvs R, retained_total nfvs R ->
  forall i, i < n -> (nth i (ret_space n R) None <> None <-> In i nfvs).
Proof.
  intros n nfvs R [_ Hmem] i Hi. rewrite C_ret_space_nth. rewrite Hmem. tauto.
Qed.

Theorem nfvs_reduction_from_cascade : forall N S avoid nfvs, trap_space N S ->
  (forall a, In a avoid -> trap_space N a) -> cascade N S nfvs -> reduction_hyp N S avoid nfvs.
Proof.
  intros N Sp avoid nfvs Htrap Havoid Hc R HR A [Hattr [HinS Hnot]].
  pose proof Hattr as [[x Hx] [Hwf [Hcl _]]].
  destruct (reduced_fixed_reachable N Sp nfvs (ret_space (nvars N) R) Htrap Hc
              (C_ret_space_length _ _) (ret_space_total (nvars N) nfvs R HR) x (Hwf x Hx) (HinS x Hx))
    as [z [Hrz Hfix]].
  assert (HAz : A z).
  { apply (A_closed_reach N A x z Hcl Hx). apply (rreach_reach N _ _ _ Hrz). }
  exists z. split; [|exact HAz].
  unfold reduced_fixed_b. apply filter_In. split; [apply states_of_spec; apply HinS; exact HAz|].
  rewrite Hfix. simpl. apply negb_true_iff.
  destruct (existsb (in_space z) avoid) eqn:E; [|reflexivity]. exfalso.
  apply existsb_exists in E. destruct E as [M [HM HzM]].
  apply Hnot. exists M. split; [exact HM|].
  apply (attractor_meets_trap N A M z Hattr (Havoid M HM) HAz HzM).
Qed.

Theorem nfvs_reduction : forall N S avoid nfvs, trap_space N S ->
  (forall a, In a avoid -> trap_space N a) ->
  NoDup nfvs -> (forall v, In v nfvs -> v < nvars N) -> no_neg_walk N S nfvs ->
  reduction_hyp N S avoid nfvs.
Proof.
  intros N Sp avoid nfvs Htrap Havoid _ _ Hnn.
  apply nfvs_reduction_from_cascade; try assumption.
  apply cascade_exists; [apply trap_space_length; exact Htrap|exact Hnn].
Qed.

(* the executable form: the boolean test on the interaction graph implies the boolean brute-force
   check of the reduction hypothesis *)
Corollary no_neg_walk_b_reduction : forall N S avoid nfvs, trap_space N S ->
  (forall a, In a avoid -> trap_space N a) ->
  NoDup nfvs -> (forall v, In v nfvs -> v < nvars N) -> no_neg_walk_b N S nfvs = true ->
  nfvs_reduction_ok_b N S avoid nfvs = true.
Proof.
  intros N Sp avoid nfvs Htrap Havoid Hnd Hlt Hb.
  pose proof (trap_space_length N Sp Htrap) as HS.
  apply (nfvs_reduction_ok_b_spec N Sp avoid nfvs HS Hnd Hlt).
  apply nfvs_reduction; try assumption. apply (no_neg_walk_b_spec N Sp nfvs HS). exact Hb.
Qed.

Print Assumptions no_neg_walk_b_spec.
Print Assumptions nfvs_reduction_from_cascade.
Print Assumptions nfvs_reduction.
Print Assumptions no_neg_walk_b_reduction.
