(* PySrcEndToEndBlocks.v -- C03 / C01 / C13 stated for the SOURCE TEXT of the default strategy: the generated public methods
   SuccessionDiagram.expand_block and build (PySrcApi.v / PySrcSdBlocks.v: calls of the generated expand_source_blocks).  Corollaries of
   py_api_expand_block_spec (PySrcSdBlocksFacts.v) and the theorems about the model (BlocksFacts.v, BlockComplete.v, BlockComplete2.v). *)
From Coq Require Import List Bool Arith Lia.
Import ListNotations.
From BB Require Import BN Brute SpaceFacts TrapFacts PercolateFacts AttractorFacts Filter FilterFacts Diagram Invariants DiagramStruct DiagramSem1 Termination MinExpandFacts
  PartialOwner Blocks BlocksFacts BlockMath BlockComplete ASeedsFacts BlockComplete2
  PyLib PyLibSd PyLibCore PyLibSd2 PyLibScc PyLibControl PyLibBlocks PySrcSdBase PySrcSdBlocks PySrcSdBlocksFacts PySrcApi.

Lemma py_api_expand_block_true_model : forall fuel N cfg d tape maa sz opt exact d' t, SWF N d ->
  py_api_expand_block fuel N cfg d tape maa sz opt exact = SRet d' (true, t) ->
  expand_block fuel N cfg d maa opt sz tape = (d', RBool true).
Proof.
  intros fuel N cfg d tape maa sz opt exact d' t Hswf Hrun.
  pose proof (py_api_expand_block_spec fuel N cfg d tape maa sz opt exact Hswf) as Hspec.
  destruct (expand_block fuel N cfg d maa opt sz tape) as [d1 r].
  unfold blk_outcome in Hspec. rewrite Hrun in Hspec.
  destruct r; try discriminate Hspec; try (destruct e; discriminate Hspec).
  destruct Hspec as (t1 & Heq). injection Heq as -> -> _. reflexivity.
Qed.

(* C03: every option combination, any tape, from a fresh diagram and from any plainly reached one *)
Theorem py_api_expand_block_complete : forall fuel N cfg tape maa sz opt exact d' t, 1 <= max_motifs cfg ->
  py_api_expand_block fuel N cfg (init N) tape maa sz opt exact = SRet d' (true, t) -> MinFound N d'.
Proof.
  intros fuel N cfg tape maa sz opt exact d' t Hmm Hrun.
  eapply expand_block_MinFound; [exact Hmm|]. eapply py_api_expand_block_true_model; [apply init_SWF|exact Hrun].
Qed.

Theorem py_api_expand_block_complete_from : forall fuel N cfg d tape maa sz opt exact d' t, 1 <= max_motifs cfg -> PlainInv N d ->
  py_api_expand_block fuel N cfg d tape maa sz opt exact = SRet d' (true, t) -> MinFound N d'.
Proof.
  intros fuel N cfg d tape maa sz opt exact d' t Hmm Hp Hrun.
  eapply expand_block_MinFound_from; [exact Hmm|exact Hp|]. eapply py_api_expand_block_true_model; [exact (proj1 Hp)|exact Hrun].
Qed.

(* C01 for build(): expand_block with the method's defaults; the clean-block verdicts of the run (the is_clean tape) must be right -- an
   engine-level fact decided per run by the harness -- and the seeds of every expanded node one-to-one with its own attractors *)
Theorem py_api_build_one_to_one : forall fuel N cfg tape d' t seeds, 1 <= max_motifs cfg ->
  py_api_build fuel N cfg (init N) tape = SRet d' (true, t) ->
  clean_log_ok N (fst (expand_block_log fuel N cfg (init N) true true None tape)) ->
  exp_seeds_ok N d' seeds ->
  (forall A, attractor N A -> exists i s, i < size d' /\ n_exp (get d' i) = true /\ In s (seeds i) /\ A s) /\
  (forall A i j s t, attractor N A -> i < size d' -> j < size d' ->
     n_exp (get d' i) = true -> n_exp (get d' j) = true ->
     In s (seeds i) -> In t (seeds j) -> A s -> A t -> i = j /\ s = t).
Proof.
  intros fuel N cfg tape d' t seeds Hmm Hrun Hlog Hseeds. unfold py_api_build in Hrun.
  eapply expand_block_one_to_one; [exact Hmm| |exact Hlog|exact Hseeds].
  eapply py_api_expand_block_true_model; [apply init_SWF|exact Hrun].
Qed.

(* C13: with fuel max_nodes N + 2 the generated function does not run out of fuel *)
Theorem py_api_expand_block_terminates : forall fuel N cfg d tape maa sz opt exact, SWF N d -> max_nodes N + 2 <= fuel ->
  forall d0, py_api_expand_block fuel N cfg d tape maa sz opt exact <> SFuel d0.
Proof.
  intros fuel N cfg d tape maa sz opt exact Hswf Hfuel d0 Heq.
  pose proof (py_api_expand_block_spec fuel N cfg d tape maa sz opt exact Hswf) as Hspec.
  pose proof (expand_block_terminates fuel N cfg d maa opt sz tape Hswf Hfuel) as Hterm.
  destruct (expand_block fuel N cfg d maa opt sz tape) as [d1 r]. cbn [snd] in Hterm.
  unfold blk_outcome in Hspec. rewrite Heq in Hspec.
  destruct r; try discriminate Hspec; try congruence; try (destruct e; discriminate Hspec).
  destruct Hspec as (t1 & Hbad). discriminate Hbad.
Qed.

(* C15 / C14 for the text: WHATEVER the generated expand_block returns -- True, False at a size limit, the motif-limit error, out of fuel -- the diagram
   it leaves is the model's, hence well-formed, an extension of the one it started from, and with sound cache tags *)
Definition flow_sd {R S : Type} (f : sflow R S) : sd :=
  match f with SRet d _ => d | SRaise d _ => d | SBad d => d | SFuel d => d | SCont d _ => d | SNext d _ => d end.

Lemma py_api_expand_block_flow_sd : forall fuel N cfg d tape maa sz opt exact, SWF N d ->
  flow_sd (py_api_expand_block fuel N cfg d tape maa sz opt exact) = fst (expand_block fuel N cfg d maa opt sz tape).
Proof.
  intros fuel N cfg d tape maa sz opt exact Hswf.
  pose proof (py_api_expand_block_spec fuel N cfg d tape maa sz opt exact Hswf) as Hspec.
  destruct (expand_block fuel N cfg d maa opt sz tape) as [d1 r]. cbn [fst].
  unfold blk_outcome in Hspec. destruct r; try (rewrite Hspec; reflexivity).
  destruct Hspec as (t1 & Heq). rewrite Heq. reflexivity.
Qed.

Theorem py_api_expand_block_any_result : forall fuel N cfg d tape maa sz opt exact, SWF N d ->
  SWF N (flow_sd (py_api_expand_block fuel N cfg d tape maa sz opt exact)) /\
  extends d (flow_sd (py_api_expand_block fuel N cfg d tape maa sz opt exact)).
Proof.
  intros fuel N cfg d tape maa sz opt exact Hswf. rewrite (py_api_expand_block_flow_sd _ _ _ _ _ _ _ _ _ Hswf).
  split; [apply expand_block_SWF|apply expand_block_extends]; exact Hswf.
Qed.

Theorem py_api_expand_block_CacheOK : forall fuel N cfg d tape maa sz opt exact, SWF N d -> NoStubEdges d -> CacheOK d ->
  CacheOK (flow_sd (py_api_expand_block fuel N cfg d tape maa sz opt exact)).
Proof.
  intros fuel N cfg d tape maa sz opt exact Hswf Hn Hc. rewrite (py_api_expand_block_flow_sd _ _ _ _ _ _ _ _ _ Hswf).
  apply expand_block_CacheOK; assumption.
Qed.

Print Assumptions py_api_expand_block_any_result.
Print Assumptions py_api_expand_block_CacheOK.
Print Assumptions py_api_expand_block_complete.
Print Assumptions py_api_expand_block_complete_from.
Print Assumptions py_api_build_one_to_one.
Print Assumptions py_api_expand_block_terminates.
