(* PyLibSd2.v -- additions to the embedding PyLibSd.v for expand_minimal_spaces (tools/py2coq_sd.py).  Definitions only; trusted.

     sd.node_percolated_petri_net(i, compute=True)      an opaque object standing for the percolated net of node i
                                                        (the caching side effect is not modelled)
     trappist(network=<that>, problem="min", ensure_subspace=X)
                                                        trappist_min_sd .. tape = tape: the recorded answer of the solver (the
                                                        tape of Diagram.expand_min; the theorems assume the tape contract
                                                        perm_of tape (min_traps_b N X) = true, checked on every replayed call)
     X | y on dicts                                     PyLibCore.space_union (right operand wins)
     copy.copy(l)                                       l (values are immutable here)
     [f(x) for x in l if c(x)]                          map f (filter c l)
     l.remove(x)                                        Diagram.remove_space (ValueError -> RRaised ErrAssert, as in the model)
     node = sd.node_data(i)                             an alias of node i, captured when bound; node["f"] = v is upd_node
     sd._ensure_node(p, m)                              Diagram.ensure_node N sd_ (Some p) m   (tied to the text of _ensure_node by
                                                        PySrcCoreFacts.py_ensure_node_spec)
     sd.node_is_minimal(i)                              Diagram.is_minimal sd_ i               (PySrcCoreFacts.py_node_is_minimal_spec)
     a nested def                                       a separate definition with the same state threading, called with s_call
     break                                              a hidden boolean local brk_ that the loop test reads
     `if sd.config["debug"]: print(..)`                 dropped *)
From Coq Require Import List Bool Arith.
Import ListNotations.
From BB Require Import BN Diagram PyLib PyLibSd.

Definition trappist_min_sd (N : net) (node_space ensure : space) (tape : list space) : list space := tape.

(* the body of a nested function: its local state does not escape *)
Definition s_close {R S : Type} (f : sflow R S) : sflow R unit :=
  match f with
  | SRet d r => SRet d r
  | SRaise d e => SRaise d e
  | SBad d => SBad d
  | SFuel d => SFuel d
  | SCont d _ => SBad d
  | SNext d _ => SNext d Datatypes.tt
  end.

(* a call of a nested function whose result is not used *)
Definition s_call {R' R S : Type} (f : sflow R' unit) (k : sd -> sflow R S) : sflow R S :=
  match f with
  | SRet d _ => k d
  | SNext d _ => k d
  | SRaise d e => SRaise d e
  | SBad d => SBad d
  | SFuel d => SFuel d
  | SCont d _ => SBad d
  end.

(* a call of a translated public method whose result is ignored: an exception (or running out of fuel) propagates *)
Definition s_after {R S : Type} (p : sd * result) (k : sd -> sflow R S) : sflow R S :=
  match snd p with
  | RRaised _ | RFuel => SRaise (fst p) (snd p)
  | _ => k (fst p)
  end.
